import ChialispModel.Base.Bytes
import ChialispModel.Base.Val
import ChialispModel.Base.Path
