/-
  Text/IR.lean — the classic text syntax: `binutils::{disassemble, assemble}` with the IR
  writer (`ir/writer.rs`) and the IR reader (`ir/reader.rs`).  Text is `Bytes`.

  Mirrors the code as it is, including the known defect that `Bytes::to_formal_string`
  (`pybytes_repr(.., dquoted = true, full_repr = false)`) does not escape a backslash while
  `consume_quoted` treats a backslash as an escape.

  Scope notes (where the model is narrower than the code, all outside the property):
  * `assemble(&str)`: the text is valid UTF-8 in the code; `Symbol(decode())` is lossy on invalid
    UTF-8, the model keeps the bytes (equal on every `&str`).
  * allocator limits (atom/pair counts) are not modelled.
-/
import ChialispModel.Base.Val
import ChialispModel.Text.Lex
import ChialispModel.Text.KwTables

/-- `IRRepr` (`Symbol` carries bytes instead of a `String`). -/
inductive IR where
  | cons (a d : IR)
  | null
  | quotes (b : Bytes)
  | int (b : Bytes) (signed : Bool)
  | hex (b : Bytes)
  | symbol (s : Bytes)
  deriving Repr, DecidableEq, Inhabited

/-- reader errors (`SyntaxErr` messages collapsed to their kind). -/
inductive RdErr where
  | unterminated      -- "unterminated string starting at …"
  | missingParen      -- "missing )"
  | emptyStream       -- "empty stream"
  | badHex            -- hex::decode error
  | fuel              -- model artefact: never returned when fuel ≥ text length + 1
  deriving Repr, DecidableEq, Inhabited

namespace IR

-- disassembly: CLVM value → IR -----------------------------------------------------------------

/-- membership in `PRINTABLE_CHARS` (all of ASCII 32..126 except the double quote). -/
def isPrintableByte (b : UInt8) : Bool := 32 ≤ b.toNat && b.toNat ≤ 126 && b != 34

/-- `String::from_utf8(atom).is_ok() && is_printable_string(..)`: every printable char is ASCII,
    so this is a condition on the bytes. -/
def isPrintableString (b : Bytes) : Bool := b.all isPrintableByte

/-- `has_oversized_sign_extension` -/
def hasOversizedSignExtension (b : Bytes) : Bool :=
  match b with
  | [] => false
  | [x] => x == 0
  | x :: y :: _ =>
    if x == 0 then y.toNat < 128
    else if x == 255 then 128 ≤ y.toNat
    else false

/-- the keyword branch of `ir_for_atom`. -/
def kwFor (ver : Nat) (atom : Bytes) (allowKeyword : Bool) : Option Bytes :=
  if allowKeyword then KwTables.keywordFromAtom ver atom else none

/-- `ir_for_atom` -/
def irForAtom (ver : Nat) (atom : Bytes) (allowKeyword : Bool) : IR :=
  if atom.length == 0 then .null
  else if atom.length > 2 then
    if isPrintableString atom then .quotes atom else .hex atom
  else
    match kwFor ver atom allowKeyword with
    | some kw => .symbol kw
    | none =>
      if atom != [0] && !hasOversizedSignExtension atom then .int atom true else .hex atom

/-- THE DEFECT CLASS of C09 (see known_findings: C09-classic-backslash): atoms the disassembler
    prints as a quoted string (`Quotes`: more than 2 bytes, all printable) that contain a backslash. -/
def backslashQuoted (atom : Bytes) : Bool :=
  atom.length > 2 && isPrintableString atom && atom.contains 92

/-- no atom of the value is in the defect class -/
def noBackslashQuoted : Val → Bool
  | .atom b => !backslashQuoted b
  | .pair a d => noBackslashQuoted a && noBackslashQuoted d

/-- `disassemble_to_ir_with_kw` -/
def disToIR (ver : Nat) : Val → Bool → IR
  | .pair l r, allow => .cons (disToIR ver l (allow || l.isPair)) (disToIR ver r false)
  | .atom b, allow => irForAtom ver b allow

-- writer ---------------------------------------------------------------------------------------

/-- one character of `pybytes_repr` with quote character `quote`. -/
def reprByte (quote : UInt8) (fullRepr : Bool) (c : UInt8) : Bytes :=
  if c == quote || (c == 92 && fullRepr) then [92, c]
  else if c == 9 then [92, 116]
  else if c == 10 then [92, 110]
  else if c == 13 then [92, 114]
  else if c.toNat < 32 || 127 ≤ c.toNat then 92 :: 120 :: Lex.toHex [c]
  else [c]

/-- the quote character `pybytes_repr` chooses. -/
def reprQuote (r : Bytes) (dquoted : Bool) : UInt8 :=
  if (r.contains 39 && !r.contains 34) || dquoted then 34 else 39

/-- `pybytes_repr(r, dquoted, full_repr)` -/
def pybytesRepr (r : Bytes) (dquoted fullRepr : Bool) : Bytes :=
  (if dquoted then [] else [98]) ++
    (reprQuote r dquoted :: (r.flatMap (reprByte (reprQuote r dquoted) fullRepr) ++ [reprQuote r dquoted]))

/-- the `full_repr` argument that `Bytes::to_formal_string` passes to `pybytes_repr`.
    `true` since the /repo repair 1c2814c (a backslash is written as two backslashes); it was
    `false` in the code as found — the C09 defect C09-classic-backslash (a backslash written
    unescaped while `consume_quoted` reads it as an escape).  All writer definitions below take
    the flag, so the unrepaired writer stays available (`…With false`) for the theorems that
    document the former defect (`Props/C09.classic_roundtrip_unrepaired_*`). -/
def codeFullRepr : Bool := true

/-- `Bytes::to_formal_string` with the given `full_repr` -/
def toFormalStringWith (fr : Bool) (b : Bytes) : Bytes := pybytesRepr b true fr

/-- `Bytes::to_formal_string` -/
def toFormalString (b : Bytes) : Bytes := toFormalStringWith codeFullRepr b

/-- `bigint_from_bytes(b, signed)` for the atoms the writer sees.  (For ≥ 4 bytes the code goes
    through `get_u32`; `ir_for_atom` only makes `Int` for atoms of 1–2 bytes and the reader only
    hands `Int` to `assemble_from_ir`, which never prints, so that path is not reachable here.) -/
def intOfBytes (b : Bytes) (signed : Bool) : Int :=
  if signed then Bytes.toInt b else Int.ofNat (Bytes.toNatBE b)

/-- what `IROutputState::Start` emits for a non-`Cons` value. -/
def writeAtomWith (fr : Bool) : IR → Bytes
  | .null => [40, 41]
  | .quotes q => toFormalStringWith fr q
  | .int i signed => Lex.intToDec (intOfBytes i signed)
  | .hex h => 48 :: 120 :: Lex.toHex h
  | .symbol s => s
  | .cons _ _ => []

mutual
/-- output of the state machine started in `Start(v)` until that state is exhausted. -/
def writeStartWith (fr : Bool) : IR → Bytes
  | .cons l r => 40 :: (writeStartWith fr l ++ writeRestWith fr r)
  | .null => writeAtomWith fr .null
  | .quotes q => writeAtomWith fr (.quotes q)
  | .int i s => writeAtomWith fr (.int i s)
  | .hex h => writeAtomWith fr (.hex h)
  | .symbol s => writeAtomWith fr (.symbol s)
/-- output from `MaybeSep(r)` up to and including the matching `EndParen`. -/
def writeRestWith (fr : Bool) : IR → Bytes
  | .null => [41]
  | .cons l r => 32 :: (writeStartWith fr l ++ writeRestWith fr r)
  | .quotes q => 32 :: 46 :: 32 :: (writeAtomWith fr (.quotes q) ++ [41])
  | .int i s => 32 :: 46 :: 32 :: (writeAtomWith fr (.int i s) ++ [41])
  | .hex h => 32 :: 46 :: 32 :: (writeAtomWith fr (.hex h) ++ [41])
  | .symbol s => 32 :: 46 :: 32 :: (writeAtomWith fr (.symbol s) ++ [41])
end

/-- `write_ir` with the given `full_repr` -/
def writeIRWith (fr : Bool) (ir : IR) : Bytes := writeStartWith fr ir

/-- `disassemble` with the given `full_repr` -/
def disassembleWith (fr : Bool) (ver : Nat) (v : Val) : Bytes := writeIRWith fr (disToIR ver v v.isPair)

/-- `write_ir` (code as it is) -/
def writeIR (ir : IR) : Bytes := writeIRWith codeFullRepr ir

/-- `disassemble(allocator, sexp, Some(ver))` (code as it is) -/
def disassemble (ver : Nat) (v : Val) : Bytes := disassembleWith codeFullRepr ver v

-- the writer as the explicit stack machine of `IROutputIterator` ------------------------------------

inductive WState where
  | start (v : IR)
  | maybeSep (v : IR)
  | listOf (v : IR)
  | dotThen (v : IR)
  | endParen
  deriving Repr, DecidableEq

/-- `IROutputIterator::next` iterated; the stack top is the list head; output is appended. -/
def writeMachineWith (fr : Bool) : Nat → List WState → Bytes → Bytes
  | 0, _, out => out
  | _, [], out => out
  | fuel+1, .endParen :: st, out => writeMachineWith fr fuel st (out ++ [41])
  | fuel+1, .start v :: st, out =>
    match v with
    | .cons l r => writeMachineWith fr fuel (.listOf (.cons l r) :: st) (out ++ [40])
    | x => writeMachineWith fr fuel st (out ++ writeAtomWith fr x)
  | fuel+1, .maybeSep sub :: st, out =>
    match sub with
    | .null => writeMachineWith fr fuel (.endParen :: st) out
    | x => writeMachineWith fr fuel (.listOf x :: st) (out ++ [32])
  | fuel+1, .listOf v :: st, out =>
    match v with
    | .cons l r => writeMachineWith fr fuel (.start l :: .maybeSep r :: st) out
    | .null => writeMachineWith fr fuel (.endParen :: st) out
    | x => writeMachineWith fr fuel (.dotThen x :: .endParen :: st) (out ++ [46, 32])
  | fuel+1, .dotThen v :: st, out =>
    match v with
    | .cons l r => writeMachineWith fr fuel (.start l :: .listOf r :: st) out
    | x => writeMachineWith fr fuel (.start x :: st) out

/-- the machine of the code as it is -/
def writeMachine : Nat → List WState → Bytes → Bytes := writeMachineWith codeFullRepr

/-- number of machine steps that certainly suffices for `v`. -/
def machineFuel : IR → Nat
  | .cons a d => machineFuel a + machineFuel d + 6
  | _ => 6

-- reader ---------------------------------------------------------------------------------------

def isEol (c : UInt8) : Bool := c == 13 || c == 10
def isSpace (c : UInt8) : Bool := c == 32 || c == 9 || isEol c

/-- `consume_whitespace` (with its comment handling); returns the unread input. -/
def consumeWs : Bool → Bytes → Bytes
  | _, [] => []
  | true, c :: r => if isEol c then consumeWs false r else consumeWs true r
  | false, c :: r =>
    if c == 59 then consumeWs true r
    else if isSpace c then consumeWs false r
    else c :: r

/-- `consume_quoted` after the opening quote `q`; `bs` = a backslash was just seen. -/
def consumeQuoted (q : UInt8) : Bool → Bytes → Bytes → Except RdErr (IR × Bytes)
  | _, _, [] => .error .unterminated
  | true, acc, c :: r => consumeQuoted q false (acc ++ [c]) r
  | false, acc, c :: r =>
    if c == 92 then consumeQuoted q true acc r
    else if c == q then .ok (.quotes acc, r)
    else consumeQuoted q false (acc ++ [c]) r

/-- reader `is_hex` -/
def isHexTok (chars : Bytes) : Bool :=
  match chars with
  | 48 :: x :: _ :: _ => x == 120 || x == 88
  | _ => false

/-- the hex digits handed to `hex::decode`: an odd-length constant gets a `0` in front. -/
def hexDigitsOf (chars : Bytes) : Bytes :=
  if chars.length % 2 == 1 then 48 :: chars.drop 2 else chars.drop 2

/-- `interpret_atom_value` -/
def interpretAtomValue (chars : Bytes) : Except RdErr IR :=
  if chars.isEmpty then .ok .null
  else if isHexTok chars then
    match Lex.ofHexStrict (hexDigitsOf chars) with
    | some b => .ok (.hex b)
    | none => .error .badHex
  else
    match Lex.parseBigInt chars with
    | some n => .ok (.int (Bytes.ofIntClvm n) true)
    | none => .ok (.symbol chars)

def atomResult (acc rest : Bytes) : Except RdErr (Option IR × Bytes) :=
  match interpretAtomValue acc with
  | .ok ir => .ok (some ir, rest)
  | .error e => .error e

/-- `consume_atom`; `acc` = characters collected so far. -/
def consumeAtom : Bytes → Bytes → Except RdErr (Option IR × Bytes)
  | acc, [] => if acc.isEmpty then .ok (none, []) else atomResult acc []
  | acc, c :: r =>
    if c == 40 || c == 41 || isSpace c then atomResult acc (c :: r)
    else consumeAtom (acc ++ [c]) r

/-- `enlist_ir` -/
def enlist (items : List IR) (tail : IR) : IR := items.foldr IR.cons tail

def isQuoteChar (c : UInt8) : Bool := c == 34 || c == 39

/-- what `consume_cons_body` / `consume_object` do with an atom result. -/
def expectCloseParen (items : List IR) (v : IR) (s : Bytes) : Except RdErr (IR × Bytes) :=
  match s with
  | 41 :: r => .ok (enlist items v, r)
  | _ => .error .missingParen

/-- `consume_object`, given the function that reads a list body (`consume_cons_body`). -/
def consumeObjectWith (body : Bytes → List IR → Except RdErr (IR × Bytes)) (s : Bytes) :
    Except RdErr (IR × Bytes) :=
  match consumeWs false s with
  | [] => .ok (.null, [])
  | c :: r =>
    if c == 40 then body r []
    else if isQuoteChar c then consumeQuoted c false [] r
    else
      match consumeAtom [c] r with
      | .ok (some ir, r') => .ok (ir, r')
      | .ok (none, _) => .error .emptyStream
      | .error e => .error e

/-- `consume_cons_body`; one unit of fuel per loop iteration / nested call. -/
def consumeConsBody : Nat → Bytes → List IR → Except RdErr (IR × Bytes)
  | 0, _, _ => .error .fuel
  | fuel+1, s, items =>
    match consumeWs false s with
    | [] => .error .missingParen
    | c :: r =>
      if c == 41 then .ok (enlist items .null, r)
      else if c == 40 then
        match consumeConsBody fuel r [] with
        | .ok (v, r') => consumeConsBody fuel r' (items ++ [v])
        | .error e => .error e
      else if c == 46 then
        match consumeObjectWith (consumeConsBody fuel) (consumeWs false r) with
        | .ok (v, r') => expectCloseParen items v (consumeWs false r')
        | .error e => .error e
      else if isQuoteChar c then
        match consumeQuoted c false [] r with
        | .ok (v, r') => consumeConsBody fuel r' (items ++ [v])
        | .error e => .error e
      else
        match consumeAtom [c] r with
        | .ok (some v, r') => consumeConsBody fuel r' (items ++ [v])
        | .ok (none, _) => .error .missingParen
        | .error e => .error e

/-- `consume_object` -/
def consumeObject (fuel : Nat) (s : Bytes) : Except RdErr (IR × Bytes) :=
  consumeObjectWith (consumeConsBody fuel) s

/-- `IRReader::read_expr` on the whole text. -/
def readIR (text : Bytes) : Except RdErr IR :=
  match consumeObject (text.length + 1) text with
  | .ok (ir, _) => .ok ir
  | .error e => .error e

/-- the `Symbol` case of `assemble_from_ir`: strip one leading `#`, then keyword or literal bytes. -/
def symbolAtom (s : Bytes) : Bytes :=
  match KwTables.keywordToAtom KwTables.latestVersion (match s with | 35 :: t => t | _ => s) with
  | some v => v
  | none => (match s with | 35 :: t => t | _ => s)

/-- `assemble_from_ir` -/
def assembleFromIR : IR → Val
  | .null => .atom []
  | .quotes b => .atom b
  | .int b _ => .atom b
  | .hex b => .atom b
  | .symbol s => .atom (symbolAtom s)
  | .cons l r => .pair (assembleFromIR l) (assembleFromIR r)

/-- `assemble` -/
def assemble (text : Bytes) : Except RdErr Val :=
  match readIR text with
  | .ok ir => .ok (assembleFromIR ir)
  | .error e => .error e

end IR
