/-
  Text/Srcloc.lean — source locations of the modern compiler (`compiler::srcloc::Srcloc`):
  `{file, line, col, until}`, `advance`, `ext`, `combine_src_location`, `src_location_min/max`,
  `ending`, `len`, `overlap`; and the text-side vocabulary used to state C15: byte offsets
  of (line, col) positions and the span a location denotes.

  Files are numbers: `0` is the text being read, `1` the built-in `*prims*` pseudo-file
  (the only other file name the reader can attach).
-/
import ChialispModel.Base.Bytes

structure Srcloc where
  file : Nat
  line : Nat
  col : Nat
  untl : Option (Nat × Nat)
  deriving DecidableEq, Repr, Inhabited

namespace Srcloc

/-- `Srcloc::start(file)` -/
def start (file : Nat) : Srcloc := ⟨file, 1, 1, none⟩

/-- the file number of the text handed to the reader -/
def inputFile : Nat := 0
/-- `Srcloc::start("*prims*")`, the location every entry of `prims()` carries -/
def primsFile : Nat := 1
def primLoc : Srcloc := start primsFile

/-- `Srcloc::advance` (newline, tab, anything else). -/
def advance (l : Srcloc) (ch : UInt8) : Srcloc :=
  if ch = 10 then { l with col := 1, line := l.line + 1 }
  else if ch = 9 then { l with col := (l.col + 8) / 8 * 8 }
  else { l with col := l.col + 1 }

/-- `src_location_min` -/
def locMin (a : Srcloc) : Nat × Nat := (a.line, a.col)

/-- `src_location_max` -/
def locMax (a : Srcloc) : Nat × Nat :=
  match a.untl with
  | none => (a.line, a.col + 1)
  | some u => u

/-- `add_onto x y` -/
def addOnto (x y : Srcloc) : Srcloc := ⟨x.file, x.line, x.col, some (locMax y)⟩

/-- `combine_src_location` -/
def combine (a b : Srcloc) : Srcloc :=
  if a.line < b.line then addOnto a b
  else if a.line = b.line then
    if a.col < b.col then addOnto a b
    else if a.col = b.col then a
    else addOnto b a
  else addOnto b a

/-- `Srcloc::ext`: a location from another file is ignored. -/
def ext (a b : Srcloc) : Srcloc :=
  if b.file = a.file then combine a b else a

/-- `Srcloc::ending` -/
def ending (a : Srcloc) : Srcloc :=
  match a.untl with
  | some u => ⟨a.file, u.1, u.2, none⟩
  | none => a

/-- `Srcloc::len` -/
def len (a : Srcloc) : Option Nat :=
  match a.untl with
  | some u => if u.1 ≠ a.line then none else some (u.2 - a.col)
  | none => some 1

/-- the `(Some, None)` arm of `Srcloc::overlap` -/
def overlapPoint (a : Srcloc) (u : Nat × Nat) (o : Srcloc) : Bool :=
  if a.line < o.line ∧ u.1 > o.line then true
  else
    match a.len with
    | some n => decide (a.line = o.line ∧ a.col ≤ o.col ∧ a.col + n ≥ o.col)
    | none => decide ((a.line = o.line ∧ a.col ≤ o.col) ∨ (u.1 = o.line ∧ u.2 ≥ o.col))

/-- `Srcloc::overlap` (the `(Some, Some)` arm recurses on point locations only, so it is
    written out with `overlapPoint`). -/
def overlap (a o : Srcloc) : Bool :=
  if a.file ≠ o.file then false
  else if a.line = o.line ∧ a.col = o.col then true
  else
    match a.untl, o.untl with
    | none, none => false
    | none, some ou => overlapPoint o ou a
    | some au, none => overlapPoint a au o
    | some au, some ou =>
      let pt (f l c : Nat) : Srcloc := ⟨f, l, c, none⟩
      let ovl (x : Srcloc) (xu : Nat × Nat) (p : Srcloc) : Bool :=
        (x.line = p.line ∧ x.col = p.col) || overlapPoint x xu p
      ovl o ou (pt a.file a.line a.col) || ovl o ou (pt a.file au.1 au.2) ||
      ovl a au (pt a.file o.line o.col) || ovl a au (pt a.file ou.1 ou.2)

end Srcloc

/-! ### Texts, positions, offsets, spans -/

namespace Text

/-- no tab characters (the hypothesis of every C15 theorem: a tab advances the column by a
    variable amount, so columns are not byte counts). -/
def TabFree (t : Bytes) : Prop := ∀ c ∈ t, c ≠ 9

instance (t : Bytes) : Decidable (TabFree t) := by unfold TabFree; infer_instance

/-- the cursor after reading `pre` from `l` (what `ParsePartialResult.srcloc` holds). -/
def posAfter (l : Srcloc) (pre : Bytes) : Srcloc := pre.foldl Srcloc.advance l

/-- the location (a single character, `until = None`) of byte number `i` of `t`. -/
def posAt (t : Bytes) (i : Nat) : Srcloc := posAfter (Srcloc.start Srcloc.inputFile) (t.take i)

/-- offset just after the `k`-th newline of `t` (0 for `k = 0`). -/
def lineStart : Nat → Bytes → Nat
  | 0, _ => 0
  | _+1, [] => 0
  | k+1, c :: r => 1 + (if c = 10 then lineStart k r else lineStart (k+1) r)

/-- byte offset of (line, col), both 1-based, in a tab-free text. -/
def offsetOf (t : Bytes) (lc : Nat × Nat) : Nat := lineStart (lc.1 - 1) t + (lc.2 - 1)

/-- the half-open byte range a location denotes: from (line, col) up to `until`
    (exclusive); `until = None` means one character. -/
def spanOf (t : Bytes) (l : Srcloc) : Nat × Nat :=
  (offsetOf t l.locMin, offsetOf t l.locMax)

def slice (t : Bytes) (r : Nat × Nat) : Bytes := (t.drop r.1).take (r.2 - r.1)

/-- the characters a location addresses -/
def sliceLoc (t : Bytes) (l : Srcloc) : Bytes := slice t (spanOf t l)

/-- `l` is, in the reader's own coordinates, the location of the non-empty byte range
    `[i, j)` of `t`: it starts at the position of byte `i` and its end is one column past the
    position of byte `j-1`. -/
def Span (t : Bytes) (l : Srcloc) (i j : Nat) : Prop :=
  l.file = Srcloc.inputFile ∧ i < j ∧ j ≤ t.length ∧
  l.line = (posAt t i).line ∧ l.col = (posAt t i).col ∧
  ((l.untl = none ∧ j = i + 1) ∨
   l.untl = some ((posAt t (j - 1)).line, (posAt t (j - 1)).col + 1))

end Text
