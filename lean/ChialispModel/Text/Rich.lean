/-
  Text/Rich.lean — the modern compiler's s-expression type (`compiler::sexp::SExp`) without
  source locations, and its conversion to/from CLVM values (`convert_to_clvm_rs`,
  `convert_from_clvm_rs`) in both integer-conversion modes.
-/
import ChialispModel.Base.Val

inductive Rich where
  | nil
  | cons (a d : Rich)
  | int (i : Int)
  | qstr (q : UInt8) (b : Bytes)
  | atom (b : Bytes)
  deriving Repr, DecidableEq, Inhabited

/-- `NewStyleIntConversion::setting()`: `true` = fixed mode (cl23.1+), `false` = legacy. -/
abbrev Mode := Bool

namespace Rich

/-- `printable(a, quoted)` from sexp.rs. -/
def printable (a : Bytes) (quoted : Bool) : Bool :=
  !a.any (fun ch =>
    ch < 32 || ch > 126 ||
    (!quoted && (ch == 32 || ch == 9 || ch == 10 || ch == 12 || ch == 13 || ch == 39)) ||
    ch == 34 || ch == 92)

/-- `convert_to_clvm_rs` -/
def toClvm (m : Mode) : Rich → Val
  | .nil => .atom []
  | .atom x => .atom x
  | .qstr _ x => .atom x
  | .int i => if m && i == 0 then .atom [] else .atom (Bytes.ofInt i)
  | .cons a d => .pair (toClvm m a) (toClvm m d)

/-- the atom case of `convert_from_clvm_rs` -/
def fromAtom (m : Mode) (b : Bytes) : Rich :=
  if b.isEmpty then .nil
  else
    let i := Bytes.toInt b
    if Bytes.ofInt i == b then
      if m && b == [0] then .qstr 120 b else .int i
    else if m && !printable b true then .qstr 120 b
    else .atom b

/-- `convert_from_clvm_rs` -/
def fromClvm (m : Mode) : Val → Rich
  | .atom b => fromAtom m b
  | .pair a d => .cons (fromClvm m a) (fromClvm m d)

/-- `SExp::nilp` -/
def nilp : Rich → Bool
  | .nil => true
  | .qstr _ v => v.isEmpty
  | .int i => i == 0
  | .atom a => a.isEmpty
  | .cons _ _ => false

/-- the bytes `equal_to` / `Hash` compare an atom-like value by (`atomize`). -/
def atomBytes : Rich → Bytes
  | .nil => []
  | .int i => Bytes.ofInt i
  | .qstr _ b => b
  | .atom b => b
  | .cons _ _ => []

/-- `SExp::equal_to` (`PartialEq`). -/
def equalTo : Rich → Rich → Bool
  | .cons r s, .cons t u => equalTo r t && equalTo s u
  | .cons _ _, _ => false
  | _, .cons _ _ => false
  | a, b => (nilp a && nilp b) || (!nilp a && !nilp b && atomBytes a == atomBytes b)

/-- what `impl Hash for SExp` feeds the hasher: the sequence of atom byte vectors in
    left-to-right order (a `Vec<u8>` is hashed with its length, so the sequence is what counts). -/
def hashKey : Rich → List Bytes
  | .cons a d => hashKey a ++ hashKey d
  | r => [atomBytes r]

/-- `compiler::clvm::sha256tree` with hash function `H`. -/
def treeHash (m : Mode) (H : Bytes → Bytes) : Rich → Bytes
  | .cons a d => H (2 :: (treeHash m H a ++ treeHash m H d))
  | .nil => H [1]
  | .int i => if m && i == 0 then H [1] else H (1 :: Bytes.ofInt i)
  | .qstr _ v => H (1 :: v)
  | .atom v => H (1 :: v)

/-- `debug::build_table_mut`'s returned hash (ignores the integer mode). -/
def tableHash (H : Bytes → Bytes) : Rich → Bytes
  | .cons a d => H (2 :: (tableHash H a ++ tableHash H d))
  | r => H (1 :: atomBytes r)

/-- values the reader and `fromClvm true` produce: no `int 0`. -/
def Readable : Rich → Bool
  | .int i => i != 0
  | .cons a d => Readable a && Readable d
  | _ => true

end Rich

namespace Val

/-- consensus tree hash (clvmr / classic `sha256tree`). -/
def treeHash (H : Bytes → Bytes) : Val → Bytes
  | .atom b => H (1 :: b)
  | .pair a d => H (2 :: (treeHash H a ++ treeHash H d))

end Val
