/-
  Text/Lex.lean — byte-level lexical helpers shared by the classic IR reader/writer
  (Text/IR.lean), the modern printer (Text/Printer.lean) and the modern reader
  (Text/ModernReader.lean).  Text is `Bytes` (= `List UInt8`) everywhere: every printer in
  the code base produces ASCII, and both readers work byte-at-a-time.

  * decimal printing            = `BigInt::to_string`
  * decimal parsing             = num-bigint 0.4.6 `BigInt::from_str_radix(s, 10)` (`str::parse::<Number>`)
  * hex printing                = `hex::encode` / `binascii::bin2hex`
  * strict hex parsing          = `hex::decode`         (classic reader)
  * lossy hex parsing           = `binascii::hex2bin(..).ok()` into a zeroed buffer (modern reader)
-/
import ChialispModel.Base.Bytes

deriving instance DecidableEq for Except

namespace Lex

-- decimal -----------------------------------------------------------------------------------

/-- the ASCII digit of `n < 10`. -/
def digit (n : Nat) : UInt8 := UInt8.ofNat (48 + n)

/-- most significant digit first; `fuel` > `n` always suffices. -/
def natToDecAux : Nat → Nat → Bytes
  | 0, _ => []
  | fuel+1, n => if n < 10 then [digit n] else natToDecAux fuel (n / 10) ++ [digit (n % 10)]

def natToDec (n : Nat) : Bytes := natToDecAux (n + 1) n

/-- `BigInt::to_string` (radix 10): `-` then the magnitude; zero is `0`. -/
def intToDec : Int → Bytes
  | .ofNat n => natToDec n
  | .negSucc n => 45 :: natToDec (n + 1)

/-- radix-10 digit value as num-bigint computes it (letters have value ≥ 10 and are rejected). -/
def digitVal10 (b : UInt8) : Option Nat :=
  if 48 ≤ b.toNat ∧ b.toNat ≤ 57 then some (b.toNat - 48) else none

/-- the digit loop of `BigUint::from_str_radix`: `_` is skipped, anything that is not a
    decimal digit is an error; value = positional value of the digits. -/
def parseUDigits : Bytes → Nat → Option Nat
  | [], acc => some acc
  | b :: r, acc =>
    if b == 95 then parseUDigits r acc
    else match digitVal10 b with
      | some d => parseUDigits r (acc * 10 + d)
      | none => none

/-- `s.strip_prefix('+')` unless the tail starts with another `+`. -/
def stripPlus (s : Bytes) : Bytes :=
  match s with
  | 43 :: 43 :: _ => s
  | 43 :: tail => tail
  | _ => s

/-- what remains after the sign step of `BigInt::from_str_radix` for a string starting with `-`. -/
def stripMinusTail (s tail : Bytes) : Bytes :=
  match tail with
  | 43 :: _ => s
  | _ => tail

/-- `BigUint::from_str_radix(s, 10)`. -/
def parseBigUint (s : Bytes) : Option Nat :=
  match stripPlus s with
  | [] => none
  | 95 :: _ => none
  | c :: r => parseUDigits (c :: r) 0

/-- `BigInt::from_str_radix(s, 10)` = `s.parse::<Number>()`. -/
def parseBigInt (s : Bytes) : Option Int :=
  match s with
  | 45 :: tail =>
    match parseBigUint (stripMinusTail s tail) with
    | some n => some (- (Int.ofNat n))
    | none => none
  | _ =>
    match parseBigUint s with
    | some n => some (Int.ofNat n)
    | none => none

-- hex ---------------------------------------------------------------------------------------

/-- lower-case hex digit of `n < 16`. -/
def hexDigit (n : Nat) : UInt8 :=
  if n < 10 then UInt8.ofNat (48 + n) else UInt8.ofNat (87 + n)

/-- `hex::encode` / `bin2hex`. -/
def toHex : Bytes → Bytes
  | [] => []
  | b :: r => hexDigit (b.toNat / 16) :: hexDigit (b.toNat % 16) :: toHex r

/-- value of a hex digit, both cases (`hex::decode` and `hex2bin` agree). -/
def hexVal (c : UInt8) : Option Nat :=
  if 48 ≤ c.toNat ∧ c.toNat ≤ 57 then some (c.toNat - 48)
  else if 97 ≤ c.toNat ∧ c.toNat ≤ 102 then some (c.toNat - 87)
  else if 65 ≤ c.toNat ∧ c.toNat ≤ 70 then some (c.toNat - 55)
  else none

/-- `hex::decode`: odd length or any non-hex character is an error. -/
def ofHexStrict : Bytes → Option Bytes
  | [] => some []
  | [_] => none
  | a :: b :: r =>
    match hexVal a, hexVal b, ofHexStrict r with
    | some x, some y, some t => some (UInt8.ofNat (x * 16 + y) :: t)
    | _, _, _ => none

/-- `hex2bin(input, &mut zeroed).ok()` for an even-length input: bytes are written pair by pair;
    at the first bad digit the conversion stops and the remaining output bytes stay zero.
    `stopped = true` once a bad digit was seen. -/
def ofHexLossy : Bool → Bytes → Bytes
  | _, [] => []
  | _, [_] => []
  | true, _ :: _ :: r => 0 :: ofHexLossy true r
  | false, a :: b :: r =>
    match hexVal a, hexVal b with
    | some x, some y => UInt8.ofNat (x * 16 + y) :: ofHexLossy false r
    | _, _ => 0 :: ofHexLossy true r

end Lex
