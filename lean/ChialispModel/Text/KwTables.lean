/-
  Text/KwTables.lean — operator keyword tables, HAND-COPIED from the sources for now:
    * `kwPairs`  = `KW_PAIRS` of /repo/src/classic/clvm/mod.rs  (atom bytes, name bytes, version)
    * `prims`    = `prims()`  of /repo/src/compiler/prims.rs    (name bytes, integer value)
  The C20 translator regenerates `Generated/Tables.lean` from the sources on every run; once that
  exists this file is to be replaced by a re-export of it.  Until then the C09 check compares these
  tables with the runtime tables of the real code (`cvh text`, line `k`) on every run.
  Names are spelled as byte lists so that `decide` can evaluate lookups.
-/
import ChialispModel.Base.Bytes

namespace KwTables

/-- `KW_PAIRS`: (atom, name, version in which the operator appeared). -/
def kwPairs : List (Bytes × Bytes × Nat) := [
  ([1], [113], 0)  /- q -/,
  ([2], [97], 0)  /- a -/,
  ([3], [105], 0)  /- i -/,
  ([4], [99], 0)  /- c -/,
  ([5], [102], 0)  /- f -/,
  ([6], [114], 0)  /- r -/,
  ([7], [108], 0)  /- l -/,
  ([8], [120], 0)  /- x -/,
  ([9], [61], 0)  /- = -/,
  ([10], [62, 115], 0)  /- >s -/,
  ([11], [115, 104, 97, 50, 53, 54], 0)  /- sha256 -/,
  ([12], [115, 117, 98, 115, 116, 114], 0)  /- substr -/,
  ([13], [115, 116, 114, 108, 101, 110], 0)  /- strlen -/,
  ([14], [99, 111, 110, 99, 97, 116], 0)  /- concat -/,
  ([16], [43], 0)  /- + -/,
  ([17], [45], 0)  /- - -/,
  ([18], [42], 0)  /- * -/,
  ([19], [47], 0)  /- / -/,
  ([20], [100, 105, 118, 109, 111, 100], 0)  /- divmod -/,
  ([21], [62], 0)  /- > -/,
  ([22], [97, 115, 104], 0)  /- ash -/,
  ([23], [108, 115, 104], 0)  /- lsh -/,
  ([24], [108, 111, 103, 97, 110, 100], 0)  /- logand -/,
  ([25], [108, 111, 103, 105, 111, 114], 0)  /- logior -/,
  ([26], [108, 111, 103, 120, 111, 114], 0)  /- logxor -/,
  ([27], [108, 111, 103, 110, 111, 116], 0)  /- lognot -/,
  ([29], [112, 111, 105, 110, 116, 95, 97, 100, 100], 0)  /- point_add -/,
  ([30], [112, 117, 98, 107, 101, 121, 95, 102, 111, 114, 95, 101, 120, 112], 0)  /- pubkey_for_exp -/,
  ([32], [110, 111, 116], 0)  /- not -/,
  ([33], [97, 110, 121], 0)  /- any -/,
  ([34], [97, 108, 108], 0)  /- all -/,
  ([36], [115, 111, 102, 116, 102, 111, 114, 107], 0)  /- softfork -/,
  ([48], [99, 111, 105, 110, 105, 100], 1)  /- coinid -/,
  ([49], [103, 49, 95, 115, 117, 98, 116, 114, 97, 99, 116], 1)  /- g1_subtract -/,
  ([50], [103, 49, 95, 109, 117, 108, 116, 105, 112, 108, 121], 1)  /- g1_multiply -/,
  ([51], [103, 49, 95, 110, 101, 103, 97, 116, 101], 1)  /- g1_negate -/,
  ([52], [103, 50, 95, 97, 100, 100], 1)  /- g2_add -/,
  ([53], [103, 50, 95, 115, 117, 98, 116, 114, 97, 99, 116], 1)  /- g2_subtract -/,
  ([54], [103, 50, 95, 109, 117, 108, 116, 105, 112, 108, 121], 1)  /- g2_multiply -/,
  ([55], [103, 50, 95, 110, 101, 103, 97, 116, 101], 1)  /- g2_negate -/,
  ([56], [103, 49, 95, 109, 97, 112], 1)  /- g1_map -/,
  ([57], [103, 50, 95, 109, 97, 112], 1)  /- g2_map -/,
  ([58], [98, 108, 115, 95, 112, 97, 105, 114, 105, 110, 103, 95, 105, 100, 101, 110, 116, 105, 116, 121], 1)  /- bls_pairing_identity -/,
  ([59], [98, 108, 115, 95, 118, 101, 114, 105, 102, 121], 1)  /- bls_verify -/,
  ([60], [109, 111, 100, 112, 111, 119], 1)  /- modpow -/,
  ([61], [37], 1)  /- % -/,
  ([62], [107, 101, 99, 99, 97, 107, 50, 53, 54], 2)  /- keccak256 -/,
  ([19, 214, 31, 0], [115, 101, 99, 112, 50, 53, 54, 107, 49, 95, 118, 101, 114, 105, 102, 121], 1)  /- secp256k1_verify -/,
  ([28, 58, 143, 0], [115, 101, 99, 112, 50, 53, 54, 114, 49, 95, 118, 101, 114, 105, 102, 121], 1)  /- secp256r1_verify -/
]

/-- `prims()`: (name, value of the `SExp::Integer`). -/
def prims : List (Bytes × Int) := [
  ([113], 1)  /- q -/,
  ([97], 2)  /- a -/,
  ([105], 3)  /- i -/,
  ([99], 4)  /- c -/,
  ([102], 5)  /- f -/,
  ([114], 6)  /- r -/,
  ([108], 7)  /- l -/,
  ([120], 8)  /- x -/,
  ([61], 9)  /- = -/,
  ([62, 115], 10)  /- >s -/,
  ([115, 104, 97, 50, 53, 54], 11)  /- sha256 -/,
  ([115, 117, 98, 115, 116, 114], 12)  /- substr -/,
  ([115, 116, 114, 108, 101, 110], 13)  /- strlen -/,
  ([99, 111, 110, 99, 97, 116], 14)  /- concat -/,
  ([43], 16)  /- + -/,
  ([45], 17)  /- - -/,
  ([42], 18)  /- * -/,
  ([47], 19)  /- / -/,
  ([100, 105, 118, 109, 111, 100], 20)  /- divmod -/,
  ([62], 21)  /- > -/,
  ([97, 115, 104], 22)  /- ash -/,
  ([108, 115, 104], 23)  /- lsh -/,
  ([108, 111, 103, 97, 110, 100], 24)  /- logand -/,
  ([108, 111, 103, 105, 111, 114], 25)  /- logior -/,
  ([108, 111, 103, 120, 111, 114], 26)  /- logxor -/,
  ([108, 111, 103, 110, 111, 116], 27)  /- lognot -/,
  ([112, 111, 105, 110, 116, 95, 97, 100, 100], 29)  /- point_add -/,
  ([112, 117, 98, 107, 101, 121, 95, 102, 111, 114, 95, 101, 120, 112], 30)  /- pubkey_for_exp -/,
  ([110, 111, 116], 32)  /- not -/,
  ([97, 110, 121], 33)  /- any -/,
  ([97, 108, 108], 34)  /- all -/,
  ([115, 111, 102, 116, 102, 111, 114, 107], 36)  /- softfork -/,
  ([99, 111, 105, 110, 105, 100], 48)  /- coinid -/,
  ([103, 49, 95, 115, 117, 98, 116, 114, 97, 99, 116], 49)  /- g1_subtract -/,
  ([103, 49, 95, 109, 117, 108, 116, 105, 112, 108, 121], 50)  /- g1_multiply -/,
  ([103, 49, 95, 110, 101, 103, 97, 116, 101], 51)  /- g1_negate -/,
  ([103, 50, 95, 97, 100, 100], 52)  /- g2_add -/,
  ([103, 50, 95, 115, 117, 98, 116, 114, 97, 99, 116], 53)  /- g2_subtract -/,
  ([103, 50, 95, 109, 117, 108, 116, 105, 112, 108, 121], 54)  /- g2_multiply -/,
  ([103, 50, 95, 110, 101, 103, 97, 116, 101], 55)  /- g2_negate -/,
  ([103, 49, 95, 109, 97, 112], 56)  /- g1_map -/,
  ([103, 50, 95, 109, 97, 112], 57)  /- g2_map -/,
  ([98, 108, 115, 95, 112, 97, 105, 114, 105, 110, 103, 95, 105, 100, 101, 110, 116, 105, 116, 121], 58)  /- bls_pairing_identity -/,
  ([98, 108, 115, 95, 118, 101, 114, 105, 102, 121], 59)  /- bls_verify -/,
  ([109, 111, 100, 112, 111, 119], 60)  /- modpow -/,
  ([37], 61)  /- % -/,
  ([107, 101, 99, 99, 97, 107, 50, 53, 54], 62)  /- keccak256 -/,
  ([115, 101, 99, 112, 50, 53, 54, 107, 49, 95, 118, 101, 114, 105, 102, 121], 332799744)  /- secp256k1_verify -/,
  ([115, 101, 99, 112, 50, 53, 54, 114, 49, 95, 118, 101, 114, 105, 102, 121], 473599744)  /- secp256r1_verify -/
]

/-- `HashMap` built by inserting the pairs in order: a later pair with the same key wins. -/
def lookupLast {α} (key : Bytes) : List (Bytes × α) → Option α
  | [] => none
  | (k, v) :: r =>
    match lookupLast key r with
    | some x => some x
    | none => if k == key then some v else none

/-- `keyword_from_atom(version)` / `keyword_to_atom(version)` select table 0, 1 or (anything else) 2. -/
def tableVersion (version : Nat) : Nat := if version == 0 then 0 else if version == 1 then 1 else 2

def fromAtomTable (version : Nat) : List (Bytes × Bytes) :=
  (kwPairs.filter (fun p => p.2.2 ≤ tableVersion version)).map (fun p => (p.1, p.2.1))

def toAtomTable (version : Nat) : List (Bytes × Bytes) :=
  (kwPairs.filter (fun p => p.2.2 ≤ tableVersion version)).map (fun p => (p.2.1, p.1))

/-- `keyword_from_atom(version).get(atom)` -/
def keywordFromAtom (version : Nat) (atom : Bytes) : Option Bytes := lookupLast atom (fromAtomTable version)

/-- `keyword_to_atom(version).get(name)` -/
def keywordToAtom (version : Nat) (name : Bytes) : Option Bytes := lookupLast name (toAtomTable version)

/-- `OPERATORS_LATEST_VERSION` -/
def latestVersion : Nat := 2

/-- the `for p in prims()` search of `make_atom`: first match wins. -/
def primLookup (name : Bytes) : List (Bytes × Int) → Option Int
  | [] => none
  | (k, v) :: r => if k == name then some v else primLookup name r

end KwTables
