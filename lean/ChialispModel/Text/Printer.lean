/-
  Text/Printer.lean — the modern printer: `impl Display for SExp` (`SExp::to_string`) with
  `printable`, `escape_quote`, `list_no_parens`, `decode_string` from src/compiler/sexp.rs.
  Text is `Bytes`.  `decode_string` (lossy UTF-8) is only applied to `printable` byte strings,
  which are ASCII, so it is the identity here.
-/
import ChialispModel.Text.Rich
import ChialispModel.Text.Lex

namespace Rich

/-- `escape_quote(q, s)`: a backslash in front of every byte equal to `q`. -/
def escapeQuote (q : UInt8) : Bytes → Bytes
  | [] => []
  | ch :: r => if ch == q then 92 :: ch :: escapeQuote q r else ch :: escapeQuote q r

/-- `Display` for the non-`Cons` cases. -/
def printAtom : Rich → Bytes
  | .nil => [40, 41]
  | .int v => Lex.intToDec v
  | .qstr q s =>
    if printable s true then 34 :: (escapeQuote q s ++ [34])
    else 48 :: 120 :: Lex.toHex s
  | .atom a =>
    if a.isEmpty then [40, 41]
    else if printable a false then a
    else Lex.intToDec (Bytes.toInt a)
  | .cons _ _ => []

mutual
/-- `SExp::to_string` -/
def print : Rich → Bytes
  | .cons a b => 40 :: (print a ++ printTail b ++ [41])
  | .nil => printAtom .nil
  | .int v => printAtom (.int v)
  | .qstr q s => printAtom (.qstr q s)
  | .atom a => printAtom (.atom a)
/-- what `list_no_parens(a, b)` appends after `a.to_string()`. -/
def printTail : Rich → Bytes
  | .cons b c => 32 :: (print b ++ printTail c)
  | .nil => []
  | .int v => if nilp (.int v) then [] else 32 :: 46 :: 32 :: printAtom (.int v)
  | .qstr q s => if nilp (.qstr q s) then [] else 32 :: 46 :: 32 :: printAtom (.qstr q s)
  | .atom a => if nilp (.atom a) then [] else 32 :: 46 :: 32 :: printAtom (.atom a)
end

end Rich
