/-
  Text/ModernReader.lean — location-free model of the modern reader: the byte-at-a-time
  machine `parse_sexp_step` / `ParsePartialResult::{push, finalize}` / `parse_sexp` of
  src/compiler/sexp.rs, with `make_atom`, `from_hex`, `normalize_int`, `enlist`,
  `restructure_list`.  Source locations are dropped (C15 models the same machine WITH locations;
  this file is kept separate so the two can be unified later).
-/
import ChialispModel.Text.Rich
import ChialispModel.Text.Lex
import ChialispModel.Text.KwTables

namespace MReader

/-- `SExpParseState` without locations. -/
inductive PState where
  | empty
  | comment
  | bareword (w : Bytes)
  | quoted (term : UInt8) (t : Bytes)
  | quotedEsc (term : UInt8) (t : Bytes)
  | openList (structured : Bool)
  | parsingList (pp : PState) (items : List Rich) (structured : Bool)
  | termList (parsed : Option Rich) (pp : PState) (items : List Rich)
  | startStructured
  deriving Repr, DecidableEq, Inhabited

inductive PErr where
  | tooManyCloseParens
  | dotAfterOpen            -- "Dot can't appear directly after begin paren"
  | dotInStructured         -- "Dot expressions disallowed in structured lists"
  | dotFirst                -- "Dot as first element of list?"
  | objectInTermList        -- "found object during termlist"
  | illegalTermState        -- "Illegal state during term list."
  | multipleDots            -- "Multiple dots in list notation are illegal"
  | unterminated            -- any of the `finalize` errors
  deriving Repr, DecidableEq, Inhabited

/-- `SExpParseResult` -/
inductive PResult where
  | resume (s : PState)
  | emit (o : Rich) (s : PState)
  | error (e : PErr)
  deriving Repr, DecidableEq, Inhabited

/-- `char::is_whitespace(b as char)` for a byte (Unicode White_Space below U+0100). -/
def isWhitespace (c : UInt8) : Bool :=
  (9 ≤ c.toNat && c.toNat ≤ 13) || c == 32 || c == 133 || c == 160

def isDigit (c : UInt8) : Bool := 48 ≤ c.toNat && c.toNat ≤ 57

/-- reader `is_hex` (lower-case `0x` only, two characters suffice). -/
def isHex (s : Bytes) : Bool :=
  match s with
  | 48 :: 120 :: _ => true
  | _ => false

/-- reader `is_dec`: optional leading `-`, digits, and not just `-`. -/
def isDec (s : Bytes) : Bool :=
  (match s with
   | 45 :: r => r.all isDigit
   | _ => s.all isDigit) && s != [45]

/-- `from_hex`: errors of `hex2bin` are dropped, the buffer keeps what was converted. -/
def fromHex (v : Bytes) : Rich :=
  .qstr 120 (Lex.ofHexLossy false (if v.length % 2 == 1 then 48 :: v.drop 2 else v.drop 2))

/-- `normalize_int(v, 10)` followed by the zero test of `make_atom`.  `unwrap()` cannot fail
    on an `is_dec` token of at least one character; the `none` branch is unreachable. -/
def fromDec (v : Bytes) : Rich :=
  match Lex.parseBigInt v with
  | some i => if i == 0 then .nil else .int i
  | none => .atom v

/-- the `matches_integral` part of `make_atom`. -/
def classify (v : Bytes) : Rich :=
  if isHex v then fromHex v
  else if isDec v then fromDec v
  else .atom v

/-- `make_atom` -/
def makeAtom (v : Bytes) : Rich :=
  match v with
  | 35 :: c :: r =>
    match KwTables.primLookup (c :: r) KwTables.prims with
    | some i => .int i
    | none => .atom (c :: r)
  | _ => classify v

/-- `enlist` -/
def enlist (items : List Rich) : Rich := items.foldr Rich.cons .nil

/-- `restructure_list` (balanced tree of a `#( … )` list). -/
def restructure : Nat → List Rich → Rich
  | 0, _ => .nil
  | fuel+1, l =>
    match l with
    | [] => .nil
    | [x] => x
    | _ => .cons (restructure fuel (l.take (l.length / 2))) (restructure fuel (l.drop (l.length / 2)))

def closeList (items : List Rich) (structured : Bool) : Rich :=
  if structured then restructure (items.length + 1) items else enlist items

/-- the dotted close of `TermList`: `(a b . tail)`. -/
def closeDotted (items : List Rich) (tail : Rich) : PResult :=
  match items with
  | [] => .error .dotFirst
  | _ => .emit (items.foldr Rich.cons tail) .empty

/-- `parse_sexp_step` on the states that contain no nested state. -/
def stepFlat (s : PState) (c : UInt8) : PResult :=
  match s with
  | .empty =>
    if c == 40 then .resume (.openList false)
    else if c == 10 then .resume .empty
    else if c == 59 then .resume .comment
    else if c == 41 then .error .tooManyCloseParens
    else if c == 34 then .resume (.quoted 34 [])
    else if c == 39 then .resume (.quoted 39 [])
    else if c == 35 then .resume .startStructured
    else if isWhitespace c then .resume .empty
    else .resume (.bareword [c])
  | .comment => if c == 10 then .resume .empty else .resume .comment
  | .bareword w =>
    if isWhitespace c then .emit (makeAtom w) .empty
    else .resume (.bareword (w ++ [c]))
  | .quoted term t =>
    if c == 92 then .resume (.quotedEsc term t)
    else if c == term then .emit (.qstr term t) .empty
    else .resume (.quoted term (t ++ [c]))
  | .quotedEsc term t => .resume (.quoted term (t ++ [c]))
  | _ => .resume s

/-- the inner state is `Empty` -/
def isEmptySt : PState → Bool
  | .empty => true
  | _ => false

/-- the word collected so far if the inner state is `Bareword` -/
def asBareword : PState → Option Bytes
  | .bareword w => some w
  | _ => none

/-- `OpenList`: how the result of stepping a pretend `Empty` state is wrapped -/
def liftOpen (structured : Bool) : PResult → PResult
  | .emit o s' => .resume (.parsingList s' [o] structured)
  | .resume s' => .resume (.parsingList s' [] structured)
  | .error e => .error e

/-- `ParsingList`: how the result of stepping the inner state is wrapped -/
def liftPL (items : List Rich) (structured : Bool) : PResult → PResult
  | .emit o s' => .resume (.parsingList s' (items ++ [o]) structured)
  | .resume s' => .resume (.parsingList s' items structured)
  | .error e => .error e

/-- `TermList(_, Some(parsed), ..)`: only whitespace and comments may follow the tail object -/
def liftTermSome (parsed : Rich) (items : List Rich) : PResult → PResult
  | .emit _ _ => .error .objectInTermList
  | .resume .empty => .resume (.termList (some parsed) .empty items)
  | .resume .comment => .resume (.termList (some parsed) .comment items)
  | .resume _ => .error .illegalTermState
  | .error e => .error e

/-- `TermList(_, None, ..)` -/
def liftTermNone (items : List Rich) : PResult → PResult
  | .emit o _ => .resume (.termList (some o) .empty items)
  | .resume s' => .resume (.termList none s' items)
  | .error e => .error e

/-- `(a b . )`: closing a dotted list that has no tail object -/
def closeNoTail (items : List Rich) : PResult :=
  match items with
  | [x] => .emit x .empty
  | _ => .emit (enlist items) .empty

/-- `parse_sexp_step` -/
def step : PState → UInt8 → PResult
  | .empty, c => stepFlat .empty c
  | .comment, c => stepFlat .comment c
  | .bareword w, c => stepFlat (.bareword w) c
  | .quoted q t, c => stepFlat (.quoted q t) c
  | .quotedEsc q t, c => stepFlat (.quotedEsc q t) c
  | .openList structured, c =>
    if c == 41 then .emit .nil .empty
    else if c == 46 then .error .dotAfterOpen
    else liftOpen structured (stepFlat .empty c)
  | .parsingList pp items structured, c =>
    if c == 46 && isEmptySt pp && !structured then .resume (.termList none .empty items)
    else if c == 46 && isEmptySt pp && structured then .error .dotInStructured
    else if c == 41 && isEmptySt pp then .emit (closeList items structured) .empty
    else if c == 41 && (asBareword pp).isSome then
      .emit (closeList (items ++ [makeAtom ((asBareword pp).getD [])]) structured) .empty
    else liftPL items structured (step pp c)
  | .termList (some parsed) pp items, c =>
    if c == 41 && isEmptySt pp then closeDotted items parsed
    else liftTermSome parsed items (step pp c)
  | .termList none pp items, c =>
    if c == 46 && isEmptySt pp then .error .multipleDots
    else if c == 41 && isEmptySt pp then closeNoTail items
    else if c == 41 && (asBareword pp).isSome then closeDotted items (makeAtom ((asBareword pp).getD []))
    else liftTermNone items (step pp c)
  | .startStructured, c =>
    if c == 40 then .resume (.parsingList .empty [] true)
    else stepFlat (.bareword [35]) c

/-- `ParsePartialResult::push` over a whole text: state and emitted forms. -/
def feed : PState → List Rich → Bytes → Except PErr (PState × List Rich)
  | s, res, [] => .ok (s, res)
  | s, res, c :: r =>
    match step s c with
    | .error e => .error e
    | .resume s' => feed s' res r
    | .emit o s' => feed s' (res ++ [o]) r

/-- `ParsePartialResult::finalize` -/
def finalize (s : PState) (res : List Rich) : Except PErr (List Rich) :=
  match s with
  | .empty => .ok res
  | .bareword w => .ok [makeAtom w]
  | .comment => .ok res
  | _ => .error .unterminated

/-- `parse_sexp` -/
def parse (text : Bytes) : Except PErr (List Rich) :=
  match feed .empty [] text with
  | .ok (s, res) => finalize s res
  | .error e => .error e

end MReader
