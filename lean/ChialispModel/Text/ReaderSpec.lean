/-
  Text/ReaderSpec.lean — what "source locations point at the text they describe" means
  for the located trees the reader produces (C15).  Definitions only; the theorems are in
  Props/C15.lean.

  `Good t d …` is the well-locatedness judgement for a located tree against the text `t`:
  every leaf's location is the location of exactly the token's bytes, every list node's
  location lies inside the parentheses of its list.  The flag `d` admits the one defect
  shape the code exhibits (`hashLone`); `Good t false` is the property as stated.
-/
import ChialispModel.Text.Reader

namespace ReaderSpec
open Text Reader Srcloc

/-- bytes `[i, j)` of `t` -/
def seg (t : Bytes) (i j : Nat) : Bytes := slice t (i, j)

/-- one step of reading the raw characters between two quotes: `(escape pending, payload)`,
    `none` once an unescaped terminator has been met. -/
def scanStep (q : UInt8) (st : Option (Bool × Bytes)) (c : UInt8) : Option (Bool × Bytes) :=
  match st with
  | none => none
  | some (true, acc) => some (false, acc ++ [c])
  | some (false, acc) =>
    if c = 92 then some (true, acc) else if c = q then none else some (false, acc ++ [c])

/-- the payload denoted by the raw characters `raw` between quotes `q`. -/
def scanQ (q : UInt8) (raw : Bytes) : Option (Bool × Bytes) :=
  raw.foldl (scanStep q) (some (false, []))

/-- `l` is the location of a non-empty byte range inside `[lo, hi)`. -/
def LocIn (t : Bytes) (l : Srcloc) (lo hi : Nat) : Prop :=
  ∃ i j, lo ≤ i ∧ j ≤ hi ∧ Span t l i j

/-- a list opens at offset `b`: `(`, or `#(` for a structured list. -/
def opensAt (t : Bytes) (b : Nat) : Prop :=
  t[b]? = some 40 ∨ (t[b]? = some 35 ∧ t[b+1]? = some 40)

/-- `Good t d false x lo hi`: `x` is a complete form whose text lies in `[lo, hi)`.
    `Good t d true x b c`: `x` is material of the list whose delimiters are at `b` and `c`
    (a whole element, or a cons/nil the reader built while closing that list). -/
inductive Good (t : Bytes) (d : Bool) : Bool → LRich → Nat → Nat → Prop
  /-- a bareword, decimal or hex token: the node is what `make_atom` builds from exactly the
      addressed bytes. -/
  | word {l : Srcloc} {i j lo hi : Nat} :
      lo ≤ i → j ≤ hi → Span t l i j → (seg t i j).head? ≠ some 35 →
      Good t d false (makePlain l (seg t i j)) lo hi
  /-- `#name` (not a primitive): the location addresses `name`, the byte before is `#`. -/
  | hashWord {l : Srcloc} {i j lo hi : Nat} :
      lo < i → j ≤ hi → Span t l i j → t[i-1]? = some 35 → primLookup (seg t i j) = none →
      Good t d false (.atom l (seg t i j)) lo hi
  /-- a quoted string: the location addresses both quotes and the raw characters, whose
      unescaped reading is the payload. -/
  | quoted {l : Srcloc} {i j lo hi : Nat} {q : UInt8} {raw body : Bytes} :
      lo ≤ i → j ≤ hi → Span t l i j → (q = 34 ∨ q = 39) → seg t i j = q :: (raw ++ [q]) →
      scanQ q raw = some (false, body) →
      Good t d false (.qstr l q body) lo hi
  /-- the token `()` -/
  | unit {l : Srcloc} {i lo hi : Nat} :
      lo ≤ i → i + 2 ≤ hi → Span t l i (i+2) → seg t i (i+2) = [40, 41] →
      Good t d false (.nil l) lo hi
  /-- a parenthesised list with delimiters at `b` and `c` -/
  | list {x : LRich} {b c lo hi : Nat} :
      lo ≤ b → b < c → c < hi → opensAt t b → t[c]? = some 41 →
      Good t d true x b c → Good t d false x lo hi
  | inner {x : LRich} {b c : Nat} : Good t d false x (b+1) c → Good t d true x b c
  | gcons {l : Srcloc} {a e : LRich} {b c : Nat} :
      LocIn t l b (c+1) → Good t d true a b c → Good t d true e b c →
      Good t d true (.cons l a e) b c
  | gnil {l : Srcloc} {b c : Nat} : LocIn t l b (c+1) → Good t d true (.nil l) b c
  /-- `#name` with `name` in the prim table: the table's integer, located at `name`
      (the byte before is `#`). -/
  | hashPrim {l : Srcloc} {i j lo hi : Nat} {n : Int} :
      lo < i → j ≤ hi → Span t l i j → t[i-1]? = some 35 →
      primLookup (seg t i j) = some n →
      Good t d false (.int l n) lo hi
  /-- DEFECT (admitted only with `d = true`): a lone `#` followed by white space yields the
      atom `#` located at the white-space character. -/
  | hashLone {l : Srcloc} {i lo hi : Nat} :
      d = true → lo < i → i < hi → Span t l i (i+1) → t[i-1]? = some 35 →
      Good t d false (.atom l [35]) lo hi

/-- no node shows the defect shape: no atom is the lone `#`. -/
def Clean (x : LRich) : Prop :=
  ∀ y ∈ x.nodes, y.erase ≠ .atom [35]

instance (x : LRich) : Decidable (Clean x) := by unfold Clean; infer_instance

/-- the byte range `l` denotes (by line/column arithmetic) is non-empty and inside `[lo, hi)` -/
def Within (t : Bytes) (l : Srcloc) (lo hi : Nat) : Prop :=
  l.file = inputFile ∧ lo ≤ (spanOf t l).1 ∧ (spanOf t l).1 < (spanOf t l).2 ∧ (spanOf t l).2 ≤ hi

/-- the token a leaf was read from, stated on the text: `w` are the addressed bytes and
    `i` their offset. -/
def TokenOf (t : Bytes) (i : Nat) (w : Bytes) (y : LRich) : Prop :=
  (w.head? ≠ some 35 ∧ y = makePlain y.loc w) ∨
  (0 < i ∧ t[i-1]? = some 35 ∧ primLookup w = none ∧ y = .atom y.loc w) ∨
  (0 < i ∧ t[i-1]? = some 35 ∧ ∃ n, primLookup w = some n ∧ y = .int y.loc n) ∨
  (∃ q raw body, (q = 34 ∨ q = 39) ∧ w = q :: (raw ++ [q]) ∧ scanQ q raw = some (false, body) ∧
     y = .qstr y.loc q body) ∨
  (w = [40, 41] ∧ y = .nil y.loc)

/-- leaf clause: slicing the text at the leaf's location gives exactly its token. -/
def LeafExact (t : Bytes) (y : LRich) : Prop :=
  Within t y.loc 0 t.length ∧ TokenOf t (spanOf t y.loc).1 (sliceLoc t y.loc) y

/-- list clause: there is a pair of list delimiters `b < c` such that the location of the
    node and of everything below it lies in `[b, c]`. -/
def ListWithin (t : Bytes) (y : LRich) : Prop :=
  ∃ b c, b < c ∧ opensAt t b ∧ t[c]? = some 41 ∧ ∀ z ∈ y.nodes, Within t z.loc b (c+1)

end ReaderSpec
