/-
  Text/Reader.lean — the modern reader (`compiler::sexp::parse_sexp`): located
  s-expressions, `make_atom` / `from_hex` / `normalize_int` / `make_cons` / `enlist` /
  `restructure_list`, the byte-at-a-time state machine `parse_sexp_step` with the same
  states carrying the same locations as `SExpParseState`, and
  `ParsePartialResult::{new, push, finalize}`.
-/
import ChialispModel.Text.Rich
import ChialispModel.Text.Srcloc

/-- `compiler::sexp::SExp`: `Rich` with a location at every node. -/
inductive LRich where
  | nil (l : Srcloc)
  | cons (l : Srcloc) (a d : LRich)
  | int (l : Srcloc) (i : Int)
  | qstr (l : Srcloc) (q : UInt8) (b : Bytes)
  | atom (l : Srcloc) (b : Bytes)
  deriving Repr, DecidableEq, Inhabited

namespace LRich

/-- `SExp::loc` -/
def loc : LRich → Srcloc
  | nil l => l
  | cons l _ _ => l
  | int l _ => l
  | qstr l _ _ => l
  | atom l _ => l

/-- forget the locations -/
def erase : LRich → Rich
  | nil _ => .nil
  | cons _ a d => .cons (erase a) (erase d)
  | int _ i => .int i
  | qstr _ q b => .qstr q b
  | atom _ b => .atom b

/-- every node of the tree (the tree itself first). -/
def nodes : LRich → List LRich
  | cons l a d => cons l a d :: (nodes a ++ nodes d)
  | x => [x]

def isCons : LRich → Bool
  | cons _ _ _ => true
  | _ => false

def isNil : LRich → Bool
  | nil _ => true
  | _ => false

end LRich

namespace Reader
open Srcloc

/-! ### tokens -/

/-- `char::is_whitespace(b as char)` for a byte (Latin-1 code points). -/
def isWs (c : UInt8) : Bool :=
  (9 ≤ c && c ≤ 13) || c == 32 || c == 133 || c == 160

def isDigit (c : UInt8) : Bool := 48 ≤ c && c ≤ 57

/-- `is_hex` -/
def isHex : Bytes → Bool
  | 48 :: 120 :: _ => true
  | _ => false

/-- `is_dec`: an optional leading `-`, then only digits; the lone `-` excluded. -/
def isDec (s : Bytes) : Bool :=
  (match s with
   | 45 :: r => r.all isDigit
   | _ => s.all isDigit) && s != [45]

def digitsVal (s : Bytes) : Nat := s.foldl (fun acc c => acc * 10 + (c.toNat - 48)) 0

/-- `normalize_int(v, 10)` on a string accepted by `is_dec`. -/
def decVal : Bytes → Int
  | 45 :: r => - (Int.ofNat (digitsVal r))
  | s => Int.ofNat (digitsVal s)

def hexDigitVal (c : UInt8) : Option Nat :=
  if 97 ≤ c && c ≤ 102 then some (c.toNat - 87)
  else if 65 ≤ c && c ≤ 70 then some (c.toNat - 55)
  else if 48 ≤ c && c ≤ 57 then some (c.toNat - 48)
  else none

/-- binascii `hex2bin` into a zero-initialised buffer of `input.len()/2` bytes whose error
    is dropped: blocks before the first bad digit are written, the rest stay zero. -/
def hexFill : Bytes → Bytes
  | a :: b :: r =>
    match hexDigitVal a, hexDigitVal b with
    | some x, some y => UInt8.ofNat (x * 16 + y) :: hexFill r
    | _, _ => List.replicate (r.length / 2 + 1) 0
  | _ => []

/-- payload of `from_hex` on a token starting `0x` (odd digit count gets a leading `0`). -/
def hexPayload (v : Bytes) : Bytes :=
  if v.length % 2 == 1 then hexFill (48 :: v.drop 2) else hexFill (v.drop 2)

/-- `prims()` as name/opcode pairs (table order). -/
def primTable : List (String × Int) :=
  [("q", 1), ("a", 2), ("i", 3), ("c", 4), ("f", 5), ("r", 6), ("l", 7), ("x", 8), ("=", 9),
   (">s", 10), ("sha256", 11), ("substr", 12), ("strlen", 13), ("concat", 14), ("+", 16),
   ("-", 17), ("*", 18), ("/", 19), ("divmod", 20), (">", 21), ("ash", 22), ("lsh", 23),
   ("logand", 24), ("logior", 25), ("logxor", 26), ("lognot", 27), ("point_add", 29),
   ("pubkey_for_exp", 30), ("not", 32), ("any", 33), ("all", 34), ("softfork", 36),
   ("coinid", 48), ("g1_subtract", 49), ("g1_multiply", 50), ("g1_negate", 51),
   ("g2_add", 52), ("g2_subtract", 53), ("g2_multiply", 54), ("g2_negate", 55),
   ("g1_map", 56), ("g2_map", 57), ("bls_pairing_identity", 58), ("bls_verify", 59),
   ("modpow", 60), ("%", 61), ("keccak256", 62), ("secp256k1_verify", 0x13d61f00),
   ("secp256r1_verify", 0x1c3a8f00)]

def strBytes (s : String) : Bytes := s.toList.map (fun c => UInt8.ofNat c.toNat)

def primLookupIn : List (String × Int) → Bytes → Option Int
  | [], _ => none
  | (n, v) :: r, w => if w = strBytes n then some v else primLookupIn r w

/-- first entry of `prims()` named `w`. -/
def primLookup (w : Bytes) : Option Int := primLookupIn primTable w

/-- the non-`#` arm of `make_atom` -/
def makePlain (l : Srcloc) (v : Bytes) : LRich :=
  if isHex v then .qstr l 120 (hexPayload v)
  else if isDec v then (if decVal v = 0 then .nil l else .int l (decVal v))
  else .atom l v

/-- `make_atom`.  A prim-table hit returns the table's value relocated to the token
    (`p.1.with_loc(l)`). -/
def makeAtom (l : Srcloc) (v : Bytes) : LRich :=
  match v with
  | 35 :: c :: r =>
    match primLookup (c :: r) with
    | some n => .int l n
    | none => .atom l (c :: r)
  | _ => makePlain l v

/-- `make_cons` -/
def makeCons (a d : LRich) : LRich := .cons (a.loc.ext d.loc) a d

/-- `enlist l v` = fold of `make_cons` onto `Nil(l)` from the right. -/
def enlistOnto (tail : LRich) : List LRich → LRich
  | [] => tail
  | x :: r => makeCons x (enlistOnto tail r)

def enlist (l : Srcloc) (v : List LRich) : LRich := enlistOnto (.nil l) v

/-- `restructure_list` (fuel = length suffices: both halves are shorter). -/
def restructure : Nat → List LRich → Srcloc → LRich
  | _, [x], _ => x
  | _, [], l => .nil l
  | 0, _, l => .nil l
  | fuel+1, xs, l =>
    makeCons (restructure fuel (xs.take (xs.length / 2)) l)
             (restructure fuel (xs.drop (xs.length / 2)) l)

/-! ### the state machine -/

/-- error texts of the reader -/
inductive Msg where
  | tooManyClose | dotAfterOpen | dotInStructured | dotFirst | objectInTermList
  | illegalTermList | multipleDots
  | untermQuoted | untermEscaped | untermEmpty | untermMid | untermTail | unclosedStructured
  deriving DecidableEq, Repr

def Msg.text : Msg → String
  | .tooManyClose => "Too many close parens"
  | .dotAfterOpen => "Dot can't appear directly after begin paren"
  | .dotInStructured => "Dot expressions disallowed in structured lists"
  | .dotFirst => "Dot as first element of list?"
  | .objectInTermList => "found object during termlist"
  | .illegalTermList => "Illegal state during term list."
  | .multipleDots => "Multiple dots in list notation are illegal"
  | .untermQuoted => "unterminated quoted string"
  | .untermEscaped => "unterminated quoted string with escape"
  | .untermEmpty => "Unterminated list (empty)"
  | .untermMid => "Unterminated mid list"
  | .untermTail => "Unterminated tail list"
  | .unclosedStructured => "Unclosed structured list"

/-- `SExpParseState` -/
inductive PState where
  | empty
  | comment
  | bareword (l : Srcloc) (w : Bytes)
  | quoted (l : Srcloc) (q : UInt8) (t : Bytes)
  | escaped (l : Srcloc) (q : UInt8) (t : Bytes)
  | openList (l : Srcloc) (structured : Bool)
  | parsingList (l : Srcloc) (pp : PState) (content : List LRich) (structured : Bool)
  | termList (l : Srcloc) (parsed : Option LRich) (pp : PState) (content : List LRich)
  | startStructured (l : Srcloc)
  deriving Repr, DecidableEq, Inhabited

/-- `SExpParseResult` -/
inductive PResult where
  | resume (s : PState)
  | emit (o : LRich) (s : PState)
  | error (l : Srcloc) (m : Msg)
  deriving Repr, DecidableEq, Inhabited

/-- state `Empty` -/
def stepEmpty (loc : Srcloc) (ch : UInt8) : PResult :=
  if ch = 40 then .resume (.openList loc false)
  else if ch = 10 then .resume .empty
  else if ch = 59 then .resume .comment
  else if ch = 41 then .error loc .tooManyClose
  else if ch = 34 then .resume (.quoted loc 34 [])
  else if ch = 39 then .resume (.quoted loc 39 [])
  else if ch = 35 then .resume (.startStructured loc)
  else if isWs ch then .resume .empty
  else .resume (.bareword loc [ch])

/-- state `CommentText` -/
def stepComment (ch : UInt8) : PResult :=
  if ch = 10 then .resume .empty else .resume .comment

/-- state `Bareword` -/
def stepBareword (loc l : Srcloc) (w : Bytes) (ch : UInt8) : PResult :=
  if isWs ch then .emit (makeAtom l w) .empty
  else .resume (.bareword (l.ext loc) (w ++ [ch]))

/-- state `QuotedText` -/
def stepQuoted (loc l : Srcloc) (q : UInt8) (t : Bytes) (ch : UInt8) : PResult :=
  if ch = 92 then .resume (.escaped l q t)
  else if ch = q then .emit (.qstr (l.ext loc) q t) .empty
  else .resume (.quoted l q (t ++ [ch]))

/-- state `OpenList` -/
def stepOpenList (loc l : Srcloc) (st : Bool) (ch : UInt8) : PResult :=
  if ch = 41 then .emit (.nil (l.ext loc)) .empty
  else if ch = 46 then .error loc .dotAfterOpen
  else
    match stepEmpty loc ch with
    | .emit o s => .resume (.parsingList (l.ext loc) s [o] st)
    | .resume s => .resume (.parsingList (l.ext loc) s [] st)
    | .error l' e => .error l' e

/-- closing a (possibly structured) list -/
def closeList (l : Srcloc) (content : List LRich) (st : Bool) : LRich :=
  if st then restructure content.length content l else enlist l content

/-- closing a dotted list: `content = front ++ [v]`, result `(front… v . tail)`. -/
def closeDotted (content : List LRich) (tail : LRich) : Option LRich :=
  match content.getLast? with
  | some v => some (enlistOnto (makeCons v tail) content.dropLast)
  | none => none

/-- the `(')', Empty)` arm of `TermList(_, None, …)`: a single element is returned as is. -/
def closeTermNone (l : Srcloc) (content : List LRich) : LRich :=
  match content with
  | [x] => x
  | _ => enlist l content

/-- state `StartStructuredList` on a character other than `(`: "as if the preceding `#`
    was part of a bareword" — whose location is the CURRENT character's. -/
def stepHash (loc : Srcloc) (ch : UInt8) : PResult := stepBareword loc loc [35] ch

namespace PState

def isEmpty : PState → Bool
  | .empty => true
  | _ => false

def isComment : PState → Bool
  | .comment => true
  | _ => false

/-- the pending word when the state is `Bareword` -/
def word? : PState → Option (Srcloc × Bytes)
  | .bareword l w => some (l, w)
  | _ => none

end PState

/-- the `(')', Bareword(l, t))` arms: the pending word of the inner state, on `)` only. -/
def closingWord (ch : UInt8) (pp : PState) : Option (Srcloc × Bytes) :=
  if ch = 41 then pp.word? else none

/-- `parse_sexp_step` -/
def step (loc : Srcloc) : PState → UInt8 → PResult
  | .empty, ch => stepEmpty loc ch
  | .comment, ch => stepComment ch
  | .bareword l w, ch => stepBareword loc l w ch
  | .quoted l q t, ch => stepQuoted loc l q t ch
  | .escaped l q t, ch => .resume (.quoted l q (t ++ [ch]))
  | .openList l st, ch => stepOpenList loc l st ch
  | .parsingList l pp content st, ch =>
    if ch = 46 ∧ pp.isEmpty then
      (if st then .error loc .dotInStructured
       else .resume (.termList (l.ext loc) none .empty content))
    else if ch = 41 ∧ pp.isEmpty then .emit (closeList l content st) .empty
    else
      match closingWord ch pp with
      | some (wl, w) => .emit (closeList l (content ++ [makeAtom wl w]) st) .empty
      | none =>
        match step loc pp ch with
        | .emit o s => .resume (.parsingList (l.ext loc) s (content ++ [o]) st)
        | .resume s => .resume (.parsingList (l.ext loc) s content st)
        | .error l' e => .error l' e
  | .termList l (some parsed) pp content, ch =>
    if ch = 41 ∧ pp.isEmpty then
      match closeDotted content parsed with
      | some r => .emit r .empty
      | none => .error loc .dotFirst
    else
      match step loc pp ch with
      | .emit _ _ => .error loc .objectInTermList
      | .resume s =>
        if s.isEmpty || s.isComment then .resume (.termList (l.ext loc) (some parsed) s content)
        else .error loc .illegalTermList
      | .error l' e => .error l' e
  | .termList l none pp content, ch =>
    if ch = 46 ∧ pp.isEmpty then .error loc .multipleDots
    else if ch = 41 ∧ pp.isEmpty then .emit (closeTermNone (l.ext loc) content) .empty
    else
      match closingWord ch pp with
      | some (wl, w) =>
        (match closeDotted content (makeAtom wl w) with
         | some r => .emit r .empty
         | none => .error loc .dotFirst)
      | none =>
        match step loc pp ch with
        | .emit o _ => .resume (.termList loc (some o) .empty content)
        | .resume s => .resume (.termList (l.ext loc) none s content)
        | .error l' e => .error l' e
  | .startStructured l, ch =>
    if ch = 40 then .resume (.parsingList (l.ext loc) .empty [] true)
    else stepHash loc ch

/-! ### `ParsePartialResult` -/

structure Partial where
  res : List LRich
  loc : Srcloc
  st : PState
  deriving Repr, DecidableEq

abbrev PErr := Srcloc × Msg

/-- `ParsePartialResult::new` -/
def Partial.new (start : Srcloc) : Partial := ⟨[], start, .empty⟩

/-- `ParsePartialResult::push` -/
def Partial.push (p : Partial) (ch : UInt8) : Except PErr Partial :=
  match step p.loc p.st ch with
  | .error l e => .error (l, e)
  | .resume s => .ok ⟨p.res, p.loc.advance ch, s⟩
  | .emit o s => .ok ⟨p.res ++ [o], p.loc.advance ch, s⟩

/-- `ParsePartialResult::finalize`.  NOTE a pending bareword is returned ALONE (the forms
    collected so far are dropped), as the code does. -/
def Partial.finalize (p : Partial) : Except PErr (List LRich) :=
  match p.st with
  | .empty => .ok p.res
  | .bareword l t => .ok [makeAtom l t]
  | .comment => .ok p.res
  | .quoted l _ _ => .error (l, .untermQuoted)
  | .escaped l _ _ => .error (l, .untermEscaped)
  | .openList l _ => .error (l, .untermEmpty)
  | .parsingList l _ _ _ => .error (l, .untermMid)
  | .termList l _ _ _ => .error (l, .untermTail)
  | .startStructured l => .error (l, .unclosedStructured)

/-- pushing a chunk of bytes, stopping at the first error (the `?` in `parse_sexp_inner`). -/
def feed (p : Partial) : Bytes → Except PErr Partial
  | [] => .ok p
  | c :: r =>
    match p.push c with
    | .ok p' => feed p' r
    | .error e => .error e

/-- `parse_sexp(start, text)` -/
def parseFrom (start : Srcloc) (t : Bytes) : Except PErr (List LRich) :=
  match feed (Partial.new start) t with
  | .ok p => p.finalize
  | .error e => .error e

/-- `parse_sexp(Srcloc::start(file), text)` -/
def parse (t : Bytes) : Except PErr (List LRich) := parseFrom (Srcloc.start inputFile) t

/-- feeding a text chunk by chunk through the streaming interface, then `finalize`. -/
def feedChunks (p : Partial) : List Bytes → Except PErr Partial
  | [] => .ok p
  | c :: r =>
    match feed p c with
    | .ok p' => feedChunks p' r
    | .error e => .error e

end Reader
