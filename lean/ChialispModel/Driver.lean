/-
  Driver.lean — `modeld <sub-command>`: evaluates the executable model on the same line
  protocol the Rust harness (`cvh`) speaks.  Import-free of Mathlib/Std so it links natively.
-/
import ChialispModel.Drv.Base
import ChialispModel.Drv.Conv
import ChialispModel.Drv.Scope
import ChialispModel.Drv.Core2Drv
import ChialispModel.Drv.Core3Drv
import ChialispModel.Drv.ReplLine
import ChialispModel.Drv.ClassicEnv
import ChialispModel.Drv.Passes
import ChialispModel.Drv.UseCheckDrv
import ChialispModel.Drv.CoreSyms
import ChialispModel.Drv.Core2Syms
import ChialispModel.Drv.Src
import ChialispModel.Drv.Entry
import ChialispModel.Drv.Purity
import ChialispModel.Drv.Fresh
import ChialispModel.Drv.Text
import ChialispModel.Drv.Serde
import ChialispModel.Drv.Tables
import ChialispModel.Drv.Opt
import ChialispModel.Drv.Atomic
import ChialispModel.Drv.Deps
import ChialispModel.Drv.Step
import ChialispModel.Drv.Cldb
import ChialispModel.Drv.CoreDrv
import ChialispModel.Drv.Shrink
import ChialispModel.Drv.Reader

def main (args : List String) : IO UInt32 := do
  match args with
  | ["base"] => Drv.Base.run; return 0
  | ["coresyms"] => Drv.CoreSyms.run; return 0
  | ["core2syms"] => Drv.Core2Syms.run; return 0
  | ["unused"] => Drv.UseCheckDrv.run; return 0
  | ["passes"] => Drv.PassesDrv.run; return 0
  | ["classicenv"] => Drv.ClassicEnv.run; return 0
  | ["replline"] => Drv.ReplLine.run; return 0
  | ["core2"] => Drv.Core2Drv.run; return 0
  | ["core3"] => Drv.Core3Drv.run; return 0
  | ["scope"] => Drv.Scope.run; return 0
  | ["conv"] => Drv.Conv.run; return 0
  | ["src"] => Drv.Src.run; return 0
  | ["entry"] => Drv.Entry.run; return 0
  | ["purity"] => Drv.Purity.run; return 0
  | ["fresh"] => Drv.Fresh.run; return 0
  | ["text"] => Drv.Text.run; return 0
  | ["serde"] => Drv.Serde.run; return 0
  | ["tables"] => Drv.Tables.run; return 0
  | ["opt"] => Drv.Opt.run; return 0
  | ["atomic"] => Drv.Atomic.run; return 0
  | ["deps"] => Drv.Deps.run; return 0
  | ["step"] => Drv.Step.run; return 0
  | ["cldb"] => Drv.Cldb.run; return 0
  | ["core"] => Drv.CoreDrv.run; return 0
  | ["shrink"] => Drv.Shrink.run; return 0
  | ["reader"] => Drv.Reader.run; return 0
  | _ => IO.eprintln s!"modeld: unknown sub-command {args}"; return 2
