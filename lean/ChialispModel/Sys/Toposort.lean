/-
  Sys/Toposort.lean — model of `toposort` (/repo/src/util/mod.rs), of the way
  `toposort_assign_bindings` (/repo/src/compiler/codegen.rs) calls it, and of the
  duplicate-binding check of `handle_assign_form` (/repo/src/compiler/frontend.rs) (C10).
  Import-free.

  The Rust function works on `HashSet<K>`; here sets are lists of keys (`Nat`) read through
  membership only (`subset`, `inter`, `union`).  Everything observable about the Rust result —
  success or deadlock, the order of the returned items, their `index`, their `needs` and `has`
  sets — depends on the sets only through membership, never on hash order, so nothing is lost.

      let mut possible = ∪ has(item)                         -- `possible`
      items[i] = { index: i, needs: needs(&possible, list[i])?, has: has(list[i]) }
      while finished_idx < items.len() {
          move_to_front = [ i | i ∈ finished_idx.., items[i].needs ⊆ done ]      -- `ready`
          if move_to_front.is_empty() { return Err(deadlock) }
          for idx in move_to_front {                                            -- `moveOne`
              if idx != finished_idx { swap(items[idx], items[finished_idx]) }
              done = (done ∪ items[finished_idx].has) ∩ possible
              finished_idx += 1
          }
      }
      Ok(items)

  The `needs` callback modelled is the one `toposort_assign_bindings` passes: the atoms of the
  binding's expression intersected with `possible` (it never fails).  The while loop is run with
  explicit fuel `list.length + 1`; `Props/C10.toposort_terminates` shows the fuel never runs out.
-/

namespace Topo

structure Item where
  index : Nat
  needs : List Nat
  has : List Nat
deriving DecidableEq, Repr

/-- one input element: the raw needs (every atom of the binding's expression) and what the
    binding provides. -/
structure Raw where
  rawNeeds : List Nat
  has : List Nat
deriving DecidableEq, Repr

inductive Result
  | ok (items : List Item)
  | deadlock
  | fuel                      -- model artefact: the loop bound ran out (proved impossible)
deriving DecidableEq, Repr

def subset (a b : List Nat) : Bool := a.all (fun x => b.contains x)
def inter (a b : List Nat) : List Nat := a.filter (fun x => b.contains x)
def union (a b : List Nat) : List Nat := a ++ b.filter (fun x => !a.contains x)

/-- `possible`: everything some element provides. -/
def possible (l : List Raw) : List Nat := l.flatMap (fun r => r.has)

def initFrom (poss : List Nat) : Nat → List Raw → List Item
  | _, [] => []
  | i, r :: rest => ⟨i, inter r.rawNeeds poss, r.has⟩ :: initFrom poss (i + 1) rest

/-- the `items` vector before the loop. -/
def initItems (l : List Raw) : List Item := initFrom (possible l) 0 l

/-- `swap(&mut items[i], &mut items[j])` -/
def swapAt (items : List Item) (i j : Nat) : List Item :=
  match items[i]?, items[j]? with
  | some a, some b => (items.set i b).set j a
  | _, _ => items

structure St where
  items : List Item
  done : List Nat
  fin : Nat                    -- `finished_idx`

def hasAt (items : List Item) (i : Nat) : List Nat :=
  match items[i]? with
  | some it => it.has
  | none => []

def needsAt (items : List Item) (i : Nat) : List Nat :=
  match items[i]? with
  | some it => it.needs
  | none => []

def placed (s : St) (idx : Nat) : List Item :=
  if idx != s.fin then swapAt s.items idx s.fin else s.items

/-- one iteration of the `for (idx, _) in move_to_front` loop. -/
def moveOne (poss : List Nat) (s : St) (idx : Nat) : St :=
  ⟨placed s idx, inter (union s.done (hasAt (placed s idx) s.fin)) poss, s.fin + 1⟩

/-- `move_to_front`: the indices `≥ finished_idx` whose needs are all done (ascending). -/
def ready (s : St) : List Nat :=
  (List.range s.items.length).filter (fun i => decide (s.fin ≤ i) && subset (needsAt s.items i) s.done)

def loop (poss : List Nat) : Nat → St → Result
  | 0, _ => .fuel
  | f + 1, s =>
    if s.fin < s.items.length then
      (if (ready s).isEmpty then .deadlock else loop poss f ((ready s).foldl (moveOne poss) s))
    else .ok s.items

/-- `toposort(list, deadlock, needs = (atoms ∩ possible), has)` -/
def toposort (l : List Raw) : Result :=
  loop (possible l) (l.length + 1) ⟨initItems l, [], 0⟩

-- the duplicate check of `handle_assign_form` ---------------------------------------------------

/-- the loop over the bindings of an assign form: `check_duplicates` accumulates the names
    provided so far; the first binding one of whose names was already provided is rejected
    (`Duplicate binding NAME`).  `this_provides` is a set, so a name repeated inside ONE pattern is
    not a duplicate.  Returns the index of the rejected binding and the names of that binding that
    were already provided (the Rust loop reports whichever of them its hash order meets first). -/
def dupFrom (seen : List Nat) : Nat → List (List Nat) → Option (Nat × List Nat)
  | _, [] => none
  | i, p :: rest =>
    if (inter p seen).isEmpty then dupFrom (union seen p) (i + 1) rest
    else some (i, inter p seen)

def dupCheck (provides : List (List Nat)) : Option (Nat × List Nat) := dupFrom [] 0 provides

end Topo
