/-
  Sys/Opts.lean — vocabulary for the compiler-option derivations (C11, also C02/C05):
  `AcceptedDialect`, the option record every entry point builds (`DefaultCompilerOpts` fields
  that the derivation sites touch), the setters, what an entry point finally *does* with a
  source (`Pipeline`), `get_optimizer`'s choice, and a hand model of `detect_modern`.

  The *derivations themselves* (which setter is called with which expression at which site) are
  NOT written here: `Generated/Opts.lean` is regenerated from the Rust sources by
  `tools/translate_c11.py` on every run and only uses this vocabulary.
-/
import ChialispModel.Base.Val

namespace Opts

/-- `compiler::dialect::AcceptedDialect` -/
structure Dialect where
  stepping : Option Int
  strict : Bool
  intFix : Bool
  deriving Repr, DecidableEq, Inhabited, BEq

/-- `AcceptedDialect::default()` = a program without a dialect sigil (classic). -/
def Dialect.classic : Dialect := { stepping := none, strict := false, intFix := false }

/-- the fields of `DefaultCompilerOpts` that a derivation site sets or that select behaviour. -/
structure Opts where
  dialect : Dialect
  stdenv : Bool
  optimize : Bool
  frontendOpt : Bool
  /-- `include_dirs`; the derivations only pass the caller's list through -/
  searchPaths : List String
  /-- `disassembly_ver` -/
  disVer : Option Nat
  deriving Repr, DecidableEq, Inhabited, BEq

def Opts.setDialect (o : Opts) (d : Dialect) : Opts := { o with dialect := d }
def Opts.setStdenv (o : Opts) (b : Bool) : Opts := { o with stdenv := b }
def Opts.setOptimize (o : Opts) (b : Bool) : Opts := { o with optimize := b }
def Opts.setFrontendOpt (o : Opts) (b : Bool) : Opts := { o with frontendOpt := b }
def Opts.setSearchPaths (o : Opts) (sp : List String) : Opts := { o with searchPaths := sp }
def Opts.setDisassemblyVer (o : Opts) (v : Option Nat) : Opts := { o with disVer := v }

/-- what an entry point does with the source once the options are derived.
    * `modern o post ver` — `compile_file` with `o`, then the classic optimiser over the result
      iff `post` (`maybe_finalize_program_via_classic_optimizer`'s flag); `ver` is the
      *effective* operator-set version (`disassembly_ver().unwrap_or(LATEST)`);
    * `classic sp` — the stage-2 program `(a (opt (com 2)) 3)` run with include search paths `sp`
      (the modern options are not consulted for code generation). -/
inductive Pipeline where
  | modern (o : Opts) (postOptimize : Bool)
  | classic (searchPaths : List String)
  deriving Repr, DecidableEq, Inhabited, BEq

/-- the part of a pipeline that determines the emitted code: everything except the recorded
    (not effective) disassembly version, which only influences error-message rendering. -/
def Pipeline.codeRelevant (latest : Nat) : Pipeline → Pipeline
  | .modern o p => .modern { o with disVer := some (o.disVer.getD latest) } p
  | .classic sp => .classic sp

/-- `get_optimizer`'s outcome. -/
inductive OptimizerChoice where
  | errTooOld
  | errTooNew
  | strategy (name : String)
  deriving Repr, DecidableEq, Inhabited, BEq

/-! ### hand model of `detect_modern` (compiler/dialect.rs) over assembled CLVM values -/

/-- `proper_list(allocator, v, true)` -/
def properList : Val → Option (List Val)
  | .atom b => if b.isEmpty then some [] else none
  | .pair a d => (properList d).map (fun l => a :: l)

def includeKw : Bytes := [105, 110, 99, 108, 117, 100, 101]   -- "include"

def lookupDialect (tbl : List (Bytes × Dialect)) (name : Bytes) : Option Dialect :=
  (tbl.find? (fun p => p.1 == name)).map (fun p => p.2)

/-- `include_dialect` applied to an element that is a proper list of length 2. -/
def includeOf (tbl : List (Bytes × Dialect)) (e : Val) : Option Dialect :=
  match properList e with
  | some [.atom kw, .atom name] => if kw == includeKw then lookupDialect tbl name else none
  | _ => none

/-- one iteration of the loop in `detect_modern`: `r` is the recursive result on the element,
    `later` what the remaining elements give. -/
def detectStep (tbl : List (Bytes × Dialect)) (r : Dialect) (e : Val) (later : Dialect) : Dialect :=
  if r.stepping.isSome then r
  else match includeOf tbl e with
    | some d => d
    | none => later

/-- `detect_modern`: `top = true` at a node where `proper_list` is (re)checked, `false` while
    walking the spine of a list already known to be proper. -/
def detectAux (tbl : List (Bytes × Dialect)) : Bool → Val → Dialect
  | _, .atom _ => Dialect.classic
  | true, .pair e rest =>
    if (properList rest).isSome then
      detectStep tbl (detectAux tbl true e) e (detectAux tbl false rest)
    else Dialect.classic
  | false, .pair e rest =>
    detectStep tbl (detectAux tbl true e) e (detectAux tbl false rest)

def detect (tbl : List (Bytes × Dialect)) (v : Val) : Dialect := detectAux tbl true v

end Opts
