/-
  Sys/Purity.lean — model for C05 (compilation is a pure function of source, includes, options):

  * the integer-conversion mode: a per-thread cell (`NEW_COMPILATION_LEVEL_INT`) that is only
    written by the RAII guard `NewStyleIntConversion` — `new` swaps the requested value in and
    keeps the old one, `drop` writes the kept value back on EVERY way out of the scope (normal
    end, `?` error propagation, early return, unwinding);
  * the fresh-name counter (`ARGNAME_CTR`, `gensym`);
  * the consumer classes that iteration sites over `HashMap`/`HashSet` are assigned to
    (tools/c05_sites.json, merged into Generated/IterSites.lean), with executable models of the
    consumers whose permutation invariance is proved in Proofs/PurityLemmas.lean.
-/
import ChialispModel.Base.Bytes

namespace Purity

/-! ### iteration-site consumer classes -/

inductive ConsumerClass where
  | insertAll              -- every element inserted into a set / insert-if-absent with value = f(key)
  | anyAll                 -- any / all / contains / is-empty
  | sortThenUse            -- collected, then sorted by a total order before use
  | count                  -- len / count
  | setAlgebra             -- union / intersection / difference collected into a set
  | mapDistinctKeys        -- (k, v) pairs with distinct keys inserted into a map
  | maxMin                 -- max / min by a total key
  | perElementIndependent  -- per-element updates that commute pairwise
  | notHashCollection      -- reviewed: the receiver is a Vec / BTreeMap homonym
  | notOutputAffecting     -- reviewed: diagnostics / debugger display only
  | reachClosure           -- depth-first closure into a set (argued, NOT proved here)
  | orderSensitive         -- order can matter or invariance is not established: OPEN
  | unclassified           -- not in the hand table: OPEN
  deriving DecidableEq, Repr, Inhabited

/-- classes whose order-independence is proved (or that are not unordered iterations at all). -/
def ConsumerClass.discharged : ConsumerClass → Bool
  | .reachClosure | .orderSensitive | .unclassified => false
  | _ => true

/-- a set as seen by its users: the membership test. -/
abbrev SetOf (α : Type) := α → Bool
/-- a map as seen by its users: lookup. -/
abbrev MapOf (κ ν : Type) := κ → Option ν

def insertSet {α} [BEq α] (s : SetOf α) (x : α) : SetOf α := fun y => y == x || s y
def insertAllSet {α} [BEq α] (init : SetOf α) (l : List α) : SetOf α := l.foldl insertSet init

def insertMap {κ ν} [BEq κ] (m : MapOf κ ν) (p : κ × ν) : MapOf κ ν := fun k => if k == p.1 then some p.2 else m k
def insertAllMap {κ ν} [BEq κ] (init : MapOf κ ν) (l : List (κ × ν)) : MapOf κ ν := l.foldl insertMap init

def unionSet {α} [BEq α] (a b : List α) : SetOf α := fun x => a.contains x || b.contains x
def interSet {α} [BEq α] (a b : List α) : SetOf α := fun x => a.contains x && b.contains x
def diffSet {α} [BEq α] (a b : List α) : SetOf α := fun x => a.contains x && !b.contains x

def sortThenUse {α} (le : α → α → Bool) (l : List α) : List α := l.mergeSort le
def maxBy {α} (key : α → Nat) (l : List α) : Nat := l.foldl (fun m x => max m (key x)) 0
def minBy {α} (key : α → Nat) (dflt : Nat) (l : List α) : Nat := l.foldl (fun m x => min m (key x)) dflt

/-! ### the integer-conversion mode and its guard -/

abbrev ThreadId := Nat

/-- the thread-local cells, one per thread. -/
structure World where
  mode : ThreadId → Bool

def World.set (w : World) (t : ThreadId) (b : Bool) : World :=
  { mode := fun u => if u = t then b else w.mode u }

/-- `NewStyleIntConversion(bool)`: what `drop` will write back. -/
structure Guard where
  saved : Bool

/-- `NewStyleIntConversion::new(v)`: swap `v` into the cell, keep the old value. -/
def newGuard (t : ThreadId) (v : Bool) (w : World) : Guard × World := (⟨w.mode t⟩, w.set t v)
/-- `impl Drop`: write the kept value back. -/
def dropGuard (t : ThreadId) (g : Guard) (w : World) : World := w.set t g.saved

/-- how a piece of code ends: normally, by `?` propagating an error, by an early `return`,
    by a panic unwinding the stack (destructors run on all of them). -/
inductive Outcome where
  | ok | err | early | unwind
  deriving DecidableEq, Repr, Inhabited

/-- code as far as the mode is concerned: it never touches the cell except through guards. -/
inductive Code where
  | skip                              -- computation that does not look at the mode
  | stop (o : Outcome)                -- leaves the enclosing scopes with outcome `o`
  | observe                           -- reads `NewStyleIntConversion::setting()`
  | seq (a b : Code)                  -- `a; b` (b is skipped when a did not end normally)
  | guarded (v : Bool) (body : Code)   -- `{ let _g = NewStyleIntConversion::new(v); body }`
  deriving Repr, Inhabited

/-- result of running code: final world, outcome, the sequence of mode values it observed. -/
structure Ran where
  world : World
  outcome : Outcome
  seen : List Bool

def Ran.andThen (r : Ran) (k : World → Ran) : Ran :=
  match r.outcome with
  | .ok => match k r.world with
    | ⟨w, o, s⟩ => ⟨w, o, r.seen ++ s⟩
  | _ => r

def exec (t : ThreadId) : Code → World → Ran
  | .skip, w => ⟨w, .ok, []⟩
  | .stop o, w => ⟨w, o, []⟩
  | .observe, w => ⟨w, .ok, [w.mode t]⟩
  | .seq a b, w => (exec t a w).andThen (exec t b)
  | .guarded v body, w =>
    match exec t body (newGuard t v w).2 with
    | ⟨w', o, s⟩ => ⟨dropGuard t (newGuard t v w).1 w', o, s⟩

/-- what the code observes and how it ends, computed from the mode at entry alone. -/
def static (m : Bool) : Code → Outcome × List Bool
  | .skip => (.ok, [])
  | .stop o => (o, [])
  | .observe => (.ok, [m])
  | .seq a b =>
    match static m a with
    | (.ok, s) => match static m b with
      | (o, s') => (o, s ++ s')
    | r => r
  | .guarded v body => static v body

/-- `compile_file` / `compile_program`: the whole compilation runs inside a guard set from the
    dialect (`opts.dialect().int_fix`). -/
def compileFile (intFix : Bool) (body : Code) : Code := .guarded intFix body

/-- the library entry converts the result AFTER `compile_file` returned (guard dropped). -/
def libraryEntry (intFix : Bool) (body : Code) : Code := .seq (compileFile intFix body) .observe

/-! ### the fresh-name counter -/

/-- `gensym`: the generated name and the next counter value. -/
def gensym (name : Bytes) (ctr : Nat) : Bytes × Nat :=
  (name ++ [95, 36, 95] ++ (Nat.repr (ctr + 1)).toUTF8.toList, ctr + 1)

end Purity
