/-
  Sys/Deps.lean — model of the dependency listing (`gather_dependencies`, what `run -M` and
  the python `check_dependencies` print) and of the files a compilation reads (C18).
  Import-free.

  Mirrors /repo/src/compiler/preprocessor/mod.rs (`Preprocessor::run`, `process_pp_form`,
  `recurse_dependencies`, `process_include`, `process_embed`), compiler.rs
  (`DefaultCompilerOpts::read_new_file`: pseudo-files first, then the search directories in
  order, first hit wins) and frontend.rs (`frontend` — a `(mod …)` nested in an expression runs
  `frontend` again with a FRESH `includes` vector, which stays in the nested `CompileForm`).
  State of the code mirrored: after 91ba43e (`recurse_dependencies` lists an embed-file target
  under its resolved name and does not look inside) and 95cfe0a (`gather_dependencies` runs the
  frontend without the liveness filter and walks the program with `collect_include_forms` /
  `collect_include_forms_bodyform`: own include vector first, then the vectors of the programs
  nested in the helpers, in helper order).

  Programs are abstracted to the forms that matter here:
    `incl n`      (include n)              n a pseudo-file (`*macros*`, a dialect name) or a file
    `embed k n`   (embed-file C k n)       k ∈ bin | hex | sexp
    `nested b`    a helper whose body contains `(mod (…) b… expr)`
    `other`       any other helper form
  Every function is a writer: it returns the `read_new_file` calls it made (`reads`), what it
  pushed onto the `includes` vector (`listed`) and the forms it hands on (`forms`); the real code
  never consults earlier reads or the vector, so nothing is lost by that.  `fuel` bounds the
  include / nested-mod depth (the Rust code recurses on the machine stack; an include cycle
  overflows it).
-/

namespace Deps

inductive Kind
  | bin | hex | sexp
deriving DecidableEq, Repr

inductive Name
  | macros                 -- `*macros*`
  | dialect (k : Nat)      -- a KNOWN_DIALECTS name, e.g. `*standard-cl-21*`
  | file (n : Nat)
deriving DecidableEq, Repr

inductive Form
  | incl (n : Name)
  | embed (k : Kind) (n : Nat)
  | nested (body : List Form)
  | other

/-- one search directory: source files (lists of forms) and data files
    (valid as hex text?, valid as exactly one s-expression?). -/
structure Dir where
  src : Nat → Option (List Form)
  dat : Nat → Option (Bool × Bool)

structure Cfg where
  dirs : List Dir          -- the search path, in order
  strict : Bool            -- dialect.strict (cl23, strict-cl-21): included files are preprocessed too

/-- the name `read_new_file` returns. -/
inductive RName
  | pseudo (n : Name)
  | src (dir : Nat) (n : Nat)      -- `<dirs[dir]>/<n>`
  | dat (dir : Nat) (n : Nat)
deriving DecidableEq, Repr

def RName.isPseudo : RName → Bool
  | .pseudo _ => true
  | _ => false

/-- first directory (counting from `i`) that has source file `n`. -/
def resolveSrc : List Dir → Nat → Nat → Option (Nat × List Form)
  | [], _, _ => none
  | d :: ds, i, n =>
    match d.src n with
    | some f => some (i, f)
    | none => resolveSrc ds (i + 1) n

def resolveDat : List Dir → Nat → Nat → Option (Nat × (Bool × Bool))
  | [], _, _ => none
  | d :: ds, i, n =>
    match d.dat n with
    | some f => some (i, f)
    | none => resolveDat ds (i + 1) n

/-- `read_new_file` for an include: pseudo-files hold helper forms only. -/
def readNew (dirs : List Dir) : Name → Option (RName × List Form)
  | .file n =>
    match resolveSrc dirs 0 n with
    | some (i, f) => some (.src i n, f)
    | none => none
  | p => some (.pseudo p, [.other])

structure Read where
  res : RName
  embed : Bool       -- made by `process_embed`
  nested : Bool      -- made while compiling a nested `(mod …)`
deriving DecidableEq, Repr

structure Out where
  reads : List Read
  listed : List RName
  forms : List Form

def Out.empty : Out := ⟨[], [], []⟩

def Out.append (a b : Out) : Out := ⟨a.reads ++ b.reads, a.listed ++ b.listed, a.forms ++ b.forms⟩

inductive Err
  | fuel          -- recursion deeper than the fuel (the real code: stack overflow on a cycle)
  | notFound      -- "could not find … to include"
  | rawInclude    -- an include / embed-file form inside an included file of a non-strict dialect
  | badEmbed      -- embedded data not valid for its kind
deriving DecidableEq, Repr

abbrev R := Except Err Out

/-- apply `pp` to each form in order, concatenating the outputs (the `for` loops). -/
def seqForms (pp : Form → R) : List Form → R
  | [] => .ok Out.empty
  | f :: r =>
    match pp f with
    | .error e => .error e
    | .ok a =>
      match seqForms pp r with
      | .error e => .error e
      | .ok b => .ok (a.append b)

def rd (r : RName) : Read := ⟨r, false, false⟩

/-- a read of an embed-file target. -/
def rdE (r : RName) : Read := ⟨r, true, false⟩

/-- `recurse_dependencies`: dialect names are skipped; otherwise read, LIST, and walk the forms
    of the file (results of `process_pp_form` are discarded, its reads and listings are not). -/
def recurseDeps (cfg : Cfg) (pp : Form → R) : Name → R
  | .dialect _ => .ok Out.empty
  | n =>
    match readNew cfg.dirs n with
    | none => .error .notFound
    | some (r, forms) =>
      match seqForms pp forms with
      | .error e => .error e
      | .ok sub => .ok ⟨rd r :: sub.reads, r :: sub.listed, []⟩

/-- `process_include`: read again; strict dialects preprocess the forms, others pass them raw. -/
def processInclude (cfg : Cfg) (pp : Form → R) (n : Name) : R :=
  match readNew cfg.dirs n with
  | none => .error .notFound
  | some (r, forms) =>
    if cfg.strict = true then
      match seqForms pp forms with
      | .error e => .error e
      | .ok sub => .ok ⟨rd r :: sub.reads, sub.listed, sub.forms⟩
    else .ok ⟨[rd r], [], forms⟩

def embedValid : Kind → Bool × Bool → Bool
  | .bin, _ => true
  | .hex, (h, _) => h
  | .sexp, (_, s) => s

/-- `recurse_dependencies` on an embed-file description (`desc.kind.is_some()`): the target is
    read and LISTED under its resolved name; it is data, nothing inside it is looked at. -/
def recurseEmbed (cfg : Cfg) (n : Nat) : R :=
  match resolveDat cfg.dirs 0 n with
  | none => .error .notFound
  | some (i, _) => .ok ⟨[rdE (.dat i n)], [.dat i n], []⟩

/-- `process_embed`: the file is read (again), nothing is listed, a `defconst` form results. -/
def processEmbed (cfg : Cfg) (k : Kind) (n : Nat) : R :=
  match resolveDat cfg.dirs 0 n with
  | none => .error .notFound
  | some (i, v) =>
    if embedValid k v = true then .ok ⟨[rdE (.dat i n)], [], [.other]⟩ else .error .badEmbed

/-- `process_pp_form`, with `fuel` levels of include nesting left. -/
def ppLevel (cfg : Cfg) : Nat → Form → R
  | 0, _ => .error .fuel
  | fuel + 1, .incl n =>
    match recurseDeps cfg (ppLevel cfg fuel) n with
    | .error e => .error e
    | .ok a =>
      match processInclude cfg (ppLevel cfg fuel) n with
      | .error e => .error e
      | .ok b => .ok (a.append b)
  | _ + 1, .embed k n =>
    match recurseEmbed cfg n with
    | .error e => .error e
    | .ok a =>
      match processEmbed cfg k n with
      | .error e => .error e
      | .ok b => .ok (a.append b)
  | _ + 1, .nested b => .ok ⟨[], [], [.nested b]⟩
  | _ + 1, .other => .ok ⟨[], [], [.other]⟩

/-- `Preprocessor::run`: `(include *macros*)` is put in front when `stdenv`. -/
def preprocess (cfg : Cfg) (stdenv : Bool) (fuel : Nat) (forms : List Form) : R :=
  seqForms (ppLevel cfg fuel) (if stdenv = true then .incl .macros :: forms else forms)

def tagNested (nst : Bool) (rs : List Read) : List Read :=
  rs.map (fun r => ⟨r.res, r.embed, r.nested || nst⟩)

/-- `compile_mod_` over the preprocessed forms: a raw include/embed is "unknown keyword in
    helper"; a nested mod runs `frontend` (`fe`) — its reads happen, and its `includes` vector
    stays in the nested program, where `collect_include_forms` finds it (helpers in order; the
    listing of a program is its own vector followed by those of the programs nested in it). -/
def compileHelpers (fe : List Form → R) : List Form → R
  | [] => .ok Out.empty
  | .incl _ :: _ => .error .rawInclude
  | .embed _ _ :: _ => .error .rawInclude
  | .other :: r => compileHelpers fe r
  | .nested b :: r =>
    match fe b with
    | .error e => .error e
    | .ok a =>
      match compileHelpers fe r with
      | .error e => .error e
      | .ok c => .ok ⟨a.reads ++ c.reads, a.listed ++ c.listed, []⟩

/-- `frontend`: preprocess with a fresh `includes` vector, then compile the helpers; `listed` is
    what `collect_include_forms` returns for the resulting program. -/
def frontendLevel (cfg : Cfg) (stdenv : Bool) : Nat → Bool → List Form → R
  | 0, _, _ => .error .fuel
  | fuel + 1, nst, forms =>
    match preprocess cfg stdenv fuel forms with
    | .error e => .error e
    | .ok pre =>
      match compileHelpers (frontendLevel cfg stdenv fuel true) pre.forms with
      | .error e => .error e
      | .ok sub => .ok ⟨tagNested nst pre.reads ++ sub.reads, pre.listed ++ sub.listed, []⟩

/-- `gather_dependencies`: `frontend` with `stdenv := dialect.strict` (and no liveness filter: the
    model keeps every helper anyway), `collect_include_forms`, then drop `*…*` names. -/
def gatherDeps (cfg : Cfg) (fuel : Nat) (main : List Form) : Except Err (List RName) :=
  match frontendLevel cfg cfg.strict fuel false main with
  | .error e => .error e
  | .ok o => .ok (o.listed.filter (fun r => !r.isPseudo))

/-- the `read_new_file` calls of a compilation (`compile_file`: `stdenv` is on). -/
def compileReads (cfg : Cfg) (fuel : Nat) (main : List Form) : Except Err (List Read) :=
  match frontendLevel cfg true fuel false main with
  | .error e => .error e
  | .ok o => .ok o.reads

/-- `n` found in directory `i` and in no earlier one. -/
def FirstMatch (dirs : List Dir) (i n : Nat) : Prop :=
  (∃ d f, dirs[i]? = some d ∧ d.src n = some f) ∧ ∀ j d, j < i → dirs[j]? = some d → d.src n = none

/-- data file `n` found in directory `i` and in no earlier one. -/
def FirstMatchDat (dirs : List Dir) (i n : Nat) : Prop :=
  (∃ d v, dirs[i]? = some d ∧ d.dat n = some v) ∧ ∀ j d, j < i → dirs[j]? = some d → d.dat n = none

/-- no `nested` form at the top level of a list of forms. -/
def flatForms : List Form → Bool
  | [] => true
  | .nested _ :: _ => false
  | _ :: r => flatForms r

/-- the files directly included by a list of forms. -/
def inclsOf : List Form → List Nat
  | [] => []
  | .incl (.file m) :: r => m :: inclsOf r
  | _ :: r => inclsOf r

end Deps
