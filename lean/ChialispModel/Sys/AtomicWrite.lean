/-
  Sys/AtomicWrite.lean — model of `atomic_write_file` / `gentle_overwrite`
  (/repo/src/util/mod.rs) running concurrently with other writers and readers of the same
  output path (C19).  Import-free.

  File system.  Directory entries map a path to an inode number, inodes hold bytes
  (so an `open`ed file keeps its identity when the name is renamed away — exactly the
  reason replace-by-rename is atomic for readers).  `dirOk d` says directory `d` exists and
  is writable (entry creation / rename / unlink are refused otherwise).  Independently of
  that every operation of a writer may be made to FAIL by the schedule (`fault = true`:
  EACCES, ENOSPC, EIO, EMFILE, …).

  Writer `i` is the straight-line program of the Rust code, one atomic file-system
  operation per step:

      gentle_overwrite:   read target                        (phase `start`)
                          same := trim prev == trim data
      atomic_write_file:  mkTemp  dir(target)/tmpᵢ  O_EXCL   (phase `create`)
                          write chunk₁ … chunkₖ to the fd    (phase `writing`)
                          rename  tmpᵢ → target              (phase `writing … []`)
      on any failure:     drop(NamedTempFile) = unlink tmpᵢ  (phase `cleanup`)
                          result := if same then Ok else Err (phase `done`)

  `chunks` is the split of the data into `write(2)` calls made by `write_all`; it is a free
  parameter (a failing `write` that transferred part of a chunk is a finer split followed
  by a failing `write`).  A writer can be killed between any two steps (`Ev.kill`).
  Readers `open` the target (binding the inode) and then read it piecewise, interleaved with
  everything else.
-/
import ChialispModel.Base.Bytes

namespace AtomicWrite

structure Path where
  dir : Nat
  name : Nat
deriving DecidableEq, Repr

/-- point update of a function. -/
def upd {α : Type} [DecidableEq α] {β : Type} (f : α → β) (a : α) (b : β) : α → β :=
  fun x => if x = a then b else f x

structure FS where
  names : Path → Option Nat
  inodes : Nat → Bytes
  next : Nat
  dirOk : Nat → Bool

namespace FS

def content (fs : FS) (p : Path) : Option Bytes := (fs.names p).map fs.inodes

/-- `open(O_CREAT|O_EXCL)`: refused when the name exists or the directory is missing/read-only. -/
def create (fs : FS) (p : Path) : Option (FS × Nat) :=
  if fs.dirOk p.dir = true ∧ fs.names p = none then
    some ({ fs with names := upd fs.names p (some fs.next),
                    inodes := upd fs.inodes fs.next [],
                    next := fs.next + 1 }, fs.next)
  else none

/-- `write(2)` on an open descriptor: appends to the inode, whatever its name is now. -/
def append (fs : FS) (k : Nat) (c : Bytes) : FS :=
  { fs with inodes := upd fs.inodes k (fs.inodes k ++ c) }

/-- `rename(2)`: the destination entry is replaced in one step (POSIX). -/
def rename (fs : FS) (src dst : Path) : Option FS :=
  match fs.names src with
  | some k =>
    if fs.dirOk src.dir = true ∧ fs.dirOk dst.dir = true then
      some { fs with names := upd (upd fs.names src none) dst (some k) }
    else none
  | none => none

/-- `unlink(2)`, best effort (the result is ignored by `Drop for TempPath`). -/
def unlink (fs : FS) (p : Path) : FS :=
  if fs.dirOk p.dir = true then { fs with names := upd fs.names p none } else fs

end FS

/-- static description of one writer (one call of the output-writing routine). -/
structure WCfg where
  /-- entered through `gentle_overwrite` (true) or `atomic_write_file` directly -/
  gentle : Bool
  /-- name of the temporary file; it is created in the directory of the target -/
  tmp : Nat
  /-- the `write(2)` calls of `write_all`; the data is their concatenation -/
  chunks : List Bytes

def WCfg.data (c : WCfg) : Bytes := c.chunks.flatten

/-- the whole system: the output path, the writers, and `read_to_string` + `str::trim`
    (`none` = not valid UTF-8, the read fails). -/
structure Sys where
  target : Path
  cfg : Nat → WCfg
  norm : Bytes → Option Bytes

def Sys.tmpPath (S : Sys) (c : WCfg) : Path := ⟨S.target.dir, c.tmp⟩

/-- `prev_content.trim() == target_data.trim()` for a readable previous content. -/
def Sys.sameAs (S : Sys) (prev data : Bytes) : Bool :=
  match S.norm prev with
  | some p => S.norm data == some p
  | none => false

inductive Res
  | ok
  | err
deriving DecidableEq, Repr

def resOf (same : Bool) : Res := if same then .ok else .err

inductive WPhase
  | start
  | create (same : Bool)
  | writing (same : Bool) (ino : Nat) (rest : List Bytes)
  | cleanup (same : Bool) (ino : Nat)
  | done (r : Res)
  | dead
deriving DecidableEq, Repr

/-- `read_to_string` fails on a file that is not valid UTF-8. -/
def readable (S : Sys) (b : Bytes) : Option Bytes := if (S.norm b).isSome = true then some b else none

/-- outcome of the `read_to_string(target)` of `gentle_overwrite`. -/
def readPrev (S : Sys) (fault : Bool) (fs : FS) : Option Bytes :=
  if fault = true then none else (fs.content S.target).bind (readable S)

def afterRead (S : Sys) (c : WCfg) : Option Bytes → WPhase
  | some prev => .create (S.sameAs prev c.data)
  | none => .create false

def tryCreate (S : Sys) (c : WCfg) (fault : Bool) (fs : FS) : Option (FS × Nat) :=
  if fault = true then none else fs.create (S.tmpPath c)

def tryRename (S : Sys) (c : WCfg) (fault : Bool) (fs : FS) : Option FS :=
  if fault = true then none else fs.rename (S.tmpPath c) S.target

/-- one step of a writer: the file system and program counter afterwards. -/
def wstep (S : Sys) (c : WCfg) (fault : Bool) (fs : FS) : WPhase → FS × WPhase
  | .start => (fs, afterRead S c (readPrev S fault fs))
  | .create same =>
    match tryCreate S c fault fs with
    | some (fs', k) => (fs', .writing same k c.chunks)
    | none => (fs, .done (resOf same))
  | .writing same k (ch :: rest) =>
    if fault = true then (fs, .cleanup same k) else (fs.append k ch, .writing same k rest)
  | .writing same k [] =>
    match tryRename S c fault fs with
    | some fs' => (fs', .done .ok)
    | none => (fs, .cleanup same k)
  | .cleanup same _ =>
    (if fault = true then fs else fs.unlink (S.tmpPath c), .done (resOf same))
  | .done r => (fs, .done r)
  | .dead => (fs, .dead)

inductive RPhase
  | idle
  | reading (ino : Nat) (acc : Bytes)
  | got (r : Option Bytes)
deriving DecidableEq, Repr

/-- one step of a reader: `open`, then `read` of up to `n+1` bytes, until end of file. -/
def rstep (S : Sys) (n : Nat) (fs : FS) : RPhase → RPhase
  | .idle =>
    match fs.names S.target with
    | some k => .reading k []
    | none => .got none
  | .reading k acc =>
    if ((fs.inodes k).drop acc.length).isEmpty = true then .got (some acc)
    else .reading k (acc ++ ((fs.inodes k).drop acc.length).take (n + 1))
  | .got r => .got r

/-- what can happen next. -/
inductive Ev
  | w (i : Nat) (fault : Bool)   -- writer i performs its next operation (which fails if `fault`)
  | kill (i : Nat)               -- writer i is killed (SIGKILL / abort / power cut of the process)
  | r (j : Nat) (n : Nat)        -- reader j performs its next operation
deriving DecidableEq, Repr

structure State where
  fs : FS
  w : Nat → WPhase
  r : Nat → RPhase

def killed : WPhase → WPhase
  | .done r => .done r
  | _ => .dead

def step (S : Sys) (s : State) : Ev → State
  | .w i fault =>
    { fs := (wstep S (S.cfg i) fault s.fs (s.w i)).1,
      w := upd s.w i (wstep S (S.cfg i) fault s.fs (s.w i)).2,
      r := s.r }
  | .kill i => { s with w := upd s.w i (killed (s.w i)) }
  | .r j n => { s with r := upd s.r j (rstep S n s.fs (s.r j)) }

def exec (S : Sys) (s : State) (es : List Ev) : State := es.foldl (step S) s

/-- every state passed through, the first one included ("at every instant"). -/
def trace (S : Sys) : State → List Ev → List State
  | s, [] => [s]
  | s, e :: es => s :: trace S (step S s e) es

def initPhase (c : WCfg) : WPhase := if c.gentle = true then .start else .create false

def init (S : Sys) (fs₀ : FS) : State :=
  { fs := fs₀, w := fun i => initPhase (S.cfg i), r := fun _ => .idle }

/-- the contents the target is allowed to show: what it held initially (`c₀`, `none` =
    absent) or the complete data of some writer. -/
def Allowed (S : Sys) (c₀ : Option Bytes) (c : Option Bytes) : Prop :=
  c = c₀ ∨ ∃ i, c = some (S.cfg i).data

/-- directory entries only refer to allocated inodes. -/
def FS.WF (fs : FS) : Prop := ∀ p k, fs.names p = some k → k < fs.next

-- schedules in the `List WriterId` + crash-budget form of the design ----------------------

/-- turn a schedule of (writer, fault) steps into events: writer `i` performs at most
    `crash i` steps and is killed at the moment it would perform the next one. -/
def toEvents (crash : Nat → Nat) : (taken : Nat → Nat) → List (Nat × Bool) → List Ev
  | _, [] => []
  | taken, (i, f) :: rest =>
    if taken i < crash i then .w i f :: toEvents crash (upd taken i (taken i + 1)) rest
    else .kill i :: toEvents crash taken rest

-- labels: the operation performed by a writer step (driver / strace alphabet) --------------

inductive Op
  | readOk | readFail | mkOk | mkFail | wrOk | wrFail | mvOk | mvFail | rmOk | rmFail | nop
deriving DecidableEq, Repr

def wlabel (S : Sys) (c : WCfg) (fault : Bool) (fs : FS) : WPhase → Op
  | .start => if (readPrev S fault fs).isSome then .readOk else .readFail
  | .create _ => if (tryCreate S c fault fs).isSome then .mkOk else .mkFail
  | .writing _ _ (_ :: _) => if fault = true then .wrFail else .wrOk
  | .writing _ _ [] => if (tryRename S c fault fs).isSome then .mvOk else .mvFail
  | .cleanup _ _ => if fault = true ∨ fs.dirOk S.target.dir = false then .rmFail else .rmOk
  | .done _ => .nop
  | .dead => .nop

-- `read_to_string` + `str::trim` on bytes (driver instance of `Sys.norm`) -------------------

def isCont (b : UInt8) : Bool := 0x80 ≤ b.toNat ∧ b.toNat ≤ 0xBF

/-- strict UTF-8 decoding as `String::from_utf8` (no overlongs, no surrogates, ≤ U+10FFFF). -/
def utf8Decode : Bytes → Option (List Nat)
  | [] => some []
  | b0 :: rest =>
    if b0.toNat < 0x80 then (utf8Decode rest).map (b0.toNat :: ·)
    else if 0xC2 ≤ b0.toNat ∧ b0.toNat ≤ 0xDF then
      match rest with
      | b1 :: r =>
        if isCont b1 then (utf8Decode r).map (((b0.toNat - 0xC0) * 64 + (b1.toNat - 0x80)) :: ·) else none
      | _ => none
    else if 0xE0 ≤ b0.toNat ∧ b0.toNat ≤ 0xEF then
      match rest with
      | b1 :: b2 :: r =>
        if isCont b1 ∧ isCont b2
            ∧ (b0.toNat = 0xE0 → 0xA0 ≤ b1.toNat) ∧ (b0.toNat = 0xED → b1.toNat ≤ 0x9F) then
          (utf8Decode r).map
            (((b0.toNat - 0xE0) * 4096 + (b1.toNat - 0x80) * 64 + (b2.toNat - 0x80)) :: ·)
        else none
      | _ => none
    else if 0xF0 ≤ b0.toNat ∧ b0.toNat ≤ 0xF4 then
      match rest with
      | b1 :: b2 :: b3 :: r =>
        if isCont b1 ∧ isCont b2 ∧ isCont b3
            ∧ (b0.toNat = 0xF0 → 0x90 ≤ b1.toNat) ∧ (b0.toNat = 0xF4 → b1.toNat ≤ 0x8F) then
          (utf8Decode r).map
            (((b0.toNat - 0xF0) * 262144 + (b1.toNat - 0x80) * 4096 + (b2.toNat - 0x80) * 64
              + (b3.toNat - 0x80)) :: ·)
        else none
      | _ => none
    else none

/-- `char::is_whitespace` (Unicode White_Space). -/
def isWs (c : Nat) : Bool :=
  (9 ≤ c ∧ c ≤ 13) ∨ c = 0x20 ∨ c = 0x85 ∨ c = 0xA0 ∨ c = 0x1680 ∨ (0x2000 ≤ c ∧ c ≤ 0x200A)
    ∨ c = 0x2028 ∨ c = 0x2029 ∨ c = 0x202F ∨ c = 0x205F ∨ c = 0x3000

def trimWs (cs : List Nat) : List Nat :=
  ((cs.dropWhile isWs).reverse.dropWhile isWs).reverse

/-- code points re-encoded as a byte list good enough for equality comparison (4 bytes each). -/
def encCps : List Nat → Bytes
  | [] => []
  | c :: r => UInt8.ofNat (c / 16777216) :: UInt8.ofNat (c / 65536) :: UInt8.ofNat (c / 256)
      :: UInt8.ofNat c :: encCps r

/-- the driver's `norm`: `read_to_string` then `trim`. -/
def normStd (b : Bytes) : Option Bytes := (utf8Decode b).map (fun cs => encCps (trimWs cs))

end AtomicWrite
