/-
  Sys/ReplLine.lean — the line assembly of the REPL (`compiler::repl::Repl::process_line`,
  `count_depth`): how typed lines are accumulated into a text for `parse_sexp`, the three
  branches on the running parenthesis depth, and the `panic!` of the `depth < 0` branch.

  Mirrors src/compiler/repl.rs as it is:

      fn count_depth(s: &str) -> i32          -- +1 per '(' byte, -1 per ')' byte, nothing else
      pub fn process_line(&mut self, allocator, line) {
          self.depth += count_depth(&line);
          let input_taken = take(&mut self.input_exp) + "\n" + &line;
          if self.depth < 0 {
              let result = parse_sexp(loc, input_taken.bytes())
                  .map(|_v| { panic!("too many parens but parsed anyway"); }).err_into();
              self.input_exp = ""; self.depth = 0; return result;
          }
          if self.depth > 0 { self.input_exp = input_taken; return Ok(None); }
          self.input_exp = "";
          parse_sexp(self.loc.clone(), input_taken.bytes()) … (helper form / expression)
      }

  What happens to the parsed forms (frontend, evaluator) is not modelled: the outcome `forms`
  hands them on.  The model is parametric in whether the `depth < 0` branch panics (the code as
  found) or returns an error (the proposed repair); tools/translate_c14.py re-reads that fact
  from the sources on every run (`Generated/ReplCfg.lean`).  `count_depth` counts in `i32`; the model counts in `Int` (a line would need
  2^31 parentheses to tell the difference).
-/
import ChialispModel.Text.Reader
import ChialispModel.Generated.ReplCfg

namespace ReplLine
open Reader

/-- contribution of one byte to `count_depth` -/
def parenDelta (c : UInt8) : Int :=
  if c == 40 then 1 else if c == 41 then -1 else 0

/-- `count_depth` -/
def countDepth : Bytes → Int
  | [] => 0
  | c :: r => parenDelta c + countDepth r

/-- the fields of `Repl` that `process_line` reads and writes before it parses -/
structure State where
  depth : Int
  inputExp : Bytes
  deriving Repr, DecidableEq

/-- `Repl::new` -/
def State.init : State := ⟨0, []⟩

/-- what `process_line` does with one line, up to (not including) the use of the parsed forms -/
inductive Outcome where
  | panic                          -- `panic!("too many parens but parsed anyway")`
  | parseError (e : PErr)          -- `Err(CompileErr(..))` from `parse_sexp`
  | more                           -- `Ok(None)`: the line is kept, more input is awaited
  | forms (fs : List LRich)        -- the forms handed to the frontend / evaluator
  deriving Repr, DecidableEq

/-- `input_taken` -/
def taken (s : State) (line : Bytes) : Bytes := s.inputExp ++ 10 :: line

/-- the `depth < 0` branch.  `panics = true`: the code as found (`panic!` when `parse_sexp`
    accepted the text); `panics = false`: the proposed repair (an error "Too many close parens"
    at the REPL's start location instead). -/
def negBranchWith (panics : Bool) (text : Bytes) : State × Outcome :=
  match parse text with
  | .ok _ =>
    if panics then (⟨0, []⟩, .panic)
    else (⟨0, []⟩, .parseError (Srcloc.start Srcloc.inputFile, .tooManyClose))
  | .error e => (⟨0, []⟩, .parseError e)

/-- the `depth == 0` branch -/
def zeroBranch (text : Bytes) : State × Outcome :=
  match parse text with
  | .ok fs => (⟨0, []⟩, .forms fs)
  | .error e => (⟨0, []⟩, .parseError e)

/-- `process_line`, parametric in the one source-level fact (`Generated/ReplCfg.lean`) -/
def processLineWith (panics : Bool) (s : State) (line : Bytes) : State × Outcome :=
  if s.depth + countDepth line < 0 then negBranchWith panics (taken s line)
  else if s.depth + countDepth line > 0 then (⟨s.depth + countDepth line, taken s line⟩, .more)
  else zeroBranch (taken s line)

/-- `process_line` of the code as found -/
def processLine (s : State) (line : Bytes) : State × Outcome := processLineWith true s line

/-- `process_line` with the proposed repair -/
def processLineFixed (s : State) (line : Bytes) : State × Outcome := processLineWith false s line

/-- `process_line` as the sources have it NOW (what the driver runs against the real REPL) -/
def processLineSource (s : State) (line : Bytes) : State × Outcome :=
  processLineWith ReplCfg.sourcePanics s line

/-- a session: the lines typed one after the other; the outcomes in order.  (After a panic the
    real process is gone; the model goes on from the reset state, which is irrelevant for the
    statements made about it.) -/
def session (s : State) : List Bytes → List Outcome
  | [] => []
  | l :: r => (processLine s l).2 :: session (processLine s l).1 r

/-- the state after a session -/
def after (s : State) : List Bytes → State
  | [] => s
  | l :: r => after (processLine s l).1 r

/-- the panic condition of one step, as a decidable predicate -/
def panics (s : State) (line : Bytes) : Bool :=
  decide (s.depth + countDepth line < 0) &&
    (match parse (taken s line) with
     | .ok _ => true
     | .error _ => false)

end ReplLine
