/-
  Base/Val.lean — CLVM values (what clvmr's allocator holds), evaluation results.
-/
import ChialispModel.Base.Bytes

inductive Val where
  | atom (b : Bytes)
  | pair (a d : Val)
  deriving Repr, DecidableEq, Inhabited, BEq

namespace Val

def nil : Val := .atom []
def one : Val := .atom [1]

def ofNat (n : Nat) : Val := .atom (Bytes.ofIntClvm (Int.ofNat n))
def ofInt (i : Int) : Val := .atom (Bytes.ofIntClvm i)

def isNil : Val → Bool
  | .atom [] => true
  | _ => false

/-- clvmr `nilp`: an atom of length 0. -/
def nilp : Val → Bool
  | .atom b => b.isEmpty
  | .pair _ _ => false

def isPair : Val → Bool
  | .pair _ _ => true
  | _ => false

/-- build a proper list. -/
def ofList : List Val → Val
  | [] => nil
  | x :: r => .pair x (ofList r)

/-- clvmr `a.next` iteration: elements until the first non-pair tail (terminator ignored). -/
def elems : Val → List Val
  | .pair a d => a :: elems d
  | .atom _ => []

/-- the terminator of a (possibly improper) list. -/
def terminator : Val → Val
  | .pair _ d => terminator d
  | v => v

def size : Val → Nat
  | .atom _ => 1
  | .pair a d => 1 + size a + size d

end Val

/-- evaluation errors: out of fuel is kept apart from genuine failures. -/
inductive EvalErr where
  | fuel
  | fail (tag : String)
  deriving Repr, DecidableEq, Inhabited

abbrev Res := Except EvalErr Val

def failR {α} (tag : String) : Except EvalErr α := .error (.fail tag)

/-- the result is a genuine failure (not a timeout). -/
def Except.isFail {α} : Except EvalErr α → Bool
  | .error (.fail _) => true
  | _ => false

