/-
  Base/Path.lean — environment paths as clvmr's `traverse_path` reads them.

  A path atom is a byte string; its unsigned big-endian value `p` is walked from the least
  significant bit upward (0 = first/left, 1 = rest/right) until only the top `1` remains.
  Value 0 (empty atom or all-zero bytes) selects nil.
-/
import ChialispModel.Base.Val

namespace Path

/-- bits below the top 1, least significant first (the walk order). `bitsOf 0 = bitsOf 1 = []`. -/
def bitsOfAux : Nat → Nat → List Bool
  | 0, _ => []
  | fuel+1, p => if p ≤ 1 then [] else (p % 2 == 1) :: bitsOfAux fuel (p / 2)

def bitsOf (p : Nat) : List Bool := bitsOfAux p p

def walk : List Bool → Val → Res
  | [], v => .ok v
  | b :: r, .pair a d => walk r (if b then d else a)
  | _ :: _, .atom _ => failR "path into atom"

/-- `traverse_path` on the unsigned value. -/
def lookupNat (p : Nat) (env : Val) : Res :=
  if p = 0 then .ok Val.nil else walk (bitsOf p) env

/-- `traverse_path` on the atom bytes. -/
def lookup (b : Bytes) (env : Val) : Res := lookupNat (Bytes.toNatBE b) env

/-- path from bits (inverse of `bitsOf` for p ≥ 1). -/
def ofBits : List Bool → Nat
  | [] => 1
  | b :: r => 2 * ofBits r + (if b then 1 else 0)

/-- `compose_paths` (classic node_path.rs): first follow `p`, then `q`. -/
def compose (p q : Nat) : Nat := ofBits (bitsOf p ++ bitsOf q)

end Path
