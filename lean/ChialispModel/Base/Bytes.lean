/-
  Base/Bytes.lean — byte strings and the integer/byte conversions used all over
  clvm_tools_rs (num-bigint `to_signed_bytes_be` / `from_signed_bytes_be`, clvmr's minimal
  encoding).  Import-free so the native driver can link it.
-/

abbrev Bytes := List UInt8

namespace Bytes

/-- unsigned big-endian value (path values, size prefixes). -/
def toNatBE (b : Bytes) : Nat := b.foldl (fun acc x => acc * 256 + x.toNat) 0

/-- minimal unsigned big-endian bytes, `0 ↦ []` (num-bigint `to_bytes_be` minus its `[0]` for zero). -/
def ofNatBEAux : Nat → Nat → Bytes
  | 0, _ => []
  | fuel+1, n => if n = 0 then [] else ofNatBEAux fuel (n / 256) ++ [UInt8.ofNat (n % 256)]

def ofNatBE (n : Nat) : Bytes := ofNatBEAux n n

/-- fixed-width big-endian (low `k` bytes of `n`). -/
def ofNatWidth : (k : Nat) → Nat → Bytes
  | 0, _ => []
  | k+1, n => ofNatWidth k (n / 256) ++ [UInt8.ofNat (n % 256)]

/-- `number_from_u8` / `BigInt::from_signed_bytes_be` with `[] ↦ 0`. -/
def toInt (b : Bytes) : Int :=
  match b with
  | [] => 0
  | x :: _ => if x.toNat ≥ 128 then (toNatBE b : Int) - ((256 ^ b.length : Nat) : Int) else (toNatBE b : Int)

/-- number of bytes needed for a negative number `-m` (m > 0) in two's complement. -/
def negWidth (m : Nat) : Nat :=
  -- smallest k ≥ 1 with m ≤ 2^(8k-1)
  let rec go (fuel k : Nat) : Nat :=
    match fuel with
    | 0 => k
    | fuel+1 => if m ≤ 2 ^ (8 * k - 1) then k else go fuel (k + 1)
  go (m + 1) 1

/-- sign byte for non-negative numbers: `[] ↦ [0]`, a leading byte ≥ 0x80 gets a 0 in front. -/
def posBytes (b : Bytes) : Bytes :=
  match b with
  | [] => [0]
  | x :: _ => if x.toNat ≥ 128 then 0 :: b else b

/-- `u8_from_number` / `BigInt::to_signed_bytes_be`: minimal two's complement, `0 ↦ [0]`. -/
def ofInt : Int → Bytes
  | .ofNat n => posBytes (ofNatBE n)
  | .negSucc n => ofNatWidth (negWidth (n + 1)) (256 ^ negWidth (n + 1) - (n + 1))

/-- clvmr's / `bigint_to_bytes_clvm`: minimal two's complement with `0 ↦ []`. -/
def ofIntClvm (i : Int) : Bytes := if i = 0 then [] else ofInt i

/-- an atom that is the minimal encoding of its own integer value (consensus canonical form). -/
def canonical (b : Bytes) : Bool := ofIntClvm (toInt b) == b

/-- strip leading zero bytes. -/
def stripZeros : Bytes → Bytes
  | 0 :: r => stripZeros r
  | b => b

-- hex -----------------------------------------------------------------------------------

def hexDigit (n : Nat) : Char :=
  if n < 10 then Char.ofNat (48 + n) else Char.ofNat (87 + n)

def toHexChars : Bytes → List Char
  | [] => []
  | b :: r => hexDigit (b.toNat / 16) :: hexDigit (b.toNat % 16) :: toHexChars r

def toHex (b : Bytes) : String := String.ofList (toHexChars b)

def hexVal (c : Char) : Option Nat :=
  let n := c.toNat
  if 48 ≤ n ∧ n ≤ 57 then some (n - 48)
  else if 97 ≤ n ∧ n ≤ 102 then some (n - 87)
  else if 65 ≤ n ∧ n ≤ 70 then some (n - 55)
  else none

def ofHexChars : List Char → Option Bytes
  | [] => some []
  | [_] => none
  | a :: b :: r =>
    match hexVal a, hexVal b, ofHexChars r with
    | some x, some y, some t => some (UInt8.ofNat (x * 16 + y) :: t)
    | _, _, _ => none

def ofHex (s : String) : Option Bytes := ofHexChars s.toList

end Bytes
