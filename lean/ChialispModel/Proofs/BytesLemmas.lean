/-
  Proofs/BytesLemmas.lean — facts about the integer/byte conversions.
-/
import ChialispModel.Base.Bytes

namespace Bytes

theorem ofInt_zero : ofInt 0 = [0] := by
  show posBytes (ofNatBE 0) = [0]
  simp [ofNatBE, ofNatBEAux, posBytes]

theorem ofNatWidth_length (k n : Nat) : (ofNatWidth k n).length = k := by
  induction k generalizing n with
  | zero => simp [ofNatWidth]
  | succ k ih => simp [ofNatWidth, ih]

theorem negWidth_go_ge (m fuel k : Nat) : k ≤ negWidth.go m fuel k := by
  induction fuel generalizing k with
  | zero => simp [negWidth.go]
  | succ f ih =>
    simp only [negWidth.go]
    split
    · exact Nat.le_refl _
    · exact Nat.le_trans (Nat.le_succ k) (ih (k + 1))

theorem negWidth_pos (m : Nat) : 1 ≤ negWidth m := by
  unfold negWidth
  exact negWidth_go_ge m (m + 1) 1

theorem posBytes_ne_nil (b : Bytes) : posBytes b ≠ [] := by
  unfold posBytes
  split
  · simp
  · split <;> simp

theorem ofInt_ne_nil (i : Int) : ofInt i ≠ [] := by
  cases i with
  | ofNat n => exact posBytes_ne_nil _
  | negSucc n =>
    intro h
    have h1 := congrArg List.length h
    simp only [ofInt, ofNatWidth_length, List.length_nil] at h1
    have := negWidth_pos (n + 1)
    omega

end Bytes
