/-
  Proofs/OptDriver.lean — `sub_args`, the two recursive rules (`var_change_optimizer_cons_eval`,
  `children_optimizer`), one pass over the optimisers and the fixpoint loop of `optimize_sexp_`.
-/
import ChialispModel.Proofs.OptRules

namespace Opt
open Clvm

-- cons_f / cons_r / path_from_args ---------------------------------------------------------

theorem consF_sound {ops : OpSem} (co : CoreOps ops) {na e x y : Val}
    (h : Evaluates ops na e (.pair x y)) : Evaluates ops (consF na) e x := by
  unfold consF
  cases h1 : matchSexp patCons na [] with
  | some bs =>
    obtain ⟨A, B, rfl, ha, hb⟩ := match_patCons h1
    simp only [Option.bind, ha]
    obtain ⟨a, b, he, hA, _⟩ := eval_cons_inv co h
    cases he; exact hA
  | none =>
    simp only [Option.bind]
    exact (eval_first_iff co).2 ⟨y, h⟩

theorem consR_sound {ops : OpSem} (co : CoreOps ops) {na e x y : Val}
    (h : Evaluates ops na e (.pair x y)) : Evaluates ops (consR na) e y := by
  unfold consR
  cases h1 : matchSexp patCons na [] with
  | some bs =>
    obtain ⟨A, B, rfl, ha, hb⟩ := match_patCons h1
    simp only [Option.bind, hb]
    obtain ⟨a, b, he, _, hB⟩ := eval_cons_inv co h
    cases he; exact hB
  | none =>
    simp only [Option.bind]
    exact (eval_rest_iff co).2 ⟨x, h⟩

/-- `path_from_args` on an index ≥ 1: the f/r chain around `new_args` selects what the path selects. -/
theorem pathFromArgsNat_sound {ops : OpSem} (co : CoreOps ops) {e v : Val} :
    ∀ (fuel p : Nat) (na a : Val), p ≤ fuel → 1 ≤ p → Evaluates ops na e a →
      Path.lookupNat p a = .ok v → Evaluates ops (pathFromArgsNat fuel p na) e v := by
  intro fuel
  induction fuel with
  | zero => intro p na a h1 h2; omega
  | succ f ih =>
    intro p na a hf hp hna hl
    simp only [pathFromArgsNat]
    split
    · rename_i h1
      have : p = 1 := by omega
      subst this
      rw [PathAlg.lookupNat_one] at hl
      cases hl; exact hna
    · rename_i h1
      cases a with
      | atom b => exact absurd hl (PathAlg.lookupNat_atom (by omega) b v)
      | pair x y =>
        rw [PathAlg.lookupNat_step (by omega)] at hl
        split
        · rename_i hb
          have hb' : p % 2 = 1 := by
            have : p % 2 ≠ 0 := by simpa using hb
            omega
          rw [if_pos hb'] at hl
          exact ih (p / 2) _ y (by omega) (by omega) (consR_sound co hna) hl
        · rename_i hb
          have hb' : ¬ p % 2 = 1 := by
            have : p % 2 = 0 := by simpa using hb
            omega
          rw [if_neg hb'] at hl
          exact ih (p / 2) _ x (by omega) (by omega) (consF_sound co hna) hl

theorem pathFromArgs_sound {ops : OpSem} (co : CoreOps ops) {b : Bytes} {na e a v : Val}
    (hb : 1 ≤ Bytes.toInt b) (hna : Evaluates ops na e a) (h : Evaluates ops (.atom b) a v) :
    Evaluates ops (pathFromArgs (.atom b) na) e v := by
  rw [eval_path_atom] at h
  have hnn : Bytes.toInt b = (Bytes.toNatBE b : Int) := BytesAlg.toInt_nonneg_eq (by omega)
  simp only [pathFromArgs]
  split
  · rename_i h1
    have : Bytes.toNatBE b = 1 := by omega
    rw [this, PathAlg.lookupNat_one] at h
    cases h; exact hna
  · rename_i h1
    have hp : (Bytes.toInt b).toNat = Bytes.toNatBE b := by omega
    rw [hp]
    exact pathFromArgsNat_sound co _ _ na a (Nat.le_refl _) (by omega) hna h

-- sub_args ---------------------------------------------------------------------------------

theorem evalArgs_isProper {ops : OpSem} {e : Val} : ∀ (r vals : Val), EvalArgs ops r e vals → isProper r = true := by
  intro r
  induction r with
  | atom b => intro vals h; simp [isProper, (evalArgs_atom_iff.1 h).1]
  | pair x d _ ihd =>
    intro vals h
    obtain ⟨_, rs, _, _, hr⟩ := evalArgs_pair_iff.1 h
    simpa [isProper] using ihd rs hr

/-- **sub_args**: on a program on which it is safe (no pair-headed form, every path atom reads
    as an integer ≥ 1), substituting `new_args` for the environment is re-rooting:
    `S[ARGS]` in `e` is `S` in the value of `ARGS`. -/
theorem subArgs_sound_aux {ops : OpSem} (co : CoreOps ops) {na e a : Val} (hna : Evaluates ops na e a) :
    ∀ S : Val,
      (subArgsSafe S = true → ∀ v, Evaluates ops S a v → Evaluates ops (subArgs na S) e v) ∧
      (subArgsAllList (fun b => decide (1 ≤ Bytes.toInt b)) false S = true →
        ∀ vals, EvalArgs ops S a vals → EvalArgs ops (subArgsList na S) e vals) := by
  intro S
  induction S with
  | atom b =>
    constructor
    · intro hs v hv
      simp only [subArgsSafe, subArgsAll, decide_eq_true_eq] at hs
      simp only [subArgs]
      exact pathFromArgs_sound co hs hna hv
    · intro _ vals hv
      obtain ⟨_, rfl⟩ := evalArgs_atom_iff.1 hv
      simp only [subArgsList]
      exact evalArgs_atom_iff.2 ⟨rfl, rfl⟩
  | pair x r ihx ihr =>
    constructor
    · intro hs v hv
      cases x with
      | pair c d => simp [subArgsSafe, subArgsAll] at hs
      | atom op =>
        simp only [subArgsSafe, subArgsAll, Bool.or_eq_true, beq_iff_eq, Bool.not_eq_true'] at hs
        simp only [subArgs]
        split
        · rename_i hq
          have : op = [1] := by simpa using hq
          subst this
          have : v = r := eval_quote.1 hv
          subst this; exact eval_quote.2 rfl
        · rename_i hq
          have hne : op ≠ [1] := by simpa using hq
          have hsn := Ops.smallNumber_ne_one hne
          obtain ⟨vals, hl, hap⟩ := (evaluates_op_iff hsn).1 hv
          have hprop := evalArgs_isProper r vals hl
          rw [if_pos hprop]
          have hsl : subArgsAllList (fun b => decide (1 ≤ Bytes.toInt b)) false r = true := by
            rcases hs with (h1 | h1) | h1
            · exact absurd h1 hne
            · rw [hprop] at h1; cases h1
            · exact h1
          exact (evaluates_op_iff hsn).2 ⟨vals, ihr.2 hsl vals hl, hap⟩
    · intro hs vals hv
      simp only [subArgsAllList, Bool.and_eq_true] at hs
      obtain ⟨v, rs, rfl, hx, hr⟩ := evalArgs_pair_iff.1 hv
      simp only [subArgsList]
      exact evalArgs_pair_iff.2 ⟨v, rs, rfl, ihx.1 hs.1 v hx, ihr.2 hs.2 rs hr⟩

theorem subArgs_sound {ops : OpSem} (co : CoreOps ops) {na e a S v : Val}
    (hs : subArgsSafe S = true) (hna : Evaluates ops na e a) (hv : Evaluates ops S a v) :
    Evaluates ops (subArgs na S) e v :=
  (subArgs_sound_aux co hna S).1 hs v hv

-- flags --------------------------------------------------------------------------------------

/-- the failure tags of strict mode. -/
def IsFlag (t : String) : Prop :=
  t = "FLAG:pair-head" ∨ t = "FLAG:sub-args-pair-head" ∨ t = "FLAG:sub-args-nil" ∨
  t = "FLAG:sub-args-neg" ∨ t = "FLAG:signed-noncanonical-path" ∨
  t = "FLAG:sub-args-long-path"

theorem isFlag_subArgsFlag (s : Val) : IsFlag (subArgsFlag s) := by
  unfold subArgsFlag IsFlag
  split
  · simp
  · split <;> simp

theorem isFlag_pathFlag (b : Bytes) : IsFlag (pathFlag b) := by
  unfold pathFlag IsFlag
  simp

-- hypotheses on the recursive call -------------------------------------------------------------

def RecSound (ops : OpSem) (rec : Val → Res) : Prop :=
  ∀ x y, rec x = .ok y → ∀ e v, Evaluates ops x e v → Evaluates ops y e v
def RecAtom (rec : Val → Res) : Prop := ∀ b, rec (.atom b) = .ok (.atom b)
def RecNoFail (ops : OpSem) (rec : Val → Res) : Prop :=
  ∀ x e v t, Evaluates ops x e v → rec x = .error (.fail t) → IsFlag t

theorem properList_eq : ∀ (x : Val) (l : List Val), properList x = some l → x = Val.ofList l := by
  intro x
  induction x with
  | atom b =>
    intro l h
    simp only [properList] at h
    split at h
    · rename_i hb
      cases h
      rw [isEmpty_eq hb]; rfl
    · cases h
  | pair a d _ ihd =>
    intro l h
    simp only [properList] at h
    cases hd : properList d with
    | none => rw [hd] at h; cases h
    | some l' =>
      rw [hd] at h
      simp only [Option.map, Option.some.injEq] at h
      subst h
      rw [ihd l' hd]; rfl

theorem mapRes_evalArgs {ops : OpSem} {rec : Val → Res} (hs : RecSound ops rec) {e : Val} :
    ∀ (l l' : List Val) (vals : Val), mapRes rec l = .ok l' → EvalArgs ops (Val.ofList l) e vals →
      EvalArgs ops (Val.ofList l') e vals := by
  intro l
  induction l with
  | nil => intro l' vals h hv; simp only [mapRes] at h; cases h; exact hv
  | cons x xs ih =>
    intro l' vals h hv
    simp only [mapRes] at h
    cases hx : rec x with
    | error er => rw [hx] at h; cases h
    | ok y =>
      rw [hx] at h
      simp only at h
      cases hxs : mapRes rec xs with
      | error er => rw [hxs] at h; cases h
      | ok ys =>
        rw [hxs] at h
        cases h
        obtain ⟨v, rs, rfl, hxv, hr⟩ := evalArgs_pair_iff.1 hv
        exact evalArgs_pair_iff.2 ⟨v, rs, rfl, hs x y hx e v hxv, ih ys rs hxs hr⟩

theorem mapRes_nofail {ops : OpSem} {rec : Val → Res} (hn : RecNoFail ops rec) {e : Val} {t : String} :
    ∀ (l : List Val) (vals : Val), EvalArgs ops (Val.ofList l) e vals →
      mapRes rec l = .error (.fail t) → IsFlag t := by
  intro l
  induction l with
  | nil => intro vals _ h; simp [mapRes] at h
  | cons x xs ih =>
    intro vals hv h
    obtain ⟨v, rs, rfl, hxv, hr⟩ := evalArgs_pair_iff.1 hv
    simp only [mapRes] at h
    cases hx : rec x with
    | error er =>
      rw [hx] at h
      cases h
      exact hn x e v t hxv hx
    | ok y =>
      rw [hx] at h
      simp only at h
      cases hxs : mapRes rec xs with
      | error er => rw [hxs] at h; cases h; exact ih rs hr hxs
      | ok ys => rw [hxs] at h; cases h

/-- optimising every element of `(op . operands)` (operator atom ≠ q) keeps the meaning. -/
theorem listForm_sound {ops : OpSem} {rec : Val → Res} (hs : RecSound ops rec) (ha : RecAtom rec)
    {h : Bytes} {t l : List Val} {e v : Val} (hq : h ≠ [1])
    (hv : Evaluates ops (Val.ofList (.atom h :: t)) e v) (hm : mapRes rec (.atom h :: t) = .ok l) :
    Evaluates ops (Val.ofList l) e v := by
  simp only [mapRes] at hm
  cases hx : rec (.atom h) with
  | error er => rw [hx] at hm; cases hm
  | ok y =>
    rw [hx] at hm
    simp only at hm
    cases hxs : mapRes rec t with
    | error er => rw [hxs] at hm; cases hm
    | ok ys =>
      rw [hxs] at hm
      cases hm
      have : y = .atom h := by rw [ha h] at hx; cases hx; rfl
      subst this
      have hsn := Ops.smallNumber_ne_one hq
      simp only [Val.ofList] at hv ⊢
      obtain ⟨vals, hl, hap⟩ := (evaluates_op_iff hsn).1 hv
      exact (evaluates_op_iff hsn).2 ⟨vals, mapRes_evalArgs hs t ys vals hxs hl, hap⟩

theorem listForm_nofail {ops : OpSem} {rec : Val → Res} (ha : RecAtom rec) (hn : RecNoFail ops rec)
    {h : Bytes} {t : List Val} {e v : Val} {tag : String} (hq : h ≠ [1])
    (hv : Evaluates ops (Val.ofList (.atom h :: t)) e v)
    (hm : mapRes rec (.atom h :: t) = .error (.fail tag)) : IsFlag tag := by
  have hsn := Ops.smallNumber_ne_one hq
  simp only [Val.ofList] at hv
  obtain ⟨vals, hl, _⟩ := (evaluates_op_iff hsn).1 hv
  simp only [mapRes] at hm
  cases hx : rec (.atom h) with
  | error er => rw [ha h] at hx; cases hx
  | ok y =>
    rw [hx] at hm
    simp only at hm
    cases hxs : mapRes rec t with
    | error er => rw [hxs] at hm; cases hm; exact mapRes_nofail hn t vals hl hxs
    | ok ys => rw [hxs] at hm; cases hm

-- children_optimizer --------------------------------------------------------------------------

section rules
variable {ops : OpSem} {rec : Val → Res}

/-- what strict `children_optimizer` / the tail of `var_change…` do with a proper list:
    the head is an operator atom other than `q`. -/
theorem head_atom_of_not_pair {hd : Val} (h1 : hd.isPair = false) : ∃ h, hd = .atom h := by
  cases hd with
  | atom h => exact ⟨h, rfl⟩
  | pair _ _ => simp [Val.isPair] at h1

theorem childrenOptimizer_sound (hs : RecSound ops rec) (ha : RecAtom rec) {r r' e v : Val}
    (hr : childrenOptimizer true rec r = .ok r') (hv : Evaluates ops r e v) : Evaluates ops r' e v := by
  unfold childrenOptimizer at hr
  cases hp : properList r with
  | none => rw [hp] at hr; cases hr; exact hv
  | some l =>
    rw [hp] at hr
    cases l with
    | nil => cases hr; exact hv
    | cons hd t =>
      simp only at hr
      split at hr
      · cases hr; exact hv
      · rename_i hq
        split at hr
        · cases hr
        · rename_i hpair
          have hnp : hd.isPair = false := by simpa using hpair
          obtain ⟨h, rfl⟩ := head_atom_of_not_pair hnp
          have hne : h ≠ [1] := by simpa [isQuoteAtom] using hq
          cases hm : mapRes rec (.atom h :: t) with
          | error er => rw [hm] at hr; cases hr
          | ok l =>
            rw [hm] at hr
            cases hr
            rw [properList_eq r _ hp] at hv
            exact listForm_sound hs ha hne hv hm

theorem childrenOptimizer_nofail (ha : RecAtom rec) (hn : RecNoFail ops rec) {r e v : Val} {tag : String}
    (hv : Evaluates ops r e v) (hr : childrenOptimizer true rec r = .error (.fail tag)) : IsFlag tag := by
  unfold childrenOptimizer at hr
  cases hp : properList r with
  | none => rw [hp] at hr; cases hr
  | some l =>
    rw [hp] at hr
    cases l with
    | nil => cases hr
    | cons hd t =>
      simp only at hr
      split at hr
      · cases hr
      · rename_i hq
        split at hr
        · simp only [flag, Except.error.injEq, EvalErr.fail.injEq] at hr
          subst hr; simp [IsFlag]
        · rename_i hpair
          have hnp : hd.isPair = false := by simpa using hpair
          obtain ⟨h, rfl⟩ := head_atom_of_not_pair hnp
          have hne : h ≠ [1] := by simpa [isQuoteAtom] using hq
          cases hm : mapRes rec (.atom h :: t) with
          | error er =>
            rw [hm] at hr
            cases hr
            rw [properList_eq r _ hp] at hv
            exact listForm_nofail ha hn hne hv hm
          | ok l => rw [hm] at hr; cases hr

-- var_change_optimizer_cons_eval -----------------------------------------------------------------

theorem seemsConstant_quote (x : Val) : seemsConstant (.pair (.atom [1]) x) = true := by
  simp [seemsConstant]

theorem varChangeKeep_sound (hs : RecSound ops rec) (ha : RecAtom rec) {r s r' e v : Val}
    (hr : varChangeKeep true rec r s = .ok r') (hv : Evaluates ops r e v) (hsv : Evaluates ops s e v) :
    Evaluates ops r' e v := by
  unfold varChangeKeep at hr
  split at hr
  · exact hs s r' hr e v hsv
  · rename_i hc
    cases hp : properList s with
    | none => rw [hp] at hr; cases hr; exact hv
    | some l =>
      rw [hp] at hr
      cases l with
      | nil => cases hr; exact hv
      | cons hd t =>
        simp only at hr
        split at hr
        · cases hr
        · rename_i hpair
          have hnp : hd.isPair = false := by simpa using hpair
          obtain ⟨h, rfl⟩ := head_atom_of_not_pair hnp
          have hse := properList_eq s _ hp
          have hne : h ≠ [1] := by
            intro h1; subst h1
            rw [hse] at hc
            exact hc (seemsConstant_quote _)
          cases hm : mapRes rec (.atom h :: t) with
          | error er => rw [hm] at hr; cases hr
          | ok l =>
            rw [hm] at hr
            simp only at hr
            split at hr
            · cases hr
              rw [hse] at hsv
              exact listForm_sound hs ha hne hsv hm
            · cases hr; exact hv

theorem varChangeKeep_nofail (ha : RecAtom rec) (hn : RecNoFail ops rec) {r s e v : Val} {tag : String}
    (hsv : Evaluates ops s e v) (hr : varChangeKeep true rec r s = .error (.fail tag)) : IsFlag tag := by
  unfold varChangeKeep at hr
  split at hr
  · exact hn s e v tag hsv hr
  · rename_i hc
    cases hp : properList s with
    | none => rw [hp] at hr; cases hr
    | some l =>
      rw [hp] at hr
      cases l with
      | nil => cases hr
      | cons hd t =>
        simp only at hr
        split at hr
        · simp only [flag, Except.error.injEq, EvalErr.fail.injEq] at hr
          subst hr; simp [IsFlag]
        · rename_i hpair
          have hnp : hd.isPair = false := by simpa using hpair
          obtain ⟨h, rfl⟩ := head_atom_of_not_pair hnp
          have hse := properList_eq s _ hp
          have hne : h ≠ [1] := by
            intro h1; subst h1
            rw [hse] at hc
            exact hc (seemsConstant_quote _)
          cases hm : mapRes rec (.atom h :: t) with
          | error er =>
            rw [hm] at hr
            cases hr
            rw [hse] at hsv
            exact listForm_nofail ha hn hne hsv hm
          | ok l =>
            rw [hm] at hr
            simp only at hr
            split at hr <;> cases hr

/-- the substituted program of `(a (q . S) ARGS)` means the same as the original. -/
theorem varChange_subst (co : CoreOps ops) {S ARGS e v : Val} (hsafe : subArgsSafe S = true)
    (hv : Evaluates ops (mk2 [2] (.pair (.atom [1]) S) ARGS) e v) :
    Evaluates ops (subArgs ARGS S) e v := by
  obtain ⟨p, a, hP, hA, hpv⟩ := eval_apply_iff.1 hv
  have : p = S := eval_quote.1 hP
  subst this
  exact subArgs_sound co hsafe hA hpv

theorem varChangeOptimizer_sound (co : CoreOps ops) (hs : RecSound ops rec) (ha : RecAtom rec)
    {r r' e v : Val} (hr : varChangeOptimizer true rec r = .ok r') (hv : Evaluates ops r e v) :
    Evaluates ops r' e v := by
  unfold varChangeOptimizer at hr
  cases h1 : matchSexp patQA r [] with
  | none => rw [h1] at hr; cases hr; exact hv
  | some bs =>
    rw [h1] at hr
    obtain ⟨S, ARGS, rfl, hsx, hax⟩ := match_patQA h1
    simp only [hax, hsx] at hr
    split at hr
    · cases hr
    · rename_i hc
      have hsafe : subArgsSafe S = true := by simpa using hc
      split at hr
      · cases hr
      · exact varChangeKeep_sound hs ha hr hv (varChange_subst co hsafe hv)

theorem varChangeOptimizer_nofail (co : CoreOps ops) (ha : RecAtom rec) (hn : RecNoFail ops rec)
    {r e v : Val} {tag : String} (hv : Evaluates ops r e v)
    (hr : varChangeOptimizer true rec r = .error (.fail tag)) : IsFlag tag := by
  unfold varChangeOptimizer at hr
  cases h1 : matchSexp patQA r [] with
  | none => rw [h1] at hr; cases hr
  | some bs =>
    rw [h1] at hr
    obtain ⟨S, ARGS, rfl, hsx, hax⟩ := match_patQA h1
    simp only [hax, hsx] at hr
    split at hr
    · simp only [flag, Except.error.injEq, EvalErr.fail.injEq] at hr
      subst hr; exact isFlag_subArgsFlag S
    · rename_i hc
      have hsafe : subArgsSafe S = true := by simpa using hc
      split at hr
      · simp only [flag, Except.error.injEq, EvalErr.fail.injEq] at hr
        subst hr; simp [IsFlag]
      · exact varChangeKeep_nofail ha hn (varChange_subst co hsafe hv) hr

-- path_optimizer failures --------------------------------------------------------------------------

theorem pathOptimizer_nofail {r : Val} {tag : String}
    (hr : pathOptimizer true r = .error (.fail tag)) : IsFlag tag := by
  have key : ∀ b isRest, pathStep true b isRest = .error (.fail tag) → IsFlag tag := by
    intro b isRest h
    unfold pathStep at h
    split at h
    · simp only [flag, Except.error.injEq, EvalErr.fail.injEq] at h
      subst h; exact isFlag_pathFlag b
    · cases h
  unfold pathOptimizer at hr
  split at hr
  · split at hr
    · exact key _ _ hr
    · cases hr
  · split at hr
    · split at hr
      · exact key _ _ hr
      · cases hr
    · cases hr

-- one pass ---------------------------------------------------------------------------------------------

theorem tryRule_ok {r r' : Val} {res : Res} {k : Unit → Res} (h : tryRule r res k = .ok r') :
    res = .ok r' ∨ (res = .ok r ∧ k () = .ok r') := by
  unfold tryRule at h
  cases res with
  | error e => cases h
  | ok r1 =>
    simp only at h
    split at h
    · rename_i he
      have : r1 = r := by simpa using he
      subst this; exact Or.inr ⟨rfl, h⟩
    · exact Or.inl h

theorem tryRule_err {r : Val} {res : Res} {k : Unit → Res} {er : EvalErr} (h : tryRule r res k = .error er) :
    res = .error er ∨ (res = .ok r ∧ k () = .error er) := by
  unfold tryRule at h
  cases res with
  | error e => exact Or.inl h
  | ok r1 =>
    simp only at h
    split at h
    · rename_i he
      have : r1 = r := by simpa using he
      subst this; exact Or.inr ⟨rfl, h⟩
    · cases h

theorem step_sound (co : CoreOps ops) {ef : Nat} (hs : RecSound ops rec) (ha : RecAtom rec)
    {r r' e v : Val} (hr : step ops true ef rec r = .ok r') (hv : Evaluates ops r e v) :
    Evaluates ops r' e v := by
  unfold step at hr
  rcases tryRule_ok hr with h | ⟨_, hr⟩
  · cases h; exact consOptimizer_sound co hv
  rcases tryRule_ok hr with h | ⟨_, hr⟩
  · exact constantOptimizer_sound h hv
  rcases tryRule_ok hr with h | ⟨_, hr⟩
  · cases h; exact consQAOptimizer_sound hv
  rcases tryRule_ok hr with h | ⟨_, hr⟩
  · exact varChangeOptimizer_sound co hs ha h hv
  rcases tryRule_ok hr with h | ⟨_, hr⟩
  · exact childrenOptimizer_sound hs ha h hv
  rcases tryRule_ok hr with h | ⟨_, hr⟩
  · exact pathOptimizer_sound_strict co h hv
  rcases tryRule_ok hr with h | ⟨_, hr⟩
  · cases h; exact quoteNullOptimizer_sound hv
  rcases tryRule_ok hr with h | ⟨_, hr⟩
  · cases h; exact applyNullOptimizer_sound hv
  · cases hr; exact hv

theorem step_nofail (co : CoreOps ops) {ef : Nat} (ha : RecAtom rec) (hn : RecNoFail ops rec)
    {r e v : Val} {tag : String} (hv : Evaluates ops r e v)
    (hr : step ops true ef rec r = .error (.fail tag)) : IsFlag tag := by
  unfold step at hr
  rcases tryRule_err hr with h | ⟨_, hr⟩
  · cases h
  rcases tryRule_err hr with h | ⟨_, hr⟩
  · exact absurd h (constantOptimizer_no_fail hv)
  rcases tryRule_err hr with h | ⟨_, hr⟩
  · cases h
  rcases tryRule_err hr with h | ⟨_, hr⟩
  · exact varChangeOptimizer_nofail co ha hn hv h
  rcases tryRule_err hr with h | ⟨_, hr⟩
  · exact childrenOptimizer_nofail ha hn hv h
  rcases tryRule_err hr with h | ⟨_, hr⟩
  · exact pathOptimizer_nofail h
  rcases tryRule_err hr with h | ⟨_, hr⟩
  · cases h
  rcases tryRule_err hr with h | ⟨_, hr⟩
  · cases h
  · cases hr

end rules

-- the loop ---------------------------------------------------------------------------------------------

theorem optimizeSexp_atom (ops : OpSem) (strict : Bool) (ef n : Nat) (b : Bytes) :
    optimizeSexp ops strict ef n (.atom b) = .ok (.atom b) := by
  cases n <;> simp [optimizeSexp]

/-- the three invariants of the strict optimiser, for every amount of fuel. -/
theorem optimize_invariants {ops : OpSem} (co : CoreOps ops) (ef : Nat) : ∀ n : Nat,
    RecSound ops (optimizeSexp ops true ef n) ∧ RecAtom (optimizeSexp ops true ef n) ∧
    RecNoFail ops (optimizeSexp ops true ef n) := by
  intro n
  induction n with
  | zero =>
    refine ⟨?_, fun b => optimizeSexp_atom _ _ _ _ b, ?_⟩
    · intro x y h e v hv
      cases x with
      | atom b => rw [optimizeSexp_atom] at h; cases h; exact hv
      | pair a d => simp [optimizeSexp] at h
    · intro x e v t _ h
      cases x with
      | atom b => rw [optimizeSexp_atom] at h; cases h
      | pair a d => simp [optimizeSexp] at h
  | succ n ih =>
    obtain ⟨ihs, iha, ihn⟩ := ih
    refine ⟨?_, fun b => optimizeSexp_atom _ _ _ _ b, ?_⟩
    · intro x y h e v hv
      cases x with
      | atom b => rw [optimizeSexp_atom] at h; cases h; exact hv
      | pair a d =>
        simp only [optimizeSexp] at h
        cases hst : step ops true ef (optimizeSexp ops true ef n) (.pair a d) with
        | error er => rw [hst] at h; cases h
        | ok r1 =>
          rw [hst] at h
          simp only at h
          have h1 := step_sound co ihs iha hst hv
          split at h
          · cases h; exact hv
          · exact ihs r1 y h e v h1
    · intro x e v t hv h
      cases x with
      | atom b => rw [optimizeSexp_atom] at h; cases h
      | pair a d =>
        simp only [optimizeSexp] at h
        cases hst : step ops true ef (optimizeSexp ops true ef n) (.pair a d) with
        | error er =>
          rw [hst] at h
          cases h
          exact step_nofail co iha ihn hv hst
        | ok r1 =>
          rw [hst] at h
          simp only at h
          have h1 := step_sound co ihs iha hst hv
          split at h
          · cases h
          · exact ihn r1 e v t h1 h

end Opt
