/-
  Proofs/CoreLemmas.lean — correctness of the core compiler model (`Core.compileE` …)
  with respect to the core source meaning (`Core.evalCore`), over the consensus evaluator
  `Clvm.evalC` with an arbitrary operator table that implements `i` and `c`.
-/
import ChialispModel.Lang.Core
import ChialispModel.Proofs.EnvLemmas
import ChialispModel.Proofs.EvalLemmas
import ChialispModel.Proofs.NatBytesLemmas

namespace Core
open Clvm

/-- the operator table implements `i` (3) and `c` (4) as CLVM defines them. -/
structure OpsCore (ops : OpSem) : Prop where
  opIf : ∀ c a b : Val, ops.apply [3] (.pair c (.pair a (.pair b Val.nil))) = .ok (if Val.nilp c then b else a)
  opCons : ∀ x y : Val, ops.apply [4] (.pair x (.pair y Val.nil)) = .ok (.pair x y)

theorem chiaOps_core : OpsCore Ops.chiaOps := by
  constructor
  · intro c a b
    simp [Ops.chiaOps, Ops.chiaApply, Ops.unsupportedOp, Ops.smallNumber, Bytes.canonical, Bytes.ofIntClvm, Bytes.toInt,
      Bytes.toNatBE, Bytes.ofInt, Bytes.ofNatBE, Bytes.ofNatBEAux, Bytes.posBytes, Ops.getArgs, Val.elems, Val.nil]
  · intro x y
    simp [Ops.chiaOps, Ops.chiaApply, Ops.unsupportedOp, Ops.smallNumber, Bytes.canonical, Bytes.ofIntClvm, Bytes.toInt,
      Bytes.toNatBE, Bytes.ofInt, Bytes.ofNatBE, Bytes.ofNatBEAux, Bytes.posBytes, Ops.getArgs, Val.elems, Val.nil]

-- small-number facts for the operator atoms the generator emits
theorem sn1 : Ops.smallNumber [1] = some 1 := by decide
theorem sn2 : Ops.smallNumber [2] = some 2 := by decide
theorem sn3 : Ops.smallNumber [3] = some 3 := by decide
theorem sn4 : Ops.smallNumber [4] = some 4 := by decide

-- evaluating the fixed shapes the code generator emits --------------------------------------

theorem ev_quote (ops : OpSem) (v env : Val) : Evaluates ops (qv v) env v :=
  (evaluates_quote_iff sn1).mpr rfl

theorem ev_path (ops : OpSem) (p : Nat) (env v : Val) (h : Path.lookupNat p env = .ok v) :
    Evaluates ops (pathAtom p) env v := by
  apply evaluates_atom_iff.mpr
  unfold Path.lookup
  rw [Bytes.toNatBE_ofIntClvm]; exact h

/-- `(a CODE ENV)` -/
theorem ev_apply (ops : OpSem) (codeE envE env code env' v : Val)
    (h1 : Evaluates ops codeE env code) (h2 : Evaluates ops envE env env')
    (h3 : Evaluates ops code env' v) :
    Evaluates ops (.pair (.atom [2]) (.pair codeE (.pair envE Val.nil))) env v := by
  apply (evaluates_op_iff (by rw [sn2]; decide)).mpr
  refine ⟨.pair code (.pair env' Val.nil), ?_, ?_⟩
  · apply evalArgs_pair_iff.mpr
    refine ⟨code, .pair env' Val.nil, rfl, h1, ?_⟩
    apply evalArgs_pair_iff.mpr
    exact ⟨env', Val.nil, rfl, h2, evalArgs_atom_iff.mpr ⟨rfl, rfl⟩⟩
  · apply (applies_apply_iff sn2).mpr
    exact ⟨code, env', by simp [twoArgs, Ops.getArgs, Val.elems, Val.nil], h3⟩

theorem ev_env (ops : OpSem) (env : Val) : Evaluates ops (.atom [1]) env env := by
  apply evaluates_atom_iff.mpr
  simp [Path.lookup, Bytes.toNatBE, Path.lookupNat_one]

/-- `(a (q . x) 1)` -/
theorem ev_wrap (ops : OpSem) (x env v : Val) (h : Evaluates ops x env v) :
    Evaluates ops (wrap x) env v :=
  ev_apply ops (qv x) (.atom [1]) env x env v (ev_quote ops x env) (ev_env ops env) h

/-- an ordinary operator on an evaluated operand list -/
theorem ev_op (ops : OpSem) (code : Nat) (l env vs v : Val) (hok : opOk code = true)
    (h1 : EvalArgs ops l env vs) (h2 : ops.apply [UInt8.ofNat code] vs = .ok v) :
    Evaluates ops (.pair (.atom [UInt8.ofNat code]) l) env v := by
  simp only [opOk, Bool.and_eq_true, bne_iff_ne, ne_eq] at hok
  apply (evaluates_op_iff hok.1.1).mpr
  exact ⟨vs, h1, (applies_op_iff hok.1.2 hok.2).mpr h2⟩

/-- `(c X Y)` -/
theorem ev_cons (ops : OpSem) (hc : OpsCore ops) (xE yE env x y : Val)
    (h1 : Evaluates ops xE env x) (h2 : Evaluates ops yE env y) :
    Evaluates ops (.pair (.atom [4]) (.pair xE (.pair yE Val.nil))) env (.pair x y) := by
  apply (evaluates_op_iff (by rw [sn4]; decide)).mpr
  refine ⟨.pair x (.pair y Val.nil), ?_, ?_⟩
  · apply evalArgs_pair_iff.mpr
    refine ⟨x, .pair y Val.nil, rfl, h1, ?_⟩
    apply evalArgs_pair_iff.mpr
    exact ⟨y, Val.nil, rfl, h2, evalArgs_atom_iff.mpr ⟨rfl, rfl⟩⟩
  · exact (applies_op_iff (by rw [sn4]; decide) (by rw [sn4]; decide)).mpr (hc.opCons x y)

/-- `(a (i C (q . A) (q . B)) 1)` -/
theorem ev_if (ops : OpSem) (hc : OpsCore ops) (cE a b env cv v : Val)
    (h1 : Evaluates ops cE env cv)
    (h2 : Evaluates ops (if Val.nilp cv then b else a) env v) :
    Evaluates ops (.pair (.atom [2]) (.pair
        (.pair (.atom [3]) (.pair cE (.pair (qv a) (.pair (qv b) Val.nil))))
        (.pair (.atom [1]) Val.nil))) env v := by
  refine ev_apply ops _ (.atom [1]) env (if Val.nilp cv then b else a) env v ?_ (ev_env ops env) h2
  apply (evaluates_op_iff (by rw [sn3]; decide)).mpr
  refine ⟨.pair cv (.pair a (.pair b Val.nil)), ?_, ?_⟩
  · apply evalArgs_pair_iff.mpr
    refine ⟨cv, _, rfl, h1, ?_⟩
    apply evalArgs_pair_iff.mpr
    refine ⟨a, _, rfl, ev_quote ops a env, ?_⟩
    apply evalArgs_pair_iff.mpr
    exact ⟨b, Val.nil, rfl, ev_quote ops b env, evalArgs_atom_iff.mpr ⟨rfl, rfl⟩⟩
  · exact (applies_op_iff (by rw [sn3]; decide) (by rw [sn3]; decide)).mpr (hc.opIf cv a b)

-- the function tree ---------------------------------------------------------------------------

theorem buildTree_ne_at (names : List Bytes) (fuel : Nat) (h : ∀ n ∈ names, n ≠ [64]) :
    Lang.buildTree names fuel ≠ Rich.atom [64] := by
  cases fuel with
  | zero => simp [Lang.buildTree]
  | succ f =>
    unfold Lang.buildTree
    split
    · simp
    · rename_i n
      intro hc
      simp only [Rich.atom.injEq] at hc
      exact h n (by simp) hc
    · simp

/-- a function name found at path `q` in the tree of names selects, at the same path in the
    tree of codes, the code paired with that name. -/
theorem codeTree_lookup (fuel : Nat) (entries : List (Bytes × Val))
    (hf : entries.length ≤ fuel) (hat : ∀ e ∈ entries, e.1 ≠ [64]) (n : Bytes) (q : Nat)
    (h : Lang.nameLookup n (Lang.buildTree (entries.map (·.1)) fuel) = some q) :
    ∃ c, (n, c) ∈ entries ∧ Path.lookupNat q (codeTree (entries.map (·.2)) fuel) = .ok c := by
  induction fuel generalizing entries q with
  | zero =>
    simp [Lang.buildTree, Lang.nameLookup] at h
  | succ f ih =>
    match entries, hf, hat, h with
    | [], _, _, h => simp [Lang.buildTree, Lang.nameLookup] at h
    | [e], _, _, h =>
      simp only [List.map_cons, List.map_nil, Lang.buildTree, Lang.nameLookup] at h
      split at h
      · rename_i he
        simp at h; subst h
        refine ⟨e.2, ?_, ?_⟩
        · have : e.1 = n := by simpa using he
          rw [← this]; simp
        · simp [codeTree, Path.lookupNat_one]
      · simp at h
    | e1 :: e2 :: rest, hf, hat, h =>
      have hlen : (List.map (·.1) (e1 :: e2 :: rest)).length = (e1 :: e2 :: rest).length := by simp
      have hlen2 : (List.map (·.2) (e1 :: e2 :: rest)).length = (e1 :: e2 :: rest).length := by simp
      simp only [List.map_cons] at h
      unfold Lang.buildTree at h
      simp only at h
      have hmid : ((e1 :: e2 :: rest).length) / 2 ≤ f := by simp at hf; simp; omega
      -- abbreviations
      have hL := ih ((e1 :: e2 :: rest).take ((e1 :: e2 :: rest).length / 2))
        (by rw [List.length_take]; omega)
        (fun e he => hat e (List.mem_of_mem_take he))
      have hR := ih ((e1 :: e2 :: rest).drop ((e1 :: e2 :: rest).length / 2))
        (by rw [List.length_drop]; simp at hf; simp; omega)
        (fun e he => hat e (List.mem_of_mem_drop he))
      rw [Lang.nameLookup_cons] at h
      · simp only [List.map_take, List.map_drop] at hL hR
        simp only [List.length_cons, List.length_map] at h
        simp only [List.length_cons] at hL hR
        cases hl : Lang.nameLookup n (Lang.buildTree (List.take ((rest.length + 1 + 1) / 2) (e1.1 :: e2.1 :: List.map (·.1) rest)) f) with
        | some v =>
          rw [hl] at h; simp at h; subst h
          obtain ⟨c, hc1, hc2⟩ := hL v (by simpa using hl)
          refine ⟨c, List.mem_of_mem_take hc1, ?_⟩
          simp only [List.map_cons, codeTree, List.length_cons, List.length_map]
          rw [Path.lookupNat_left v (Lang.nameLookup_pos _ _ _ hl)]
          simpa using hc2
        | none =>
          rw [hl] at h
          cases hr : Lang.nameLookup n (Lang.buildTree (List.drop ((rest.length + 1 + 1) / 2) (e1.1 :: e2.1 :: List.map (·.1) rest)) f) with
          | some v =>
            rw [hr] at h; simp at h; subst h
            obtain ⟨c, hc1, hc2⟩ := hR v (by simpa using hr)
            refine ⟨c, List.mem_of_mem_drop hc1, ?_⟩
            simp only [List.map_cons, codeTree, List.length_cons, List.length_map]
            rw [Path.lookupNat_right v (Lang.nameLookup_pos _ _ _ hr)]
            simpa using hc2
          | none => rw [hr] at h; simp at h
      · intro cap sub h1 _
        refine buildTree_ne_at _ f ?_ h1
        intro m hm
        have := List.mem_of_mem_take hm
        simp only [List.mem_cons, List.mem_map] at this
        rcases this with rfl | rfl | ⟨e, he, rfl⟩
        · exact hat e1 (by simp)
        · exact hat e2 (by simp)
        · exact hat e (by simp [he])

-- function table facts -----------------------------------------------------------------------------

theorem findFn_mem (f : Bytes) (FS : List FnDef) (fd : FnDef) (h : findFn f FS = some fd) :
    fd ∈ FS ∧ fd.name = f := by
  induction FS with
  | nil => simp [findFn] at h
  | cons x xs ih =>
    simp only [findFn] at h
    split at h
    · rename_i hx
      simp at h; subst h
      exact ⟨by simp, by simpa using hx⟩
    · obtain ⟨h1, h2⟩ := ih h
      exact ⟨by simp [h1], h2⟩

theorem name_unique (FS : List FnDef) (hnd : (FS.map (·.name)).Nodup) (f1 f2 : FnDef)
    (h1 : f1 ∈ FS) (h2 : f2 ∈ FS) (hn : f1.name = f2.name) : f1 = f2 := by
  induction FS with
  | nil => simp at h1
  | cons x xs ih =>
    simp only [List.map_cons, List.nodup_cons, List.mem_map, not_exists, not_and] at hnd
    simp only [List.mem_cons] at h1 h2
    rcases h1 with rfl | h1 <;> rcases h2 with rfl | h2
    · rfl
    · exact absurd hn.symm (hnd.1 f2 h2)
    · exact absurd hn (hnd.1 f1 h1)
    · exact ih hnd.2 h1 h2

theorem compileFns_spec (names : List Bytes) (FS : List FnDef) (entries : List (Bytes × Val))
    (h : compileFns names FS = some entries) :
    entries.map (·.1) = FS.map (·.name) ∧
    ∀ e ∈ entries, ∃ f ∈ FS, f.name = e.1 ∧
      ∃ cb, compileE (Lang.envShape names f.params) f.body = some cb ∧ e.2 = wrap cb := by
  induction FS generalizing entries with
  | nil => simp [compileFns] at h; subst h; simp
  | cons f r ih =>
    simp only [compileFns] at h
    cases hc : compileE (Lang.envShape names f.params) f.body with
    | none => rw [hc] at h; simp at h
    | some c =>
      rw [hc] at h
      cases hr : compileFns names r with
      | none => rw [hr] at h; simp at h
      | some cs =>
        rw [hr] at h; simp at h; subst h
        obtain ⟨ih1, ih2⟩ := ih cs hr
        refine ⟨by simp [ih1], ?_⟩
        intro e he
        simp only [List.mem_cons] at he
        rcases he with rfl | he
        · exact ⟨f, by simp, rfl, c, hc, rfl⟩
        · obtain ⟨g, hg, hn, cb, hcb, he2⟩ := ih2 e he
          exact ⟨g, by simp [hg], hn, cb, hcb, he2⟩

theorem toVal_ofVal (v : Val) : (Lang.SV.ofVal v).toVal? = some v := by
  induction v with
  | atom b => rfl
  | pair a d iha ihd => simp [Lang.SV.ofVal, Lang.SV.toVal?, iha, ihd]

/-- a program whose functions have distinct names (none called `@`), identifier-only
    parameter patterns that do not reuse function names, and admissible operator codes. -/
structure WF (FS : List FnDef) : Prop where
  nodup : (FS.map (·.name)).Nodup
  noAt : ∀ f ∈ FS, f.name ≠ [64]
  patOk : ∀ f ∈ FS, Lang.patOk f.params = true
  disjoint : ∀ f ∈ FS, ∀ g ∈ FS, Lang.nameLookup g.name f.params = none
  bodyOk : ∀ f ∈ FS, exprOk f.body = true

section Main
variable (ops : OpSem) (hops : OpsCore ops) (FS : List FnDef) (entries : List (Bytes × Val))

/-- the run-time function environment -/
def funcs (entries : List (Bytes × Val)) : Val := codeTree (entries.map (·.2)) (entries.length + 1)

theorem var_correct (hwf : WF FS) (hent : compileFns (FS.map (·.name)) FS = some entries)
    (pat : Rich) (hpat : Lang.patOk pat = true)
    (hdis : ∀ g ∈ FS, Lang.nameLookup g.name pat = none)
    (args v c : Val) (n : Bytes)
    (hv : paramValue pat args n = some v)
    (hc : compileE (Lang.envShape (FS.map (·.name)) pat) (.var n) = some c) :
    Evaluates ops c (.pair (funcs entries) args) v := by
  unfold paramValue at hv
  cases hb : Lang.bindPat pat (Lang.SV.ofVal args) with
  | none => rw [hb] at hv; simp at hv
  | some ρ =>
    rw [hb] at hv
    simp only at hv
    cases hl : Lang.lookupEnv n ρ with
    | none => rw [hl] at hv; simp at hv
    | some sv =>
      rw [hl] at hv
      simp only at hv
      -- the name is addressed inside the parameter pattern
      cases hq : Lang.nameLookup n pat with
      | none =>
        have := Lang.nameLookup_none n pat hpat hq _ ρ hb
        rw [this] at hl; simp at hl
      | some q =>
        obtain ⟨w, hw1, hw2⟩ := Lang.nameLookup_correct n pat hpat q hq args ρ hb
        rw [hl] at hw1
        simp only [Option.some.injEq] at hw1
        subst hw1
        rw [toVal_ofVal] at hv
        simp only [Option.some.injEq] at hv
        subst hv
        -- it is not a function name
        have hnot : Lang.nameLookup n (Lang.buildTree (FS.map (·.name)) ((FS.map (·.name)).length + 1)) = none := by
          cases ht : Lang.nameLookup n (Lang.buildTree (FS.map (·.name)) ((FS.map (·.name)).length + 1)) with
          | none => rfl
          | some t =>
            exfalso
            have hmap : (FS.map (fun f => (f.name, Val.nil))).map (·.1) = FS.map (·.name) := by
              simp [List.map_map, Function.comp_def]
            rw [← hmap] at ht
            obtain ⟨c', hc1, _⟩ := codeTree_lookup
              (((FS.map (fun f => (f.name, Val.nil))).map (·.1)).length + 1) (FS.map (fun f => (f.name, Val.nil)))
              (by simp) (by
                intro e he
                simp only [List.mem_map] at he
                obtain ⟨f, hf, rfl⟩ := he
                exact hwf.noAt f hf) n t ht
            simp only [List.mem_map, Prod.mk.injEq] at hc1
            obtain ⟨g, hg, hgn, _⟩ := hc1
            have := hdis g hg
            rw [hgn, hq] at this
            simp at this
        have hat : Lang.buildTree (FS.map (·.name)) ((FS.map (·.name)).length + 1) ≠ Rich.atom [64] := by
          apply buildTree_ne_at
          intro m hm
          simp only [List.mem_map] at hm
          obtain ⟨f, hf, rfl⟩ := hm
          exact hwf.noAt f hf
        simp only [compileE] at hc
        unfold Lang.envShape at hc
        rw [Lang.nameLookup_cons n _ _ (by intro cap sub h1 _; exact hat h1), hnot, hq] at hc
        simp at hc; subst hc
        apply ev_path
        rw [Path.lookupNat_right q (Lang.nameLookup_pos n pat q hq)]
        exact hw2

theorem ev_two (ops : OpSem) (fs args : Val) : Evaluates ops (.atom [2]) (.pair fs args) fs := by
  apply evaluates_atom_iff.mpr
  have : Bytes.toNatBE [2] = 2 * 1 := by decide
  unfold Path.lookup
  rw [this, Path.lookupNat_left 1 (Nat.le_refl 1), Path.lookupNat_one]

/-- the code found at a function's path is that function's wrapped, compiled body. -/
theorem fn_code (hwf : WF FS) (hent : compileFns (FS.map (·.name)) FS = some entries)
    (pat : Rich) (hdis : ∀ g ∈ FS, Lang.nameLookup g.name pat = none)
    (f : Bytes) (fd : FnDef) (hfd : findFn f FS = some fd) (pf : Nat) (args : Val)
    (hpf : Lang.nameLookup f (Lang.envShape (FS.map (·.name)) pat) = some pf) :
    ∃ cb, compileE (Lang.envShape (FS.map (·.name)) fd.params) fd.body = some cb ∧
      Path.lookupNat pf (.pair (funcs entries) args) = .ok (wrap cb) := by
  obtain ⟨hmem, hname⟩ := findFn_mem f FS fd hfd
  obtain ⟨hs1, hs2⟩ := compileFns_spec _ FS entries hent
  have hat : Lang.buildTree (FS.map (·.name)) ((FS.map (·.name)).length + 1) ≠ Rich.atom [64] := by
    apply buildTree_ne_at
    intro m hm
    simp only [List.mem_map] at hm
    obtain ⟨g, hg, rfl⟩ := hm
    exact hwf.noAt g hg
  unfold Lang.envShape at hpf
  rw [Lang.nameLookup_cons f _ _ (by intro cap sub h1 _; exact hat h1)] at hpf
  cases ht : Lang.nameLookup f (Lang.buildTree (FS.map (·.name)) ((FS.map (·.name)).length + 1)) with
  | none =>
    rw [ht] at hpf
    have := hdis fd hmem
    rw [hname] at this
    rw [this] at hpf
    simp at hpf
  | some q =>
    rw [ht] at hpf
    simp at hpf; subst hpf
    have hlenE : entries.length = (FS.map (·.name)).length := by
      have := congrArg List.length hs1
      simpa using this
    rw [← hs1] at ht
    have ht' : Lang.nameLookup f (Lang.buildTree (entries.map (·.1)) (entries.length + 1)) = some q := by
      simpa using ht
    obtain ⟨c, hc1, hc2⟩ := codeTree_lookup (entries.length + 1) entries (by omega) (by
      intro e he
      obtain ⟨g, hg, hn, _⟩ := hs2 e he
      rw [← hn]; exact hwf.noAt g hg) f q ht'
    obtain ⟨g, hg, hn, cb, hcb, he2⟩ := hs2 (f, c) hc1
    have hgf : g = fd := name_unique FS hwf.nodup g fd hg hmem (by rw [hn, hname])
    subst hgf
    refine ⟨cb, hcb, ?_⟩
    rw [Path.lookupNat_left q (Lang.nameLookup_pos f _ q ht')]
    simp only at he2
    rw [← he2]
    exact hc2

/-- source evaluation of a core expression ⇒ consensus evaluation of its compiled code in
    the run-time environment `(FUNCS . args)` — for expressions, operator argument lists and
    call argument lists, by induction on the source fuel. -/
theorem compile_sound (hops : OpsCore ops) (hwf : WF FS)
    (hent : compileFns (FS.map (·.name)) FS = some entries) :
    ∀ n : Nat,
      (∀ (pat : Rich) (args : Val) (e : Expr) (v c : Val),
        Lang.patOk pat = true → (∀ g ∈ FS, Lang.nameLookup g.name pat = none) → exprOk e = true →
        evalCore ops FS n pat args e = .ok v →
        compileE (Lang.envShape (FS.map (·.name)) pat) e = some c →
        Evaluates ops c (.pair (funcs entries) args) v) ∧
      (∀ (pat : Rich) (args : Val) (es : Exprs) (vs l : Val),
        Lang.patOk pat = true → (∀ g ∈ FS, Lang.nameLookup g.name pat = none) → exprsOk es = true →
        evalArgs ops FS n pat args es = .ok vs →
        compileArgs (Lang.envShape (FS.map (·.name)) pat) es = some l →
        EvalArgs ops l (.pair (funcs entries) args) vs) ∧
      (∀ (pat : Rich) (args : Val) (es : Exprs) (vs l : Val),
        Lang.patOk pat = true → (∀ g ∈ FS, Lang.nameLookup g.name pat = none) → exprsOk es = true →
        evalArgs ops FS n pat args es = .ok vs →
        compileCallArgs (Lang.envShape (FS.map (·.name)) pat) es = some l →
        Evaluates ops l (.pair (funcs entries) args) vs) := by
  intro n
  induction n with
  | zero =>
    refine ⟨?_, ?_, ?_⟩ <;> intros <;> simp_all [evalCore, evalArgs]
  | succ n ih =>
    obtain ⟨ihA, ihB, ihC⟩ := ih
    refine ⟨?_, ?_, ?_⟩
    · intro pat args e v c hpat hdis hok he hc
      cases e with
      | var nm =>
        simp only [evalCore] at he
        cases hv : paramValue pat args nm with
        | none => rw [hv] at he; simp [failR] at he
        | some w =>
          rw [hv] at he; simp at he; subst he
          exact var_correct ops FS entries hwf hent pat hpat hdis args w c nm hv hc
      | lit w =>
        simp only [evalCore] at he
        simp only [compileE] at hc
        simp at he hc; subst he; subst hc
        exact ev_quote ops w _
      | op code as =>
        simp only [evalCore] at he
        simp only [compileE] at hc
        simp only [exprOk, Bool.and_eq_true] at hok
        cases ha : evalArgs ops FS n pat args as with
        | error er => rw [ha] at he; simp at he
        | ok vs =>
          rw [ha] at he
          cases hl : compileArgs (Lang.envShape (FS.map (·.name)) pat) as with
          | none => rw [hl] at hc; simp at hc
          | some l =>
            rw [hl] at hc; simp at hc; subst hc
            exact ev_op ops code l _ vs v hok.1 (ihB pat args as vs l hpat hdis hok.2 ha hl) he
      | ite cnd a b =>
        simp only [evalCore] at he
        simp only [compileE] at hc
        simp only [exprOk, Bool.and_eq_true] at hok
        cases hcv : evalCore ops FS n pat args cnd with
        | error er => rw [hcv] at he; simp at he
        | ok cv =>
          rw [hcv] at he
          simp only at he
          cases h1 : compileE (Lang.envShape (FS.map (·.name)) pat) cnd with
          | none => rw [h1] at hc; simp at hc
          | some c' =>
            cases h2 : compileE (Lang.envShape (FS.map (·.name)) pat) a with
            | none => rw [h1, h2] at hc; simp at hc
            | some a' =>
              cases h3 : compileE (Lang.envShape (FS.map (·.name)) pat) b with
              | none => rw [h1, h2, h3] at hc; simp at hc
              | some b' =>
                rw [h1, h2, h3] at hc; simp at hc; subst hc
                apply ev_if ops hops c' (wrap a') (wrap b') _ cv v
                  (ihA pat args cnd cv c' hpat hdis hok.1.1 hcv h1)
                by_cases hn : Val.nilp cv = true
                · rw [if_pos hn] at he ⊢
                  exact ev_wrap ops b' _ v (ihA pat args b v b' hpat hdis hok.2 he h3)
                · rw [if_neg hn] at he ⊢
                  exact ev_wrap ops a' _ v (ihA pat args a v a' hpat hdis hok.1.2 he h2)
      | call f as =>
        simp only [evalCore] at he
        simp only [compileE] at hc
        simp only [exprOk] at hok
        cases hfd : findFn f FS with
        | none => rw [hfd] at he; simp [failR] at he
        | some fd =>
          rw [hfd] at he
          simp only at he
          cases ha : evalArgs ops FS n pat args as with
          | error er => rw [ha] at he; simp at he
          | ok vs =>
            rw [ha] at he
            simp only at he
            cases hpf : Lang.nameLookup f (Lang.envShape (FS.map (·.name)) pat) with
            | none => rw [hpf] at hc; simp at hc
            | some pf =>
              cases hl : compileCallArgs (Lang.envShape (FS.map (·.name)) pat) as with
              | none => rw [hpf, hl] at hc; simp at hc
              | some l =>
                rw [hpf, hl] at hc; simp at hc; subst hc
                obtain ⟨hmem, _⟩ := findFn_mem f FS fd hfd
                obtain ⟨cb, hcb, hlook⟩ := fn_code FS entries hwf hent pat hdis f fd hfd pf args hpf
                refine ev_apply ops (pathAtom pf) _ _ (wrap cb) (.pair (funcs entries) vs) v
                  (ev_path ops pf _ _ hlook) ?_ ?_
                · exact ev_cons ops hops (.atom [2]) l _ (funcs entries) vs (ev_two ops _ _)
                    (ihC pat args as vs l hpat hdis hok ha hl)
                · exact ev_wrap ops cb _ v
                    (ihA fd.params vs fd.body v cb (hwf.patOk fd hmem) (hwf.disjoint fd hmem)
                      (hwf.bodyOk fd hmem) he hcb)
    · intro pat args es vs l hpat hdis hok he hc
      cases es with
      | nil =>
        simp only [evalArgs] at he
        simp only [compileArgs] at hc
        simp at he hc; subst he; subst hc
        exact evalArgs_atom_iff.mpr ⟨rfl, rfl⟩
      | cons e r =>
        simp only [evalArgs] at he
        simp only [compileArgs] at hc
        simp only [exprsOk, Bool.and_eq_true] at hok
        cases h1 : evalCore ops FS n pat args e with
        | error er => rw [h1] at he; simp at he
        | ok v1 =>
          rw [h1] at he
          simp only at he
          cases h2 : evalArgs ops FS n pat args r with
          | error er => rw [h2] at he; simp at he
          | ok v2 =>
            rw [h2] at he; simp at he; subst he
            cases h3 : compileE (Lang.envShape (FS.map (·.name)) pat) e with
            | none => rw [h3] at hc; simp at hc
            | some e' =>
              cases h4 : compileArgs (Lang.envShape (FS.map (·.name)) pat) r with
              | none => rw [h3, h4] at hc; simp at hc
              | some r' =>
                rw [h3, h4] at hc; simp at hc; subst hc
                apply evalArgs_pair_iff.mpr
                exact ⟨v1, v2, rfl, ihA pat args e v1 e' hpat hdis hok.1 h1 h3,
                  ihB pat args r v2 r' hpat hdis hok.2 h2 h4⟩
    · intro pat args es vs l hpat hdis hok he hc
      cases es with
      | nil =>
        simp only [evalArgs] at he
        simp only [compileCallArgs] at hc
        simp at he hc; subst he; subst hc
        apply evaluates_atom_iff.mpr
        simp [Val.nil, Path.lookup, Bytes.toNatBE, Path.lookupNat]
      | cons e r =>
        simp only [evalArgs] at he
        simp only [compileCallArgs] at hc
        simp only [exprsOk, Bool.and_eq_true] at hok
        cases h1 : evalCore ops FS n pat args e with
        | error er => rw [h1] at he; simp at he
        | ok v1 =>
          rw [h1] at he
          simp only at he
          cases h2 : evalArgs ops FS n pat args r with
          | error er => rw [h2] at he; simp at he
          | ok v2 =>
            rw [h2] at he; simp at he; subst he
            cases h3 : compileE (Lang.envShape (FS.map (·.name)) pat) e with
            | none => rw [h3] at hc; simp at hc
            | some e' =>
              cases h4 : compileCallArgs (Lang.envShape (FS.map (·.name)) pat) r with
              | none => rw [h3, h4] at hc; simp at hc
              | some r' =>
                rw [h3, h4] at hc; simp at hc; subst hc
                exact ev_cons ops hops e' r' _ v1 v2 (ihA pat args e v1 e' hpat hdis hok.1 h1 h3)
                  (ihC pat args r v2 r' hpat hdis hok.2 h2 h4)

end Main

-- dead-function pruning ---------------------------------------------------------------------------

theorem findFn_keep (FS : List FnDef) (live : List Bytes) (f : Bytes) (hf : live.contains f = true) :
    findFn f (keep FS live) = findFn f FS := by
  induction FS with
  | nil => rfl
  | cons x xs ih =>
    unfold keep at *
    simp only [List.filter_cons]
    by_cases hx : live.contains x.name = true
    · simp only [hx, if_true, findFn]
      split
      · rfl
      · exact ih
    · have hxf : (x.name == f) = false := by
        cases hxe : x.name == f with
        | false => rfl
        | true =>
          have : x.name = f := by simpa using hxe
          rw [this] at hx
          exact absurd hf hx
      simp only [hx, findFn, hxf]
      simpa using ih

theorem eval_keep (ops : OpSem) (FS : List FnDef) (live : List Bytes) (hcl : liveClosed FS live = true) :
    ∀ n : Nat,
      (∀ pat args e v, (callsOf e).all live.contains = true →
        evalCore ops FS n pat args e = .ok v → evalCore ops (keep FS live) n pat args e = .ok v) ∧
      (∀ pat args es vs, (callsOfs es).all live.contains = true →
        evalArgs ops FS n pat args es = .ok vs → evalArgs ops (keep FS live) n pat args es = .ok vs) := by
  intro n
  induction n with
  | zero => constructor <;> intros <;> simp_all [evalCore, evalArgs]
  | succ n ih =>
    obtain ⟨ihA, ihB⟩ := ih
    constructor
    · intro pat args e v hcalls he
      cases e with
      | var nm => simpa [evalCore] using he
      | lit w => simpa [evalCore] using he
      | op code as =>
        simp only [evalCore] at he ⊢
        simp only [callsOf] at hcalls
        cases ha : evalArgs ops FS n pat args as with
        | error er => rw [ha] at he; simp at he
        | ok vs => rw [ha] at he; rw [ihB pat args as vs hcalls ha]; exact he
      | ite c a b =>
        simp only [evalCore] at he ⊢
        simp only [callsOf, List.all_append, Bool.and_eq_true] at hcalls
        cases hc : evalCore ops FS n pat args c with
        | error er => rw [hc] at he; simp at he
        | ok cv =>
          rw [hc] at he
          rw [ihA pat args c cv hcalls.1.1 hc]
          simp only at he ⊢
          by_cases hn : Val.nilp cv = true
          · rw [if_pos hn] at he ⊢; exact ihA pat args b v hcalls.2 he
          · rw [if_neg hn] at he ⊢; exact ihA pat args a v hcalls.1.2 he
      | call f as =>
        simp only [evalCore] at he ⊢
        simp only [callsOf, List.all_cons, Bool.and_eq_true] at hcalls
        rw [findFn_keep FS live f hcalls.1]
        cases hfd : findFn f FS with
        | none => rw [hfd] at he; simp [failR] at he
        | some fd =>
          rw [hfd] at he
          simp only at he ⊢
          cases ha : evalArgs ops FS n pat args as with
          | error er => rw [ha] at he; simp at he
          | ok vs =>
            rw [ha] at he
            rw [ihB pat args as vs hcalls.2 ha]
            simp only at he ⊢
            obtain ⟨hmem, hname⟩ := findFn_mem f FS fd hfd
            have hbody : (callsOf fd.body).all live.contains = true := by
              unfold liveClosed at hcl
              rw [List.all_eq_true] at hcl
              have := hcl fd hmem
              rw [hname] at this
              simp only [hcalls.1, Bool.not_true, Bool.false_or] at this
              exact this
            exact ihA fd.params vs fd.body v hbody he
    · intro pat args es vs hcalls he
      cases es with
      | nil => simpa [evalArgs] using he
      | cons e r =>
        simp only [evalArgs] at he ⊢
        simp only [callsOfs, List.all_append, Bool.and_eq_true] at hcalls
        cases h1 : evalCore ops FS n pat args e with
        | error er => rw [h1] at he; simp at he
        | ok v1 =>
          rw [h1] at he
          rw [ihA pat args e v1 hcalls.1 h1]
          simp only at he ⊢
          cases h2 : evalArgs ops FS n pat args r with
          | error er => rw [h2] at he; simp at he
          | ok v2 => rw [h2] at he; rw [ihB pat args r v2 hcalls.2 h2]; exact he

theorem wf_keep (FS : List FnDef) (live : List Bytes) (h : WF FS) : WF (keep FS live) := by
  have hsub : ∀ f, f ∈ keep FS live → f ∈ FS := by
    intro f hf
    unfold keep at hf
    exact (List.mem_filter.mp hf).1
  constructor
  · unfold keep
    exact List.Nodup.sublist (List.Sublist.map _ List.filter_sublist) h.nodup
  · intro f hf; exact h.noAt f (hsub f hf)
  · intro f hf; exact h.patOk f (hsub f hf)
  · intro f hf g hg; exact h.disjoint f (hsub f hf) g (hsub g hg)
  · intro f hf; exact h.bodyOk f (hsub f hf)

-- the decidable well-formedness check implies the hypotheses -------------------------------------

theorem nodupB_sound (l : List Bytes) (h : nodupB l = true) : l.Nodup := by
  induction l with
  | nil => exact List.nodup_nil
  | cons x xs ih =>
    simp only [nodupB, Bool.and_eq_true, Bool.not_eq_true', List.contains_eq_mem, decide_eq_false_iff_not] at h
    exact List.nodup_cons.mpr ⟨h.1, ih h.2⟩

theorem fnsWF_sound (FS : List FnDef) (h : fnsWF FS = true) : WF FS := by
  simp only [fnsWF, Bool.and_eq_true, List.all_eq_true, bne_iff_ne, ne_eq, Option.isNone_iff_eq_none] at h
  obtain ⟨hnd, hall⟩ := h
  constructor
  · exact nodupB_sound _ hnd
  · intro f hf; exact (hall f hf).1.1.1
  · intro f hf; exact (hall f hf).1.1.2
  · intro f hf g hg; exact (hall f hf).2 g hg
  · intro f hf; exact (hall f hf).1.2

/-- the whole program, with the function list taken as given (no pruning):
    `(a (q . MAIN) (c (q . FUNCS) 1))`. -/
def compileWith (FS : List FnDef) (params : Rich) (body : Expr) : Option Val :=
  match compileE (Lang.envShape (FS.map (·.name)) params) body, compileFns (FS.map (·.name)) FS with
  | some main, some entries =>
    some (.pair (.atom [2]) (.pair (qv main)
      (.pair (.pair (.atom [4]) (.pair (qv (codeTree (entries.map (·.2)) (entries.length + 1))) (.pair (.atom [1]) Val.nil))) Val.nil)))
  | _, _ => none

theorem compileWith_correct (ops : OpSem) (hops : OpsCore ops) (FS : List FnDef) (hwf : WF FS)
    (params : Rich) (hpat : Lang.patOk params = true)
    (hdis : ∀ g ∈ FS, Lang.nameLookup g.name params = none)
    (body : Expr) (hok : exprOk body = true) (code : Val)
    (hc : compileWith FS params body = some code) (n : Nat) (args v : Val)
    (he : evalCore ops FS n params args body = .ok v) :
    Evaluates ops code args v := by
  unfold compileWith at hc
  cases hm : compileE (Lang.envShape (FS.map (·.name)) params) body with
  | none => rw [hm] at hc; simp at hc
  | some main =>
    cases hent : compileFns (FS.map (·.name)) FS with
    | none => rw [hm, hent] at hc; simp at hc
    | some entries =>
      rw [hm, hent] at hc; simp at hc; subst hc
      have hmain := (compile_sound ops FS entries hops hwf hent n).1 params args body v main hpat hdis hok he hm
      refine ev_apply ops (qv main) _ args main (.pair (funcs entries) args) v (ev_quote ops main args) ?_ hmain
      exact ev_cons ops hops (qv (funcs entries)) (.atom [1]) args (funcs entries) args
        (ev_quote ops _ args) (ev_env ops args)

theorem compileCore_eq (P : Prog) :
    compileCore P = compileWith (keep P.fns (liveSet P)) P.params P.body := by
  rfl

/-- LAYER B: the core compiler model is correct — for every operator table implementing `i`
    and `c`, every well-formed core program, every argument value: if the source meaning is
    `v`, the emitted CLVM evaluates to `v` under the consensus evaluator. -/
theorem compileCore_correct (ops : OpSem) (hops : OpsCore ops) (P : Prog) (hwf : progWF P = true)
    (code : Val) (hc : compileCore P = some code) (n : Nat) (args v : Val)
    (he : evalProg ops P n args = .ok v) : Evaluates ops code args v := by
  simp only [progWF, Bool.and_eq_true, List.all_eq_true, Option.isNone_iff_eq_none] at hwf
  obtain ⟨⟨⟨⟨⟨hf, hp⟩, hb⟩, hd⟩, hcl⟩, hcalls⟩ := hwf
  rw [compileCore_eq] at hc
  have hwfK := wf_keep P.fns (liveSet P) (fnsWF_sound P.fns hf)
  have hcalls' : (callsOf P.body).all (liveSet P).contains = true := by
    rw [List.all_eq_true]; exact hcalls
  have he' := (eval_keep ops P.fns (liveSet P) hcl n).1 P.params args P.body v hcalls' he
  refine compileWith_correct ops hops (keep P.fns (liveSet P)) hwfK P.params hp ?_ P.body hb code hc n args v he'
  intro g hg
  unfold keep at hg
  exact hd g (List.mem_filter.mp hg).1

end Core
