/-
  Proofs/TextTree.lean — the TOKEN-STREAM and TREE levels of C09 for the classic reader,
  generically: a `TT α` is a tree whose leaves carry their printed token and the value a reader
  is expected to produce for it.  Both printers of the code base (`write_ir` and `SExp::to_string`)
  produce `TT.start` of such a tree; the classic reader is shown to read `TT.start t` back to
  `TT.toIR t` whenever every leaf token alone reads back to its value (`LeafOK`).
-/
import ChialispModel.Text.IR

/-- printed tree: leaves are tokens with the value they denote -/
inductive TT (α : Type) where
  | leaf (text : Bytes) (val : α)
  | nil
  | cons (a d : TT α)

namespace TT
variable {α : Type}

mutual
/-- `(` first ` ` second … ` . ` tail `)` — the shape both printers produce -/
def start : TT α → Bytes
  | .leaf t _ => t
  | .nil => [40, 41]
  | .cons a d => 40 :: (start a ++ rest d)
def rest : TT α → Bytes
  | .nil => [41]
  | .cons a d => 32 :: (start a ++ rest d)
  | .leaf t _ => 32 :: 46 :: 32 :: (t ++ [41])
end

def size : TT α → Nat
  | .leaf _ _ => 1
  | .nil => 1
  | .cons a d => 1 + size a + size d

def AllLeaves (P : Bytes → α → Prop) : TT α → Prop
  | .leaf t v => P t v
  | .nil => True
  | .cons a d => AllLeaves P a ∧ AllLeaves P d

def toIR : TT IR → IR
  | .leaf _ ir => ir
  | .nil => .null
  | .cons a d => .cons (toIR a) (toIR d)

end TT

namespace IR

/-- the rest of the input begins with a delimiter of `consume_atom` (or is empty) -/
def DelimStart (K : Bytes) : Prop :=
  K = [] ∨ ∃ c r, K = c :: r ∧ (c = 40 ∨ c = 41 ∨ isSpace c = true)

/-- a character `consume_atom` keeps -/
def NonDelim (c : UInt8) : Prop := c ≠ 40 ∧ c ≠ 41 ∧ isSpace c = false

/-- a character that sends `consume_object` / `consume_cons_body` into `consume_atom` -/
def AtomStart (c : UInt8) : Prop :=
  isSpace c = false ∧ c ≠ 59 ∧ c ≠ 40 ∧ c ≠ 41 ∧ c ≠ 46 ∧ isQuoteChar c = false

/-- token `t` read on its own (followed by a delimiter) gives `ir` -/
def LeafOK (t : Bytes) (ir : IR) : Prop :=
  ∃ c t', t = c :: t' ∧
    ((isQuoteChar c = true ∧ ∀ K, consumeQuoted c false [] (t' ++ K) = .ok (ir, K)) ∨
     (AtomStart c ∧ ∀ K, DelimStart K → consumeAtom [c] (t' ++ K) = .ok (some ir, K)))

theorem delimStart_41 (K : Bytes) : DelimStart (41 :: K) := Or.inr ⟨41, K, rfl, Or.inr (Or.inl rfl)⟩
theorem delimStart_32 (K : Bytes) : DelimStart (32 :: K) := Or.inr ⟨32, K, rfl, Or.inr (Or.inr (by decide))⟩

theorem consumeWs_nonspace {c : UInt8} (hs : isSpace c = false) (h59 : c ≠ 59) (r : Bytes) :
    consumeWs false (c :: r) = c :: r := by
  simp [consumeWs, hs, h59]

theorem consumeWs_space (r : Bytes) : consumeWs false (32 :: r) = consumeWs false r := by
  simp [consumeWs, isSpace]

theorem isQuote_not_space {c : UInt8} (h : isQuoteChar c = true) : isSpace c = false ∧ c ≠ 59 ∧ c ≠ 40 ∧ c ≠ 41 ∧ c ≠ 46 := by
  simp only [isQuoteChar, Bool.or_eq_true, beq_iff_eq] at h
  rcases h with h | h <;> subst h <;> decide

/-- `consume_atom` collects non-delimiter characters up to the next delimiter -/
theorem consumeAtom_token (tok : Bytes) (acc K : Bytes) (ht : ∀ c ∈ tok, NonDelim c) (hK : DelimStart K)
    (hne : acc ++ tok ≠ []) : consumeAtom acc (tok ++ K) = atomResult (acc ++ tok) K := by
  induction tok generalizing acc with
  | nil =>
    simp only [List.append_nil, List.nil_append] at hne ⊢
    rcases hK with rfl | ⟨c, r, rfl, hc⟩
    · have : acc.isEmpty = false := by cases acc <;> simp_all
      simp [consumeAtom, this]
    · have : (c == 40 || c == 41 || isSpace c) = true := by
        rcases hc with h | h | h <;> simp [h]
      simp [consumeAtom, this]
  | cons x xs ih =>
    have hx := ht x (by simp)
    have : (x == 40 || x == 41 || isSpace x) = false := by
      obtain ⟨h1, h2, h3⟩ := hx
      simp [h1, h2, h3]
    simp only [List.cons_append, consumeAtom, this]
    have e : acc ++ x :: xs = (acc ++ [x]) ++ xs := by simp
    rw [e]
    exact ih (acc ++ [x]) (fun c hc => ht c (by simp [hc])) (by simp)

theorem enlist_snoc (items : List IR) (x tail : IR) :
    enlist (items ++ [x]) tail = enlist items (.cons x tail) := by
  simp [enlist]

/-- what `consume_cons_body` does only depends on the input after whitespace -/
theorem consumeConsBody_space (f : Nat) (r : Bytes) (items : List IR) :
    consumeConsBody f (32 :: r) items = consumeConsBody f r items := by
  cases f with
  | zero => rfl
  | succ g => simp only [consumeConsBody, consumeWs_space]

theorem rest_delimStart {α} (d : TT α) (K : Bytes) : DelimStart (TT.rest d ++ K) := by
  cases d with
  | nil => exact delimStart_41 K
  | cons a d => exact delimStart_32 _
  | leaf t v => exact delimStart_32 _

/-- reading one list element -/
def ElemP (a : TT IR) : Prop :=
  ∀ (f : Nat) (K : Bytes) (items : List IR), TT.size a ≤ f → DelimStart K →
    consumeConsBody (f + 1) (TT.start a ++ K) items = consumeConsBody f K (items ++ [TT.toIR a])

/-- reading the remainder of a list up to its closing paren -/
def RestP (d : TT IR) : Prop :=
  ∀ (f : Nat) (K : Bytes) (items : List IR), TT.size d ≤ f →
    consumeConsBody f (TT.rest d ++ K) items = .ok (enlist items (TT.toIR d), K)

/-- reading a whole object -/
def ObjP (a : TT IR) : Prop :=
  ∀ (f : Nat) (K : Bytes), TT.size a ≤ f → DelimStart K →
    consumeObject f (TT.start a ++ K) = .ok (TT.toIR a, K)

theorem leaf_elem (t : Bytes) (ir : IR) (h : LeafOK t ir) : ElemP (.leaf t ir) := by
  intro f K items _ hK
  obtain ⟨c, t', rfl, h⟩ := h
  simp only [TT.start, TT.toIR, List.cons_append]
  rcases h with ⟨hq, hr⟩ | ⟨⟨hs, h59, h40, h41, h46, hnq⟩, hr⟩
  · obtain ⟨hs, h59, h40, h41, h46⟩ := isQuote_not_space hq
    simp only [consumeConsBody, consumeWs_nonspace hs h59]
    simp [h40, h41, h46, hq, hr K]
  · simp only [consumeConsBody, consumeWs_nonspace hs h59]
    simp [h40, h41, h46, hnq, hr K hK]

theorem leaf_obj' (t : Bytes) (ir : IR) (h : LeafOK t ir) (f : Nat) (K : Bytes) (hK : DelimStart K) :
    consumeObject f (TT.start (.leaf t ir) ++ K) = .ok (TT.toIR (.leaf t ir), K) := by
  obtain ⟨c, t', rfl, h⟩ := h
  simp only [TT.start, TT.toIR, List.cons_append, consumeObject, consumeObjectWith]
  rcases h with ⟨hq, hr⟩ | ⟨⟨hs, h59, h40, h41, h46, hnq⟩, hr⟩
  · obtain ⟨hs, h59, h40, h41, h46⟩ := isQuote_not_space hq
    rw [consumeWs_nonspace hs h59]
    simp [h40, hq, hr K]
  · rw [consumeWs_nonspace hs h59]
    simp [h40, hnq, hr K hK]

theorem leaf_obj (t : Bytes) (ir : IR) (h : LeafOK t ir) : ObjP (.leaf t ir) :=
  fun f K _ hK => leaf_obj' t ir h f K hK

theorem body_close (f : Nat) (K : Bytes) (items : List IR) :
    consumeConsBody (f + 1) (41 :: K) items = .ok (enlist items .null, K) := by
  simp [consumeConsBody, consumeWs, isSpace, isEol]

/-- TREE level: every tree whose leaves read back reads back, in each of the three reader entry
    situations (as a list element, as the remainder of a list, as a whole object). -/
theorem read_tree (t : TT IR) (h : TT.AllLeaves LeafOK t) : ElemP t ∧ RestP t ∧ ObjP t := by
  induction t with
  | leaf tx ir =>
    have hl : LeafOK tx ir := h
    refine ⟨leaf_elem tx ir hl, ?_, leaf_obj tx ir hl⟩
    intro f K items hf
    obtain ⟨g, rfl⟩ : ∃ g, f = g + 1 := ⟨f - 1, by simp [TT.size] at hf; omega⟩
    have ho := leaf_obj' tx ir hl g (41 :: K) (delimStart_41 K)
    simp only [TT.start, TT.toIR] at ho
    obtain ⟨c, t', rfl, hc⟩ := hl
    have hcs : isSpace c = false ∧ c ≠ 59 := by
      rcases hc with ⟨hq, _⟩ | ⟨⟨hs, h59, _⟩, _⟩
      · exact ⟨(isQuote_not_space hq).1, (isQuote_not_space hq).2.1⟩
      · exact ⟨hs, h59⟩
    simp only [TT.rest, TT.toIR, List.cons_append, List.append_assoc, List.nil_append]
    rw [consumeConsBody_space]
    simp only [consumeConsBody]
    rw [consumeWs_nonspace (by decide) (by decide)]
    simp only [show ((46 : UInt8) == 41) = false by decide, show ((46 : UInt8) == 40) = false by decide,
      show ((46 : UInt8) == 46) = true by decide, if_true, Bool.false_eq_true, if_false]
    rw [consumeWs_space, consumeWs_nonspace hcs.1 hcs.2]
    simp only [consumeObject, List.cons_append] at ho
    rw [ho]
    simp [expectCloseParen, consumeWs, isSpace, isEol]
  | nil =>
    refine ⟨?_, ?_, ?_⟩
    · intro f K items hf hK
      obtain ⟨g, rfl⟩ : ∃ g, f = g + 1 := ⟨f - 1, by simp [TT.size] at hf; omega⟩
      simp only [TT.start, TT.toIR, List.cons_append, List.nil_append]
      rw [consumeConsBody]
      rw [consumeWs_nonspace (by decide) (by decide)]
      simp only [show ((40 : UInt8) == 41) = false by decide, show ((40 : UInt8) == 40) = true by decide,
        if_true, Bool.false_eq_true, if_false]
      rw [body_close]
      simp [enlist]
    · intro f K items hf
      obtain ⟨g, rfl⟩ : ∃ g, f = g + 1 := ⟨f - 1, by simp [TT.size] at hf; omega⟩
      simp only [TT.rest, TT.toIR, List.cons_append, List.nil_append]
      exact body_close g K items
    · intro f K hf hK
      obtain ⟨g, rfl⟩ : ∃ g, f = g + 1 := ⟨f - 1, by simp [TT.size] at hf; omega⟩
      simp only [TT.start, TT.toIR, List.cons_append, List.nil_append, consumeObject, consumeObjectWith]
      rw [consumeWs_nonspace (by decide) (by decide)]
      simp only [show ((40 : UInt8) == 40) = true by decide, if_true]
      rw [body_close]
      simp [enlist]
  | cons a d iha ihd =>
    obtain ⟨ha, hd⟩ := h
    obtain ⟨ea, _, _⟩ := iha ha
    obtain ⟨_, rd, _⟩ := ihd hd
    -- the body after the opening paren
    have body : ∀ (f : Nat) (K : Bytes), TT.size a + TT.size d ≤ f →
        consumeConsBody (f + 1) ((TT.start a ++ TT.rest d) ++ K) [] = .ok (.cons (TT.toIR a) (TT.toIR d), K) := by
      intro f K hf
      rw [List.append_assoc, ea f (TT.rest d ++ K) [] (by omega) (rest_delimStart d K)]
      rw [rd f K _ (by omega)]
      simp [enlist]
    refine ⟨?_, ?_, ?_⟩
    · intro f K items hf hK
      simp only [TT.size] at hf
      obtain ⟨g, rfl⟩ : ∃ g, f = g + 1 := ⟨f - 1, by omega⟩
      simp only [TT.start, TT.toIR, List.cons_append]
      rw [consumeConsBody]
      rw [consumeWs_nonspace (by decide) (by decide)]
      simp only [show ((40 : UInt8) == 41) = false by decide, show ((40 : UInt8) == 40) = true by decide,
        if_true, Bool.false_eq_true, if_false]
      rw [body g K (by omega)]
    · intro f K items hf
      simp only [TT.size] at hf
      obtain ⟨g, rfl⟩ : ∃ g, f = g + 1 := ⟨f - 1, by omega⟩
      simp only [TT.rest, TT.toIR, List.cons_append]
      rw [consumeConsBody_space, List.append_assoc,
        ea g (TT.rest d ++ K) items (by omega) (rest_delimStart d K), rd g K _ (by omega), enlist_snoc]
    · intro f K hf hK
      simp only [TT.size] at hf
      obtain ⟨g, rfl⟩ : ∃ g, f = g + 1 := ⟨f - 1, by omega⟩
      simp only [TT.start, TT.toIR, List.cons_append, consumeObject, consumeObjectWith]
      rw [consumeWs_nonspace (by decide) (by decide)]
      simp only [show ((40 : UInt8) == 40) = true by decide, if_true]
      exact body g K (by omega)

/-- the printed text is at least as long as the tree is big (so `text.length + 1` fuel suffices) -/
theorem size_le_length {α} (P : Bytes → α → Prop) (hP : ∀ t v, P t v → t ≠ []) (t : TT α)
    (h : TT.AllLeaves P t) : TT.size t ≤ (TT.start t).length ∧ TT.size t ≤ (TT.rest t).length := by
  induction t with
  | leaf tx v =>
    have : tx ≠ [] := hP tx v h
    have : 1 ≤ tx.length := by cases tx <;> simp_all
    simp [TT.size, TT.start, TT.rest]; omega
  | nil => simp [TT.size, TT.start, TT.rest]
  | cons a d iha ihd =>
    obtain ⟨ha, hd⟩ := h
    have := iha ha; have := ihd hd
    simp [TT.size, TT.start, TT.rest]; omega

theorem leafOK_ne_nil (t : Bytes) (ir : IR) (h : LeafOK t ir) : t ≠ [] := by
  obtain ⟨c, t', rfl, _⟩ := h; simp

/-- `read_ir` of the printed tree -/
theorem readIR_tree (t : TT IR) (h : TT.AllLeaves LeafOK t) : readIR (TT.start t) = .ok (TT.toIR t) := by
  have hs := (size_le_length LeafOK leafOK_ne_nil t h).1
  have ho := (read_tree t h).2.2 ((TT.start t).length + 1) [] (by omega) (Or.inl rfl)
  simp only [List.append_nil] at ho
  simp [readIR, ho]

end IR
