/-
  Proofs/Core2Compile.lean — correctness of the code generator of Lang/Core2.lean
  (`Core2.compileE` on the inline-free, let-free fragment, with the `argsv` expression) with
  respect to the core2 meaning (`Core2.eval`), over the consensus evaluator `Clvm.evalC` with
  an arbitrary operator table that implements `i`, `c`, `f`, `r`.  Same structure as
  Proofs/CoreLemmas.lean (whose evaluation lemmas for the emitted shapes are reused).
-/
import ChialispModel.Lang.Core2
import ChialispModel.Proofs.CoreLemmas

namespace Core2
open Clvm
open Core (OpsCore ev_quote ev_path ev_apply ev_env ev_wrap ev_op ev_cons ev_if buildTree_ne_at codeTree_lookup
  toVal_ofVal pathAtom qv wrap codeTree opOk paramValue funcs ev_two)

/-- the operator table implements `f` (5) and `r` (6) as CLVM defines them. -/
structure OpsFR (ops : OpSem) : Prop where
  opFirst : ∀ x y : Val, ops.apply [5] (.pair (.pair x y) Val.nil) = .ok x
  opRest : ∀ x y : Val, ops.apply [6] (.pair (.pair x y) Val.nil) = .ok y

theorem chiaOps_fr : OpsFR Ops.chiaOps := by
  constructor
  · intro x y
    simp [Ops.chiaOps, Ops.chiaApply, Ops.unsupportedOp, Ops.smallNumber, Bytes.canonical, Bytes.ofIntClvm, Bytes.toInt,
      Bytes.toNatBE, Bytes.ofInt, Bytes.ofNatBE, Bytes.ofNatBEAux, Bytes.posBytes, Ops.getArgs, Val.elems, Val.nil]
  · intro x y
    simp [Ops.chiaOps, Ops.chiaApply, Ops.unsupportedOp, Ops.smallNumber, Bytes.canonical, Bytes.ofIntClvm, Bytes.toInt,
      Bytes.toNatBE, Bytes.ofInt, Bytes.ofNatBE, Bytes.ofNatBEAux, Bytes.posBytes, Ops.getArgs, Val.elems, Val.nil]

-- function table facts -----------------------------------------------------------------------------

theorem findFn_mem (f : Bytes) (FS : List FnDef) (fd : FnDef) (h : findFn f FS = some fd) :
    fd ∈ FS ∧ fd.name = f := by
  induction FS with
  | nil => simp [findFn] at h
  | cons x xs ih =>
    simp only [findFn] at h
    split at h
    · rename_i hx
      simp at h; subst h
      exact ⟨by simp, by simpa using hx⟩
    · obtain ⟨h1, h2⟩ := ih h
      exact ⟨by simp [h1], h2⟩

theorem name_unique (FS : List FnDef) (hnd : (FS.map (·.name)).Nodup) (f1 f2 : FnDef)
    (h1 : f1 ∈ FS) (h2 : f2 ∈ FS) (hn : f1.name = f2.name) : f1 = f2 := by
  induction FS with
  | nil => simp at h1
  | cons x xs ih =>
    simp only [List.map_cons, List.nodup_cons, List.mem_map, not_exists, not_and] at hnd
    simp only [List.mem_cons] at h1 h2
    rcases h1 with rfl | h1 <;> rcases h2 with rfl | h2
    · rfl
    · exact absurd hn.symm (hnd.1 f2 h2)
    · exact absurd hn (hnd.1 f1 h1)
    · exact ih hnd.2 h1 h2

theorem compileFns_spec (names : List Bytes) (FS : List FnDef) (entries : List (Bytes × Val))
    (h : compileFns names FS = some entries) :
    entries.map (·.1) = FS.map (·.name) ∧
    ∀ e ∈ entries, ∃ f ∈ FS, f.name = e.1 ∧
      ∃ cb, compileE (Lang.envShape names f.params) f.body = some cb ∧ e.2 = wrap cb := by
  induction FS generalizing entries with
  | nil => simp [compileFns] at h; subst h; simp
  | cons f r ih =>
    simp only [compileFns] at h
    cases hc : compileE (Lang.envShape names f.params) f.body with
    | none => rw [hc] at h; simp at h
    | some c =>
      rw [hc] at h
      cases hr : compileFns names r with
      | none => rw [hr] at h; simp at h
      | some cs =>
        rw [hr] at h; simp at h; subst h
        obtain ⟨ih1, ih2⟩ := ih cs hr
        refine ⟨by simp [ih1], ?_⟩
        intro e he
        simp only [List.mem_cons] at he
        rcases he with rfl | he
        · exact ⟨f, by simp, rfl, c, hc, rfl⟩
        · obtain ⟨g, hg, hn, cb, hcb, he2⟩ := ih2 e he
          exact ⟨g, by simp [hg], hn, cb, hcb, he2⟩

/-- a program whose functions have distinct names (none called `@`), identifier-only
    parameter patterns that do not reuse function names, and admissible operator codes. -/
structure WF (FS : List FnDef) : Prop where
  nodup : (FS.map (·.name)).Nodup
  noAt : ∀ f ∈ FS, f.name ≠ [64]
  patOk : ∀ f ∈ FS, Lang.patOk f.params = true
  disjoint : ∀ f ∈ FS, ∀ g ∈ FS, Lang.nameLookup g.name f.params = none
  bodyOk : ∀ f ∈ FS, exprOk f.body = true

section Main
variable (ops : OpSem) (hops : OpsCore ops) (FS : List FnDef) (entries : List (Bytes × Val))

/-- the run-time function environment -/
def funcs (entries : List (Bytes × Val)) : Val := codeTree (entries.map (·.2)) (entries.length + 1)

theorem var_correct (hwf : WF FS) (hent : compileFns (FS.map (·.name)) FS = some entries)
    (pat : Rich) (hpat : Lang.patOk pat = true)
    (hdis : ∀ g ∈ FS, Lang.nameLookup g.name pat = none)
    (args v c : Val) (n : Bytes)
    (hv : paramValue pat args n = some v)
    (hc : compileE (Lang.envShape (FS.map (·.name)) pat) (.var n) = some c) :
    Evaluates ops c (.pair (funcs entries) args) v := by
  unfold paramValue at hv
  cases hb : Lang.bindPat pat (Lang.SV.ofVal args) with
  | none => rw [hb] at hv; simp at hv
  | some ρ =>
    rw [hb] at hv
    simp only at hv
    cases hl : Lang.lookupEnv n ρ with
    | none => rw [hl] at hv; simp at hv
    | some sv =>
      rw [hl] at hv
      simp only at hv
      -- the name is addressed inside the parameter pattern
      cases hq : Lang.nameLookup n pat with
      | none =>
        have := Lang.nameLookup_none n pat hpat hq _ ρ hb
        rw [this] at hl; simp at hl
      | some q =>
        obtain ⟨w, hw1, hw2⟩ := Lang.nameLookup_correct n pat hpat q hq args ρ hb
        rw [hl] at hw1
        simp only [Option.some.injEq] at hw1
        subst hw1
        rw [toVal_ofVal] at hv
        simp only [Option.some.injEq] at hv
        subst hv
        -- it is not a function name
        have hnot : Lang.nameLookup n (Lang.buildTree (FS.map (·.name)) ((FS.map (·.name)).length + 1)) = none := by
          cases ht : Lang.nameLookup n (Lang.buildTree (FS.map (·.name)) ((FS.map (·.name)).length + 1)) with
          | none => rfl
          | some t =>
            exfalso
            have hmap : (FS.map (fun f => (f.name, Val.nil))).map (·.1) = FS.map (·.name) := by
              simp [List.map_map, Function.comp_def]
            rw [← hmap] at ht
            obtain ⟨c', hc1, _⟩ := codeTree_lookup
              (((FS.map (fun f => (f.name, Val.nil))).map (·.1)).length + 1) (FS.map (fun f => (f.name, Val.nil)))
              (by simp) (by
                intro e he
                simp only [List.mem_map] at he
                obtain ⟨f, hf, rfl⟩ := he
                exact hwf.noAt f hf) n t ht
            simp only [List.mem_map, Prod.mk.injEq] at hc1
            obtain ⟨g, hg, hgn, _⟩ := hc1
            have := hdis g hg
            rw [hgn, hq] at this
            simp at this
        have hat : Lang.buildTree (FS.map (·.name)) ((FS.map (·.name)).length + 1) ≠ Rich.atom [64] := by
          apply buildTree_ne_at
          intro m hm
          simp only [List.mem_map] at hm
          obtain ⟨f, hf, rfl⟩ := hm
          exact hwf.noAt f hf
        simp only [compileE] at hc
        unfold Lang.envShape at hc
        rw [Lang.nameLookup_cons n _ _ (by intro cap sub h1 _; exact hat h1), hnot, hq] at hc
        simp at hc; subst hc
        apply ev_path
        rw [Path.lookupNat_right q (Lang.nameLookup_pos n pat q hq)]
        exact hw2

theorem ev_two (ops : OpSem) (fs args : Val) : Evaluates ops (.atom [2]) (.pair fs args) fs := by
  apply evaluates_atom_iff.mpr
  have : Bytes.toNatBE [2] = 2 * 1 := by decide
  unfold Path.lookup
  rw [this, Path.lookupNat_left 1 (Nat.le_refl 1), Path.lookupNat_one]

/-- the code found at a function's path is that function's wrapped, compiled body. -/
theorem fn_code (hwf : WF FS) (hent : compileFns (FS.map (·.name)) FS = some entries)
    (pat : Rich) (hdis : ∀ g ∈ FS, Lang.nameLookup g.name pat = none)
    (f : Bytes) (fd : FnDef) (hfd : findFn f FS = some fd) (pf : Nat) (args : Val)
    (hpf : Lang.nameLookup f (Lang.envShape (FS.map (·.name)) pat) = some pf) :
    ∃ cb, compileE (Lang.envShape (FS.map (·.name)) fd.params) fd.body = some cb ∧
      Path.lookupNat pf (.pair (funcs entries) args) = .ok (wrap cb) := by
  obtain ⟨hmem, hname⟩ := findFn_mem f FS fd hfd
  obtain ⟨hs1, hs2⟩ := compileFns_spec _ FS entries hent
  have hat : Lang.buildTree (FS.map (·.name)) ((FS.map (·.name)).length + 1) ≠ Rich.atom [64] := by
    apply buildTree_ne_at
    intro m hm
    simp only [List.mem_map] at hm
    obtain ⟨g, hg, rfl⟩ := hm
    exact hwf.noAt g hg
  unfold Lang.envShape at hpf
  rw [Lang.nameLookup_cons f _ _ (by intro cap sub h1 _; exact hat h1)] at hpf
  cases ht : Lang.nameLookup f (Lang.buildTree (FS.map (·.name)) ((FS.map (·.name)).length + 1)) with
  | none =>
    rw [ht] at hpf
    have := hdis fd hmem
    rw [hname] at this
    rw [this] at hpf
    simp at hpf
  | some q =>
    rw [ht] at hpf
    simp at hpf; subst hpf
    have hlenE : entries.length = (FS.map (·.name)).length := by
      have := congrArg List.length hs1
      simpa using this
    rw [← hs1] at ht
    have ht' : Lang.nameLookup f (Lang.buildTree (entries.map (·.1)) (entries.length + 1)) = some q := by
      simpa using ht
    obtain ⟨c, hc1, hc2⟩ := codeTree_lookup (entries.length + 1) entries (by omega) (by
      intro e he
      obtain ⟨g, hg, hn, _⟩ := hs2 e he
      rw [← hn]; exact hwf.noAt g hg) f q ht'
    obtain ⟨g, hg, hn, cb, hcb, he2⟩ := hs2 (f, c) hc1
    have hgf : g = fd := name_unique FS hwf.nodup g fd hg hmem (by rw [hn, hname])
    subst hgf
    refine ⟨cb, hcb, ?_⟩
    rw [Path.lookupNat_left q (Lang.nameLookup_pos f _ q ht')]
    simp only at he2
    rw [← he2]
    exact hc2

/-- source evaluation of a core expression ⇒ consensus evaluation of its compiled code in
    the run-time environment `(FUNCS . args)` — for expressions, operator argument lists and
    call argument lists, by induction on the source fuel. -/
theorem compile_sound (hops : OpsCore ops) (hfr : OpsFR ops) (hwf : WF FS)
    (hent : compileFns (FS.map (·.name)) FS = some entries) :
    ∀ n : Nat,
      (∀ (pat : Rich) (args : Val) (e : Expr) (v c : Val),
        Lang.patOk pat = true → (∀ g ∈ FS, Lang.nameLookup g.name pat = none) → exprOk e = true →
        eval ops FS n pat args e = .ok v →
        compileE (Lang.envShape (FS.map (·.name)) pat) e = some c →
        Evaluates ops c (.pair (funcs entries) args) v) ∧
      (∀ (pat : Rich) (args : Val) (es : Exprs) (vs l : Val),
        Lang.patOk pat = true → (∀ g ∈ FS, Lang.nameLookup g.name pat = none) → exprsOk es = true →
        evalArgs ops FS n pat args es = .ok vs →
        compileArgs (Lang.envShape (FS.map (·.name)) pat) es = some l →
        EvalArgs ops l (.pair (funcs entries) args) vs) ∧
      (∀ (pat : Rich) (args : Val) (es : Exprs) (vs l : Val),
        Lang.patOk pat = true → (∀ g ∈ FS, Lang.nameLookup g.name pat = none) → exprsOk es = true →
        evalArgs ops FS n pat args es = .ok vs →
        compileCallArgs (Lang.envShape (FS.map (·.name)) pat) es = some l →
        Evaluates ops l (.pair (funcs entries) args) vs) := by
  intro n
  induction n with
  | zero =>
    refine ⟨?_, ?_, ?_⟩ <;> intros <;> simp_all [eval, evalArgs]
  | succ n ih =>
    obtain ⟨ihA, ihB, ihC⟩ := ih
    refine ⟨?_, ?_, ?_⟩
    · intro pat args e v c hpat hdis hok he hc
      cases e with
      | var nm =>
        simp only [eval] at he
        cases hv : paramValue pat args nm with
        | none => rw [hv] at he; simp [failR] at he
        | some w =>
          rw [hv] at he; simp at he; subst he
          exact var_correct ops FS entries hwf hent pat hpat hdis args w c nm hv hc
      | lit w =>
        simp only [eval] at he
        simp only [compileE] at hc
        simp at he hc; subst he; subst hc
        exact ev_quote ops w _
      | op code as =>
        simp only [eval] at he
        simp only [compileE] at hc
        simp only [exprOk, Bool.and_eq_true] at hok
        cases ha : evalArgs ops FS n pat args as with
        | error er => rw [ha] at he; simp at he
        | ok vs =>
          rw [ha] at he
          cases hl : compileArgs (Lang.envShape (FS.map (·.name)) pat) as with
          | none => rw [hl] at hc; simp at hc
          | some l =>
            rw [hl] at hc; simp at hc; subst hc
            exact ev_op ops code l _ vs v hok.1 (ihB pat args as vs l hpat hdis hok.2 ha hl) he
      | ite cnd a b =>
        simp only [eval] at he
        simp only [compileE] at hc
        simp only [exprOk, Bool.and_eq_true] at hok
        cases hcv : eval ops FS n pat args cnd with
        | error er => rw [hcv] at he; simp at he
        | ok cv =>
          rw [hcv] at he
          simp only at he
          cases h1 : compileE (Lang.envShape (FS.map (·.name)) pat) cnd with
          | none => rw [h1] at hc; simp at hc
          | some c' =>
            cases h2 : compileE (Lang.envShape (FS.map (·.name)) pat) a with
            | none => rw [h1, h2] at hc; simp at hc
            | some a' =>
              cases h3 : compileE (Lang.envShape (FS.map (·.name)) pat) b with
              | none => rw [h1, h2, h3] at hc; simp at hc
              | some b' =>
                rw [h1, h2, h3] at hc; simp at hc; subst hc
                apply ev_if ops hops c' (wrap a') (wrap b') _ cv v
                  (ihA pat args cnd cv c' hpat hdis hok.1.1 hcv h1)
                by_cases hn : Val.nilp cv = true
                · rw [if_pos hn] at he ⊢
                  exact ev_wrap ops b' _ v (ihA pat args b v b' hpat hdis hok.2 he h3)
                · rw [if_neg hn] at he ⊢
                  exact ev_wrap ops a' _ v (ihA pat args a v a' hpat hdis hok.1.2 he h2)
      | call f as =>
        simp only [eval] at he
        simp only [compileE] at hc
        simp only [exprOk] at hok
        cases hfd : findFn f FS with
        | none => rw [hfd] at he; simp [failR] at he
        | some fd =>
          rw [hfd] at he
          simp only at he
          cases ha : evalArgs ops FS n pat args as with
          | error er => rw [ha] at he; simp at he
          | ok vs =>
            rw [ha] at he
            simp only at he
            cases hpf : Lang.nameLookup f (Lang.envShape (FS.map (·.name)) pat) with
            | none => rw [hpf] at hc; simp at hc
            | some pf =>
              cases hl : compileCallArgs (Lang.envShape (FS.map (·.name)) pat) as with
              | none => rw [hpf, hl] at hc; simp at hc
              | some l =>
                rw [hpf, hl] at hc; simp at hc; subst hc
                obtain ⟨hmem, _⟩ := findFn_mem f FS fd hfd
                obtain ⟨cb, hcb, hlook⟩ := fn_code FS entries hwf hent pat hdis f fd hfd pf args hpf
                refine ev_apply ops (pathAtom pf) _ _ (wrap cb) (.pair (funcs entries) vs) v
                  (ev_path ops pf _ _ hlook) ?_ ?_
                · exact ev_cons ops hops (.atom [2]) l _ (funcs entries) vs (ev_two ops _ _)
                    (ihC pat args as vs l hpat hdis hok ha hl)
                · by_cases hbo : bindsOk fd.params vs = true
                  · rw [if_pos hbo] at he
                    exact ev_wrap ops cb _ v
                      (ihA fd.params vs fd.body v cb (hwf.patOk fd hmem) (hwf.disjoint fd hmem)
                        (hwf.bodyOk fd hmem) he hcb)
                  · rw [if_neg hbo] at he; simp [failR] at he
      | letE names es body => simp [exprOk] at hok
      | argsv =>
        simp only [eval] at he
        simp only [compileE] at hc
        simp at he hc; subst he; subst hc
        have h6 : opOk 6 = true := by decide
        exact ev_op ops 6 (.pair (.atom [1]) Val.nil) _ (.pair (.pair (funcs entries) args) Val.nil) args h6
          (evalArgs_pair_iff.mpr ⟨_, Val.nil, rfl, ev_env ops _, evalArgs_atom_iff.mpr ⟨rfl, rfl⟩⟩)
          (hfr.opRest _ _)
    · intro pat args es vs l hpat hdis hok he hc
      cases es with
      | nil =>
        simp only [evalArgs] at he
        simp only [compileArgs] at hc
        simp at he hc; subst he; subst hc
        exact evalArgs_atom_iff.mpr ⟨rfl, rfl⟩
      | cons e r =>
        simp only [evalArgs] at he
        simp only [compileArgs] at hc
        simp only [exprsOk, Bool.and_eq_true] at hok
        cases h1 : eval ops FS n pat args e with
        | error er => rw [h1] at he; simp at he
        | ok v1 =>
          rw [h1] at he
          simp only at he
          cases h2 : evalArgs ops FS n pat args r with
          | error er => rw [h2] at he; simp at he
          | ok v2 =>
            rw [h2] at he; simp at he; subst he
            cases h3 : compileE (Lang.envShape (FS.map (·.name)) pat) e with
            | none => rw [h3] at hc; simp at hc
            | some e' =>
              cases h4 : compileArgs (Lang.envShape (FS.map (·.name)) pat) r with
              | none => rw [h3, h4] at hc; simp at hc
              | some r' =>
                rw [h3, h4] at hc; simp at hc; subst hc
                apply evalArgs_pair_iff.mpr
                exact ⟨v1, v2, rfl, ihA pat args e v1 e' hpat hdis hok.1 h1 h3,
                  ihB pat args r v2 r' hpat hdis hok.2 h2 h4⟩
    · intro pat args es vs l hpat hdis hok he hc
      cases es with
      | nil =>
        simp only [evalArgs] at he
        simp only [compileCallArgs] at hc
        simp at he hc; subst he; subst hc
        apply evaluates_atom_iff.mpr
        simp [Val.nil, Path.lookup, Bytes.toNatBE, Path.lookupNat]
      | cons e r =>
        simp only [evalArgs] at he
        simp only [compileCallArgs] at hc
        simp only [exprsOk, Bool.and_eq_true] at hok
        cases h1 : eval ops FS n pat args e with
        | error er => rw [h1] at he; simp at he
        | ok v1 =>
          rw [h1] at he
          simp only at he
          cases h2 : evalArgs ops FS n pat args r with
          | error er => rw [h2] at he; simp at he
          | ok v2 =>
            rw [h2] at he; simp at he; subst he
            cases h3 : compileE (Lang.envShape (FS.map (·.name)) pat) e with
            | none => rw [h3] at hc; simp at hc
            | some e' =>
              cases h4 : compileCallArgs (Lang.envShape (FS.map (·.name)) pat) r with
              | none => rw [h3, h4] at hc; simp at hc
              | some r' =>
                rw [h3, h4] at hc; simp at hc; subst hc
                exact ev_cons ops hops e' r' _ v1 v2 (ihA pat args e v1 e' hpat hdis hok.1 h1 h3)
                  (ihC pat args r v2 r' hpat hdis hok.2 h2 h4)

end Main

-- dead-function pruning ---------------------------------------------------------------------------

theorem findFn_keep (FS : List FnDef) (live : List Bytes) (f : Bytes) (hf : live.contains f = true) :
    findFn f (keep FS live) = findFn f FS := by
  induction FS with
  | nil => rfl
  | cons x xs ih =>
    unfold keep at *
    simp only [List.filter_cons]
    by_cases hx : live.contains x.name = true
    · simp only [hx, if_true, findFn]
      split
      · rfl
      · exact ih
    · have hxf : (x.name == f) = false := by
        cases hxe : x.name == f with
        | false => rfl
        | true =>
          have : x.name = f := by simpa using hxe
          rw [this] at hx
          exact absurd hf hx
      simp only [hx, findFn, hxf]
      simpa using ih

theorem eval_keep (ops : OpSem) (FS : List FnDef) (live : List Bytes) (hcl : liveClosed FS live = true) :
    ∀ n : Nat,
      (∀ pat args e v, (callsOf e).all live.contains = true →
        eval ops FS n pat args e = .ok v → eval ops (keep FS live) n pat args e = .ok v) ∧
      (∀ pat args es vs, (callsOfs es).all live.contains = true →
        evalArgs ops FS n pat args es = .ok vs → evalArgs ops (keep FS live) n pat args es = .ok vs) := by
  intro n
  induction n with
  | zero => constructor <;> intros <;> simp_all [eval, evalArgs]
  | succ n ih =>
    obtain ⟨ihA, ihB⟩ := ih
    constructor
    · intro pat args e v hcalls he
      cases e with
      | var nm => simpa [eval] using he
      | lit w => simpa [eval] using he
      | op code as =>
        simp only [eval] at he ⊢
        simp only [callsOf] at hcalls
        cases ha : evalArgs ops FS n pat args as with
        | error er => rw [ha] at he; simp at he
        | ok vs => rw [ha] at he; rw [ihB pat args as vs hcalls ha]; exact he
      | ite c a b =>
        simp only [eval] at he ⊢
        simp only [callsOf, List.all_append, Bool.and_eq_true] at hcalls
        cases hc : eval ops FS n pat args c with
        | error er => rw [hc] at he; simp at he
        | ok cv =>
          rw [hc] at he
          rw [ihA pat args c cv hcalls.1.1 hc]
          simp only at he ⊢
          by_cases hn : Val.nilp cv = true
          · rw [if_pos hn] at he ⊢; exact ihA pat args b v hcalls.2 he
          · rw [if_neg hn] at he ⊢; exact ihA pat args a v hcalls.1.2 he
      | call f as =>
        simp only [eval] at he ⊢
        simp only [callsOf, List.all_cons, Bool.and_eq_true] at hcalls
        rw [findFn_keep FS live f hcalls.1]
        cases hfd : findFn f FS with
        | none => rw [hfd] at he; simp [failR] at he
        | some fd =>
          rw [hfd] at he
          simp only at he ⊢
          cases ha : evalArgs ops FS n pat args as with
          | error er => rw [ha] at he; simp at he
          | ok vs =>
            rw [ha] at he
            rw [ihB pat args as vs hcalls.2 ha]
            simp only at he ⊢
            obtain ⟨hmem, hname⟩ := findFn_mem f FS fd hfd
            have hbody : (callsOf fd.body).all live.contains = true := by
              unfold liveClosed at hcl
              rw [List.all_eq_true] at hcl
              have := hcl fd hmem
              rw [hname] at this
              simp only [hcalls.1, Bool.not_true, Bool.false_or] at this
              exact this
            by_cases hbo : bindsOk fd.params vs = true
            · rw [if_pos hbo] at he ⊢
              exact ihA fd.params vs fd.body v hbody he
            · rw [if_neg hbo] at he; simp [failR] at he
      | letE names es body =>
        simp only [eval] at he ⊢
        simp only [callsOf, List.all_append, Bool.and_eq_true] at hcalls
        cases ha : evalArgs ops FS n pat args es with
        | error er => rw [ha] at he; simp at he
        | ok vs =>
          rw [ha] at he
          rw [ihB pat args es vs hcalls.1 ha]
          simp only at he ⊢
          by_cases hbo : bindsOk (.cons pat (namesPat names)) (.pair args vs) = true
          · rw [if_pos hbo] at he ⊢
            exact ihA _ _ body v hcalls.2 he
          · rw [if_neg hbo] at he; simp [failR] at he
      | argsv => simpa [eval] using he
    · intro pat args es vs hcalls he
      cases es with
      | nil => simpa [evalArgs] using he
      | cons e r =>
        simp only [evalArgs] at he ⊢
        simp only [callsOfs, List.all_append, Bool.and_eq_true] at hcalls
        cases h1 : eval ops FS n pat args e with
        | error er => rw [h1] at he; simp at he
        | ok v1 =>
          rw [h1] at he
          rw [ihA pat args e v1 hcalls.1 h1]
          simp only at he ⊢
          cases h2 : evalArgs ops FS n pat args r with
          | error er => rw [h2] at he; simp at he
          | ok v2 => rw [h2] at he; rw [ihB pat args r v2 hcalls.2 h2]; exact he

theorem wf_keep (FS : List FnDef) (live : List Bytes) (h : WF FS) : WF (keep FS live) := by
  have hsub : ∀ f, f ∈ keep FS live → f ∈ FS := by
    intro f hf
    unfold keep at hf
    exact (List.mem_filter.mp hf).1
  constructor
  · unfold keep
    exact List.Nodup.sublist (List.Sublist.map _ List.filter_sublist) h.nodup
  · intro f hf; exact h.noAt f (hsub f hf)
  · intro f hf; exact h.patOk f (hsub f hf)
  · intro f hf g hg; exact h.disjoint f (hsub f hf) g (hsub g hg)
  · intro f hf; exact h.bodyOk f (hsub f hf)


end Core2
