/-
  Proofs/ShrinkLemmas.lean — soundness of the modelled partial evaluator (Lang/Shrink.lean)
  with respect to the core source meaning `Core.evalCore`, on the fragment `Shrink.thmFrag`.
-/
import ChialispModel.Lang.Shrink
import ChialispModel.Proofs.CoreLemmas

namespace Shrink
open Core Clvm

def listVal : List Val → Val
  | [] => Val.nil
  | c :: r => .pair c (listVal r)

theorem evalArgs_quoted (ops : OpSem) : ∀ (cs : List Val) (vals : Val),
    EvalArgs ops (quotedArgs cs) Val.nil vals → vals = listVal cs
  | [], vals, h => ((evalArgs_atom_iff (b := [])).mp h).2
  | c :: r, vals, h => by
    obtain ⟨v, rs, rfl, hv, hr⟩ := (evalArgs_pair_iff (a := qv c) (rest := quotedArgs r)).mp h
    have hv' : v = c := (evaluates_quote_iff (op := [1]) sn1).mp hv
    rw [hv', evalArgs_quoted ops r rs hr]; rfl

theorem opOk_facts (code : Nat) (hok : opOk code = true) :
    Ops.smallNumber [UInt8.ofNat code] ≠ some 1 ∧ Ops.smallNumber [UInt8.ofNat code] ≠ some 2 ∧
    Ops.smallNumber [UInt8.ofNat code] ≠ some 36 := by
  simp only [opOk, Bool.and_eq_true, bne_iff_ne, ne_eq] at hok
  exact ⟨hok.1.1, hok.1.2, hok.2⟩

/-- `run_prim` on an ordinary operator is the operator on the list of the constants. -/
theorem runPrim_sound (ops : OpSem) (code : Nat) (hok : opOk code = true) (cs : List Val) (e : Expr)
    (h : runPrim ops code cs = .ok e) :
    ∃ v, e = .lit v ∧ ops.apply [UInt8.ofNat code] (listVal cs) = .ok v := by
  unfold runPrim at h
  split at h
  · rename_i v hv
    injection h with h
    subst h
    obtain ⟨h1, h2, h36⟩ := opOk_facts code hok
    obtain ⟨vals, ha, hp⟩ := (evaluates_op_iff h1).mp ⟨primFuel, hv⟩
    rw [evalArgs_quoted ops cs vals ha] at hp
    exact ⟨v, rfl, (applies_op_iff h2 h36).mp hp⟩
  · cases h
  · cases h

theorem allLits_cons {a : Expr} {r : List Expr} {cs : List Val} (h : allLits (a :: r) = some cs) :
    ∃ v cs', a = .lit v ∧ allLits r = some cs' ∧ cs = v :: cs' := by
  cases a with
  | lit v =>
    simp only [allLits, Option.map_eq_some_iff] at h
    obtain ⟨cs', h1, h2⟩ := h
    exact ⟨v, cs', rfl, h1, h2.symm⟩
  | var n => simp [allLits] at h
  | op c as => simp [allLits] at h
  | ite c x y => simp [allLits] at h
  | call f as => simp [allLits] at h

theorem evalArgs_lits (ops : OpSem) (fns : List FnDef) (pat : Rich) (args : Val) :
    ∀ (as : List Expr) (cs : List Val) (n : Nat) (vs : Val),
      allLits as = some cs → evalArgs ops fns n pat args (ofList as) = .ok vs → vs = listVal cs
  | [], cs, n, vs, h, he => by
    simp only [allLits, Option.some.injEq] at h
    subst h
    cases n with
    | zero => simp [ofList, evalArgs] at he
    | succ n => simp only [ofList, evalArgs, Except.ok.injEq] at he; exact he.symm
  | a :: r, cs, n, vs, h, he => by
    obtain ⟨v, cs', rfl, hr, rfl⟩ := allLits_cons h
    cases n with
    | zero => simp [ofList, evalArgs] at he
    | succ n =>
      simp only [ofList, evalArgs] at he
      cases n with
      | zero => simp [evalCore] at he
      | succ m =>
        simp only [evalCore] at he
        cases hr' : evalArgs ops fns (m+1) pat args (ofList r) with
        | ok vs' =>
          rw [hr'] at he
          simp only [Except.ok.injEq] at he
          rw [← he, evalArgs_lits ops fns pat args r cs' (m+1) vs' hr hr']; rfl
        | error er => rw [hr'] at he; cases he

end Shrink

namespace Shrink
open Core Clvm

/-- `run_prim` on `(a (q . p) (q . e))` runs `p` on `e`. -/
theorem runPrim_apply (ops : OpSem) (p e : Val) (x : Expr) (h : runPrim ops 2 [p, e] = .ok x) :
    ∃ r, x = .lit r ∧ Evaluates ops p e r := by
  unfold runPrim at h
  split at h
  · rename_i v hv
    injection h with h
    subst h
    obtain ⟨vals, ha, hp⟩ := (evaluates_op_iff (op := [UInt8.ofNat 2]) (by decide)).mp ⟨primFuel, hv⟩
    rw [evalArgs_quoted ops [p, e] vals ha] at hp
    obtain ⟨p', e', ht, hr⟩ := (applies_apply_iff (op := [UInt8.ofNat 2]) (by decide)).mp hp
    simp [twoArgs, Ops.getArgs, Val.elems, Val.nil, listVal] at ht
    obtain ⟨rfl, rfl⟩ := ht
    exact ⟨v, rfl, hr⟩
  · cases h
  · cases h

theorem finishOp_ok_cases {ops : OpSem} {code : Nat} {as : List Expr} {e' : Expr}
    (h : finishOp ops code as = .ok e') :
    (∃ cs, allLits as = some cs ∧ runPrim ops code cs = .ok e') ∨
    (allLits as = none ∧ e' = .op code (ofList as)) := by
  unfold finishOp at h
  split at h
  · cases h
  · split at h
    · rename_i cs hcs; exact Or.inl ⟨cs, hcs, h⟩
    · rename_i hnone
      split at h
      · cases h
      · injection h with h; exact Or.inr ⟨hnone, h.symm⟩

/-- what the compile step of the `if` handling must deliver (discharged by `ifHyp_of_wf`). -/
def IfHyp (ops : OpSem) (fns : List FnDef) (pat : Rich) (args : Val) : Prop :=
  ∀ a code n v, closedE a = true → progWF (branchProg fns a) = true → comCode fns .nil a = some code →
    evalCore ops fns n pat args a = .ok v → Evaluates ops code Val.nil v

theorem evalCore_lit_inv {ops : OpSem} {fns : List FnDef} {n : Nat} {pat : Rich} {args c v : Val}
    (h : evalCore ops fns n pat args (.lit c) = .ok v) : v = c ∧ ∃ m, n = m + 1 := by
  cases n with
  | zero => simp [evalCore] at h
  | succ m => simp only [evalCore, Except.ok.injEq] at h; exact ⟨h.symm, m, rfl⟩

theorem shrink_sound_aux (ops : OpSem) (hops : OpsCore ops) (fns : List FnDef) (pat : Rich) (args : Val)
    (H : IfHyp ops fns pat args) : ∀ k : Nat,
    (∀ e e' n v, thmFrag fns e = true → exprOk e' = true → shrink ops fns k .nil [] e = .ok e' →
       evalCore ops fns n pat args e = .ok v → evalCore ops fns n pat args e' = .ok v) ∧
    (∀ as as' n vs, thmFrags fns as = true → exprsOk (ofList as') = true →
       shrinkArgs ops fns k .nil [] as = .ok as' →
       evalArgs ops fns n pat args as = .ok vs → evalArgs ops fns n pat args (ofList as') = .ok vs) := by
  intro k
  induction k with
  | zero =>
    constructor
    · intro e e' n v _ _ h; simp [shrink] at h
    · intro as as' n vs _ _ h; simp [shrinkArgs] at h
  | succ k ih =>
    obtain ⟨ihE, ihA⟩ := ih
    constructor
    · intro e e' n v hf hok' hs he
      cases e with
      | var x =>
        simp only [shrink, lookup] at hs
        split at hs
        · cases hs
        · split at hs
          · cases hs
          · injection hs with hs; subst hs; exact he
      | lit c =>
        simp only [shrink] at hs
        injection hs with hs; subst hs; exact he
      | call f as => simp [thmFrag] at hf
      | op code as =>
        simp only [thmFrag, Bool.and_eq_true] at hf
        obtain ⟨hcode, hfas⟩ := hf
        simp only [shrink] at hs
        cases hsa : shrinkArgs ops fns k .nil [] as with
        | fail => rw [hsa] at hs; cases hs
        | depth => rw [hsa] at hs; cases hs
        | unsup => rw [hsa] at hs; cases hs
        | ok as' =>
          rw [hsa] at hs
          cases n with
          | zero => simp [evalCore] at he
          | succ n =>
            simp only [evalCore] at he
            cases hea : evalArgs ops fns n pat args as with
            | error er => rw [hea] at he; cases he
            | ok vs =>
              rw [hea] at he
              simp only at hs he
              rcases finishOp_ok_cases hs with ⟨cs, hcs, hrun⟩ | ⟨_, rfl⟩
              · obtain ⟨r, rfl, hr⟩ := runPrim_sound ops code hcode cs e' hrun
                -- the shrunk arguments are all constants: they evaluate to themselves
                have hok2 : ∀ (l : List Expr) (cs : List Val), allLits l = some cs → exprsOk (ofList l) = true := by
                  intro l
                  induction l with
                  | nil => intro _ _; rfl
                  | cons a r' ih2 =>
                    intro cs hcs
                    obtain ⟨v0, cs', rfl, h1, _⟩ := allLits_cons hcs
                    simp only [ofList, exprsOk, exprOk, Bool.true_and]
                    exact ih2 cs' h1
                have h2 := ihA as as' n vs hfas (hok2 as' cs hcs) hsa hea
                have h3 := evalArgs_lits ops fns pat args as' cs n vs hcs h2
                rw [h3, hr] at he
                injection he with he
                subst he
                simp [evalCore]
              · simp only [exprOk, Bool.and_eq_true] at hok'
                have h2 := ihA as as' n vs hfas hok'.2 hsa hea
                simp only [evalCore, h2]
                exact he
      | ite c a b =>
        simp only [thmFrag, Bool.and_eq_true] at hf
        obtain ⟨⟨⟨⟨hfc, hca⟩, hcb⟩, hwa⟩, hwb⟩ := hf
        cases k with
        | zero => simp [shrink, synthArgs] at hs
        | succ k' =>
          simp only [shrink, synthArgs] at hs
          cases hcb' : comCode fns .nil b with
          | none => rw [hcb'] at hs; simp at hs
          | some cb =>
            cases hca' : comCode fns .nil a with
            | none => rw [hcb', hca'] at hs; simp at hs
            | some ca =>
              rw [hcb', hca'] at hs
              simp only at hs
              cases hsc : shrink ops fns (k'+1) .nil [] c with
              | fail => rw [hsc] at hs; cases hs
              | depth => rw [hsc] at hs; cases hs
              | unsup => rw [hsc] at hs; cases hs
              | ok c' =>
                rw [hsc] at hs
                simp only at hs
                cases n with
                | zero => simp [evalCore] at he
                | succ n =>
                  simp only [evalCore] at he
                  cases hec : evalCore ops fns n pat args c with
                  | error er => rw [hec] at he; cases he
                  | ok cv0 =>
                    rw [hec] at he
                    simp only at he
                    cases c' with
                    | lit cv =>
                      have hc2 := ihE c (.lit cv) n cv0 hfc rfl hsc hec
                      obtain ⟨hcv, m, hm⟩ := evalCore_lit_inv hc2
                      subst hcv
                      cases hx : finishOp ops 3 [.lit cv0, .lit ca, .lit cb] with
                      | fail => rw [hx] at hs; cases hs
                      | depth => rw [hx] at hs; cases hs
                      | unsup => rw [hx] at hs; cases hs
                      | ok x =>
                        rw [hx] at hs
                        simp only at hs
                        simp only [finishOp, allLits, Option.map_some] at hx
                        have hx' : runPrim ops 3 [cv0, ca, cb] = .ok x := by simpa using hx
                        obtain ⟨vx, rfl, hvx⟩ := runPrim_sound ops 3 (by decide) _ x hx'
                        have hif := hops.opIf cv0 ca cb
                        simp only [listVal] at hvx
                        have hvx2 : vx = (if Val.nilp cv0 then cb else ca) := by
                          have : (Except.ok vx : Res) = .ok (if Val.nilp cv0 then cb else ca) := by
                            rw [← hvx]; exact hif
                          injection this
                        simp only [finishOp, allLits, Option.map_some] at hs
                        have hs' : runPrim ops 2 [vx, Val.nil] = .ok e' := by simpa using hs
                        obtain ⟨r, rfl, hr⟩ := runPrim_apply ops vx Val.nil e' hs'
                        have hev : Evaluates ops vx Val.nil v := by
                          rw [hvx2]
                          by_cases hn : Val.nilp cv0 = true
                          · rw [if_pos hn] at he ⊢
                            exact H b cb n v hcb hwb hcb' he
                          · rw [if_neg hn] at he ⊢
                            exact H a ca n v hca hwa hca' he
                        have : r = v := evaluates_unique hr hev
                        subst this
                        subst hm
                        simp [evalCore]
                    | var x => simp [finishOp, allLits, firstIsLit, ofList] at hs; subst hs; simp [exprOk, opOk, sn2] at hok'
                    | op c2 as2 => simp [finishOp, allLits, firstIsLit, ofList] at hs; subst hs; simp [exprOk, opOk, sn2] at hok'
                    | ite c2 a2 b2 => simp [finishOp, allLits, firstIsLit, ofList] at hs; subst hs; simp [exprOk, opOk, sn2] at hok'
                    | call f2 as2 => simp [finishOp, allLits, firstIsLit, ofList] at hs; subst hs; simp [exprOk, opOk, sn2] at hok'
    · intro as as' n vs hf hok' hs he
      cases as with
      | nil =>
        simp only [shrinkArgs] at hs
        injection hs with hs; subst hs; exact he
      | cons e r =>
        simp only [thmFrags, Bool.and_eq_true] at hf
        simp only [shrinkArgs] at hs
        cases hsr : shrinkArgs ops fns k .nil [] r with
        | fail => rw [hsr] at hs; cases hs
        | depth => rw [hsr] at hs; cases hs
        | unsup => rw [hsr] at hs; cases hs
        | ok r' =>
          rw [hsr] at hs
          simp only at hs
          cases hse : shrink ops fns k .nil [] e with
          | fail => rw [hse] at hs; cases hs
          | depth => rw [hse] at hs; cases hs
          | unsup => rw [hse] at hs; cases hs
          | ok e1 =>
            rw [hse] at hs
            injection hs with hs; subst hs
            simp only [ofList, exprsOk, Bool.and_eq_true] at hok'
            cases n with
            | zero => simp [evalArgs] at he
            | succ n =>
              simp only [evalArgs] at he
              cases hee : evalCore ops fns n pat args e with
              | error er => rw [hee] at he; cases he
              | ok v1 =>
                rw [hee] at he
                cases her : evalArgs ops fns n pat args r with
                | error er => rw [her] at he; cases he
                | ok vr =>
                  rw [her] at he
                  simp only [ofList, evalArgs, ihE e e1 n v1 hf.1 hok'.1 hse hee, ihA r r' n vr hf.2 hok'.2 hsr her]
                  exact he

end Shrink

namespace Shrink
open Core Clvm

mutual
theorem quoteFree_closed (pat : Rich) : ∀ e : Expr, closedE e = true → quoteFree pat e = e
  | .var _, h => by simp [closedE] at h
  | .lit _, _ => by simp [quoteFree]
  | .op c as, h => by
    simp only [closedE] at h
    simp only [quoteFree, quoteFrees_closed pat as h]
  | .ite c a b, h => by
    simp only [closedE, Bool.and_eq_true] at h
    simp only [quoteFree, quoteFree_closed pat c h.1.1, quoteFree_closed pat a h.1.2,
      quoteFree_closed pat b h.2]
  | .call f as, h => by
    simp only [closedE] at h
    simp only [quoteFree, quoteFrees_closed pat as h]
theorem quoteFrees_closed (pat : Rich) : ∀ as : Exprs, closedEs as = true → quoteFrees pat as = as
  | .nil, _ => by simp [quoteFrees]
  | .cons e r, h => by
    simp only [closedEs, Bool.and_eq_true] at h
    simp only [quoteFrees, quoteFree_closed pat e h.1, quoteFrees_closed pat r h.2]
end

theorem findFn_isSome_of_mem (f : Bytes) : ∀ (L : List FnDef) (fd : FnDef), fd ∈ L → fd.name = f →
    ∃ fd', findFn f L = some fd'
  | [], fd, h, _ => by cases h
  | g :: r, fd, h, hn => by
    by_cases hg : g.name = f
    · exact ⟨g, by simp [findFn, hg]⟩
    · rcases List.mem_cons.mp h with rfl | h'
      · exact absurd hn hg
      · obtain ⟨fd', h2⟩ := findFn_isSome_of_mem f r fd h' hn
        exact ⟨fd', by simp [findFn, hg, h2]⟩

theorem findFn_reverse (L : List FnDef) (hnd : (L.map (·.name)).Nodup) (f : Bytes) :
    findFn f L.reverse = findFn f L := by
  cases h : findFn f L with
  | some fd =>
    obtain ⟨hm, hn⟩ := findFn_mem f L fd h
    obtain ⟨fd', h'⟩ := findFn_isSome_of_mem f L.reverse fd (List.mem_reverse.mpr hm) hn
    obtain ⟨hm', hn'⟩ := findFn_mem f L.reverse fd' h'
    have : fd' = fd := name_unique L hnd fd' fd (List.mem_reverse.mp hm') hm (hn'.trans hn.symm)
    rw [h', this]
  | none =>
    cases h' : findFn f L.reverse with
    | none => rfl
    | some fd' =>
      obtain ⟨hm', hn'⟩ := findFn_mem f L.reverse fd' h'
      obtain ⟨fd2, h2⟩ := findFn_isSome_of_mem f L fd' (List.mem_reverse.mp hm') hn'
      rw [h] at h2; cases h2

theorem evalCore_congr_fns (ops : OpSem) (F F' : List FnDef) (hF : ∀ f, findFn f F = findFn f F') :
    ∀ n : Nat, (∀ pat args e, evalCore ops F n pat args e = evalCore ops F' n pat args e) ∧
               (∀ pat args as, evalArgs ops F n pat args as = evalArgs ops F' n pat args as) := by
  intro n
  induction n with
  | zero => exact ⟨fun _ _ _ => by simp [evalCore], fun _ _ _ => by simp [evalArgs]⟩
  | succ n ih =>
    obtain ⟨ihE, ihA⟩ := ih
    constructor
    · intro pat args e
      cases e with
      | var x => simp [evalCore]
      | lit c => simp [evalCore]
      | op code as => simp only [evalCore, ihA]
      | ite c a b => simp only [evalCore, ihE]
      | call f as => simp only [evalCore, ihA, ihE, hF]
    · intro pat args as
      cases as with
      | nil => simp [evalArgs]
      | cons e r => simp only [evalArgs, ihE, ihA]

theorem evalCore_closed (ops : OpSem) (F : List FnDef) (pat pat' : Rich) (args args' : Val) :
    ∀ n : Nat, (∀ e, closedE e = true → evalCore ops F n pat args e = evalCore ops F n pat' args' e) ∧
               (∀ as, closedEs as = true → evalArgs ops F n pat args as = evalArgs ops F n pat' args' as) := by
  intro n
  induction n with
  | zero => exact ⟨fun _ _ => by simp [evalCore], fun _ _ => by simp [evalArgs]⟩
  | succ n ih =>
    obtain ⟨ihE, ihA⟩ := ih
    constructor
    · intro e h
      cases e with
      | var x => simp [closedE] at h
      | lit c => simp [evalCore]
      | op code as => simp only [closedE] at h; simp only [evalCore, ihA as h]
      | ite c a b =>
        simp only [closedE, Bool.and_eq_true] at h
        simp only [evalCore, ihE c h.1.1, ihE a h.1.2, ihE b h.2]
      | call f as => simp only [closedE] at h; simp only [evalCore, ihA as h]
    · intro as h
      cases as with
      | nil => simp [evalArgs]
      | cons e r =>
        simp only [closedEs, Bool.and_eq_true] at h
        simp only [evalArgs, ihE e h.1, ihA r h.2]

/-- the compile step of the `if` handling, from the compiler theorem (C01 Layer B). -/
theorem ifHyp_of_wf (ops : OpSem) (hops : OpsCore ops) (fns : List FnDef) (pat : Rich) (args : Val) :
    IfHyp ops fns pat args := by
  intro a code n v hcl hwf hc he
  have hc' : compileCore (branchProg fns a) = some code := by
    simpa [comCode, quoteFree_closed .nil a hcl, branchProg] using hc
  have hnd : ((fns.reverse).map (·.name)).Nodup := by
    have h := hwf
    simp only [progWF, fnsWF, Bool.and_eq_true, branchProg] at h
    exact nodupB_sound _ h.1.1.1.1.1.1
  have hF : ∀ f, findFn f fns = findFn f fns.reverse := fun f => by
    have := findFn_reverse fns.reverse hnd f
    rw [List.reverse_reverse] at this; exact this
  have h1 : evalCore ops fns n .nil Val.nil a = .ok v :=
    ((evalCore_closed ops fns pat .nil args Val.nil n).1 a hcl).symm.trans he
  have h2 : evalCore ops fns.reverse n .nil Val.nil a = .ok v := by
    rw [← (evalCore_congr_fns ops fns fns.reverse hF n).1]; exact h1
  exact compileCore_correct ops hops (branchProg fns a) hwf code hc' n Val.nil v h2

end Shrink
