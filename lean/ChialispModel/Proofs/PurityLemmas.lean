/-
  Proofs/PurityLemmas.lean — lemmas behind Props/C05.lean:
  permutation invariance of every consumer class, and the guard discipline
  (`exec` = `static`: what code observes depends only on the mode at entry; the world is restored).
-/
import ChialispModel.Sys.Purity

namespace PurityLemmas
open Purity List

/-! ### consumers -/

theorem insertSet_comm {α} [BEq α] (s : SetOf α) (x y : α) :
    insertSet (insertSet s x) y = insertSet (insertSet s y) x := by
  funext z
  simp only [insertSet]
  cases (z == x) <;> cases (z == y) <;> simp

theorem insertAll_perm {α} [BEq α] (init : SetOf α) {l₁ l₂ : List α} (h : l₁.Perm l₂) :
    insertAllSet init l₁ = insertAllSet init l₂ :=
  h.foldl_eq' (fun x _ y _ z => insertSet_comm z x y) init

/-- the inserted set is what one expects: membership of the start set or of the list. -/
theorem insertAll_spec {α} [BEq α] (init : SetOf α) (l : List α) (y : α) :
    insertAllSet init l y = (l.any (fun x => y == x) || init y) := by
  unfold insertAllSet
  induction l generalizing init with
  | nil => simp
  | cons a l ih =>
    simp only [foldl_cons, any_cons]
    rw [ih]
    simp only [insertSet]
    cases (y == a) <;> cases (l.any fun x => y == x) <;> simp

theorem any_perm {α} (p : α → Bool) {l₁ l₂ : List α} (h : l₁.Perm l₂) : l₁.any p = l₂.any p := h.any_eq
theorem all_perm {α} (p : α → Bool) {l₁ l₂ : List α} (h : l₁.Perm l₂) : l₁.all p = l₂.all p := h.all_eq
theorem contains_perm {α} [BEq α] (a : α) {l₁ l₂ : List α} (h : l₁.Perm l₂) :
    l₁.contains a = l₂.contains a := h.contains_eq
theorem isEmpty_perm {α} {l₁ l₂ : List α} (h : l₁.Perm l₂) : l₁.isEmpty = l₂.isEmpty := by
  have := h.length_eq
  cases l₁ <;> cases l₂ <;> simp_all

theorem count_perm {α} {l₁ l₂ : List α} (h : l₁.Perm l₂) : l₁.length = l₂.length := h.length_eq

/-- sorting by a total preorder whose ties are equalities (a total order on the elements that
    occur, e.g. distinct keys compared bytewise) forgets the input order. -/
theorem sortThenUse_perm {α} (le : α → α → Bool)
    (trans : ∀ a b c, le a b = true → le b c = true → le a c = true)
    (total : ∀ a b, (le a b || le b a) = true)
    (antisymm : ∀ a b, le a b = true → le b a = true → a = b)
    {l₁ l₂ : List α} (h : l₁.Perm l₂) : sortThenUse le l₁ = sortThenUse le l₂ := by
  unfold sortThenUse
  apply Perm.eq_of_pairwise (le := fun a b => le a b = true)
  · intro a b _ _ hab hba; exact antisymm a b hab hba
  · exact pairwise_mergeSort trans total l₁
  · exact pairwise_mergeSort trans total l₂
  · exact (mergeSort_perm l₁ le).trans (h.trans (mergeSort_perm l₂ le).symm)

theorem union_perm {α} [BEq α] {a₁ a₂ b₁ b₂ : List α} (ha : a₁.Perm a₂) (hb : b₁.Perm b₂) :
    unionSet a₁ b₁ = unionSet a₂ b₂ := by
  funext x; simp only [unionSet, ha.contains_eq, hb.contains_eq]
theorem inter_perm {α} [BEq α] {a₁ a₂ b₁ b₂ : List α} (ha : a₁.Perm a₂) (hb : b₁.Perm b₂) :
    interSet a₁ b₁ = interSet a₂ b₂ := by
  funext x; simp only [interSet, ha.contains_eq, hb.contains_eq]
theorem diff_perm {α} [BEq α] {a₁ a₂ b₁ b₂ : List α} (ha : a₁.Perm a₂) (hb : b₁.Perm b₂) :
    diffSet a₁ b₁ = diffSet a₂ b₂ := by
  funext x; simp only [diffSet, ha.contains_eq, hb.contains_eq]

theorem inj_of_nodup_map {α β} (f : α → β) : ∀ (l : List α), (l.map f).Nodup →
    ∀ a ∈ l, ∀ b ∈ l, f a = f b → a = b := by
  intro l
  induction l with
  | nil => intro _ a ha; cases ha
  | cons x l ih =>
    intro hn a ha b hb hab
    simp only [map_cons, nodup_cons, mem_map, not_exists, not_and] at hn
    rcases mem_cons.mp ha with rfl | ha' <;> rcases mem_cons.mp hb with rfl | hb'
    · rfl
    · exact absurd hab.symm (hn.1 b hb')
    · exact absurd hab (hn.1 a ha')
    · exact ih hn.2 a ha' b hb' hab

theorem insertMap_comm {κ ν} [BEq κ] [LawfulBEq κ] (m : MapOf κ ν) (p q : κ × ν) (h : p.1 ≠ q.1) :
    insertMap (insertMap m p) q = insertMap (insertMap m q) p := by
  funext k
  simp only [insertMap]
  by_cases h1 : k = q.1
  · subst h1
    have : (q.1 == p.1) = false := by
      apply beq_false_of_ne; exact fun e => h e.symm
    simp [this]
  · have : (k == q.1) = false := beq_false_of_ne h1
    simp [this]

/-- inserting pairs with pairwise distinct keys into a map gives the same map in any order. -/
theorem mapDistinctKeys_perm {κ ν} [BEq κ] [LawfulBEq κ] (init : MapOf κ ν) {l₁ l₂ : List (κ × ν)}
    (h : l₁.Perm l₂) (nodup : (l₁.map (·.1)).Nodup) :
    insertAllMap init l₁ = insertAllMap init l₂ := by
  unfold insertAllMap
  apply h.foldl_eq'
  intro x hx y hy z
  by_cases hxy : x = y
  · subst hxy; rfl
  · apply insertMap_comm
    intro hk
    apply hxy
    -- equal keys at two positions of a list whose keys are distinct: the same element
    exact inj_of_nodup_map (·.1) l₁ nodup x hx y hy hk

theorem maxBy_perm {α} (key : α → Nat) {l₁ l₂ : List α} (h : l₁.Perm l₂) : maxBy key l₁ = maxBy key l₂ := by
  unfold maxBy
  apply h.foldl_eq'
  intro x _ y _ z
  omega

theorem minBy_perm {α} (key : α → Nat) (d : Nat) {l₁ l₂ : List α} (h : l₁.Perm l₂) :
    minBy key d l₁ = minBy key d l₂ := by
  unfold minBy
  apply h.foldl_eq'
  intro x _ y _ z
  omega

/-- per-element updates that commute pairwise can be applied in any order. -/
theorem commutingUpdates_perm {σ α} (step : σ → α → σ)
    (comm : ∀ x y z, step (step z x) y = step (step z y) x) (init : σ) {l₁ l₂ : List α}
    (h : l₁.Perm l₂) : l₁.foldl step init = l₂.foldl step init :=
  h.foldl_eq' (fun x _ y _ z => comm x y z) init

/-! ### the guard discipline -/

theorem set_set_restore (w : World) (t : ThreadId) (b : Bool) (w' : World)
    (h : w'.mode = (w.set t b).mode) : (w'.set t (w.mode t)).mode = w.mode := by
  funext u
  simp only [World.set, h]
  by_cases hu : u = t
  · simp [hu]
  · simp [hu]

/-- running any code on thread `t` leaves every cell as it was, and its outcome and observations
    are those computed statically from the mode at entry. -/
theorem exec_eq_static (t : ThreadId) (c : Code) :
    ∀ w, (exec t c w).world.mode = w.mode ∧
         ((exec t c w).outcome, (exec t c w).seen) = static (w.mode t) c := by
  induction c with
  | skip => intro w; exact ⟨rfl, rfl⟩
  | stop o => intro w; exact ⟨rfl, rfl⟩
  | observe => intro w; exact ⟨rfl, rfl⟩
  | seq a b iha ihb =>
    intro w
    have ha := iha w
    simp only [exec, Ran.andThen, static]
    cases hr : exec t a w with
    | mk w1 o1 s1 =>
      rw [hr] at ha
      simp only at ha
      obtain ⟨hw1, hs1⟩ := ha
      rw [← hs1]
      cases o1 with
      | ok =>
        have hb := ihb w1
        cases hr2 : exec t b w1 with
        | mk w2 o2 s2 =>
          rw [hr2] at hb
          simp only at hb
          obtain ⟨hw2, hs2⟩ := hb
          have hm : w1.mode t = w.mode t := by rw [hw1]
          rw [hm] at hs2
          simp only
          rw [← hs2]
          exact ⟨by rw [hw2, hw1], rfl⟩
      | err => exact ⟨hw1, rfl⟩
      | early => exact ⟨hw1, rfl⟩
      | unwind => exact ⟨hw1, rfl⟩
  | guarded v body ih =>
    intro w
    have hb := ih (newGuard t v w).2
    simp only [exec, static]
    cases hr : exec t body (newGuard t v w).2 with
    | mk w' o s =>
      rw [hr] at hb
      simp only at hb
      obtain ⟨hw', hs⟩ := hb
      refine ⟨?_, ?_⟩
      · simp only [dropGuard, newGuard]
        exact set_set_restore w t v w' hw'
      · simp only
        rw [hs]
        simp [newGuard, World.set]

end PurityLemmas
