/-
  Proofs/LexLemmas.lean — arithmetic behind the ATOM level of C09: decimal printing and
  parsing are inverse (digits of a `Nat`), hex printing and both hex parsers are inverse, and the
  characters of printed numbers.
-/
import ChialispModel.Text.Lex

namespace Lex

/-- a decimal digit character -/
def IsDig (b : UInt8) : Prop := 48 ≤ b.toNat ∧ b.toNat ≤ 57

theorem digit_toNat {n : Nat} (h : n < 10) : (digit n).toNat = 48 + n := by
  unfold digit; simp; omega

theorem digit_isDig {n : Nat} (h : n < 10) : IsDig (digit n) := by
  unfold IsDig; rw [digit_toNat h]; omega

theorem natToDecAux_all_dig (fuel n : Nat) : ∀ b ∈ natToDecAux fuel n, IsDig b := by
  induction fuel generalizing n with
  | zero => simp [natToDecAux]
  | succ f ih =>
    intro b hb
    simp only [natToDecAux] at hb
    split at hb
    · rename_i h
      simp at hb; subst hb; exact digit_isDig h
    · simp only [List.mem_append, List.mem_singleton] at hb
      cases hb with
      | inl h => exact ih _ b h
      | inr h => subst h; exact digit_isDig (Nat.mod_lt _ (by omega))

theorem natToDecAux_ne_nil (fuel n : Nat) : natToDecAux (fuel + 1) n ≠ [] := by
  simp only [natToDecAux]
  split <;> simp

theorem natToDec_all_dig (n : Nat) : ∀ b ∈ natToDec n, IsDig b := natToDecAux_all_dig _ _

theorem natToDec_ne_nil (n : Nat) : natToDec n ≠ [] := natToDecAux_ne_nil _ _

/-- a printed natural number is a digit followed by digits -/
theorem natToDec_cons (n : Nat) : ∃ c r, natToDec n = c :: r ∧ IsDig c ∧ ∀ b ∈ r, IsDig b := by
  have h := natToDec_all_dig n
  have hne := natToDec_ne_nil n
  cases hs : natToDec n with
  | nil => exact absurd hs hne
  | cons c r =>
    rw [hs] at h
    exact ⟨c, r, rfl, h c (by simp), fun b hb => h b (by simp [hb])⟩

theorem digitVal10_of_dig {b : UInt8} (h : IsDig b) : digitVal10 b = some (b.toNat - 48) := by
  unfold digitVal10; exact if_pos h

theorem dig_ne {b : UInt8} (h : IsDig b) (k : UInt8) (hk : k.toNat < 48 ∨ 57 < k.toNat) : (b == k) = false := by
  rw [beq_eq_false_iff_ne]
  intro e; subst e
  unfold IsDig at h; omega

theorem parseUDigits_append (xs ys : Bytes) (acc : Nat) :
    parseUDigits (xs ++ ys) acc = (parseUDigits xs acc).bind (parseUDigits ys) := by
  induction xs generalizing acc with
  | nil => simp [parseUDigits]
  | cons x xs ih =>
    simp only [List.cons_append, parseUDigits]
    split
    · exact ih acc
    · split
      · exact ih _
      · simp

theorem parseUDigits_digit {n : Nat} (h : n < 10) (acc : Nat) :
    parseUDigits [digit n] acc = some (acc * 10 + n) := by
  have hd := digit_isDig h
  simp only [parseUDigits, dig_ne hd 95 (by decide), digitVal10_of_dig hd, digit_toNat h]
  simp

theorem parseUDigits_natToDecAux (fuel n : Nat) (h : n < fuel) :
    parseUDigits (natToDecAux fuel n) 0 = some n := by
  induction fuel generalizing n with
  | zero => omega
  | succ f ih =>
    simp only [natToDecAux]
    split
    · rename_i h10
      rw [parseUDigits_digit h10]; simp
    · rename_i h10
      rw [parseUDigits_append, ih (n / 10) (by omega)]
      simp only [Option.bind_some]
      rw [parseUDigits_digit (Nat.mod_lt _ (by omega))]
      congr 1; omega

theorem parseUDigits_natToDec (n : Nat) : parseUDigits (natToDec n) 0 = some n :=
  parseUDigits_natToDecAux _ _ (by omega)

theorem u8_eq_lit {b : UInt8} {k : Nat} (hk : k < 256) : b = UInt8.ofNat k ↔ b.toNat = k := by
  constructor
  · intro h; subst h; simp; omega
  · intro h; rw [← h]; simp

/-- `BigUint::from_str_radix` inverts decimal printing. -/
theorem parseBigUint_natToDec (n : Nat) : parseBigUint (natToDec n) = some n := by
  obtain ⟨c, r, hs, hc, _⟩ := natToDec_cons n
  have h := parseUDigits_natToDec n
  rw [hs] at h ⊢
  have h43 : c ≠ 43 := by intro e; subst e; unfold IsDig at hc; revert hc; decide
  have h95 : c ≠ 95 := by intro e; subst e; unfold IsDig at hc; revert hc; decide
  have hsp : stripPlus (c :: r) = c :: r := by
    unfold stripPlus
    split
    · rename_i heq; simp at heq; exact absurd heq.1 h43
    · rename_i heq; simp at heq; exact absurd heq.1 h43
    · rfl
  unfold parseBigUint
  rw [hsp]
  split
  · rename_i heq; simp at heq
  · rename_i heq; simp at heq; exact absurd heq.1 h95
  · rename_i heq
    simp only [List.cons.injEq] at heq
    obtain ⟨h1, h2⟩ := heq
    subst h1; subst h2; exact h

/-- `BigInt::from_str_radix(.., 10)` inverts `BigInt::to_string`. -/
theorem parseBigInt_intToDec (i : Int) : parseBigInt (intToDec i) = some i := by
  cases i with
  | ofNat n =>
    obtain ⟨c, r, hs, hc, _⟩ := natToDec_cons n
    have h := parseBigUint_natToDec n
    have h45 : c ≠ 45 := by intro e; subst e; unfold IsDig at hc; revert hc; decide
    simp only [intToDec]
    rw [hs] at h ⊢
    unfold parseBigInt
    split
    · rename_i heq; simp at heq; exact absurd heq.1 h45
    · rw [h]
  | negSucc n =>
    obtain ⟨c, r, hs, hc, _⟩ := natToDec_cons (n + 1)
    have h := parseBigUint_natToDec (n + 1)
    have h43 : c ≠ 43 := by intro e; subst e; unfold IsDig at hc; revert hc; decide
    simp only [intToDec]
    rw [hs] at h ⊢
    have ht : stripMinusTail (45 :: c :: r) (c :: r) = c :: r := by
      unfold stripMinusTail
      split
      · rename_i heq; simp at heq; exact absurd heq.1 h43
      · rfl
    simp only [parseBigInt, ht, h]
    rfl

/-- characters of a printed integer: digits or `-`. -/
def IsNumCh (b : UInt8) : Prop := IsDig b ∨ b = 45

theorem intToDec_chars (i : Int) : ∀ b ∈ intToDec i, IsNumCh b := by
  cases i with
  | ofNat n => intro b hb; exact Or.inl (natToDec_all_dig n b hb)
  | negSucc n =>
    intro b hb
    simp only [intToDec, List.mem_cons] at hb
    cases hb with
    | inl h => exact Or.inr h
    | inr h => exact Or.inl (natToDec_all_dig _ b h)

theorem intToDec_cons (i : Int) : ∃ c r, intToDec i = c :: r ∧ IsNumCh c ∧ ∀ b ∈ r, IsNumCh b := by
  have h := intToDec_chars i
  cases hs : intToDec i with
  | nil =>
    cases i with
    | ofNat n => exact absurd hs (natToDec_ne_nil n)
    | negSucc n => simp [intToDec] at hs
  | cons c r =>
    rw [hs] at h
    exact ⟨c, r, rfl, h c (by simp), fun b hb => h b (by simp [hb])⟩

-- hex ---------------------------------------------------------------------------------------

/-- a lower-case hex digit character -/
def IsHexCh (b : UInt8) : Prop := (48 ≤ b.toNat ∧ b.toNat ≤ 57) ∨ (97 ≤ b.toNat ∧ b.toNat ≤ 102)

theorem hexDigit_toNat {n : Nat} (h : n < 16) :
    (hexDigit n).toNat = if n < 10 then 48 + n else 87 + n := by
  unfold hexDigit
  split <;> (simp; omega)

theorem hexDigit_isHexCh {n : Nat} (h : n < 16) : IsHexCh (hexDigit n) := by
  unfold IsHexCh; rw [hexDigit_toNat h]; split <;> omega

theorem hexVal_hexDigit {n : Nat} (h : n < 16) : hexVal (hexDigit n) = some n := by
  unfold hexVal
  rw [hexDigit_toNat h]
  split
  · rename_i h10
    rw [if_pos (by omega)]; congr 1; omega
  · rename_i h10
    rw [if_neg (by omega), if_pos (by omega)]; congr 1; omega

theorem byte_recompose (b : UInt8) : UInt8.ofNat (b.toNat / 16 * 16 + b.toNat % 16) = b := by
  have : b.toNat / 16 * 16 + b.toNat % 16 = b.toNat := by omega
  rw [this]; simp

theorem ofHexStrict_toHex (b : Bytes) : ofHexStrict (toHex b) = some b := by
  induction b with
  | nil => rfl
  | cons x xs ih =>
    have hx := x.toNat_lt
    simp only [toHex, ofHexStrict, hexVal_hexDigit (show x.toNat / 16 < 16 by omega),
      hexVal_hexDigit (show x.toNat % 16 < 16 by omega), ih, byte_recompose]

theorem ofHexLossy_toHex (b : Bytes) : ofHexLossy false (toHex b) = b := by
  induction b with
  | nil => rfl
  | cons x xs ih =>
    have hx := x.toNat_lt
    simp only [toHex, ofHexLossy, hexVal_hexDigit (show x.toNat / 16 < 16 by omega),
      hexVal_hexDigit (show x.toNat % 16 < 16 by omega), ih, byte_recompose]

theorem toHex_length (b : Bytes) : (toHex b).length = 2 * b.length := by
  induction b with
  | nil => rfl
  | cons x xs ih => simp only [toHex, List.length_cons, ih]; omega

theorem toHex_chars (b : Bytes) : ∀ c ∈ toHex b, IsHexCh c := by
  induction b with
  | nil => simp [toHex]
  | cons x xs ih =>
    have hx := x.toNat_lt
    intro c hc
    simp only [toHex, List.mem_cons] at hc
    rcases hc with h | h | h
    · subst h; exact hexDigit_isHexCh (by omega)
    · subst h; exact hexDigit_isHexCh (by omega)
    · exact ih c h

end Lex
