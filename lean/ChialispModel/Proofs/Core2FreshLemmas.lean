/-
  Proofs/Core2FreshLemmas.lean — C05: the emitted code of the core2 compiler model contains paths
  only, never names: `compileNS` is invariant under every injective renaming of the names of a program
  (`compileNS_mapProg`).  Used by Props/C05.lean for the independence of the fresh-name counter.
-/
import ChialispModel.Lang.Core2Fresh
import ChialispModel.Proofs.Core2Pat

namespace Core2
open Lang

/-- an injective renaming of names that keeps `@` and the empty name. -/
structure NameInj (σ : Bytes → Bytes) : Prop where
  inj : ∀ a b, σ a = σ b → a = b
  at_ : σ [64] = [64]
  nil_ : σ [] = []

def mapPat (σ : Bytes → Bytes) : Rich → Rich
  | .atom a => .atom (σ a)
  | .cons a d => .cons (mapPat σ a) (mapPat σ d)
  | .nil => .nil
  | .int i => .int i
  | .qstr q b => .qstr q b

mutual
def mapE (σ : Bytes → Bytes) : Expr → Expr
  | .var x => .var (σ x)
  | .lit v => .lit v
  | .argsv => .argsv
  | .op code as => .op code (mapEs σ as)
  | .ite c a b => .ite (mapE σ c) (mapE σ a) (mapE σ b)
  | .call f as => .call (σ f) (mapEs σ as)
  | .letE names es body => .letE (names.map σ) (mapEs σ es) (mapE σ body)
def mapEs (σ : Bytes → Bytes) : Exprs → Exprs
  | .nil => .nil
  | .cons e r => .cons (mapE σ e) (mapEs σ r)
end

def mapFn (σ : Bytes → Bytes) (f : FnDef) : FnDef :=
  { name := σ f.name, params := mapPat σ f.params, body := mapE σ f.body, inline := f.inline }

def mapProg (σ : Bytes → Bytes) (P : Prog) : Prog :=
  { params := mapPat σ P.params, fns := P.fns.map (mapFn σ), body := mapE σ P.body }

/-- patterns without integer / quoted-string leaves. -/
def atomsOnly : Rich → Bool
  | .nil => true
  | .atom _ => true
  | .cons a d => atomsOnly a && atomsOnly d
  | _ => false

variable {σ : Bytes → Bytes}

theorem NameInj.beq (h : NameInj σ) (a b : Bytes) : (σ a == σ b) = (a == b) := by
  rw [Bool.eq_iff_iff]
  simp only [beq_iff_eq]
  exact ⟨h.inj a b, fun e => by rw [e]⟩

theorem NameInj.eq_at (h : NameInj σ) (a : Bytes) : σ a = [64] ↔ a = [64] := by
  constructor
  · intro e; exact h.inj a [64] (by rw [e, h.at_])
  · intro e; rw [e, h.at_]

theorem NameInj.isEmpty (h : NameInj σ) (a : Bytes) : (σ a).isEmpty = a.isEmpty := by
  by_cases ha : a = []
  · subst ha; rw [h.nil_]
  · have : σ a ≠ [] := fun e => ha (h.inj a [] (by rw [e, h.nil_]))
    cases a with
    | nil => exact absurd rfl ha
    | cons x r =>
      cases hs : σ (x :: r) with
      | nil => exact absurd hs this
      | cons y s => rfl

theorem mapPat_eq_nil (p : Rich) : mapPat σ p = .nil ↔ p = .nil := by
  cases p <;> simp [mapPat]

/-- the mapped pair is a capture `(@ cap sub)` exactly when the pair is. -/
theorem mapPat_hne (h : NameInj σ) (a d : Rich)
    (hne : ∀ (cap : Bytes) (sub : Rich), a = Rich.atom [64] → d = (Rich.atom cap).cons (sub.cons Rich.nil) → False) :
    ∀ (cap : Bytes) (sub : Rich), mapPat σ a = Rich.atom [64] → mapPat σ d = (Rich.atom cap).cons (sub.cons Rich.nil) → False := by
  intro cap sub ha hd
  cases a with
  | atom x =>
    simp only [mapPat, Rich.atom.injEq] at ha
    have hx := (h.eq_at x).1 ha
    subst hx
    cases d with
    | cons d1 d2 =>
      cases d1 with
      | atom c =>
        cases d2 with
        | cons s t =>
          cases t with
          | nil => exact hne c s rfl rfl
          | _ => simp [mapPat] at hd
        | _ => simp [mapPat] at hd
      | _ => simp [mapPat] at hd
    | _ => simp [mapPat] at hd
  | _ => simp [mapPat] at ha

theorem nameLookup_map (h : NameInj σ) (n : Bytes) : ∀ pat : Rich, atomsOnly pat = true →
    nameLookup (σ n) (mapPat σ pat) = nameLookup n pat := by
  intro pat
  fun_induction nameLookup n pat with
  | case1 a hp => intro _; simp [mapPat, nameLookup, h.beq, hp]
  | case2 a hp => intro _; simp [mapPat, nameLookup, h.beq, hp]
  | case3 i hp => intro ha; simp [atomsOnly] at ha
  | case4 i hp => intro ha; simp [atomsOnly] at ha
  | case5 cap sub hc => intro _; simp [mapPat, nameLookup, h.at_, h.beq, hc]
  | case6 cap sub hc ih =>
    intro ha
    simp only [atomsOnly, Bool.and_eq_true, Bool.and_true] at ha
    simp [mapPat, nameLookup, h.at_, h.beq, hc, ih ha.2.2]
  | case7 hd rt hne v hv ih =>
    intro ha
    simp only [atomsOnly, Bool.and_eq_true] at ha
    simp only [mapPat]
    rw [nameLookup_cons _ _ _ (mapPat_hne h hd rt hne), ih ha.1, hv]
  | case8 hd rt hne hn v hv ih2 ih1 =>
    intro ha
    simp only [atomsOnly, Bool.and_eq_true] at ha
    simp only [mapPat]
    rw [nameLookup_cons _ _ _ (mapPat_hne h hd rt hne), ih2 ha.1, ih1 ha.2, hn, hv]
  | case9 hd rt hne hn hv ih2 ih1 =>
    intro ha
    simp only [atomsOnly, Bool.and_eq_true] at ha
    simp only [mapPat]
    rw [nameLookup_cons _ _ _ (mapPat_hne h hd rt hne), ih2 ha.1, ih1 ha.2, hn, hv]
  | case10 t h1 h2 h3 h4 =>
    intro ha
    cases t with
    | atom a => exact absurd rfl (h1 a)
    | cons a d => exact absurd rfl (h4 a d)
    | int i => simp [atomsOnly] at ha
    | qstr q b => simp [atomsOnly] at ha
    | nil => simp [mapPat, nameLookup]

theorem pick_map (h : NameInj σ) (n : Bytes) : ∀ (pat : Rich) (cur : Expr),
    pick (σ n) (mapPat σ pat) (mapE σ cur) = (pick n pat cur).map (mapE σ) := by
  intro pat cur
  fun_induction pick n pat cur with
  | case1 cap sub cur hc => simp [mapPat, pick, h.at_, h.beq, hc]
  | case2 cap sub cur hc ih => simp [mapPat, pick, h.at_, h.beq, hc, ih]
  | case3 a d cur hne x hx ih =>
    simp only [mapPat]
    rw [pick_cons _ _ _ _ (mapPat_hne h a d hne)]
    simp only [mapE, mapEs] at ih
    rw [ih, hx]; rfl
  | case4 a d cur hne hx ih2 ih1 =>
    simp only [mapPat]
    rw [pick_cons _ _ _ _ (mapPat_hne h a d hne)]
    simp only [mapE, mapEs] at ih1 ih2
    rw [ih2, hx, ih1]; rfl
  | case5 a cur hc => simp [mapPat, pick, h.beq, hc]
  | case6 a cur hc => simp [mapPat, pick, h.beq, hc]
  | case7 t cur h1 h2 h3 =>
    cases t with
    | atom a => exact absurd rfl (h3 a)
    | cons a d => exact absurd rfl (h2 a d)
    | _ => simp [mapPat, pick]

theorem enlist_map : ∀ as : Exprs, enlist (mapEs σ as) = mapE σ (enlist as)
  | .nil => by simp [enlist, mapEs, mapE]
  | .cons a r => by simp [enlist, mapEs, mapE, enlist_map r]

theorem argLookup_map (h : NameInj σ) (n : Bytes) : ∀ (pat : Rich) (as : Exprs),
    argLookup (σ n) (mapPat σ pat) (mapEs σ as) = (argLookup n pat as).map (Option.map (mapE σ)) := by
  intro pat as
  fun_induction argLookup n pat as with
  | case1 f r a rest x hx =>
    simp only [mapPat, mapEs, argLookup]
    rw [pick_map h, hx]; rfl
  | case2 f r a rest hx ih =>
    simp only [mapPat, mapEs, argLookup]
    rw [pick_map h, hx]; simp only [Option.map_none]; exact ih
  | case3 a d => simp [mapPat, mapEs, argLookup]
  | case4 t as h1 h2 =>
    have hp := pick_map h n t (enlist as)
    have ht : argLookup (σ n) (mapPat σ t) (mapEs σ as) = some (pick (σ n) (mapPat σ t) (enlist (mapEs σ as))) := by
      cases t with
      | cons a d =>
        cases as with
        | nil => exact absurd rfl (h2 a d rfl)
        | cons e r => exact absurd rfl (h1 a d e r rfl)
      | _ => simp [mapPat, argLookup]
    rw [ht, enlist_map, hp]; rfl

def mapCtx (σ : Bytes → Bytes) : Ctx → Ctx
  | .top => .top
  | .inl as => .inl (mapEs σ as)

theorem substVar_map (h : NameInj σ) (pat : Rich) (ctx : Ctx) (n : Bytes) :
    substVar (mapPat σ pat) (mapCtx σ ctx) (σ n) = (substVar pat ctx n).map (mapE σ) := by
  cases ctx with
  | top => simp [substVar, mapCtx, mapE]
  | inl as =>
    simp only [substVar, mapCtx]
    rw [argLookup_map h]
    cases argLookup n pat as with
    | none => rfl
    | some o => cases o <;> simp [mapE]

theorem letEnv_map (h : NameInj σ) (pat0 : Rich) (ctx : Ctx) : ∀ pat : Rich,
    letEnv (mapPat σ pat0) (mapCtx σ ctx) (mapPat σ pat) = (letEnv pat0 ctx pat).map (mapE σ) := by
  intro pat
  fun_induction letEnv pat0 ctx pat with
  | case1 cap a => simp only [mapPat, h.at_, letEnv]; exact substVar_map h pat0 ctx cap
  | case2 a d hne x y hy hx ih2 ih1 =>
    simp only [mapPat]
    rw [letEnv_cons _ _ _ _ (mapPat_hne h a d hne), ih2, ih1, hx, hy]; rfl
  | case3 a d hne hno ih2 ih1 =>
    simp only [mapPat]
    rw [letEnv_cons _ _ _ _ (mapPat_hne h a d hne), ih2, ih1]
    cases hx : letEnv pat0 ctx a with
    | none => rfl
    | some x =>
      cases hy : letEnv pat0 ctx d with
      | none => rfl
      | some y => exact absurd hy (fun e => hno x y hx e)
  | case4 n hn => simp [mapPat, letEnv, h.isEmpty, hn, mapE]
  | case5 n hn => simp only [mapPat, letEnv, h.isEmpty, hn]; exact substVar_map h pat0 ctx n
  | case6 => simp [mapPat, letEnv, mapE]
  | case7 t h1 h2 h3 h4 =>
    cases t with
    | atom a => exact absurd rfl (h3 a)
    | cons a d => exact absurd rfl (h2 a d)
    | nil => exact absurd rfl h4
    | _ => simp [mapPat, letEnv]

theorem envExpr_map (h : NameInj σ) (pat : Rich) (ctx : Ctx) :
    envExpr (mapPat σ pat) (mapCtx σ ctx) = (envExpr pat ctx).map (mapE σ) := by
  cases ctx with
  | top => simp [envExpr, mapCtx, mapE]
  | inl as => simp only [envExpr, mapCtx]; exact letEnv_map h pat (.inl as) pat

theorem namesPat_map : ∀ names : List Bytes, namesPat (names.map σ) = mapPat σ (namesPat names)
  | [] => by simp [namesPat, mapPat]
  | n :: r => by simp [namesPat, mapPat, namesPat_map r]

theorem findFn_map (h : NameInj σ) (f : Bytes) : ∀ fns : List FnDef,
    findFn (σ f) (fns.map (mapFn σ)) = (findFn f fns).map (mapFn σ)
  | [] => by simp [findFn]
  | g :: r => by
    simp only [List.map_cons, findFn, mapFn, h.beq]
    by_cases hg : (g.name == f) = true
    · simp [hg, mapFn]
    · simp only [hg]; exact findFn_map h f r

theorem expand_map (h : NameInj σ) (fns : List FnDef) : ∀ (k : Nat),
    (∀ (pat : Rich) (ctx : Ctx) (e : Expr),
      expand (fns.map (mapFn σ)) k (mapPat σ pat) (mapCtx σ ctx) (mapE σ e) = (expand fns k pat ctx e).map (mapE σ)) ∧
    (∀ (pat : Rich) (ctx : Ctx) (es : Exprs),
      expandArgs (fns.map (mapFn σ)) k (mapPat σ pat) (mapCtx σ ctx) (mapEs σ es) = (expandArgs fns k pat ctx es).map (mapEs σ)) := by
  intro k
  induction k with
  | zero => exact ⟨fun _ _ _ => by simp [expand], fun _ _ _ => by simp [expandArgs]⟩
  | succ k ih =>
    obtain ⟨ihE, ihA⟩ := ih
    refine ⟨?_, ?_⟩
    · intro pat ctx e
      cases e with
      | var n => simp only [mapE, expand]; exact substVar_map h pat ctx n
      | lit v => simp [mapE, expand]
      | argsv => cases ctx <;> simp [mapE, expand, mapCtx]
      | op code as =>
        simp only [mapE, expand, ihA]
        cases expandArgs fns k pat ctx as <;> simp [mapE]
      | ite c a b =>
        simp only [mapE, expand, ihE]
        cases expand fns k pat ctx c <;> cases expand fns k pat ctx a <;> cases expand fns k pat ctx b <;> simp [mapE]
      | call f as =>
        simp only [mapE, expand, findFn_map h, ihA]
        cases hf : findFn f fns with
        | none => simp
        | some fd =>
          simp only [Option.map_some]
          cases expandArgs fns k pat ctx as with
          | none => simp
          | some as' =>
            simp only [Option.map_some]
            by_cases hi : fd.inline = true
            · have := ihE fd.params (.inl as') fd.body
              simp only [mapCtx] at this
              simp [mapFn, hi, this]
            · simp [mapFn, hi, mapE]
      | letE names es body =>
        simp only [mapE, expand, ihA, envExpr_map h]
        cases expandArgs fns k pat ctx es with
        | none => simp
        | some es' =>
          cases envExpr pat ctx with
          | none => simp
          | some envE =>
            simp only [Option.map_some]
            have := ihE (.cons pat (namesPat names)) (.inl (.cons envE es')) body
            simp only [mapCtx, mapPat, mapEs] at this
            rw [namesPat_map]; exact this
    · intro pat ctx es
      cases es with
      | nil => simp [mapEs, expandArgs]
      | cons e r =>
        simp only [mapEs, expandArgs, ihE, ihA]
        cases expand fns k pat ctx e <;> cases expandArgs fns k pat ctx r <;> simp [mapEs]

mutual
theorem compileE_map (h : NameInj σ) (env : Rich) (henv : atomsOnly env = true) :
    ∀ e : Expr, compileE (mapPat σ env) (mapE σ e) = compileE env e
  | .var n => by simp [mapE, compileE, nameLookup_map h n env henv]
  | .lit v => by simp [mapE, compileE]
  | .argsv => by simp [mapE, compileE]
  | .op code as => by simp [mapE, compileE, compileArgs_map h env henv as]
  | .ite c a b => by simp [mapE, compileE, compileE_map h env henv c, compileE_map h env henv a, compileE_map h env henv b]
  | .call f as => by simp [mapE, compileE, compileCallArgs_map h env henv as, nameLookup_map h f env henv]
  | .letE names es body => by simp [mapE, compileE]
theorem compileArgs_map (h : NameInj σ) (env : Rich) (henv : atomsOnly env = true) :
    ∀ es : Exprs, compileArgs (mapPat σ env) (mapEs σ es) = compileArgs env es
  | .nil => by simp [mapEs, compileArgs]
  | .cons e r => by simp [mapEs, compileArgs, compileE_map h env henv e, compileArgs_map h env henv r]
theorem compileCallArgs_map (h : NameInj σ) (env : Rich) (henv : atomsOnly env = true) :
    ∀ es : Exprs, compileCallArgs (mapPat σ env) (mapEs σ es) = compileCallArgs env es
  | .nil => by simp [mapEs, compileCallArgs]
  | .cons e r => by simp [mapEs, compileCallArgs, compileE_map h env henv e, compileCallArgs_map h env henv r]
end

theorem buildTree_map (names : List Bytes) : ∀ fuel : Nat,
    buildTree (names.map σ) fuel = mapPat σ (buildTree names fuel) := by
  intro fuel
  induction fuel generalizing names with
  | zero => simp [buildTree, mapPat]
  | succ k ih =>
    match names with
    | [] => simp [buildTree, mapPat]
    | [n] => simp [buildTree, mapPat]
    | a :: b :: r =>
      simp only [buildTree, List.map_cons, List.length_cons, List.length_map, mapPat]
      rw [← List.map_cons, ← List.map_cons, ← List.map_take, ← List.map_drop, ih, ih]

theorem atomsOnly_buildTree (names : List Bytes) : ∀ fuel : Nat, atomsOnly (buildTree names fuel) = true := by
  intro fuel
  induction fuel generalizing names with
  | zero => simp [buildTree, atomsOnly]
  | succ k ih =>
    match names with
    | [] => simp [buildTree, atomsOnly]
    | [n] => simp [buildTree, atomsOnly]
    | a :: b :: r => simp only [buildTree, atomsOnly, ih, Bool.and_self]

theorem envShape_map (names : List Bytes) (params : Rich) :
    envShape (names.map σ) (mapPat σ params) = mapPat σ (envShape names params) := by
  simp [envShape, mapPat, buildTree_map]

theorem atomsOnly_envShape (names : List Bytes) (params : Rich) (hp : atomsOnly params = true) :
    atomsOnly (envShape names params) = true := by
  simp [envShape, atomsOnly, atomsOnly_buildTree, hp]

mutual
theorem exprSize_map : ∀ e : Expr, exprSize (mapE σ e) = exprSize e
  | .var _ => by simp [mapE, exprSize]
  | .lit _ => by simp [mapE, exprSize]
  | .argsv => by simp [mapE, exprSize]
  | .op _ as => by simp [mapE, exprSize, exprsSize_map as]
  | .ite c a b => by simp [mapE, exprSize, exprSize_map c, exprSize_map a, exprSize_map b]
  | .call _ as => by simp [mapE, exprSize, exprsSize_map as]
  | .letE _ es body => by simp [mapE, exprSize, exprsSize_map es, exprSize_map body]
theorem exprsSize_map : ∀ es : Exprs, exprsSize (mapEs σ es) = exprsSize es
  | .nil => by simp [mapEs, exprsSize]
  | .cons e r => by simp [mapEs, exprsSize, exprSize_map e, exprsSize_map r]
end

mutual
theorem callsOf_map : ∀ e : Expr, callsOf (mapE σ e) = (callsOf e).map σ
  | .var _ => by simp [mapE, callsOf]
  | .lit _ => by simp [mapE, callsOf]
  | .argsv => by simp [mapE, callsOf]
  | .op _ as => by simp [mapE, callsOf, callsOfs_map as]
  | .ite c a b => by simp [mapE, callsOf, callsOf_map c, callsOf_map a, callsOf_map b]
  | .call _ as => by simp [mapE, callsOf, callsOfs_map as]
  | .letE _ es body => by simp [mapE, callsOf, callsOfs_map es, callsOf_map body]
theorem callsOfs_map : ∀ es : Exprs, callsOfs (mapEs σ es) = (callsOfs es).map σ
  | .nil => by simp [mapEs, callsOfs]
  | .cons e r => by simp [mapEs, callsOfs, callsOf_map e, callsOfs_map r]
end

theorem expandFuel_map (P : Prog) : expandFuel (mapProg σ P) = expandFuel P := by
  have hf : ∀ (l : List FnDef) (n : Nat),
      (l.map (mapFn σ)).foldl (fun acc f => acc + exprSize f.body) n = l.foldl (fun acc f => acc + exprSize f.body) n := by
    intro l
    induction l with
    | nil => intro n; rfl
    | cons f r ih => intro n; simp only [List.map_cons, List.foldl_cons, mapFn, exprSize_map]; exact ih _
  simp [expandFuel, mapProg, exprSize_map, hf]

theorem expandFns_map (h : NameInj σ) (all : List FnDef) (fuel : Nat) : ∀ l : List FnDef,
    expandFns (all.map (mapFn σ)) fuel (l.map (mapFn σ)) = (expandFns all fuel l).map (List.map (mapFn σ))
  | [] => by simp [expandFns]
  | f :: r => by
    have hE := (expand_map h all fuel).1 f.params .top f.body
    simp only [mapCtx] at hE
    simp only [List.map_cons, expandFns]
    by_cases hi : f.inline = true
    · simp [mapFn, hi, ← expandFns_map h all fuel r]
    · simp only [mapFn, hi] at hE ⊢
      simp only [Bool.false_eq_true, if_false, hE, expandFns_map h all fuel r]
      cases expand all fuel f.params .top f.body <;> cases expandFns all fuel r <;> simp [mapFn]

theorem contains_map (h : NameInj σ) (a : Bytes) : ∀ l : List Bytes, (l.map σ).contains (σ a) = l.contains a
  | [] => by simp
  | b :: r => by
    simp only [List.map_cons, List.contains_cons, contains_map h a r]
    rw [h.beq]

theorem keep_map (h : NameInj σ) (live : List Bytes) : ∀ FS : List FnDef,
    keep (FS.map (mapFn σ)) (live.map σ) = (keep FS live).map (mapFn σ)
  | [] => by simp [keep]
  | f :: r => by
    have ih := keep_map h live r
    simp only [keep] at ih ⊢
    simp only [List.map_cons, List.filter_cons, mapFn, contains_map h]
    by_cases hc : live.contains f.name = true
    · simp only [hc, if_true, List.map_cons, mapFn]; rw [← ih]
    · simp only [hc, Bool.false_eq_true, if_false]; exact ih

theorem compileFns_map (h : NameInj σ) (names : List Bytes) : ∀ FS : List FnDef,
    (∀ f ∈ FS, atomsOnly f.params = true) →
    compileFns (names.map σ) (FS.map (mapFn σ)) = (compileFns names FS).map (List.map (fun e => (σ e.1, e.2)))
  | [], _ => by simp [compileFns]
  | f :: r, hp => by
    have ih := compileFns_map h names r (fun g hg => hp g (List.mem_cons_of_mem _ hg))
    have hf := hp f (List.mem_cons_self ..)
    simp only [List.map_cons, compileFns, ih]
    have : compileE (envShape (names.map σ) (mapFn σ f).params) (mapFn σ f).body = compileE (envShape names f.params) f.body := by
      simp only [mapFn, envShape_map]
      exact compileE_map h _ (atomsOnly_envShape names f.params hf) f.body
    rw [this]
    cases compileE (envShape names f.params) f.body <;> cases compileFns names r <;> simp [mapFn]

theorem compileWith_map (h : NameInj σ) (FS : List FnDef) (params : Rich) (body : Expr)
    (hp : atomsOnly params = true) (hfs : ∀ f ∈ FS, atomsOnly f.params = true) :
    compileWith (FS.map (mapFn σ)) (mapPat σ params) (mapE σ body) = compileWith FS params body := by
  have hn : (FS.map (mapFn σ)).map (·.name) = (FS.map (·.name)).map σ := by
    simp [List.map_map, mapFn, Function.comp_def]
  simp only [compileWith, hn, envShape_map, compileE_map h _ (atomsOnly_envShape _ params hp) body,
    compileFns_map h _ FS hfs]
  cases compileE (envShape (FS.map (·.name)) params) body <;> cases compileFns (FS.map (·.name)) FS <;>
    simp [List.map_map, Function.comp_def]

theorem eraseDups_map (h : NameInj σ) : ∀ (n : Nat) (l : List Bytes), l.length ≤ n →
    (l.map σ).eraseDups = (l.eraseDups).map σ := by
  intro n
  induction n with
  | zero => intro l hl; have : l = [] := List.length_eq_zero_iff.mp (Nat.le_zero.mp hl); subst this; simp
  | succ n ih =>
    intro l hl
    cases l with
    | nil => simp
    | cons a r =>
      simp only [List.map_cons, List.eraseDups_cons, List.filter_map]
      have hfun : ((fun b => !b == σ a) ∘ σ) = (fun b => !b == a) := by
        funext b; simp only [Function.comp, h.beq]
      rw [hfun, ih _ (Nat.le_trans (List.length_filter_le _ _) (by simpa using hl))]

theorem addNew_map (h : NameInj σ) : ∀ (l acc : List Bytes),
    (l.map σ).foldl (fun a n => if a.contains n then a else a ++ [n]) (acc.map σ) =
      (l.foldl (fun a n => if a.contains n then a else a ++ [n]) acc).map σ
  | [], acc => by simp
  | x :: r, acc => by
    simp only [List.map_cons, List.foldl_cons, contains_map h]
    by_cases hc : acc.contains x = true
    · simp only [hc, if_true]; exact addNew_map h r acc
    · simp only [hc, Bool.false_eq_true, if_false]
      have := addNew_map h r (acc ++ [x])
      simpa using this

theorem liveStep_map (h : NameInj σ) : ∀ (fns : List FnDef) (live : List Bytes),
    liveStep (fns.map (mapFn σ)) (live.map σ) = (liveStep fns live).map σ := by
  intro fns
  induction fns with
  | nil => intro live; simp [liveStep]
  | cons f r ih =>
    intro live
    simp only [liveStep, List.map_cons, List.foldl_cons] at ih ⊢
    simp only [mapFn, contains_map h, callsOf_map]
    by_cases hc : live.contains f.name = true
    · simp only [hc, if_true, addNew_map h]; exact ih _
    · simp only [hc, Bool.false_eq_true, if_false]; exact ih _

theorem liveIter_map (h : NameInj σ) (fns : List FnDef) : ∀ (k : Nat) (live : List Bytes),
    liveIter (fns.map (mapFn σ)) k (live.map σ) = (liveIter fns k live).map σ
  | 0, live => by simp [liveIter]
  | k+1, live => by simp only [liveIter, liveStep_map h]; exact liveIter_map h fns k _

theorem liveSet_map (h : NameInj σ) (P : Prog) : liveSet (mapProg σ P) = (liveSet P).map σ := by
  simp only [liveSet, mapProg, List.length_map, callsOf_map, eraseDups_map h _ _ (Nat.le_refl _)]
  exact liveIter_map h P.fns _ _

/-- atoms-only parameter patterns everywhere (implied by `patWF`). -/
def patsAtomic (P : Prog) : Bool := atomsOnly P.params && P.fns.all (fun f => atomsOnly f.params)

theorem expandFns_params (all : List FnDef) (fuel : Nat) : ∀ (l FT : List FnDef),
    expandFns all fuel l = some FT → (∀ f ∈ l, atomsOnly f.params = true) → ∀ f ∈ FT, atomsOnly f.params = true
  | [], FT, hE, _ => by simp [expandFns] at hE; subst hE; simp
  | g :: r, FT, hE, hp => by
    simp only [expandFns] at hE
    by_cases hi : g.inline = true
    · simp only [hi, if_true] at hE
      exact expandFns_params all fuel r FT hE (fun f hf => hp f (List.mem_cons_of_mem _ hf))
    · simp only [hi, Bool.false_eq_true, if_false] at hE
      cases hb : expand all fuel g.params .top g.body with
      | none => simp [hb] at hE
      | some b =>
        cases hr : expandFns all fuel r with
        | none => simp [hb, hr] at hE
        | some fs =>
          simp only [hb, hr, Option.some.injEq] at hE
          subst hE
          intro f hf
          simp only [List.mem_cons] at hf
          rcases hf with rfl | hf
          · exact hp g (List.mem_cons_self ..)
          · exact expandFns_params all fuel r fs hr (fun f hf => hp f (List.mem_cons_of_mem _ hf)) f hf

/-- **the emitted code contains paths only**: compiling a program whose names have been renamed by
    an injective renaming yields the same code. -/
theorem compileNS_mapProg (h : NameInj σ) (P : Prog) (hp : patsAtomic P = true) :
    compileNS (mapProg σ P) = compileNS P := by
  simp only [patsAtomic, Bool.and_eq_true, List.all_eq_true] at hp
  have hfuel := expandFuel_map (σ := σ) P
  have hF := expandFns_map h P.fns (expandFuel P) P.fns
  have hM := (expand_map h P.fns (expandFuel P)).1 P.params .top P.body
  simp only [mapCtx] at hM
  have hX : expandProg (mapProg σ P) = (expandProg P).map (fun x => (x.1.map (mapFn σ), mapE σ x.2)) := by
    simp only [expandProg, hfuel]
    simp only [mapProg, hF, hM]
    cases expandFns P.fns (expandFuel P) P.fns <;> cases expand P.fns (expandFuel P) P.params .top P.body <;> simp
  simp only [compileNS, hX, liveSet_map h]
  cases hE : expandProg P with
  | none => simp
  | some x =>
    obtain ⟨FT, main⟩ := x
    simp only [Option.map_some, keep_map h]
    have hFT : ∀ f ∈ FT, atomsOnly f.params = true := by
      simp only [expandProg] at hE
      cases hfs : expandFns P.fns (expandFuel P) P.fns with
      | none => simp [hfs] at hE
      | some fs =>
        cases hm : expand P.fns (expandFuel P) P.params .top P.body with
        | none => simp [hfs, hm] at hE
        | some m =>
          simp only [hfs, hm, Option.some.injEq, Prod.mk.injEq] at hE
          obtain ⟨rfl, rfl⟩ := hE
          exact expandFns_params P.fns _ P.fns fs hfs hp.2
    have := compileWith_map h (keep FT (liveSet P)) P.params main hp.1
      (fun f hf => hFT f (List.mem_filter.mp hf).1)
    simpa [mapProg] using this

-- finite name permutations (products of transpositions) ------------------------------------------

def swapName (a b x : Bytes) : Bytes := if x = a then b else if x = b then a else x

theorem swapName_invol (a b x : Bytes) : swapName a b (swapName a b x) = x := by
  unfold swapName
  by_cases h1 : x = a
  · by_cases h2 : b = a <;> simp [h1, h2]
  · by_cases h2 : x = b
    · simp [h2]
    · simp [h1, h2]

/-- exchange the two names of each pair, one pair after the other. -/
def swapAll : List (Bytes × Bytes) → Bytes → Bytes
  | [], x => x
  | p :: r, x => swapAll r (swapName p.1 p.2 x)

def pairsOk (l : List (Bytes × Bytes)) : Bool :=
  l.all (fun p => p.1 != [64] && p.1 != [] && p.2 != [64] && p.2 != [])

theorem swapAll_inj : ∀ l : List (Bytes × Bytes), pairsOk l = true → NameInj (swapAll l)
  | [], _ => ⟨fun _ _ e => e, rfl, rfl⟩
  | p :: r, hok => by
    simp only [pairsOk, List.all_cons, Bool.and_eq_true, bne_iff_ne, ne_eq] at hok
    have ih := swapAll_inj r (by simpa [pairsOk] using hok.2)
    obtain ⟨⟨⟨h1, h2⟩, h3⟩, h4⟩ := hok.1
    refine ⟨?_, ?_, ?_⟩
    · intro a b e
      have := ih.inj _ _ e
      have h := congrArg (swapName p.1 p.2) this
      rwa [swapName_invol, swapName_invol] at h
    · have : swapName p.1 p.2 [64] = [64] := by
        unfold swapName; simp [Ne.symm h1, Ne.symm h3]
      simp only [swapAll, this]; exact ih.at_
    · have : swapName p.1 p.2 [] = [] := by
        unfold swapName; simp [Ne.symm h2, Ne.symm h4]
      simp only [swapAll, this]; exact ih.nil_

/-- the name permutation that links the renaming from counter `k` to the renaming from `k'`. -/
def linkPairs (k k' : Nat) (P : Prog) : List (Bytes × Bytes) := (drawnNames k P).zip (drawnNames k' P)

theorem atomsOnly_renamePat (m : List (Bytes × Bytes)) : ∀ pat : Rich, atomsOnly pat = true → atomsOnly (renamePat m pat) = true := by
  intro pat
  fun_induction renamePat m pat <;> simp_all [atomsOnly]

theorem patsAtomic_renameProgWith (k : Nat) (P : Prog) (hp : patsAtomic P = true) :
    patsAtomic (renameProgWith k P) = true := by
  simp only [patsAtomic, Bool.and_eq_true, List.all_eq_true] at hp ⊢
  refine ⟨hp.1, ?_⟩
  have : ∀ (l : List FnDef) (k : Nat), (∀ f ∈ l, atomsOnly f.params = true) →
      ∀ f ∈ renameFnsWith k l, atomsOnly f.params = true := by
    intro l
    induction l with
    | nil => intro k _ f hf; simp [renameFnsWith] at hf
    | cons g r ih =>
      intro k hl f hf
      simp only [renameFnsWith, List.mem_cons] at hf
      rcases hf with rfl | hf
      · exact atomsOnly_renamePat _ _ (hl g (List.mem_cons_self ..))
      · exact ih _ (fun f hf => hl f (List.mem_cons_of_mem _ hf)) f hf
  exact this P.fns k hp.2
