/-
  Proofs/DepsLemmas.lean — lemmas about the dependency-listing model (Sys/Deps.lean).
-/
import ChialispModel.Sys.Deps

namespace Deps

-- inversion of the writer combinators ----------------------------------------------------------

theorem seqForms_cons_ok {pp : Form → R} {f : Form} {r : List Form} {o : Out}
    (h : seqForms pp (f :: r) = .ok o) :
    ∃ a b, pp f = .ok a ∧ seqForms pp r = .ok b ∧ o = a.append b := by
  simp only [seqForms] at h
  split at h
  · cases h
  · rename_i a ha
    split at h
    · cases h
    · rename_i b hb
      injection h with h
      exact ⟨a, b, ha, hb, h.symm⟩

/-- a property of outputs that holds for the empty output, is closed under concatenation and
    holds for every single form's output holds for a sequence. -/
theorem seqForms_ind {P : Out → Prop} (hE : P Out.empty)
    (hA : ∀ a b, P a → P b → P (a.append b)) {pp : Form → R}
    (fs : List Form) (hpp : ∀ f ∈ fs, ∀ o, pp f = .ok o → P o) :
    ∀ o, seqForms pp fs = .ok o → P o := by
  induction fs with
  | nil => intro o h; simp only [seqForms] at h; injection h with h; subst h; exact hE
  | cons f r ih =>
    intro o h
    obtain ⟨a, b, ha, hb, rfl⟩ := seqForms_cons_ok h
    exact hA a b (hpp f (List.mem_cons_self ..) a ha)
      (ih (fun g hg => hpp g (List.mem_cons_of_mem _ hg)) b hb)

theorem seqForms_fuel {pp : Form → R} (fs : List Form)
    (hpp : ∀ f ∈ fs, pp f ≠ .error .fuel) : seqForms pp fs ≠ .error .fuel := by
  induction fs with
  | nil => simp [seqForms]
  | cons f r ih =>
    simp only [seqForms]
    have hf := hpp f (List.mem_cons_self ..)
    have hr := ih (fun g hg => hpp g (List.mem_cons_of_mem _ hg))
    cases h1 : pp f with
    | error e => simp only; intro h; injection h with h; subst h; exact hf h1
    | ok a =>
      simp only
      cases h2 : seqForms pp r with
      | error e => simp only; intro h; injection h with h; subst h; exact hr h2
      | ok b => simp

theorem recurseDeps_ok {cfg : Cfg} {pp : Form → R} {n : Name} {a : Out}
    (h : recurseDeps cfg pp n = .ok a) :
    ((∃ k, n = .dialect k) ∧ a = Out.empty) ∨
    ((∀ k, n ≠ .dialect k) ∧ ∃ r forms sub, readNew cfg.dirs n = some (r, forms) ∧
      seqForms pp forms = .ok sub ∧ a = ⟨rd r :: sub.reads, r :: sub.listed, []⟩) := by
  cases n with
  | dialect k => left; simp only [recurseDeps] at h; injection h with h; exact ⟨⟨k, rfl⟩, h.symm⟩
  | macros =>
    right
    refine ⟨fun k e => (by cases e), ?_⟩
    simp only [recurseDeps] at h
    split at h
    · cases h
    · rename_i r forms hr
      split at h
      · cases h
      · rename_i sub hs
        injection h with h
        exact ⟨r, forms, sub, hr, hs, h.symm⟩
  | file m =>
    right
    refine ⟨fun k e => (by cases e), ?_⟩
    simp only [recurseDeps] at h
    split at h
    · cases h
    · rename_i r forms hr
      split at h
      · cases h
      · rename_i sub hs
        injection h with h
        exact ⟨r, forms, sub, hr, hs, h.symm⟩

theorem processInclude_ok {cfg : Cfg} {pp : Form → R} {n : Name} {b : Out}
    (h : processInclude cfg pp n = .ok b) :
    ∃ r forms, readNew cfg.dirs n = some (r, forms) ∧
      ((cfg.strict = true ∧ ∃ sub, seqForms pp forms = .ok sub ∧
          b = ⟨rd r :: sub.reads, sub.listed, sub.forms⟩) ∨
       (cfg.strict = false ∧ b = ⟨[rd r], [], forms⟩)) := by
  simp only [processInclude] at h
  split at h
  · cases h
  · rename_i r forms hr
    refine ⟨r, forms, hr, ?_⟩
    split at h
    · rename_i hs
      left
      split at h
      · cases h
      · rename_i sub hsub
        injection h with h
        exact ⟨hs, sub, hsub, h.symm⟩
    · rename_i hs
      right
      injection h with h
      exact ⟨by simpa using hs, h.symm⟩

theorem ppLevel_incl_ok {cfg : Cfg} {fuel : Nat} {n : Name} {o : Out}
    (h : ppLevel cfg (fuel + 1) (.incl n) = .ok o) :
    ∃ a b, recurseDeps cfg (ppLevel cfg fuel) n = .ok a ∧
      processInclude cfg (ppLevel cfg fuel) n = .ok b ∧ o = a.append b := by
  simp only [ppLevel] at h
  split at h
  · cases h
  · rename_i a ha
    split at h
    · cases h
    · rename_i b hb
      injection h with h
      exact ⟨a, b, ha, hb, h.symm⟩

/-- a successful embed-file form: the target is read twice (`recurse_dependencies`, then
    `process_embed`) and listed once. -/
theorem ppLevel_embed_ok {cfg : Cfg} {fuel : Nat} {k : Kind} {n : Nat} {o : Out}
    (h : ppLevel cfg (fuel + 1) (.embed k n) = .ok o) :
    ∃ i v, resolveDat cfg.dirs 0 n = some (i, v) ∧
      o = ⟨[rdE (.dat i n), rdE (.dat i n)], [.dat i n], [.other]⟩ := by
  simp only [ppLevel, recurseEmbed, processEmbed] at h
  cases hres : resolveDat cfg.dirs 0 n with
  | none => simp [hres] at h
  | some p =>
    obtain ⟨i, v⟩ := p
    by_cases hv : embedValid k v = true
    · simp only [hres, hv, if_true, Out.append, List.append_nil, List.nil_append,
        List.cons_append] at h
      injection h with h
      exact ⟨i, v, rfl, h.symm⟩
    · simp [hres, hv] at h

theorem ppLevel_embed_fuel {cfg : Cfg} {fuel : Nat} {k : Kind} {n : Nat} :
    ppLevel cfg (fuel + 1) (.embed k n) ≠ .error .fuel := by
  simp only [ppLevel, recurseEmbed, processEmbed]
  cases hres : resolveDat cfg.dirs 0 n with
  | none => simp
  | some p =>
    obtain ⟨i, v⟩ := p
    by_cases hv : embedValid k v = true <;> simp [hv]

theorem readNew_pseudo {dirs : List Dir} {n : Name} {r : RName} {forms : List Form}
    (h : readNew dirs n = some (r, forms)) (hn : ∀ m, n ≠ .file m) :
    r = .pseudo n ∧ forms = [.other] := by
  cases n with
  | file m => exact absurd rfl (hn m)
  | macros => simp only [readNew] at h; injection h with h; injection h with h1 h2; exact ⟨h1.symm, h2.symm⟩
  | dialect k => simp only [readNew] at h; injection h with h; injection h with h1 h2; exact ⟨h1.symm, h2.symm⟩

-- the generic induction over `ppLevel` -------------------------------------------------------------

/-- To prove `P` of every output of `process_pp_form` it suffices that `P` is closed under
    concatenation and holds for the three kinds of leaves, given `P` of the included file's forms. -/
theorem ppLevel_ind (cfg : Cfg) {P : Out → Prop} (hE : P Out.empty)
    (hA : ∀ a b, P a → P b → P (a.append b))
    (hIncl : ∀ n a b,
      ((∃ k, n = .dialect k) ∧ a = Out.empty ∨
        ∃ r forms sub, (∀ k, n ≠ .dialect k) ∧ readNew cfg.dirs n = some (r, forms) ∧ P sub ∧
          a = ⟨rd r :: sub.reads, r :: sub.listed, []⟩) →
      (∃ r forms, readNew cfg.dirs n = some (r, forms) ∧
        ((∃ sub, P sub ∧ b = ⟨rd r :: sub.reads, sub.listed, sub.forms⟩) ∨ b = ⟨[rd r], [], forms⟩)) →
      P (a.append b))
    (hEmbed : ∀ i n v, resolveDat cfg.dirs 0 n = some (i, v) →
      P ⟨[rdE (.dat i n), rdE (.dat i n)], [.dat i n], [.other]⟩)
    (hLeaf : ∀ f, P ⟨[], [], [f]⟩) :
    ∀ fuel f o, ppLevel cfg fuel f = .ok o → P o := by
  intro fuel
  induction fuel with
  | zero => intro f o h; simp [ppLevel] at h
  | succ fuel ih =>
    have hseq : ∀ forms sub, seqForms (ppLevel cfg fuel) forms = .ok sub → P sub :=
      fun forms sub h => seqForms_ind hE hA forms (fun f _ o ho => ih f o ho) sub h
    intro f o h
    cases f with
    | other => simp only [ppLevel] at h; injection h with h; subst h; exact hLeaf _
    | nested b => simp only [ppLevel] at h; injection h with h; subst h; exact hLeaf _
    | embed k n =>
      obtain ⟨i, v, hres, rfl⟩ := ppLevel_embed_ok h
      exact hEmbed i n v hres
    | incl n =>
      obtain ⟨a, b, ha, hb, rfl⟩ := ppLevel_incl_ok h
      refine hIncl n a b ?_ ?_
      · rcases recurseDeps_ok ha with ⟨hd, he⟩ | ⟨hd, r, forms, sub, hr, hs, he⟩
        · exact .inl ⟨hd, he⟩
        · exact .inr ⟨r, forms, sub, hd, hr, hseq forms sub hs, he⟩
      · obtain ⟨r, forms, hr, hcase⟩ := processInclude_ok hb
        refine ⟨r, forms, hr, ?_⟩
        rcases hcase with ⟨_, sub, hs, he⟩ | ⟨_, he⟩
        · exact .inl ⟨sub, hseq forms sub hs, he⟩
        · exact .inr he

-- every read of the preprocessor is a pseudo-file or is listed ----------------------------------

def Good (o : Out) : Prop :=
  ∀ r ∈ o.reads, r.res.isPseudo = true ∨ r.res ∈ o.listed

theorem good_append (a b : Out) (ha : Good a) (hb : Good b) : Good (a.append b) := by
  intro r hr
  simp only [Out.append, List.mem_append] at hr ⊢
  rcases hr with hr | hr
  · exact (ha r hr).imp_right .inl
  · exact (hb r hr).imp_right .inr

theorem good_ppLevel (cfg : Cfg) : ∀ fuel f o, ppLevel cfg fuel f = .ok o → Good o := by
  apply ppLevel_ind cfg (P := Good)
  · intro r hr; cases hr
  · exact good_append
  · intro n a b ha hb
    obtain ⟨r', forms', hr', hb⟩ := hb
    intro x hx
    simp only [Out.append, List.mem_append] at hx ⊢
    rcases ha with ⟨⟨k, hk⟩, rfl⟩ | ⟨r, forms, sub, hd, hr, hsub, rfl⟩
    · -- a dialect name: only process_include reads, and it reads a pseudo-file
      have hps := readNew_pseudo hr' (fun m e => by rw [hk] at e; cases e)
      simp only [Out.empty, List.not_mem_nil, false_or] at hx ⊢
      rcases hb with ⟨sub, hsub, rfl⟩ | rfl
      · simp only [List.mem_cons] at hx
        rcases hx with rfl | hx
        · left; simp [rd, hps.1, RName.isPseudo]
        · exact hsub x hx
      · simp only [List.mem_cons, List.not_mem_nil, or_false] at hx
        subst hx; left; simp [rd, hps.1, RName.isPseudo]
    · rw [hr] at hr'
      injection hr' with hr'
      injection hr' with h1 h2
      subst h1 h2
      rcases hx with hx | hx
      · simp only [List.mem_cons] at hx
        rcases hx with rfl | hx
        · right; left; simp [rd]
        · rcases hsub x hx with h | h
          · exact .inl h
          · right; left; exact List.mem_cons_of_mem _ h
      · rcases hb with ⟨sub', hsub', rfl⟩ | rfl
        · simp only [List.mem_cons] at hx
          rcases hx with rfl | hx
          · right; left; simp [rd]
          · rcases hsub' x hx with h | h
            · exact .inl h
            · right; right; exact h
        · simp only [List.mem_cons, List.not_mem_nil, or_false] at hx
          subst hx; right; left; simp [rd]
  · intro i n v _ r hr
    simp only [List.mem_cons, List.not_mem_nil, or_false, or_self] at hr
    subst hr; right; simp [rdE]
  · intro f r hr; cases hr

-- everything listed is a first match, and was read ------------------------------------------------

theorem resolveSrc_first (dirs : List Dir) (i n j : Nat) (f : List Form)
    (h : resolveSrc dirs i n = some (j, f)) :
    ∃ k, j = i + k ∧ (∃ d, dirs[k]? = some d ∧ d.src n = some f) ∧
      ∀ k' d, k' < k → dirs[k']? = some d → d.src n = none := by
  induction dirs generalizing i with
  | nil => simp [resolveSrc] at h
  | cons d ds ih =>
    simp only [resolveSrc] at h
    split at h
    · rename_i f' hf
      injection h with h; injection h with h1 h2; subst h1 h2
      exact ⟨0, rfl, ⟨d, rfl, hf⟩, fun k' _ hk => absurd hk (Nat.not_lt_zero _)⟩
    · rename_i hnone
      obtain ⟨k, hk, ⟨d', hd', hf'⟩, hall⟩ := ih (i + 1) h
      refine ⟨k + 1, by omega, ⟨d', by simpa using hd', hf'⟩, ?_⟩
      intro k' d'' hk' hd''
      cases k' with
      | zero => simp at hd''; subst hd''; exact hnone
      | succ k'' => exact hall k'' d'' (by omega) (by simpa using hd'')

theorem resolveDat_first (dirs : List Dir) (i n j : Nat) (v : Bool × Bool)
    (h : resolveDat dirs i n = some (j, v)) :
    ∃ k, j = i + k ∧ (∃ d, dirs[k]? = some d ∧ d.dat n = some v) ∧
      ∀ k' d, k' < k → dirs[k']? = some d → d.dat n = none := by
  induction dirs generalizing i with
  | nil => simp [resolveDat] at h
  | cons d ds ih =>
    simp only [resolveDat] at h
    split at h
    · rename_i f' hf
      injection h with h; injection h with h1 h2; subst h1 h2
      exact ⟨0, rfl, ⟨d, rfl, hf⟩, fun k' _ hk => absurd hk (Nat.not_lt_zero _)⟩
    · rename_i hnone
      obtain ⟨k, hk, ⟨d', hd', hf'⟩, hall⟩ := ih (i + 1) h
      refine ⟨k + 1, by omega, ⟨d', by simpa using hd', hf'⟩, ?_⟩
      intro k' d'' hk' hd''
      cases k' with
      | zero => simp at hd''; subst hd''; exact hnone
      | succ k'' => exact hall k'' d'' (by omega) (by simpa using hd'')

/-- a listed name is a pseudo-file, or the first match of a source file, or the first match of a
    data file. -/
def NameOK (cfg : Cfg) (x : RName) : Prop :=
  x.isPseudo = true ∨ (∃ i n, x = .src i n ∧ FirstMatch cfg.dirs i n) ∨
    (∃ i n, x = .dat i n ∧ FirstMatchDat cfg.dirs i n)

def ListedOK (cfg : Cfg) (o : Out) : Prop :=
  ∀ x ∈ o.listed, NameOK cfg x

theorem readNew_listedOK {cfg : Cfg} {n : Name} {r : RName} {forms : List Form}
    (h : readNew cfg.dirs n = some (r, forms)) :
    NameOK cfg r := by
  cases n with
  | macros => simp only [readNew] at h; injection h with h; injection h with h1; subst h1; left; rfl
  | dialect k => simp only [readNew] at h; injection h with h; injection h with h1; subst h1; left; rfl
  | file m =>
    right; left
    simp only [readNew] at h
    split at h
    · rename_i i f hres
      injection h with h; injection h with h1 h2; subst h1
      obtain ⟨k, hk, hex, hall⟩ := resolveSrc_first cfg.dirs 0 m i f hres
      have : i = k := by omega
      subst this
      exact ⟨i, m, rfl, ⟨by obtain ⟨d, h1, h2⟩ := hex; exact ⟨d, f, h1, h2⟩, hall⟩⟩
    · cases h

theorem listedOK_ppLevel (cfg : Cfg) : ∀ fuel f o, ppLevel cfg fuel f = .ok o → ListedOK cfg o := by
  apply ppLevel_ind cfg (P := ListedOK cfg)
  · intro x hx; cases hx
  · intro a b ha hb x hx
    simp only [Out.append, List.mem_append] at hx
    exact hx.elim (ha x) (hb x)
  · intro n a b ha hb x hx
    simp only [Out.append, List.mem_append] at hx
    rcases hx with hx | hx
    · rcases ha with ⟨_, rfl⟩ | ⟨r, forms, sub, _, hr, hsub, rfl⟩
      · cases hx
      · simp only [List.mem_cons] at hx
        rcases hx with rfl | hx
        · exact readNew_listedOK hr
        · exact hsub x hx
    · obtain ⟨r, forms, _, hb⟩ := hb
      rcases hb with ⟨sub, hsub, rfl⟩ | rfl
      · exact hsub x hx
      · cases hx
  · intro i n v hres x hx
    simp only [List.mem_cons, List.not_mem_nil, or_false] at hx
    subst hx
    right; right
    obtain ⟨k, hk, hex, hall⟩ := resolveDat_first cfg.dirs 0 n i v hres
    have : i = k := by omega
    subst this
    exact ⟨i, n, rfl, ⟨by obtain ⟨d, h1, h2⟩ := hex; exact ⟨d, v, h1, h2⟩, hall⟩⟩
  · intro f x hx; cases hx

/-- everything listed was read. -/
def Back (o : Out) : Prop :=
  ∀ x ∈ o.listed, ∃ r ∈ o.reads, r.res = x

theorem back_append (a b : Out) (ha : Back a) (hb : Back b) : Back (a.append b) := by
  intro x hx
  simp only [Out.append, List.mem_append] at hx ⊢
  rcases hx with hx | hx
  · obtain ⟨r, hr, h⟩ := ha x hx; exact ⟨r, .inl hr, h⟩
  · obtain ⟨r, hr, h⟩ := hb x hx; exact ⟨r, .inr hr, h⟩

theorem back_ppLevel (cfg : Cfg) : ∀ fuel f o, ppLevel cfg fuel f = .ok o → Back o := by
  apply ppLevel_ind cfg (P := Back)
  · intro x hx; cases hx
  · exact back_append
  · intro n a b ha hb
    obtain ⟨r', forms', _, hb⟩ := hb
    have hBa : Back a := by
      rcases ha with ⟨_, rfl⟩ | ⟨r, forms, sub, _, _, hsub, rfl⟩
      · intro x hx; cases hx
      · intro x hx
        simp only [List.mem_cons] at hx
        rcases hx with rfl | hx
        · exact ⟨rd x, List.mem_cons_self .., rfl⟩
        · obtain ⟨r1, h1, h2⟩ := hsub x hx
          exact ⟨r1, List.mem_cons_of_mem _ h1, h2⟩
    have hBb : Back b := by
      rcases hb with ⟨sub, hsub, rfl⟩ | rfl
      · intro x hx
        obtain ⟨r1, h1, h2⟩ := hsub x hx
        exact ⟨r1, List.mem_cons_of_mem _ h1, h2⟩
      · intro x hx; cases hx
    exact back_append a b hBa hBb
  · intro i n v _ x hx
    simp only [List.mem_cons, List.not_mem_nil, or_false] at hx
    subst hx
    exact ⟨rdE (.dat i n), List.mem_cons_self .., rfl⟩
  · intro f x hx; cases hx

-- the frontend ---------------------------------------------------------------------------------

/-- what `(include *macros*)` contributes: reads and listings of pseudo-files only, one helper. -/
theorem macros_out {cfg : Cfg} {f : Nat} {m : Out} (h : ppLevel cfg f (.incl .macros) = .ok m) :
    (∀ x ∈ m.listed, x.isPseudo = true) ∧ (∀ r ∈ m.reads, r.res.isPseudo = true) ∧
      m.forms = [.other] := by
  cases f with
  | zero => simp [ppLevel] at h
  | succ f =>
    cases f with
    | zero => simp [ppLevel, recurseDeps, readNew, seqForms] at h
    | succ f =>
      simp [ppLevel, recurseDeps, processInclude, readNew, seqForms, Out.append, Out.empty] at h
      subst h; simp [rd, RName.isPseudo]

/-- `preprocess` with and without the standard environment differ by pseudo-files only. -/
theorem preprocess_split {cfg : Cfg} {stdenv : Bool} {f : Nat} {forms : List Form} {pre : Out}
    (h : preprocess cfg stdenv f forms = .ok pre) :
    ∃ (m P : Out), seqForms (ppLevel cfg f) forms = .ok P ∧ pre = m.append P ∧
      (∀ x ∈ m.listed, x.isPseudo = true) ∧ (∀ r ∈ m.reads, r.res.isPseudo = true) ∧
      (m.forms = [] ∨ m.forms = [.other]) := by
  unfold preprocess at h
  split at h
  · obtain ⟨m, P, hm, hP, rfl⟩ := seqForms_cons_ok h
    obtain ⟨h1, h2, h3⟩ := macros_out hm
    exact ⟨m, P, hP, rfl, h1, h2, .inr h3⟩
  · exact ⟨Out.empty, pre, h, by simp [Out.append, Out.empty], by simp [Out.empty], by simp [Out.empty],
      .inl rfl⟩

theorem seq_good (cfg : Cfg) (f : Nat) (forms : List Form) (P : Out)
    (h : seqForms (ppLevel cfg f) forms = .ok P) : Good P ∧ ListedOK cfg P ∧ Back P :=
  ⟨seqForms_ind (by intro r hr; cases hr) good_append forms
      (fun g _ o ho => good_ppLevel cfg f g o ho) P h,
   seqForms_ind (P := ListedOK cfg) (by intro x hx; cases hx)
      (by intro a b ha hb x hx
          simp only [Out.append, List.mem_append] at hx
          exact hx.elim (ha x) (hb x)) forms
      (fun g _ o ho => listedOK_ppLevel cfg f g o ho) P h,
   seqForms_ind (by intro x hx; cases hx) back_append forms
      (fun g _ o ho => back_ppLevel cfg f g o ho) P h⟩

/-- the relation between the reads of one run and the listing of another: every read is a
    pseudo-file or listed, every listed name is a pseudo-file or was read. -/
def Rel (rs : List Read) (ls : List RName) : Prop :=
  (∀ r ∈ rs, r.res.isPseudo = true ∨ r.res ∈ ls) ∧
  (∀ x ∈ ls, x.isPseudo = true ∨ ∃ r ∈ rs, r.res = x)

theorem rel_nil : Rel [] [] := by
  constructor
  · intro r hr; cases hr
  · intro x hx; cases hx

theorem rel_append {r1 r2 : List Read} {l1 l2 : List RName} (h1 : Rel r1 l1) (h2 : Rel r2 l2) :
    Rel (r1 ++ r2) (l1 ++ l2) := by
  constructor
  · intro r hr
    simp only [List.mem_append] at hr ⊢
    rcases hr with hr | hr
    · exact (h1.1 r hr).imp_right .inl
    · exact (h2.1 r hr).imp_right .inr
  · intro x hx
    simp only [List.mem_append] at hx
    rcases hx with hx | hx
    · rcases h1.2 x hx with h | ⟨r, hr, he⟩
      · exact .inl h
      · exact .inr ⟨r, List.mem_append_left _ hr, he⟩
    · rcases h2.2 x hx with h | ⟨r, hr, he⟩
      · exact .inl h
      · exact .inr ⟨r, List.mem_append_right _ hr, he⟩

theorem rel_pseudo {mr : List Read} {ml : List RName}
    (hr : ∀ r ∈ mr, r.res.isPseudo = true) (hl : ∀ x ∈ ml, x.isPseudo = true) : Rel mr ml :=
  ⟨fun r h => .inl (hr r h), fun x h => .inl (hl x h)⟩

theorem rel_tag {rs : List Read} {ls : List RName} (b : Bool) (h : Rel rs ls) :
    Rel (tagNested b rs) ls := by
  constructor
  · intro r hr
    simp only [tagNested, List.mem_map] at hr
    obtain ⟨r0, hr0, rfl⟩ := hr
    exact h.1 r0 hr0
  · intro x hx
    rcases h.2 x hx with hp | ⟨r, hr, he⟩
    · exact .inl hp
    · refine .inr ⟨⟨r.res, r.embed, r.nested || b⟩, ?_, he⟩
      simp only [tagNested, List.mem_map]
      exact ⟨r, hr, rfl⟩

theorem compileHelpers_other_prefix {fe : List Form → R} {m : List Form}
    (hm : m = [] ∨ m = [.other]) (fs : List Form) :
    compileHelpers fe (m ++ fs) = compileHelpers fe fs := by
  rcases hm with rfl | rfl
  · rfl
  · simp [compileHelpers]

theorem compileHelpers_cons_nested_ok {fe : List Form → R} {b : List Form} {fs : List Form} {o : Out}
    (h : compileHelpers fe (.nested b :: fs) = .ok o) :
    ∃ a c, fe b = .ok a ∧ compileHelpers fe fs = .ok c ∧
      o = ⟨a.reads ++ c.reads, a.listed ++ c.listed, []⟩ := by
  simp only [compileHelpers] at h
  split at h
  · cases h
  · rename_i a ha
    split at h
    · cases h
    · rename_i c hc
      injection h with h
      exact ⟨a, c, ha, hc, h.symm⟩

/-- two runs of the helper compiler over the same forms, with nested frontends related by `Rel`. -/
theorem compileHelpers_rel {fc fg : List Form → R}
    (hfe : ∀ b oc og, fc b = .ok oc → fg b = .ok og → Rel oc.reads og.listed) :
    ∀ fs sc sg, compileHelpers fc fs = .ok sc → compileHelpers fg fs = .ok sg →
      Rel sc.reads sg.listed := by
  intro fs
  induction fs with
  | nil =>
    intro sc sg hc hg
    simp only [compileHelpers] at hc hg
    injection hc with hc; injection hg with hg; subst hc hg
    exact rel_nil
  | cons f fs ih =>
    intro sc sg hc hg
    cases f with
    | incl n => simp [compileHelpers] at hc
    | embed k n => simp [compileHelpers] at hc
    | other => simp only [compileHelpers] at hc hg; exact ih sc sg hc hg
    | nested b =>
      obtain ⟨a, c, ha, hc', rfl⟩ := compileHelpers_cons_nested_ok hc
      obtain ⟨a', c', ha', hg', rfl⟩ := compileHelpers_cons_nested_ok hg
      exact rel_append (hfe b a a' ha ha') (ih c c' hc' hg')

theorem compileHelpers_listed {fe : List Form → R} {Q : RName → Prop}
    (hfe : ∀ b o, fe b = .ok o → ∀ x ∈ o.listed, Q x) :
    ∀ fs o, compileHelpers fe fs = .ok o → ∀ x ∈ o.listed, Q x := by
  intro fs
  induction fs with
  | nil => intro o h x hx; simp only [compileHelpers] at h; injection h with h; subst h; cases hx
  | cons f fs ih =>
    intro o h
    cases f with
    | incl n => simp [compileHelpers] at h
    | embed k n => simp [compileHelpers] at h
    | other => simp only [compileHelpers] at h; exact ih o h
    | nested b =>
      obtain ⟨a, c, ha, hc, rfl⟩ := compileHelpers_cons_nested_ok h
      intro x hx
      simp only [List.mem_append] at hx
      exact hx.elim (hfe b a ha x) (ih c hc x)

/-- shape of a successful `frontend` run. -/
theorem frontend_ok {cfg : Cfg} {stdenv : Bool} {fuel : Nat} {nst : Bool} {forms : List Form} {o : Out}
    (h : frontendLevel cfg stdenv fuel nst forms = .ok o) :
    ∃ f pre sub, fuel = f + 1 ∧ preprocess cfg stdenv f forms = .ok pre ∧
      compileHelpers (frontendLevel cfg stdenv f true) pre.forms = .ok sub ∧
      o.reads = tagNested nst pre.reads ++ sub.reads ∧ o.listed = pre.listed ++ sub.listed := by
  cases fuel with
  | zero => simp [frontendLevel] at h
  | succ f =>
    simp only [frontendLevel] at h
    split at h
    · cases h
    · rename_i pre hpre
      split at h
      · cases h
      · rename_i sub hsub
        injection h with h; subst h
        exact ⟨f, pre, sub, rfl, hpre, hsub, rfl, rfl⟩

/-- MAIN LEMMA.  Two frontend runs over the same forms (whatever their `stdenv` settings and
    nesting flags — the compilation runs with the standard environment, the listing with
    `stdenv := dialect.strict`): every read of the first is a pseudo-file or is listed by the
    second, and every name listed by the second is a pseudo-file or is read by the first.  This
    covers embed-file targets and every level of nested `(mod …)`. -/
theorem frontend_rel (cfg : Cfg) (s1 s2 : Bool) :
    ∀ fuel n1 n2 forms oc og, frontendLevel cfg s1 fuel n1 forms = .ok oc →
      frontendLevel cfg s2 fuel n2 forms = .ok og → Rel oc.reads og.listed := by
  intro fuel
  induction fuel with
  | zero => intro n1 n2 forms oc og h; simp [frontendLevel] at h
  | succ F ih =>
    intro n1 n2 forms oc og hc hg
    obtain ⟨f, pre1, sub1, hf, hpre1, hsub1, hreads, _⟩ := frontend_ok hc
    obtain ⟨f', pre2, sub2, hf', hpre2, hsub2, _, hlisted⟩ := frontend_ok hg
    have : f = F := by omega
    subst this
    have : f' = f := by omega
    subst this
    obtain ⟨m1, P, hP, rfl, _, hm1r, hm1f⟩ := preprocess_split hpre1
    obtain ⟨m2, P', hP', rfl, hm2l, _, hm2f⟩ := preprocess_split hpre2
    rw [hP] at hP'; injection hP' with hP'; subst hP'
    obtain ⟨hgood, _, hback⟩ := seq_good cfg _ forms P hP
    have hPrel : Rel P.reads P.listed :=
      ⟨hgood, fun x hx => .inr (hback x hx)⟩
    simp only [Out.append] at hsub1 hsub2 hreads hlisted
    rw [compileHelpers_other_prefix hm1f] at hsub1
    rw [compileHelpers_other_prefix hm2f] at hsub2
    rw [hreads, hlisted]
    exact rel_append (rel_tag n1 (rel_append (rel_pseudo hm1r hm2l) hPrel))
      (compileHelpers_rel (fun b oc og h1 h2 => ih true true b oc og h1 h2) _ sub1 sub2 hsub1 hsub2)

/-- every name a frontend run lists is a pseudo-file or a first match in search-path order. -/
theorem frontend_listedOK (cfg : Cfg) (s : Bool) :
    ∀ fuel nst forms o, frontendLevel cfg s fuel nst forms = .ok o → ∀ x ∈ o.listed, NameOK cfg x := by
  intro fuel
  induction fuel with
  | zero => intro nst forms o h; simp [frontendLevel] at h
  | succ F ih =>
    intro nst forms o h
    obtain ⟨f, pre, sub, hf, hpre, hsub, _, hlisted⟩ := frontend_ok h
    have : f = F := by omega
    subst this
    obtain ⟨m, P, hP, rfl, hml, _, _⟩ := preprocess_split hpre
    obtain ⟨_, hok, _⟩ := seq_good cfg _ forms P hP
    intro x hx
    rw [hlisted] at hx
    simp only [Out.append, List.mem_append] at hx
    rcases hx with (hx | hx) | hx
    · exact .inl (hml x hx)
    · exact hok x hx
    · exact compileHelpers_listed (fun b o hb => ih true b o hb) _ sub hsub x hx

-- termination ------------------------------------------------------------------------------------

/-- `rk` is a rank for the include graph: every file includes only files of smaller rank. -/
def Ranked (cfg : Cfg) (rk : Nat → Nat) : Prop :=
  ∀ n i forms, resolveSrc cfg.dirs 0 n = some (i, forms) → ∀ m ∈ inclsOf forms, rk m < rk n

theorem mem_inclsOf {forms : List Form} {m : Nat} (h : Form.incl (.file m) ∈ forms) : m ∈ inclsOf forms := by
  induction forms with
  | nil => cases h
  | cons g r ih =>
    simp only [List.mem_cons] at h
    rcases h with h | h
    · subst h; simp [inclsOf]
    · have := ih h
      cases g with
      | incl n => cases n <;> simp [inclsOf, this]
      | embed k n => simp [inclsOf, this]
      | nested b => simp [inclsOf, this]
      | other => simp [inclsOf, this]

theorem ppLevel_no_fuel (cfg : Cfg) (rk : Nat → Nat) (hrk : Ranked cfg rk) :
    ∀ fuel f, 2 ≤ fuel → (∀ m, f = .incl (.file m) → rk m + 3 ≤ fuel) →
      ppLevel cfg fuel f ≠ .error .fuel := by
  intro fuel
  induction fuel with
  | zero => intro f h; omega
  | succ F ih =>
    intro f h2 hf
    have hF : 1 ≤ F := by omega
    cases f with
    | other => simp [ppLevel]
    | nested b => simp [ppLevel]
    | embed k n => exact ppLevel_embed_fuel
    | incl n =>
      -- the forms of the included file never run out of fuel
      have hforms : ∀ r forms, readNew cfg.dirs n = some (r, forms) →
          seqForms (ppLevel cfg F) forms ≠ .error .fuel := by
        intro r forms hr
        cases n with
        | macros =>
          obtain ⟨_, rfl⟩ := readNew_pseudo hr (fun m e => by cases e)
          obtain ⟨F', rfl⟩ : ∃ F', F = F' + 1 := ⟨F - 1, by omega⟩
          simp [seqForms, ppLevel]
        | dialect k =>
          obtain ⟨_, rfl⟩ := readNew_pseudo hr (fun m e => by cases e)
          obtain ⟨F', rfl⟩ : ∃ F', F = F' + 1 := ⟨F - 1, by omega⟩
          simp [seqForms, ppLevel]
        | file m =>
          have hm := hf m rfl
          simp only [readNew] at hr
          split at hr
          · rename_i i fs hres
            injection hr with hr; injection hr with _ h2'; subst h2'
            apply seqForms_fuel
            intro g hg
            apply ih g (by omega)
            intro m' hm'
            subst hm'
            have := hrk m i fs hres m' (mem_inclsOf hg)
            omega
          · cases hr
      simp only [ppLevel]
      have hrec : recurseDeps cfg (ppLevel cfg F) n ≠ .error .fuel := by
        cases n with
        | dialect k => simp [recurseDeps]
        | macros =>
          simp only [recurseDeps]
          split
          · simp
          · rename_i r forms hr
            have := hforms r forms hr
            split
            · rename_i e he; intro h; injection h with h; subst h; exact this he
            · simp
        | file m =>
          simp only [recurseDeps]
          split
          · simp
          · rename_i r forms hr
            have := hforms r forms hr
            split
            · rename_i e he; intro h; injection h with h; subst h; exact this he
            · simp
      have hinc : processInclude cfg (ppLevel cfg F) n ≠ .error .fuel := by
        simp only [processInclude]
        split
        · simp
        · rename_i r forms hr
          have := hforms r forms hr
          split
          · split
            · rename_i e he; intro h; injection h with h; subst h; exact this he
            · simp
          · simp
      cases h1 : recurseDeps cfg (ppLevel cfg F) n with
      | error e => simp only; intro h; injection h with h; subst h; exact hrec h1
      | ok a =>
        simp only
        cases h3 : processInclude cfg (ppLevel cfg F) n with
        | error e => simp only; intro h; injection h with h; subst h; exact hinc h3
        | ok b => simp

theorem compileHelpers_flat {fe : List Form → R} :
    ∀ fs, flatForms fs = true → compileHelpers fe fs ≠ .error .fuel := by
  intro fs
  induction fs with
  | nil => simp [compileHelpers]
  | cons f r ih =>
    intro h
    cases f with
    | incl n => simp [compileHelpers]
    | embed k n => simp [compileHelpers]
    | nested b => simp [flatForms] at h
    | other => simp only [compileHelpers]; exact ih (by simpa [flatForms] using h)

theorem flatForms_append (a b : List Form) :
    flatForms (a ++ b) = (flatForms a && flatForms b) := by
  induction a with
  | nil => simp [flatForms]
  | cons f r ih => cases f <;> simp [flatForms, ih]

/-- every source file in every search directory is free of nested mods. -/
def FlatFiles (cfg : Cfg) : Prop :=
  ∀ n i forms, resolveSrc cfg.dirs 0 n = some (i, forms) → flatForms forms = true

theorem flat_ppLevel (cfg : Cfg) (hflat : FlatFiles cfg) :
    ∀ fuel f o, (∀ b, f ≠ .nested b) → ppLevel cfg fuel f = .ok o → flatForms o.forms = true := by
  intro fuel
  induction fuel with
  | zero => intro f o _ h; simp [ppLevel] at h
  | succ F ih =>
    have hseq : ∀ forms, flatForms forms = true → ∀ sub, seqForms (ppLevel cfg F) forms = .ok sub →
        flatForms sub.forms = true := by
      intro forms
      induction forms with
      | nil => intro _ sub h; simp only [seqForms] at h; injection h with h; subst h; rfl
      | cons g r ihr =>
        intro hfl sub h
        obtain ⟨a, b, ha, hb, rfl⟩ := seqForms_cons_ok h
        have hg : ∀ b, g ≠ .nested b := by intro b e; subst e; simp [flatForms] at hfl
        have hr : flatForms r = true := by cases g <;> simp_all [flatForms]
        simp only [Out.append, flatForms_append, Bool.and_eq_true]
        exact ⟨ih g a hg ha, ihr hr b hb⟩
    intro f o hf h
    cases f with
    | other => simp only [ppLevel] at h; injection h with h; subst h; rfl
    | nested b => exact absurd rfl (hf b)
    | embed k n =>
      obtain ⟨i, v, _, rfl⟩ := ppLevel_embed_ok h
      rfl
    | incl n =>
      obtain ⟨a, b, ha, hb, rfl⟩ := ppLevel_incl_ok h
      have hfa : a.forms = [] := by
        rcases recurseDeps_ok ha with ⟨_, rfl⟩ | ⟨_, r, forms, sub, _, _, rfl⟩ <;> rfl
      obtain ⟨r, forms, hr, hcase⟩ := processInclude_ok hb
      have hff : flatForms forms = true := by
        cases n with
        | macros => obtain ⟨_, rfl⟩ := readNew_pseudo hr (fun m e => by cases e); rfl
        | dialect k => obtain ⟨_, rfl⟩ := readNew_pseudo hr (fun m e => by cases e); rfl
        | file m =>
          simp only [readNew] at hr
          split at hr
          · rename_i i fs hres
            injection hr with hr; injection hr with _ h2; subst h2
            exact hflat m i fs hres
          · cases hr
      simp only [Out.append, hfa, List.nil_append]
      rcases hcase with ⟨_, sub, hs, rfl⟩ | ⟨_, rfl⟩
      · exact hseq forms hff sub hs
      · exact hff

theorem flat_mem {fs : List Form} (h : flatForms fs = true) : ∀ g ∈ fs, ∀ b, g ≠ .nested b := by
  induction fs with
  | nil => intro g hg; cases hg
  | cons x r ih =>
    intro g hg b e
    simp only [List.mem_cons] at hg
    rcases hg with hg | hg
    · subst hg; subst e; simp [flatForms] at h
    · exact ih (by cases x <;> simp_all [flatForms]) g hg b e

theorem seq_flat (cfg : Cfg) (hflat : FlatFiles cfg) (fuel : Nat) :
    ∀ fs pre, (∀ g ∈ fs, ∀ b, g ≠ .nested b) → seqForms (ppLevel cfg fuel) fs = .ok pre →
      flatForms pre.forms = true := by
  intro fs
  induction fs with
  | nil => intro pre _ h; simp only [seqForms] at h; injection h with h; subst h; rfl
  | cons g r ih =>
    intro pre hall h
    obtain ⟨a, b, ha, hb, rfl⟩ := seqForms_cons_ok h
    simp only [Out.append, flatForms_append, Bool.and_eq_true]
    exact ⟨flat_ppLevel cfg hflat fuel g a (hall g (List.mem_cons_self ..)) ha,
           ih b (fun g' hg' => hall g' (List.mem_cons_of_mem _ hg')) hb⟩

theorem macros_err {cfg : Cfg} {F : Nat} {e : Err} (h : ppLevel cfg F (.incl .macros) = .error e) :
    e = .fuel := by
  cases F with
  | zero => simp only [ppLevel] at h; injection h with h; exact h.symm
  | succ F =>
    cases F with
    | zero =>
      simp [ppLevel, recurseDeps, readNew, seqForms] at h
      exact h.symm
    | succ F =>
      simp only [ppLevel, recurseDeps, processInclude, readNew, seqForms] at h
      split at h
      · rename_i heq
        split at heq <;> cases heq
      · cases h

end Deps
