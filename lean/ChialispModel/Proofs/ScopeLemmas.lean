/-
  Proofs/ScopeLemmas.lean — lemmas for the scope theorems of C10 on the core compiler model:
  code generation succeeds exactly on closed expressions; the helper tree only resolves
  helper names.
-/
import ChialispModel.Lang.Scope
import ChialispModel.Proofs.EnvLemmas
import ChialispModel.Proofs.CoreLemmas

namespace Core

mutual
theorem compileE_isSome (env : Rich) : (e : Expr) → (compileE env e).isSome = closedE env e
  | .var n => by simp [compileE, closedE]
  | .lit v => by simp [compileE, closedE]
  | .op code as => by
    have := compileArgs_isSome env as
    simp only [compileE, closedE, Option.isSome_map]; exact this
  | .ite c a b => by
    have hc := compileE_isSome env c
    have ha := compileE_isSome env a
    have hb := compileE_isSome env b
    simp only [compileE, closedE]
    cases h1 : compileE env c <;> cases h2 : compileE env a <;> cases h3 : compileE env b <;>
      simp_all
  | .call f as => by
    have has := compileCallArgs_isSome env as
    simp only [compileE, closedE]
    cases h1 : Lang.nameLookup f env <;> cases h2 : compileCallArgs env as <;> simp_all
theorem compileArgs_isSome (env : Rich) : (as : Exprs) → (compileArgs env as).isSome = closedEs env as
  | .nil => by simp [compileArgs, closedEs]
  | .cons e r => by
    have he := compileE_isSome env e
    have hr := compileArgs_isSome env r
    simp only [compileArgs, closedEs]
    cases h1 : compileE env e <;> cases h2 : compileArgs env r <;> simp_all
theorem compileCallArgs_isSome (env : Rich) : (as : Exprs) → (compileCallArgs env as).isSome = closedEs env as
  | .nil => by simp [compileCallArgs, closedEs]
  | .cons e r => by
    have he := compileE_isSome env e
    have hr := compileCallArgs_isSome env r
    simp only [compileCallArgs, closedEs]
    cases h1 : compileE env e <;> cases h2 : compileCallArgs env r <;> simp_all
end

theorem compileFns_isSome (names : List Bytes) (fs : List FnDef) :
    (compileFns names fs).isSome = closedFns names fs := by
  induction fs with
  | nil => simp [compileFns, closedFns]
  | cons f r ih =>
    have hf := compileE_isSome (Lang.envShape names f.params) f.body
    simp only [closedFns, List.all_cons] at ih ⊢
    simp only [compileFns]
    cases h1 : compileE (Lang.envShape names f.params) f.body <;> cases h2 : compileFns names r <;>
      simp_all

theorem liveFns_eq_keep (P : Prog) : liveFns P = keep P.fns (liveSet P) := rfl

theorem compileWith_isSome (FS : List FnDef) (params : Rich) (body : Expr) :
    (compileWith FS params body).isSome =
      (closedE (Lang.envShape (FS.map (·.name)) params) body && closedFns (FS.map (·.name)) FS) := by
  have h1 := compileE_isSome (Lang.envShape (FS.map (·.name)) params) body
  have h2 := compileFns_isSome (FS.map (·.name)) FS
  unfold compileWith
  cases h3 : compileE (Lang.envShape (FS.map (·.name)) params) body <;>
    cases h4 : compileFns (FS.map (·.name)) FS <;> simp_all

theorem compileCore_isSome (P : Prog) : (compileCore P).isSome = closedProg P := by
  rw [compileCore_eq, compileWith_isSome]
  rfl

theorem compileCoreStrict_isSome (P : Prog) :
    (compileCoreStrict P).isSome = (nodupB (liveNames P) && closedProg P) := by
  unfold compileCoreStrict
  cases h : nodupB (liveNames P) <;> simp [compileCore_isSome]

mutual
theorem closedE_vars (env : Rich) : (e : Expr) → closedE env e = true →
    ∀ n ∈ varsOf e, (Lang.nameLookup n env).isSome = true
  | .var m, h => by
    intro n hn
    simp only [varsOf, List.mem_singleton] at hn
    subst hn; simpa [closedE] using h
  | .lit _, _ => by intro n hn; simp [varsOf] at hn
  | .op _ as, h => by
    intro n hn
    exact closedEs_vars env as (by simpa [closedE] using h) n (by simpa [varsOf] using hn)
  | .ite c a b, h => by
    intro n hn
    simp only [closedE, Bool.and_eq_true] at h
    simp only [varsOf, List.mem_append] at hn
    rcases hn with (hn | hn) | hn
    · exact closedE_vars env c h.1.1 n hn
    · exact closedE_vars env a h.1.2 n hn
    · exact closedE_vars env b h.2 n hn
  | .call _ as, h => by
    intro n hn
    simp only [closedE, Bool.and_eq_true] at h
    exact closedEs_vars env as h.2 n (by simpa [varsOf] using hn)
theorem closedEs_vars (env : Rich) : (as : Exprs) → closedEs env as = true →
    ∀ n ∈ varsOfs as, (Lang.nameLookup n env).isSome = true
  | .nil, _ => by intro n hn; simp [varsOfs] at hn
  | .cons e r, h => by
    intro n hn
    simp only [closedEs, Bool.and_eq_true] at h
    simp only [varsOfs, List.mem_append] at hn
    rcases hn with hn | hn
    · exact closedE_vars env e h.1 n hn
    · exact closedEs_vars env r h.2 n hn
end

mutual
theorem closedE_calls (env : Rich) : (e : Expr) → closedE env e = true →
    ∀ n ∈ callsOf e, (Lang.nameLookup n env).isSome = true
  | .var _, _ => by intro n hn; simp [callsOf] at hn
  | .lit _, _ => by intro n hn; simp [callsOf] at hn
  | .op _ as, h => by
    intro n hn
    exact closedEs_calls env as (by simpa [closedE] using h) n (by simpa [callsOf] using hn)
  | .ite c a b, h => by
    intro n hn
    simp only [closedE, Bool.and_eq_true] at h
    simp only [callsOf, List.mem_append] at hn
    rcases hn with (hn | hn) | hn
    · exact closedE_calls env c h.1.1 n hn
    · exact closedE_calls env a h.1.2 n hn
    · exact closedE_calls env b h.2 n hn
  | .call f as, h => by
    intro n hn
    simp only [closedE, Bool.and_eq_true] at h
    simp only [callsOf, List.mem_cons] at hn
    rcases hn with hn | hn
    · subst hn; exact h.1
    · exact closedEs_calls env as h.2 n hn
theorem closedEs_calls (env : Rich) : (as : Exprs) → closedEs env as = true →
    ∀ n ∈ callsOfs as, (Lang.nameLookup n env).isSome = true
  | .nil, _ => by intro n hn; simp [callsOfs] at hn
  | .cons e r, h => by
    intro n hn
    simp only [closedEs, Bool.and_eq_true] at h
    simp only [callsOfs, List.mem_append] at hn
    rcases hn with hn | hn
    · exact closedE_calls env e h.1 n hn
    · exact closedEs_calls env r h.2 n hn
end

/-- duplicate-free per `nodupB` means no value sits at two positions. -/
theorem nodupB_no_repeat (l : List Bytes) (h : nodupB l = true) (i j : Nat) (x : Bytes)
    (hij : i < j) (hi : l[i]? = some x) (hj : l[j]? = some x) : False := by
  induction l generalizing i j with
  | nil => simp at hi
  | cons y ys ih =>
    simp only [nodupB, Bool.and_eq_true, Bool.not_eq_true', List.contains_eq_mem,
      decide_eq_false_iff_not] at h
    cases j with
    | zero => omega
    | succ j' =>
      cases i with
      | zero =>
        simp only [List.getElem?_cons_zero, Option.some.injEq] at hi
        simp only [List.getElem?_cons_succ] at hj
        subst hi
        exact h.1 (List.mem_of_getElem? hj)
      | succ i' =>
        simp only [List.getElem?_cons_succ] at hi hj
        exact ih h.2 i' j' (by omega) hi hj

/-- the balanced helper tree resolves only helper names. -/
theorem nameLookup_buildTree (n : Bytes) (fuel : Nat) (names : List Bytes)
    (hat : ∀ m ∈ names, m ≠ [64]) (q : Nat)
    (h : Lang.nameLookup n (Lang.buildTree names fuel) = some q) : n ∈ names := by
  induction fuel generalizing names q with
  | zero => simp [Lang.buildTree, Lang.nameLookup] at h
  | succ f ih =>
    unfold Lang.buildTree at h
    split at h
    · simp [Lang.nameLookup] at h
    · rename_i m
      simp only [Lang.nameLookup] at h
      split at h
      · rename_i heq
        simp only [beq_iff_eq] at heq
        simp [heq]
      · cases h
    · rename_i hne1 hne2
      have hl : ∀ m ∈ names.take (names.length / 2), m ≠ [64] :=
        fun m hm => hat m (List.mem_of_mem_take hm)
      have hr : ∀ m ∈ names.drop (names.length / 2), m ≠ [64] :=
        fun m hm => hat m (List.mem_of_mem_drop hm)
      rw [Lang.nameLookup_cons] at h
      · cases h1 : Lang.nameLookup n (Lang.buildTree (names.take (names.length / 2)) f) with
        | some v => exact List.mem_of_mem_take (ih _ hl v h1)
        | none =>
          rw [h1] at h
          cases h2 : Lang.nameLookup n (Lang.buildTree (names.drop (names.length / 2)) f) with
          | some v => exact List.mem_of_mem_drop (ih _ hr v h2)
          | none => rw [h2] at h; simp at h
      · intro cap sub ha _
        exact buildTree_ne_at _ f hl ha

/-- a name that resolves in `(helpers-tree . params)` is a helper name or is bound by the
    parameter pattern (no helper may be called `@`). -/
theorem nameLookup_envShape (n : Bytes) (names : List Bytes) (params : Rich)
    (hat : ∀ m ∈ names, m ≠ [64])
    (h : (Lang.nameLookup n (Lang.envShape names params)).isSome = true) :
    n ∈ names ∨ (Lang.nameLookup n params).isSome = true := by
  unfold Lang.envShape at h
  rw [Lang.nameLookup_cons] at h
  · cases h1 : Lang.nameLookup n (Lang.buildTree names (names.length + 1)) with
    | some v => exact .inl (nameLookup_buildTree n _ names hat v h1)
    | none =>
      rw [h1] at h
      cases h2 : Lang.nameLookup n params with
      | some v => exact .inr rfl
      | none => rw [h2] at h; simp at h
  · intro cap sub ha _
    exact buildTree_ne_at _ _ hat ha

end Core

namespace QQ

mutual
theorem evals_qqExpr : (t : Rich) → noQuoteHead t = true → ∀ F, qqExpr t = some F →
    evals F = unquotesOf t
  | .cons f r, h, F, hF => by
    simp only [noQuoteHead, Bool.and_eq_true, Bool.not_eq_true'] at h
    obtain ⟨hq, hrest⟩ := h
    simp only [qqExpr, hq, Bool.false_eq_true, if_false] at hF
    simp only [unquotesOf]
    -- the three shapes of `properL r`
    cases hp : properL r with
    | none =>
      simp only [hp] at hF hrest ⊢
      simp only [Bool.and_eq_true] at hrest
      cases ha : qqExpr f with
      | none => simp [ha] at hF
      | some a =>
        cases hd : qqList r with
        | none => simp [ha, hd] at hF
        | some d =>
          simp only [ha, hd, Option.some.injEq] at hF
          subst hF
          simp only [evals, evals_qqExpr f hrest.1 a ha, evals_qqList r hrest.2 d hd]
    | some l =>
      match l, hp with
      | [x], hp =>
        simp only [hp] at hF hrest ⊢
        by_cases hquote : opBytes f = kwQuote
        · simp only [hquote, beq_self_eq_true, if_true, Option.some.injEq] at hF
          subst hF; simp [evals, hquote]
        · by_cases hunq : opBytes f = kwUnquote
          · have hkq : (kwUnquote == kwQuote) = false := by decide
            rw [hunq] at hF ⊢
            simp only [hkq, Bool.false_eq_true, if_false, beq_self_eq_true, if_true,
              Option.some.injEq] at hF
            subst hF
            simp [evals, hkq]
          · have hne1 : (opBytes f == kwQuote) = false := by simpa using hquote
            have hne2 : (opBytes f == kwUnquote) = false := by simpa using hunq
            simp only [hne1, hne2, Bool.false_eq_true, if_false, Bool.or_self,
              Bool.and_eq_true] at hF hrest ⊢
            cases ha : qqExpr f with
            | none => simp [ha] at hF
            | some a =>
              cases hd : qqList r with
              | none => simp [ha, hd] at hF
              | some d =>
                simp only [ha, hd, Option.some.injEq] at hF
                subst hF
                simp only [evals, evals_qqExpr f hrest.1 a ha, evals_qqList r hrest.2 d hd]
      | [], hp =>
        simp only [hp, Bool.and_eq_true] at hF hrest ⊢
        split at hF
        · cases hF
        · cases ha : qqExpr f with
          | none => simp [ha] at hF
          | some a =>
            cases hd : qqList r with
            | none => simp [ha, hd] at hF
            | some d =>
              simp only [ha, hd, Option.some.injEq] at hF
              subst hF
              simp only [evals, evals_qqExpr f hrest.1 a ha, evals_qqList r hrest.2 d hd]
      | _ :: _ :: _, hp =>
        simp only [hp, Bool.and_eq_true] at hF hrest ⊢
        split at hF
        · cases hF
        · cases ha : qqExpr f with
          | none => simp [ha] at hF
          | some a =>
            cases hd : qqList r with
            | none => simp [ha, hd] at hF
            | some d =>
              simp only [ha, hd, Option.some.injEq] at hF
              subst hF
              simp only [evals, evals_qqExpr f hrest.1 a ha, evals_qqList r hrest.2 d hd]
  | .nil, _, F, hF => by simp only [qqExpr, Option.some.injEq] at hF; subst hF; simp [evals, unquotesOf]
  | .atom _, _, F, hF => by simp only [qqExpr, Option.some.injEq] at hF; subst hF; simp [evals, unquotesOf]
  | .int _, _, F, hF => by simp only [qqExpr, Option.some.injEq] at hF; subst hF; simp [evals, unquotesOf]
  | .qstr _ _, _, F, hF => by simp only [qqExpr, Option.some.injEq] at hF; subst hF; simp [evals, unquotesOf]
theorem evals_qqList : (t : Rich) → noQuoteHeadList t = true → ∀ F, qqList t = some F →
    evals F = unquotesOfList t
  | .cons f r, h, F, hF => by
    simp only [noQuoteHeadList, Bool.and_eq_true] at h
    simp only [qqList] at hF
    cases ha : qqExpr f with
    | none => simp [ha] at hF
    | some a =>
      cases hd : qqList r with
      | none => simp [ha, hd] at hF
      | some d =>
        simp only [ha, hd, Option.some.injEq] at hF
        subst hF
        simp only [evals, unquotesOfList, evals_qqExpr f h.1 a ha, evals_qqList r h.2 d hd]
  | .nil, _, F, hF => by simp only [qqList, Option.some.injEq] at hF; subst hF; simp [evals, unquotesOfList]
  | .atom _, _, F, hF => by simp [qqList] at hF
  | .int _, _, F, hF => by simp [qqList] at hF
  | .qstr _ _, _, F, hF => by simp [qqList] at hF
end

end QQ
