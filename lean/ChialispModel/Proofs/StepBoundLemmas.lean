/-
  Proofs/StepBoundLemmas.lean — the iteration limit of the step machine (`compiler::clvm::run`
  with `iter_limit = Some(lim)`), and termination of the UNLIMITED nested run that
  `translate_head` starts for a `Cons(_, _, Nil)` head.  Used by Props/C14.lean.
-/
import ChialispModel.Clvm.Step

namespace Step
open Rich

/-- `k` calls of the step function, none of which fails or finishes -/
inductive Steps (stepf : Config → Except RunErr Config) : Nat → Config → Config → Prop where
  | refl (c : Config) : Steps stepf 0 c c
  | step {k : Nat} {c c' c'' : Config} (h : stepf c = .ok c') (hnd : ∀ x, c' ≠ .done x)
      (rest : Steps stepf k c' c'') : Steps stepf (k + 1) c c''

/-- the loop of `run` under `iter_limit = Some(lim)`: a value or an error after at most `lim`
    calls of `run_step`, or "timeout" after exactly `lim` calls. -/
theorem runLoop_bounded (stepf : Config → Except RunErr Config) (lim : Nat) (c : Config) :
    (∃ k c', k < lim ∧ Steps stepf k c c' ∧
        ((∃ x, stepf c' = .ok (.done x) ∧ runLoop stepf lim c = .ok x) ∨
         (∃ e, stepf c' = .error e ∧ runLoop stepf lim c = .error e))) ∨
    (∃ c', Steps stepf lim c c' ∧ runLoop stepf lim c = .error .timeout) := by
  induction lim generalizing c with
  | zero => exact .inr ⟨c, .refl c, rfl⟩
  | succ n ih =>
    cases hs : stepf c with
    | error e =>
      refine .inl ⟨0, c, Nat.succ_pos _, .refl c, .inr ⟨e, hs, ?_⟩⟩
      simp [runLoop, hs]
    | ok c1 =>
      by_cases hd : ∃ x, c1 = .done x
      · obtain ⟨x, rfl⟩ := hd
        refine .inl ⟨0, c, Nat.succ_pos _, .refl c, .inl ⟨x, hs, ?_⟩⟩
        simp [runLoop, hs]
      · have hnd : ∀ x, c1 ≠ .done x := fun x h => hd ⟨x, h⟩
        have hrun : runLoop stepf (n + 1) c = runLoop stepf n c1 := by
          cases c1 with
          | done x => exact absurd rfl (hnd x)
          | opResult _ _ => simp only [runLoop, hs]
          | op _ _ _ _ _ => simp only [runLoop, hs]
          | step _ _ _ => simp only [runLoop, hs]
        rcases ih c1 with ⟨k, c', hk, hst, hres⟩ | ⟨c', hst, hres⟩
        · refine .inl ⟨k + 1, c', Nat.succ_lt_succ hk, .step hs hnd hst, ?_⟩
          rw [hrun]; exact hres
        · refine .inr ⟨c', .step hs hnd hst, ?_⟩
          rw [hrun]; exact hres

/-- nesting of one-element-list heads: `(((x)))` has depth 2 over `x`. -/
def headDepth : Rich → Nat
  | .cons a .nil => headDepth a + 1
  | _ => 0

variable (hr : Rich → Rich → Except RunErr Rich) (m : Mode) (pm : PrimMap) (ops : OpSem)

theorem applyOp_ne_timeout (head args : Rich) : applyOp m ops head args ≠ .error .timeout := by
  unfold applyOp
  split <;> (intro h; cases h)

/-- an operator applied to NO operands finishes in three more steps. -/
theorem op_noargs_three (head ctx p : Rich) (n : Nat) :
    runLoop (runStep hr m pm ops) (n + 3) (.op head ctx .nil (some []) (.done p)) ≠ .error .timeout := by
  simp only [runLoop, runStep]
  unfold opNone
  cases atomValue head with
  | none => simp
  | some av =>
    simp only [properList, Rich.nilp]
    by_cases h3 : av = 3
    · simp [h3]
    by_cases h4 : av = 4
    · simp [h4]
    by_cases h2 : av = 2
    · simp [h2]
    by_cases h5 : av = 5
    · simp [h5]
    by_cases h6 : av = 6
    · simp [h6]
    simp only [h3, h4, h2, h5, h6, if_false]
    cases ha : applyOp m ops head .nil with
    | error e =>
      have : e ≠ .timeout := fun h => applyOp_ne_timeout m ops head .nil (by rw [ha, h])
      simp [this]
    | ok r => simp [runStep, combineDone]

/-- once the head of `(a)` is translated, the run of `(a)` needs at most four steps. -/
theorem head_form_after_translate (a ctx p head : Rich) (n : Nat)
    (ht : translateHead hr pm a ctx = .ok head) :
    runLoop (runStep hr m pm ops) (n + 4) (.step (.cons a .nil) ctx (.done p)) ≠ .error .timeout := by
  have h3 := op_noargs_three hr m pm ops
  simp only [runLoop, runStep, stepCons, ht]
  cases hav : atomValue head with
  | none => simp
  | some av =>
    simp only
    by_cases h1 : av = 1
    · simp [h1, combineDone]
    · simp only [h1, if_false, evalArgs, evalArgsGo]
      cases m <;> simp [truthy, atomValue] <;> exact h3 head ctx p n

/-- a refused operator atom is reported as "unknown operator", never as "timeout". -/
theorem translateBytes_ne_timeout (pm : PrimMap) (v : Bytes) : translateBytes pm v ≠ .error .timeout := by
  unfold translateBytes
  split
  · split <;> simp
  · simp

/-- the UNLIMITED run that `translate_head` starts on a `Cons(_, _, Nil)` head always ends:
    with any step limit of at least 4 and a recursion depth above the nesting of the head it
    never answers "timeout" (so by fuel monotonicity the unlimited run gives that answer). -/
theorem headRunner_terminates (lim : Nat) (hl : 4 ≤ lim) (a : Rich) :
    ∀ (d : Nat) (ctx : Rich), headDepth a < d →
      headRunner m pm ops lim d (.cons a .nil) ctx ≠ .error .timeout := by
  obtain ⟨n, rfl⟩ : ∃ n, lim = n + 4 := ⟨lim - 4, by omega⟩
  induction a with
  | nil =>
    intro d ctx hd
    cases d with
    | zero => exact absurd hd (Nat.not_lt_zero _)
    | succ d => simp [headRunner, start, runLoop, runStep, stepCons, translateHead]
  | int i =>
    intro d ctx hd
    cases d with
    | zero => exact absurd hd (Nat.not_lt_zero _)
    | succ d =>
      simp only [headRunner, start]
      exact head_form_after_translate _ m pm ops _ _ _ _ n rfl
  | qstr q v =>
    intro d ctx hd
    cases d with
    | zero => exact absurd hd (Nat.not_lt_zero _)
    | succ d =>
      simp only [headRunner, start]
      cases hh : translateBytes pm v with
      | error e =>
        have : e ≠ .timeout := fun h => translateBytes_ne_timeout pm v (by rw [hh, h])
        simp [runLoop, runStep, stepCons, translateHead, hh, this]
      | ok head =>
        exact head_form_after_translate _ m pm ops _ _ _ head n (by simp [translateHead, hh])
  | atom v =>
    intro d ctx hd
    cases d with
    | zero => exact absurd hd (Nat.not_lt_zero _)
    | succ d =>
      simp only [headRunner, start]
      cases hh : translateBytes pm v with
      | error e =>
        have : e ≠ .timeout := fun h => translateBytes_ne_timeout pm v (by rw [hh, h])
        simp [runLoop, runStep, stepCons, translateHead, hh, this]
      | ok head =>
        exact head_form_after_translate _ m pm ops _ _ _ head n (by simp [translateHead, hh])
  | cons x y ihx _ =>
    intro d ctx hd
    cases d with
    | zero => exact absurd hd (Nat.not_lt_zero _)
    | succ d =>
      simp only [headRunner, start]
      cases y with
      | nil =>
        have hd' : headDepth x < d := by simp [headDepth] at hd; omega
        have hin := ihx d ctx hd'
        cases hh : headRunner m pm ops (n + 4) d (.cons x .nil) ctx with
        | error e =>
          have : e ≠ .timeout := fun h => hin (by rw [hh, h])
          simp [runLoop, runStep, stepCons, translateHead, hh, this]
        | ok head =>
          exact head_form_after_translate (headRunner m pm ops (n + 4) d) m pm ops (.cons x .nil) ctx _ head n
            (by simp [translateHead, hh])
      | cons _ _ => simp [runLoop, runStep, stepCons, translateHead]
      | int _ => simp [runLoop, runStep, stepCons, translateHead]
      | qstr _ _ => simp [runLoop, runStep, stepCons, translateHead]
      | atom _ => simp [runLoop, runStep, stepCons, translateHead]

end Step
