/-
  Proofs/NodePathLemmas.lean — the Rust shift/mask loop of `compose_paths` is path
  composition; what `NodePath::new` does to an index; when `path_optimizer`'s index is the
  path clvmr traverses.
-/
import ChialispModel.Opt.NodePath
import ChialispModel.Proofs.PathAlgebra

namespace NodePath
open Path PathAlg

theorem new_ofNat (n : Nat) : new (Int.ofNat n) = n := by
  unfold new
  rw [if_neg (by simp)]
  simp

theorem new_nonneg {i : Int} (h : 0 ≤ i) : new i = i.toNat := by
  unfold new
  rw [if_neg (by omega)]

/-- loop invariant of `compose_paths`: after the loop both `path_1` and `mask` have been shifted
    left by the number of steps of `temp_path`. -/
theorem composeLoop_eq : ∀ (fuel t p1 m : Nat), t ≤ fuel →
    composeLoop fuel t p1 m = (p1 * 2 ^ depth t, m * 2 ^ depth t) := by
  intro fuel
  induction fuel with
  | zero =>
    intro t p1 m h
    have : t = 0 := by omega
    subst this
    simp [composeLoop, depth_le_one]
  | succ f ih =>
    intro t p1 m h
    simp only [composeLoop]
    split
    · rename_i ht
      have hd : depth t = depth (t / 2) + 1 := depth_step (by omega)
      rw [Nat.shiftRight_eq_div_pow, Nat.shiftLeft_eq, Nat.shiftLeft_eq, Nat.pow_one,
        ih (t / 2) _ _ (by omega), hd, Nat.pow_succ]
      simp only [Prod.mk.injEq]
      constructor
      · rw [Nat.mul_assoc, Nat.mul_comm 2]
      · rw [Nat.mul_assoc, Nat.mul_comm 2]
    · rename_i ht
      rw [depth_le_one (by omega)]; simp

/-- **`compose_paths` is path composition** (for a non-empty second path; the first may even be 0). -/
theorem composePaths_eq (p q : Nat) (hq : 1 ≤ q) : composePaths p q = compose p q := by
  unfold composePaths
  rw [composeLoop_eq p p q 1 (Nat.le_refl _)]
  simp only [Nat.one_mul]
  rw [Nat.and_two_pow_sub_one_eq_mod]
  have hlt : p % 2 ^ depth p < 2 ^ depth p := Nat.mod_lt _ (Nat.two_pow_pos _)
  rw [Nat.mul_comm q, ← Nat.two_pow_add_eq_or_of_lt hlt q, Nat.mul_comm]
  by_cases hp : 1 ≤ p
  · rw [compose_eq hp hq]
  · have : p = 0 := by omega
    subst this
    rw [compose_zero_left hq, depth_le_one (by omega)]
    simp

theorem first_root : first root = 2 := by unfold first root; exact new_ofNat _
theorem rest_root : rest root = 3 := by unfold rest root; exact new_ofNat _

theorem add_eq (a b : Nat) (hb : 1 ≤ b) : add a b = compose a b := by
  unfold add; rw [new_ofNat, composePaths_eq a b hb]

/-- the unsigned value of what `path_optimizer` writes. -/
theorem toNatBE_stepPath (b : Bytes) (isRest : Bool) :
    Bytes.toNatBE (stepPath b isRest) = compose (new (Bytes.toInt b)) (if isRest then 3 else 2) := by
  unfold stepPath asPath bigintToBytesUnsigned
  rw [BytesAlg.toNatBE_ofNatBE]
  cases isRest
  · simp only [Bool.false_eq_true, if_false]; rw [first_root, add_eq _ _ (by omega)]
  · simp only [if_true]; rw [rest_root, add_eq _ _ (by omega)]

/-- every atom that reads non-negative under `number_from_u8` (any amount of zero padding)
    keeps its unsigned value as index. -/
theorem new_toInt_nonneg {b : Bytes} (h : 0 ≤ Bytes.toInt b) : new (Bytes.toInt b) = Bytes.toNatBE b := by
  rw [new_nonneg h, BytesAlg.toInt_nonneg_eq h]; simp

-- ---------------------------------------------------------------------------------------
-- `bigint_from_bytes` (unsigned) is the big-endian reading, for every length
-- ---------------------------------------------------------------------------------------

theorem foldl_shift (l : Bytes) (acc : Nat) :
    l.foldl (fun a x => a * 256 + x.toNat) acc
      = acc * 256 ^ l.length + l.foldl (fun a x => a * 256 + x.toNat) 0 := by
  induction l generalizing acc with
  | nil => simp
  | cons x r ih =>
    simp only [List.foldl_cons, List.length_cons]
    rw [ih (acc * 256 + x.toNat), ih (0 * 256 + x.toNat), Nat.pow_succ]
    grind

theorem toNatBE_cons (x : UInt8) (t : Bytes) :
    Bytes.toNatBE (x :: t) = x.toNat * 256 ^ t.length + Bytes.toNatBE t := by
  unfold Bytes.toNatBE
  rw [List.foldl_cons, foldl_shift]
  simp

theorem toNatBE_append (a b : Bytes) :
    Bytes.toNatBE (a ++ b) = Bytes.toNatBE a * 256 ^ b.length + Bytes.toNatBE b := by
  unfold Bytes.toNatBE
  rw [List.foldl_append, foldl_shift]

/-- one byte off the front of a suffix. -/
theorem toNatBE_drop_step (l : Bytes) (i : Nat) (h : i < l.length) :
    Bytes.toNatBE (l.drop i) = byteAt l i * 256 ^ (l.length - i - 1) + Bytes.toNatBE (l.drop (i + 1)) := by
  rw [List.drop_eq_getElem_cons h, toNatBE_cons]
  have : byteAt l i = l[i].toNat := by
    unfold byteAt
    simp [List.getD_eq_getElem?_getD, h]
  rw [this, List.length_drop]
  congr 2

theorem pow256_four (k : Nat) : 256 ^ (4 * k) = 2 ^ (32 * k) := by
  rw [show (256 : Nat) = 2 ^ 8 by rfl, ← Nat.pow_mul]
  congr 1
  omega

/-- the first loop of `bigint_from_bytes`: after `k` rounds the sum is the big-endian value of
    the last `4·k` bytes (this is where `get_u32` has to be big-endian). -/
theorem groupSum_eq (dv : Bytes) (rem len4 : Nat) (hl : dv.length = rem + 4 * len4) :
    ∀ k, k ≤ len4 → groupSum dv rem len4 k = Bytes.toNatBE (dv.drop (rem + 4 * (len4 - k))) := by
  intro k
  induction k with
  | zero =>
    intro _
    have : dv.drop (rem + 4 * (len4 - 0)) = [] := List.drop_eq_nil_of_le (by omega)
    rw [this]; rfl
  | succ k ih =>
    intro hk
    have hi : (len4 - k - 1) * 4 + rem = rem + 4 * (len4 - (k + 1)) := by omega
    simp only [groupSum]
    rw [ih (by omega), hi]
    generalize hI : rem + 4 * (len4 - (k + 1)) = i
    have hnext : rem + 4 * (len4 - k) = i + 1 + 1 + 1 + 1 := by omega
    rw [hnext, toNatBE_drop_step dv i (by omega), toNatBE_drop_step dv (i + 1) (by omega),
      toNatBE_drop_step dv (i + 1 + 1) (by omega), toNatBE_drop_step dv (i + 1 + 1 + 1) (by omega)]
    have e0 : dv.length - i - 1 = 4 * k + 3 := by omega
    have e1 : dv.length - (i + 1) - 1 = 4 * k + 2 := by omega
    have e2 : dv.length - (i + 1 + 1) - 1 = 4 * k + 1 := by omega
    have e3 : dv.length - (i + 1 + 1 + 1) - 1 = 4 * k := by omega
    rw [e0, e1, e2, e3]
    unfold getU32
    have hX := pow256_four k
    simp only [Nat.pow_succ, hX, Nat.add_assoc]
    generalize (2 : Nat) ^ (32 * k) = X
    grind

/-- the second loop: the `k` last bytes of the `rem`-byte head, scaled by `order`. -/
theorem remSum_eq (dv : Bytes) (rem order : Nat) (hl : rem ≤ dv.length) :
    ∀ k, k ≤ rem → remSum dv rem order k = order * Bytes.toNatBE ((dv.take rem).drop (rem - k)) := by
  intro k
  induction k with
  | zero =>
    intro _
    have : (dv.take rem).drop (rem - 0) = [] := List.drop_eq_nil_of_le (by simp; omega)
    rw [this]; simp [remSum, Bytes.toNatBE]
  | succ k ih =>
    intro hk
    simp only [remSum]
    rw [ih (by omega)]
    have hlen : (dv.take rem).length = rem := by simp; omega
    have hb : byteAt dv (rem - k - 1) = byteAt (dv.take rem) (rem - k - 1) := by
      unfold byteAt
      simp only [List.getD_eq_getElem?_getD, List.getElem?_take]
      rw [if_pos (by omega)]
    have hs := toNatBE_drop_step (dv.take rem) (rem - (k + 1)) (by omega)
    have h1 : rem - (k + 1) + 1 = rem - k := by omega
    have h2 : (dv.take rem).length - (rem - (k + 1)) - 1 = k := by omega
    have h3 : rem - k - 1 = rem - (k + 1) := by omega
    rw [h1, h2] at hs
    rw [hs, hb, h3, show (2 : Nat) ^ (8 * k) = 256 ^ k by
      rw [show (256 : Nat) = 2 ^ 8 by rfl, ← Nat.pow_mul]]
    grind

/-- **`bigint_from_bytes(b, None)` is the unsigned big-endian value of `b`**, for every `b`
    (all lengths; with the little-endian `get_u32` of before c2e6c4f this failed from four
    bytes up: `0x80000000 ↦ 128`). -/
theorem bigintFromBytes_eq (b : Bytes) : bigintFromBytes b = Bytes.toNatBE b := by
  unfold bigintFromBytes
  split
  · rename_i h
    have : b = [] := List.eq_nil_of_length_eq_zero h
    subst this; rfl
  · have hl : b.length = b.length % 4 + 4 * (b.length / 4) := by omega
    rw [groupSum_eq b _ _ hl _ (Nat.le_refl _), remSum_eq b _ _ (Nat.mod_le _ _) _ (Nat.le_refl _)]
    simp only [Nat.sub_self, Nat.mul_zero, Nat.add_zero, List.drop_zero]
    conv => rhs; rw [← List.take_append_drop (b.length % 4) b, toNatBE_append]
    rw [List.length_drop, ← pow256_four]
    have : b.length - b.length % 4 = 4 * (b.length / 4) := by omega
    rw [this, Nat.add_comm, Nat.mul_comm]

/-- `bigint_from_bytes` is the big-endian value below four bytes (no `get_u32` involved). -/
theorem bigintFromBytes_short {b : Bytes} (_h : b.length < 4) : bigintFromBytes b = Bytes.toNatBE b :=
  bigintFromBytes_eq b

/-- `NodePath::new` of a negative index: the unsigned reading of its minimal two's-complement
    bytes (`bigint_to_bytes_clvm` then `bigint_from_bytes`). -/
theorem new_neg {i : Int} (h : i < 0) : new i = Bytes.toNatBE (Bytes.ofIntClvm i) := by
  unfold new
  rw [if_pos h, bigintFromBytes_eq]

/-- **every canonical atom keeps its path**: for a minimally encoded atom `b` of ANY length, top
    bit set or not, `NodePath::new(number_from_u8(b))` is the unsigned value clvmr traverses. -/
theorem new_canonical {b : Bytes} (hc : Bytes.canonical b = true) :
    new (Bytes.toInt b) = Bytes.toNatBE b := by
  by_cases h : 0 ≤ Bytes.toInt b
  · exact new_toInt_nonneg h
  · rw [new_neg (by omega)]
    have : Bytes.ofIntClvm (Bytes.toInt b) = b := by
      simpa [Bytes.canonical] using hc
    rw [this]

/-- canonical atoms with the top bit set keep their path up to three bytes (special case of
    `new_canonical`, kept for its users). -/
theorem new_canonical_short {b : Bytes} (hc : Bytes.canonical b = true) (_hl : b.length < 4) :
    new (Bytes.toInt b) = Bytes.toNatBE b := new_canonical hc

end NodePath
