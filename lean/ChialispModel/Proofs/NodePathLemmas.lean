/-
  Proofs/NodePathLemmas.lean — the Rust shift/mask loop of `compose_paths` is path
  composition; what `NodePath::new` does to an index; when `path_optimizer`'s index is the
  path clvmr traverses.
-/
import ChialispModel.Opt.NodePath
import ChialispModel.Proofs.PathAlgebra

namespace NodePath
open Path PathAlg

theorem new_ofNat (n : Nat) : new (Int.ofNat n) = n := by
  unfold new
  rw [if_neg (by simp)]
  simp

theorem new_nonneg {i : Int} (h : 0 ≤ i) : new i = i.toNat := by
  unfold new
  rw [if_neg (by omega)]

/-- loop invariant of `compose_paths`: after the loop both `path_1` and `mask` have been shifted
    left by the number of steps of `temp_path`. -/
theorem composeLoop_eq : ∀ (fuel t p1 m : Nat), t ≤ fuel →
    composeLoop fuel t p1 m = (p1 * 2 ^ depth t, m * 2 ^ depth t) := by
  intro fuel
  induction fuel with
  | zero =>
    intro t p1 m h
    have : t = 0 := by omega
    subst this
    simp [composeLoop, depth_le_one]
  | succ f ih =>
    intro t p1 m h
    simp only [composeLoop]
    split
    · rename_i ht
      have hd : depth t = depth (t / 2) + 1 := depth_step (by omega)
      rw [Nat.shiftRight_eq_div_pow, Nat.shiftLeft_eq, Nat.shiftLeft_eq, Nat.pow_one,
        ih (t / 2) _ _ (by omega), hd, Nat.pow_succ]
      simp only [Prod.mk.injEq]
      constructor
      · rw [Nat.mul_assoc, Nat.mul_comm 2]
      · rw [Nat.mul_assoc, Nat.mul_comm 2]
    · rename_i ht
      rw [depth_le_one (by omega)]; simp

/-- **`compose_paths` is path composition** (for a non-empty second path; the first may even be 0). -/
theorem composePaths_eq (p q : Nat) (hq : 1 ≤ q) : composePaths p q = compose p q := by
  unfold composePaths
  rw [composeLoop_eq p p q 1 (Nat.le_refl _)]
  simp only [Nat.one_mul]
  rw [Nat.and_two_pow_sub_one_eq_mod]
  have hlt : p % 2 ^ depth p < 2 ^ depth p := Nat.mod_lt _ (Nat.two_pow_pos _)
  rw [Nat.mul_comm q, ← Nat.two_pow_add_eq_or_of_lt hlt q, Nat.mul_comm]
  by_cases hp : 1 ≤ p
  · rw [compose_eq hp hq]
  · have : p = 0 := by omega
    subst this
    rw [compose_zero_left hq, depth_le_one (by omega)]
    simp

theorem first_root : first root = 2 := by unfold first root; exact new_ofNat _
theorem rest_root : rest root = 3 := by unfold rest root; exact new_ofNat _

theorem add_eq (a b : Nat) (hb : 1 ≤ b) : add a b = compose a b := by
  unfold add; rw [new_ofNat, composePaths_eq a b hb]

/-- the unsigned value of what `path_optimizer` writes. -/
theorem toNatBE_stepPath (b : Bytes) (isRest : Bool) :
    Bytes.toNatBE (stepPath b isRest) = compose (new (Bytes.toInt b)) (if isRest then 3 else 2) := by
  unfold stepPath asPath bigintToBytesUnsigned
  rw [BytesAlg.toNatBE_ofNatBE]
  cases isRest
  · simp only [Bool.false_eq_true, if_false]; rw [first_root, add_eq _ _ (by omega)]
  · simp only [if_true]; rw [rest_root, add_eq _ _ (by omega)]

/-- every atom that reads non-negative under `number_from_u8` (any amount of zero padding)
    keeps its unsigned value as index. -/
theorem new_toInt_nonneg {b : Bytes} (h : 0 ≤ Bytes.toInt b) : new (Bytes.toInt b) = Bytes.toNatBE b := by
  rw [new_nonneg h, BytesAlg.toInt_nonneg_eq h]; simp

/-- `bigint_from_bytes` is the big-endian value below four bytes (no `get_u32` involved). -/
theorem bigintFromBytes_short {b : Bytes} (h : b.length < 4) : bigintFromBytes b = Bytes.toNatBE b := by
  match b, h with
  | [], _ => rfl
  | [x], _ => simp [bigintFromBytes, groupSum, remSum, byteAt, Bytes.toNatBE]
  | [x, y], _ => simp [bigintFromBytes, groupSum, remSum, byteAt, Bytes.toNatBE]; omega
  | [x, y, z], _ => simp [bigintFromBytes, groupSum, remSum, byteAt, Bytes.toNatBE]; omega
  | _ :: _ :: _ :: _ :: _, h => simp at h; omega

/-- canonical atoms with the top bit set keep their path up to three bytes. -/
theorem new_canonical_short {b : Bytes} (hc : Bytes.canonical b = true) (hl : b.length < 4) :
    new (Bytes.toInt b) = Bytes.toNatBE b := by
  by_cases h : 0 ≤ Bytes.toInt b
  · exact new_toInt_nonneg h
  · unfold new
    rw [if_pos (by omega)]
    have : Bytes.ofIntClvm (Bytes.toInt b) = b := by
      simpa [Bytes.canonical] using hc
    rw [this, bigintFromBytes_short hl]

end NodePath
