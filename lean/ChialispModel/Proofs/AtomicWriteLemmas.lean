/-
  Proofs/AtomicWriteLemmas.lean — the invariant of the concurrent atomic-write system
  (Sys/AtomicWrite.lean) and its preservation by every event.
-/
import ChialispModel.Sys.AtomicWrite

namespace AtomicWrite

@[simp] theorem upd_same {α : Type} [DecidableEq α] {β : Type} (f : α → β) (a : α) (b : β) :
    upd f a b a = b := by simp [upd]

theorem upd_other {α : Type} [DecidableEq α] {β : Type} (f : α → β) (a : α) (b : β) (x : α)
    (h : x ≠ a) : upd f a b x = f x := by simp [upd, h]

/-- the inode a writer has created and not yet published or dropped. -/
def holds : WPhase → Option Nat
  | .writing _ k _ => some k
  | .cleanup _ k => some k
  | _ => none

/-- inode `k` is no longer written by anybody and its content is one of the allowed ones. -/
def Frozen (S : Sys) (c₀ : Option Bytes) (s : State) (k : Nat) : Prop :=
  (∀ i, holds (s.w i) ≠ some k) ∧ Allowed S c₀ (some (s.fs.inodes k))

structure Inv (S : Sys) (c₀ : Option Bytes) (s : State) : Prop where
  alloc : s.fs.WF
  own : ∀ i k, holds (s.w i) = some k → s.fs.names (S.tmpPath (S.cfg i)) = some k
  uniq : ∀ i j k, holds (s.w i) = some k → holds (s.w j) = some k → i = j
  prog : ∀ i same k rest, s.w i = .writing same k rest →
    s.fs.inodes k ++ rest.flatten = (S.cfg i).data
  tgtNone : s.fs.names S.target = none → c₀ = none
  tgt : ∀ k, s.fs.names S.target = some k → Frozen S c₀ s k
  rd : ∀ j k acc, s.r j = .reading k acc →
    k < s.fs.next ∧ Frozen S c₀ s k ∧ ∃ rest, s.fs.inodes k = acc ++ rest
  got : ∀ j c, s.r j = .got c → Allowed S c₀ c

variable {S : Sys} {c₀ : Option Bytes}

/-- a writer changes only its program counter, and does not start holding a new inode. -/
theorem inv_setPhase {s : State} (h : Inv S c₀ s) (i : Nat) (p' : WPhase)
    (hh : ∀ k, holds p' = some k → holds (s.w i) = some k)
    (hw : ∀ same k rest, p' = .writing same k rest → s.w i = .writing same k rest) :
    Inv S c₀ { s with w := upd s.w i p' } := by
  have hmono : ∀ x k, holds (upd s.w i p' x) = some k → holds (s.w x) = some k := by
    intro x k hx
    by_cases hxi : x = i
    · subst hxi; rw [upd_same] at hx; exact hh k hx
    · rwa [upd_other _ _ _ _ hxi] at hx
  have hfro : ∀ k, Frozen S c₀ s k → Frozen S c₀ { s with w := upd s.w i p' } k := by
    intro k ⟨h1, h2⟩
    exact ⟨fun x hx => h1 x (hmono x k hx), h2⟩
  refine ⟨h.alloc, ?_, ?_, ?_, h.tgtNone, ?_, ?_, h.got⟩
  · intro x k hx; exact h.own x k (hmono x k hx)
  · intro x y k hx hy; exact h.uniq x y k (hmono x k hx) (hmono y k hy)
  · intro x same k rest hx
    by_cases hxi : x = i
    · subst hxi; simp only [upd_same] at hx; exact h.prog x same k rest (hw same k rest hx)
    · simp only [upd_other _ _ _ _ hxi] at hx; exact h.prog x same k rest hx
  · intro k hk; exact hfro k (h.tgt k hk)
  · intro j k acc hj
    obtain ⟨a, b, c⟩ := h.rd j k acc hj
    exact ⟨a, hfro k b, c⟩

/-- `write(2)` of the next chunk by the writer that holds inode `k`. -/
theorem inv_append {s : State} (h : Inv S c₀ s) (i : Nat) (same : Bool) (k : Nat) (ch : Bytes)
    (rest : List Bytes) (hi : s.w i = .writing same k (ch :: rest)) :
    Inv S c₀ { fs := s.fs.append k ch, w := upd s.w i (.writing same k rest), r := s.r } := by
  have hhi : holds (s.w i) = some k := by rw [hi]; rfl
  have hhold : ∀ x, holds (upd s.w i (.writing same k rest) x) = holds (s.w x) := by
    intro x
    by_cases hxi : x = i
    · subst hxi; rw [upd_same, hi]; rfl
    · rw [upd_other _ _ _ _ hxi]
  have hino : ∀ k', k' ≠ k → (s.fs.append k ch).inodes k' = s.fs.inodes k' := by
    intro k' hk; simp [FS.append, upd, hk]
  have hfro : ∀ k', Frozen S c₀ s k' →
      Frozen S c₀ { fs := s.fs.append k ch, w := upd s.w i (.writing same k rest), r := s.r } k' := by
    intro k' ⟨h1, h2⟩
    have hne : k' ≠ k := fun e => h1 i (by rw [hhi, e])
    refine ⟨fun x hx => h1 x (by rw [← hhold x]; exact hx), ?_⟩
    show Allowed S c₀ (some ((s.fs.append k ch).inodes k'))
    rw [hino k' hne]; exact h2
  refine ⟨h.alloc, ?_, ?_, ?_, h.tgtNone, ?_, ?_, h.got⟩
  · intro x k' hx; rw [hhold x] at hx; exact h.own x k' hx
  · intro x y k' hx hy; rw [hhold x] at hx; rw [hhold y] at hy; exact h.uniq x y k' hx hy
  · intro x same' k' rest' hx
    by_cases hxi : x = i
    · subst hxi
      simp only [upd_same] at hx
      injection hx with e1 e2 e3
      subst e1 e2 e3
      have := h.prog x same k (ch :: rest) hi
      simp [FS.append, upd] at this ⊢
      exact this
    · simp only [upd_other _ _ _ _ hxi] at hx
      have hne : k' ≠ k := by
        intro e
        exact hxi (h.uniq x i k (by rw [hx, e]; rfl) hhi)
      show (s.fs.append k ch).inodes k' ++ rest'.flatten = _
      rw [hino k' hne]; exact h.prog x same' k' rest' hx
  · intro k' hk; exact hfro k' (h.tgt k' hk)
  · intro j k' acc hj
    obtain ⟨a, b, rest', c⟩ := h.rd j k' acc hj
    have hne : k' ≠ k := fun e => b.1 i (by rw [hhi, e])
    refine ⟨a, hfro k' b, rest', ?_⟩
    show (s.fs.append k ch).inodes k' = _
    rw [hino k' hne]; exact c

/-- exclusive creation of the temporary file. -/
theorem inv_create {s : State} (h : Inv S c₀ s) (hT : ∀ i, S.tmpPath (S.cfg i) ≠ S.target)
    (i : Nat) (same : Bool) (hi : s.w i = .create same) (fs' : FS) (k : Nat)
    (hc : s.fs.create (S.tmpPath (S.cfg i)) = some (fs', k)) :
    Inv S c₀ { fs := fs', w := upd s.w i (.writing same k (S.cfg i).chunks), r := s.r } := by
  unfold FS.create at hc
  split at hc
  case isFalse => cases hc
  case isTrue hcond =>
  obtain ⟨_, hfree⟩ := hcond
  injection hc with hc
  injection hc with hfs hk
  subst hk hfs
  have hhi : holds (s.w i) = none := by rw [hi]; rfl
  have holdlt : ∀ x k', holds (s.w x) = some k' → k' < s.fs.next :=
    fun x k' hx => h.alloc _ _ (h.own x k' hx)
  have hhold : ∀ x k', holds (upd s.w i (.writing same s.fs.next (S.cfg i).chunks) x) = some k' →
      (x = i ∧ k' = s.fs.next) ∨ (x ≠ i ∧ holds (s.w x) = some k') := by
    intro x k' hx
    by_cases hxi : x = i
    · subst hxi; rw [upd_same] at hx; injection hx with hx; exact .inl ⟨rfl, hx.symm⟩
    · rw [upd_other _ _ _ _ hxi] at hx; exact .inr ⟨hxi, hx⟩
  have hnames : ∀ q, q ≠ S.tmpPath (S.cfg i) →
      upd s.fs.names (S.tmpPath (S.cfg i)) (some s.fs.next) q = s.fs.names q :=
    fun q hq => upd_other _ _ _ _ hq
  have hino : ∀ k', k' < s.fs.next → upd s.fs.inodes s.fs.next [] k' = s.fs.inodes k' :=
    fun k' hk => upd_other _ _ _ _ (Nat.ne_of_lt hk)
  have hfro : ∀ k', k' < s.fs.next → Frozen S c₀ s k' →
      Frozen S c₀ { fs := { s.fs with names := upd s.fs.names (S.tmpPath (S.cfg i)) (some s.fs.next),
                                      inodes := upd s.fs.inodes s.fs.next [],
                                      next := s.fs.next + 1 },
                    w := upd s.w i (.writing same s.fs.next (S.cfg i).chunks), r := s.r } k' := by
    intro k' hlt ⟨h1, h2⟩
    refine ⟨fun x hx => ?_, ?_⟩
    · rcases hhold x k' hx with ⟨_, e⟩ | ⟨_, e⟩
      · omega
      · exact h1 x e
    · show Allowed S c₀ (some (upd s.fs.inodes s.fs.next [] k'))
      rw [hino k' hlt]; exact h2
  refine ⟨?_, ?_, ?_, ?_, ?_, ?_, ?_, h.got⟩
  · intro q k' hq
    show k' < s.fs.next + 1
    by_cases hqp : q = S.tmpPath (S.cfg i)
    · subst hqp
      have : upd s.fs.names (S.tmpPath (S.cfg i)) (some s.fs.next) (S.tmpPath (S.cfg i)) = some k' := hq
      rw [upd_same] at this; injection this with this; omega
    · have : upd s.fs.names (S.tmpPath (S.cfg i)) (some s.fs.next) q = some k' := hq
      rw [hnames q hqp] at this
      exact Nat.lt_succ_of_lt (h.alloc q k' this)
  · intro x k' hx
    show upd s.fs.names (S.tmpPath (S.cfg i)) (some s.fs.next) (S.tmpPath (S.cfg x)) = some k'
    rcases hhold x k' hx with ⟨e1, e2⟩ | ⟨_, e⟩
    · subst e1 e2; rw [upd_same]
    · have hown := h.own x k' e
      have hne : S.tmpPath (S.cfg x) ≠ S.tmpPath (S.cfg i) := by
        intro e'; rw [e', hfree] at hown; cases hown
      rw [hnames _ hne]; exact hown
  · intro x y k' hx hy
    rcases hhold x k' hx with ⟨e1, e2⟩ | ⟨e1, e2⟩ <;> rcases hhold y k' hy with ⟨f1, f2⟩ | ⟨f1, f2⟩
    · rw [e1, f1]
    · have := holdlt y k' f2; omega
    · have := holdlt x k' e2; omega
    · exact h.uniq x y k' e2 f2
  · intro x same' k' rest' hx
    show upd s.fs.inodes s.fs.next [] k' ++ rest'.flatten = _
    by_cases hxi : x = i
    · subst hxi
      simp only [upd_same] at hx
      injection hx with e1 e2 e3
      subst e1 e2 e3
      rw [upd_same]; rfl
    · simp only [upd_other _ _ _ _ hxi] at hx
      have hlt : k' < s.fs.next := holdlt x k' (by rw [hx]; rfl)
      rw [hino k' hlt]; exact h.prog x same' k' rest' hx
  · intro hn
    have : upd s.fs.names (S.tmpPath (S.cfg i)) (some s.fs.next) S.target = none := hn
    rw [hnames _ (hT i).symm] at this
    exact h.tgtNone this
  · intro k' hk
    have : upd s.fs.names (S.tmpPath (S.cfg i)) (some s.fs.next) S.target = some k' := hk
    rw [hnames _ (hT i).symm] at this
    exact hfro k' (h.alloc _ _ this) (h.tgt k' this)
  · intro j k' acc hj
    obtain ⟨a, b, rest', c⟩ := h.rd j k' acc hj
    refine ⟨Nat.lt_succ_of_lt a, hfro k' a b, rest', ?_⟩
    show upd s.fs.inodes s.fs.next [] k' = _
    rw [hino k' a]; exact c

/-- holders only disappear when writer `i` moves to a phase that holds nothing. -/
theorem holds_release {s : State} (i : Nat) (p' : WPhase) (hp : holds p' = none) (x k : Nat)
    (hx : holds (upd s.w i p' x) = some k) : x ≠ i ∧ holds (s.w x) = some k := by
  by_cases hxi : x = i
  · subst hxi; rw [upd_same, hp] at hx; cases hx
  · rw [upd_other _ _ _ _ hxi] at hx; exact ⟨hxi, hx⟩

/-- the rename of the completely written temporary file onto the target. -/
theorem inv_rename {s : State} (h : Inv S c₀ s) (hT : ∀ i, S.tmpPath (S.cfg i) ≠ S.target)
    (i : Nat) (same : Bool) (k : Nat) (hi : s.w i = .writing same k []) (fs' : FS)
    (hr : s.fs.rename (S.tmpPath (S.cfg i)) S.target = some fs') :
    Inv S c₀ { fs := fs', w := upd s.w i (.done .ok), r := s.r } := by
  have hhi : holds (s.w i) = some k := by rw [hi]; rfl
  have hown := h.own i k hhi
  unfold FS.rename at hr
  rw [hown] at hr
  simp only at hr
  split at hr
  case isFalse => cases hr
  case isTrue =>
  injection hr with hfs
  subst hfs
  have hrel := @holds_release s i (.done .ok) rfl
  have hdata : s.fs.inodes k = (S.cfg i).data := by
    have := h.prog i same k [] hi
    simpa using this
  have hnames : ∀ q, q ≠ S.target → q ≠ S.tmpPath (S.cfg i) →
      upd (upd s.fs.names (S.tmpPath (S.cfg i)) none) S.target (some k) q = s.fs.names q := by
    intro q h1 h2; rw [upd_other _ _ _ _ h1, upd_other _ _ _ _ h2]
  have hfro : ∀ k', Frozen S c₀ s k' →
      Frozen S c₀ { fs := { s.fs with names := upd (upd s.fs.names (S.tmpPath (S.cfg i)) none) S.target (some k) },
                    w := upd s.w i (.done .ok), r := s.r } k' := by
    intro k' ⟨h1, h2⟩
    exact ⟨fun x hx => h1 x (hrel x k' hx).2, h2⟩
  refine ⟨?_, ?_, ?_, ?_, ?_, ?_, ?_, h.got⟩
  · intro q k' hq
    show k' < s.fs.next
    have hq' : upd (upd s.fs.names (S.tmpPath (S.cfg i)) none) S.target (some k) q = some k' := hq
    by_cases h1 : q = S.target
    · subst h1; rw [upd_same] at hq'; injection hq' with hq'; subst hq'
      exact h.alloc _ _ hown
    · by_cases h2 : q = S.tmpPath (S.cfg i)
      · subst h2; rw [upd_other _ _ _ _ h1, upd_same] at hq'; cases hq'
      · rw [hnames q h1 h2] at hq'; exact h.alloc q k' hq'
  · intro x k' hx
    obtain ⟨hxi, hx'⟩ := hrel x k' hx
    have hox := h.own x k' hx'
    show upd (upd s.fs.names (S.tmpPath (S.cfg i)) none) S.target (some k) (S.tmpPath (S.cfg x)) = some k'
    have hne : S.tmpPath (S.cfg x) ≠ S.tmpPath (S.cfg i) := by
      intro e
      rw [e, hown] at hox
      injection hox with hox
      subst hox
      exact hxi (h.uniq x i k hx' hhi)
    rw [hnames _ (hT x) hne]; exact hox
  · intro x y k' hx hy
    exact h.uniq x y k' (hrel x k' hx).2 (hrel y k' hy).2
  · intro x same' k' rest' hx
    by_cases hxi : x = i
    · subst hxi; simp only [upd_same] at hx; cases hx
    · simp only [upd_other _ _ _ _ hxi] at hx; exact h.prog x same' k' rest' hx
  · intro hn
    have : upd (upd s.fs.names (S.tmpPath (S.cfg i)) none) S.target (some k) S.target = none := hn
    rw [upd_same] at this; cases this
  · intro k' hk
    have : upd (upd s.fs.names (S.tmpPath (S.cfg i)) none) S.target (some k) S.target = some k' := hk
    rw [upd_same] at this; injection this with this; subst this
    refine ⟨fun x hx => ?_, ?_⟩
    · obtain ⟨hxi, hx'⟩ := hrel x k hx
      exact hxi (h.uniq x i k hx' hhi)
    · show Allowed S c₀ (some (s.fs.inodes k))
      rw [hdata]; exact .inr ⟨i, rfl⟩
  · intro j k' acc hj
    obtain ⟨a, b, c⟩ := h.rd j k' acc hj
    exact ⟨a, hfro k' b, c⟩

/-- removal of the temporary file after a failure (`Drop for NamedTempFile`). -/
theorem inv_unlink {s : State} (h : Inv S c₀ s) (hT : ∀ i, S.tmpPath (S.cfg i) ≠ S.target)
    (i : Nat) (same : Bool) (k : Nat) (hi : s.w i = .cleanup same k) (r : Res) :
    Inv S c₀ { fs := s.fs.unlink (S.tmpPath (S.cfg i)), w := upd s.w i (.done r), r := s.r } := by
  have hhi : holds (s.w i) = some k := by rw [hi]; rfl
  have hown := h.own i k hhi
  unfold FS.unlink
  split
  case isFalse =>
    exact inv_setPhase h i (.done r) (fun k hk => by cases hk) (fun _ _ _ e => by cases e)
  case isTrue =>
  have hrel := @holds_release s i (.done r) rfl
  have hnames : ∀ q, q ≠ S.tmpPath (S.cfg i) →
      upd s.fs.names (S.tmpPath (S.cfg i)) none q = s.fs.names q :=
    fun q hq => upd_other _ _ _ _ hq
  have hfro : ∀ k', Frozen S c₀ s k' →
      Frozen S c₀ { fs := { s.fs with names := upd s.fs.names (S.tmpPath (S.cfg i)) none },
                    w := upd s.w i (.done r), r := s.r } k' := by
    intro k' ⟨h1, h2⟩
    exact ⟨fun x hx => h1 x (hrel x k' hx).2, h2⟩
  refine ⟨?_, ?_, ?_, ?_, ?_, ?_, ?_, h.got⟩
  · intro q k' hq
    show k' < s.fs.next
    have hq' : upd s.fs.names (S.tmpPath (S.cfg i)) none q = some k' := hq
    by_cases h2 : q = S.tmpPath (S.cfg i)
    · subst h2; rw [upd_same] at hq'; cases hq'
    · rw [hnames q h2] at hq'; exact h.alloc q k' hq'
  · intro x k' hx
    obtain ⟨hxi, hx'⟩ := hrel x k' hx
    have hox := h.own x k' hx'
    show upd s.fs.names (S.tmpPath (S.cfg i)) none (S.tmpPath (S.cfg x)) = some k'
    have hne : S.tmpPath (S.cfg x) ≠ S.tmpPath (S.cfg i) := by
      intro e
      rw [e, hown] at hox
      injection hox with hox
      subst hox
      exact hxi (h.uniq x i k hx' hhi)
    rw [hnames _ hne]; exact hox
  · intro x y k' hx hy
    exact h.uniq x y k' (hrel x k' hx).2 (hrel y k' hy).2
  · intro x same' k' rest' hx
    by_cases hxi : x = i
    · subst hxi; simp only [upd_same] at hx; cases hx
    · simp only [upd_other _ _ _ _ hxi] at hx; exact h.prog x same' k' rest' hx
  · intro hn
    have : upd s.fs.names (S.tmpPath (S.cfg i)) none S.target = none := hn
    rw [hnames _ (hT i).symm] at this; exact h.tgtNone this
  · intro k' hk
    have : upd s.fs.names (S.tmpPath (S.cfg i)) none S.target = some k' := hk
    rw [hnames _ (hT i).symm] at this; exact hfro k' (h.tgt k' this)
  · intro j k' acc hj
    obtain ⟨a, b, c⟩ := h.rd j k' acc hj
    exact ⟨a, hfro k' b, c⟩

/-- a step of a reader. -/
theorem inv_reader {s : State} (h : Inv S c₀ s) (j n : Nat) :
    Inv S c₀ { s with r := upd s.r j (rstep S n s.fs (s.r j)) } := by
  refine ⟨h.alloc, h.own, h.uniq, h.prog, h.tgtNone, h.tgt, ?_, ?_⟩
  · intro x k acc hx
    by_cases hxj : x = j
    · subst hxj
      simp only [upd_same] at hx
      cases hr : s.r x with
      | idle =>
        rw [hr] at hx; simp only [rstep] at hx
        split at hx
        · rename_i k0 hk0
          injection hx with e1 e2; subst e1 e2
          exact ⟨h.alloc _ _ hk0, h.tgt _ hk0, s.fs.inodes k0, rfl⟩
        · cases hx
      | reading k0 acc0 =>
        rw [hr] at hx; simp only [rstep] at hx
        obtain ⟨a, b, rest, c⟩ := h.rd x k0 acc0 hr
        split at hx
        · cases hx
        · injection hx with e1 e2; subst e1 e2
          refine ⟨a, b, rest.drop (n + 1), ?_⟩
          rw [c]; simp
      | got c => rw [hr] at hx; simp only [rstep] at hx; cases hx
    · simp only [upd_other _ _ _ _ hxj] at hx; exact h.rd x k acc hx
  · intro x c hx
    by_cases hxj : x = j
    · subst hxj
      simp only [upd_same] at hx
      cases hr : s.r x with
      | idle =>
        rw [hr] at hx; simp only [rstep] at hx
        split at hx
        · cases hx
        · rename_i hk0
          injection hx with e; subst e
          exact .inl (h.tgtNone hk0).symm
      | reading k0 acc0 =>
        rw [hr] at hx; simp only [rstep] at hx
        obtain ⟨a, b, rest, c'⟩ := h.rd x k0 acc0 hr
        split at hx
        · rename_i hemp
          injection hx with e; subst e
          rw [c'] at hemp
          simp at hemp
          subst hemp
          have := b.2
          rw [c'] at this
          simpa using this
        · cases hx
      | got c1 => rw [hr] at hx; simp only [rstep] at hx; injection hx with e; subst e; exact h.got x _ hr
    · simp only [upd_other _ _ _ _ hxj] at hx; exact h.got x c hx

/-- every event preserves the invariant. -/
theorem inv_step {s : State} (hT : ∀ i, S.tmpPath (S.cfg i) ≠ S.target) (h : Inv S c₀ s)
    (e : Ev) : Inv S c₀ (step S s e) := by
  cases e with
  | r j n => exact inv_reader h j n
  | kill i =>
    refine inv_setPhase h i (killed (s.w i)) ?_ ?_
    · intro k hk; cases hp : s.w i <;> rw [hp] at hk <;> cases hk
    · intro a b c hk; cases hp : s.w i <;> rw [hp] at hk <;> cases hk
  | w i fault =>
    cases hp : s.w i with
    | start =>
      simp only [step, hp, wstep]
      refine inv_setPhase h i _ ?_ ?_
      · intro k hk; cases hq : readPrev S fault s.fs <;> rw [hq] at hk <;> cases hk
      · intro a b c hk; cases hq : readPrev S fault s.fs <;> rw [hq] at hk <;> cases hk
    | create same =>
      simp only [step, hp, wstep]
      cases hc : tryCreate S (S.cfg i) fault s.fs with
      | none =>
        exact inv_setPhase h i (.done (resOf same)) (fun k hk => by cases hk) (fun _ _ _ e => by cases e)
      | some res =>
        obtain ⟨fs', k⟩ := res
        unfold tryCreate at hc
        split at hc
        · cases hc
        · exact inv_create h hT i same hp fs' k hc
    | writing same k rest =>
      cases rest with
      | cons ch rest =>
        simp only [step, hp, wstep]
        split
        · refine inv_setPhase h i (.cleanup same k) ?_ (fun _ _ _ e => by cases e)
          intro k' hk; rw [hp]; exact hk
        · exact inv_append h i same k ch rest hp
      | nil =>
        simp only [step, hp, wstep]
        cases hc : tryRename S (S.cfg i) fault s.fs with
        | none =>
          refine inv_setPhase h i (.cleanup same k) ?_ (fun _ _ _ e => by cases e)
          intro k' hk; rw [hp]; exact hk
        | some fs' =>
          unfold tryRename at hc
          split at hc
          · cases hc
          · exact inv_rename h hT i same k hp fs' hc
    | cleanup same k =>
      simp only [step, hp, wstep]
      split
      · exact inv_setPhase h i (.done (resOf same)) (fun k hk => by cases hk) (fun _ _ _ e => by cases e)
      · exact inv_unlink h hT i same k hp (resOf same)
    | done r =>
      simp only [step, hp, wstep]
      refine inv_setPhase h i (.done r) (fun k hk => by cases hk) (fun _ _ _ e => by cases e)
    | dead =>
      simp only [step, hp, wstep]
      refine inv_setPhase h i .dead (fun k hk => by cases hk) (fun _ _ _ e => by cases e)

theorem inv_exec {s : State} (hT : ∀ i, S.tmpPath (S.cfg i) ≠ S.target) (h : Inv S c₀ s)
    (es : List Ev) : Inv S c₀ (exec S s es) := by
  induction es generalizing s with
  | nil => exact h
  | cons e es ih => exact ih (inv_step hT h e)

theorem inv_trace {s : State} (hT : ∀ i, S.tmpPath (S.cfg i) ≠ S.target) (h : Inv S c₀ s)
    (es : List Ev) : ∀ s' ∈ trace S s es, Inv S c₀ s' := by
  induction es generalizing s with
  | nil => intro s' hs; simp [trace] at hs; subst hs; exact h
  | cons e es ih =>
    intro s' hs
    simp only [trace, List.mem_cons] at hs
    rcases hs with hs | hs
    · subst hs; exact h
    · exact ih (inv_step hT h e) s' hs

theorem inv_init (S : Sys) (fs₀ : FS) (hwf : fs₀.WF) :
    Inv S (fs₀.content S.target) (init S fs₀) := by
  have hno : ∀ i, holds ((init S fs₀).w i) = none := by
    intro i; simp only [init, initPhase]; split <;> rfl
  refine ⟨hwf, ?_, ?_, ?_, ?_, ?_, ?_, ?_⟩
  · intro i k hk; rw [hno i] at hk; cases hk
  · intro i j k hk; rw [hno i] at hk; cases hk
  · intro i same k rest hk
    have := hno i; rw [hk] at this; cases this
  · intro hn; simp [init, FS.content] at hn ⊢; simp [hn]
  · intro k hk
    refine ⟨fun i hi => (by rw [hno i] at hi; cases hi), .inl ?_⟩
    simp only [init] at hk ⊢; simp [FS.content, hk]
  · intro j k acc hj; cases hj
  · intro j c hj; cases hj

/-- what the invariant says about the target. -/
theorem inv_target {s : State} (h : Inv S c₀ s) : Allowed S c₀ (s.fs.content S.target) := by
  cases hn : s.fs.names S.target with
  | none => left; simp [FS.content, hn, h.tgtNone hn]
  | some k => have := (h.tgt k hn).2; simpa [FS.content, hn] using this

theorem tmp_ne_target (hfresh : ∀ i, (S.cfg i).tmp ≠ S.target.name) :
    ∀ i, S.tmpPath (S.cfg i) ≠ S.target := by
  intro i e
  apply hfresh i
  have := congrArg Path.name e
  simpa [Sys.tmpPath] using this

-- how the target can change ----------------------------------------------------------------

theorem step_w_phase (s : State) (i : Nat) (fault : Bool) :
    (step S s (.w i fault)).w i = (wstep S (S.cfg i) fault s.fs (s.w i)).2 := by
  simp [step]

theorem step_w_fs (s : State) (i : Nat) (fault : Bool) :
    (step S s (.w i fault)).fs = (wstep S (S.cfg i) fault s.fs (s.w i)).1 := rfl

theorem step_w_other (s : State) (i x : Nat) (fault : Bool) (h : x ≠ i) :
    (step S s (.w i fault)).w x = s.w x := by
  simp [step, upd_other _ _ _ _ h]

/-- a writer step leaves the target's content alone, except the rename of a completely
    written temporary file, after which the target holds exactly that writer's data. -/
theorem target_change {s : State} (h : Inv S c₀ s) (hT : ∀ i, S.tmpPath (S.cfg i) ≠ S.target)
    (i : Nat) (fault : Bool) :
    (step S s (.w i fault)).fs.content S.target = s.fs.content S.target ∨
    (∃ same k, s.w i = .writing same k [] ∧ (step S s (.w i fault)).w i = .done .ok ∧
      (step S s (.w i fault)).fs.content S.target = some (S.cfg i).data) := by
  rw [step_w_phase, step_w_fs]
  cases hp : s.w i with
  | start => left; rfl
  | done r => left; rfl
  | dead => left; rfl
  | create same =>
    left
    simp only [wstep]
    cases hc : tryCreate S (S.cfg i) fault s.fs with
    | none => rfl
    | some res =>
      obtain ⟨fs', k⟩ := res
      unfold tryCreate at hc
      split at hc
      · cases hc
      · unfold FS.create at hc
        split at hc
        · injection hc with hc; injection hc with hfs hk; subst hfs
          simp only [FS.content]
          rw [upd_other _ _ _ _ (hT i).symm]
          cases hn : s.fs.names S.target with
          | none => rfl
          | some kt =>
            have := h.alloc _ _ hn
            simp [upd_other _ _ _ _ (Nat.ne_of_lt this)]
        · cases hc
  | cleanup same k =>
    left
    simp only [wstep]
    split
    · rfl
    · unfold FS.unlink
      split
      · simp only [FS.content]; rw [upd_other _ _ _ _ (hT i).symm]
      · rfl
  | writing same k rest =>
    have hhi : holds (s.w i) = some k := by rw [hp]; rfl
    cases rest with
    | cons ch rest =>
      left
      simp only [wstep]
      split
      · rfl
      · simp only [FS.content, FS.append]
        cases hn : s.fs.names S.target with
        | none => rfl
        | some kt =>
          have hne : kt ≠ k := fun e => (h.tgt kt hn).1 i (by rw [hhi, e])
          simp [upd_other _ _ _ _ hne]
    | nil =>
      simp only [wstep]
      cases hc : tryRename S (S.cfg i) fault s.fs with
      | none => left; rfl
      | some fs' =>
        right
        refine ⟨same, k, rfl, rfl, ?_⟩
        unfold tryRename at hc
        split at hc
        · cases hc
        · unfold FS.rename at hc
          rw [h.own i k hhi] at hc
          simp only at hc
          split at hc
          · injection hc with hc; subst hc
            have := h.prog i same k [] hp
            simp only [List.flatten_nil, List.append_nil] at this
            simp [FS.content, this]
          · cases hc

theorem step_other_fs (s : State) (e : Ev) (h : ∀ i f, e ≠ .w i f) : (step S s e).fs = s.fs := by
  cases e with
  | w i f => exact absurd rfl (h i f)
  | kill i => rfl
  | r j n => rfl

-- the same-contents mode never reports an error --------------------------------------------

def SameMode : WPhase → Prop
  | .start => False
  | .create same => same = true
  | .writing same _ _ => same = true
  | .cleanup same _ => same = true
  | .done r => r = .ok
  | .dead => True

theorem sameMode_wstep (c : WCfg) (fault : Bool) (fs : FS) (p : WPhase) (h : SameMode p) :
    SameMode (wstep S c fault fs p).2 := by
  cases p with
  | start => cases h
  | create same =>
    simp only [SameMode] at h; subst h
    simp only [wstep]; split <;> simp [SameMode, resOf]
  | writing same k rest =>
    simp only [SameMode] at h; subst h
    cases rest with
    | nil => simp only [wstep]; split <;> simp [SameMode]
    | cons ch rest => simp only [wstep]; split <;> simp [SameMode]
  | cleanup same k => simp only [SameMode] at h; subst h; simp [wstep, SameMode, resOf]
  | done r => exact h
  | dead => trivial

theorem sameMode_step (s : State) (i : Nat) (e : Ev) (h : SameMode (s.w i)) :
    SameMode ((step S s e).w i) := by
  cases e with
  | r j n => exact h
  | kill j =>
    by_cases hij : i = j
    · subst hij; simp only [step, upd_same]
      cases hp : s.w i <;> rw [hp] at h <;> simp_all [killed, SameMode]
    · simp only [step, upd_other _ _ _ _ hij]; exact h
  | w j f =>
    by_cases hij : i = j
    · subst hij; rw [step_w_phase]; exact sameMode_wstep _ _ _ _ h
    · rw [step_w_other _ _ _ _ hij]; exact h

theorem sameMode_exec (s : State) (i : Nat) (es : List Ev) (h : SameMode (s.w i)) :
    SameMode ((exec S s es).w i) := by
  induction es generalizing s with
  | nil => exact h
  | cons e es ih => exact ih (step S s e) (sameMode_step s i e h)

-- termination of a writer --------------------------------------------------------------------

/-- number of own steps a writer still needs at most. -/
def stepsLeft (c : WCfg) : WPhase → Nat
  | .start => c.chunks.length + 4
  | .create _ => c.chunks.length + 3
  | .writing _ _ rest => rest.length + 2
  | .cleanup _ _ => 1
  | .done _ => 0
  | .dead => 0

theorem stepsLeft_wstep (c : WCfg) (fault : Bool) (fs : FS) (p : WPhase) :
    stepsLeft c (wstep S c fault fs p).2 ≤ stepsLeft c p - 1 := by
  cases p with
  | start => simp only [wstep]; cases readPrev S fault fs <;> simp [afterRead, stepsLeft]
  | create same => simp only [wstep]; split <;> simp [stepsLeft]
  | writing same k rest =>
    cases rest with
    | nil => simp only [wstep]; split <;> simp [stepsLeft]
    | cons ch rest => simp only [wstep]; split <;> simp [stepsLeft]
  | cleanup same k => simp [wstep, stepsLeft]
  | done r => simp [wstep, stepsLeft]
  | dead => simp [wstep, stepsLeft]

theorem notDead_wstep (c : WCfg) (fault : Bool) (fs : FS) (p : WPhase) (h : p ≠ .dead) :
    (wstep S c fault fs p).2 ≠ .dead := by
  cases p with
  | start => simp only [wstep]; cases readPrev S fault fs <;> simp [afterRead]
  | create same => simp only [wstep]; split <;> simp
  | writing same k rest =>
    cases rest with
    | nil => simp only [wstep]; split <;> simp
    | cons ch rest => simp only [wstep]; split <;> simp
  | cleanup same k => simp [wstep]
  | done r => simp [wstep]
  | dead => exact absurd rfl h

/-- writer `i` running alone: its next operations, with the given fault pattern. -/
def alone (i : Nat) (faults : List Bool) : List Ev := faults.map (Ev.w i)

theorem alone_stepsLeft (s : State) (i : Nat) (faults : List Bool) :
    stepsLeft (S.cfg i) ((exec S s (alone i faults)).w i) ≤ stepsLeft (S.cfg i) (s.w i) - faults.length := by
  induction faults generalizing s with
  | nil => simp [alone, exec]
  | cons f fs ih =>
    have h1 := ih (step S s (.w i f))
    have h2 := stepsLeft_wstep (S := S) (S.cfg i) f s.fs (s.w i)
    rw [step_w_phase] at h1
    simp only [alone, List.map_cons, exec, List.foldl_cons, List.length_cons] at h1 ⊢
    omega

theorem alone_notDead (s : State) (i : Nat) (faults : List Bool) (h : s.w i ≠ .dead) :
    (exec S s (alone i faults)).w i ≠ .dead := by
  induction faults generalizing s with
  | nil => exact h
  | cons f fs ih =>
    apply ih (step S s (.w i f))
    rw [step_w_phase]; exact notDead_wstep _ _ _ _ h

/-- after enough own steps a writer that is not killed has returned. -/
theorem alone_returns (s : State) (i : Nat) (faults : List Bool) (h : s.w i ≠ .dead)
    (hlen : stepsLeft (S.cfg i) (s.w i) ≤ faults.length) :
    ∃ r, (exec S s (alone i faults)).w i = .done r := by
  have h1 := alone_stepsLeft (S := S) s i faults
  have h2 := alone_notDead (S := S) s i faults h
  generalize stepsLeft (S.cfg i) (s.w i) = m at h1 hlen
  cases hp : (exec S s (alone i faults)).w i with
  | done r => exact ⟨r, rfl⟩
  | dead => exact absurd hp h2
  | start => rw [hp] at h1; simp only [stepsLeft] at h1; omega
  | create same => rw [hp] at h1; simp only [stepsLeft] at h1; omega
  | writing same k rest => rw [hp] at h1; simp only [stepsLeft] at h1; omega
  | cleanup same k => rw [hp] at h1; simp only [stepsLeft] at h1; omega

-- what a return value means -------------------------------------------------------------------

/-- the target currently holds something that trims to the same text as the writer's data. -/
def SameAsTarget (S : Sys) (c : WCfg) (fs : FS) : Prop :=
  ∃ prev, fs.content S.target = some prev ∧ S.sameAs prev c.data = true

/-- per-phase knowledge of a writer that runs without interference. -/
def Knows (S : Sys) (c : WCfg) (fs : FS) : WPhase → Prop
  | .start => c.gentle = true
  | .create same => same = true → c.gentle = true ∧ SameAsTarget S c fs
  | .writing same _ _ => same = true → c.gentle = true ∧ SameAsTarget S c fs
  | .cleanup same _ => same = true → c.gentle = true ∧ SameAsTarget S c fs
  | .done .ok => fs.content S.target = some c.data ∨ (c.gentle = true ∧ SameAsTarget S c fs)
  | .done .err => True
  | .dead => True

theorem sameAsTarget_congr {c : WCfg} {fs fs' : FS} (h : fs'.content S.target = fs.content S.target) :
    SameAsTarget S c fs → SameAsTarget S c fs' := by
  intro ⟨prev, h1, h2⟩; exact ⟨prev, by rw [h, h1], h2⟩

theorem knows_init (c : WCfg) (fs : FS) : Knows S c fs (initPhase c) := by
  unfold initPhase
  split
  · assumption
  · intro h; cases h

theorem knows_step {s : State} (h : Inv S c₀ s) (hT : ∀ i, S.tmpPath (S.cfg i) ≠ S.target)
    (i : Nat) (fault : Bool) (hk : Knows S (S.cfg i) s.fs (s.w i)) :
    Knows S (S.cfg i) (step S s (.w i fault)).fs ((step S s (.w i fault)).w i) := by
  rcases target_change h hT i fault with hsame | ⟨same, k, _, hdone, hdata⟩
  · have hc := @sameAsTarget_congr S (S.cfg i) s.fs _ hsame
    revert hc hk hsame
    rw [step_w_phase, step_w_fs]
    generalize hw : wstep S (S.cfg i) fault s.fs (s.w i) = res
    obtain ⟨fs', p'⟩ := res
    intro hk hsame hc
    simp only at hsame hc ⊢
    cases hp : s.w i with
    | start =>
      rw [hp] at hw hk
      simp only [wstep] at hw
      injection hw with h1 h2; subst h1 h2
      cases hq : readPrev S fault s.fs with
      | none => intro e; cases e
      | some prev =>
        intro e
        refine ⟨hk, prev, ?_, e⟩
        unfold readPrev at hq
        split at hq
        · cases hq
        · cases hc0 : s.fs.content S.target with
          | none => rw [hc0] at hq; cases hq
          | some b =>
            rw [hc0] at hq
            simp only [Option.bind, readable] at hq
            split at hq
            · injection hq with hq; rw [hq]
            · cases hq
    | create same =>
      rw [hp] at hw hk
      simp only [wstep] at hw
      split at hw
      · injection hw with h1 h2; subst h1 h2
        exact fun e => ⟨(hk e).1, hc (hk e).2⟩
      · injection hw with h1 h2; subst h1 h2
        cases same with
        | true => exact .inr ⟨(hk rfl).1, hc (hk rfl).2⟩
        | false => trivial
    | writing same k rest =>
      rw [hp] at hw hk
      cases rest with
      | cons ch rest =>
        simp only [wstep] at hw
        split at hw <;> (injection hw with h1 h2; subst h1 h2; exact fun e => ⟨(hk e).1, hc (hk e).2⟩)
      | nil =>
        simp only [wstep] at hw
        split at hw
        · rename_i fs'' hren
          injection hw with h1 h2; subst h1 h2
          -- the rename happened: the target holds the data
          left
          have h2 := h.prog i same k [] hp
          simp only [List.flatten_nil, List.append_nil] at h2
          unfold tryRename at hren
          split at hren
          · cases hren
          · unfold FS.rename at hren
            rw [h.own i k (by rw [hp]; rfl)] at hren
            simp only at hren
            split at hren
            · injection hren with hren; subst hren; simp [FS.content, h2]
            · cases hren
        · injection hw with h1 h2; subst h1 h2
          exact fun e => ⟨(hk e).1, hc (hk e).2⟩
    | cleanup same k =>
      rw [hp] at hw hk
      simp only [wstep] at hw
      injection hw with h1 h2; subst h1 h2
      cases same with
      | true => exact .inr ⟨(hk rfl).1, hc (hk rfl).2⟩
      | false => trivial
    | done r =>
      rw [hp] at hw hk
      simp only [wstep] at hw
      injection hw with h1 h2; subst h1 h2
      exact hk
    | dead =>
      rw [hp] at hw
      simp only [wstep] at hw
      injection hw with h1 h2; subst h1 h2
      trivial
  · rw [hdone]; exact .inl hdata

theorem knows_alone {s : State} (h : Inv S c₀ s) (hT : ∀ i, S.tmpPath (S.cfg i) ≠ S.target)
    (i : Nat) (faults : List Bool) (hk : Knows S (S.cfg i) s.fs (s.w i)) :
    Knows S (S.cfg i) (exec S s (alone i faults)).fs ((exec S s (alone i faults)).w i) := by
  induction faults generalizing s with
  | nil => exact hk
  | cons f fs ih => exact ih (inv_step hT h (.w i f)) (knows_step h hT i f hk)

-- a run without faults and without interference ends with the new contents in place ---------

def Smooth (S : Sys) (c : WCfg) (fs : FS) : WPhase → Prop
  | .start => fs.names (S.tmpPath c) = none
  | .create _ => fs.names (S.tmpPath c) = none
  | .writing _ _ _ => True
  | .cleanup _ _ => False
  | .done .ok => fs.content S.target = some c.data
  | .done .err => False
  | .dead => False

theorem smooth_step {s : State} (h : Inv S c₀ s) (i : Nat)
    (hd : s.fs.dirOk S.target.dir = true) (hk : Smooth S (S.cfg i) s.fs (s.w i)) :
    (step S s (.w i false)).fs.dirOk S.target.dir = true ∧
    Smooth S (S.cfg i) (step S s (.w i false)).fs ((step S s (.w i false)).w i) := by
  rw [step_w_phase, step_w_fs]
  cases hp : s.w i with
  | start =>
    rw [hp] at hk
    simp only [wstep]
    refine ⟨hd, ?_⟩
    cases readPrev S false s.fs <;> exact hk
  | create same =>
    rw [hp] at hk
    simp only [Smooth] at hk
    have hd' : s.fs.dirOk (S.tmpPath (S.cfg i)).dir = true := hd
    simp [wstep, tryCreate, FS.create, hk, hd', Smooth, hd]
  | writing same k rest =>
    cases rest with
    | cons ch rest => simp [wstep, FS.append, Smooth, hd]
    | nil =>
      have hown := h.own i k (by rw [hp]; rfl)
      have hdata := h.prog i same k [] hp
      simp only [List.flatten_nil, List.append_nil] at hdata
      have hd' : s.fs.dirOk (S.tmpPath (S.cfg i)).dir = true := hd
      simp [wstep, tryRename, FS.rename, hown, hd', hd, Smooth, FS.content, hdata]
  | cleanup same k => rw [hp] at hk; cases hk
  | done r =>
    rw [hp] at hk
    cases r with
    | ok => exact ⟨hd, hk⟩
    | err => cases hk
  | dead => rw [hp] at hk; cases hk

theorem smooth_alone {s : State} (h : Inv S c₀ s) (hT : ∀ i, S.tmpPath (S.cfg i) ≠ S.target)
    (i n : Nat) (hd : s.fs.dirOk S.target.dir = true) (hk : Smooth S (S.cfg i) s.fs (s.w i)) :
    Smooth S (S.cfg i) (exec S s (alone i (List.replicate n false))).fs
      ((exec S s (alone i (List.replicate n false))).w i) := by
  induction n generalizing s with
  | zero => exact hk
  | succ n ih =>
    have := smooth_step h i hd hk
    exact ih (inv_step hT h (.w i false)) this.1 this.2

end AtomicWrite
