/-
  Proofs/SerdeLemmas.lean — lemmas behind Props/C08.lean.
-/
import ChialispModel.Clvm.Serde
import ChialispModel.Clvm.SerdeSpec

namespace SerdeLemmas
open Serde

-- ---------------------------------------------------------------------------------------
-- A. encoder: the explicit-stack iterator computes the recursive form, which is clvmr's
-- ---------------------------------------------------------------------------------------

theorem atomsBelow_mono {n m : Nat} (h : n ≤ m) : ∀ v, AtomsBelow n v → AtomsBelow m v
  | .atom _, hv => Nat.lt_of_lt_of_le hv h
  | .pair a d, hv => ⟨atomsBelow_mono h a hv.1, atomsBelow_mono h d hv.2⟩

/-- `atom_size_blob` against clvmr's `write_atom`. -/
theorem atomSizeBlob_spec (b : Bytes) (h : b.length < 0x400000000) :
    SerdeSpec.encodeAtom b =
      match atomSizeBlob b with
      | some (true, pre) => some (pre ++ b)
      | some (false, pre) => some pre
      | none => none := by
  match b, h with
  | [], _ => simp [SerdeSpec.encodeAtom, atomSizeBlob]
  | [x], _ =>
    by_cases hx : x.toNat < 0x80
    · have : x.toNat ≤ 0x7f := by omega
      simp [SerdeSpec.encodeAtom, atomSizeBlob, hx, this]
    · have : ¬ x.toNat ≤ 0x7f := by omega
      simp [SerdeSpec.encodeAtom, atomSizeBlob, hx, this, SerdeSpec.sizePrefix]
  | x :: y :: r, h =>
    have h2 : (x :: y :: r).length ≠ 0 := by simp
    have h3 : ¬ ((x :: y :: r).length = 1 ∧ ((x :: y :: r).getD 0 0).toNat ≤ 0x7f) := by simp
    have h32 : (x :: y :: r).length >>> 32 = (x :: y :: r).length / (65536 * 65536) := by
      rw [Nat.shiftRight_eq_div_pow]
    simp only [SerdeSpec.encodeAtom, atomSizeBlob, SerdeSpec.sizePrefix, h2, h3, if_false, h32]
    split
    · rfl
    · split
      · rfl
      · split
        · rfl
        · split
          · rfl
          · rfl

theorem atomSizeBlob_ne_none (b : Bytes) (h : b.length < 0x400000000) : atomSizeBlob b ≠ none := by
  unfold atomSizeBlob
  repeat' split
  all_goals simp_all

theorem encodeRec_spec : ∀ v, AtomsBelow 0x400000000 v → SerdeSpec.encode v = some (encodeRec v)
  | .atom b, h => by
    have h' : b.length < 0x400000000 := h
    have hs := atomSizeBlob_spec b h'
    have hn := atomSizeBlob_ne_none b h'
    simp only [SerdeSpec.encode, encodeRec, hs]
    match hb : atomSizeBlob b with
    | some (true, pre) => rfl
    | some (false, pre) => rfl
    | none => exact absurd hb hn
  | .pair a d, h => by
    simp [SerdeSpec.encode, encodeRec, encodeRec_spec a h.1, encodeRec_spec d h.2]

/-- `next()` calls still needed to drain an iterator state. -/
def cost : List EncOp → Nat
  | [] => 0
  | .blob _ :: st => 1 + cost st
  | .object v :: st => 2 * v.size + cost st

/-- what a state will still emit. -/
def flatten : List EncOp → Bytes
  | [] => []
  | .blob b :: st => b ++ flatten st
  | .object v :: st => encodeRec v ++ flatten st

def AllBelow : List EncOp → Prop
  | [] => True
  | .blob _ :: st => AllBelow st
  | .object v :: st => AtomsBelow 0x400000000 v ∧ AllBelow st

theorem size_pos (v : Val) : 0 < v.size := by cases v <;> simp [Val.size] <;> omega

theorem encodeLoop_flatten : ∀ (fuel : Nat) (st : List EncOp), AllBelow st → cost st < fuel →
    encodeLoop fuel st = flatten st
  | 0, _, _, hc => by omega
  | fuel + 1, [], _, _ => by simp [encodeLoop, flatten]
  | fuel + 1, .blob b :: st, hb, hc => by
    simp only [cost] at hc
    simp only [encodeLoop, flatten]
    rw [encodeLoop_flatten fuel st hb (by omega)]
  | fuel + 1, .object (.pair f r) :: st, hb, hc => by
    simp only [cost, Val.size] at hc
    simp only [encodeLoop, flatten, encodeRec]
    rw [encodeLoop_flatten fuel (.object f :: .object r :: st) ⟨hb.1.1, hb.1.2, hb.2⟩
      (by simp only [cost]; omega)]
    simp [flatten]
  | fuel + 1, .object (.atom b) :: st, hb, hc => by
    simp only [cost, Val.size] at hc
    have hn := atomSizeBlob_ne_none b hb.1
    simp only [encodeLoop, flatten, encodeRec, atomStep]
    match hsb : atomSizeBlob b with
    | some (true, pre) =>
      simp only []
      rw [encodeLoop_flatten fuel (.blob b :: st) hb.2 (by simp only [cost]; omega)]
      simp [flatten]
    | some (false, pre) =>
      simp only []
      rw [encodeLoop_flatten fuel st hb.2 (by omega)]
    | none => exact absurd hsb hn

theorem encode_eq_rec (v : Val) (h : AtomsBelow 0x400000000 v) : encode v = encodeRec v := by
  unfold encode
  rw [encodeLoop_flatten _ [.object v] ⟨h, trivial⟩ (by simp [cost])]
  simp [flatten]

-- ---------------------------------------------------------------------------------------
-- B. size prefixes
-- ---------------------------------------------------------------------------------------

variable {cfg : SerdeCfg}

theorem stripBits_table : ∀ b : Fin 256, 0x80 ≤ b.val →
    stripBits 9 b.val 0x80 0 = (SerdeSpec.leadingOnes b.val, b.val &&& (0xff >>> SerdeSpec.leadingOnes b.val)) := by
  decide +kernel

theorem bitCount_eq (b : UInt8) (h : 0x80 ≤ b.toNat) : bitCount b = SerdeSpec.leadingOnes b.toNat := by
  have := stripBits_table ⟨b.toNat, UInt8.toNat_lt_size b⟩ h
  simp only [bitCount]
  rw [this]

theorem sizeByte_eq (b : UInt8) (h : 0x80 ≤ b.toNat) :
    sizeByte b = UInt8.ofNat (b.toNat &&& (0xff >>> SerdeSpec.leadingOnes b.toNat)) := by
  have := stripBits_table ⟨b.toNat, UInt8.toNat_lt_size b⟩ h
  simp only [sizeByte]
  rw [this]

/-- blobs of 1..3 bytes never reach `get_u32`: plain big-endian. -/
theorem intFromBytes_short (b : Bytes) (h0 : b ≠ []) (h3 : b.length ≤ 3) :
    intFromBytes cfg b = .ok (Bytes.toNatBE b) := by
  match b, h0, h3 with
  | [x], _, _ =>
    have hx : x.toNat < 256 := UInt8.toNat_lt_size x
    simp [intFromBytes, groupLoop, byteLoop, u64, shl8, Bytes.toNatBE, List.range, List.range.loop] <;> omega
  | [x, y], _, _ =>
    have hx : x.toNat < 256 := UInt8.toNat_lt_size x
    have hy : y.toNat < 256 := UInt8.toNat_lt_size y
    simp [intFromBytes, groupLoop, byteLoop, u64, shl8, Bytes.toNatBE, List.range, List.range.loop] <;> omega
  | [x, y, z], _, _ =>
    have hx : x.toNat < 256 := UInt8.toNat_lt_size x
    have hy : y.toNat < 256 := UInt8.toNat_lt_size y
    have hz : z.toNat < 256 := UInt8.toNat_lt_size z
    simp [intFromBytes, groupLoop, byteLoop, u64, shl8, Bytes.toNatBE, List.range, List.range.loop] <;> omega
  | _ :: _ :: _ :: _ :: _, _, h => simp at h
/-- the atom branch of clvmr's `node_from_stream` (first byte `b ≠ 0xff` already read). -/
def specAtom (rest : Bytes) (b : UInt8) : Option (Val × Bytes) :=
  if b = 0x80 then some (Val.nil, rest)
  else if b.toNat < 0x80 then some (.atom [b], rest)
  else
    match SerdeSpec.decodeSize b.toNat rest with
    | some (sz, r) => if r.length < sz then none else some (.atom (r.take sz), r.drop sz)
    | none => none

/-- the atom branch of the classic reader, errors collapsed. -/
def rustAtom (cfg : SerdeCfg) (rest : Bytes) (b : UInt8) : Option (Val × Bytes) :=
  match atomFromStream cfg rest b with
  | (.ok a, r) => some (.atom a, r)
  | (.error _, _) => none

theorem readBlob_spec (f : Bytes) (size : Nat) :
    (match readBlob f size with
     | (.ok a, r) => some (Val.atom a, r)
     | (.error _, _) => none) =
    if size ≥ 0x400000000 then none
    else if f.length < size then none else some (.atom (f.take size), f.drop size) := by
  unfold readBlob
  by_cases h1 : size ≥ 0x400000000
  · simp [h1]
  · by_cases h2 : f.length < size
    · have : min size f.length ≠ size := by omega
      simp [h1, h2, this]
    · have : min size f.length = size := by omega
      simp [h1, h2, this]

theorem leadingOnes_small (b : Nat) (h1 : 0x80 ≤ b) (h2 : b < 0xf0) :
    1 ≤ SerdeSpec.leadingOnes b ∧ SerdeSpec.leadingOnes b ≤ 3 := by
  unfold SerdeSpec.leadingOnes
  repeat' split
  all_goals omega

theorem leadingOnes_pos (b : Nat) (h1 : 0x80 ≤ b) : 1 ≤ SerdeSpec.leadingOnes b := by
  unfold SerdeSpec.leadingOnes
  repeat' split
  all_goals omega

/-- with a big-endian `get_u32` (the repaired code) blobs of up to 7 bytes are read big-endian. -/
theorem intFromBytes_be (hle : cfg.u32LittleEndian = false) (b : Bytes) (h0 : b ≠ []) (h7 : b.length ≤ 7) :
    intFromBytes cfg b = .ok (Bytes.toNatBE b) := by
  match b, h0, h7 with
  | [x], _, _ => exact intFromBytes_short _ (by simp) (by simp)
  | [x, y], _, _ => exact intFromBytes_short _ (by simp) (by simp)
  | [x, y, z], _, _ => exact intFromBytes_short _ (by simp) (by simp)
  | [x, y, z, w], _, _ =>
    have hx : x.toNat < 256 := UInt8.toNat_lt_size x
    have hy : y.toNat < 256 := UInt8.toNat_lt_size y
    have hz : z.toNat < 256 := UInt8.toNat_lt_size z
    have hw : w.toNat < 256 := UInt8.toNat_lt_size w
    simp [intFromBytes, groupLoop, byteLoop, getU32, hle, u64, shl8, shl32, Bytes.toNatBE, List.range, List.range.loop] <;> omega
  | [x, y, z, w, v], _, _ =>
    have hx : x.toNat < 256 := UInt8.toNat_lt_size x
    have hy : y.toNat < 256 := UInt8.toNat_lt_size y
    have hz : z.toNat < 256 := UInt8.toNat_lt_size z
    have hw : w.toNat < 256 := UInt8.toNat_lt_size w
    have hv : v.toNat < 256 := UInt8.toNat_lt_size v
    simp [intFromBytes, groupLoop, byteLoop, getU32, hle, u64, shl8, shl32, Bytes.toNatBE, List.range, List.range.loop] <;> omega
  | [x, y, z, w, v, u], _, _ =>
    have hx : x.toNat < 256 := UInt8.toNat_lt_size x
    have hy : y.toNat < 256 := UInt8.toNat_lt_size y
    have hz : z.toNat < 256 := UInt8.toNat_lt_size z
    have hw : w.toNat < 256 := UInt8.toNat_lt_size w
    have hv : v.toNat < 256 := UInt8.toNat_lt_size v
    have hu : u.toNat < 256 := UInt8.toNat_lt_size u
    simp [intFromBytes, groupLoop, byteLoop, getU32, hle, u64, shl8, shl32, Bytes.toNatBE, List.range, List.range.loop] <;> omega
  | [x, y, z, w, v, u, t], _, _ =>
    have hx : x.toNat < 256 := UInt8.toNat_lt_size x
    have hy : y.toNat < 256 := UInt8.toNat_lt_size y
    have hz : z.toNat < 256 := UInt8.toNat_lt_size z
    have hw : w.toNat < 256 := UInt8.toNat_lt_size w
    have hv : v.toNat < 256 := UInt8.toNat_lt_size v
    have hu : u.toNat < 256 := UInt8.toNat_lt_size u
    have ht : t.toNat < 256 := UInt8.toNat_lt_size t
    simp [intFromBytes, groupLoop, byteLoop, getU32, hle, u64, shl8, shl32, Bytes.toNatBE, List.range, List.range.loop] <;> omega
  | _ :: _ :: _ :: _ :: _ :: _ :: _ :: _ :: _, _, h => simp at h

/-- the classic atom reader and clvmr's agree on a header byte `b ≥ 0x80` whose prefix is at most
    6 bytes long, provided `int_from_bytes` reads size blobs of that length big-endian. -/
theorem atom_agree (rest : Bytes) (b : UInt8) (hge : 0x80 ≤ b.toNat) (h80 : b ≠ 0x80)
    (hk6 : SerdeSpec.leadingOnes b.toNat ≤ 6)
    (hint : ∀ blob : Bytes, blob ≠ [] → blob.length = SerdeSpec.leadingOnes b.toNat →
      intFromBytes cfg blob = .ok (Bytes.toNatBE blob)) :
    rustAtom cfg rest b = specAtom rest b := by
  unfold rustAtom specAtom atomFromStream
  have h7 : ¬ b.toNat < 0x80 := by omega
  have h7' : ¬ b.toNat ≤ 0x7f := by omega
  have hk1 := leadingOnes_pos b.toNat hge
  simp only [h80, h7, h7', if_false]
  rw [bitCount_eq b hge, sizeByte_eq b hge]
  unfold SerdeSpec.decodeSize
  generalize hkk : SerdeSpec.leadingOnes b.toNat = k at hk1 hk6 hint
  have hk6' : ¬ (cfg.accept7 = false ∧ k > 6) := fun h => by omega
  rw [if_neg hk6']
  by_cases hlen : rest.length < k - 1
  · have : min (k - 1) rest.length ≠ k - 1 := by omega
    by_cases hk1 : k > 1
    · simp [hlen, this, hk1]
    · omega
  · have htl : (rest.take (k - 1)).length = k - 1 := by rw [List.length_take]; omega
    have hk8 : ¬ k ≥ 8 := by omega
    have hk6 : ¬ k > 6 := by omega
    simp only [hk8, hk6, hlen, if_false]
    by_cases hk1 : k > 1
    · simp only [hk1, if_true, htl, ne_eq, not_true_eq_false, if_false]
      unfold sizedAtom
      rw [hint _ (by simp) (by simp [htl]; omega)]
      simp only []
      have := readBlob_spec (rest.drop (k - 1)) (Bytes.toNatBE (UInt8.ofNat (b.toNat &&& 255 >>> k) :: List.take (k - 1) rest))
      rw [this]
      split <;> simp_all
    · have hk1' : k = 1 := by omega
      subst hk1'
      simp only [Nat.lt_irrefl, if_false, Nat.sub_self, List.take_zero, List.drop_zero]
      unfold sizedAtom
      rw [hint _ (by simp) (by simp)]
      simp only []
      have := readBlob_spec rest (Bytes.toNatBE [UInt8.ofNat (b.toNat &&& 255 >>> 1)])
      rw [this]
      split <;> simp_all

theorem atom_small (rest : Bytes) (b : UInt8) (h : b = 0x80 ∨ b.toNat < 0x80) :
    rustAtom cfg rest b = specAtom rest b := by
  unfold rustAtom specAtom atomFromStream
  by_cases h80 : b = 0x80
  · simp [h80, Val.nil]
  · have h7 : b.toNat < 0x80 := by rcases h with h | h; exact absurd h h80; exact h
    have : b.toNat ≤ 0x7f := by omega
    simp [h80, h7, this]

/-- any configuration: header bytes below 0xf0 (prefixes of 1–3 bytes) are read as clvmr reads them. -/
theorem atom_narrow (rest : Bytes) (b : UInt8) (hb : b.toNat < 0xf0) :
    rustAtom cfg rest b = specAtom rest b := by
  by_cases hs : b = 0x80 ∨ b.toNat < 0x80
  · exact atom_small rest b hs
  · have hge : 0x80 ≤ b.toNat := by omega
    have hk := leadingOnes_small b.toNat hge hb
    exact atom_agree rest b hge (fun h => hs (.inl h)) (by omega)
      (fun blob h0 hl => intFromBytes_short blob h0 (by omega))

/-- the repaired configuration: EVERY header byte is read as clvmr reads it. -/
theorem atom_full (hle : cfg.u32LittleEndian = false) (h7 : cfg.accept7 = false) (rest : Bytes) (b : UInt8) :
    rustAtom cfg rest b = specAtom rest b := by
  by_cases hs : b = 0x80 ∨ b.toNat < 0x80
  · exact atom_small rest b hs
  · have hge : 0x80 ≤ b.toNat := by omega
    by_cases hk6 : SerdeSpec.leadingOnes b.toNat ≤ 6
    · exact atom_agree rest b hge (fun h => hs (.inl h)) hk6
        (fun blob h0 hl => intFromBytes_be hle blob h0 (by omega))
    · -- 7- and 8-bit prefixes: both reject
      have h80 : b ≠ 0x80 := fun h => hs (.inl h)
      have h7f : ¬ b.toNat < 0x80 := by omega
      have h7f' : ¬ b.toNat ≤ 0x7f := by omega
      unfold rustAtom specAtom atomFromStream
      simp only [h80, h7f, h7f', if_false]
      rw [bitCount_eq b hge]
      have hgt : SerdeSpec.leadingOnes b.toNat > 6 := by omega
      simp only [h7, hgt, and_self, if_true]
      unfold SerdeSpec.decodeSize
      simp only []
      by_cases h8 : SerdeSpec.leadingOnes b.toNat ≥ 8
      · simp [h8]
      · by_cases hl : rest.length < SerdeSpec.leadingOnes b.toNat - 1
        · simp [h8, hl]
        · simp [h8, hl, hgt]

theorem parse_atom_eq (n : Nat) (b : UInt8) (rest : Bytes) (h : b ≠ 0xff) :
    parse cfg (n + 1) (b :: rest) = rustAtom cfg rest b := by
  simp only [parse, h, if_false, rustAtom]
  split <;> simp_all

theorem spec_atom_eq (n : Nat) (b : UInt8) (rest : Bytes) (h : b ≠ 0xff) :
    SerdeSpec.decodeAux (n + 1) (b :: rest) = specAtom rest b := by
  simp only [SerdeSpec.decodeAux, h, if_false, specAtom]
  rfl

/-- on inputs whose reading meets no length prefix of the 4+-byte class, the error-free
    reading IS clvmr's `node_from_stream`. -/
theorem parse_eq_spec : ∀ (n : Nat) (bs : Bytes), usesWide cfg n bs = false →
    parse cfg n bs = SerdeSpec.decodeAux n bs
  | 0, _, _ => by simp [parse, SerdeSpec.decodeAux]
  | n + 1, [], _ => by simp [parse, SerdeSpec.decodeAux]
  | n + 1, b :: rest, hw => by
    by_cases hff : b = 0xff
    · subst hff
      simp only [usesWide, if_true, Bool.or_eq_false_iff] at hw
      have ih1 := parse_eq_spec n rest hw.1
      simp only [parse, SerdeSpec.decodeAux, if_true]
      rw [← ih1]
      match hp : parse cfg n rest with
      | none => simp
      | some (a, r1) =>
        have hw2 : usesWide cfg n r1 = false := by simpa [hp] using hw.2
        have ih2 := parse_eq_spec n r1 hw2
        simp only []
        rw [← ih2]
        cases parse cfg n r1 <;> rfl
    · have hb : b.toNat < 0xf0 := by
        simp only [usesWide, hff, if_false, decide_eq_false_iff_not] at hw
        omega
      rw [parse_atom_eq n b rest hff, spec_atom_eq n b rest hff, atom_narrow rest b hb]
-- ---------------------------------------------------------------------------------------
-- C. the op-stack machine with dropped errors = the error-free recursive reading
-- ---------------------------------------------------------------------------------------

theorem readBlob_len (f : Bytes) (size : Nat) : (readBlob f size).2.length ≤ f.length := by
  unfold readBlob
  repeat' split
  all_goals simp [List.length_drop]

theorem sizedAtom_len (f blob : Bytes) : (sizedAtom cfg f blob).2.length ≤ f.length := by
  unfold sizedAtom
  split
  · exact readBlob_len _ _
  · simp

theorem atomFromStream_len (f : Bytes) (b : UInt8) : (atomFromStream cfg f b).2.length ≤ f.length := by
  unfold atomFromStream
  repeat' split
  all_goals first
    | simp [List.length_drop]
    | exact Nat.le_trans (sizedAtom_len _ _) (by simp [List.length_drop])
    | exact sizedAtom_len _ _

theorem runOps_mono : ∀ (n : Nat) (ops : List Op) (vals : List Val) (f : Bytes) (x : List Val),
    runOps cfg n ops vals f = .ok x → runOps cfg (n + 1) ops vals f = .ok x
  | 0, _, _, _, _, h => by simp [runOps] at h
  | n + 1, [], vals, f, x, h => by simpa [runOps] using h
  | n + 1, .cons :: ops, vals, f, x, h => by
    match vals, h with
    | r :: l :: vs, h => simp only [runOps] at h ⊢; exact runOps_mono n _ _ _ _ h
    | [_], h => simp only [runOps] at h ⊢; exact runOps_mono n _ _ _ _ h
    | [], h => simp only [runOps] at h ⊢; exact runOps_mono n _ _ _ _ h
  | n + 1, .read :: ops, vals, f, x, h => by
    match f, h with
    | [], h => simp only [runOps] at h ⊢; exact runOps_mono n _ _ _ _ h
    | b :: f', h =>
      simp only [runOps] at h ⊢
      by_cases hff : b = 0xff
      · simp only [hff, if_true] at h ⊢; exact runOps_mono n _ _ _ _ h
      · simp only [hff, if_false] at h ⊢
        match hr : atomFromStream cfg f' b, h with
        | (.ok a, f''), h => simp only [] at h ⊢; exact runOps_mono n _ _ _ _ h
        | (.error _, f''), h => simp only [] at h ⊢; exact runOps_mono n _ _ _ _ h

theorem runOps_mono_le {n m : Nat} (hle : n ≤ m) {ops : List Op} {vals : List Val} {f : Bytes} {x : List Val}
    (h : runOps cfg n ops vals f = .ok x) : runOps cfg m ops vals f = .ok x := by
  induction hle with
  | refl => exact h
  | step _ ih => exact runOps_mono _ _ _ _ _ ih

theorem runOps_total : ∀ (n : Nat) (ops : List Op) (vals : List Val) (f : Bytes),
    3 * f.length + ops.length < n → ∃ x, runOps cfg n ops vals f = .ok x
  | 0, _, _, _, h => by omega
  | n + 1, [], vals, f, _ => ⟨vals, by simp [runOps]⟩
  | n + 1, .cons :: ops, vals, f, h => by
    have h' : 3 * f.length + ops.length < n := by simp at h; omega
    match vals with
    | r :: l :: vs => simp only [runOps]; exact runOps_total n _ _ _ h'
    | [_] => simp only [runOps]; exact runOps_total n _ _ _ h'
    | [] => simp only [runOps]; exact runOps_total n _ _ _ h'
  | n + 1, .read :: ops, vals, f, h => by
    match f, h with
    | [], h => simp only [runOps]; exact runOps_total n _ _ _ (by simp at h ⊢; omega)
    | b :: f', h =>
      simp only [runOps]
      by_cases hff : b = 0xff
      · simp only [hff, if_true]; exact runOps_total n _ _ _ (by simp at h ⊢; omega)
      · simp only [hff, if_false]
        have hl := atomFromStream_len (cfg := cfg) f' b
        match hr : atomFromStream cfg f' b with
        | (.ok a, f'') =>
          simp only [hr] at hl ⊢; exact runOps_total n _ _ _ (by simp at h ⊢; omega)
        | (.error _, f'') =>
          simp only [hr] at hl ⊢; exact runOps_total n _ _ _ (by simp at h ⊢; omega)
/-- what one `OpReadSexp` (with everything it pushes) does to the machine: it hands over to
    the rest of the op stack with one more value — the value read — exactly when the
    error-free reading succeeds, and with NO MORE values than before when any read inside
    it failed (the dropped error always leaves the value stack at least one short). -/
def ReadEffect (cfg : SerdeCfg) (n : Nat) (f : Bytes) (ops : List Op) (vals : List Val) : Prop :=
  ∃ (k : Nat) (vals' : List Val) (f' : Bytes),
    f'.length ≤ f.length ∧
    (∀ fuel, runOps cfg (fuel + k) (.read :: ops) vals f = runOps cfg fuel ops vals' f') ∧
    (match parse cfg n f with
     | some (v, r) => vals' = v :: vals ∧ f' = r
     | none => vals'.length ≤ vals.length)

theorem runOps_read : ∀ (n : Nat) (f : Bytes), f.length < n → ∀ (ops : List Op) (vals : List Val),
    ReadEffect cfg n f ops vals
  | 0, _, h, _, _ => by omega
  | n + 1, [], _, ops, vals =>
    ⟨1, vals, [], Nat.le_refl _, fun fuel => by simp [runOps], by simp [parse]⟩
  | n + 1, b :: rest, hlen, ops, vals => by
    by_cases hff : b = 0xff
    · subst hff
      have hl1 : rest.length < n := by simp at hlen; omega
      obtain ⟨k1, vals1, f1, hf1, hrun1, hres1⟩ := runOps_read n rest hl1 (.read :: .cons :: ops) vals
      obtain ⟨k2, vals2, f2, hf2, hrun2, hres2⟩ := runOps_read n f1 (by omega) (.cons :: ops) vals1
      -- the final OpCons
      have hcons : ∃ vals3, (∀ fuel, runOps cfg (fuel + 1) (.cons :: ops) vals2 f2 = runOps cfg fuel ops vals3 f2) ∧
          (∀ l r vs, vals2 = r :: l :: vs → vals3 = .pair l r :: vs) ∧ vals3.length ≤ vals2.length - 1 := by
        match vals2 with
        | r :: l :: vs => exact ⟨.pair l r :: vs, fun fuel => by simp [runOps], (fun _ _ _ h => by cases h; rfl), by simp⟩
        | [_] => exact ⟨[], fun fuel => by simp [runOps], (fun _ _ _ h => by cases h), by simp⟩
        | [] => exact ⟨[], fun fuel => by simp [runOps], (fun _ _ _ h => by cases h), by simp⟩
      obtain ⟨vals3, hrun3, hpair, hlen3⟩ := hcons
      refine ⟨(1 + k2 + k1) + 1, vals3, f2, by simp; omega, ?_, ?_⟩
      · intro fuel
        have e : fuel + (1 + k2 + k1 + 1) = (fuel + 1 + k2 + k1) + 1 := by omega
        rw [e]
        simp only [runOps, if_true]
        rw [hrun1, hrun2, hrun3]
      · simp only [parse, if_true]
        match hp1 : parse cfg n rest with
        | none =>
          simp only [hp1] at hres1 ⊢
          have : vals2.length ≤ vals1.length + 1 := by
            cases hp2 : parse cfg n f1 with
            | none => simp only [hp2] at hres2; omega
            | some p => obtain ⟨v, r⟩ := p; simp only [hp2] at hres2; rw [hres2.1]; simp
          omega
        | some (a, r1) =>
          simp only [hp1] at hres1 ⊢
          obtain ⟨hv1, hf1'⟩ := hres1
          subst hf1'
          match hp2 : parse cfg n f1 with
          | none =>
            simp only [hp2] at hres2 ⊢
            rw [hv1] at hres2; simp at hres2; omega
          | some (d, r2) =>
            simp only [hp2] at hres2 ⊢
            obtain ⟨hv2, hf2'⟩ := hres2
            exact ⟨hpair a d vals (by rw [hv2, hv1]), hf2'⟩
    · have hl := atomFromStream_len (cfg := cfg) rest b
      match hr : atomFromStream cfg rest b with
      | (.ok a, f'') =>
        rw [hr] at hl
        exact ⟨1, .atom a :: vals, f'', by simp at hl ⊢; omega,
          fun fuel => by simp [runOps, hff, hr], by simp [parse, hff, hr]⟩
      | (.error e, f'') =>
        rw [hr] at hl
        exact ⟨1, vals, f'', by simp at hl ⊢; omega,
          fun fuel => by simp [runOps, hff, hr], by simp [parse, hff, hr]⟩
/-- result of the error-free reading as a decoder result. -/
def parseResult (cfg : SerdeCfg) (bs : Bytes) : Except SerErr Val :=
  match parse cfg (bs.length + 1) bs with
  | some (v, _) => .ok v
  | none => .error .noValue

theorem decode_eq_parse (bs : Bytes) : decode cfg bs = parseResult cfg bs := by
  obtain ⟨k, vals', f', _, hrun, hres⟩ := runOps_read (bs.length + 1) bs (Nat.lt_succ_self _) [] []
  have h1 : runOps cfg (1 + k) [.read] [] bs = .ok vals' := by rw [hrun 1]; simp [runOps]
  obtain ⟨x, hx⟩ := runOps_total (decodeFuel bs) [.read] [] bs (by simp [decodeFuel])
  have hxv : x = vals' := by
    rcases Nat.le_total (1 + k) (decodeFuel bs) with hle | hle
    · have := runOps_mono_le hle h1; rw [hx] at this; cases this; rfl
    · have := runOps_mono_le hle hx; rw [h1] at this; cases this; rfl
  subst hxv
  unfold decode parseResult
  rw [hx]
  match hp : parse cfg (bs.length + 1) bs with
  | some (v, r) =>
    simp only [hp] at hres
    rw [hres.1]
  | none =>
    simp only [hp] at hres
    have : x = [] := by cases x with
      | nil => rfl
      | cons _ _ => simp at hres
    rw [this]

/-- more fuel than `decodeFuel` changes nothing, and the budget is never exhausted. -/
theorem decode_fuel (bs : Bytes) (n : Nat) (h : decodeFuel bs ≤ n) :
    runOps cfg n [.read] [] bs = runOps cfg (decodeFuel bs) [.read] [] bs := by
  obtain ⟨x, hx⟩ := runOps_total (decodeFuel bs) [.read] [] bs (by simp [decodeFuel])
  rw [hx, runOps_mono_le h hx]

theorem decode_ne_fuel (bs : Bytes) : decode cfg bs ≠ .error .fuel := by
  rw [decode_eq_parse]; unfold parseResult; split <;> simp
-- ---------------------------------------------------------------------------------------
-- D. round trip
-- ---------------------------------------------------------------------------------------

theorem stripBits_arith : ∀ b : Fin 256, 0x80 ≤ b.val → b.val < 0xfc →
    stripBits 9 b.val 0x80 0 =
      (if b.val < 0xc0 then (1, b.val - 0x80) else if b.val < 0xe0 then (2, b.val - 0xc0)
       else if b.val < 0xf0 then (3, b.val - 0xe0) else if b.val < 0xf8 then (4, b.val - 0xf0) else (5, b.val - 0xf8)) := by
  decide +kernel

theorem or_80 : ∀ n : Fin 64, 0x80 ||| n.val = 0x80 + n.val := by decide
theorem or_c0 : ∀ n : Fin 32, 0xC0 ||| n.val = 0xC0 + n.val := by decide
theorem or_e0 : ∀ n : Fin 16, 0xE0 ||| n.val = 0xE0 + n.val := by decide
theorem or_f0 : ∀ n : Fin 8, 0xF0 ||| n.val = 0xF0 + n.val := by decide
theorem or_f8 : ∀ n : Fin 4, 0xF8 ||| n.val = 0xF8 + n.val := by decide

theorem and_ff (n : Nat) : n &&& 0xff = n % 256 := Nat.and_two_pow_sub_one_eq_mod n 8

/-- reading back a length prefix (at most 6 bytes, its size blob read big-endian) followed by the
    atom's bytes. -/
theorem atomFromStream_sized (b : UInt8) (k s : Nat) (tail body rest : Bytes)
    (hge : 0x80 < b.toNat)
    (hstrip : stripBits 9 b.toNat 0x80 0 = (k, s))
    (hk1 : 1 ≤ k) (hk6 : k ≤ 6) (htail : tail.length = k - 1)
    (hint : intFromBytes cfg (UInt8.ofNat s :: tail) = .ok (Bytes.toNatBE (UInt8.ofNat s :: tail)))
    (hsize : Bytes.toNatBE (UInt8.ofNat s :: tail) = body.length)
    (hL : body.length < 0x400000000) :
    atomFromStream cfg (tail ++ (body ++ rest)) b = (.ok body, rest) := by
  have hb80 : b ≠ 0x80 := by intro h; rw [h] at hge; simp at hge
  have h7 : ¬ b.toNat ≤ 0x7f := by omega
  have hbc : bitCount b = k := by simp [bitCount, hstrip]
  have hsb : sizeByte b = UInt8.ofNat s := by simp [sizeByte, hstrip]
  have hk6' : ¬ (cfg.accept7 = false ∧ k > 6) := fun h => by omega
  have hrb : readBlob (body ++ rest) body.length = (.ok body, rest) := by
    unfold readBlob
    have h1 : ¬ body.length ≥ 0x400000000 := by omega
    simp [h1]
  unfold atomFromStream
  simp only [hb80, h7, if_false, hbc, hsb]
  rw [if_neg hk6']
  by_cases hk : k > 1
  · simp only [hk, if_true]
    rw [List.take_left' htail, List.drop_left' htail]
    simp only [htail, ne_eq, not_true_eq_false, if_false]
    unfold sizedAtom
    rw [hint, hsize]
    exact hrb
  · have : k = 1 := by omega
    subst this
    have : tail = [] := List.eq_nil_of_length_eq_zero htail
    subst this
    simp only [Nat.lt_irrefl, if_false, List.nil_append]
    unfold sizedAtom
    rw [hint, hsize]
    exact hrb

theorem parse_of_atom (n : Nat) (p0 : UInt8) (tail body rest : Bytes) (hff : p0 ≠ 0xff)
    (h : atomFromStream cfg (tail ++ (body ++ rest)) p0 = (.ok body, rest)) :
    parse cfg (n + 1) ((p0 :: tail ++ body) ++ rest) = some (.atom body, rest) := by
  simp only [List.cons_append, List.append_assoc, parse, hff, if_false, h]

theorem ofNat_ne_ff (m : Nat) (h : m < 0xff) : UInt8.ofNat m ≠ 0xff := by
  intro e
  have := congrArg UInt8.toNat e
  rw [UInt8.toNat_ofNat'] at this
  have h2 : (0xff : UInt8).toNat = 255 := rfl
  omega

theorem toNat_ofNat_lt (m : Nat) (h : m < 256) : (UInt8.ofNat m).toNat = m := by
  rw [UInt8.toNat_ofNat']; omega

/-- what `atom_size_blob` writes in front of an atom that is not a single byte below 0x80, AS THE
    READER OF CONFIGURATION `cfg` SEES IT: a first byte `p0` with `k ≤ 6` leading ones, `k - 1`
    further bytes, a size blob that `int_from_bytes` reads big-endian, whose value is the length. -/
structure PrefixShape (cfg : SerdeCfg) (body : Bytes) (p0 : UInt8) (tail : Bytes) (k s : Nat) : Prop where
  pre : atomSizeBlob body = some (true, p0 :: tail)
  nff : p0 ≠ 0xff
  ge : 0x80 < p0.toNat
  strip : stripBits 9 p0.toNat 0x80 0 = (k, s)
  k1 : 1 ≤ k
  k6 : k ≤ 6
  tl : tail.length = k - 1
  int : intFromBytes cfg (UInt8.ofNat s :: tail) = .ok (Bytes.toNatBE (UInt8.ofNat s :: tail))
  size : Bytes.toNatBE (UInt8.ofNat s :: tail) = body.length
  lim : body.length < 0x400000000

/-- prefixes of 1–3 bytes (atoms shorter than 0x100000 bytes): any configuration. -/
theorem prefix_shape (body : Bytes) (hb : body.length < 0x100000) (hn0 : ¬ body.length = 0)
    (hn1 : ¬ (body.length = 1 ∧ (body.getD 0 0).toNat ≤ 0x7f)) :
    ∃ p0 tail k s, PrefixShape cfg body p0 tail k s := by
  by_cases h40 : body.length < 0x40
  · -- one-byte prefix
    have hor := or_80 ⟨body.length, h40⟩
    simp only at hor
    have hto := toNat_ofNat_lt (0x80 + body.length) (by omega)
    have hst := stripBits_arith ⟨0x80 + body.length, by omega⟩ (by simp) (by simp; omega)
    simp only at hst
    rw [if_pos (by omega)] at hst
    exact ⟨UInt8.ofNat (0x80 + body.length), [], 1, body.length,
      by unfold atomSizeBlob; rw [if_neg hn0, if_neg hn1, if_pos h40, hor],
      ofNat_ne_ff _ (by omega), by omega, by rw [hto, hst]; simp, by omega, by omega, rfl,
      intFromBytes_short _ (by simp) (by simp),
      by simp only [Bytes.toNatBE, List.foldl]; rw [toNat_ofNat_lt _ (by omega)]; omega, by omega⟩
  · by_cases h2000 : body.length < 0x2000
    · -- two-byte prefix
      have hs8 : body.length >>> 8 = body.length / 256 := Nat.shiftRight_eq_div_pow _ 8
      have hor := or_c0 ⟨body.length / 256, by omega⟩
      simp only at hor
      have hto := toNat_ofNat_lt (0xC0 + body.length / 256) (by omega)
      have hst := stripBits_arith ⟨0xC0 + body.length / 256, by omega⟩ (by simp <;> omega) (by simp; omega)
      simp only at hst
      rw [if_neg (by omega), if_pos (by omega)] at hst
      exact ⟨UInt8.ofNat (0xC0 + body.length / 256), [UInt8.ofNat (body.length % 256)], 2, body.length / 256,
        by unfold atomSizeBlob; rw [if_neg hn0, if_neg hn1, if_neg h40, if_pos h2000, hs8, hor, and_ff],
        ofNat_ne_ff _ (by omega), by omega, by rw [hto, hst]; simp, by omega, by omega, rfl,
        intFromBytes_short _ (by simp) (by simp),
        by simp only [Bytes.toNatBE, List.foldl]
           rw [toNat_ofNat_lt _ (by omega), toNat_ofNat_lt _ (by omega)]; omega, by omega⟩
    · -- three-byte prefix
      have hs8 : body.length >>> 8 = body.length / 256 := Nat.shiftRight_eq_div_pow _ 8
      have hs16 : body.length >>> 16 = body.length / 65536 := Nat.shiftRight_eq_div_pow _ 16
      have hor := or_e0 ⟨body.length / 65536, by omega⟩
      simp only at hor
      have hto := toNat_ofNat_lt (0xE0 + body.length / 65536) (by omega)
      have hst := stripBits_arith ⟨0xE0 + body.length / 65536, by omega⟩ (by simp <;> omega) (by simp; omega)
      simp only at hst
      rw [if_neg (by omega), if_neg (by omega), if_pos (by omega)] at hst
      exact ⟨UInt8.ofNat (0xE0 + body.length / 65536),
        [UInt8.ofNat (body.length / 256 % 256), UInt8.ofNat (body.length % 256)], 3, body.length / 65536,
        by unfold atomSizeBlob
           rw [if_neg hn0, if_neg hn1, if_neg h40, if_neg h2000, if_pos hb, hs8, hs16, hor, and_ff, and_ff],
        ofNat_ne_ff _ (by omega), by omega, by rw [hto, hst]; simp, by omega, by omega, rfl,
        intFromBytes_short _ (by simp) (by simp),
        by simp only [Bytes.toNatBE, List.foldl]
           rw [toNat_ofNat_lt _ (by omega), toNat_ofNat_lt _ (by omega), toNat_ofNat_lt _ (by omega)]; omega,
        by omega⟩

/-- prefixes of 4 and 5 bytes (atoms of 0x100000 … 2^34-1 bytes): the repaired `get_u32` only. -/
theorem prefix_shape_wide (hle : cfg.u32LittleEndian = false) (body : Bytes)
    (hlo : ¬ body.length < 0x100000) (hb : body.length < 0x400000000) :
    ∃ p0 tail k s, PrefixShape cfg body p0 tail k s := by
  have hn0 : ¬ body.length = 0 := by omega
  have hn1 : ¬ (body.length = 1 ∧ (body.getD 0 0).toNat ≤ 0x7f) := by omega
  have h40 : ¬ body.length < 0x40 := by omega
  have h2000 : ¬ body.length < 0x2000 := by omega
  have hs8 : body.length >>> 8 = body.length / 256 := Nat.shiftRight_eq_div_pow _ 8
  have hs16 : body.length >>> 16 = body.length / 65536 := Nat.shiftRight_eq_div_pow _ 16
  have hs24 : body.length >>> 24 = body.length / 16777216 := Nat.shiftRight_eq_div_pow _ 24
  by_cases h8m : body.length < 0x8000000
  · -- four-byte prefix
    have hor := or_f0 ⟨body.length / 16777216, by omega⟩
    simp only at hor
    have hto := toNat_ofNat_lt (0xF0 + body.length / 16777216) (by omega)
    have hst := stripBits_arith ⟨0xF0 + body.length / 16777216, by omega⟩ (by simp <;> omega) (by simp; omega)
    simp only at hst
    rw [if_neg (by omega), if_neg (by omega), if_neg (by omega), if_pos (by omega)] at hst
    exact ⟨UInt8.ofNat (0xF0 + body.length / 16777216),
      [UInt8.ofNat (body.length / 65536 % 256), UInt8.ofNat (body.length / 256 % 256), UInt8.ofNat (body.length % 256)],
      4, body.length / 16777216,
      by unfold atomSizeBlob
         rw [if_neg hn0, if_neg hn1, if_neg h40, if_neg h2000, if_neg hlo, if_pos h8m, hs8, hs16, hs24, hor,
           and_ff, and_ff, and_ff],
      ofNat_ne_ff _ (by omega), by omega, by rw [hto, hst]; simp, by omega, by omega, rfl,
      intFromBytes_be hle _ (by simp) (by simp),
      by simp only [Bytes.toNatBE, List.foldl]
         rw [toNat_ofNat_lt _ (by omega), toNat_ofNat_lt _ (by omega), toNat_ofNat_lt _ (by omega),
           toNat_ofNat_lt _ (by omega)]; omega,
      hb⟩
  · -- five-byte prefix
    have h32 : body.length / (65536 * 65536) = body.length / 4294967296 := rfl
    have hor := or_f8 ⟨body.length / 4294967296, by omega⟩
    simp only at hor
    have hto := toNat_ofNat_lt (0xF8 + body.length / 4294967296) (by omega)
    have hst := stripBits_arith ⟨0xF8 + body.length / 4294967296, by omega⟩ (by simp <;> omega) (by simp; omega)
    simp only at hst
    rw [if_neg (by omega), if_neg (by omega), if_neg (by omega), if_neg (by omega)] at hst
    exact ⟨UInt8.ofNat (0xF8 + body.length / 4294967296),
      [UInt8.ofNat (body.length / 16777216 % 256), UInt8.ofNat (body.length / 65536 % 256),
       UInt8.ofNat (body.length / 256 % 256), UInt8.ofNat (body.length % 256)],
      5, body.length / 4294967296,
      by unfold atomSizeBlob
         rw [if_neg hn0, if_neg hn1, if_neg h40, if_neg h2000, if_neg hlo, if_neg h8m, if_pos hb, hs8, hs16, hs24,
           h32, hor, and_ff, and_ff, and_ff, and_ff],
      ofNat_ne_ff _ (by omega), by omega, by rw [hto, hst]; simp, by omega, by omega, rfl,
      intFromBytes_be hle _ (by simp) (by simp),
      by simp only [Bytes.toNatBE, List.foldl]
         rw [toNat_ofNat_lt _ (by omega), toNat_ofNat_lt _ (by omega), toNat_ofNat_lt _ (by omega),
           toNat_ofNat_lt _ (by omega), toNat_ofNat_lt _ (by omega)]; omega,
      hb⟩

/-- the three ways `atom_size_blob` treats an atom the reader of configuration `cfg` copes with. -/
def AtomCases (cfg : SerdeCfg) (b : Bytes) : Prop :=
  (b = [] ∧ atomSizeBlob b = some (false, [0x80])) ∨
  (∃ x, b = [x] ∧ x.toNat ≤ 0x7f ∧ atomSizeBlob b = some (false, [x])) ∨
  (∃ p0 tail k s, PrefixShape cfg b p0 tail k s)

theorem atom_cases (b : Bytes) (hb : b.length < 0x100000) : AtomCases cfg b := by
  match b, hb with
  | [], _ => exact .inl ⟨rfl, by simp [atomSizeBlob]⟩
  | [x], hb =>
    by_cases hx : x.toNat ≤ 0x7f
    · exact .inr (.inl ⟨x, rfl, hx, by simp [atomSizeBlob, hx]⟩)
    · exact .inr (.inr (prefix_shape [x] hb (by simp) (by simp; omega)))
  | x :: y :: r, hb => exact .inr (.inr (prefix_shape _ hb (by simp) (by simp)))

theorem atom_cases_full (hle : cfg.u32LittleEndian = false) (b : Bytes) (hb : b.length < 0x400000000) :
    AtomCases cfg b := by
  by_cases h : b.length < 0x100000
  · exact atom_cases b h
  · exact .inr (.inr (prefix_shape_wide hle b h hb))

/-- every atom of the value is one the reader of configuration `cfg` copes with. -/
def GoodAtoms (cfg : SerdeCfg) : Val → Prop
  | .atom b => AtomCases cfg b
  | .pair a d => GoodAtoms cfg a ∧ GoodAtoms cfg d

theorem goodAtoms_narrow : ∀ v, AtomsBelow 0x100000 v → GoodAtoms cfg v
  | .atom b, h => atom_cases b h
  | .pair a d, h => ⟨goodAtoms_narrow a h.1, goodAtoms_narrow d h.2⟩

theorem goodAtoms_full (hle : cfg.u32LittleEndian = false) : ∀ v, AtomsBelow 0x400000000 v → GoodAtoms cfg v
  | .atom b, h => atom_cases_full hle b h
  | .pair a d, h => ⟨goodAtoms_full hle a h.1, goodAtoms_full hle d h.2⟩

theorem goodAtoms_below : ∀ v, GoodAtoms cfg v → AtomsBelow 0x400000000 v
  | .atom b, h => by
    show b.length < 0x400000000
    rcases h with ⟨rfl, _⟩ | ⟨x, rfl, _, _⟩ | ⟨p0, tail, k, s, sh⟩
    · simp
    · simp
    · exact sh.lim
  | .pair a d, h => ⟨goodAtoms_below a h.1, goodAtoms_below d h.2⟩

/-- the classic reader reads back what `atom_size_blob` + the atom bytes wrote. -/
theorem parse_atom_roundtrip (b : Bytes) (hc : AtomCases cfg b) (n : Nat) (rest : Bytes) :
    parse cfg (n + 1) (encodeRec (.atom b) ++ rest) = some (.atom b, rest) := by
  rcases hc with ⟨rfl, hpre⟩ | ⟨x, rfl, hx, hpre⟩ | ⟨p0, tail, k, s, sh⟩
  · simp [encodeRec, hpre, parse, atomFromStream]
  · have hff : x ≠ 0xff := by intro h; rw [h] at hx; simp at hx
    have h80 : x ≠ 0x80 := by intro h; rw [h] at hx; simp at hx
    simp [encodeRec, hpre, parse, atomFromStream, hx, hff, h80]
  · simp only [encodeRec, sh.pre]
    exact parse_of_atom n p0 tail b rest sh.nff
      (atomFromStream_sized p0 k s tail b rest sh.ge sh.strip sh.k1 sh.k6 sh.tl sh.int sh.size sh.lim)

theorem parse_encodeRec : ∀ (v : Val), GoodAtoms cfg v → ∀ (n : Nat) (rest : Bytes), v.size ≤ n →
    parse cfg n (encodeRec v ++ rest) = some (v, rest)
  | .atom b, hv, 0, _, hn => by simp [Val.size] at hn
  | .atom b, hv, n + 1, rest, _ => parse_atom_roundtrip b hv n rest
  | .pair a d, hv, 0, _, hn => by simp [Val.size] at hn
  | .pair a d, hv, n + 1, rest, hn => by
    simp only [Val.size] at hn
    have ha := parse_encodeRec a hv.1 n (encodeRec d ++ rest) (by omega)
    have hd := parse_encodeRec d hv.2 n rest (by omega)
    simp only [encodeRec, List.cons_append, List.append_assoc, parse, if_true, ha, hd]

theorem atomSizeBlob_pre_pos (b : Bytes) (o : Bool) (pre : Bytes) (h : atomSizeBlob b = some (o, pre)) :
    1 ≤ pre.length := by
  unfold atomSizeBlob at h
  split at h
  · cases h; simp
  · split at h
    · rename_i h1; cases h; omega
    · repeat' split at h
      all_goals first | (cases h; simp) | exact absurd h (by simp)

theorem encodeRec_length : ∀ (v : Val), AtomsBelow 0x400000000 v → v.size ≤ (encodeRec v).length
  | .atom b, hv => by
    have hn := atomSizeBlob_ne_none b hv
    simp only [encodeRec, Val.size]
    match hb : atomSizeBlob b with
    | some (true, pre) => have := atomSizeBlob_pre_pos b _ _ hb; simp; omega
    | some (false, pre) => have := atomSizeBlob_pre_pos b _ _ hb; simp; omega
    | none => exact absurd hb hn
  | .pair a d, hv => by
    have := encodeRec_length a hv.1
    have := encodeRec_length d hv.2
    simp [encodeRec, Val.size]; omega

theorem decode_encode (v : Val) (hv : GoodAtoms cfg v) (rest : Bytes) :
    decode cfg (encode v ++ rest) = .ok v := by
  have hv' := goodAtoms_below v hv
  rw [encode_eq_rec v hv', decode_eq_parse]
  unfold parseResult
  rw [parse_encodeRec v hv _ rest (by have := encodeRec_length v hv'; simp; omega)]

-- E. the defects, on the prefix arithmetic ------------------------------------------------

instance {ε α : Type} [DecidableEq ε] [DecidableEq α] : DecidableEq (Except ε α)
  | .ok a, .ok b => if h : a = b then isTrue (by rw [h]) else isFalse (by intro e; cases e; exact h rfl)
  | .error a, .error b => if h : a = b then isTrue (by rw [h]) else isFalse (by intro e; cases e; exact h rfl)
  | .ok _, .error _ => isFalse (by intro e; cases e)
  | .error _, .ok _ => isFalse (by intro e; cases e)

/-- the prefix `atom_size_blob` writes for a 1 MiB atom … -/
theorem prefix_1MiB (b : Bytes) (h : b.length = 0x100000) :
    atomSizeBlob b = some (true, [0xf0, 0x10, 0x00, 0x00]) := by
  unfold atomSizeBlob
  rw [h]
  simp

/-- … is read back as 4096 by the little-endian `get_u32`. -/
theorem int_f0100000 (hle : cfg.u32LittleEndian = true) : intFromBytes cfg [0x00, 0x10, 0x00, 0x00] = .ok 0x1000 := by
  obtain ⟨le, a7⟩ := cfg
  simp only at hle
  subst hle
  cases a7 <;> decide

theorem decode_1MiB (hle : cfg.u32LittleEndian = true) (b : Bytes) (h : b.length = 0x100000) (rest : Bytes) :
    decode cfg (encode (.atom b) ++ rest) = .ok (.atom (b.take 0x1000)) := by
  have hb : AtomsBelow 0x400000000 (.atom b) := by show b.length < _; omega
  rw [encode_eq_rec _ hb, decode_eq_parse]
  unfold parseResult
  simp only [encodeRec, prefix_1MiB b h, List.cons_append, List.nil_append, List.length_cons]
  have hbc : bitCount 0xf0 = 4 := by decide
  have hsb : sizeByte 0xf0 = 0 := by decide
  have hff : (0xf0 : UInt8) ≠ 0xff := by decide
  have h80 : (0xf0 : UInt8) ≠ 0x80 := by decide
  have h7f : ¬ (0xf0 : UInt8).toNat ≤ 0x7f := by decide
  have h46 : ¬ (cfg.accept7 = false ∧ 4 > 6) := fun h => by omega
  have hlen : (List.take 4096 (b ++ rest)).length = 4096 := by
    rw [List.length_take, List.length_append]; omega
  have htk : List.take 4096 (b ++ rest) = List.take 4096 b :=
    List.take_append_of_le_length (by omega)
  have hlen2 : (List.take 4096 b).length = 4096 := by rw [← htk]; exact hlen
  have hat : atomFromStream cfg (0x10 :: 0x00 :: 0x00 :: (b ++ rest)) 0xf0 =
      (.ok (b.take 0x1000), (b ++ rest).drop 0x1000) := by
    unfold atomFromStream
    simp only [h80, h7f, if_false, hbc, hsb]
    rw [if_neg h46]
    simp only [show (4 : Nat) > 1 from by decide, if_true, show 4 - 1 = 3 from rfl, List.take, List.drop,
      List.length_cons, List.length_nil, ne_eq, not_true_eq_false, if_false]
    unfold sizedAtom
    rw [int_f0100000 hle]
    simp only []
    unfold readBlob
    simp only [show ¬ (0x1000 : Nat) ≥ 0x400000000 from by decide, if_false, htk, hlen2, ne_eq, not_true_eq_false]
  simp only [parse, hff, if_false, hat]

theorem decode_7byte_prefix (h7 : cfg.accept7 = true) :
    decode cfg [0xfe, 0, 0, 0, 0, 0, 0] = .ok Val.nil ∧ SerdeSpec.decode [0xfe, 0, 0, 0, 0, 0, 0] = none := by
  obtain ⟨le, a7⟩ := cfg
  simp only at h7
  subst h7
  cases le <;> decide

-- F. truncation ----------------------------------------------------------------------------

theorem parse_mono : ∀ (n : Nat) (bs : Bytes) (r : Val × Bytes), parse cfg n bs = some r → parse cfg (n + 1) bs = some r
  | 0, _, _, h => by simp [parse] at h
  | n + 1, [], _, h => by simp [parse] at h
  | n + 1, b :: rest, r, h => by
    by_cases hff : b = 0xff
    · simp only [parse, hff, if_true] at h ⊢
      match hp1 : parse cfg n rest, h with
      | none, h => simp at h
      | some (a, r1), h =>
        simp only [] at h
        rw [parse_mono n rest _ hp1]
        simp only []
        match hp2 : parse cfg n r1, h with
        | none, h => simp at h
        | some (d, r2), h =>
          rw [parse_mono n r1 _ hp2]
          simpa using h
    · simp only [parse, hff, if_false] at h ⊢
      exact h

theorem parse_mono_le {n m : Nat} (hle : n ≤ m) {bs : Bytes} {r : Val × Bytes} (h : parse cfg n bs = some r) :
    parse cfg m bs = some r := by
  induction hle with
  | refl => exact h
  | step _ ih => exact parse_mono _ _ _ ih

/-- a stream cut inside a length prefix or inside the atom bytes is rejected. -/
theorem atomFromStream_cut (b : UInt8) (k s : Nat) (tail body : Bytes) (j : Nat)
    (hge : 0x80 < b.toNat)
    (hstrip : stripBits 9 b.toNat 0x80 0 = (k, s))
    (hk1 : 1 ≤ k) (htail : tail.length = k - 1)
    (hint : intFromBytes cfg (UInt8.ofNat s :: tail) = .ok (Bytes.toNatBE (UInt8.ofNat s :: tail)))
    (hsize : Bytes.toNatBE (UInt8.ofNat s :: tail) = body.length)
    (hj : j < tail.length + body.length) :
    ∃ e r, atomFromStream cfg ((tail ++ body).take j) b = (.error e, r) := by
  have hb80 : b ≠ 0x80 := by intro h; rw [h] at hge; simp at hge
  have h7 : ¬ b.toNat ≤ 0x7f := by omega
  have hbc : bitCount b = k := by simp [bitCount, hstrip]
  have hsb : sizeByte b = UInt8.ofNat s := by simp [sizeByte, hstrip]
  unfold atomFromStream
  simp only [hb80, h7, if_false, hbc, hsb]
  by_cases h76 : cfg.accept7 = false ∧ k > 6
  · rw [if_pos h76]; exact ⟨_, _, rfl⟩
  rw [if_neg h76]
  by_cases hjk : j < k - 1
  · -- cut inside the prefix
    have hk : k > 1 := by omega
    have : (List.take (k - 1) (List.take j (tail ++ body))).length ≠ k - 1 := by
      simp only [List.length_take, List.length_append]; omega
    simp only [hk, if_true]
    rw [if_pos this]
    exact ⟨_, _, rfl⟩
  · -- cut inside the atom bytes
    have hsplit : List.take j (tail ++ body) = tail ++ List.take (j - (k - 1)) body := by
      rw [List.take_append, ← htail, List.take_of_length_le (by omega)]
    rw [hsplit]
    have hshort : ∀ (size : Nat), size = body.length →
        ∃ e r, readBlob (List.take (j - (k - 1)) body) size = (.error e, r) := by
      intro size hs
      unfold readBlob
      by_cases h1 : size ≥ 0x400000000
      · simp only [h1, if_true]; exact ⟨_, _, rfl⟩
      · have : (List.take size (List.take (j - (k - 1)) body)).length ≠ size := by
          simp only [List.length_take]; omega
        simp only [h1, if_false]; rw [if_pos this]; exact ⟨_, _, rfl⟩
    by_cases hk : k > 1
    · simp only [hk, if_true]
      rw [List.take_left' htail, List.drop_left' htail]
      simp only [htail, ne_eq, not_true_eq_false, if_false]
      unfold sizedAtom
      rw [hint, hsize]
      exact hshort _ rfl
    · have : k = 1 := by omega
      subst this
      have : tail = [] := List.eq_nil_of_length_eq_zero htail
      subst this
      simp only [Nat.lt_irrefl, if_false, List.nil_append]
      unfold sizedAtom
      rw [hint, hsize]
      exact hshort _ rfl

theorem parse_atom_truncated (b : Bytes) (hc : AtomCases cfg b) (n m : Nat)
    (hm : m < (encodeRec (.atom b)).length) :
    parse cfg n ((encodeRec (.atom b)).take m) = none := by
  rcases hc with ⟨rfl, hpre⟩ | ⟨x, rfl, hx, hpre⟩ | ⟨p0, tail, k, s, sh⟩
  · simp only [encodeRec, hpre] at hm ⊢
    have : m = 0 := by simp at hm; omega
    subst this; cases n <;> simp [parse]
  · simp only [encodeRec, hpre] at hm ⊢
    have : m = 0 := by simp at hm; omega
    subst this; cases n <;> simp [parse]
  · simp only [encodeRec, sh.pre] at hm ⊢
    match n, m with
    | 0, _ => simp [parse]
    | _ + 1, 0 => simp [parse]
    | n + 1, j + 1 =>
      simp only [List.cons_append, List.take_succ_cons, List.length_cons, List.length_append] at hm ⊢
      obtain ⟨e, r, hcut⟩ := atomFromStream_cut (cfg := cfg) p0 k s tail b j sh.ge sh.strip sh.k1 sh.tl sh.int sh.size (by omega)
      simp only [parse, sh.nff, if_false, hcut]

/-- every proper prefix of an encoding is rejected by the error-free reading. -/
theorem parse_truncated : ∀ (v : Val), GoodAtoms cfg v → ∀ (n m : Nat), m < (encodeRec v).length →
    parse cfg n ((encodeRec v).take m) = none
  | .atom b, hv, n, m, hm => parse_atom_truncated b hv n m hm
  | .pair a d, hv, 0, _, _ => by simp [parse]
  | .pair a d, hv, _ + 1, 0, _ => by simp [parse]
  | .pair a d, hv, n + 1, j + 1, hm => by
    simp only [encodeRec, List.take_succ_cons, List.length_cons, List.length_append] at hm ⊢
    simp only [parse, if_true]
    by_cases hj : j < (encodeRec a).length
    · rw [List.take_append_of_le_length (by omega), parse_truncated a hv.1 n j hj]
    · rw [List.take_append]
      rw [List.take_of_length_le (by omega)]
      have h2 := parse_truncated d hv.2 n (j - (encodeRec a).length) (by omega)
      match hp : parse cfg n (encodeRec a ++ List.take (j - (encodeRec a).length) (encodeRec d)) with
      | none => rfl
      | some (a', r1) =>
        -- with enough fuel the first value is read back exactly; less fuel gives the same or nothing
        have hbig := parse_encodeRec (cfg := cfg) a hv.1 (max n a.size) (List.take (j - (encodeRec a).length) (encodeRec d))
          (Nat.le_max_right _ _)
        have := parse_mono_le (Nat.le_max_left n a.size) hp
        rw [hbig] at this
        cases this
        simp only [h2]

/-- for EVERY 4-byte blob the little-endian `get_u32` makes `int_from_bytes` read the bytes least-significant first. -/
theorem intFromBytes_four (hle : cfg.u32LittleEndian = true) (a b c d : UInt8) :
    intFromBytes cfg [a, b, c, d] = .ok (a.toNat + b.toNat * 0x100 + c.toNat * 0x10000 + d.toNat * 0x1000000) := by
  have ha : a.toNat < 256 := UInt8.toNat_lt_size a
  have hb : b.toNat < 256 := UInt8.toNat_lt_size b
  have hc : c.toNat < 256 := UInt8.toNat_lt_size c
  have hd : d.toNat < 256 := UInt8.toNat_lt_size d
  simp [intFromBytes, groupLoop, byteLoop, getU32, hle, u64, List.range, List.range.loop] <;> omega

/-- the repaired configuration: the error-free reading IS clvmr's `node_from_stream`, on every input. -/
theorem parse_eq_spec_full (hle : cfg.u32LittleEndian = false) (h7 : cfg.accept7 = false) :
    ∀ (n : Nat) (bs : Bytes), parse cfg n bs = SerdeSpec.decodeAux n bs
  | 0, _ => by simp [parse, SerdeSpec.decodeAux]
  | n + 1, [] => by simp [parse, SerdeSpec.decodeAux]
  | n + 1, b :: rest => by
    by_cases hff : b = 0xff
    · subst hff
      have ih1 := parse_eq_spec_full hle h7 n rest
      simp only [parse, SerdeSpec.decodeAux, if_true]
      rw [← ih1]
      match hp : parse cfg n rest with
      | none => simp
      | some (a, r1) =>
        have ih2 := parse_eq_spec_full hle h7 n r1
        simp only []
        rw [← ih2]
        cases parse cfg n r1 <;> rfl
    · rw [parse_atom_eq n b rest hff, spec_atom_eq n b rest hff, atom_full hle h7 rest b]

end SerdeLemmas
