/-
  Proofs/ShortIntLemmas.lean — the integer reading of 1- and 2-byte atoms: the classic
  disassembler prints such an atom in decimal exactly when re-encoding its value
  (`bigint_to_bytes_clvm`) gives the atom back.
-/
import ChialispModel.Base.Bytes
import ChialispModel.Proofs.BytesLemmas

namespace Bytes

theorem ofNatBEAux_zero (f : Nat) : ofNatBEAux f 0 = [] := by
  cases f <;> simp [ofNatBEAux]

theorem ofNatBE_one {n : Nat} (h0 : 0 < n) (h : n < 256) : ofNatBE n = [UInt8.ofNat n] := by
  unfold ofNatBE
  obtain ⟨f, rfl⟩ : ∃ f, n = f + 1 := ⟨n - 1, by omega⟩
  simp only [ofNatBEAux]
  rw [if_neg (by omega)]
  have h1 : (f + 1) / 256 = 0 := by omega
  have h2 : (f + 1) % 256 = f + 1 := by omega
  rw [h1, h2, ofNatBEAux_zero]; rfl

theorem ofNatBE_two {n : Nat} (h0 : 256 ≤ n) (h : n < 65536) :
    ofNatBE n = [UInt8.ofNat (n / 256), UInt8.ofNat (n % 256)] := by
  unfold ofNatBE
  obtain ⟨f, rfl⟩ : ∃ f, n = f + 2 := ⟨n - 2, by omega⟩
  simp only [ofNatBEAux]
  rw [if_neg (by omega), if_neg (by omega)]
  have h1 : (f + 2) / 256 / 256 = 0 := by omega
  have h2 : (f + 2) / 256 % 256 = (f + 2) / 256 := by omega
  rw [h1, h2, ofNatBEAux_zero]; rfl

theorem negWidth_go_succ (m fuel k : Nat) :
    negWidth.go m (fuel + 1) k = if m ≤ 2 ^ (8 * k - 1) then k else negWidth.go m fuel (k + 1) := rfl

theorem negWidth_small {m : Nat} (h : m ≤ 128) : negWidth m = 1 := by
  unfold negWidth
  rw [negWidth_go_succ, if_pos (by simpa using h)]

theorem negWidth_mid {m : Nat} (h0 : 128 < m) (h : m ≤ 32768) : negWidth m = 2 := by
  unfold negWidth
  obtain ⟨f, rfl⟩ : ∃ f, m = f + 1 := ⟨m - 1, by omega⟩
  rw [negWidth_go_succ, if_neg (by simp; omega), negWidth_go_succ, if_pos (by simp; omega)]

theorem ofNatWidth_one (v : Nat) : ofNatWidth 1 v = [UInt8.ofNat (v % 256)] := by
  simp [ofNatWidth]

theorem ofNatWidth_two (v : Nat) : ofNatWidth 2 v = [UInt8.ofNat (v / 256 % 256), UInt8.ofNat (v % 256)] := by
  simp [ofNatWidth]

theorem u8_ofNat_eq {x : UInt8} {n : Nat} (h : n = x.toNat) : UInt8.ofNat n = x := by
  subst h; simp

theorem u8_ofNat_mod_eq {x : UInt8} {n : Nat} (h : n % 256 = x.toNat) : UInt8.ofNat n = x := by
  apply UInt8.toNat_inj.mp
  simp; omega

/-- the "canonical integer" test of `ir_for_atom` (`atom != [0]`, no oversized sign extension),
    spelled out on 1- and 2-byte atoms -/
def shortCanonical : Bytes → Bool
  | [x] => x != 0
  | [x, y] => if x == 0 then 128 ≤ y.toNat else if x == 255 then y.toNat < 128 else true
  | _ => false

theorem toNatBE_one (x : UInt8) : toNatBE [x] = x.toNat := by simp [toNatBE]
theorem toNatBE_two (x y : UInt8) : toNatBE [x, y] = x.toNat * 256 + y.toNat := by simp [toNatBE]

theorem ofInt_ofNat (n : Nat) : ofInt (Int.ofNat n) = posBytes (ofNatBE n) := rfl
theorem ofInt_negSucc (n : Nat) :
    ofInt (Int.negSucc n) = ofNatWidth (negWidth (n + 1)) (256 ^ negWidth (n + 1) - (n + 1)) := rfl

theorem ofIntClvm_toInt_one (x : UInt8) (h : x ≠ 0) : ofIntClvm (toInt [x]) = [x] := by
  have hx := x.toNat_lt
  have hx0 : x.toNat ≠ 0 := fun e => h (UInt8.toNat_inj.mp (by simpa using e))
  unfold ofIntClvm toInt
  simp only [toNatBE_one, List.length_singleton]
  split
  · rename_i hge
    have e : ((x.toNat : Int) - ((256 ^ 1 : Nat) : Int)) = Int.negSucc (255 - x.toNat) := by omega
    rw [e, if_neg (by omega), ofInt_negSucc]
    have hm : 255 - x.toNat + 1 ≤ 128 := by omega
    rw [negWidth_small hm, ofNatWidth_one]
    congr 1
    apply u8_ofNat_mod_eq
    simp; omega
  · rename_i hlt
    have e : ((x.toNat : Nat) : Int) = Int.ofNat x.toNat := rfl
    rw [if_neg (by omega), e, ofInt_ofNat, ofNatBE_one (by omega) hx]
    have : UInt8.ofNat x.toNat = x := by simp
    rw [this]
    unfold posBytes
    simp only
    rw [if_neg (by omega)]

theorem ofIntClvm_toInt_two (x y : UInt8) (h : shortCanonical [x, y] = true) :
    ofIntClvm (toInt [x, y]) = [x, y] := by
  have hx := x.toNat_lt
  have hy := y.toNat_lt
  have hc : (x.toNat = 0 → 128 ≤ y.toNat) ∧ (x.toNat = 255 → y.toNat < 128) := by
    simp only [shortCanonical] at h
    constructor
    · intro e
      have : x = 0 := UInt8.toNat_inj.mp (by simpa using e)
      subst this; simpa using h
    · intro e
      have : x = 255 := UInt8.toNat_inj.mp (by simpa using e)
      subst this; simpa using h
  unfold ofIntClvm toInt
  simp only [toNatBE_two, List.length_cons, List.length_nil]
  split
  · rename_i hge
    have e : (((x.toNat * 256 + y.toNat : Nat) : Int) - ((256 ^ (0 + 1 + 1) : Nat) : Int))
        = Int.negSucc (65535 - (x.toNat * 256 + y.toNat)) := by
      have : (256 ^ (0 + 1 + 1) : Nat) = 65536 := by decide
      rw [this]; omega
    rw [e, if_neg (by omega), ofInt_negSucc]
    have hm0 : 128 < 65535 - (x.toNat * 256 + y.toNat) + 1 := by omega
    have hm : 65535 - (x.toNat * 256 + y.toNat) + 1 ≤ 32768 := by omega
    rw [negWidth_mid hm0 hm, ofNatWidth_two]
    have p : (256 : Nat) ^ 2 = 65536 := by decide
    rw [p]
    congr 1
    · apply u8_ofNat_mod_eq; omega
    · congr 1
      apply u8_ofNat_mod_eq; omega
  · rename_i hlt
    have e : ((x.toNat * 256 + y.toNat : Nat) : Int) = Int.ofNat (x.toNat * 256 + y.toNat) := rfl
    rw [e]
    by_cases hx0 : x.toNat = 0
    · have hy128 := hc.1 hx0
      rw [if_neg (by simp [hx0]; omega), ofInt_ofNat, hx0]
      simp only [Nat.zero_mul, Nat.zero_add]
      rw [ofNatBE_one (by omega) hy]
      have : UInt8.ofNat y.toNat = y := by simp
      rw [this]
      unfold posBytes
      simp only
      rw [if_pos (by omega)]
      congr 1
      exact (UInt8.toNat_inj.mp (by simpa using hx0)).symm
    · rw [if_neg (by omega), ofInt_ofNat, ofNatBE_two (by omega) (by omega)]
      have h1 : UInt8.ofNat ((x.toNat * 256 + y.toNat) / 256) = x := u8_ofNat_eq (by omega)
      have h2 : UInt8.ofNat ((x.toNat * 256 + y.toNat) % 256) = y := u8_ofNat_eq (by omega)
      rw [h1, h2]
      unfold posBytes
      simp only
      rw [if_neg (by omega)]

/-- a short atom the disassembler prints in decimal re-encodes to itself. -/
theorem ofIntClvm_toInt_short (b : Bytes) (h : shortCanonical b = true) : ofIntClvm (toInt b) = b := by
  match b, h with
  | [x], h =>
    apply ofIntClvm_toInt_one
    simpa [shortCanonical] using h
  | [x, y], h => exact ofIntClvm_toInt_two x y h

end Bytes
