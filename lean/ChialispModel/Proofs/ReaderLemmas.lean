/-
  Proofs/ReaderLemmas.lean — the invariant of the reader's state machine (C15).
-/
import ChialispModel.Text.ReaderSpec
import ChialispModel.Proofs.SrclocLemmas

namespace ReaderLemmas
open Srcloc Text Reader ReaderSpec SrclocLemmas

/-! ### segments -/

theorem seg_def (t : Bytes) (i j : Nat) : seg t i j = (t.drop i).take (j - i) := rfl

@[simp] theorem seg_self (t : Bytes) (i : Nat) : seg t i i = [] := by simp [seg_def]

theorem seg_snoc (t : Bytes) {i n : Nat} (hi : i ≤ n) (hn : n < t.length) :
    seg t i (n+1) = seg t i n ++ [t[n]] := by
  rw [seg_def, seg_def]
  have e : n + 1 - i = (n - i) + 1 := by omega
  have hl : n - i < (t.drop i).length := by simp; omega
  rw [e, List.take_succ_eq_append_getElem hl]
  congr 2
  rw [List.getElem_drop]
  congr 1
  omega

theorem seg_single (t : Bytes) {n : Nat} (hn : n < t.length) : seg t n (n+1) = [t[n]] := by
  rw [seg_snoc t (Nat.le_refl n) hn]; simp

theorem seg_length (t : Bytes) {i j : Nat} (hj : j ≤ t.length) : (seg t i j).length = j - i := by
  rw [seg_def]; simp; omega

theorem seg_cons (t : Bytes) {i j : Nat} (hij : i < j) (hj : j ≤ t.length) :
    seg t i j = t[i]'(by omega) :: seg t (i+1) j := by
  rw [seg_def, seg_def]
  have hi : i < t.length := by omega
  rw [List.drop_eq_getElem_cons hi]
  have e : j - i = (j - (i+1)) + 1 := by omega
  rw [e, List.take_succ_cons]

theorem getElem?_of_lt (t : Bytes) {n : Nat} (hn : n < t.length) : t[n]? = some t[n] :=
  List.getElem?_eq_getElem hn

/-! ### quotes -/

theorem scanQ_snoc (q : UInt8) (raw : Bytes) (c : UInt8) :
    scanQ q (raw ++ [c]) = scanStep q (scanQ q raw) c := by
  simp [scanQ, List.foldl_append]

/-! ### LocIn -/

theorem LocIn.mono {t l lo hi lo' hi'} (h : LocIn t l lo hi) (h1 : lo' ≤ lo) (h2 : hi ≤ hi') :
    LocIn t l lo' hi' := by
  obtain ⟨i, j, a, b, s⟩ := h
  exact ⟨i, j, by omega, by omega, s⟩

theorem LocIn.ofSpan {t l i j} (s : Span t l i j) : LocIn t l i j :=
  ⟨i, j, Nat.le_refl _, Nat.le_refl _, s⟩

theorem LocIn.ext {t a b lo hi} (ha : LocIn t a lo hi) (hb : LocIn t b lo hi) :
    LocIn t (a.ext b) lo hi := by
  obtain ⟨i, j, h1, h2, sa⟩ := ha
  obtain ⟨i', j', h1', h2', sb⟩ := hb
  rcases span_ext sa sb with ⟨_, s⟩ | ⟨_, e⟩ | ⟨_, s⟩
  · exact ⟨i, j', h1, h2', s⟩
  · rw [e]; exact ⟨i, j, h1, h2, sa⟩
  · exact ⟨i', j, h1', h2, s⟩

/-! ### Good -/

theorem _root_.ReaderSpec.Good.mono {t d x lo hi lo' hi'} (h : Good t d false x lo hi) (h1 : lo' ≤ lo) (h2 : hi ≤ hi') :
    Good t d false x lo' hi' := by
  cases h with
  | word a b s hh => exact .word (by omega) (by omega) s hh
  | hashWord a b s hh hp => exact .hashWord (by omega) (by omega) s hh hp
  | quoted a b s hq hs hb => exact .quoted (by omega) (by omega) s hq hs hb
  | unit a b s hs => exact .unit (by omega) (by omega) s hs
  | list a b c o cl g => exact .list (by omega) b (by omega) o cl g
  | hashPrim a b s hh hp => exact .hashPrim (by omega) (by omega) s hh hp
  | hashLone hd a b s hh => exact .hashLone hd (by omega) (by omega) s hh

theorem makePlain_loc (l : Srcloc) (w : Bytes) : (makePlain l w).loc = l := by
  unfold makePlain
  split
  · rfl
  · split
    · split <;> rfl
    · rfl

/-- the location of a well-located tree lies in its window. -/
theorem _root_.ReaderSpec.Good.locIn {t d m x lo hi} (h : Good t d m x lo hi) :
    LocIn t x.loc lo (if m then hi + 1 else hi) := by
  induction h with
  | word a b s _ => rw [makePlain_loc]; exact ⟨_, _, a, b, s⟩
  | hashWord a b s _ _ => exact ⟨_, _, Nat.le_of_lt a, b, s⟩
  | quoted a b s _ _ _ => exact ⟨_, _, a, b, s⟩
  | unit a b s _ => exact ⟨_, _, a, b, s⟩
  | list a b c _ _ _ ih =>
    simp only [reduceIte] at ih
    exact LocIn.mono ih a (Nat.succ_le_of_lt c)
  | inner _ ih =>
    simp only [Bool.false_eq_true, reduceIte] at ih
    exact LocIn.mono ih (Nat.le_succ _) (Nat.le_succ _)
  | gcons hl _ _ _ _ => exact hl
  | gnil hl => exact hl
  | hashPrim a b s _ _ => exact ⟨_, _, Nat.le_of_lt a, b, s⟩
  | hashLone _ a b s _ => exact ⟨_, _, Nat.le_of_lt a, Nat.succ_le_of_lt b, s⟩

theorem _root_.ReaderSpec.Good.locIn_true {t d x b c} (h : Good t d true x b c) : LocIn t x.loc b (c+1) := by
  simpa using h.locIn

theorem _root_.ReaderSpec.Good.locIn_false {t d x lo hi} (h : Good t d false x lo hi) : LocIn t x.loc lo hi := by
  simpa using h.locIn

def Items (t : Bytes) (d : Bool) (content : List LRich) (lo hi : Nat) : Prop :=
  ∀ x ∈ content, Good t d false x lo hi

theorem Items.mono {t d content lo hi lo' hi'} (h : Items t d content lo hi) (h1 : lo' ≤ lo)
    (h2 : hi ≤ hi') : Items t d content lo' hi' :=
  fun x hx => (h x hx).mono h1 h2

theorem Items.snoc {t d content lo hi x} (h : Items t d content lo hi) (hx : Good t d false x lo hi) :
    Items t d (content ++ [x]) lo hi := by
  intro y hy
  rcases List.mem_append.mp hy with hy | hy
  · exact h y hy
  · simp at hy; subst hy; exact hx

theorem makeCons_good {t d a e b c} (ha : Good t d true a b c) (he : Good t d true e b c) :
    Good t d true (makeCons a e) b c :=
  .gcons (LocIn.ext ha.locIn_true he.locIn_true) ha he

theorem enlistOnto_good {t d tl b c} (htl : Good t d true tl b c) :
    ∀ items, Items t d items (b+1) c → Good t d true (enlistOnto tl items) b c
  | [], _ => htl
  | x :: r, h =>
    makeCons_good (.inner (h x List.mem_cons_self))
      (enlistOnto_good htl r (fun y hy => h y (List.mem_cons_of_mem _ hy)))

theorem enlist_good {t d l b c items} (hl : LocIn t l b (c+1)) (h : Items t d items (b+1) c) :
    Good t d true (enlist l items) b c :=
  enlistOnto_good (.gnil hl) items h

theorem restructure_good {t d l b c} (hl : LocIn t l b (c+1)) :
    ∀ fuel items, Items t d items (b+1) c → Good t d true (restructure fuel items l) b c := by
  intro fuel
  induction fuel with
  | zero =>
    intro items h
    match items with
    | [] => exact .gnil hl
    | [x] => exact .inner (h x List.mem_cons_self)
    | _ :: _ :: _ => exact .gnil hl
  | succ k ih =>
    intro items h
    match items with
    | [] => exact .gnil hl
    | [x] => exact .inner (h x List.mem_cons_self)
    | x :: y :: r =>
      unfold restructure
      exact makeCons_good (ih _ (fun z hz => h z (List.mem_of_mem_take hz)))
        (ih _ (fun z hz => h z (List.mem_of_mem_drop hz)))

theorem closeList_good {t d l b c items st} (hl : LocIn t l b (c+1))
    (h : Items t d items (b+1) c) : Good t d true (closeList l items st) b c := by
  unfold closeList
  split
  · exact restructure_good hl _ _ h
  · exact enlist_good hl h

theorem closeDotted_good {t d b c items tl r} (h : Items t d items (b+1) c)
    (htl : Good t d false tl (b+1) c) (hr : closeDotted items tl = some r) :
    Good t d true r b c := by
  unfold closeDotted at hr
  split at hr
  · rename_i v hv
    injection hr with hr
    subst hr
    have hmem : v ∈ items := List.mem_of_getLast? hv
    refine enlistOnto_good (makeCons_good (.inner (h v hmem)) (.inner htl)) _ ?_
    intro y hy
    exact h y (List.dropLast_subset _ hy)
  · cases hr

/-! ### the invariant of the parser states

`Inv t s lo n`: the state `s`, reached after reading bytes `[0, n)` of `t`, belongs to a
scope that began at offset `lo`: "the state's location starts at the token's (list's) first
byte and ends at the current position; everything collected so far is well located". -/

def Inv (t : Bytes) : PState → Nat → Nat → Prop
  | .empty, lo, n => lo ≤ n
  | .comment, lo, n => lo ≤ n
  | .bareword l w, lo, n =>
    ∃ i, i < n ∧ Span t l i n ∧
      ((lo ≤ i ∧ w = seg t i n ∧ w.head? ≠ some 35) ∨
       (lo < i ∧ t[i-1]? = some 35 ∧ w = 35 :: seg t i n))
  | .quoted l q body, lo, n =>
    ∃ i, lo ≤ i ∧ i < n ∧ Span t l i (i+1) ∧ (q = 34 ∨ q = 39) ∧ t[i]? = some q ∧
      scanQ q (seg t (i+1) n) = some (false, body)
  | .escaped l q body, lo, n =>
    ∃ i, lo ≤ i ∧ i < n ∧ Span t l i (i+1) ∧ (q = 34 ∨ q = 39) ∧ t[i]? = some q ∧
      scanQ q (seg t (i+1) n) = some (true, body)
  | .openList l st, lo, n => st = false ∧ lo < n ∧ Span t l (n-1) n ∧ t[n-1]? = some 40
  | .parsingList l pp content st, lo, n =>
    ∃ b, lo ≤ b ∧ b < n ∧ Span t l b n ∧
      (if st then t[b]? = some 35 ∧ t[b+1]? = some 40 ∧ b + 1 < n else t[b]? = some 40) ∧
      Items t true content (b+1) n ∧ Inv t pp (b+1) n
  | .termList l none pp content, lo, n =>
    ∃ b, lo ≤ b ∧ b < n ∧ Span t l b n ∧ t[b]? = some 40 ∧
      Items t true content (b+1) n ∧ Inv t pp (b+1) n
  | .termList l (some p) pp content, lo, n =>
    ∃ b i, lo ≤ b ∧ b < i ∧ i < n ∧ Span t l i n ∧ t[b]? = some 40 ∧
      Items t true content (b+1) n ∧ Good t true false p (b+1) n ∧ Inv t pp (b+1) n
  | .startStructured l, lo, n => lo < n ∧ Span t l (n-1) n ∧ t[n-1]? = some 35

/-- what one step must establish -/
def Post (t : Bytes) (lo n : Nat) : PResult → Prop
  | .resume s => Inv t s lo (n+1)
  | .emit x s => Good t true false x lo (n+1) ∧ Inv t s lo (n+1)
  | .error l _ => Span t l n (n+1)

theorem inv_empty (t : Bytes) {lo n : Nat} (h : lo ≤ n) : Inv t .empty lo n := h
theorem inv_comment (t : Bytes) {lo n : Nat} (h : lo ≤ n) : Inv t .comment lo n := h

theorem isEmpty_eq {s : PState} (h : s.isEmpty = true) : s = .empty := by
  cases s <;> simp [PState.isEmpty] at h ⊢

theorem makePlain_hash (l : Srcloc) : makePlain l [35] = .atom l [35] := by
  simp [makePlain, isHex, isDec, isDigit]

theorem makeAtom_of_head {l : Srcloc} {w : Bytes} (h : w.head? ≠ some 35) :
    makeAtom l w = makePlain l w := by
  unfold makeAtom
  split
  · simp at h
  · rfl

/-- the atom built from a pending bareword is well located. -/
theorem bareword_good {t l w lo n} (hn : n ≤ t.length) (h : Inv t (.bareword l w) lo n) :
    Good t true false (makeAtom l w) lo n := by
  obtain ⟨i, hin, s, h⟩ := h
  rcases h with ⟨hlo, hw, hh⟩ | ⟨hlo, hp, hw⟩
  · rw [makeAtom_of_head hh, hw]
    rw [hw] at hh
    exact .word hlo (Nat.le_refl _) s hh
  · have hc := seg_cons t hin hn
    rw [hw, hc]
    unfold makeAtom
    simp only
    rw [← hc]
    split
    · rename_i v hv
      exact .hashPrim hlo (Nat.le_refl _) s hp hv
    · rename_i hv
      exact .hashWord hlo (Nat.le_refl _) s hp hv

theorem stepEmpty_post (t : Bytes) {lo n : Nat} (hlo : lo ≤ n) (hn : n < t.length) :
    Post t lo n (stepEmpty (posAt t n) t[n]) := by
  have sp := span_posAt t n hn
  have hg := getElem?_of_lt t hn
  unfold stepEmpty
  split
  · rename_i h; exact ⟨rfl, by omega, by simpa using sp, by simpa [h] using hg⟩
  split
  · exact inv_empty t (by omega)
  split
  · exact inv_comment t (by omega)
  split
  · exact sp
  split
  · rename_i h
    exact ⟨n, hlo, by omega, sp, Or.inl rfl, by simpa [h] using hg, by simp [scanQ]⟩
  split
  · rename_i h
    exact ⟨n, hlo, by omega, sp, Or.inr rfl, by simpa [h] using hg, by simp [scanQ]⟩
  split
  · rename_i h; exact ⟨by omega, by simpa using sp, by simpa [h] using hg⟩
  split
  · exact inv_empty t (by omega)
  · rename_i h _
    refine ⟨n, by omega, sp, Or.inl ⟨hlo, (seg_single t hn).symm, ?_⟩⟩
    simpa using h

theorem stepComment_post (t : Bytes) {lo n : Nat} (hlo : lo ≤ n) (c : UInt8) :
    Post t lo n (stepComment c) := by
  unfold stepComment; split
  · exact inv_empty t (by omega)
  · exact inv_comment t (by omega)

theorem stepBareword_post (t : Bytes) {lo n : Nat} {l : Srcloc} {w : Bytes} (hn : n < t.length)
    (h : Inv t (.bareword l w) lo n) : Post t lo n (stepBareword (posAt t n) l w t[n]) := by
  unfold stepBareword
  split
  · refine ⟨(bareword_good (Nat.le_of_lt hn) h).mono (Nat.le_refl _) (Nat.le_succ _), ?_⟩
    obtain ⟨i, hin, _, h⟩ := h
    exact inv_empty t (by rcases h with ⟨h, _⟩ | ⟨h, _⟩ <;> omega)
  · obtain ⟨i, hin, s, h⟩ := h
    refine ⟨i, by omega, span_ext_cur s (by omega) (by omega) hn, ?_⟩
    have hs := seg_snoc t (Nat.le_of_lt hin) hn
    rcases h with ⟨hlo, hw, hh⟩ | ⟨hlo, hp, hw⟩
    · left
      refine ⟨hlo, by rw [hs, hw], ?_⟩
      have hne : w ≠ [] := by
        intro e
        have := seg_length t (i := i) (Nat.le_of_lt hn)
        rw [← hw, e] at this
        simp at this; omega
      cases w with
      | nil => exact absurd rfl hne
      | cons a r => simpa using hh
    · right
      exact ⟨hlo, hp, by rw [hs, hw]; rfl⟩

theorem seg_quote {t : Bytes} {i n : Nat} (hin : i < n) (hn : n < t.length) {q : UInt8}
    (hi : t[i]? = some q) (hq : t[n] = q) :
    seg t i (n+1) = q :: (seg t (i+1) n ++ [q]) := by
  have hi' : i < t.length := by omega
  rw [seg_cons t (by omega : i < n+1) (by omega), seg_snoc t (by omega : i+1 ≤ n) hn, hq]
  rw [getElem?_of_lt t hi'] at hi
  injection hi with hi
  rw [hi]

theorem stepQuoted_post (t : Bytes) {lo n : Nat} {l : Srcloc} {q : UInt8} {body : Bytes}
    (hn : n < t.length) (h : Inv t (.quoted l q body) lo n) :
    Post t lo n (stepQuoted (posAt t n) l q body t[n]) := by
  obtain ⟨i, hlo, hin, s, hq, hi, hs⟩ := h
  have hsn := seg_snoc t (by omega : i+1 ≤ n) hn
  unfold stepQuoted
  split
  · rename_i h
    refine ⟨i, hlo, by omega, s, hq, hi, ?_⟩
    rw [hsn, scanQ_snoc, hs, h]; simp [scanStep]
  split
  · rename_i h1 h2
    refine ⟨?_, inv_empty t (by omega)⟩
    exact .quoted hlo (Nat.le_refl _) (span_ext_cur s (by omega) (by omega) hn) hq
      (seg_quote hin hn hi h2) hs
  · rename_i h1 h2
    refine ⟨i, hlo, by omega, s, hq, hi, ?_⟩
    rw [hsn, scanQ_snoc, hs]; simp [scanStep, h1, h2]

theorem stepEscaped_post (t : Bytes) {lo n : Nat} {l : Srcloc} {q : UInt8} {body : Bytes}
    (hn : n < t.length) (h : Inv t (.escaped l q body) lo n) :
    Inv t (.quoted l q (body ++ [t[n]])) lo (n+1) := by
  obtain ⟨i, hlo, hin, s, hq, hi, hs⟩ := h
  have hsn := seg_snoc t (by omega : i+1 ≤ n) hn
  refine ⟨i, hlo, by omega, s, hq, hi, ?_⟩
  rw [hsn, scanQ_snoc, hs]; simp [scanStep]

theorem seg_unit {t : Bytes} {n : Nat} (h0 : 0 < n) (hn : n < t.length)
    (ho : t[n-1]? = some 40) (hc : t[n] = 41) : seg t (n-1) (n-1+2) = [40, 41] := by
  have e : n - 1 + 2 = n + 1 := by omega
  have e2 : n - 1 + 1 = n := by omega
  have hlt : n - 1 < t.length := by omega
  rw [e, seg_cons t (by omega : n-1 < n+1) (by omega), e2, seg_single t hn, hc]
  rw [getElem?_of_lt t hlt] at ho
  injection ho with ho
  rw [ho]

theorem stepOpenList_post (t : Bytes) {lo n : Nat} {l : Srcloc} {st : Bool}
    (hn : n < t.length) (h : Inv t (.openList l st) lo n) :
    Post t lo n (stepOpenList (posAt t n) l st t[n]) := by
  obtain ⟨hst, hlo, s, ho⟩ := h
  have sp := span_posAt t n hn
  have se : Span t (l.ext (posAt t n)) (n-1) (n+1) := span_ext_cur s (by omega) (by omega) hn
  unfold stepOpenList
  split
  · rename_i hc
    refine ⟨?_, inv_empty t (by omega)⟩
    have e : n + 1 = n - 1 + 2 := by omega
    rw [e] at se
    exact .unit (by omega) (by omega) se (seg_unit (by omega) hn ho hc)
  split
  · exact sp
  · have hp := stepEmpty_post t (Nat.le_refl n) hn
    have hb : n - 1 + 1 = n := by omega
    subst hst
    split
    · rename_i o s' he
      rw [he] at hp
      refine ⟨n-1, by omega, by omega, se, by simpa using ho, ?_, ?_⟩
      · intro x hx; simp at hx; subst hx; rw [hb]; exact hp.1
      · rw [hb]; exact hp.2
    · rename_i s' he
      rw [he] at hp
      refine ⟨n-1, by omega, by omega, se, by simpa using ho, ?_, ?_⟩
      · intro x hx; simp at hx
      · rw [hb]; exact hp
    · rename_i l' e he
      rw [he] at hp
      exact hp

theorem stepStart_post (t : Bytes) {lo n : Nat} {l : Srcloc}
    (hn : n < t.length) (h : Inv t (.startStructured l) lo n) :
    Post t lo n (if t[n] = 40 then .resume (.parsingList (l.ext (posAt t n)) .empty [] true)
                 else stepHash (posAt t n) t[n]) := by
  obtain ⟨hlo, s, hh⟩ := h
  have sp := span_posAt t n hn
  split
  · rename_i hc
    have e : n - 1 + 1 = n := by omega
    refine ⟨n-1, by omega, by omega, span_ext_cur s (by omega) (by omega) hn, ?_, ?_, inv_empty t (by omega)⟩
    · simp only [if_true]
      refine ⟨hh, ?_, by omega⟩
      rw [e, getElem?_of_lt t hn, hc]
    · intro x hx; simp at hx
  · unfold stepHash stepBareword
    split
    · refine ⟨?_, inv_empty t (by omega)⟩
      have : makeAtom (posAt t n) [35] = .atom (posAt t n) [35] := by
        show makePlain (posAt t n) [35] = _
        exact makePlain_hash _
      rw [this]
      exact .hashLone rfl hlo (by omega) sp hh
    · have e : (posAt t n).ext (posAt t n) = posAt t n := by
        rcases span_ext sp sp with ⟨h1, _⟩ | ⟨_, h2⟩ | ⟨h1, _⟩
        · omega
        · exact h2
        · omega
      rw [e]
      refine ⟨n, by omega, sp, Or.inr ⟨hlo, hh, ?_⟩⟩
      rw [seg_single t hn]; rfl

theorem closingWord_some {ch : UInt8} {pp : PState} {wl : Srcloc} {w : Bytes}
    (h : closingWord ch pp = some (wl, w)) : ch = 41 ∧ pp = .bareword wl w := by
  unfold closingWord at h
  split at h
  · rename_i hc
    refine ⟨hc, ?_⟩
    cases pp <;> simp [PState.word?] at h
    obtain ⟨h1, h2⟩ := h
    subst h1; subst h2; rfl
  · cases h

/-- closing a list at byte `n` (a `)`) whose opener is at `b`. -/
theorem close_emit {t : Bytes} {lo n b : Nat} {x : LRich} (hn : n < t.length) (hc : t[n] = 41)
    (hlo : lo ≤ b) (hb : b < n) (ho : opensAt t b) (g : Good t true true x b n) :
    Good t true false x lo (n+1) :=
  .list hlo hb (Nat.lt_succ_self n) ho (by rw [getElem?_of_lt t hn, hc]) g

theorem closeTermNone_good {t : Bytes} {lo n b : Nat} {l : Srcloc} {content : List LRich}
    (hn : n < t.length) (hc : t[n] = 41) (hlo : lo ≤ b) (hb : b < n) (ho : opensAt t b)
    (s : Span t l b (n+1)) (hit : Items t true content (b+1) n) :
    Good t true false (closeTermNone l content) lo (n+1) := by
  have gen : Good t true false (enlist l content) lo (n+1) :=
    close_emit hn hc hlo hb ho (enlist_good (LocIn.ofSpan s) hit)
  match content, hit, gen with
  | [], _, gen => exact gen
  | [x], hit, _ => exact (hit x List.mem_cons_self).mono (by omega) (Nat.le_succ _)
  | _ :: _ :: _, _, gen => exact gen

/-- every state's scope starts at or before the cursor -/
theorem inv_lo (t : Bytes) : ∀ (s : PState) (lo n : Nat), Inv t s lo n → lo ≤ n := by
  intro s lo n h
  cases s with
  | empty => exact h
  | comment => exact h
  | bareword l w => obtain ⟨i, hin, _, h⟩ := h; rcases h with ⟨h, _⟩ | ⟨h, _⟩ <;> omega
  | quoted l q b => obtain ⟨i, h1, h2, _⟩ := h; omega
  | escaped l q b => obtain ⟨i, h1, h2, _⟩ := h; omega
  | openList l st => obtain ⟨_, h, _⟩ := h; omega
  | startStructured l => obtain ⟨h, _⟩ := h; omega
  | parsingList l pp c st => obtain ⟨b, h1, h2, _⟩ := h; omega
  | termList l p pp c =>
    cases p with
    | none => obtain ⟨b, h1, h2, _⟩ := h; omega
    | some p => obtain ⟨b, i, h1, h2, h3, _⟩ := h; omega

theorem step_post (t : Bytes) {n : Nat} (hn : n < t.length) :
    ∀ (s : PState) (lo : Nat), Inv t s lo n → Post t lo n (step (posAt t n) s t[n]) := by
  intro s
  induction s with
  | empty => intro lo h; rw [step]; exact stepEmpty_post t h hn
  | comment => intro lo h; rw [step]; exact stepComment_post t h _
  | bareword l w => intro lo h; rw [step]; exact stepBareword_post t hn h
  | quoted l q b => intro lo h; rw [step]; exact stepQuoted_post t hn h
  | escaped l q b => intro lo h; rw [step]; exact stepEscaped_post t hn h
  | openList l st => intro lo h; rw [step]; exact stepOpenList_post t hn h
  | startStructured l => intro lo h; rw [step]; exact stepStart_post t hn h
  | parsingList l pp content st ih =>
    intro lo h
    obtain ⟨b, hlo, hb, s, hst, hit, hpp⟩ := h
    have se : Span t (l.ext (posAt t n)) b (n+1) := span_ext_cur s (by omega) (by omega) hn
    have ho : opensAt t b := by
      cases st
      · exact Or.inl (by simpa using hst)
      · simp only [if_true] at hst; exact Or.inr ⟨hst.1, hst.2.1⟩
    have hst' : (if st then t[b]? = some 35 ∧ t[b+1]? = some 40 ∧ b + 1 < n + 1 else t[b]? = some 40) := by
      cases st
      · simpa using hst
      · simp only [if_true] at hst ⊢; exact ⟨hst.1, hst.2.1, by omega⟩
    have hl : LocIn t l b (n+1) := LocIn.mono (LocIn.ofSpan s) (Nat.le_refl _) (Nat.le_succ _)
    have hit' := hit.mono (Nat.le_refl _) (Nat.le_succ n)
    rw [step]
    split
    · rename_i hc
      split
      · exact span_posAt t n hn
      · rename_i hs
        have hsf : st = false := by cases st <;> simp at hs ⊢
        subst hsf
        exact ⟨b, hlo, by omega, se, by simpa using hst, hit', inv_empty t (by omega)⟩
    split
    · rename_i _ hc
      exact ⟨close_emit hn hc.1 hlo hb ho (closeList_good hl hit), inv_empty t (by omega)⟩
    split
    · rename_i wl w hw
      obtain ⟨hc, hpb⟩ := closingWord_some hw
      subst hpb
      have gw := bareword_good (Nat.le_of_lt hn) hpp
      exact ⟨close_emit hn hc hlo hb ho (closeList_good hl (hit.snoc gw)), inv_empty t (by omega)⟩
    · have hp := ih (b+1) hpp
      split
      · rename_i o s' he
        rw [he] at hp
        exact ⟨b, hlo, by omega, se, hst', hit'.snoc hp.1, hp.2⟩
      · rename_i s' he
        rw [he] at hp
        exact ⟨b, hlo, by omega, se, hst', hit', hp⟩
      · rename_i l' e he
        rw [he] at hp
        exact hp
  | termList l parsed pp content ih =>
    intro lo h
    cases parsed with
    | some p =>
      obtain ⟨b, i, hlo, hbi, hin, s, hob, hit, gp, hpp⟩ := h
      have se : Span t (l.ext (posAt t n)) i (n+1) := span_ext_cur s (by omega) (by omega) hn
      have hit' := hit.mono (Nat.le_refl _) (Nat.le_succ n)
      rw [step]
      split
      · rename_i hc
        split
        · rename_i r hr
          exact ⟨close_emit hn hc.1 hlo (by omega) (Or.inl hob) (closeDotted_good hit gp hr),
            inv_empty t (by omega)⟩
        · exact span_posAt t n hn
      · have hp := ih (b+1) hpp
        split
        · exact span_posAt t n hn
        · rename_i s' he
          rw [he] at hp
          split
          · exact ⟨b, i, hlo, hbi, by omega, se, hob, hit', gp.mono (Nat.le_refl _) (Nat.le_succ _), hp⟩
          · exact span_posAt t n hn
        · rename_i l' e he
          rw [he] at hp
          exact hp
    | none =>
      obtain ⟨b, hlo, hb, s, hob, hit, hpp⟩ := h
      have se : Span t (l.ext (posAt t n)) b (n+1) := span_ext_cur s (by omega) (by omega) hn
      have hit' := hit.mono (Nat.le_refl _) (Nat.le_succ n)
      rw [step]
      split
      · exact span_posAt t n hn
      split
      · rename_i _ hc
        exact ⟨closeTermNone_good hn hc.1 hlo hb (Or.inl hob) se hit, inv_empty t (by omega)⟩
      split
      · rename_i wl w hw
        obtain ⟨hc, hpb⟩ := closingWord_some hw
        subst hpb
        have gw := bareword_good (Nat.le_of_lt hn) hpp
        split
        · rename_i r hr
          exact ⟨close_emit hn hc hlo hb (Or.inl hob) (closeDotted_good hit gw hr), inv_empty t (by omega)⟩
        · exact span_posAt t n hn
      · have hp := ih (b+1) hpp
        split
        · rename_i o s' he
          rw [he] at hp
          exact ⟨b, n, hlo, hb, Nat.lt_succ_self n, span_posAt t n hn, hob, hit', hp.1,
            inv_empty t (by omega)⟩
        · rename_i s' he
          rw [he] at hp
          exact ⟨b, hlo, by omega, se, hob, hit', hp⟩
        · rename_i l' e he
          rw [he] at hp
          exact hp

/-! ### push / feed / finalize -/

structure PInv (t : Bytes) (p : Partial) (n : Nat) : Prop where
  loc : p.loc = posAt t n
  st : Inv t p.st 0 n
  res : ∀ x ∈ p.res, Good t true false x 0 n

theorem pinv_new (t : Bytes) : PInv t (Partial.new (Srcloc.start inputFile)) 0 :=
  ⟨by simp [Partial.new, posAt, posAfter], Nat.le_refl 0, by simp [Partial.new]⟩

theorem push_inv {t : Bytes} {p : Partial} {n : Nat} (hn : n < t.length) (h : PInv t p n) :
    (∀ p', p.push t[n] = .ok p' → PInv t p' (n+1)) ∧
    (∀ e, p.push t[n] = .error e → Span t e.1 n (n+1)) := by
  have hp := step_post t hn p.st 0 h.st
  rw [← h.loc] at hp
  have hl : p.loc.advance t[n] = posAt t (n+1) := by rw [h.loc, posAt_succ t n hn]
  unfold Partial.push
  cases hs : step p.loc p.st t[n] with
  | error l e =>
    rw [hs] at hp
    constructor
    · intro p' hp'; cases hp'
    · intro e' he'; injection he' with he'; subst he'; exact hp
  | resume s =>
    rw [hs] at hp
    constructor
    · intro p' hp'; injection hp' with hp'; subst hp'
      exact ⟨hl, hp, fun x hx => (h.res x hx).mono (Nat.le_refl _) (Nat.le_succ _)⟩
    · intro e' he'; cases he'
  | emit o s =>
    rw [hs] at hp
    constructor
    · intro p' hp'; injection hp' with hp'; subst hp'
      refine ⟨hl, hp.2, ?_⟩
      intro x hx
      rcases List.mem_append.mp hx with hx | hx
      · exact (h.res x hx).mono (Nat.le_refl _) (Nat.le_succ _)
      · simp at hx; subst hx; exact hp.1
    · intro e' he'; cases he'

theorem feed_inv (t : Bytes) : ∀ (suf pre : Bytes) (p : Partial), t = pre ++ suf → PInv t p pre.length →
    (∀ p', feed p suf = .ok p' → PInv t p' t.length) ∧
    (∀ e, feed p suf = .error e → ∃ i j, Span t e.1 i j) := by
  intro suf
  induction suf with
  | nil =>
    intro pre p ht h
    simp only [feed]
    constructor
    · intro p' hp'; injection hp' with hp'; subst hp'
      have : t.length = pre.length := by rw [ht]; simp
      rw [this]; exact h
    · intro e he; cases he
  | cons c r ih =>
    intro pre p ht h
    have hn : pre.length < t.length := by rw [ht]; simp
    have hc : t[pre.length] = c := by simp [ht]
    have hp := push_inv hn h
    rw [hc] at hp
    simp only [feed]
    cases hs : p.push c with
    | ok p1 =>
      have := ih (pre ++ [c]) p1 (by rw [ht]; simp) (by simpa using hp.1 p1 hs)
      exact this
    | error e1 =>
      constructor
      · intro p' hp'; cases hp'
      · intro e he; injection he with he; subst he; exact ⟨_, _, hp.2 e1 hs⟩

theorem finalize_inv {t : Bytes} {p : Partial} (h : PInv t p t.length) :
    (∀ fs, p.finalize = .ok fs → ∀ x ∈ fs, Good t true false x 0 t.length) ∧
    (∀ e, p.finalize = .error e → ∃ i j, Span t e.1 i j) := by
  have hs := h.st
  unfold Partial.finalize
  cases he : p.st with
  | empty =>
    exact ⟨fun fs hf => (by injection hf with hf; subst hf; exact h.res), fun e hf => (by cases hf)⟩
  | comment =>
    exact ⟨fun fs hf => (by injection hf with hf; subst hf; exact h.res), fun e hf => (by cases hf)⟩
  | bareword l w =>
    rw [he] at hs
    refine ⟨fun fs hf => ?_, fun e hf => (by cases hf)⟩
    injection hf with hf; subst hf
    intro x hx
    simp at hx; subst hx
    exact bareword_good (Nat.le_refl _) hs
  | quoted l q b =>
    rw [he] at hs
    obtain ⟨i, _, _, s, _⟩ := hs
    exact ⟨fun fs hf => (by cases hf), fun e hf => (by injection hf with hf; subst hf; exact ⟨_, _, s⟩)⟩
  | escaped l q b =>
    rw [he] at hs
    obtain ⟨i, _, _, s, _⟩ := hs
    exact ⟨fun fs hf => (by cases hf), fun e hf => (by injection hf with hf; subst hf; exact ⟨_, _, s⟩)⟩
  | openList l st =>
    rw [he] at hs
    obtain ⟨_, _, s, _⟩ := hs
    exact ⟨fun fs hf => (by cases hf), fun e hf => (by injection hf with hf; subst hf; exact ⟨_, _, s⟩)⟩
  | parsingList l pp c st =>
    rw [he] at hs
    obtain ⟨b, _, _, s, _⟩ := hs
    exact ⟨fun fs hf => (by cases hf), fun e hf => (by injection hf with hf; subst hf; exact ⟨_, _, s⟩)⟩
  | termList l pa pp c =>
    rw [he] at hs
    have : ∃ i j, Span t l i j := by
      cases pa with
      | none => obtain ⟨b, _, _, s, _⟩ := hs; exact ⟨_, _, s⟩
      | some x => obtain ⟨b, i, _, _, _, s, _⟩ := hs; exact ⟨_, _, s⟩
    exact ⟨fun fs hf => (by cases hf), fun e hf => (by injection hf with hf; subst hf; exact this)⟩
  | startStructured l =>
    rw [he] at hs
    obtain ⟨_, s, _⟩ := hs
    exact ⟨fun fs hf => (by cases hf), fun e hf => (by injection hf with hf; subst hf; exact ⟨_, _, s⟩)⟩

/-- the invariant's conclusion for a whole text. -/
theorem parse_post (t : Bytes) :
    (∀ fs, parse t = .ok fs → ∀ x ∈ fs, Good t true false x 0 t.length) ∧
    (∀ e, parse t = .error e → ∃ i j, Span t e.1 i j) := by
  have hf := feed_inv t t [] (Partial.new (Srcloc.start inputFile)) (by simp) (pinv_new t)
  unfold parse parseFrom
  cases hs : feed (Partial.new (Srcloc.start inputFile)) t with
  | ok p => exact finalize_inv (hf.1 p hs)
  | error e =>
    exact ⟨fun fs h => (by cases h), fun e' h => (by injection h with h; subst h; exact hf.2 e hs)⟩

/-! ### from the defect-admitting judgement to the strict one -/

theorem clean_cons {l : Srcloc} {a e : LRich} (h : Clean (.cons l a e)) : Clean a ∧ Clean e := by
  unfold Clean at *
  simp only [LRich.nodes] at h
  refine ⟨?_, ?_⟩
  · intro y hy; exact h y (List.mem_cons_of_mem _ (List.mem_append_left _ hy))
  · intro y hy; exact h y (List.mem_cons_of_mem _ (List.mem_append_right _ hy))

theorem clean_self {x : LRich} (h : Clean x) : x.erase ≠ .atom [35] := by
  apply h
  cases x <;> simp [LRich.nodes]

theorem _root_.ReaderSpec.Good.strict {t m x lo hi} (h : Good t true m x lo hi) : Clean x → Good t false m x lo hi := by
  induction h with
  | word a b s hh => intro _; exact .word a b s hh
  | hashWord a b s hh hp => intro _; exact .hashWord a b s hh hp
  | quoted a b s hq hs hb => intro _; exact .quoted a b s hq hs hb
  | unit a b s hs => intro _; exact .unit a b s hs
  | list a b c o cl _ ih => intro hc; exact .list a b c o cl (ih hc)
  | inner _ ih => intro hc; exact .inner (ih hc)
  | gcons hl _ _ iha ihe =>
    intro hc
    obtain ⟨ca, ce⟩ := clean_cons hc
    exact .gcons hl (iha ca) (ihe ce)
  | gnil hl => intro _; exact .gnil hl
  | hashPrim a b s hh hp => intro _; exact .hashPrim a b s hh hp
  | hashLone _ _ _ _ _ => intro hc; exact absurd rfl (clean_self hc)

/-! ### reading the clauses off the judgement -/

theorem makePlain_nodes (l : Srcloc) (w : Bytes) : (makePlain l w).nodes = [makePlain l w] := by
  unfold makePlain
  split
  · rfl
  · split
    · split <;> rfl
    · rfl

theorem makePlain_not_cons (l : Srcloc) (w : Bytes) : (makePlain l w).isCons = false := by
  unfold makePlain
  split
  · rfl
  · split
    · split <;> rfl
    · rfl

/-- every node's location lies in the window of the judgement. -/
theorem good_nodes_within {t d m x lo hi} (h : Good t d m x lo hi) :
    ∀ z ∈ x.nodes, LocIn t z.loc lo (if m then hi + 1 else hi) := by
  induction h with
  | word a b s _ =>
    intro z hz
    rw [makePlain_nodes] at hz
    simp at hz; subst hz
    rw [makePlain_loc]; exact ⟨_, _, a, b, s⟩
  | hashWord a b s _ _ =>
    intro z hz; simp [LRich.nodes] at hz; subst hz
    exact ⟨_, _, Nat.le_of_lt a, b, s⟩
  | quoted a b s _ _ _ =>
    intro z hz; simp [LRich.nodes] at hz; subst hz
    exact ⟨_, _, a, b, s⟩
  | unit a b s _ =>
    intro z hz; simp [LRich.nodes] at hz; subst hz
    exact ⟨_, _, a, b, s⟩
  | list a b c _ _ _ ih =>
    intro z hz
    have := ih z hz
    simp only [reduceIte] at this
    exact LocIn.mono this a (Nat.succ_le_of_lt c)
  | inner _ ih =>
    intro z hz
    have := ih z hz
    simp only [Bool.false_eq_true, reduceIte] at this
    exact LocIn.mono this (Nat.le_succ _) (Nat.le_succ _)
  | gcons hl _ _ iha ihe =>
    intro z hz
    simp only [LRich.nodes, List.mem_cons, List.mem_append] at hz
    rcases hz with hz | hz | hz
    · subst hz; exact hl
    · exact iha z hz
    · exact ihe z hz
  | gnil hl =>
    intro z hz; simp [LRich.nodes] at hz; subst hz; exact hl
  | hashPrim a b s _ _ =>
    intro z hz; simp [LRich.nodes] at hz; subst hz
    exact ⟨_, _, Nat.le_of_lt a, b, s⟩
  | hashLone _ a b s _ =>
    intro z hz; simp [LRich.nodes] at hz; subst hz
    exact ⟨_, _, Nat.le_of_lt a, Nat.succ_le_of_lt b, s⟩

/-- leaf clause on reader coordinates -/
def LeafOK (t : Bytes) (y : LRich) : Prop :=
  y.isCons = false ∧ ∃ i j, Span t y.loc i j ∧ TokenOf t i (seg t i j) y

/-- list clause on reader coordinates -/
def ListOK (t : Bytes) (y : LRich) : Prop :=
  (y.isCons = true ∨ y.isNil = true) ∧
  ∃ b c, b < c ∧ opensAt t b ∧ t[c]? = some 41 ∧ ∀ z ∈ y.nodes, LocIn t z.loc b (c+1)

theorem good_nodes_all {t d m x lo hi} (h : Good t d m x lo hi) :
    (m = true → lo < hi ∧ opensAt t lo ∧ t[hi]? = some 41) →
    ∀ y ∈ x.nodes, (LeafOK t y ∨ ListOK t y) ∨ (d = true ∧ y.erase = .atom [35]) := by
  induction h with
  | word a b s hh =>
    intro _ y hy
    rw [makePlain_nodes] at hy
    simp at hy; subst hy
    left; left
    refine ⟨makePlain_not_cons _ _, _, _, by rw [makePlain_loc]; exact s, Or.inl ⟨hh, ?_⟩⟩
    rw [makePlain_loc]
  | hashWord a b s hh hp =>
    intro _ y hy; simp [LRich.nodes] at hy; subst hy
    left; left
    exact ⟨rfl, _, _, s, Or.inr (Or.inl ⟨by omega, hh, hp, rfl⟩)⟩
  | quoted a b s hq hs hb =>
    intro _ y hy; simp [LRich.nodes] at hy; subst hy
    left; left
    exact ⟨rfl, _, _, s, Or.inr (Or.inr (Or.inr (Or.inl ⟨_, _, _, hq, hs, hb, rfl⟩)))⟩
  | unit a b s hs =>
    intro _ y hy; simp [LRich.nodes] at hy; subst hy
    left; left
    exact ⟨rfl, _, _, s, Or.inr (Or.inr (Or.inr (Or.inr ⟨hs, rfl⟩)))⟩
  | list a b c o cl _ ih => intro _; exact ih (fun _ => ⟨b, o, cl⟩)
  | inner _ ih => intro _; exact ih (fun h => by cases h)
  | @gcons l a e b c hl ga ge iha ihe =>
    intro hm y hy
    have hf := hm rfl
    simp only [LRich.nodes, List.mem_cons, List.mem_append] at hy
    rcases hy with hy | hy | hy
    · subst hy
      left; right
      refine ⟨Or.inl rfl, b, c, hf.1, hf.2.1, hf.2.2, ?_⟩
      have := good_nodes_within (Good.gcons hl ga ge)
      simpa using this
    · exact iha hm y hy
    · exact ihe hm y hy
  | @gnil l b c hl =>
    intro hm y hy
    have hf := hm rfl
    simp [LRich.nodes] at hy; subst hy
    left; right
    refine ⟨Or.inr rfl, b, c, hf.1, hf.2.1, hf.2.2, ?_⟩
    intro z hz; simp [LRich.nodes] at hz; subst hz; exact hl
  | hashPrim a b s hh hp =>
    intro _ y hy; simp [LRich.nodes] at hy; subst hy
    left; left
    exact ⟨rfl, _, _, s, Or.inr (Or.inr (Or.inl ⟨by omega, hh, _, hp, rfl⟩))⟩
  | hashLone hd _ _ _ _ =>
    intro _ y hy; simp [LRich.nodes] at hy; subst hy
    exact Or.inr ⟨hd, rfl⟩

theorem good_nodes {t m x lo hi} (h : Good t false m x lo hi)
    (hm : m = true → lo < hi ∧ opensAt t lo ∧ t[hi]? = some 41) :
    ∀ y ∈ x.nodes, LeafOK t y ∨ ListOK t y := by
  intro y hy
  rcases good_nodes_all h hm y hy with h | ⟨h, _⟩
  · exact h
  · cases h

/-- list nodes and nil nodes are well located whatever the defect flag -/
theorem good_nodes_list {t d m x lo hi} (h : Good t d m x lo hi)
    (hm : m = true → lo < hi ∧ opensAt t lo ∧ t[hi]? = some 41) :
    ∀ y ∈ x.nodes, (y.isCons = true ∨ y.isNil = true) → LeafOK t y ∨ ListOK t y := by
  intro y hy hk
  rcases good_nodes_all h hm y hy with h | ⟨_, h⟩
  · exact h
  · cases y <;> simp [LRich.erase, LRich.isCons, LRich.isNil] at h hk

/-! ### from reader coordinates to byte offsets (tab-free texts) -/

theorem within_of_span {t : Bytes} (ht : TabFree t) {l : Srcloc} {i j lo hi : Nat}
    (s : Span t l i j) (h1 : lo ≤ i) (h2 : j ≤ hi) : Within t l lo hi := by
  unfold Within
  rw [span_spanOf ht s]
  exact ⟨s.1, h1, s.2.1, h2⟩

theorem within_of_locIn {t : Bytes} (ht : TabFree t) {l : Srcloc} {lo hi : Nat}
    (h : LocIn t l lo hi) : Within t l lo hi := by
  obtain ⟨i, j, h1, h2, s⟩ := h
  exact within_of_span ht s h1 h2

theorem leafExact_of_ok {t : Bytes} (ht : TabFree t) {y : LRich} (h : LeafOK t y) : LeafExact t y := by
  obtain ⟨_, i, j, s, tk⟩ := h
  unfold LeafExact sliceLoc
  rw [span_spanOf ht s]
  exact ⟨within_of_span ht s (Nat.zero_le _) s.2.2.1, tk⟩

theorem listWithin_of_ok {t : Bytes} (ht : TabFree t) {y : LRich} (h : ListOK t y) : ListWithin t y := by
  obtain ⟨_, b, c, h1, h2, h3, h4⟩ := h
  exact ⟨b, c, h1, h2, h3, fun z hz => within_of_locIn ht (h4 z hz)⟩

/-! ### streaming -/

theorem feed_append (p : Partial) (a b : Bytes) :
    feed p (a ++ b) = (feed p a).bind (fun p' => feed p' b) := by
  induction a generalizing p with
  | nil => rfl
  | cons c r ih =>
    simp only [List.cons_append, feed]
    cases p.push c with
    | ok p' => exact ih p'
    | error e => rfl

theorem feed_eq_foldlM (p : Partial) (t : Bytes) : feed p t = t.foldlM Partial.push p := by
  induction t generalizing p with
  | nil => rfl
  | cons c r ih =>
    simp only [feed, List.foldlM_cons]
    cases p.push c with
    | ok p' => exact ih p'
    | error e => rfl

theorem feedChunks_flatten (p : Partial) (chunks : List Bytes) :
    feedChunks p chunks = feed p chunks.flatten := by
  induction chunks generalizing p with
  | nil => rfl
  | cons c r ih =>
    simp only [feedChunks, List.flatten_cons]
    rw [feed_append]
    cases feed p c with
    | ok p' => exact ih p'
    | error e => rfl

end ReaderLemmas
