/-
  Proofs/OptRefine.lean — strict mode is a restriction of the mirror: whenever the strict
  optimiser returns (no flag raised), the mirror of the Rust code returns the same expression.
-/
import ChialispModel.Proofs.OptDriver

namespace Opt

def Refines (recS recM : Val → Res) : Prop := ∀ x y, recS x = .ok y → recM x = .ok y

theorem mapRes_refines {recS recM : Val → Res} (hr : Refines recS recM) :
    ∀ (l l' : List Val), mapRes recS l = .ok l' → mapRes recM l = .ok l' := by
  intro l
  induction l with
  | nil => intro l' h; simpa [mapRes] using h
  | cons x xs ih =>
    intro l' h
    simp only [mapRes] at h ⊢
    cases hx : recS x with
    | error er => rw [hx] at h; cases h
    | ok y =>
      rw [hx] at h
      simp only at h
      cases hxs : mapRes recS xs with
      | error er => rw [hxs] at h; cases h
      | ok ys =>
        rw [hxs] at h
        rw [hr x y hx, ih ys hxs]
        exact h

theorem pathStep_refines {s : Bool} {b : Bytes} {isRest : Bool} {y : Val}
    (h : pathStep s b isRest = .ok y) : pathStep false b isRest = .ok y := by
  unfold pathStep at h ⊢
  split at h
  · cases h
  · simpa using h

theorem pathOptimizer_refines {s : Bool} {r y : Val} (h : pathOptimizer s r = .ok y) :
    pathOptimizer false r = .ok y := by
  unfold pathOptimizer at h ⊢
  split
  · rename_i fm h1
    rw [h1] at h
    simp only at h
    split
    · rename_i b hb
      rw [hb] at h
      exact pathStep_refines h
    · rename_i hb
      rw [hb] at h; exact h
  · rename_i h1
    rw [h1] at h
    simp only at h
    split
    · rename_i rm h2
      rw [h2] at h
      simp only at h
      split
      · rename_i b hb
        rw [hb] at h
        exact pathStep_refines h
      · rename_i hb
        rw [hb] at h; exact h
    · rename_i h2
      rw [h2] at h; exact h

theorem childrenOptimizer_refines {s : Bool} {recS recM : Val → Res} (hr : Refines recS recM) {r y : Val}
    (h : childrenOptimizer s recS r = .ok y) : childrenOptimizer false recM r = .ok y := by
  unfold childrenOptimizer at h ⊢
  cases hp : properList r with
  | none => rw [hp] at h; exact h
  | some l =>
    rw [hp] at h
    cases l with
    | nil => exact h
    | cons hd t =>
      simp only at h ⊢
      split
      · rename_i hq; rw [if_pos hq] at h; exact h
      · rename_i hq
        rw [if_neg hq] at h
        split at h
        · cases h
        · simp only [Bool.false_and, Bool.false_eq_true, if_false]
          cases hm : mapRes recS (hd :: t) with
          | error er => rw [hm] at h; cases h
          | ok l =>
            rw [hm] at h
            rw [mapRes_refines hr _ _ hm]
            exact h

theorem varChangeKeep_refines {st : Bool} {recS recM : Val → Res} (hr : Refines recS recM) {r s y : Val}
    (h : varChangeKeep st recS r s = .ok y) : varChangeKeep false recM r s = .ok y := by
  unfold varChangeKeep at h ⊢
  split
  · rename_i hc; rw [if_pos hc] at h; exact hr s y h
  · rename_i hc
    rw [if_neg hc] at h
    cases hp : properList s with
    | none => rw [hp] at h; exact h
    | some l =>
      rw [hp] at h
      cases l with
      | nil => exact h
      | cons hd t =>
        simp only at h ⊢
        split at h
        · cases h
        · simp only [Bool.false_and, Bool.false_eq_true, if_false]
          cases hm : mapRes recS (hd :: t) with
          | error er => rw [hm] at h; cases h
          | ok l =>
            rw [hm] at h
            rw [mapRes_refines hr _ _ hm]
            exact h

theorem varChangeOptimizer_refines {s : Bool} {recS recM : Val → Res} (hr : Refines recS recM) {r y : Val}
    (h : varChangeOptimizer s recS r = .ok y) : varChangeOptimizer false recM r = .ok y := by
  unfold varChangeOptimizer at h ⊢
  cases h1 : matchSexp patQA r [] with
  | none => rw [h1] at h; exact h
  | some bs =>
    rw [h1] at h
    simp only at h ⊢
    split
    · rename_i args call ha hc
      rw [ha, hc] at h
      simp only at h
      split at h
      · cases h
      · split at h
        · cases h
        · simp only [Bool.false_and, Bool.false_eq_true, if_false]
          exact varChangeKeep_refines hr h
    · rename_i hno
      split at h
      · rename_i args call ha hc
        exact absurd hc (by intro hc'; exact hno args call ha hc')
      · exact h

theorem tryRule_ok' {r r' : Val} {res : Res} {k : Unit → Res} (h : tryRule r res k = .ok r') :
    (res = .ok r' ∧ r' ≠ r) ∨ (res = .ok r ∧ k () = .ok r') := by
  unfold tryRule at h
  cases res with
  | error e => cases h
  | ok r1 =>
    simp only at h
    split at h
    · rename_i he
      have : r1 = r := by simpa using he
      subst this; exact Or.inr ⟨rfl, h⟩
    · rename_i he
      cases h
      exact Or.inl ⟨rfl, by simpa using he⟩

theorem tryRule_refines {r y : Val} {resS resM : Res} {kS kM : Unit → Res}
    (h1 : ∀ z, resS = .ok z → resM = .ok z) (h2 : kS () = .ok y → kM () = .ok y)
    (h : tryRule r resS kS = .ok y) : tryRule r resM kM = .ok y := by
  rcases tryRule_ok' h with ⟨hres, hne⟩ | ⟨hres, hk⟩
  · rw [h1 y hres]
    unfold tryRule
    simp only
    rw [if_neg (by simpa using hne)]
  · rw [h1 r hres]
    unfold tryRule
    simp only [beq_self_eq_true, if_true]
    exact h2 hk

theorem step_refines {ops : OpSem} {s : Bool} {ef : Nat} {recS recM : Val → Res} (hr : Refines recS recM) {r y : Val}
    (h : step ops s ef recS r = .ok y) : step ops false ef recM r = .ok y := by
  unfold step at h ⊢
  refine tryRule_refines (fun _ hz => hz) ?_ h
  refine tryRule_refines (fun _ hz => hz) ?_
  refine tryRule_refines (fun _ hz => hz) ?_
  refine tryRule_refines (fun _ hz => varChangeOptimizer_refines hr hz) ?_
  refine tryRule_refines (fun _ hz => childrenOptimizer_refines hr hz) ?_
  refine tryRule_refines (fun _ hz => pathOptimizer_refines hz) ?_
  refine tryRule_refines (fun _ hz => hz) ?_
  refine tryRule_refines (fun _ hz => hz) ?_
  exact fun hz => hz

/-- **strict refines mirror**: an un-flagged strict run is a run of the mirrored code. -/
theorem optimize_refines (ops : OpSem) (ef : Nat) : ∀ n : Nat,
    Refines (optimizeSexp ops true ef n) (optimizeSexp ops false ef n) := by
  intro n
  induction n with
  | zero =>
    intro x y h
    cases x with
    | atom b => rw [optimizeSexp_atom] at h ⊢; exact h
    | pair a d => simp [optimizeSexp] at h
  | succ n ih =>
    intro x y h
    cases x with
    | atom b => rw [optimizeSexp_atom] at h ⊢; exact h
    | pair a d =>
      simp only [optimizeSexp] at h ⊢
      cases hst : step ops true ef (optimizeSexp ops true ef n) (.pair a d) with
      | error er => rw [hst] at h; cases h
      | ok r1 =>
        rw [hst] at h
        rw [step_refines ih hst]
        simp only at h ⊢
        split
        · rename_i he; rw [if_pos he] at h; exact h
        · rename_i he; rw [if_neg he] at h; exact ih r1 y h

end Opt
