/-
  Proofs/SrclocLemmas.lean — positions, offsets and `ext` on locations of byte ranges.
-/
import ChialispModel.Text.Srcloc

namespace SrclocLemmas
open Srcloc Text

/-! ### advance -/

@[simp] theorem advance_file (l : Srcloc) (c : UInt8) : (l.advance c).file = l.file := by
  unfold advance; split
  · rfl
  · split <;> rfl

@[simp] theorem advance_untl (l : Srcloc) (c : UInt8) : (l.advance c).untl = l.untl := by
  unfold advance; split
  · rfl
  · split <;> rfl

theorem posAfter_file (l : Srcloc) (p : Bytes) : (posAfter l p).file = l.file := by
  induction p generalizing l with
  | nil => rfl
  | cons c r ih => simp [posAfter, List.foldl] at ih ⊢; rw [ih]; simp

theorem posAfter_untl (l : Srcloc) (p : Bytes) : (posAfter l p).untl = l.untl := by
  induction p generalizing l with
  | nil => rfl
  | cons c r ih => simp [posAfter, List.foldl] at ih ⊢; rw [ih]; simp

@[simp] theorem posAt_file (t : Bytes) (i : Nat) : (posAt t i).file = inputFile := by
  simp [posAt, posAfter_file, start]

@[simp] theorem posAt_untl (t : Bytes) (i : Nat) : (posAt t i).untl = none := by
  simp [posAt, posAfter_untl, start]

theorem posAfter_snoc (l : Srcloc) (p : Bytes) (c : UInt8) :
    posAfter l (p ++ [c]) = (posAfter l p).advance c := by
  simp [posAfter, List.foldl_append]

theorem posAt_succ (t : Bytes) (i : Nat) (h : i < t.length) :
    posAt t (i+1) = (posAt t i).advance t[i] := by
  unfold posAt
  rw [List.take_succ_eq_append_getElem h, posAfter_snoc]

/-- strict lexicographic order on (line, col) -/
def lt (a b : Srcloc) : Prop := a.line < b.line ∨ (a.line = b.line ∧ a.col < b.col)

theorem lt_advance (l : Srcloc) (c : UInt8) : lt l (l.advance c) := by
  unfold lt advance
  split
  · left; simp
  · split
    · right; simp; omega
    · right; simp

theorem lt_trans {a b c : Srcloc} (h1 : lt a b) (h2 : lt b c) : lt a c := by
  unfold lt at *; omega

theorem posAt_lt (t : Bytes) {i j : Nat} (hij : i < j) (hj : j ≤ t.length) :
    lt (posAt t i) (posAt t j) := by
  induction j with
  | zero => omega
  | succ k ih =>
    have hk : k < t.length := by omega
    rw [posAt_succ t k hk]
    by_cases h : i = k
    · subst h; exact lt_advance _ _
    · exact lt_trans (ih (by omega) (by omega)) (lt_advance _ _)

/-! ### Span -/

theorem span_posAt (t : Bytes) (k : Nat) (h : k < t.length) : Span t (posAt t k) k (k+1) := by
  refine ⟨by simp, by omega, by omega, rfl, rfl, Or.inl ⟨by simp, rfl⟩⟩

theorem span_locMax {t : Bytes} {l : Srcloc} {i j : Nat} (h : Span t l i j) :
    l.locMax = ((posAt t (j-1)).line, (posAt t (j-1)).col + 1) := by
  obtain ⟨_, _, _, hl, hc, hu⟩ := h
  unfold locMax
  rcases hu with ⟨hn, hj⟩ | hs
  · rw [hn]; subst hj; simp [hl, hc]
  · rw [hs]

theorem span_addOnto {t : Bytes} {a b : Srcloc} {i j i' j' : Nat}
    (ha : Span t a i j) (hb : Span t b i' j') (h : i < j') : Span t (addOnto a b) i j' := by
  have hm := span_locMax hb
  obtain ⟨hf, _, _, hl, hc, _⟩ := ha
  obtain ⟨_, _, hj', _, _, _⟩ := hb
  refine ⟨hf, h, hj', hl, hc, Or.inr ?_⟩
  simp [addOnto, hm]

/-- `ext` of two located ranges is the location of a range starting at the smaller start. -/
theorem span_ext {t : Bytes} {a b : Srcloc} {i j i' j' : Nat}
    (ha : Span t a i j) (hb : Span t b i' j') :
    (i < i' ∧ Span t (a.ext b) i j') ∨ (i = i' ∧ a.ext b = a) ∨ (i' < i ∧ Span t (a.ext b) i' j) := by
  have hfa := ha.1
  have hfb := hb.1
  have hla := ha.2.2.2.1
  have hca := ha.2.2.2.2.1
  have hlb := hb.2.2.2.1
  have hcb := hb.2.2.2.2.1
  have hj := ha.2.2.1
  have hj' := hb.2.2.1
  have hij := ha.2.1
  have hij' := hb.2.1
  unfold ext
  rw [if_pos (by rw [hfa, hfb])]
  rcases Nat.lt_trichotomy i i' with h | h | h
  · left
    refine ⟨h, ?_⟩
    have hlt := posAt_lt t h (by omega)
    unfold lt at hlt
    rw [← hla, ← hlb, ← hca, ← hcb] at hlt
    unfold combine
    rcases hlt with h1 | ⟨h1, h2⟩
    · rw [if_pos h1]; exact span_addOnto ha hb (by omega)
    · rw [if_neg (by omega), if_pos h1, if_pos h2]; exact span_addOnto ha hb (by omega)
  · right; left
    refine ⟨h, ?_⟩
    subst h
    unfold combine
    rw [if_neg (by omega), if_pos (by omega), if_neg (by omega), if_pos (by omega)]
  · right; right
    refine ⟨h, ?_⟩
    have hlt := posAt_lt t h (by omega)
    unfold lt at hlt
    rw [← hla, ← hlb, ← hca, ← hcb] at hlt
    unfold combine
    rcases hlt with h1 | ⟨h1, h2⟩
    · rw [if_neg (by omega), if_neg (by omega)]; exact span_addOnto hb ha (by omega)
    · rw [if_neg (by omega), if_pos (by omega), if_neg (by omega), if_neg (by omega)]
      exact span_addOnto hb ha (by omega)

/-- extending the location of `[i, j)` by the location of a later byte `k`. -/
theorem span_ext_cur {t : Bytes} {l : Srcloc} {i j k : Nat}
    (h : Span t l i j) (hik : i ≤ k) (hjk : j ≤ k + 1) (hk : k < t.length) :
    Span t (l.ext (posAt t k)) i (k+1) := by
  rcases span_ext h (span_posAt t k hk) with ⟨_, h1⟩ | ⟨h1, h2⟩ | ⟨h1, _⟩
  · exact h1
  · rw [h2]
    have : j = k + 1 := by have := h.2.1; omega
    rw [← this]; exact h
  · omega

/-! ### offsets -/

/-- (line, col) after reading `pre` from (line, col) = `(L, C)`, tab-free -/
def adv (lc : Nat × Nat) (pre : Bytes) : Nat × Nat :=
  pre.foldl (fun p c => if c = 10 then (p.1 + 1, 1) else (p.1, p.2 + 1)) lc

theorem adv_cons (lc : Nat × Nat) (c : UInt8) (r : Bytes) :
    adv lc (c :: r) = adv (if c = 10 then (lc.1 + 1, 1) else (lc.1, lc.2 + 1)) r := rfl

theorem adv_mono (lc : Nat × Nat) (pre : Bytes) :
    lc.1 ≤ (adv lc pre).1 ∧ ((adv lc pre).1 = lc.1 → (adv lc pre).2 = lc.2 + pre.length) ∧
    ((adv lc pre).1 ≠ lc.1 → 1 ≤ (adv lc pre).2) := by
  induction pre generalizing lc with
  | nil => simp [adv]
  | cons c r ih =>
    rw [adv_cons]
    split
    · have := ih (lc.1 + 1, 1)
      simp at this ⊢
      omega
    · have := ih (lc.1, lc.2 + 1)
      simp at this ⊢
      omega

theorem offset_adv (pre rest : Bytes) (L C : Nat) :
    lineStart ((adv (L, C) pre).1 - L) (pre ++ rest) +
      ((adv (L, C) pre).2 - (if (adv (L, C) pre).1 = L then C else 1)) = pre.length := by
  induction pre generalizing L C with
  | nil => simp [adv, lineStart]
  | cons c r ih =>
    rw [adv_cons]
    by_cases hc : c = 10
    · simp only [hc, if_true]
      have hm := adv_mono (L + 1, 1) r
      have := ih (L + 1) 1
      simp only at hm
      have e : (adv (L + 1, 1) r).1 - L = ((adv (L + 1, 1) r).1 - (L + 1)) + 1 := by omega
      rw [e]
      simp only [List.cons_append, lineStart, if_true, List.length_cons]
      rw [if_neg (by omega)]
      split at this <;> omega
    · simp only [hc, if_false]
      have hm := adv_mono (L, C + 1) r
      have := ih L (C + 1)
      simp only at hm
      by_cases hl : (adv (L, C + 1) r).1 = L
      · rw [if_pos hl] at this ⊢
        rw [hl] at this ⊢
        simp only [Nat.sub_self, lineStart, List.length_cons] at this ⊢
        have := hm.2.1 hl
        omega
      · rw [if_neg hl] at this ⊢
        obtain ⟨k, hk⟩ : ∃ k, (adv (L, C + 1) r).1 - L = k + 1 := ⟨(adv (L, C + 1) r).1 - L - 1, by omega⟩
        rw [hk] at this ⊢
        simp only [List.cons_append, lineStart, hc, if_false, List.length_cons]
        omega

theorem posAfter_adv (l : Srcloc) (pre : Bytes) (h : TabFree pre) :
    ((posAfter l pre).line, (posAfter l pre).col) = adv (l.line, l.col) pre := by
  induction pre generalizing l with
  | nil => rfl
  | cons c r ih =>
    have hr : TabFree r := fun x hx => h x (List.mem_cons_of_mem _ hx)
    have hc : c ≠ 9 := h c (List.mem_cons_self)
    rw [adv_cons]
    show ((posAfter (l.advance c) r).line, (posAfter (l.advance c) r).col) = _
    rw [ih _ hr]
    congr 1
    unfold advance
    by_cases h10 : c = 10
    · simp [h10]
    · simp [h10, hc]

theorem tabFree_take {t : Bytes} (h : TabFree t) (i : Nat) : TabFree (t.take i) :=
  fun x hx => h x (List.mem_of_mem_take hx)

theorem posAt_pos (t : Bytes) (h : TabFree t) (i : Nat) :
    1 ≤ (posAt t i).line ∧ 1 ≤ (posAt t i).col := by
  have e := posAfter_adv (start inputFile) (t.take i) (tabFree_take h i)
  have hm := adv_mono (1, 1) (t.take i)
  simp only [start] at e
  have e1 : (posAt t i).line = (adv (1, 1) (t.take i)).1 := congrArg Prod.fst e
  have e2 : (posAt t i).col = (adv (1, 1) (t.take i)).2 := congrArg Prod.snd e
  rw [e1, e2]
  simp only at hm
  constructor
  · omega
  · by_cases h1 : (adv (1, 1) (t.take i)).1 = 1
    · have := hm.2.1 h1; omega
    · exact hm.2.2 h1

/-- the byte offset of the position of byte `i` is `i`; `k` columns further it is `i + k`. -/
theorem offsetOf_posAt (t : Bytes) (h : TabFree t) (i k : Nat) (hi : i ≤ t.length) :
    offsetOf t ((posAt t i).line, (posAt t i).col + k) = i + k := by
  have e := posAfter_adv (start inputFile) (t.take i) (tabFree_take h i)
  simp only [start] at e
  have e1 : (posAt t i).line = (adv (1, 1) (t.take i)).1 := congrArg Prod.fst e
  have e2 : (posAt t i).col = (adv (1, 1) (t.take i)).2 := congrArg Prod.snd e
  have hm := adv_mono (1, 1) (t.take i)
  have ho := offset_adv (t.take i) (t.drop i) 1 1
  rw [List.take_append_drop, List.length_take, Nat.min_eq_left hi] at ho
  unfold offsetOf
  simp only
  rw [e1, e2]
  simp only at hm
  split at ho
  · rename_i h1
    have := hm.2.1 h1
    omega
  · rename_i h1
    have := hm.2.2 h1
    omega

theorem span_spanOf {t : Bytes} (ht : TabFree t) {l : Srcloc} {i j : Nat} (h : Span t l i j) :
    spanOf t l = (i, j) := by
  have hm := span_locMax h
  obtain ⟨_, hij, hj, hl, hc, _⟩ := h
  unfold spanOf
  rw [hm]
  unfold locMin
  rw [hl, hc]
  have a := offsetOf_posAt t ht i 0 (by omega)
  have b := offsetOf_posAt t ht (j-1) 1 (by omega)
  simp only [Nat.add_zero] at a
  rw [a, b]
  congr 1
  omega

end SrclocLemmas
