/-
  Proofs/CldbLemmas.lean — lemmas behind Props/C12.lean (debugger rows over the step machine).
-/
import ChialispModel.Clvm.Cldb
import ChialispModel.Proofs.StepRunLemmas

namespace CldbLemmas
open Cldb Step Rich Clvm

section
variable (hr : Rich → Rich → Except RunErr Rich) (m : Mode) (pm : PrimMap) (ops : OpSem)

/-- the pending map never holds the keys that are written just before a row goes out. -/
def Clean (tp : Row) : Prop :=
  tp.value = none ∧ tp.rowNo = none ∧ tp.final = none ∧ tp.failure = none ∧ tp.throw = none ∧ tp.print = none

theorem clean_empty : Clean ({} : Row) := ⟨rfl, rfl, rfl, rfl, rfl, rfl⟩

theorem clean_addContext (h a : Rich) (tp : Row) (hc : Clean tp) : Clean (addContext h a tp) := by
  unfold addContext
  split
  · exact hc
  · exact hc

theorem clean_operator (h : Rich) (tp : Row) (hc : Clean tp) : Clean { tp with operator := some h } := hc

/-- one debugger step: the pending map stays clean; an emitted row carries `Row = row counter`
    (or no `Row` key) and bumps the counter; otherwise the counter is unchanged. -/
theorem step_facts (s : State) (hc : Clean s.toPrint) :
    Clean (cldbStep hr m pm ops s).1.toPrint ∧
    (match (cldbStep hr m pm ops s).2 with
     | some r => (cldbStep hr m pm ops s).1.row = s.row + 1 ∧ (∀ n, r.rowNo = some n → n = s.row) ∧ r.throw = none
     | none => (cldbStep hr m pm ops s).1.row = s.row) := by
  obtain ⟨h1, h2, h3, h4, h5, h6⟩ := hc
  unfold cldbStep
  split
  · split
    · exact ⟨clean_empty, rfl, by intro n hn; simpa using hn.symm, h5⟩
    · exact ⟨⟨h1, h2, h3, h4, h5, h6⟩, rfl⟩
  · exact ⟨clean_empty, rfl, by intro n hn; simp [h2] at hn, h5⟩
  · exact ⟨⟨h1, h2, h3, h4, h5, h6⟩, rfl⟩
  · unfold onOpNone
    split
    · exact ⟨clean_addContext _ _ _ clean_empty, rfl, by intro n hn; simp [h2] at hn, h5⟩
    · exact ⟨clean_addContext _ _ _ ⟨h1, h2, h3, h4, h5, h6⟩, rfl⟩
  · exact ⟨⟨h1, h2, h3, h4, h5, h6⟩, rfl⟩
  · exact ⟨clean_empty, rfl, by intro n hn; simp [h2] at hn, h5⟩

/-- rows are numbered by their position in the output. -/
theorem rows_consecutive (lim : Nat) (s : State) (hc : Clean s.toPrint) :
    ∀ (i : Nat) (r : Row), (cldbRun hr m pm ops lim s)[i]? = some r →
      (∀ n, r.rowNo = some n → n = s.row + i) ∧ r.throw = none := by
  induction lim generalizing s with
  | zero => intro i r h; simp [cldbRun] at h
  | succ lim ih =>
    intro i r h
    simp only [cldbRun] at h
    split at h
    · simp at h
    · have hf := step_facts hr m pm ops s hc
      cases hres : cldbStep hr m pm ops s with
      | mk s' out =>
        rw [hres] at hf h
        simp only at hf h
        cases out with
        | none =>
          simp only at hf h
          have := ih s' hf.1 i r h
          rw [hf.2] at this
          exact this
        | some r0 =>
          simp only at hf h
          cases i with
          | zero =>
            simp at h
            subst h
            exact ⟨fun n hn => by simpa using hf.2.2.1 n hn, hf.2.2.2⟩
          | succ i =>
            simp at h
            have := ih s' hf.1 i r h
            rw [hf.2.1] at this
            exact ⟨fun n hn => by have := this.1 n hn; omega, this.2⟩

-- final row ---------------------------------------------------------------------------------

/-- how one debugger step relates to the machine step. -/
theorem step_end (s : State) (hc : Clean s.toPrint) :
    match runStep hr m pm ops s.cfg with
    | .error e => ∃ r, (cldbStep hr m pm ops s).2 = some r ∧ rowEnd r = some (.error e)
    | .ok (.done x) => ∃ r, (cldbStep hr m pm ops s).2 = some r ∧ rowEnd r = some (.ok x)
    | .ok c1 => (cldbStep hr m pm ops s).1.cfg = c1 ∧ (cldbStep hr m pm ops s).1.ended = s.ended ∧
        (∀ r, (cldbStep hr m pm ops s).2 = some r → rowEnd r = none) := by
  obtain ⟨h1, h2, h3, h4, h5, h6⟩ := hc
  cases hs : runStep hr m pm ops s.cfg with
  | error e =>
    refine ⟨{ s.toPrint with failure := some e }, by simp only [cldbStep, hs], ?_⟩
    simp [rowEnd, h3]
  | ok c1 =>
    cases c1 with
    | done x =>
      refine ⟨{ s.toPrint with final := some x }, by simp only [cldbStep, hs], ?_⟩
      simp [rowEnd]
    | opResult x p =>
      by_cases hin : s.inExpr = true
      · refine ⟨?_, ?_, ?_⟩ <;> simp [cldbStep, hs, hin, rowEnd, h3, h4]
      · refine ⟨?_, ?_, ?_⟩ <;> simp [cldbStep, hs, hin]
    | step e' c p => refine ⟨?_, ?_, ?_⟩ <;> simp [cldbStep, hs]
    | op h c a rem p =>
      cases rem with
      | some v => refine ⟨?_, ?_, ?_⟩ <;> simp [cldbStep, hs]
      | none =>
        cases hpr : (if getNumber h = some 34 then isPrintRequest a else none) with
        | some outp => refine ⟨?_, ?_, ?_⟩ <;> simp [cldbStep, hs, onOpNone, hpr, rowEnd, h3, h4]
        | none => refine ⟨?_, ?_, ?_⟩ <;> simp [cldbStep, hs, onOpNone, hpr]

theorem final_matches (lim : Nat) (s : State) (hc : Clean s.toPrint) (he : s.ended = false) :
    match finalOf (cldbRun hr m pm ops lim s) with
    | some r => runLoop (runStep hr m pm ops) lim s.cfg = r
    | none => runLoop (runStep hr m pm ops) lim s.cfg = .error .timeout := by
  induction lim generalizing s with
  | zero => simp [cldbRun, finalOf, runLoop]
  | succ lim ih =>
    have hse := step_end hr m pm ops s hc
    have hcl := (step_facts hr m pm ops s hc).1
    simp only [cldbRun, he, Bool.false_eq_true, if_false]
    cases hres : cldbStep hr m pm ops s with
    | mk s' out =>
      rw [hres] at hse hcl
      simp only at hse hcl
      cases hs : runStep hr m pm ops s.cfg with
      | error e =>
        rw [hs] at hse
        obtain ⟨r, hr1, hr2⟩ := hse
        subst hr1
        simp [finalOf, hr2, runLoop, hs]
      | ok c1 =>
        rw [hs] at hse
        by_cases hd : ∃ x, c1 = .done x
        · obtain ⟨x, rfl⟩ := hd
          obtain ⟨r, hr1, hr2⟩ := hse
          subst hr1
          simp [finalOf, hr2, runLoop, hs]
        · have hnd : ∀ y, c1 ≠ .done y := fun y hy => hd ⟨y, hy⟩
          have hse' : s'.cfg = c1 ∧ s'.ended = s.ended ∧ ∀ r, out = some r → rowEnd r = none := by
            cases c1 with
            | done x => exact absurd rfl (hnd x)
            | _ => exact hse
          obtain ⟨hcfg, hend, hrow⟩ := hse'
          rw [StepLemmas.runLoop_succ_nondone _ hs hnd]
          have := ih s' hcl (by rw [hend]; exact he)
          rw [hcfg] at this
          cases out with
          | none => exact this
          | some r => simp only [finalOf, hrow r rfl]; exact this

-- rows of operators other than `a` / `i` --------------------------------------------------

/-- stepping a ready operator other than `a` (2) / `i` (3) yields its result at once. -/
theorem opNone_shape {h ctx tail : Rich} {k c' : Config}
    (hs' : opNone m ops h ctx tail k = .ok c')
    (h2 : getNumber h ≠ some 2) (h3 : getNumber h ≠ some 3) :
    ∃ x, c' = .opResult x (.op h ctx tail none k) := by
  unfold opNone at hs'
  unfold getNumber at h2 h3
  cases hav : atomValue h with
  | none => rw [hav] at hs'; cases hs'
  | some av =>
    rw [hav] at hs' h2 h3
    have n2 : av ≠ 2 := fun hc => h2 (by rw [hc])
    have n3 : av ≠ 3 := fun hc => h3 (by rw [hc])
    simp only at hs'
    cases hpl : properList tail with
    | none => rw [hpl] at hs'; cases hs'
    | some l =>
      rw [hpl] at hs'
      simp only [if_neg n3, if_neg n2] at hs'
      by_cases h4 : av = 4
      · simp only [if_pos h4] at hs'
        rcases l with _ | ⟨a, _ | ⟨b, _ | ⟨d, rest⟩⟩⟩ <;> simp at hs'
        exact ⟨_, hs'.symm⟩
      · simp only [if_neg h4] at hs'
        by_cases h5 : av = 5
        · simp only [if_pos h5] at hs'
          rcases l with _ | ⟨a, _ | ⟨d, rest⟩⟩
          · simp at hs'
          · cases a <;> simp at hs'
            exact ⟨_, hs'.symm⟩
          · simp at hs'
        · simp only [if_neg h5] at hs'
          by_cases h6 : av = 6
          · simp only [if_pos h6] at hs'
            rcases l with _ | ⟨a, _ | ⟨d, rest⟩⟩
            · simp at hs'
            · cases a <;> simp at hs'
              exact ⟨_, hs'.symm⟩
            · simp at hs'
          · simp only [if_neg h6] at hs'
            cases hap : applyOp m ops h tail with
            | error e => rw [hap] at hs'; cases hs'
            | ok r =>
              rw [hap] at hs'
              exact ⟨r, (Except.ok.inj hs').symm⟩

theorem opNone_result {h ctx tail : Rich} {k c' : Config}
    (hs : runStep hr m pm ops (.op h ctx tail none k) = .ok c')
    (h2 : getNumber h ≠ some 2) (h3 : getNumber h ≠ some 3) :
    ∃ x, c' = .opResult x (.op h ctx tail none k) ∧
         opNone m ops h ctx tail k = .ok (.opResult x (.op h ctx tail none k)) := by
  have hs' : opNone m ops h ctx tail k = .ok c' := hs
  obtain ⟨x, hx⟩ := opNone_shape m ops hs' h2 h3
  exact ⟨x, hx, by rw [← hx]; exact hs'⟩

theorem addContext_args {h : Rich} (a : Rich) (tp : Row) (h2 : getNumber h ≠ some 2) :
    addContext h a tp = { tp with arguments := some a } := by
  unfold addContext
  split
  · exact absurd rfl h2
  · rfl

/-- while a row is being assembled for an operator other than `a` / `i`, the machine sits at
    that operator with exactly the recorded arguments. -/
def Pending (s : State) : Prop :=
  s.inExpr = true → ∀ h, s.toPrint.operator = some h → getNumber h ≠ some 2 → getNumber h ≠ some 3 →
    ∃ ctx tail k, s.cfg = .op h ctx tail none k ∧ s.toPrint.arguments = some tail

theorem pending_step (s : State) (hc : Clean s.toPrint) (hp : Pending s) :
    Pending (cldbStep hr m pm ops s).1 ∧
    (∀ r, (cldbStep hr m pm ops s).2 = some r → RowTrue m ops r) := by
  obtain ⟨h1, h2, h3, h4, h5, h6⟩ := hc
  -- a pending non-a/i operator forces the next machine step to be its OpResult
  have key : ∀ c1, runStep hr m pm ops s.cfg = .ok c1 → s.inExpr = true →
      ∀ h, s.toPrint.operator = some h → getNumber h ≠ some 2 → getNumber h ≠ some 3 →
      ∃ ctx tail k x, s.cfg = .op h ctx tail none k ∧ s.toPrint.arguments = some tail ∧
        c1 = .opResult x (.op h ctx tail none k) ∧
        opNone m ops h ctx tail k = .ok (.opResult x (.op h ctx tail none k)) := by
    intro c1 hs hin h hop g2 g3
    obtain ⟨ctx, tail, k, hcfg, harg⟩ := hp hin h hop g2 g3
    rw [hcfg] at hs
    obtain ⟨x, hx1, hx2⟩ := opNone_result hr m pm ops hs g2 g3
    exact ⟨ctx, tail, k, x, hcfg, harg, hx1, hx2⟩
  cases hs : runStep hr m pm ops s.cfg with
  | error e =>
    refine ⟨?_, ?_⟩
    · intro hin h hop; simp [cldbStep, hs] at hop
    · intro r hr'
      simp only [cldbStep, hs] at hr'
      cases hr'
      intro h v _ hv; simp [h1] at hv
  | ok c1 =>
    cases c1 with
    | done x =>
      refine ⟨?_, ?_⟩
      · intro hin h hop; simp [cldbStep, hs] at hop
      · intro r hr'
        simp only [cldbStep, hs] at hr'
        cases hr'
        intro h v _ hv; simp [h1] at hv
    | opResult x p =>
      by_cases hin : s.inExpr = true
      · refine ⟨?_, ?_⟩
        · intro hin'; simp [cldbStep, hs, hin] at hin'
        · intro r hr'
          simp only [cldbStep, hs, hin, if_true] at hr'
          cases hr'
          intro h v hop hv g2 g3
          simp only at hop hv
          obtain ⟨ctx, tail, k, x', _, harg, hx1, hx2⟩ := key _ hs hin h hop g2 g3
          injection hx1 with hxx hpp
          injection hv with hv
          subst hxx hv
          exact ⟨ctx, tail, k, harg, hx2⟩
      · refine ⟨?_, ?_⟩
        · intro hin'; simp [cldbStep, hs, hin] at hin'
        · intro r hr'; simp [cldbStep, hs, hin] at hr'
    | step e' c p =>
      refine ⟨?_, ?_⟩
      · intro hin h hop g2 g3
        simp only [cldbStep, hs] at hin hop
        obtain ⟨_, _, _, _, _, _, hx1, _⟩ := key _ hs hin h hop g2 g3
        cases hx1
      · intro r hr'; simp [cldbStep, hs] at hr'
    | op h0 c a rem p =>
      cases rem with
      | some v =>
        refine ⟨?_, ?_⟩
        · intro hin h hop g2 g3
          simp only [cldbStep, hs] at hin hop
          obtain ⟨_, _, _, _, _, _, hx1, _⟩ := key _ hs hin h hop g2 g3
          cases hx1
        · intro r hr'; simp [cldbStep, hs] at hr'
      | none =>
        cases hpr : (if getNumber h0 = some 34 then isPrintRequest a else none) with
        | some outp =>
          refine ⟨?_, ?_⟩
          · intro hin h hop g2 g3
            simp only [cldbStep, hs, onOpNone, hpr] at hop
            unfold addContext at hop
            split at hop <;> simp at hop
          · intro r hr'
            simp only [cldbStep, hs, onOpNone, hpr] at hr'
            cases hr'
            intro h v _ hv; simp [h1] at hv
        | none =>
          refine ⟨?_, ?_⟩
          · intro hin h hop g2 g3
            simp only [cldbStep, hs, onOpNone, hpr] at hop ⊢
            have hh : h0 = h := by
              unfold addContext at hop
              split at hop <;> simpa using hop
            subst hh
            rw [addContext_args a _ g2]
            exact ⟨c, a, p, rfl, rfl⟩
          · intro r hr'; simp [cldbStep, hs, onOpNone, hpr] at hr'

/-- every row of an operator other than `a` / `i` that reports a value is a true account of what
    the machine computed for that operator on those arguments. -/
theorem rows_true (lim : Nat) (s : State) (hc : Clean s.toPrint) (hp : Pending s) :
    ∀ r ∈ cldbRun hr m pm ops lim s, RowTrue m ops r := by
  induction lim generalizing s with
  | zero => intro r hr'; simp [cldbRun] at hr'
  | succ lim ih =>
    intro r hr'
    simp only [cldbRun] at hr'
    split at hr'
    · simp at hr'
    · have hcl := (step_facts hr m pm ops s hc).1
      have hps := pending_step hr m pm ops s hc hp
      cases hres : cldbStep hr m pm ops s with
      | mk s' out =>
        rw [hres] at hcl hps hr'
        simp only at hcl hps hr'
        cases out with
        | none => exact ih s' hcl hps.1 r hr'
        | some r0 =>
          simp only [List.mem_cons] at hr'
          rcases hr' with rfl | hr'
          · exact hps.2 _ rfl
          · exact ih s' hcl hps.1 r hr'

theorem pending_init (p e : Rich) : Pending (init p e) := by
  intro hin; simp [init] at hin

-- what the machine computed is what the operator table says -------------------------------

theorem properList_inv {tail : Rich} {vs : List Rich} (h : properList tail = some vs) :
    tail = StepLemmas.mkArgs vs (terminator tail) ∧ Rich.nilp (terminator tail) = true := by
  induction tail generalizing vs with
  | cons a d _ ihd =>
    simp only [properList] at h
    cases hd : properList d with
    | none => rw [hd] at h; cases h
    | some l =>
      rw [hd] at h
      obtain rfl : a :: l = vs := Option.some.inj h
      obtain ⟨e1, e2⟩ := ihd hd
      exact ⟨by simp only [StepLemmas.mkArgs, List.foldr, terminator] at e1 ⊢; rw [← e1], by simpa [terminator] using e2⟩
  | nil => simp [properList, Rich.nilp] at h; subst h; exact ⟨rfl, rfl⟩
  | int i =>
    simp only [properList] at h
    split at h
    · rename_i hn; obtain rfl : [] = vs := Option.some.inj h; exact ⟨rfl, hn⟩
    · cases h
  | qstr q b =>
    simp only [properList] at h
    split at h
    · rename_i hn; obtain rfl : [] = vs := Option.some.inj h; exact ⟨rfl, hn⟩
    · cases h
  | atom b =>
    simp only [properList] at h
    split at h
    · rename_i hn; obtain rfl : [] = vs := Option.some.inj h; exact ⟨rfl, hn⟩
    · cases h

/-- in the fixed integer mode every `nilp` non-pair converts to the empty atom. -/
theorem toClvm_fixed_of_nilp {t : Rich} (hc : ∀ x y, t ≠ .cons x y) (h : Rich.nilp t = true) :
    toClvm true t = .atom [] := by
  cases t with
  | cons a d => exact absurd rfl (hc a d)
  | nil => rfl
  | int i => simp only [Rich.nilp, beq_iff_eq] at h; subst h; rfl
  | qstr q b => simp only [Rich.nilp, List.isEmpty_iff] at h; subst h; rfl
  | atom b => simp only [Rich.nilp, List.isEmpty_iff] at h; subst h; rfl

/-- fixed mode: if the machine's own application of operator `j` (not `q`, `a`, `i`) to `tail`
    gave `v`, then clvmr's `apply_op` on the converted operands gives the converted `v`. -/
theorem opNone_sound (hc : CoreOps ops) {j : Int} {ctx tail v : Rich} {k c0 : Config}
    (h : opNone true ops (.int j) ctx tail k = .ok (.opResult v c0))
    (j1 : j ≠ 1) (j2 : j ≠ 2) (j3 : j ≠ 3) :
    applyC ops 1 (bytesOfInt true j) (toClvm true tail) = .ok (toClvm true v) := by
  unfold opNone at h
  simp only [atomValue] at h
  cases hpl : properList tail with
  | none => rw [hpl] at h; cases h
  | some vs =>
    rw [hpl] at h
    simp only [if_neg j3, if_neg j2] at h
    obtain ⟨htail, hnil⟩ := properList_inv hpl
    have ht := toClvm_fixed_of_nilp (StepLemmas.terminator_not_cons tail) hnil
    rw [htail]
    generalize terminator tail = t at ht htail
    have hn2 := StepLemmas.smallNumber_ne_two (m := true) j2
    by_cases h4 : j = 4
    · subst h4
      simp only [if_true] at h
      have a1 : Ops.smallNumber [4] = some 4 := by decide
      have e : applyC ops 1 [4] (toClvm true (StepLemmas.mkArgs vs t)) = ops.apply [4] (toClvm true (StepLemmas.mkArgs vs t)) := by
        simp [applyC, a1]
      show applyC ops 1 [4] _ = _
      rw [e, (hc _).2.1, StepLemmas.chiaApply_c, StepLemmas.getArgs_mkArgs 2 vs ht]
      rcases vs with _ | ⟨a, _ | ⟨b, _ | ⟨d, rest⟩⟩⟩ <;> simp at h
      obtain ⟨rfl, _⟩ := h
      simp [StepLemmas.toClvm_cons]
    · simp only [if_neg h4] at h
      by_cases h5 : j = 5
      · subst h5
        simp only [if_true] at h
        have a1 : Ops.smallNumber [5] = some 5 := by decide
        have e : applyC ops 1 [5] (toClvm true (StepLemmas.mkArgs vs t)) = ops.apply [5] (toClvm true (StepLemmas.mkArgs vs t)) := by
          simp [applyC, a1]
        show applyC ops 1 [5] _ = _
        rw [e, (hc _).2.2.1, StepLemmas.chiaApply_f, StepLemmas.getArgs_mkArgs 1 vs ht]
        rcases vs with _ | ⟨a, _ | ⟨d, rest⟩⟩
        · simp at h
        · cases a <;> simp at h
          obtain ⟨rfl, _⟩ := h
          simp [StepLemmas.toClvm_cons]
        · simp at h
      · simp only [if_neg h5] at h
        by_cases h6 : j = 6
        · subst h6
          simp only [if_true] at h
          have a1 : Ops.smallNumber [6] = some 6 := by decide
          have e : applyC ops 1 [6] (toClvm true (StepLemmas.mkArgs vs t)) = ops.apply [6] (toClvm true (StepLemmas.mkArgs vs t)) := by
            simp [applyC, a1]
          show applyC ops 1 [6] _ = _
          rw [e, (hc _).2.2.2, StepLemmas.chiaApply_r, StepLemmas.getArgs_mkArgs 1 vs ht]
          rcases vs with _ | ⟨a, _ | ⟨d, rest⟩⟩
          · simp at h
          · cases a <;> simp at h
            obtain ⟨rfl, _⟩ := h
            simp [StepLemmas.toClvm_cons]
          · simp at h
        · simp only [if_neg h6] at h
          rw [htail] at h
          rw [StepLemmas.applyOp_eq true ops j vs ht j1 j2 0] at h
          cases hres : applyC ops (0 + 1) (bytesOfInt true j) (toClvm true (StepLemmas.mkArgs vs t)) with
          | ok w =>
            rw [hres] at h
            simp only at h
            injection h with h
            injection h with hv _
            subst hv
            rw [RichLemmas.to_from]
          | error e =>
            rw [hres] at h
            cases e <;> cases h

end

end CldbLemmas
