/-
  Proofs/ModernLemmas.lean — the modern reader machine (`parse_sexp_step`) reads the printed
  token tree back: TOKEN-STREAM level (bareword and quoted tokens inside the nested list states)
  and TREE level (generic over `TT Rich`).
-/
import ChialispModel.Text.ModernReader
import ChialispModel.Proofs.TextTree

namespace MReader

/-- states in which none of the list states' special cases for `.` / `)` can fire -/
def Compound : PState → Prop
  | .empty => False
  | .bareword _ => False
  | _ => True

theorem step_PL_compound (pp : PState) (items : List Rich) (st : Bool) (c : UInt8) (h : Compound pp) :
    step (.parsingList pp items st) c = liftPL items st (step pp c) := by
  cases pp <;> simp [Compound] at h <;> simp [step, isEmptySt, asBareword]

theorem step_TN_compound (pp : PState) (items : List Rich) (c : UInt8) (h : Compound pp) :
    step (.termList none pp items) c = liftTermNone items (step pp c) := by
  cases pp <;> simp [Compound] at h <;> simp [step, isEmptySt, asBareword]

/-- a run of `resume` steps through compound states -/
inductive CR : PState → Bytes → PState → Prop
  | nil (s : PState) : CR s [] s
  | cons {s s1 s' : PState} {c : UInt8} {T : Bytes} :
      Compound s → step s c = .resume s1 → CR s1 T s' → CR s (c :: T) s'

theorem CR.append {s s1 s2 : PState} {T1 T2 : Bytes} (h1 : CR s T1 s1) (h2 : CR s1 T2 s2) : CR s (T1 ++ T2) s2 := by
  induction h1 with
  | nil s => exact h2
  | cons hc hs _ ih => exact CR.cons hc hs (ih h2)

theorem CR.single {s s1 : PState} {c : UInt8} (hc : Compound s) (hs : step s c = .resume s1) : CR s [c] s1 :=
  CR.cons hc hs (CR.nil s1)

theorem CR.wrapPL {s s' : PState} {T : Bytes} (items : List Rich) (st : Bool) (h : CR s T s') :
    CR (.parsingList s items st) T (.parsingList s' items st) := by
  induction h with
  | nil s => exact CR.nil _
  | cons hc hs _ ih =>
    refine CR.cons trivial ?_ ih
    rw [step_PL_compound _ _ _ _ hc, hs]; rfl

theorem CR.wrapTN {s s' : PState} {T : Bytes} (items : List Rich) (h : CR s T s') :
    CR (.termList none s items) T (.termList none s' items) := by
  induction h with
  | nil s => exact CR.nil _
  | cons hc hs _ ih =>
    refine CR.cons trivial ?_ ih
    rw [step_TN_compound _ _ _ hc, hs]; rfl

theorem CR.feed_eq {s s' : PState} {T : Bytes} (h : CR s T s') (res : List Rich) (rest : Bytes) :
    MReader.feed s res (T ++ rest) = MReader.feed s' res rest := by
  induction h with
  | nil s => rfl
  | cons _ hs _ ih => simp only [List.cons_append, MReader.feed, hs, ih]

-- tokens -----------------------------------------------------------------------------------------

/-- a character that starts a bareword from the `Empty` state and is neither `.` nor `)` -/
def StartCh (c : UInt8) : Prop := stepFlat .empty c = .resume (.bareword [c]) ∧ c ≠ 46 ∧ c ≠ 41 ∧ c ≠ 40

/-- a character a bareword keeps (also inside a list) -/
def WordCh (x : UInt8) : Prop := isWhitespace x = false ∧ x ≠ 41

/-- bareword token -/
def BareTok (t : Bytes) : Prop := ∃ c t', t = c :: t' ∧ StartCh c ∧ ∀ x ∈ t', WordCh x

/-- quoted token `"…"` whose body the machine collects as `s` -/
def QuotedTok (t : Bytes) (s : Bytes) : Prop :=
  ∃ body, t = 34 :: (body ++ [34]) ∧ CR (.quoted 34 []) body (.quoted 34 s)

/-- the reader produces `v` for the token `t` -/
def LeafM (t : Bytes) (v : Rich) : Prop :=
  (BareTok t ∧ makeAtom t = v) ∨ (∃ s, QuotedTok t s ∧ v = .qstr 34 s)

theorem step_empty (c : UInt8) : step .empty c = stepFlat .empty c := by simp [step]
theorem step_bareword (w : Bytes) (c : UInt8) : step (.bareword w) c = stepFlat (.bareword w) c := by simp [step]

theorem bareword_word {w : Bytes} {x : UInt8} (h : WordCh x) : step (.bareword w) x = .resume (.bareword (w ++ [x])) := by
  simp [step, stepFlat, h.1]

theorem step_quote_close (s : Bytes) : step (.quoted 34 s) 34 = .emit (.qstr 34 s) .empty := by
  simp [step, stepFlat]

theorem step_empty_quote : step .empty 34 = .resume (.quoted 34 []) := by
  simp [step, stepFlat]

-- ready states -----------------------------------------------------------------------------------

/-- a list state that has read `items` (the last one possibly still pending as a bareword) -/
def Ready (s : PState) (items : List Rich) : Prop :=
  s = .parsingList .empty items false ∨
  ∃ w items0, s = .parsingList (.bareword w) items0 false ∧ items = items0 ++ [makeAtom w]

theorem Ready.compound {s : PState} {items : List Rich} (h : Ready s items) : Compound s := by
  rcases h with rfl | ⟨w, i0, rfl, _⟩ <;> trivial

theorem Ready.space {s : PState} {items : List Rich} (h : Ready s items) :
    step s 32 = .resume (.parsingList .empty items false) := by
  rcases h with rfl | ⟨w, i0, rfl, rfl⟩
  · simp [step, isEmptySt, asBareword, stepFlat, liftPL, isWhitespace]
  · simp [step, isEmptySt, asBareword, stepFlat, liftPL, isWhitespace]

theorem Ready.close {s : PState} {items : List Rich} (h : Ready s items) :
    step s 41 = .emit (enlist items) .empty := by
  rcases h with rfl | ⟨w, i0, rfl, rfl⟩
  · simp [step, isEmptySt, closeList]
  · simp [step, isEmptySt, asBareword, closeList]

/-- feeding word characters into a pending bareword inside a list -/
theorem CR.plWord (w : Bytes) (items : List Rich) (t : Bytes) (h : ∀ x ∈ t, WordCh x) :
    CR (.parsingList (.bareword w) items false) t (.parsingList (.bareword (w ++ t)) items false) := by
  induction t generalizing w with
  | nil => simpa using CR.nil _
  | cons x xs ih =>
    have hx := h x (by simp)
    have := ih (w ++ [x]) (fun y hy => h y (by simp [hy]))
    refine CR.cons trivial ?_ (by simpa using this)
    simp [step, isEmptySt, asBareword, hx.2, liftPL, stepFlat, hx.1]

theorem CR.tnWord (w : Bytes) (items : List Rich) (t : Bytes) (h : ∀ x ∈ t, WordCh x) :
    CR (.termList none (.bareword w) items) t (.termList none (.bareword (w ++ t)) items) := by
  induction t generalizing w with
  | nil => simpa using CR.nil _
  | cons x xs ih =>
    have hx := h x (by simp)
    have := ih (w ++ [x]) (fun y hy => h y (by simp [hy]))
    refine CR.cons trivial ?_ (by simpa using this)
    simp [step, isEmptySt, asBareword, hx.2, liftTermNone, stepFlat, hx.1]

/-- reading one leaf token as a list element -/
theorem leaf_elem {t : Bytes} {v : Rich} (h : LeafM t v) (items : List Rich) :
    ∃ s', CR (.parsingList .empty items false) t s' ∧ Ready s' (items ++ [v]) := by
  rcases h with ⟨⟨c, t', rfl, ⟨hc, h46, h41, _⟩, hw⟩, hv⟩ | ⟨s, ⟨body, rfl, hb⟩, rfl⟩
  · refine ⟨.parsingList (.bareword (c :: t')) items false, ?_, Or.inr ⟨c :: t', items, rfl, by rw [hv]⟩⟩
    refine CR.cons trivial ?_ (by simpa using CR.plWord [c] items t' hw)
    simp [step, isEmptySt, asBareword, h46, h41, liftPL, hc]
  · refine ⟨.parsingList .empty (items ++ [.qstr 34 s]) false, ?_, Or.inl rfl⟩
    refine CR.cons (s1 := .parsingList (.quoted 34 []) items false) trivial ?_ ?_
    · simp [step, isEmptySt, asBareword, liftPL, stepFlat]
    · refine CR.append (CR.wrapPL items false hb) (CR.single (s := .parsingList (.quoted 34 s) items false) trivial ?_)
      rw [step_PL_compound (.quoted 34 s) _ _ _ trivial, step_quote_close]; rfl

/-- reading a leaf token as the dotted tail -/
theorem leaf_tail {t : Bytes} {v : Rich} (h : LeafM t v) (items : List Rich) (hne : items ≠ []) :
    ∃ spre, CR (.termList none .empty items) t spre ∧ Compound spre ∧
      step spre 41 = .emit (items.foldr Rich.cons v) .empty := by
  have hcd : ∀ tail, closeDotted items tail = .emit (items.foldr Rich.cons tail) .empty := by
    intro tail; cases items with
    | nil => exact absurd rfl hne
    | cons a r => rfl
  rcases h with ⟨⟨c, t', rfl, ⟨hc, h46, h41, _⟩, hw⟩, hv⟩ | ⟨s, ⟨body, rfl, hb⟩, rfl⟩
  · refine ⟨.termList none (.bareword (c :: t')) items, ?_, trivial, ?_⟩
    · refine CR.cons trivial ?_ (by simpa using CR.tnWord [c] items t' hw)
      simp [step, isEmptySt, asBareword, h46, h41, liftTermNone, hc]
    · simp [step, isEmptySt, asBareword, hcd, hv]
  · refine ⟨.termList (some (.qstr 34 s)) .empty items, ?_, trivial, ?_⟩
    · refine CR.cons (s1 := .termList none (.quoted 34 []) items) trivial ?_ ?_
      · simp [step, isEmptySt, asBareword, liftTermNone, stepFlat]
      · refine CR.append (CR.wrapTN items hb) (CR.single (s := .termList none (.quoted 34 s) items) trivial ?_)
        rw [step_TN_compound (.quoted 34 s) _ _ trivial, step_quote_close]; rfl
    · simp [step, isEmptySt, hcd]

-- trees ------------------------------------------------------------------------------------------

/-- the value the reader builds for a printed tree -/
def val : TT Rich → Rich
  | .leaf _ v => v
  | .nil => .nil
  | .cons a d => .cons (val a) (val d)

/-- `TT.rest` without its closing paren -/
def restInit : TT Rich → Bytes
  | .nil => []
  | .cons a d => 32 :: (TT.start a ++ restInit d)
  | .leaf t _ => 32 :: 46 :: 32 :: t

theorem rest_eq (d : TT Rich) : TT.rest d = restInit d ++ [41] := by
  induction d with
  | leaf t v => simp [TT.rest, restInit]
  | nil => simp [TT.rest, restInit]
  | cons a d _ ihd => simp [TT.rest, restInit, ihd]

/-- first character of an element is neither `)` nor `.` -/
def FirstOK (T : Bytes) : Prop := ∃ c T', T = c :: T' ∧ c ≠ 41 ∧ c ≠ 46

theorem firstOK_start (t : TT Rich) (h : TT.AllLeaves LeafM t) : FirstOK (TT.start t) := by
  cases t with
  | leaf tx v =>
    rcases (h : LeafM tx v) with ⟨⟨c, t', rfl, ⟨_, h46, h41, _⟩, _⟩, _⟩ | ⟨s, ⟨body, rfl, _⟩, _⟩
    · exact ⟨c, t', rfl, h41, h46⟩
    · exact ⟨34, _, rfl, by decide, by decide⟩
  | nil => exact ⟨40, [41], rfl, by decide, by decide⟩
  | cons a d => exact ⟨40, _, rfl, by decide, by decide⟩

/-- `OpenList` behaves like an empty `ParsingList` on a first character that is not `)` or `.` -/
theorem CR.openList {T : Bytes} {s' : PState} (st : Bool) (hf : FirstOK T)
    (h : CR (.parsingList .empty [] st) T s') : CR (.openList st) T s' := by
  obtain ⟨c, T', rfl, h41, h46⟩ := hf
  cases h with
  | cons _ hs hrest =>
    refine CR.cons trivial ?_ hrest
    rw [← hs]
    simp only [step, isEmptySt, asBareword, h41, h46, beq_iff_eq, Bool.and_true, if_false,
      Bool.and_false, Option.isSome_none]
    cases stepFlat .empty c <;> simp [liftOpen, liftPL, h46]

def ElemM (a : TT Rich) : Prop :=
  ∀ items : List Rich, ∃ s', CR (.parsingList .empty items false) (TT.start a) s' ∧ Ready s' (items ++ [val a])

def RestM (d : TT Rich) : Prop :=
  ∀ (s : PState) (items : List Rich), Ready s items → items ≠ [] →
    ∃ spre, CR s (restInit d) spre ∧ Compound spre ∧ step spre 41 = .emit (items.foldr Rich.cons (val d)) .empty

/-- what the machine does on `(` body `)` started in `OpenList` -/
def ListM (a d : TT Rich) : Prop :=
  ∃ spre, CR (.openList false) (TT.start a ++ restInit d) spre ∧ Compound spre ∧
    step spre 41 = .emit (.cons (val a) (val d)) .empty

theorem list_of (a d : TT Rich) (hfa : FirstOK (TT.start a)) (ha : ElemM a) (hd : RestM d) : ListM a d := by
  obtain ⟨s1, c1, r1⟩ := ha []
  obtain ⟨spre, c2, hcomp, hclose⟩ := hd s1 [val a] (by simpa using r1) (by simp)
  exact ⟨spre, CR.append (CR.openList false hfa c1) c2, hcomp, by simpa using hclose⟩

/-- TREE level for the modern reader -/
theorem read_tree (t : TT Rich) (h : TT.AllLeaves LeafM t) : ElemM t ∧ RestM t := by
  induction t with
  | leaf tx v =>
    have hl : LeafM tx v := h
    refine ⟨fun items => leaf_elem hl items, ?_⟩
    intro s items hr hne
    obtain ⟨spre, c1, hcomp, hclose⟩ := leaf_tail hl items hne
    refine ⟨spre, ?_, hcomp, hclose⟩
    simp only [restInit]
    refine CR.cons hr.compound hr.space
      (CR.cons (s := .parsingList .empty items false) (s1 := .termList none .empty items) trivial ?_
        (CR.cons (s := .termList none .empty items) (s1 := .termList none .empty items) trivial ?_ c1))
    · simp [step, isEmptySt]
    · simp [step, isEmptySt, asBareword, liftTermNone, stepFlat, isWhitespace]
  | nil =>
    refine ⟨?_, ?_⟩
    · intro items
      refine ⟨.parsingList .empty (items ++ [.nil]) false, ?_, Or.inl rfl⟩
      simp only [TT.start]
      refine CR.cons (s1 := .parsingList (.openList false) items false) trivial ?_
        (CR.single (s := .parsingList (.openList false) items false) trivial ?_)
      · simp [step, isEmptySt, asBareword, liftPL, stepFlat]
      · simp [step, isEmptySt, asBareword, liftPL]
    · intro s items hr _
      exact ⟨s, CR.nil s, hr.compound, by simpa [val, enlist] using hr.close⟩
  | cons a d iha ihd =>
    obtain ⟨ha, hd⟩ := h
    obtain ⟨ea, _⟩ := iha ha
    obtain ⟨_, rd⟩ := ihd hd
    have hfa := firstOK_start a ha
    refine ⟨?_, ?_⟩
    · intro items
      obtain ⟨spre, crun, hcomp, hclose⟩ := list_of a d hfa ea rd
      refine ⟨.parsingList .empty (items ++ [val (.cons a d)]) false, ?_, Or.inl rfl⟩
      simp only [TT.start, rest_eq, ← List.append_assoc]
      refine CR.cons (s1 := .parsingList (.openList false) items false) trivial ?_
        (CR.append (CR.wrapPL items false crun) (CR.single (s := .parsingList spre items false) trivial ?_))
      · simp [step, isEmptySt, asBareword, liftPL, stepFlat]
      · rw [step_PL_compound _ _ _ _ hcomp, hclose]; rfl
    · intro s items hr hne
      obtain ⟨s1, c1, r1⟩ := ea items
      obtain ⟨spre, c2, hcomp, hclose⟩ := rd s1 (items ++ [val a]) r1 (by simp)
      refine ⟨spre, ?_, hcomp, by simpa [val] using hclose⟩
      simp only [restInit]
      exact CR.cons hr.compound hr.space (CR.append c1 c2)

theorem feed_word (w : Bytes) (res : List Rich) (t : Bytes) (h : ∀ x ∈ t, WordCh x) :
    feed (.bareword w) res t = .ok (.bareword (w ++ t), res) := by
  induction t generalizing w with
  | nil => simp [feed]
  | cons x xs ih =>
    have hx := h x (by simp)
    simp only [feed, bareword_word hx]
    rw [ih (w ++ [x]) (fun y hy => h y (by simp [hy]))]
    simp

/-- `parse_sexp` of a printed tree gives exactly one form, its value -/
theorem parse_tree (t : TT Rich) (h : TT.AllLeaves LeafM t) : parse (TT.start t) = .ok [val t] := by
  cases t with
  | leaf tx v =>
    rcases (h : LeafM tx v) with ⟨⟨c, t', rfl, ⟨hc, _, _, _⟩, hw⟩, hv⟩ | ⟨s, ⟨body, rfl, hb⟩, rfl⟩
    · simp only [TT.start, parse, feed, step_empty, hc]
      rw [feed_word [c] [] t' hw]
      simp [finalize, val, hv]
    · simp only [TT.start, parse, feed, step_empty_quote]
      rw [CR.feed_eq hb [] [34]]
      simp [feed, step_quote_close, finalize, val]
  | nil => simp [TT.start, parse, feed, step, stepFlat, finalize, val]
  | cons a d =>
    obtain ⟨ha, hd⟩ := h
    obtain ⟨spre, crun, _, hclose⟩ :=
      list_of a d (firstOK_start a ha) (read_tree a ha).1 (read_tree d hd).2
    have e : TT.start (.cons a d) = 40 :: ((TT.start a ++ restInit d) ++ [41]) := by
      simp [TT.start, rest_eq]
    rw [e]
    simp only [parse, feed]
    have h40 : step .empty 40 = .resume (.openList false) := by simp [step, stepFlat]
    rw [h40]
    simp only []
    rw [CR.feed_eq crun [] [41]]
    simp [feed, hclose, finalize, val]

end MReader
