/-
  Proofs/ToposortLemmas.lean — lemmas about the model `Sys/Toposort.lean` (C10), used by
  `Props/C10.lean` §1.  Lean core only.

  Outline
  * set operations (`inter`, `union`, `subset`) through membership;
  * `swapAt` / `placed`: element-wise description, length, permutation;
  * the loop invariant `Inv` and the inner-loop invariant `Pending` (the not-yet-moved ready
    indices are strictly ascending, all `≥ fin`, and the items there have their needs done);
  * `loop_spec`: with enough fuel the loop ends either in `.ok order` (a valid order that is a
    permutation of the input) or in `.deadlock` from a state `Stuck` (invariant holds, some item
    unfinished, nobody ready);
  * a stuck state has no valid order, and its unfinished items form a knot;
  * `initFrom` and `dupFrom` specifications.
-/
import ChialispModel.Sys.Toposort

namespace Topo

/-! ### sets as lists -/

theorem mem_inter {a b : List Nat} {k : Nat} : k ∈ inter a b ↔ k ∈ a ∧ k ∈ b := by
  simp [inter, List.mem_filter]

theorem mem_union {a b : List Nat} {k : Nat} : k ∈ union a b ↔ k ∈ a ∨ k ∈ b := by
  by_cases h : k ∈ a <;> simp [union, List.mem_append, List.mem_filter, h]

theorem subset_iff {a b : List Nat} : subset a b = true ↔ ∀ k, k ∈ a → k ∈ b := by
  simp [subset]

theorem inter_isEmpty {a b : List Nat} : (inter a b).isEmpty = true ↔ ∀ k, k ∈ a → k ∉ b := by
  rw [List.isEmpty_iff, List.eq_nil_iff_forall_not_mem]
  simp [mem_inter]

/-! ### `hasAt`, `needsAt` -/

theorem mem_hasAt {items : List Item} {q k : Nat} :
    k ∈ hasAt items q ↔ ∃ it, items[q]? = some it ∧ k ∈ it.has := by
  unfold hasAt; cases items[q]? <;> simp

theorem mem_needsAt {items : List Item} {q k : Nat} :
    k ∈ needsAt items q ↔ ∃ it, items[q]? = some it ∧ k ∈ it.needs := by
  unfold needsAt; cases items[q]? <;> simp

theorem hasAt_congr {a b : List Item} {p q : Nat} (h : a[p]? = b[q]?) : hasAt a p = hasAt b q := by
  unfold hasAt; rw [h]

theorem needsAt_congr {a b : List Item} {p q : Nat} (h : a[p]? = b[q]?) :
    needsAt a p = needsAt b q := by
  unfold needsAt; rw [h]

/-! ### swapping -/

theorem swap_perm_aux {α : Type} (x b : α) : ∀ (xs : List α) (j : Nat), xs[j]? = some b →
    (b :: xs.set j x).Perm (x :: xs)
  | [], j, h => by simp at h
  | y :: ys, 0, h => by
    simp at h; subst h
    simpa using List.Perm.swap x y ys
  | y :: ys, j + 1, h => by
    simp at h
    have ih := swap_perm_aux x b ys j h
    simp only [List.set_cons_succ]
    exact (List.Perm.swap y b _).trans (((ih.cons y)).trans (List.Perm.swap x y ys))

theorem swap_perm {α : Type} : ∀ (l : List α) (i j : Nat) (a b : α), l[i]? = some a → l[j]? = some b →
    ((l.set i b).set j a).Perm l
  | [], i, _, _, _, h, _ => by simp at h
  | x :: xs, 0, 0, a, b, h1, h2 => by
    simp at h1 h2; subst h1; subst h2; simp
  | x :: xs, 0, j + 1, a, b, h1, h2 => by
    simp at h1 h2; subst h1
    simp only [List.set_cons_zero, List.set_cons_succ]
    exact swap_perm_aux x b xs j h2
  | x :: xs, i + 1, 0, a, b, h1, h2 => by
    simp at h1 h2; subst h2
    simp only [List.set_cons_zero, List.set_cons_succ]
    exact swap_perm_aux x a xs i h1
  | x :: xs, i + 1, j + 1, a, b, h1, h2 => by
    simp at h1 h2
    simp only [List.set_cons_succ]
    exact (swap_perm xs i j a b h1 h2).cons x

theorem swapAt_perm (items : List Item) (i j : Nat) : (swapAt items i j).Perm items := by
  unfold swapAt
  split
  · next a b h1 h2 => exact swap_perm items i j a b h1 h2
  · exact List.Perm.refl _

theorem swapAt_getElem? (items : List Item) (i j q : Nat) (hi : i < items.length)
    (hj : j < items.length) :
    (swapAt items i j)[q]? = if q = j then items[i]? else if q = i then items[j]? else items[q]? := by
  unfold swapAt
  rw [List.getElem?_eq_getElem hi, List.getElem?_eq_getElem hj]
  simp only [List.getElem?_set, List.length_set]
  grind

theorem placed_perm (s : St) (r : Nat) : (placed s r).Perm s.items := by
  unfold placed; split
  · exact swapAt_perm _ _ _
  · exact List.Perm.refl _

theorem placed_length (s : St) (r : Nat) : (placed s r).length = s.items.length :=
  (placed_perm s r).length_eq

theorem placed_getElem? (s : St) (r q : Nat) (hr : r < s.items.length) (hf : s.fin < s.items.length) :
    (placed s r)[q]? =
      if q = s.fin then s.items[r]? else if q = r then s.items[s.fin]? else s.items[q]? := by
  unfold placed; split
  · exact swapAt_getElem? _ _ _ _ hr hf
  · next h =>
    have : r = s.fin := by simpa using h
    subst this; grind

/-! ### the invariants -/

/-- invariant of the `while` loop (`base` = the items before the loop). -/
structure Inv (base : List Item) (s : St) : Prop where
  perm : s.items.Perm base
  fin_le : s.fin ≤ s.items.length
  done_iff : ∀ k, k ∈ s.done ↔ ∃ q, q < s.fin ∧ k ∈ hasAt s.items q
  sorted : ∀ p, p < s.fin → ∀ k, k ∈ needsAt s.items p → ∃ q, q < p ∧ k ∈ hasAt s.items q

/-- invariant of the inner `for` loop about the indices still to be moved. -/
def Pending (s : St) (rs : List Nat) : Prop :=
  rs.Pairwise (· < ·) ∧
    ∀ r, r ∈ rs → s.fin ≤ r ∧ r < s.items.length ∧ ∀ k, k ∈ needsAt s.items r → k ∈ s.done

/-- everything provided is in `poss`. -/
def HasPoss (poss : List Nat) (base : List Item) : Prop :=
  ∀ it, it ∈ base → ∀ k, k ∈ it.has → k ∈ poss

theorem moveOne_step {poss : List Nat} {base : List Item} (hp : HasPoss poss base)
    {s : St} {r : Nat} {rs : List Nat} (hI : Inv base s) (hP : Pending s (r :: rs)) :
    Inv base (moveOne poss s r) ∧ Pending (moveOne poss s r) rs ∧
      (moveOne poss s r).fin = s.fin + 1 ∧ (moveOne poss s r).items.length = s.items.length := by
  obtain ⟨hpw, hmem⟩ := hP
  obtain ⟨hfr, hrl, hneeds⟩ := hmem r (List.mem_cons_self)
  have hfl : s.fin < s.items.length := by omega
  have hget := fun q => placed_getElem? s r q hrl hfl
  have hlow : ∀ q, q < s.fin → (placed s r)[q]? = s.items[q]? := by
    intro q hq; rw [hget]; rw [if_neg (by omega), if_neg (by omega)]
  have hat : (placed s r)[s.fin]? = s.items[r]? := by rw [hget]; simp
  have hdone : ∀ k, k ∈ (moveOne poss s r).done ↔ ∃ q, q < s.fin + 1 ∧ k ∈ hasAt (placed s r) q := by
    intro k
    show k ∈ inter (union s.done (hasAt (placed s r) s.fin)) poss ↔ _
    rw [mem_inter, mem_union, hI.done_iff]
    constructor
    · rintro ⟨h | h, _⟩
      · obtain ⟨q, hq, hk⟩ := h
        exact ⟨q, by omega, by rw [hasAt_congr (hlow q hq)]; exact hk⟩
      · exact ⟨s.fin, by omega, h⟩
    · rintro ⟨q, hq, hk⟩
      refine ⟨?_, ?_⟩
      · by_cases hqf : q = s.fin
        · subst hqf; exact Or.inr hk
        · have hq' : q < s.fin := by omega
          exact Or.inl ⟨q, hq', by rw [← hasAt_congr (hlow q hq')]; exact hk⟩
      · obtain ⟨it, hit, hkit⟩ := mem_hasAt.1 hk
        have : it ∈ placed s r := List.mem_iff_getElem?.2 ⟨q, hit⟩
        have : it ∈ base := hI.perm.mem_iff.1 ((placed_perm s r).mem_iff.1 this)
        exact hp it this k hkit
  refine ⟨⟨?_, ?_, hdone, ?_⟩, ⟨?_, ?_⟩, rfl, placed_length s r⟩
  · exact (placed_perm s r).trans hI.perm
  · show s.fin + 1 ≤ (placed s r).length
    rw [placed_length]; omega
  · intro p hp' k hk
    change p < s.fin + 1 at hp'
    change k ∈ needsAt (placed s r) p at hk
    show ∃ q, q < p ∧ k ∈ hasAt (placed s r) q
    by_cases hpf : p = s.fin
    · subst hpf
      rw [needsAt_congr hat] at hk
      obtain ⟨q, hq, hkq⟩ := (hI.done_iff k).1 (hneeds k hk)
      exact ⟨q, hq, by rw [hasAt_congr (hlow q hq)]; exact hkq⟩
    · have hp'' : p < s.fin := by omega
      rw [needsAt_congr (hlow p hp'')] at hk
      obtain ⟨q, hq, hkq⟩ := hI.sorted p hp'' k hk
      exact ⟨q, hq, by rw [hasAt_congr (hlow q (by omega))]; exact hkq⟩
  · exact (List.pairwise_cons.1 hpw).2
  · intro r' hr'
    have hlt : r < r' := (List.pairwise_cons.1 hpw).1 r' hr'
    obtain ⟨_, hr'l, hn'⟩ := hmem r' (List.mem_cons_of_mem _ hr')
    have hsame : (placed s r)[r']? = s.items[r']? := by
      rw [hget]; rw [if_neg (by omega), if_neg (by omega)]
    refine ⟨?_, ?_, ?_⟩
    · show s.fin + 1 ≤ r'; omega
    · show r' < (placed s r).length; rw [placed_length]; exact hr'l
    · intro k hk
      change k ∈ needsAt (placed s r) r' at hk
      rw [needsAt_congr hsame] at hk
      obtain ⟨q, hq, hkq⟩ := (hI.done_iff k).1 (hn' k hk)
      exact (hdone k).2 ⟨q, by omega, by rw [hasAt_congr (hlow q hq)]; exact hkq⟩

theorem fold_moveOne {poss : List Nat} {base : List Item} (hp : HasPoss poss base) :
    ∀ (rs : List Nat) (s : St), Inv base s → Pending s rs →
      Inv base (rs.foldl (moveOne poss) s) ∧
        (rs.foldl (moveOne poss) s).fin = s.fin + rs.length ∧
        (rs.foldl (moveOne poss) s).items.length = s.items.length
  | [], s, hI, _ => by simpa using hI
  | r :: rs, s, hI, hP => by
    obtain ⟨hI', hP', hf, hl⟩ := moveOne_step hp hI hP
    obtain ⟨h1, h2, h3⟩ := fold_moveOne hp rs _ hI' hP'
    simp only [List.foldl_cons, List.length_cons]
    exact ⟨h1, by omega, by omega⟩

/-! ### the ready list -/

theorem mem_ready {s : St} {i : Nat} :
    i ∈ ready s ↔ i < s.items.length ∧ s.fin ≤ i ∧ ∀ k, k ∈ needsAt s.items i → k ∈ s.done := by
  simp [ready, List.mem_filter, subset_iff]

theorem ready_pending (s : St) : Pending s (ready s) := by
  refine ⟨List.Pairwise.filter _ List.pairwise_lt_range, ?_⟩
  intro r hr
  obtain ⟨h1, h2, h3⟩ := mem_ready.1 hr
  exact ⟨h2, h1, h3⟩

/-! ### the loop -/

/-- the state from which `loop` answers `.deadlock`. -/
structure Stuck (base : List Item) (s : St) : Prop where
  inv : Inv base s
  unfinished : s.fin < s.items.length
  blocked : ∀ i, s.fin ≤ i → i < s.items.length → ∃ k, k ∈ needsAt s.items i ∧ k ∉ s.done

theorem loop_spec {poss : List Nat} {base : List Item} (hp : HasPoss poss base) :
    ∀ (fuel : Nat) (s : St), Inv base s → s.items.length - s.fin < fuel →
      (∃ order, loop poss fuel s = .ok order ∧ order.Perm base ∧
          ∀ p k, k ∈ needsAt order p → ∃ q, q < p ∧ k ∈ hasAt order q) ∨
      (loop poss fuel s = .deadlock ∧ ∃ s', Stuck base s')
  | 0, s, _, h => by omega
  | f + 1, s, hI, hfuel => by
    unfold loop
    by_cases hlt : s.fin < s.items.length
    · rw [if_pos hlt]
      by_cases hre : (ready s).isEmpty = true
      · rw [if_pos hre]
        refine Or.inr ⟨rfl, s, hI, hlt, ?_⟩
        intro i h1 h2
        have hnot : i ∉ ready s := by rw [List.isEmpty_iff.1 hre]; simp
        rw [mem_ready] at hnot
        apply Classical.byContradiction
        intro hcon
        apply hnot
        refine ⟨h2, h1, fun k hk => ?_⟩
        apply Classical.byContradiction
        intro hkd
        exact hcon ⟨k, hk, hkd⟩
      · rw [if_neg hre]
        obtain ⟨h1, h2, h3⟩ := fold_moveOne hp (ready s) s hI (ready_pending s)
        have hpos : 0 < (ready s).length := by
          cases hr : ready s with
          | nil => simp [hr] at hre
          | cons => simp
        exact loop_spec hp f _ h1 (by omega)
    · rw [if_neg hlt]
      refine Or.inl ⟨s.items, rfl, hI.perm, ?_⟩
      intro p k hk
      have hp' : p < s.fin := by
        obtain ⟨it, hit, _⟩ := mem_needsAt.1 hk
        have := (List.getElem?_eq_some_iff.1 hit).1
        omega
      exact hI.sorted p hp' k hk

/-! ### a stuck state: no valid order, and a knot -/

theorem Stuck.index_of_mem {base : List Item} {s : St} (hS : Stuck base s) {it : Item}
    (h : it ∈ base) : ∃ i : Nat, s.items[i]? = some it :=
  List.mem_iff_getElem?.1 (hS.inv.perm.mem_iff.2 h)

/-- an item sitting at an unfinished position has a need that no finished item provides. -/
theorem Stuck.need {base : List Item} {s : St} (hS : Stuck base s) {it : Item} {i : Nat}
    (hi : s.items[i]? = some it) (hfi : s.fin ≤ i) :
    ∃ k, k ∈ it.needs ∧ ∀ jt j, s.items[j]? = some jt → k ∈ jt.has → s.fin ≤ j := by
  have hil : i < s.items.length := (List.getElem?_eq_some_iff.1 hi).1
  obtain ⟨k, hk, hkd⟩ := hS.blocked i hfi hil
  obtain ⟨it', hit', hk'⟩ := mem_needsAt.1 hk
  rw [hi] at hit'; cases hit'
  refine ⟨k, hk', fun jt j hj hkj => ?_⟩
  apply Classical.byContradiction
  intro hlt
  exact hkd ((hS.inv.done_iff k).2 ⟨j, by omega, mem_hasAt.2 ⟨jt, hj, hkj⟩⟩)

theorem Stuck.no_valid_order {base : List Item} {s : St} (hS : Stuck base s) (order : List Item)
    (hperm : order.Perm base)
    (hv : ∀ p k, k ∈ needsAt order p → ∃ q, q < p ∧ k ∈ hasAt order q) : False := by
  have key : ∀ (p : Nat) (it : Item), order[p]? = some it →
      ∀ i : Nat, s.items[i]? = some it → i < s.fin := by
    intro p
    induction p using Nat.strongRecOn with
    | _ p ih =>
      intro it hit i hi
      apply Classical.byContradiction
      intro hnot
      obtain ⟨k, hk, hprov⟩ := hS.need hi (by omega)
      obtain ⟨q, hq, hkq⟩ := hv p k (mem_needsAt.2 ⟨it, hit, hk⟩)
      obtain ⟨jt, hjt, hkj⟩ := mem_hasAt.1 hkq
      obtain ⟨j, hj⟩ := hS.index_of_mem (hperm.mem_iff.1 (List.mem_iff_getElem?.2 ⟨q, hjt⟩))
      have := ih q hq jt hjt j hj
      have := hprov jt j hj hkj
      omega
  have hf := hS.unfinished
  have h0 : s.items[s.fin]? = some s.items[s.fin] := List.getElem?_eq_getElem hf
  have hmem : s.items[s.fin] ∈ order :=
    hperm.mem_iff.2 (hS.inv.perm.mem_iff.1 (List.mem_iff_getElem?.2 ⟨_, h0⟩))
  obtain ⟨p, hp⟩ := List.mem_iff_getElem?.1 hmem
  have := key p _ hp s.fin h0
  omega

theorem Stuck.knot {base : List Item} {s : St} (hS : Stuck base s) :
    ∃ stuck : List Item, stuck ≠ [] ∧ (∀ it, it ∈ stuck → it ∈ base) ∧
      ∀ it, it ∈ stuck → ∃ k, k ∈ it.needs ∧ ∀ jt, jt ∈ base → k ∈ jt.has → jt ∈ stuck := by
  refine ⟨s.items.drop s.fin, ?_, ?_, ?_⟩
  · intro h
    have := congrArg List.length h
    have := hS.unfinished
    simp at *; omega
  · intro it hit
    exact hS.inv.perm.mem_iff.1 (List.mem_of_mem_drop hit)
  · intro it hit
    obtain ⟨j, hj, hjeq⟩ := List.mem_drop_iff_getElem.1 hit
    obtain ⟨k, hk, hprov⟩ :=
      hS.need (i := s.fin + j) (List.getElem?_eq_some_iff.2 ⟨by omega, hjeq⟩) (by omega)
    refine ⟨k, hk, fun jt hjt hkj => ?_⟩
    obtain ⟨i, hi⟩ := hS.index_of_mem hjt
    have hfi := hprov jt i hi hkj
    obtain ⟨hil, rfl⟩ := List.getElem?_eq_some_iff.1 hi
    refine List.mem_drop_iff_getElem.2 ⟨i - s.fin, by omega, ?_⟩
    congr 1; omega

/-! ### the initial state -/

theorem initFrom_getElem? (poss : List Nat) : ∀ (l : List Raw) (n i : Nat) (r : Raw),
    l[i]? = some r → (initFrom poss n l)[i]? = some ⟨n + i, inter r.rawNeeds poss, r.has⟩
  | [], _, _, _, h => by simp at h
  | x :: xs, n, 0, r, h => by
    simp at h; subst h; simp [initFrom]
  | x :: xs, n, i + 1, r, h => by
    simp at h
    have := initFrom_getElem? poss xs (n + 1) i r h
    simp only [initFrom, List.getElem?_cons_succ, this]
    congr 2; omega

theorem initFrom_length (poss : List Nat) : ∀ (l : List Raw) (n : Nat),
    (initFrom poss n l).length = l.length
  | [], _ => rfl
  | _ :: xs, n => by simp [initFrom, initFrom_length poss xs (n + 1)]

theorem initFrom_has (poss : List Nat) : ∀ (l : List Raw) (n : Nat) (it : Item),
    it ∈ initFrom poss n l → ∃ r, r ∈ l ∧ it.has = r.has
  | [], _, _, h => by simp [initFrom] at h
  | x :: xs, n, it, h => by
    simp only [initFrom, List.mem_cons] at h
    rcases h with h | h
    · exact ⟨x, List.mem_cons_self, by rw [h]⟩
    · obtain ⟨r, hr, e⟩ := initFrom_has poss xs (n + 1) it h
      exact ⟨r, List.mem_cons_of_mem _ hr, e⟩

theorem hasPoss_init (l : List Raw) : HasPoss (possible l) (initItems l) := by
  intro it hit k hk
  obtain ⟨r, hr, e⟩ := initFrom_has _ _ _ _ hit
  rw [e] at hk
  exact List.mem_flatMap.2 ⟨r, hr, hk⟩

theorem inv_init (base : List Item) : Inv base ⟨base, [], 0⟩ := by
  refine ⟨List.Perm.refl _, Nat.zero_le _, ?_, ?_⟩
  · intro k; simp
  · intro p hp; simp at hp

theorem toposort_spec (l : List Raw) :
    (∃ order, toposort l = .ok order ∧ order.Perm (initItems l) ∧
        ∀ p k, k ∈ needsAt order p → ∃ q, q < p ∧ k ∈ hasAt order q) ∨
    (toposort l = .deadlock ∧ ∃ s', Stuck (initItems l) s') := by
  unfold toposort
  apply loop_spec (hasPoss_init l) _ _ (inv_init _)
  show (initItems l).length - 0 < l.length + 1
  rw [initItems, initFrom_length]; omega

/-! ### the duplicate check -/

theorem dupFrom_isSome : ∀ (ps : List (List Nat)) (seen : List Nat) (n : Nat),
    (dupFrom seen n ps).isSome = true ↔
      ∃ (j k : Nat), k ∈ (ps[j]?).getD [] ∧ (k ∈ seen ∨ ∃ i : Nat, i < j ∧ k ∈ (ps[i]?).getD [])
  | [], seen, n => by simp [dupFrom]
  | p :: rest, seen, n => by
    unfold dupFrom
    by_cases he : (inter p seen).isEmpty = true
    · rw [if_pos he, dupFrom_isSome rest]
      have he' := inter_isEmpty.1 he
      constructor
      · rintro ⟨j, k, hk, h⟩
        refine ⟨j + 1, k, by simpa using hk, ?_⟩
        rcases h with h | ⟨i, hi, hki⟩
        · rcases mem_union.1 h with h | h
          · exact Or.inl h
          · exact Or.inr ⟨0, by omega, by simpa using h⟩
        · exact Or.inr ⟨i + 1, by omega, by simpa using hki⟩
      · rintro ⟨j, k, hk, h⟩
        cases j with
        | zero =>
          have hkp : k ∈ p := by simpa using hk
          rcases h with h | ⟨i, hi, _⟩
          · exact absurd h (he' k hkp)
          · omega
        | succ j =>
          refine ⟨j, k, by simpa using hk, ?_⟩
          rcases h with h | ⟨i, hi, hki⟩
          · exact Or.inl (mem_union.2 (Or.inl h))
          · cases i with
            | zero => exact Or.inl (mem_union.2 (Or.inr (by simpa using hki)))
            | succ i => exact Or.inr ⟨i, by omega, by simpa using hki⟩
    · rw [if_neg he]
      simp only [Option.isSome_some, true_iff]
      have : ¬ ∀ k, k ∈ p → k ∉ seen := fun h => he (inter_isEmpty.2 h)
      apply Classical.byContradiction
      intro hno
      apply this
      intro k hkp hks
      exact hno ⟨0, k, by simpa using hkp, Or.inl hks⟩

theorem dupFrom_some : ∀ (ps : List (List Nat)) (seen : List Nat) (n j : Nat) (names : List Nat),
    dupFrom seen n ps = some (j, names) →
    ∃ m : Nat, j = n + m ∧ names ≠ [] ∧
      (∀ k, k ∈ names →
        k ∈ (ps[m]?).getD [] ∧ (k ∈ seen ∨ ∃ i : Nat, i < m ∧ k ∈ (ps[i]?).getD [])) ∧
      (∀ j' : Nat, j' < m → ∀ k, k ∈ (ps[j']?).getD [] →
          k ∉ seen ∧ ∀ i : Nat, i < j' → k ∉ (ps[i]?).getD [])
  | [], seen, n, j, names, h => by simp [dupFrom] at h
  | p :: rest, seen, n, j, names, h => by
    unfold dupFrom at h
    by_cases he : (inter p seen).isEmpty = true
    · rw [if_pos he] at h
      have he' := inter_isEmpty.1 he
      obtain ⟨m, hj, hne, hnames, hfirst⟩ := dupFrom_some rest _ _ _ _ h
      refine ⟨m + 1, by omega, hne, ?_, ?_⟩
      · intro k hk
        obtain ⟨h1, h2⟩ := hnames k hk
        refine ⟨by simpa using h1, ?_⟩
        rcases h2 with h2 | ⟨i, hi, hki⟩
        · rcases mem_union.1 h2 with h2 | h2
          · exact Or.inl h2
          · exact Or.inr ⟨0, by omega, by simpa using h2⟩
        · exact Or.inr ⟨i + 1, by omega, by simpa using hki⟩
      · intro j' hj' k hk
        cases j' with
        | zero =>
          have hkp : k ∈ p := by simpa using hk
          exact ⟨he' k hkp, fun i hi => by omega⟩
        | succ j' =>
          obtain ⟨h1, h2⟩ := hfirst j' (by omega) k (by simpa using hk)
          refine ⟨fun hs => h1 (mem_union.2 (Or.inl hs)), ?_⟩
          intro i hi
          cases i with
          | zero => intro hkp; exact h1 (mem_union.2 (Or.inr (by simpa using hkp)))
          | succ i => have := h2 i (by omega); simpa using this
    · rw [if_neg he] at h
      simp only [Option.some.injEq, Prod.mk.injEq] at h
      obtain ⟨rfl, rfl⟩ := h
      refine ⟨0, rfl, ?_, ?_, ?_⟩
      · intro h0; exact he (by simp [h0])
      · intro k hk
        obtain ⟨h1, h2⟩ := mem_inter.1 hk
        exact ⟨by simpa using h1, Or.inl h2⟩
      · intro j' hj'; omega

end Topo
