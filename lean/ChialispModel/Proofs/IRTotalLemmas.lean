/-
  Proofs/IRTotalLemmas.lean — totality of the classic IR reader model (`Text/IR.lean`):
  the fuel of `consumeConsBody` (one unit per loop iteration / nested call) is never the
  reason for an answer when it exceeds the length of the text, because every iteration
  consumes at least one byte.  Used by Props/C14.lean.
-/
import ChialispModel.Text.IR

namespace IR

theorem consumeWs_length (b : Bool) (s : Bytes) : (consumeWs b s).length ≤ s.length := by
  induction s generalizing b with
  | nil => cases b <;> simp [consumeWs]
  | cons c r ih =>
    cases b with
    | true =>
      simp only [consumeWs]
      split
      · exact Nat.le_succ_of_le (ih false)
      · exact Nat.le_succ_of_le (ih true)
    | false =>
      simp only [consumeWs]
      split
      · exact Nat.le_succ_of_le (ih true)
      · split
        · exact Nat.le_succ_of_le (ih false)
        · exact Nat.le_refl _

theorem consumeQuoted_ne_fuel (q : UInt8) (bs : Bool) (acc s : Bytes) :
    consumeQuoted q bs acc s ≠ .error .fuel := by
  induction s generalizing bs acc with
  | nil => cases bs <;> simp [consumeQuoted]
  | cons c r ih =>
    cases bs with
    | true => simp only [consumeQuoted]; exact ih _ _
    | false =>
      simp only [consumeQuoted]
      split
      · exact ih _ _
      · split
        · intro h; cases h
        · exact ih _ _

theorem consumeQuoted_length (q : UInt8) (bs : Bool) (acc s : Bytes) (v : IR) (r' : Bytes)
    (h : consumeQuoted q bs acc s = .ok (v, r')) : r'.length < s.length := by
  induction s generalizing bs acc with
  | nil => cases bs <;> simp [consumeQuoted] at h
  | cons c r ih =>
    cases bs with
    | true =>
      simp only [consumeQuoted] at h
      exact Nat.lt_succ_of_lt (ih _ _ h)
    | false =>
      simp only [consumeQuoted] at h
      split at h
      · exact Nat.lt_succ_of_lt (ih _ _ h)
      · split at h
        · injection h with h; injection h with _ h; subst h; exact Nat.lt_succ_self _
        · exact Nat.lt_succ_of_lt (ih _ _ h)

theorem interpretAtomValue_ne_fuel (chars : Bytes) : interpretAtomValue chars ≠ .error .fuel := by
  unfold interpretAtomValue
  split
  · intro h; cases h
  · split
    · split <;> (intro h; cases h)
    · split <;> (intro h; cases h)

theorem atomResult_ne_fuel (acc rest : Bytes) : atomResult acc rest ≠ .error .fuel := by
  unfold atomResult
  split
  · intro h; cases h
  · rename_i e he
    intro h; injection h with h; subst h
    exact interpretAtomValue_ne_fuel _ he

theorem atomResult_rest (acc rest : Bytes) (x : Option IR) (r' : Bytes)
    (h : atomResult acc rest = .ok (x, r')) : r' = rest := by
  unfold atomResult at h
  split at h
  · injection h with h; injection h with _ h; exact h.symm
  · cases h

theorem consumeAtom_ne_fuel (acc s : Bytes) : consumeAtom acc s ≠ .error .fuel := by
  induction s generalizing acc with
  | nil =>
    simp only [consumeAtom]
    split
    · intro h; cases h
    · exact atomResult_ne_fuel _ _
  | cons c r ih =>
    simp only [consumeAtom]
    split
    · exact atomResult_ne_fuel _ _
    · exact ih _

theorem consumeAtom_length (acc s : Bytes) (x : Option IR) (r' : Bytes)
    (h : consumeAtom acc s = .ok (x, r')) : r'.length ≤ s.length := by
  induction s generalizing acc with
  | nil =>
    simp only [consumeAtom] at h
    split at h
    · injection h with h; injection h with _ h; subst h; exact Nat.le_refl _
    · rw [atomResult_rest _ _ _ _ h]; exact Nat.le_refl _
  | cons c r ih =>
    simp only [consumeAtom] at h
    split at h
    · rw [atomResult_rest _ _ _ _ h]; exact Nat.le_refl _
    · exact Nat.le_succ_of_le (ih _ h)

/-- what the induction carries: with more fuel than bytes, no fuel error, and a successful
    list body leaves strictly less input. -/
def BodyOK (fuel : Nat) : Prop :=
  ∀ (s : Bytes) (items : List IR), s.length < fuel →
    consumeConsBody fuel s items ≠ .error .fuel ∧
    ∀ v r', consumeConsBody fuel s items = .ok (v, r') → r'.length < s.length

theorem expectCloseParen_ne_fuel (items : List IR) (v : IR) (s : Bytes) :
    expectCloseParen items v s ≠ .error .fuel := by
  unfold expectCloseParen
  split <;> (intro h; cases h)

theorem expectCloseParen_length (items : List IR) (v : IR) (s : Bytes) (w : IR) (r' : Bytes)
    (h : expectCloseParen items v s = .ok (w, r')) : r'.length < s.length := by
  unfold expectCloseParen at h
  split at h
  · injection h with h; injection h with _ h; subst h; exact Nat.lt_succ_self _
  · cases h

/-- `consume_object` over a list-body reader that is fine on inputs shorter than `n`. -/
theorem consumeObjectWith_ok (fuel : Nat) (hb : BodyOK fuel) (s : Bytes) (hs : s.length ≤ fuel) :
    consumeObjectWith (consumeConsBody fuel) s ≠ .error .fuel ∧
    ∀ v r', consumeObjectWith (consumeConsBody fuel) s = .ok (v, r') → r'.length ≤ s.length := by
  unfold consumeObjectWith
  have hw := consumeWs_length false s
  split
  · refine ⟨(fun h => by cases h), fun v r' h => ?_⟩
    injection h with h; injection h with _ h; subst h; exact Nat.zero_le _
  · rename_i c r hc
    rw [hc] at hw
    have hr : r.length < s.length := Nat.lt_of_succ_le hw
    split
    · have := hb r [] (Nat.lt_of_lt_of_le hr hs)
      exact ⟨this.1, fun v r' h => Nat.le_of_lt (Nat.lt_trans (this.2 v r' h) hr)⟩
    · split
      · exact ⟨consumeQuoted_ne_fuel _ _ _ _,
          fun v r' h => Nat.le_of_lt (Nat.lt_trans (consumeQuoted_length _ _ _ _ _ _ h) hr)⟩
      · split
        · rename_i ir r1 h1
          refine ⟨(fun h => by cases h), fun v r' h => ?_⟩
          injection h with h; injection h with _ h; subst h
          exact Nat.le_trans (consumeAtom_length _ _ _ _ h1) (Nat.le_of_lt hr)
        · exact ⟨(fun h => by cases h), fun v r' h => by cases h⟩
        · rename_i e h1
          refine ⟨fun h => ?_, fun v r' h => by cases h⟩
          injection h with h; subst h; exact consumeAtom_ne_fuel _ _ h1

theorem bodyOK (fuel : Nat) : BodyOK fuel := by
  induction fuel with
  | zero => intro s items h; exact absurd h (Nat.not_lt_zero _)
  | succ fuel ih =>
    intro s items hs
    have hsf : s.length ≤ fuel := Nat.le_of_lt_succ hs
    have hw := consumeWs_length false s
    simp only [consumeConsBody]
    split
    · exact ⟨(fun h => by cases h), fun v r' h => by cases h⟩
    · rename_i c r hc
      rw [hc] at hw
      have hr : r.length < s.length := Nat.lt_of_succ_le hw
      have hrf : r.length < fuel := Nat.lt_of_lt_of_le hr hsf
      split
      · -- `)`
        refine ⟨(fun h => by cases h), fun v r' h => ?_⟩
        injection h with h; injection h with _ h; subst h; exact hr
      · split
        · -- `(`: nested list, then the rest of this one
          have h1 := ih r [] hrf
          split
          · rename_i v r1 hv
            have hr1 : r1.length < r.length := h1.2 v r1 hv
            have h2 := ih r1 (items ++ [v]) (Nat.lt_trans hr1 hrf)
            exact ⟨h2.1, fun w r' h => Nat.lt_trans (h2.2 w r' h) (Nat.lt_trans hr1 hr)⟩
          · rename_i e he
            refine ⟨fun h => ?_, fun v r' h => by cases h⟩
            injection h with h; subst h; exact h1.1 he
        · split
          · -- `.`: one object, then `)`
            have hw2 := consumeWs_length false r
            have h1 := consumeObjectWith_ok fuel ih (consumeWs false r)
              (Nat.le_trans hw2 (Nat.le_of_lt hrf))
            split
            · rename_i v r1 hv
              have hr1 : r1.length ≤ (consumeWs false r).length := h1.2 v r1 hv
              refine ⟨expectCloseParen_ne_fuel _ _ _, fun w r' h => ?_⟩
              have := expectCloseParen_length _ _ _ _ _ h
              have hw3 := consumeWs_length false r1
              omega
            · rename_i e he
              refine ⟨fun h => ?_, fun v r' h => by cases h⟩
              injection h with h; subst h; exact h1.1 he
          · split
            · -- quoted string
              split
              · rename_i v r1 hv
                have hr1 : r1.length < r.length := consumeQuoted_length _ _ _ _ _ _ hv
                have h2 := ih r1 (items ++ [v]) (Nat.lt_trans hr1 hrf)
                exact ⟨h2.1, fun w r' h => Nat.lt_trans (h2.2 w r' h) (Nat.lt_trans hr1 hr)⟩
              · rename_i e he
                refine ⟨fun h => ?_, fun v r' h => by cases h⟩
                injection h with h; subst h; exact consumeQuoted_ne_fuel _ _ _ _ he
            · -- atom
              split
              · rename_i v r1 hv
                have hr1 : r1.length ≤ r.length := consumeAtom_length _ _ _ _ hv
                have h2 := ih r1 (items ++ [v]) (Nat.lt_of_le_of_lt hr1 hrf)
                refine ⟨h2.1, fun w r' h => ?_⟩
                have := h2.2 w r' h
                omega
              · exact ⟨(fun h => by cases h), fun v r' h => by cases h⟩
              · rename_i e he
                refine ⟨fun h => ?_, fun v r' h => by cases h⟩
                injection h with h; subst h; exact consumeAtom_ne_fuel _ _ he

/-- the IR reader never answers "out of fuel". -/
theorem readIR_ne_fuel (text : Bytes) : readIR text ≠ .error .fuel := by
  unfold readIR consumeObject
  have h := consumeObjectWith_ok (text.length + 1) (bodyOK _) text (Nat.le_succ _)
  split
  · intro h'; cases h'
  · rename_i e he
    intro h'; injection h' with h'; subst h'
    exact h.1 he

/-- any larger fuel gives the same reading (the budget `|text| + 1` is not a restriction). -/
theorem assemble_ne_fuel (text : Bytes) : assemble text ≠ .error .fuel := by
  unfold assemble
  split
  · intro h; cases h
  · rename_i e he
    intro h; injection h with h; subst h
    exact readIR_ne_fuel _ he

end IR
