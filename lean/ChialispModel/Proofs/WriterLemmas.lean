/-
  Proofs/WriterLemmas.lean — (1) the explicit stack machine of `ir/writer.rs`
  (`IROutputIterator`) produces exactly the recursive `writeStart`; (2) the defect class of C09 is
  exact at the atom level: EVERY atom printed as a quoted string that contains a backslash
  fails to re-assemble to itself.
-/
import ChialispModel.Text.IR
import ChialispModel.Proofs.IRLemmas

namespace IR

-- (1) machine = recursion -----------------------------------------------------------------------------

mutual
/-- exact number of machine steps spent on `Start(v)` -/
def stepsStart : IR → Nat
  | .cons l r => 2 + stepsStart l + stepsSep r
  | _ => 1
/-- exact number of machine steps spent on `MaybeSep(v)` up to and including its `EndParen` -/
def stepsSep : IR → Nat
  | .null => 2
  | .cons l r => 2 + stepsStart l + stepsSep r
  | _ => 5
end

theorem writeMachine_nil (fr : Bool) (k : Nat) (out : Bytes) : writeMachineWith fr k [] out = out := by
  cases k <;> simp [writeMachineWith]

theorem machine_run (fr : Bool) (ir : IR) :
    (∀ k st out, writeMachineWith fr (k + stepsStart ir) (.start ir :: st) out
        = writeMachineWith fr k st (out ++ writeStartWith fr ir)) ∧
    (∀ k st out, writeMachineWith fr (k + stepsSep ir) (.maybeSep ir :: st) out
        = writeMachineWith fr k st (out ++ writeRestWith fr ir)) := by
  induction ir with
  | cons l r ihl ihr =>
    constructor
    · intro k st out
      rw [show k + stepsStart (.cons l r) = ((k + stepsSep r) + stepsStart l + 1) + 1 by simp [stepsStart]; omega]
      simp only [writeMachineWith]
      rw [ihl.1, ihr.2]; simp [writeStartWith]
    · intro k st out
      rw [show k + stepsSep (.cons l r) = ((k + stepsSep r) + stepsStart l + 1) + 1 by simp [stepsSep]; omega]
      simp only [writeMachineWith]
      rw [ihl.1, ihr.2]; simp [writeRestWith]
  | null =>
    constructor
    · intro k st out; simp [stepsStart, writeMachineWith, writeStartWith]
    · intro k st out
      rw [show k + stepsSep .null = (k + 1) + 1 by simp [stepsSep]]
      simp [writeMachineWith, writeRestWith]
  | quotes q =>
    constructor
    · intro k st out; simp [stepsStart, writeMachineWith, writeStartWith]
    · intro k st out
      rw [show k + stepsSep (.quotes q) = ((((k + 1) + 1) + 1) + 1) + 1 by simp [stepsSep]]
      simp [writeMachineWith, writeRestWith]
  | int i s =>
    constructor
    · intro k st out; simp [stepsStart, writeMachineWith, writeStartWith]
    · intro k st out
      rw [show k + stepsSep (.int i s) = ((((k + 1) + 1) + 1) + 1) + 1 by simp [stepsSep]]
      simp [writeMachineWith, writeRestWith]
  | hex h =>
    constructor
    · intro k st out; simp [stepsStart, writeMachineWith, writeStartWith]
    · intro k st out
      rw [show k + stepsSep (.hex h) = ((((k + 1) + 1) + 1) + 1) + 1 by simp [stepsSep]]
      simp [writeMachineWith, writeRestWith]
  | symbol s =>
    constructor
    · intro k st out; simp [stepsStart, writeMachineWith, writeStartWith]
    · intro k st out
      rw [show k + stepsSep (.symbol s) = ((((k + 1) + 1) + 1) + 1) + 1 by simp [stepsSep]]
      simp [writeMachineWith, writeRestWith]

theorem steps_le_fuel (ir : IR) : stepsStart ir ≤ machineFuel ir ∧ stepsSep ir ≤ machineFuel ir := by
  induction ir with
  | cons l r ihl ihr => simp only [stepsStart, stepsSep, machineFuel]; omega
  | _ => simp [stepsStart, stepsSep, machineFuel]

/-- the stack machine `IROutputIterator` writes exactly `writeIR ir` (given enough steps) -/
theorem writeMachineWith_eq (fr : Bool) (ir : IR) (fuel : Nat) (h : machineFuel ir ≤ fuel) :
    writeMachineWith fr fuel [.start ir] [] = writeIRWith fr ir := by
  have hs := (steps_le_fuel ir).1
  obtain ⟨k, rfl⟩ : ∃ k, fuel = k + stepsStart ir := ⟨fuel - stepsStart ir, by omega⟩
  rw [(machine_run fr ir).1, writeMachine_nil]
  simp [writeIRWith]

theorem writeMachine_eq (ir : IR) (fuel : Nat) (h : machineFuel ir ≤ fuel) :
    writeMachine fuel [.start ir] [] = writeIR ir :=
  writeMachineWith_eq codeFullRepr ir fuel h

-- (2) the defect class is exact at the atom level -----------------------------------------------------

theorem consumeQuoted_len (q : UInt8) (s : Bytes) : ∀ (bs : Bool) (acc : Bytes) (ir : IR) (r : Bytes),
    consumeQuoted q bs acc s = .ok (ir, r) →
    ∃ out, ir = .quotes out ∧ out.length + r.length + 1 ≤ acc.length + s.length := by
  induction s with
  | nil => intro bs acc ir r h; cases bs <;> simp [consumeQuoted] at h
  | cons c s' ih =>
    intro bs acc ir r h
    cases bs with
    | true =>
      simp only [consumeQuoted] at h
      obtain ⟨out, e, hl⟩ := ih false (acc ++ [c]) ir r h
      exact ⟨out, e, by simp at hl ⊢; omega⟩
    | false =>
      simp only [consumeQuoted] at h
      split at h
      · obtain ⟨out, e, hl⟩ := ih true acc ir r h
        exact ⟨out, e, by simp at hl ⊢; omega⟩
      · split at h
        · cases h
          exact ⟨acc, rfl, by simp only [List.length_cons]; omega⟩
        · obtain ⟨out, e, hl⟩ := ih false (acc ++ [c]) ir r h
          exact ⟨out, e, by simp at hl ⊢; omega⟩

theorem consumeQuoted_prefix (q : UInt8) (p acc t : Bytes) (h : ∀ c ∈ p, c ≠ 92 ∧ c ≠ q) :
    consumeQuoted q false acc (p ++ 92 :: t) = consumeQuoted q true (acc ++ p) t := by
  induction p generalizing acc with
  | nil => simp [consumeQuoted]
  | cons x xs ih =>
    obtain ⟨h1, h2⟩ := h x (by simp)
    simp only [List.cons_append, consumeQuoted, h1, h2, beq_iff_eq, if_false]
    rw [ih (acc ++ [x]) (fun c hc => h c (by simp [hc]))]
    simp

theorem split_first (b : Bytes) (h : (92 : UInt8) ∈ b) : ∃ p t, b = p ++ 92 :: t ∧ (92 : UInt8) ∉ p := by
  induction b with
  | nil => simp at h
  | cons x xs ih =>
    by_cases hx : x = 92
    · exact ⟨[], xs, by simp [hx], by simp⟩
    · have : (92 : UInt8) ∈ xs := by
        simp only [List.mem_cons] at h
        rcases h with h | h
        · exact absurd h.symm hx
        · exact h
      obtain ⟨p, t, e, hp⟩ := ih this
      refine ⟨x :: p, t, by simp [e], ?_⟩
      simp only [List.mem_cons, not_or]
      exact ⟨fun e => hx e.symm, hp⟩

theorem printable_reprByte {c : UInt8} (h : isPrintableByte c = true) : reprByte 34 false c = [c] := by
  simp only [isPrintableByte, Bool.and_eq_true, decide_eq_true_eq, bne_iff_ne, ne_eq] at h
  obtain ⟨⟨h3, h4⟩, h1⟩ := h
  have n9 : c ≠ 9 := by intro e; subst e; simp at h3
  have n10 : c ≠ 10 := by intro e; subst e; simp at h3
  have n13 : c ≠ 13 := by intro e; subst e; simp at h3
  simp only [reprByte, h1, n9, n10, n13, beq_iff_eq, Bool.and_false, Bool.or_false, if_false]
  rw [if_neg (by simp; omega)]

theorem toFormalString_printable (b : Bytes) (h : isPrintableString b = true) :
    toFormalStringWith false b = 34 :: (b ++ [34]) := by
  have hq : reprQuote b true = 34 := by simp [reprQuote]
  have hf : b.flatMap (reprByte 34 false) = b := by
    clear hq
    induction b with
    | nil => rfl
    | cons x xs ih =>
      simp only [isPrintableString, List.all_cons, Bool.and_eq_true] at h
      simp only [List.flatMap_cons, printable_reprByte h.1]
      rw [ih (by simpa [isPrintableString] using h.2)]; rfl
  simp [toFormalStringWith, pybytesRepr, hq, hf]

/-- every atom of the defect class fails the classic round trip (in every operator-set version)
    when the writer does not escape backslashes -/
theorem backslash_atom_fails (ver : Nat) (b : Bytes) (h : backslashQuoted b = true) :
    assemble (disassembleWith false ver (.atom b)) ≠ .ok (.atom b) := by
  simp only [backslashQuoted, Bool.and_eq_true, decide_eq_true_eq] at h
  obtain ⟨⟨hlen, hp⟩, h92⟩ := h
  have h92' : (92 : UInt8) ∈ b := by simpa using h92
  have hir : disToIR ver (.atom b) (Val.isPair (.atom b)) = .quotes b := by
    have h0 : (b.length == 0) = false := by rw [beq_eq_false_iff_ne]; omega
    simp [disToIR, irForAtom, h0, hlen, hp]
  obtain ⟨p, t, e, hpn⟩ := split_first b h92'
  have hpl : ∀ c ∈ p, c ≠ 92 ∧ c ≠ 34 := by
    intro c hc
    refine ⟨fun e' => hpn (e' ▸ hc), ?_⟩
    have : isPrintableByte c = true := by
      simp only [isPrintableString, List.all_eq_true] at hp
      exact hp c (by rw [e]; simp [hc])
    simp only [isPrintableByte, Bool.and_eq_true, bne_iff_ne] at this
    exact this.2
  intro hok
  simp only [assemble, disassembleWith, writeIRWith, hir, writeStartWith, writeAtomWith, toFormalString_printable b hp, readIR,
    consumeObject, consumeObjectWith] at hok
  rw [consumeWs_nonspace (by decide) (by decide)] at hok
  simp only [show ((34 : UInt8) == 40) = false by decide, show isQuoteChar 34 = true by decide, if_true,
    Bool.false_eq_true, if_false] at hok
  have e2 : b ++ [34] = p ++ 92 :: (t ++ [34]) := by rw [e]; simp
  rw [e2, consumeQuoted_prefix 34 p [] (t ++ [34]) hpl] at hok
  cases hq : consumeQuoted 34 true ([] ++ p) (t ++ [34]) with
  | error err => rw [hq] at hok; simp at hok
  | ok res =>
    obtain ⟨ir, r⟩ := res
    rw [hq] at hok
    obtain ⟨out, e3, hl⟩ := consumeQuoted_len 34 (t ++ [34]) true ([] ++ p) ir r hq
    subst e3
    simp only [assembleFromIR, Except.ok.injEq, Val.atom.injEq] at hok
    subst hok
    rw [e] at hl
    simp at hl
    omega

end IR
