/-
  Proofs/StepRevLemmas.lean — the converse direction for Props/C06.lean: if the unflagged run
  of the step machine ends, the consensus evaluator terminates (with enough fuel it returns a
  value or a failure).  With the forward simulation and determinism of the machine this gives
  soundness of the stepper.
-/
import ChialispModel.Proofs.StepLemmas

namespace StepLemmas
open Step Rich Clvm

theorem walk_ne_fuel (bits : List Bool) (v : Val) : Path.walk bits v ≠ .error .fuel := by
  induction bits generalizing v with
  | nil => simp [Path.walk]
  | cons b r ih =>
    cases v with
    | atom a => simp [Path.walk, failR]
    | pair a d => simpa [Path.walk] using ih _

theorem lookup_ne_fuel (b : Bytes) (env : Val) : Path.lookup b env ≠ .error .fuel := by
  unfold Path.lookup Path.lookupNat
  split
  · simp
  · exact walk_ne_fuel _ _

theorem evalArgsC_bad_terminator_fails (ops : OpSem) (args env : Val)
    (h : Val.nilp (Val.terminator args) = false) : ∃ f tg, evalArgsC ops f args env = .error (.fail tg) := by
  induction args with
  | atom b =>
    simp only [Val.terminator, Val.nilp] at h
    exact ⟨1, "bad nil terminator", by simp [evalArgsC, h, failR]⟩
  | pair a d _ ihd =>
    obtain ⟨f, tg, hf⟩ := ihd (by simpa [Val.terminator] using h)
    exact ⟨f + 1, tg, by simp [evalArgsC, hf]⟩

section Rev
variable (hr : Rich → Rich → Except RunErr Rich) (m : Mode) (pm : PrimMap) (ops : OpSem)

theorem rev_args (hc : CoreOps ops) (n : Nat)
    (IH : ∀ n', n' < n → ∀ p e k, HaltsIn hr m pm ops n' (.step p e k) →
        ∃ f, evalC ops f (toClvm m p) (toClvm m e) ≠ .error .fuel)
    (h ctx t : Rich) (k : Config) (ht : toClvm m t = .atom []) :
    ∀ (l pre : List Rich) (n' : Nat), n' < n →
      HaltsIn hr m pm ops n' (.op h ctx t (some (l.reverse ++ pre)) k) →
      (∃ f tg, evalArgsC ops f (toClvm m (mkArgs l t)) (toClvm m ctx) = .error (.fail tg)) ∨
      (∃ f vs, evalArgsC ops f (toClvm m (mkArgs l t)) (toClvm m ctx) = .ok (toClvm m (mkArgs vs t)) ∧
        HaltsIn hr m pm ops n' (.op h ctx (mkArgs vs t) (some pre) k)) := by
  intro l
  induction l with
  | nil =>
    intro pre n' hn H
    exact .inr ⟨1, [], by simp [mkArgs, ht, evalArgsC, Val.nil], by simpa [mkArgs] using H⟩
  | cons a l ihl =>
    intro pre n' hn H
    have hstack : (a :: l).reverse ++ pre = l.reverse ++ (a :: pre) := by simp
    rw [hstack] at H
    have hcons : toClvm m (mkArgs (a :: l) t) = .pair (toClvm m a) (toClvm m (mkArgs l t)) := rfl
    rw [hcons]
    rcases ihl (a :: pre) n' hn H with ⟨f, tg, hf⟩ | ⟨f, vs, hf, H2⟩
    · exact .inl ⟨f + 1, tg, by simp [evalArgsC, hf]⟩
    · have hstep : runStep hr m pm ops (.op h ctx (mkArgs vs t) (some (a :: pre)) k) =
          .ok (.step a ctx (.op h ctx (mkArgs vs t) (some pre) k)) := rfl
      obtain ⟨hn1, H3⟩ := H2.step hr m pm ops (by intro v hv; cases hv) hstep
      obtain ⟨fa, hfa⟩ := IH (n' - 1) (by omega) a ctx _ H3
      have hsim := (sim hr m pm ops hc fa).1 a ctx (.op h ctx (mkArgs vs t) (some pre) k)
      rcases hsim with hflag | hres
      · exact absurd hflag (H3.not_flag hr m pm ops)
      · cases hev : evalC ops fa (toClvm m a) (toClvm m ctx) with
        | ok w =>
          rw [hev] at hres
          obtain ⟨v, hv, hsteps⟩ := hres
          right
          refine ⟨max f fa + 1, v :: vs, ?_, ?_⟩
          · have e1 := EvalLemmas.evalArgsC_mono ops (Nat.le_max_left f fa) hf (by simp)
            have e2 := EvalLemmas.evalC_mono ops (Nat.le_max_right f fa) hev (by simp)
            have hc2 : toClvm m (mkArgs (v :: vs) t) = .pair (toClvm m v) (toClvm m (mkArgs vs t)) := rfl
            simp [evalArgsC, e1, e2, hc2, hv]
          · exact ((H3.steps hr m pm ops hsteps).mono hr m pm ops (by omega))
        | error ce =>
          cases ce with
          | fuel => exact absurd hev hfa
          | fail tg =>
            left
            refine ⟨max f fa + 1, tg, ?_⟩
            have e1 := EvalLemmas.evalArgsC_mono ops (Nat.le_max_left f fa) hf (by simp)
            have e2 := EvalLemmas.evalC_mono ops (Nat.le_max_right f fa) hev (by simp)
            simp [evalArgsC, e1, e2]

/-- if the unflagged run from `Step(p, e, k)` ends, the consensus evaluator terminates on `p`, `e`. -/
theorem rev (hc : CoreOps ops) (hnf : NoFuelOps ops) :
    ∀ (n : Nat) (p e : Rich) (k : Config), HaltsIn hr m pm ops n (.step p e k) →
      ∃ f, evalC ops f (toClvm m p) (toClvm m e) ≠ .error .fuel := by
  intro n
  induction n using Nat.strongRecOn with
  | _ n IH =>
    intro p e k H
    cases p with
    | nil => exact ⟨1, by simpa [toClvm, evalC] using lookup_ne_fuel _ _⟩
    | int v => exact ⟨1, by rw [toClvm_int]; simpa [evalC] using lookup_ne_fuel _ _⟩
    | atom b => exact ⟨1, by simpa [toClvm, evalC] using lookup_ne_fuel _ _⟩
    | qstr q b => exact ⟨1, by simpa [toClvm, evalC] using lookup_ne_fuel _ _⟩
    | cons a b =>
      have hfl := H.unflagged hr m pm ops
      have hh : headFlags m pm a = [] := by
        by_cases hh : headFlags m pm a = []
        · exact hh
        · simp [stepFlags, hh] at hfl
      obtain ⟨j, hth, hta, hca⟩ := head_unflagged hr m pm a e hh
      rw [toClvm_cons, hca]
      by_cases hj : j = 1
      · subst hj
        exact ⟨1, by simp [evalC, smallNumber_one m]⟩
      · have hq := smallNumber_ne_one (m := m) hj
        have htf : truthFlags m (terminator b) = [] := by
          simpa [stepFlags, hh, hta, atomValue, hj] using hfl
        have htr := truthy_of_unflagged m htf
        by_cases htt : truthy m (terminator b) = true
        · have hnil : Val.nilp (Val.terminator (toClvm m b)) = false := by
            rw [terminator_toClvm]; rw [htt] at htr; simpa using htr
          obtain ⟨f, tg, hf⟩ := evalArgsC_bad_terminator_fails ops (toClvm m b) (toClvm m e) hnil
          exact ⟨f + 1, by simp [evalC, hq, hf]⟩
        · have htf' : truthy m (terminator b) = false := by simpa using htt
          have ht : toClvm m (terminator b) = .atom [] := by
            apply toClvm_of_nilp (terminator_not_cons b)
            rw [htf'] at htr; simpa using htr
          have hst : runStep hr m pm ops (.step (.cons a b) e k) =
              .ok (.op (.int j) e (terminator b) (some ((spine b).reverse ++ [])) k) := by
            simp [runStep, stepCons, hth, atomValue, hj, evalArgs, evalArgsGo_eq, htf']
          obtain ⟨hn1, H1⟩ := H.step hr m pm ops (by intro v hv; cases hv) hst
          have hA := rev_args hr m pm ops hc n (fun n' hn' => IH n' hn') (.int j) e (terminator b) k ht
            (spine b) [] (n - 1) (by omega) H1
          rw [mkArgs_spine] at hA
          rcases hA with ⟨f, tg, hf⟩ | ⟨f, vs, hf, H2⟩
          · exact ⟨f + 1, by simp [evalC, hq, hf]⟩
          · -- all operands evaluated: Op(…, Some([])) → Op(…, None) → the operator
            have hs2 : runStep hr m pm ops (.op (.int j) e (mkArgs vs (terminator b)) (some []) k) =
                .ok (.op (.int j) e (mkArgs vs (terminator b)) none k) := rfl
            obtain ⟨hn2, H3⟩ := H2.step hr m pm ops (by intro v hv; cases hv) hs2
            have hpl := properList_mkArgs vs ht
            by_cases h2 : j = 2
            · subst h2
              have hsm := smallNumber_two m
              rcases vs with _ | ⟨p', _ | ⟨e', _ | ⟨d, rest⟩⟩⟩
              · refine ⟨max f 1 + 1, ?_⟩
                have e1 := EvalLemmas.evalArgsC_mono ops (Nat.le_max_left f 1) hf (by simp)
                obtain ⟨g, hg⟩ : ∃ g, max f 1 = g + 1 := ⟨max f 1 - 1, by omega⟩
                rw [hg] at e1 ⊢
                simp [evalC, e1, applyC, hsm, twoArgs, getArgs_mkArgs 2 _ ht, failR]
              · refine ⟨max f 1 + 1, ?_⟩
                have e1 := EvalLemmas.evalArgsC_mono ops (Nat.le_max_left f 1) hf (by simp)
                obtain ⟨g, hg⟩ : ∃ g, max f 1 = g + 1 := ⟨max f 1 - 1, by omega⟩
                rw [hg] at e1 ⊢
                simp [evalC, e1, applyC, hsm, twoArgs, getArgs_mkArgs 2 _ ht, failR]
              · have hs3 : runStep hr m pm ops (.op (.int 2) e (mkArgs [p', e'] (terminator b)) none k) =
                    .ok (.step p' e' k) := by simp [runStep, opNone, atomValue, hpl]
                obtain ⟨hn3, H4⟩ := H3.step hr m pm ops (by intro v hv; cases hv) hs3
                obtain ⟨f', hf'⟩ := IH (n - 1 - 1 - 1) (by omega) p' e' k H4
                refine ⟨max f (f' + 1) + 1, ?_⟩
                have e1 := EvalLemmas.evalArgsC_mono ops (Nat.le_max_left f (f' + 1)) hf (by simp)
                obtain ⟨g, hg⟩ : ∃ g, max f (f' + 1) = g + 1 := ⟨max f (f' + 1) - 1, by omega⟩
                have e2 := EvalLemmas.evalC_mono ops (by omega : f' ≤ g) rfl hf'
                rw [hg] at e1 ⊢
                simp only [evalC, if_neg hq, e1, applyC, if_pos hsm, twoArgs, getArgs_mkArgs 2 _ ht]
                simp only [List.length_cons, List.length_nil, if_true, List.map]
                rw [e2]; exact hf'
              · refine ⟨max f 1 + 1, ?_⟩
                have e1 := EvalLemmas.evalArgsC_mono ops (Nat.le_max_left f 1) hf (by simp)
                obtain ⟨g, hg⟩ : ∃ g, max f 1 = g + 1 := ⟨max f 1 - 1, by omega⟩
                rw [hg] at e1 ⊢
                simp [evalC, e1, applyC, hsm, twoArgs, getArgs_mkArgs 2 _ ht, failR]
            · have hn2' := smallNumber_ne_two (m := m) h2
              refine ⟨max f 1 + 1, ?_⟩
              have e1 := EvalLemmas.evalArgsC_mono ops (Nat.le_max_left f 1) hf (by simp)
              obtain ⟨g, hg⟩ : ∃ g, max f 1 = g + 1 := ⟨max f 1 - 1, by omega⟩
              rw [hg] at e1 ⊢
              simp only [evalC, if_neg hq, e1, applyC, if_neg hn2']
              split
              · simp [failR]
              · exact hnf _ _

end Rev

end StepLemmas
