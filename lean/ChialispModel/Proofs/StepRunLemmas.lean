/-
  Proofs/StepRunLemmas.lean — ties the simulation lemmas to the `run` loop of Clvm/Step.lean
  (`runLoop`, `runLoopF`, `runWith`, `flagsOf`) and assembles the four directions of C06.
-/
import ChialispModel.Proofs.StepRevLemmas

namespace StepLemmas
open Step Rich Clvm

section Loop
variable (stepf : Config → Except RunErr Config) (flagf : Config → List Flag)

theorem runLoop_succ_nondone {c c1 : Config} (hs : stepf c = .ok c1) (hnd : ∀ x, c1 ≠ .done x) (n : Nat) :
    runLoop stepf (n + 1) c = runLoop stepf n c1 := by
  cases c1 with
  | done x => exact absurd rfl (hnd x)
  | _ => simp [runLoop, hs]

theorem runLoopF_succ_nondone {c c1 : Config} (hs : stepf c = .ok c1) (hnd : ∀ x, c1 ≠ .done x)
    (n : Nat) (acc : List Flag) :
    runLoopF stepf flagf (n + 1) c acc = runLoopF stepf flagf n c1 (flagf c ++ acc) := by
  cases c1 with
  | done x => exact absurd rfl (hnd x)
  | _ => simp [runLoopF, hs]

theorem runLoopF_fst (n : Nat) (c : Config) (acc : List Flag) :
    (runLoopF stepf flagf n c acc).1 = runLoop stepf n c := by
  induction n generalizing c acc with
  | zero => rfl
  | succ n ih =>
    cases hs : stepf c with
    | error e => simp [runLoopF, runLoop, hs]
    | ok c1 =>
      by_cases hd : ∃ x, c1 = .done x
      · obtain ⟨x, rfl⟩ := hd; simp [runLoopF, runLoop, hs]
      · have hnd : ∀ x, c1 ≠ .done x := fun x hx => hd ⟨x, hx⟩
        rw [runLoopF_succ_nondone stepf flagf hs hnd, runLoop_succ_nondone stepf hs hnd, ih]

theorem runLoopF_acc (n : Nat) (c : Config) (acc : List Flag)
    (h : (runLoopF stepf flagf n c acc).2 = []) : acc = [] := by
  induction n generalizing c acc with
  | zero => simpa [runLoopF] using h
  | succ n ih =>
    cases hs : stepf c with
    | error e => simp [runLoopF, hs] at h; exact h.2
    | ok c1 =>
      by_cases hd : ∃ x, c1 = .done x
      · obtain ⟨x, rfl⟩ := hd; simp [runLoopF, hs] at h; exact h.2
      · have hnd : ∀ x, c1 ≠ .done x := fun x hx => hd ⟨x, hx⟩
        rw [runLoopF_succ_nondone stepf flagf hs hnd] at h
        have := ih c1 _ h
        simp at this; exact this.2

end Loop

section Run
variable (hr : Rich → Rich → Except RunErr Rich) (m : Mode) (pm : PrimMap) (ops : OpSem)

theorem exec_succ_inv {n : Nat} {c c' : Config} (h : exec hr m pm ops (n + 1) c = some c') :
    stepFlags m pm c = [] ∧ ∃ c1, runStep hr m pm ops c = .ok c1 ∧ exec hr m pm ops n c1 = some c' := by
  simp only [exec] at h
  split at h
  · rename_i hfl
    cases hs : runStep hr m pm ops c with
    | error e => rw [hs] at h; cases h
    | ok c1 => rw [hs] at h; exact ⟨hfl, c1, rfl, h⟩
  · cases h

/-- what an unflagged `run` loop means in terms of `exec`. -/
theorem loop_unflagged (lim : Nat) (c : Config) (acc : List Flag)
    (h : (runLoopF (runStep hr m pm ops) (stepFlags m pm) lim c acc).2 = []) :
    match runLoop (runStep hr m pm ops) lim c with
    | .ok v => ∃ n, exec hr m pm ops n c = some (.done v)
    | .error e => e = .timeout ∨
        ∃ n c', exec hr m pm ops n c = some c' ∧ stepFlags m pm c' = [] ∧ runStep hr m pm ops c' = .error e := by
  induction lim generalizing c acc with
  | zero => simp [runLoop]
  | succ lim ih =>
    cases hs : runStep hr m pm ops c with
    | error e =>
      have hfl : stepFlags m pm c = [] := by simp [runLoopF, hs] at h; exact h.1
      simp only [runLoop, hs]
      exact .inr ⟨0, c, rfl, hfl, hs⟩
    | ok c1 =>
      by_cases hd : ∃ x, c1 = .done x
      · obtain ⟨x, rfl⟩ := hd
        have hfl : stepFlags m pm c = [] := by simp [runLoopF, hs] at h; exact h.1
        simp only [runLoop, hs]
        exact ⟨1, by simp [exec, hfl, hs]⟩
      · have hnd : ∀ x, c1 ≠ .done x := fun x hx => hd ⟨x, hx⟩
        rw [runLoopF_succ_nondone _ _ hs hnd] at h
        have hacc := runLoopF_acc _ _ _ _ _ h
        have hfl : stepFlags m pm c = [] := by simp at hacc; exact hacc.1
        rw [runLoop_succ_nondone _ hs hnd]
        have := ih c1 _ h
        cases hres : runLoop (runStep hr m pm ops) lim c1 with
        | ok v =>
          rw [hres] at this
          obtain ⟨n, hn⟩ := this
          exact ⟨n + 1, by simp [exec, hfl, hs, hn]⟩
        | error e =>
          rw [hres] at this
          rcases this with ht | ⟨n, c', hn, hf', he⟩
          · exact .inl ht
          · exact .inr ⟨n + 1, c', by simp [exec, hfl, hs, hn], hf', he⟩

/-- an unflagged run that reaches `Done v` is what the loop returns (given enough steps). -/
theorem loop_of_exec_done (n : Nat) (c : Config) (v : Rich) (hnd : ∀ x, c ≠ .done x)
    (h : exec hr m pm ops n c = some (.done v)) : ∃ lim, runLoop (runStep hr m pm ops) lim c = .ok v := by
  induction n generalizing c with
  | zero => exact absurd (Option.some.inj h) (hnd v)
  | succ n ih =>
    obtain ⟨hfl, c1, hs, h⟩ := exec_succ_inv hr m pm ops h
    by_cases hd : ∃ x, c1 = .done x
    · obtain ⟨x, rfl⟩ := hd
      rw [exec_done] at h
      obtain rfl : x = v := by injection (Option.some.inj h)
      exact ⟨1, by simp [runLoop, hs]⟩
    · have hnd1 : ∀ x, c1 ≠ .done x := fun x hx => hd ⟨x, hx⟩
      obtain ⟨lim, hl⟩ := ih c1 hnd1 h
      exact ⟨lim + 1, by rw [runLoop_succ_nondone _ hs hnd1]; exact hl⟩

theorem loop_of_exec_error (n : Nat) (c c' : Config) (e : RunErr)
    (h : exec hr m pm ops n c = some c') (he : runStep hr m pm ops c' = .error e) :
    ∃ lim, runLoop (runStep hr m pm ops) lim c = .error e := by
  induction n generalizing c with
  | zero =>
    obtain rfl : c = c' := Option.some.inj h
    exact ⟨1, by simp [runLoop, he]⟩
  | succ n ih =>
    obtain ⟨hfl, c1, hs, h⟩ := exec_succ_inv hr m pm ops h
    by_cases hd : ∃ x, c1 = .done x
    · obtain ⟨x, rfl⟩ := hd
      rw [exec_done] at h
      obtain rfl : Config.done x = c' := Option.some.inj h
      simp [runStep] at he
    · have hnd1 : ∀ x, c1 ≠ .done x := fun x hx => hd ⟨x, hx⟩
      obtain ⟨lim, hl⟩ := ih c1 h
      exact ⟨lim + 1, by rw [runLoop_succ_nondone _ hs hnd1]; exact hl⟩

theorem loop_of_exec_flag (n : Nat) (c c' : Config) (acc : List Flag)
    (h : exec hr m pm ops n c = some c') (hf : stepFlags m pm c' ≠ []) :
    ∃ lim, (runLoopF (runStep hr m pm ops) (stepFlags m pm) lim c acc).2 ≠ [] := by
  induction n generalizing c acc with
  | zero =>
    obtain rfl : c = c' := Option.some.inj h
    refine ⟨1, fun hc => ?_⟩
    cases hs : runStep hr m pm ops c with
    | error e => simp [runLoopF, hs] at hc; exact hf hc.1
    | ok c1 =>
      by_cases hd : ∃ x, c1 = .done x
      · obtain ⟨x, rfl⟩ := hd; simp [runLoopF, hs] at hc; exact hf hc.1
      · have hnd : ∀ x, c1 ≠ .done x := fun x hx => hd ⟨x, hx⟩
        rw [runLoopF_succ_nondone _ _ hs hnd] at hc
        simp [runLoopF] at hc; exact hf hc.1
  | succ n ih =>
    obtain ⟨hfl, c1, hs, h⟩ := exec_succ_inv hr m pm ops h
    by_cases hd : ∃ x, c1 = .done x
    · obtain ⟨x, rfl⟩ := hd
      rw [exec_done] at h
      obtain rfl : Config.done x = c' := Option.some.inj h
      exact absurd rfl hf
    · have hnd1 : ∀ x, c1 ≠ .done x := fun x hx => hd ⟨x, hx⟩
      obtain ⟨lim, hl⟩ := ih c1 (stepFlags m pm c ++ acc) h
      exact ⟨lim + 1, by rw [runLoopF_succ_nondone _ _ hs hnd1]; exact hl⟩

/-- an unflagged step never reports "timeout" (only the flagged nested head run could). -/
theorem step_error_ne_timeout (c : Config) (hf : stepFlags m pm c = []) :
    runStep hr m pm ops c ≠ .error .timeout := by
  cases c with
  | done v => simp [runStep]
  | opResult v p => simp [runStep]
  | step e ctx p =>
    cases e with
    | nil => simp [runStep]
    | int v => simp only [runStep]; split <;> (try split) <;> simp
    | atom b => simp [runStep]
    | qstr q b => simp [runStep]
    | cons a b =>
      have hh : headFlags m pm a = [] := by
        by_cases hh : headFlags m pm a = []
        · exact hh
        · simp [stepFlags, hh] at hf
      obtain ⟨j, hth, _, _⟩ := head_unflagged hr m pm a ctx hh
      simp only [runStep, stepCons, hth, atomValue]
      split
      · simp
      · simp only [evalArgs]; split <;> simp
  | op h ctx tail rem p =>
    cases rem with
    | some s => cases s <;> simp [runStep]
    | none =>
      simp only [runStep, opNone]
      split
      · simp
      · split
        · simp
        · repeat' split
          all_goals first | simp | skip
          all_goals
            rename_i hap
            unfold applyOp at hap
            split at hap <;> simp at hap
            all_goals (subst hap; simp)

theorem term_unique {c c1 c2 : Config} {i j : Nat}
    (h1 : exec hr m pm ops i c = some c1) (t1 : Term hr m pm ops c1)
    (h2 : exec hr m pm ops j c = some c2) (t2 : Term hr m pm ops c2) : c1 = c2 := by
  by_cases hij : i ≤ j
  · exact (exec_term_of_le hr m pm ops hij h1 t1 h2).symm
  · exact exec_term_of_le hr m pm ops (by omega) h2 t2 h1

-- the four directions -------------------------------------------------------------------

theorem start_not_done (p e : Rich) : ∀ x, start p e ≠ .done x := by intro x h; cases h

/-- an unflagged run that returned `v` ends in `Done v`. -/
theorem halts_of_ok {lim : Nat} {p e v : Rich}
    (hrun : runWith hr m pm ops lim p e = .ok v) (hfl : flagsOf hr m pm ops lim p e = []) :
    ∃ n, exec hr m pm ops n (start p e) = some (.done v) := by
  have := loop_unflagged hr m pm ops lim (start p e) [] hfl
  unfold runWith at hrun
  rw [hrun] at this
  exact this

theorem halts_of_error {lim : Nat} {p e : Rich} {err : RunErr}
    (hrun : runWith hr m pm ops lim p e = .error err) (hne : err ≠ .timeout)
    (hfl : flagsOf hr m pm ops lim p e = []) :
    ∃ n c', exec hr m pm ops n (start p e) = some c' ∧ stepFlags m pm c' = [] ∧
      runStep hr m pm ops c' = .error err := by
  have := loop_unflagged hr m pm ops lim (start p e) [] hfl
  unfold runWith at hrun
  rw [hrun] at this
  rcases this with h | h
  · exact absurd h hne
  · exact h

/-- the simulation at the start configuration, against a run known to halt. -/
theorem start_sim (hc : CoreOps ops) (p e : Rich) (f : Nat) :
    Sim hr m pm ops (start p e) (.done p) (evalC ops f (toClvm m p) (toClvm m e)) :=
  (sim hr m pm ops hc f).1 p e (.done p)

theorem sound (hc : CoreOps ops) (hnf : NoFuelOps ops) {lim : Nat} {p e v : Rich}
    (hrun : runWith hr m pm ops lim p e = .ok v) (hfl : flagsOf hr m pm ops lim p e = []) :
    Evaluates ops (toClvm m p) (toClvm m e) (toClvm m v) := by
  obtain ⟨n, hn⟩ := halts_of_ok hr m pm ops hrun hfl
  have hterm : Term hr m pm ops (.done v) := .inl ⟨v, rfl⟩
  have H : HaltsIn hr m pm ops n (start p e) := ⟨n, Nat.le_refl n, _, hn, hterm⟩
  obtain ⟨f, hf⟩ := rev hr m pm ops hc hnf n p e (.done p) H
  rcases start_sim hr m pm ops hc p e f with hflag | hres
  · exact absurd hflag (H.not_flag hr m pm ops)
  · cases hev : evalC ops f (toClvm m p) (toClvm m e) with
    | ok w =>
      rw [hev] at hres
      obtain ⟨v', hv', ⟨n', hn'⟩⟩ := hres
      have : Config.done v' = Config.done v :=
        term_unique hr m pm ops hn' (.inl ⟨v', rfl⟩) hn hterm
      obtain rfl : v' = v := by injection this
      exact ⟨f, by rw [hev, hv']⟩
    | error ce =>
      cases ce with
      | fuel => exact absurd hev hf
      | fail tg =>
        rw [hev] at hres
        obtain ⟨c', ⟨n', hn'⟩, hf', e', he'⟩ := hres
        have : c' = Config.done v := term_unique hr m pm ops hn' (.inr ⟨hf', e', he'⟩) hn hterm
        subst this
        simp [runStep] at he'

theorem fail_sound (hc : CoreOps ops) (hnf : NoFuelOps ops) {lim : Nat} {p e : Rich} {err : RunErr}
    (hrun : runWith hr m pm ops lim p e = .error err) (hne : err ≠ .timeout)
    (hfl : flagsOf hr m pm ops lim p e = []) : Fails ops (toClvm m p) (toClvm m e) := by
  obtain ⟨n, c', hn, hf', he'⟩ := halts_of_error hr m pm ops hrun hne hfl
  have hterm : Term hr m pm ops c' := .inr ⟨hf', err, he'⟩
  have H : HaltsIn hr m pm ops n (start p e) := ⟨n, Nat.le_refl n, _, hn, hterm⟩
  obtain ⟨f, hf⟩ := rev hr m pm ops hc hnf n p e (.done p) H
  rcases start_sim hr m pm ops hc p e f with hflag | hres
  · exact absurd hflag (H.not_flag hr m pm ops)
  · cases hev : evalC ops f (toClvm m p) (toClvm m e) with
    | ok w =>
      rw [hev] at hres
      obtain ⟨v', _, ⟨n', hn'⟩⟩ := hres
      have : Config.done v' = c' := term_unique hr m pm ops hn' (.inl ⟨v', rfl⟩) hn hterm
      subst this
      simp [runStep] at he'
    | error ce =>
      cases ce with
      | fuel => exact absurd hev hf
      | fail tg => exact ⟨f, tg, hev⟩

theorem complete (hc : CoreOps ops) {p e : Rich} {w : Val}
    (h : Evaluates ops (toClvm m p) (toClvm m e) w)
    (hfl : ∀ lim, flagsOf hr m pm ops lim p e = []) :
    ∃ lim v, runWith hr m pm ops lim p e = .ok v ∧ toClvm m v = w := by
  obtain ⟨f, hf⟩ := h
  have hs := start_sim hr m pm ops hc p e f
  rw [hf] at hs
  rcases hs with ⟨c', ⟨n, hn⟩, hflag⟩ | ⟨v, hv, ⟨n, hn⟩⟩
  · obtain ⟨lim, hl⟩ := loop_of_exec_flag hr m pm ops n _ c' [] hn hflag
    exact absurd (hfl lim) hl
  · obtain ⟨lim, hl⟩ := loop_of_exec_done hr m pm ops n _ v (start_not_done p e) hn
    exact ⟨lim, v, hl, hv⟩

theorem fail_complete (hc : CoreOps ops) {p e : Rich}
    (h : Fails ops (toClvm m p) (toClvm m e))
    (hfl : ∀ lim, flagsOf hr m pm ops lim p e = []) :
    ∃ lim err, runWith hr m pm ops lim p e = .error err ∧ err ≠ .timeout := by
  obtain ⟨f, tg, hf⟩ := h
  have hs := start_sim hr m pm ops hc p e f
  rw [hf] at hs
  rcases hs with ⟨c', ⟨n, hn⟩, hflag⟩ | ⟨c', ⟨n, hn⟩, hf', err, he⟩
  · obtain ⟨lim, hl⟩ := loop_of_exec_flag hr m pm ops n _ c' [] hn hflag
    exact absurd (hfl lim) hl
  · obtain ⟨lim, hl⟩ := loop_of_exec_error hr m pm ops n _ c' err hn he
    refine ⟨lim, err, hl, ?_⟩
    intro hto
    subst hto
    exact step_error_ne_timeout hr m pm ops c' hf' he

/-- more steps do not change a finished run. -/
theorem runLoop_mono (stepf : Config → Except RunErr Config) {n n' : Nat} (h : n ≤ n') {c : Config}
    {r : Except RunErr Rich} (hr' : runLoop stepf n c = r) (hne : r ≠ .error .timeout) :
    runLoop stepf n' c = r := by
  induction n generalizing c n' with
  | zero => simp [runLoop] at hr'; exact absurd hr'.symm hne
  | succ n ih =>
    obtain ⟨k, rfl⟩ : ∃ k, n' = k + 1 := ⟨n' - 1, by omega⟩
    cases hs : stepf c with
    | error e => simp [runLoop, hs] at hr' ⊢; exact hr'
    | ok c1 =>
      by_cases hd : ∃ x, c1 = .done x
      · obtain ⟨x, rfl⟩ := hd; simp [runLoop, hs] at hr' ⊢; exact hr'
      · have hnd : ∀ x, c1 ≠ .done x := fun x hx => hd ⟨x, hx⟩
        rw [runLoop_succ_nondone _ hs hnd] at hr' ⊢
        exact ih (by omega) hr'

theorem runLoopF_mono (stepf : Config → Except RunErr Config) (flagf : Config → List Flag)
    {n n' : Nat} (h : n ≤ n') {c : Config} {acc : List Flag}
    (hne : (runLoopF stepf flagf n c acc).1 ≠ .error .timeout) :
    runLoopF stepf flagf n' c acc = runLoopF stepf flagf n c acc := by
  induction n generalizing c n' acc with
  | zero => simp [runLoopF] at hne
  | succ n ih =>
    obtain ⟨k, rfl⟩ : ∃ k, n' = k + 1 := ⟨n' - 1, by omega⟩
    cases hs : stepf c with
    | error e => simp [runLoopF, hs]
    | ok c1 =>
      by_cases hd : ∃ x, c1 = .done x
      · obtain ⟨x, rfl⟩ := hd; simp [runLoopF, hs]
      · have hnd : ∀ x, c1 ≠ .done x := fun x hx => hd ⟨x, hx⟩
        rw [runLoopF_succ_nondone _ _ hs hnd] at hne ⊢
        rw [runLoopF_succ_nondone _ _ hs hnd]
        exact ih (by omega) hne

theorem runLoopF_prefix (stepf : Config → Except RunErr Config) (flagf : Config → List Flag)
    {n n' : Nat} (h : n' ≤ n) {c : Config} {acc : List Flag}
    (hfl : (runLoopF stepf flagf n c acc).2 = []) : (runLoopF stepf flagf n' c acc).2 = [] := by
  induction n' generalizing c n acc with
  | zero => simpa [runLoopF] using runLoopF_acc _ _ _ _ _ hfl
  | succ k ih =>
    obtain ⟨n0, rfl⟩ : ∃ n0, n = n0 + 1 := ⟨n - 1, by omega⟩
    cases hs : stepf c with
    | error e => simpa [runLoopF, hs] using hfl
    | ok c1 =>
      by_cases hd : ∃ x, c1 = .done x
      · obtain ⟨x, rfl⟩ := hd; simpa [runLoopF, hs] using hfl
      · have hnd : ∀ x, c1 ≠ .done x := fun x hx => hd ⟨x, hx⟩
        rw [runLoopF_succ_nondone _ _ hs hnd] at hfl ⊢
        exact ih (by omega) hfl

/-- a run that finished (value or failure) without a flag raises none for any step limit. -/
theorem flags_stable {lim : Nat} {p e : Rich}
    (hfin : runWith hr m pm ops lim p e ≠ .error .timeout)
    (hfl : flagsOf hr m pm ops lim p e = []) : ∀ lim', flagsOf hr m pm ops lim' p e = [] := by
  intro lim'
  unfold flagsOf at hfl ⊢
  unfold runWith at hfin
  by_cases h : lim ≤ lim'
  · rw [runLoopF_mono _ _ h (by rw [runLoopF_fst]; exact hfin)]; exact hfl
  · exact runLoopF_prefix _ _ (by omega) hfl

end Run

/-- the driver's operator table never reports the evaluator's "out of fuel". -/
theorem noFuelOps_chia : NoFuelOps Ops.chiaOps := by
  intro op args
  show Ops.chiaApply op args ≠ _
  unfold Ops.chiaApply
  repeat' split
  all_goals first | (simp [failR]; done) | skip
  all_goals (dsimp only; repeat' split)
  all_goals first | (simp [failR]; done) | skip

-- ---------------------------------------------------------------------------------------
-- paths never raise a flag; refused operator atoms never have a consensus value
-- ---------------------------------------------------------------------------------------

/-- a program that is a path never takes a flagged branch:
    at most three steps, [Atom → Integer →] OpResult → Done. -/
theorem path_unflagged (hr : Rich → Rich → Except RunErr Rich) (m : Mode) (pm : PrimMap) (ops : OpSem)
    (p e : Rich) (hp : ∀ a b, p ≠ .cons a b) : ∀ lim, flagsOf hr m pm ops lim p e = [] := by
  intro lim
  unfold flagsOf start
  have fin : ∀ (n : Nat) (r q : Rich),
      (runLoopF (runStep hr m pm ops) (stepFlags m pm) n (.opResult r (.step q e (.done p))) []).2 = [] := by
    intro n r q
    cases n with
    | zero => rfl
    | succ n => simp [runLoopF, runStep, combineDone, stepFlags]
  have intCase : ∀ (n : Nat) (v : Int),
      (runLoopF (runStep hr m pm ops) (stepFlags m pm) n (.step (.int v) e (.done p)) []).2 = [] := by
    intro n v
    cases n with
    | zero => rfl
    | succ n =>
      by_cases hz : flattenSignedInt v = 0
      · simp only [runLoopF, runStep, if_pos hz, stepFlags, List.append_nil]
        exact fin n .nil (.int v)
      · cases hcp : choosePath (flattenSignedInt v) e with
        | none => simp [runLoopF, runStep, hz, hcp, stepFlags]
        | some r =>
          simp only [runLoopF, runStep, if_neg hz, hcp, stepFlags, List.append_nil]
          exact fin n r (.int v)
  cases p with
  | cons a b => exact absurd rfl (hp a b)
  | nil =>
    cases lim with
    | zero => rfl
    | succ n =>
      simp only [runLoopF, runStep, stepFlags, List.append_nil]
      exact fin n .nil .nil
  | int v => exact intCase lim v
  | atom b =>
    cases lim with
    | zero => rfl
    | succ n =>
      simp only [runLoopF, runStep, stepFlags, List.append_nil]
      exact intCase n _
  | qstr q b =>
    cases lim with
    | zero => rfl
    | succ n =>
      simp only [runLoopF, runStep, stepFlags, List.append_nil]
      exact intCase n _

theorem smallNumber_noncanonical {v : Bytes} (h : Bytes.canonical v = false) : Ops.smallNumber v = none := by
  simp [Ops.smallNumber, h]

/-- an operator atom that is not the minimal encoding of its value, under an operator table that
    refuses it: the consensus evaluator never returns a value. -/
theorem refused_no_value (ops : OpSem) (v : Bytes) (hcan : Bytes.canonical v = false)
    (hstrict : ∀ args, ∃ t, ops.apply v args = .error (.fail t)) (args env w : Val) :
    ¬ Clvm.Evaluates ops (.pair (.atom v) args) env w := by
  rintro ⟨n, hn⟩
  have hs := smallNumber_noncanonical hcan
  cases n with
  | zero => simp [Clvm.evalC] at hn
  | succ n =>
    simp only [Clvm.evalC, hs] at hn
    rw [if_neg (by simp)] at hn
    cases ha : Clvm.evalArgsC ops n args env with
    | error e => rw [ha] at hn; cases hn
    | ok vals =>
      rw [ha] at hn
      cases n with
      | zero => simp [Clvm.applyC] at hn
      | succ n =>
        obtain ⟨t, ht⟩ := hstrict vals
        simp [Clvm.applyC, hs, ht] at hn

/-- clvmr's strict Chia dialect refuses every operator atom that is not minimally encoded. -/
theorem chia_refuses_noncanonical (v : Bytes) (hcan : Bytes.canonical v = false) (args : Val) :
    ∃ t, Ops.chiaOps.apply v args = .error (.fail t) := by
  have hs := smallNumber_noncanonical hcan
  show ∃ t, Ops.chiaApply v args = _
  unfold Ops.chiaApply
  split
  · exact ⟨_, rfl⟩
  · split
    · exact ⟨_, rfl⟩
    · split
      · exact ⟨_, rfl⟩
      · rw [hs]; exact ⟨_, rfl⟩

end StepLemmas
