/-
  Proofs/ClassicEnvLemmas.lean — the classic compiler's path assignment
  (`symbol_table_for_tree`, `build_tree`, `build_tree_program`, the root choice of
  `finish_compile_from_collection`; model in Lang/ClassicEnv.lean) selects what the source
  level binds, for every tree and every width.
-/
import ChialispModel.Lang.ClassicEnv
import ChialispModel.Proofs.NodePathLemmas
import ChialispModel.Proofs.EnvLemmas
import ChialispModel.Proofs.CoreLemmas

namespace ClassicEnv
open Path PathAlg

-- `is_at_capture` ---------------------------------------------------------------------------

theorem properList_atom (b : Bytes) (l : List Val) (h : properList (.atom b) = some l) : b = [] ∧ l = [] := by
  cases b with
  | nil => simp [properList, nonNil] at h; exact ⟨rfl, h⟩
  | cons x xs => simp [properList, nonNil] at h

theorem properList_pair (f r : Val) (l : List Val) (h : properList (.pair f r) = some l) :
    ∃ l', properList r = some l' ∧ l = f :: l' := by
  simp only [properList] at h
  cases h1 : properList r with
  | none => rw [h1] at h; simp at h
  | some l1 => rw [h1] at h; simp at h; exact ⟨l1, rfl, h.symm⟩

theorem properList_two (tr : Val) (spec : List Val) (h : properList tr = some spec) (hl : spec.length = 2) :
    ∃ c d, tr = .pair c (.pair d (.atom [])) ∧ spec = [c, d] := by
  cases tr with
  | atom b => obtain ⟨_, rfl⟩ := properList_atom b spec h; simp at hl
  | pair c r1 =>
    obtain ⟨l1, h1, rfl⟩ := properList_pair c r1 spec h
    cases r1 with
    | atom b => obtain ⟨_, rfl⟩ := properList_atom b l1 h1; simp at hl
    | pair d r2 =>
      obtain ⟨l2, h2, rfl⟩ := properList_pair d r2 l1 h1
      cases r2 with
      | atom b => obtain ⟨rfl, rfl⟩ := properList_atom b l2 h2; exact ⟨c, d, rfl, rfl⟩
      | pair e r3 => obtain ⟨l3, _, rfl⟩ := properList_pair e r3 l2 h2; simp at hl

/-- the exact shape `is_at_capture` accepts: `(@ c d)` with the list terminated by the empty atom;
    `c` and `d` are arbitrary nodes. -/
theorem isAtCapture_iff (tf tr c d : Val) :
    isAtCapture tf tr = some (c, d) ↔ tf = .atom [64] ∧ tr = .pair c (.pair d (.atom [])) := by
  constructor
  · intro h
    unfold isAtCapture at h
    split at h
    · rename_i a spec hp
      split at h
      · rename_i hc
        simp only [Bool.and_eq_true, beq_iff_eq] at hc
        obtain ⟨c', d', e1, e2⟩ := properList_two tr spec hp hc.2
        subst e2
        simp at h
        obtain ⟨rfl, rfl⟩ := h
        exact ⟨by rw [hc.1], e1⟩
      · simp at h
    · simp at h
  · rintro ⟨rfl, rfl⟩
    simp [isAtCapture, properList, nonNil]

theorem isAtCapture_size (tf tr c d : Val) (h : isAtCapture tf tr = some (c, d)) :
    Val.size d < Val.size (.pair tf tr) := by
  obtain ⟨rfl, rfl⟩ := (isAtCapture_iff tf tr c d).mp h
  simp only [Val.size]; omega

-- fuel independence and unfolding of `symbol_table_for_tree` ----------------------------------

theorem symbolTableFuel_atom_nil (f : Nat) (root : Nat) : symbolTableFuel f (.atom []) root = [] := by
  cases f <;> simp [symbolTableFuel, nonNil]

theorem symbolTableFuel_atom (f : Nat) (b : Bytes) (hb : b ≠ []) (root : Nat) :
    symbolTableFuel (f + 1) (.atom b) root = [(.atom b, NodePath.asPath root)] := by
  have : b.length ≠ 0 := by cases b <;> simp_all
  rw [symbolTableFuel]; simp [nonNil, this]

theorem symbolTableFuel_capture (f : Nat) (a d c d' : Val) (root : Nat) (hc : isAtCapture a d = some (c, d')) :
    symbolTableFuel (f + 1) (.pair a d) root = (c, NodePath.asPath root) :: symbolTableFuel f d' root := by
  rw [symbolTableFuel]; simp [nonNil, hc]

theorem symbolTableFuel_pair (f : Nat) (a d : Val) (root : Nat) (hc : isAtCapture a d = none) :
    symbolTableFuel (f + 1) (.pair a d) root
      = symbolTableFuel f a (NodePath.add root leftBytes) ++ symbolTableFuel f d (NodePath.add root rightBytes) := by
  rw [symbolTableFuel]; simp [nonNil, hc]

theorem size_pos (v : Val) : 1 ≤ Val.size v := by cases v <;> simp [Val.size] <;> omega

theorem symbolTableFuel_fuel : ∀ (f1 f2 : Nat) (tree : Val) (root : Nat),
    Val.size tree ≤ f1 → Val.size tree ≤ f2 → symbolTableFuel f1 tree root = symbolTableFuel f2 tree root := by
  intro f1
  induction f1 with
  | zero => intro f2 tree root h1; have := size_pos tree; omega
  | succ f ih =>
    intro f2 tree root h1 h2
    cases f2 with
    | zero => have := size_pos tree; omega
    | succ g =>
      cases tree with
      | atom b =>
        by_cases hb : b = []
        · subst hb; rw [symbolTableFuel_atom_nil, symbolTableFuel_atom_nil]
        · rw [symbolTableFuel_atom f b hb, symbolTableFuel_atom g b hb]
      | pair a d =>
        cases hc : isAtCapture a d with
        | some cd =>
          obtain ⟨c, d'⟩ := cd
          have := isAtCapture_size a d c d' hc
          rw [symbolTableFuel_capture f a d c d' root hc, symbolTableFuel_capture g a d c d' root hc,
            ih g d' root (by omega) (by omega)]
        | none =>
          simp only [Val.size] at h1 h2
          rw [symbolTableFuel_pair f a d root hc, symbolTableFuel_pair g a d root hc,
            ih g a _ (by omega) (by omega), ih g d _ (by omega) (by omega)]

theorem add_left (root : Nat) : NodePath.add root leftBytes = compose root 2 := by
  unfold leftBytes; rw [NodePath.first_root]; exact NodePath.add_eq root 2 (by omega)

theorem add_right (root : Nat) : NodePath.add root rightBytes = compose root 3 := by
  unfold rightBytes; rw [NodePath.rest_root]; exact NodePath.add_eq root 3 (by omega)

theorem symTab_nil (root : Nat) : symbolTableForTree (.atom []) root = [] :=
  symbolTableFuel_atom_nil _ root

theorem symTab_atom (b : Bytes) (hb : b ≠ []) (root : Nat) :
    symbolTableForTree (.atom b) root = [(.atom b, NodePath.asPath root)] :=
  symbolTableFuel_atom 0 b hb root

/-- `(@ c d)`: `c` names the current position, the walk continues IN PLACE with `d`. -/
theorem symTab_capture (c d : Val) (root : Nat) :
    symbolTableForTree (.pair (.atom [64]) (.pair c (.pair d (.atom [])))) root
      = (c, NodePath.asPath root) :: symbolTableForTree d root := by
  have hc : isAtCapture (.atom [64]) (.pair c (.pair d (.atom []))) = some (c, d) :=
    (isAtCapture_iff _ _ c d).mpr ⟨rfl, rfl⟩
  unfold symbolTableForTree
  simp only [Val.size]
  rw [show 1 + 1 + (1 + c.size + (1 + d.size + 1)) = (c.size + d.size + 4) + 1 by omega,
    symbolTableFuel_capture _ _ _ c d root hc,
    symbolTableFuel_fuel (c.size + d.size + 4) d.size d root (by omega) (Nat.le_refl _)]

/-- any other pair: left under `root.add(first)`, right under `root.add(rest)`. -/
theorem symTab_pair (a d : Val) (hc : isAtCapture a d = none) (root : Nat) :
    symbolTableForTree (.pair a d) root
      = symbolTableForTree a (compose root 2) ++ symbolTableForTree d (compose root 3) := by
  unfold symbolTableForTree
  simp only [Val.size]
  rw [show 1 + a.size + d.size = (a.size + d.size) + 1 by omega,
    symbolTableFuel_pair _ a d root hc, add_left, add_right,
    symbolTableFuel_fuel (a.size + d.size) a.size a _ (by omega) (Nat.le_refl _),
    symbolTableFuel_fuel (a.size + d.size) d.size d _ (by omega) (Nat.le_refl _)]

-- the assembled pattern ------------------------------------------------------------------------

theorem lookup_asPath (p : Nat) (E : Val) : Path.lookup (NodePath.asPath p) E = lookupNat p E := by
  unfold Path.lookup NodePath.asPath NodePath.bigintToBytesUnsigned
  rw [BytesAlg.toNatBE_ofNatBE]

@[simp] theorem patVal_nil : patVal .nil = .atom [] := rfl
@[simp] theorem patVal_atom (b : Bytes) : patVal (.atom b) = .atom b := rfl
@[simp] theorem patVal_cons (a d : Rich) : patVal (.cons a d) = .pair (patVal a) (patVal d) := rfl
theorem patVal_int (i : Int) (h : i ≠ 0) : patVal (.int i) = .atom (Bytes.ofInt i) := by
  simp [patVal, Rich.toClvm, h]

/-- a source-level capture is a classic capture -/
theorem isAtCapture_of_modern (cap : Bytes) (sub : Rich) :
    isAtCapture (patVal (.atom [64])) (patVal (.cons (.atom cap) (.cons sub .nil))) = some (.atom cap, patVal sub) :=
  (isAtCapture_iff _ _ _ _).mpr ⟨rfl, rfl⟩

/-- on `classicPatOk` patterns a pair that is not a source-level capture is not a classic one -/
theorem isAtCapture_none_of_ok (a d : Rich) (hok : classicPatOk (.cons a d) = true)
    (hne : ∀ (cap : Bytes) (sub : Rich), a = Rich.atom [64] → d = (Rich.atom cap).cons (sub.cons Rich.nil) → False) :
    isAtCapture (patVal a) (patVal d) = none := by
  simp only [classicPatOk, Bool.and_eq_true, Bool.or_eq_true, Bool.not_eq_true'] at hok
  rcases hok.2 with h | h
  · cases hc : isAtCapture (patVal a) (patVal d) with
    | none => rfl
    | some x => rw [hc] at h; simp at h
  · exfalso
    unfold Lang.atCapture at h
    split at h
    · rename_i cap sub heq
      simp only [Rich.cons.injEq] at heq
      exact hne cap sub heq.1 heq.2
    · simp at h

theorem classicPatOk_cons (a d : Rich) (hok : classicPatOk (.cons a d) = true) :
    classicPatOk a = true ∧ classicPatOk d = true := by
  simp only [classicPatOk, Bool.and_eq_true] at hok
  exact hok.1

/-- a pattern without names gives an empty table -/
theorem symTab_no_names (pat : Rich) (hok : classicPatOk pat = true) (hn : Lang.patHasNames pat = false)
    (root : Nat) : symbolTableForTree (patVal pat) root = [] := by
  induction pat generalizing root with
  | nil => exact symTab_nil root
  | cons a d iha ihd =>
    simp only [Lang.patHasNames, Bool.or_eq_false_iff] at hn
    have hk := classicPatOk_cons a d hok
    have hc : isAtCapture (patVal a) (patVal d) = none := by
      apply isAtCapture_none_of_ok a d hok
      intro cap sub e1 _
      subst e1
      simp [Lang.patHasNames] at hn
    rw [patVal_cons, symTab_pair _ _ hc, iha hk.1 hn.1, ihd hk.2 hn.2]; rfl
  | int i => simp [Lang.patHasNames] at hn
  | qstr q b => simp [Lang.patHasNames] at hn
  | atom b => simp [Lang.patHasNames] at hn

-- every entry of the table, positionally ------------------------------------------------------

/-- two lists related element by element, in order (same length). -/
inductive Aligned {α β : Type} (R : α → β → Prop) : List α → List β → Prop
  | nil : Aligned R [] []
  | cons {a : α} {b : β} {l : List α} {m : List β} : R a b → Aligned R l m → Aligned R (a :: l) (b :: m)

theorem Aligned.append {α β : Type} {R : α → β → Prop} {l1 l2 : List α} {m1 m2 : List β}
    (h1 : Aligned R l1 m1) (h2 : Aligned R l2 m2) : Aligned R (l1 ++ l2) (m1 ++ m2) := by
  induction h1 with
  | nil => exact h2
  | cons hr _ ih => exact Aligned.cons hr ih

/-- entry `e` of the classic symbol table and binding `b` of the source-level environment denote
    the same thing in the run-time environment `E`: same name, and the entry's path atom (read as
    clvmr reads it, `Path.lookup` = unsigned big-endian) selects the bound value. -/
def EntryOk (E : Val) (e : Val × Bytes) (b : Bytes × Lang.SV) : Prop :=
  e.1 = .atom b.1 ∧ ∃ w, b.2 = Lang.SV.ofVal w ∧ Path.lookup e.2 E = .ok w

theorem symTab_forall₂_aux (pat : Rich) (sv : Lang.SV) (hok : classicPatOk pat = true)
    (root : Nat) (hroot : 1 ≤ root) (E v : Val) (hv : sv = Lang.SV.ofVal v)
    (hE : lookupNat root E = .ok v) (ρ : Lang.Env) (hb : Lang.bindPat pat sv = some ρ) :
    Aligned (EntryOk E) (symbolTableForTree (patVal pat) root) ρ := by
  induction pat, sv using Lang.bindPat.induct generalizing ρ root E v with
  | case1 x =>
    simp [Lang.bindPat] at hb; subst hb
    rw [patVal_nil, symTab_nil]; exact Aligned.nil
  | case2 b sv hb0 => simp [classicPatOk, hb0] at hok
  | case3 b sv hb0 =>
    simp [Lang.bindPat, hb0] at hb; subst hb
    have hne : b ≠ [] := by intro h; subst h; simp at hb0
    rw [patVal_atom, symTab_atom b hne]
    refine Aligned.cons ⟨rfl, v, hv, ?_⟩ Aligned.nil
    rw [lookup_asPath]; exact hE
  | case4 i sv =>
    simp [Lang.bindPat] at hb; subst hb
    have hi : i ≠ 0 := by simpa [classicPatOk] using hok
    rw [patVal_int i hi, symTab_atom _ (Bytes.ofInt_ne_nil i)]
    refine Aligned.cons ⟨rfl, v, hv, ?_⟩ Aligned.nil
    rw [lookup_asPath]; exact hE
  | case5 q b sv => simp [classicPatOk] at hok
  | case6 cap sub sv e he ih =>
    rw [Lang.bindPat, he] at hb
    simp at hb; subst hb
    have hk := classicPatOk_cons _ _ hok
    have hk2 := classicPatOk_cons _ _ hk.2
    have hk3 := classicPatOk_cons _ _ hk2.2
    rw [patVal_cons, patVal_cons, patVal_cons, patVal_atom, patVal_atom, patVal_nil, symTab_capture]
    refine Aligned.cons ⟨rfl, v, hv, ?_⟩ (ih hk3.1 root hroot E v hv hE e he)
    rw [lookup_asPath]; exact hE
  | case7 cap sub sv he ih => rw [Lang.bindPat, he] at hb; simp at hb
  | case8 a d x y hne e1 e2 h2 h1 ih1 ih2 =>
    rw [Lang.bindPat_cons_pair a d x y hne, h1, h2] at hb
    simp at hb; subst hb
    have hk := classicPatOk_cons a d hok
    obtain ⟨va, vd, hvp, hxa, hyd⟩ := Lang.ofVal_pair_inv v x y hv.symm
    subst hvp
    rw [patVal_cons, symTab_pair _ _ (isAtCapture_none_of_ok a d hok hne)]
    have hl : lookupNat (compose root 2) E = .ok va := by
      rw [lookup_first hroot, hE]; simp [bind, Except.bind, lookupNat_two]
    have hr : lookupNat (compose root 3) E = .ok vd := by
      rw [lookup_rest hroot, hE]; simp [bind, Except.bind, lookupNat_three]
    exact Aligned.append
      (ih1 hk.1 _ (compose_pos _ _) E va hxa hl e1 h1)
      (ih2 hk.2 _ (compose_pos _ _) E vd hyd hr e2 h2)
  | case9 a d x y hne hnone ih1 ih2 =>
    rw [Lang.bindPat_cons_pair a d x y hne] at hb
    cases h1 : Lang.bindPat a x <;> cases h2 : Lang.bindPat d y <;> simp_all
  | case10 a d x hne hnp hnames =>
    rw [Lang.bindPat] at hb
    · simp_all
    · exact hne
    · exact hnp
  | case11 a d x hne hnp hnames =>
    rw [Lang.bindPat] at hb
    · have hn : Lang.patHasNames (.cons a d) = false := by
        simp only [Lang.patHasNames]; simpa using hnames
      simp [hnames] at hb
      subst hb
      rw [symTab_no_names _ hok hn]; exact Aligned.nil
    · exact hne
    · exact hnp

-- the entry the compiler uses: the first one ----------------------------------------------------

theorem firstSymbol_append (name : Bytes) (a b : List (Val × Bytes)) :
    firstSymbol name (a ++ b) = (match firstSymbol name a with | some p => some p | none => firstSymbol name b) := by
  induction a with
  | nil => simp [firstSymbol]
  | cons x xs ih =>
    obtain ⟨k, p⟩ := x
    cases k with
    | atom c =>
      simp only [List.cons_append, firstSymbol]
      split <;> simp_all
    | pair c d => simp only [List.cons_append, firstSymbol]; exact ih

/-- the first table entry for a name denotes the FIRST source-level binding of that name
    (`Lang.lookupEnv` is first-match too). -/
theorem firstSymbol_aligned (E : Val) (name : Bytes) (tbl : List (Val × Bytes)) (ρ : Lang.Env)
    (h : Aligned (EntryOk E) tbl ρ) (pb : Bytes) (hf : firstSymbol name tbl = some pb) :
    ∃ w, Lang.lookupEnv name ρ = some (Lang.SV.ofVal w) ∧ Path.lookup pb E = .ok w := by
  induction h with
  | nil => simp [firstSymbol] at hf
  | @cons e b l m hr _ ih =>
    obtain ⟨ev, ep⟩ := e
    obtain ⟨k, sv⟩ := b
    obtain ⟨h1, w, h2, h3⟩ := hr
    simp only at h1 h2 h3
    subst h1
    simp only [firstSymbol] at hf
    simp only [Lang.lookupEnv]
    split at hf
    · rename_i hc
      simp at hf; subst hf
      rw [if_pos hc]
      exact ⟨w, by rw [h2], h3⟩
    · rename_i hc
      rw [if_neg hc]
      exact ih hf

theorem bitsOf_two : bitsOf 2 = [false] := by rw [bitsOf_step (by omega)]; simp [bitsOf_one]
theorem bitsOf_three : bitsOf 3 = [true] := by rw [bitsOf_step (by omega)]; simp [bitsOf_one]

theorem compose_one (r : Nat) (hr : 1 ≤ r) : compose r 1 = r := by
  unfold compose; rw [bitsOf_one, List.append_nil, ofBits_bitsOf' hr]

theorem compose_left (r p : Nat) (hp : 1 ≤ p) : compose (compose r 2) p = compose r (2 * p) := by
  unfold compose
  rw [bitsOf_ofBits, Path.bitsOf_double p hp, bitsOf_two]; simp

theorem compose_right (r p : Nat) (hp : 1 ≤ p) : compose (compose r 3) p = compose r (2 * p + 1) := by
  unfold compose
  rw [bitsOf_ofBits, Path.bitsOf_double_succ p hp, bitsOf_three]; simp

/-- **classic = modern addressing**: the entry the classic compiler uses for a name is the path the
    modern `create_name_lookup_` computes, composed under the root. -/
theorem firstSymbol_eq_nameLookup (name : Bytes) (pat : Rich) :
    ∀ (root : Nat), 1 ≤ root → classicPatOk pat = true →
    firstSymbol name (symbolTableForTree (patVal pat) root)
      = (Lang.nameLookup name pat).map (fun p => NodePath.asPath (compose root p)) := by
  induction pat using Lang.nameLookup.induct name with
  | case1 a hc =>
    intro root hroot hok
    have hne : a ≠ [] := by intro h; subst h; simp [classicPatOk] at hok
    rw [patVal_atom, symTab_atom a hne]
    simp [firstSymbol, Lang.nameLookup, hc, compose_one root hroot]
  | case2 a hc =>
    intro root hroot hok
    have hne : a ≠ [] := by intro h; subst h; simp [classicPatOk] at hok
    rw [patVal_atom, symTab_atom a hne]
    simp [firstSymbol, Lang.nameLookup, hc]
  | case3 i hc =>
    intro root hroot hok
    have hi : i ≠ 0 := by simpa [classicPatOk] using hok
    rw [patVal_int i hi, symTab_atom _ (Bytes.ofInt_ne_nil i)]
    simp [firstSymbol, Lang.nameLookup, hc, compose_one root hroot]
  | case4 i hc =>
    intro root hroot hok
    have hi : i ≠ 0 := by simpa [classicPatOk] using hok
    rw [patVal_int i hi, symTab_atom _ (Bytes.ofInt_ne_nil i)]
    simp [firstSymbol, Lang.nameLookup, hc]
  | case5 cap sub hc =>
    intro root hroot hok
    rw [patVal_cons, patVal_cons, patVal_cons, patVal_atom, patVal_atom, patVal_nil, symTab_capture,
      Lang.nameLookup_cap]
    simp [firstSymbol, hc, compose_one root hroot]
  | case6 cap sub hc ih =>
    intro root hroot hok
    have hk := classicPatOk_cons _ _ hok
    have hk2 := classicPatOk_cons _ _ hk.2
    have hk3 := classicPatOk_cons _ _ hk2.2
    rw [patVal_cons, patVal_cons, patVal_cons, patVal_atom, patVal_atom, patVal_nil, symTab_capture,
      Lang.nameLookup_cap]
    simp only [firstSymbol]
    rw [if_neg hc, if_neg hc]
    exact ih root hroot hk3.1
  | case7 head rest hne v hv ih =>
    intro root hroot hok
    have hk := classicPatOk_cons _ _ hok
    rw [patVal_cons, symTab_pair _ _ (isAtCapture_none_of_ok head rest hok hne), firstSymbol_append,
      ih _ (compose_pos _ _) hk.1, Lang.nameLookup_cons name head rest hne, hv]
    simp [compose_left root v (Lang.nameLookup_pos name head v hv)]
  | case8 head rest hne hh v hv ih1 ih2 =>
    intro root hroot hok
    have hk := classicPatOk_cons _ _ hok
    rw [patVal_cons, symTab_pair _ _ (isAtCapture_none_of_ok head rest hok hne), firstSymbol_append,
      ih1 _ (compose_pos _ _) hk.1, ih2 _ (compose_pos _ _) hk.2, Lang.nameLookup_cons name head rest hne, hh, hv]
    simp [compose_right root v (Lang.nameLookup_pos name rest v hv)]
  | case9 head rest hne hh hr ih1 ih2 =>
    intro root hroot hok
    have hk := classicPatOk_cons _ _ hok
    rw [patVal_cons, symTab_pair _ _ (isAtCapture_none_of_ok head rest hok hne), firstSymbol_append,
      ih1 _ (compose_pos _ _) hk.1, ih2 _ (compose_pos _ _) hk.2, Lang.nameLookup_cons name head rest hne, hh, hr]
    simp
  | case10 t h1 h2 h3 h4 =>
    intro root hroot hok
    cases t with
    | nil => rw [patVal_nil, symTab_nil]; simp [firstSymbol, Lang.nameLookup]
    | cons a d => exact absurd rfl (fun h => h4 a d h)
    | int i => exact absurd rfl (fun h => h2 i h)
    | qstr q b => simp [classicPatOk] at hok
    | atom b => exact absurd rfl (fun h => h1 b h)

theorem firstSymbol_aligned_none (E : Val) (name : Bytes) (tbl : List (Val × Bytes)) (ρ : Lang.Env)
    (h : Aligned (EntryOk E) tbl ρ) (hf : firstSymbol name tbl = none) : Lang.lookupEnv name ρ = none := by
  induction h with
  | nil => rfl
  | @cons e b l m hr _ ih =>
    obtain ⟨ev, ep⟩ := e
    obtain ⟨k, sv⟩ := b
    obtain ⟨h1, _⟩ := hr
    simp only at h1
    subst h1
    simp only [firstSymbol] at hf
    simp only [Lang.lookupEnv]
    split at hf
    · simp at hf
    · rename_i hc; rw [if_neg hc]; exact ih hf

-- `build_tree` / `build_tree_program` ------------------------------------------------------------

/-- no empty atom anywhere in the tree -/
def noNil : Val → Bool
  | .atom b => !b.isEmpty
  | .pair a d => noNil a && noNil d

theorem isAtCapture_noNil (a d : Val) (h : noNil d = true) : isAtCapture a d = none := by
  cases hc : isAtCapture a d with
  | none => rfl
  | some cd =>
    obtain ⟨c, d'⟩ := cd
    obtain ⟨_, rfl⟩ := (isAtCapture_iff a d c d').mp hc
    simp [noNil] at h

theorem half_bounds (n : Nat) (h : 2 ≤ n) : 1 ≤ n >>> 1 ∧ n >>> 1 < n := by
  rw [Nat.shiftRight_eq_div_pow]; omega

theorem buildTreeFuel_noNil : ∀ (fuel : Nat) (names : List Bytes), names.length ≤ fuel → names ≠ [] →
    (∀ n ∈ names, n ≠ []) → noNil (buildTreeFuel fuel names) = true := by
  intro fuel
  induction fuel with
  | zero => intro names hl hne; cases names <;> simp_all
  | succ f ih =>
    intro names hl hne hall
    match names, hl, hne, hall with
    | [n], _, _, hall =>
      have : n ≠ [] := hall n (by simp)
      cases n <;> simp_all [buildTreeFuel, noNil]
    | n1 :: n2 :: ns, hl, _, hall =>
      have hb := half_bounds (n1 :: n2 :: ns).length (by simp)
      simp only [buildTreeFuel, noNil, Bool.and_eq_true]
      constructor
      · apply ih
        · rw [List.length_take]; simp only [List.length_cons] at hl hb ⊢; omega
        · intro h
          have := congrArg List.length h
          rw [List.length_take] at this; simp only [List.length_cons, List.length_nil] at this hb; omega
        · intro n hn; exact hall n (List.mem_of_mem_take hn)
      · apply ih
        · rw [List.length_drop]; simp only [List.length_cons] at hl hb ⊢; omega
        · intro h
          have := congrArg List.length h
          rw [List.length_drop] at this; simp only [List.length_cons, List.length_nil] at this hb; omega
        · intro n hn; exact hall n (List.mem_of_mem_drop hn)

/-- entry `e` of the constants table and `(name, value)` of the constants denote the same thing in `E`. -/
def ConstOk (E : Val) (e : Val × Bytes) (nv : Bytes × Val) : Prop :=
  e.1 = .atom nv.1 ∧ Path.lookup e.2 E = .ok nv.2

/-- the table read from `build_tree(names)` under `root` addresses, entry by entry, the values laid
    out in the same shape. -/
theorem buildTree_table_aligned : ∀ (fuel : Nat) (ents : List (Bytes × Val)), ents.length ≤ fuel →
    (∀ e ∈ ents, e.1 ≠ []) → ∀ (root : Nat), 1 ≤ root → ∀ (E : Val),
    lookupNat root E = .ok (valueTreeFuel fuel (ents.map (·.2))) →
    Aligned (ConstOk E) (symbolTableForTree (buildTreeFuel fuel (ents.map (·.1))) root) ents := by
  intro fuel
  induction fuel with
  | zero =>
    intro ents hl _ root _ E _
    have : ents = [] := by cases ents <;> simp_all
    subst this
    simp only [List.map_nil, buildTreeFuel]
    rw [show Val.nil = Val.atom [] from rfl, symTab_nil]; exact Aligned.nil
  | succ f ih =>
    intro ents hl hall root hroot E hE
    match ents, hl, hall, hE with
    | [], _, _, _ =>
      simp only [List.map_nil, buildTreeFuel]
      rw [show Val.nil = Val.atom [] from rfl, symTab_nil]; exact Aligned.nil
    | [e], _, hall, hE =>
      simp only [List.map_cons, List.map_nil, buildTreeFuel, valueTreeFuel] at hE ⊢
      rw [symTab_atom _ (hall e (by simp))]
      refine Aligned.cons ⟨rfl, ?_⟩ Aligned.nil
      simp only; rw [lookup_asPath]; exact hE
    | e1 :: e2 :: es, hl, hall, hE =>
      have hb := half_bounds (e1 :: e2 :: es).length (by simp)
      have hlen1 : ((e1 :: e2 :: es).map (·.1)).length = (e1 :: e2 :: es).length := List.length_map _
      have hlen2 : ((e1 :: e2 :: es).map (·.2)).length = (e1 :: e2 :: es).length := List.length_map _
      have hbt : buildTreeFuel (f + 1) ((e1 :: e2 :: es).map (·.1))
          = .pair (buildTreeFuel f (((e1 :: e2 :: es).take ((e1 :: e2 :: es).length >>> 1)).map (·.1)))
                  (buildTreeFuel f (((e1 :: e2 :: es).drop ((e1 :: e2 :: es).length >>> 1)).map (·.1))) := by
        rw [List.map_take, List.map_drop, ← hlen1]; rfl
      have hvt : valueTreeFuel (f + 1) ((e1 :: e2 :: es).map (·.2))
          = .pair (valueTreeFuel f (((e1 :: e2 :: es).take ((e1 :: e2 :: es).length >>> 1)).map (·.2)))
                  (valueTreeFuel f (((e1 :: e2 :: es).drop ((e1 :: e2 :: es).length >>> 1)).map (·.2))) := by
        rw [List.map_take, List.map_drop, ← hlen2]; rfl
      rw [hvt] at hE
      rw [hbt]
      have hdl : ((e1 :: e2 :: es).drop ((e1 :: e2 :: es).length >>> 1)).length ≤ f := by
        rw [List.length_drop]; simp only [List.length_cons] at hl hb ⊢; omega
      have htl : ((e1 :: e2 :: es).take ((e1 :: e2 :: es).length >>> 1)).length ≤ f := by
        rw [List.length_take]; simp only [List.length_cons] at hl hb ⊢; omega
      have hnn : noNil (buildTreeFuel f (((e1 :: e2 :: es).drop ((e1 :: e2 :: es).length >>> 1)).map (·.1))) = true := by
        apply buildTreeFuel_noNil
        · rw [List.length_map]; exact hdl
        · intro h
          have := congrArg List.length h
          rw [List.length_map, List.length_drop] at this
          simp only [List.length_cons, List.length_nil] at this hb; omega
        · intro n hn
          obtain ⟨e, he, rfl⟩ := List.mem_map.mp hn
          exact hall e (List.mem_of_mem_drop he)
      rw [symTab_pair _ _ (isAtCapture_noNil _ _ hnn)]
      have hl' : lookupNat (compose root 2) E
          = .ok (valueTreeFuel f (((e1 :: e2 :: es).take ((e1 :: e2 :: es).length >>> 1)).map (·.2))) := by
        rw [lookup_first hroot, hE]; simp only [bind, Except.bind, lookupNat_two]
      have hr' : lookupNat (compose root 3) E
          = .ok (valueTreeFuel f (((e1 :: e2 :: es).drop ((e1 :: e2 :: es).length >>> 1)).map (·.2))) := by
        rw [lookup_rest hroot, hE]; simp only [bind, Except.bind, lookupNat_three]
      have := Aligned.append
        (ih _ htl (fun e he => hall e (List.mem_of_mem_take he)) _ (compose_pos _ _) E hl')
        (ih _ hdl (fun e he => hall e (List.mem_of_mem_drop he)) _ (compose_pos _ _) E hr')
      rw [List.take_append_drop] at this
      exact this

theorem valueTreeFuel_fuel : ∀ (f1 f2 : Nat) (l : List Val), l.length ≤ f1 → l.length ≤ f2 →
    valueTreeFuel f1 l = valueTreeFuel f2 l := by
  intro f1
  induction f1 with
  | zero => intro f2 l h1 _; have : l = [] := by cases l <;> simp_all
            subst this; cases f2 <;> rfl
  | succ f ih =>
    intro f2 l h1 h2
    match l, h1, h2 with
    | [], _, _ => cases f2 <;> rfl
    | [v], _, h2 => cases f2 with
      | zero => simp at h2
      | succ g => rfl
    | v1 :: v2 :: vs, h1, h2 =>
      cases f2 with
      | zero => simp at h2
      | succ g =>
        have hb := half_bounds (v1 :: v2 :: vs).length (by simp)
        simp only [valueTreeFuel]
        rw [ih g _ (by rw [List.length_take]; simp only [List.length_cons] at h1 h2 hb ⊢; omega)
              (by rw [List.length_take]; simp only [List.length_cons] at h1 h2 hb ⊢; omega),
          ih g _ (by rw [List.length_drop]; simp only [List.length_cons] at h1 h2 hb ⊢; omega)
              (by rw [List.length_drop]; simp only [List.length_cons] at h1 h2 hb ⊢; omega)]

/-- **`build_tree_program`**: if every item program evaluates (in `env`) to its value, the program
    built from a non-empty item list evaluates to the values laid out in `build_tree`'s shape. -/
theorem buildTreeProgramFuel_evaluates (ops : OpSem) (hops : Core.OpsCore ops) (env : Val) :
    ∀ (fuel : Nat) (ents : List (Val × Val)), ents.length ≤ fuel → ents ≠ [] →
    (∀ e ∈ ents, Clvm.Evaluates ops e.1 env e.2) →
    Clvm.Evaluates ops (buildTreeProgramFuel fuel (ents.map (·.1))) env (valueTreeFuel fuel (ents.map (·.2))) := by
  intro fuel
  induction fuel with
  | zero => intro ents hl hne; cases ents <;> simp_all
  | succ f ih =>
    intro ents hl hne hall
    match ents, hl, hne, hall with
    | [e], _, _, hall => exact hall e (by simp)
    | e1 :: e2 :: es, hl, _, hall =>
      have hb := half_bounds (e1 :: e2 :: es).length (by simp)
      have hlen1 : ((e1 :: e2 :: es).map (·.1)).length = (e1 :: e2 :: es).length := List.length_map _
      have hlen2 : ((e1 :: e2 :: es).map (·.2)).length = (e1 :: e2 :: es).length := List.length_map _
      have hbt : buildTreeProgramFuel (f + 1) ((e1 :: e2 :: es).map (·.1))
          = .pair (.atom [4])
              (.pair (buildTreeProgramFuel f (((e1 :: e2 :: es).take ((e1 :: e2 :: es).length >>> 1)).map (·.1)))
                (.pair (buildTreeProgramFuel f (((e1 :: e2 :: es).drop ((e1 :: e2 :: es).length >>> 1)).map (·.1))) Val.nil)) := by
        rw [List.map_take, List.map_drop, ← hlen1]; rfl
      have hvt : valueTreeFuel (f + 1) ((e1 :: e2 :: es).map (·.2))
          = .pair (valueTreeFuel f (((e1 :: e2 :: es).take ((e1 :: e2 :: es).length >>> 1)).map (·.2)))
                  (valueTreeFuel f (((e1 :: e2 :: es).drop ((e1 :: e2 :: es).length >>> 1)).map (·.2))) := by
        rw [List.map_take, List.map_drop, ← hlen2]; rfl
      rw [hbt, hvt]
      apply Core.ev_cons ops hops
      · apply ih
        · rw [List.length_take]; simp only [List.length_cons] at hl hb ⊢; omega
        · intro h
          have := congrArg List.length h
          rw [List.length_take] at this; simp only [List.length_cons, List.length_nil] at this hb; omega
        · intro e he; exact hall e (List.mem_of_mem_take he)
      · apply ih
        · rw [List.length_drop]; simp only [List.length_cons] at hl hb ⊢; omega
        · intro h
          have := congrArg List.length h
          rw [List.length_drop] at this; simp only [List.length_cons, List.length_nil] at this hb; omega
        · intro e he; exact hall e (List.mem_of_mem_drop he)

-- the run-time environment `(CONSTANTS . ARGS)` ---------------------------------------------------

theorem firstSymbol_constAligned (E : Val) (name : Bytes) (tbl : List (Val × Bytes)) (ents : List (Bytes × Val))
    (h : Aligned (ConstOk E) tbl ents) (pb : Bytes) (hf : firstSymbol name tbl = some pb) :
    ∃ v, List.lookup name ents = some v ∧ Path.lookup pb E = .ok v := by
  induction h with
  | nil => simp [firstSymbol] at hf
  | @cons e b l m hr _ ih =>
    obtain ⟨ev, ep⟩ := e
    obtain ⟨k, v⟩ := b
    obtain ⟨h1, h2⟩ := hr
    simp only at h1 h2
    subst h1
    simp only [firstSymbol] at hf
    by_cases hk : k = name
    · subst hk
      simp at hf; subst hf
      exact ⟨v, by simp [List.lookup], h2⟩
    · rw [if_neg (by simpa using hk)] at hf
      obtain ⟨v', hv1, hv2⟩ := ih hf
      refine ⟨v', ?_, hv2⟩
      have : (name == k) = false := by simpa using (fun h => hk h.symm)
      simp [List.lookup, this, hv1]

theorem asPath_root : NodePath.asPath NodePath.root = [1] := by decide

theorem constantsRoot_eq : constantsRoot = 2 := NodePath.first_root
theorem argsRoot_true : argsRoot true = 3 := NodePath.rest_root
theorem argsRoot_false : argsRoot false = 1 := rfl

/-- `(c TREE_PROGRAM 1)` builds `(CONSTANTS . ARGS)`. -/
theorem argTree_evaluates (ops : OpSem) (hops : Core.OpsCore ops) (args : Val)
    (ents : List (Val × Val)) (hne : ents ≠ []) (hev : ∀ e ∈ ents, Clvm.Evaluates ops e.1 args e.2) :
    Clvm.Evaluates ops (argTree (ents.map (·.1))) args (.pair (valueTree (ents.map (·.2))) args) := by
  have hne' : (ents.map (·.1)).isEmpty = false := by cases ents <;> simp_all
  unfold argTree
  rw [hne', asPath_root]
  simp only [Bool.false_eq_true, if_false]
  apply Core.ev_cons ops hops _ _ _ _ _ _ (Core.ev_env ops args)
  have := buildTreeProgramFuel_evaluates ops hops args ents.length ents (Nat.le_refl _) hne hev
  unfold buildTreeProgram valueTree
  rw [List.length_map, List.length_map]
  exact this

/-- the constants table under `NodePath.first()` addresses the constants in `(CONSTANTS . ARGS)`. -/
theorem constants_table_aligned (ents : List (Bytes × Val)) (hall : ∀ e ∈ ents, e.1 ≠ []) (args : Val) :
    Aligned (ConstOk (.pair (valueTree (ents.map (·.2))) args))
      (constantsSymbolTable (ents.map (·.1))) ents := by
  unfold constantsSymbolTable buildTree valueTree
  rw [List.length_map, List.length_map, constantsRoot_eq]
  apply buildTree_table_aligned ents.length ents (Nat.le_refl _) hall 2 (by omega)
  rw [lookupNat_two]

end ClassicEnv
