/-
  Proofs/OptBasics.lean — small facts the optimiser proofs need: structural equality on `Val`
  is lawful, which operator atoms the consensus evaluator treats specially, and the explicit
  assumption on the operator table (`CoreOps`: `f`, `r`, `c` are first / rest / cons), proved
  for the concrete table `Ops.chiaOps`.
-/
import ChialispModel.Clvm.Eval
import ChialispModel.Proofs.PathAlgebra

theorem Val.beq_eq (a b : Val) : (a == b) = decide (a = b) := by
  induction a generalizing b with
  | atom x =>
    cases b with
    | atom y =>
      show instBEqVal.beq (.atom x) (.atom y) = _
      simp only [instBEqVal.beq]
      by_cases h : x = y <;> simp [h]
    | pair _ _ => show instBEqVal.beq _ _ = _; simp [instBEqVal.beq]
  | pair a d iha ihd =>
    cases b with
    | atom y => show instBEqVal.beq _ _ = _; simp [instBEqVal.beq]
    | pair a' d' =>
      show instBEqVal.beq (.pair a d) (.pair a' d') = _
      have ha := iha a'
      have hd := ihd d'
      simp only [instBEqVal.beq]
      show ((a == a') && (d == d')) = _
      rw [ha, hd]; simp

theorem Val.beq_iff (a b : Val) : (a == b) = true ↔ a = b := by rw [Val.beq_eq]; simp

instance : LawfulBEq Val where
  eq_of_beq h := (Val.beq_iff _ _).1 h
  rfl := (Val.beq_iff _ _).2 rfl

namespace Ops

theorem smallNumber_1 : smallNumber [1] = some 1 := by decide
theorem smallNumber_2 : smallNumber [2] = some 2 := by decide
theorem smallNumber_4 : smallNumber [4] = some 4 := by decide
theorem smallNumber_5 : smallNumber [5] = some 5 := by decide
theorem smallNumber_6 : smallNumber [6] = some 6 := by decide

/-- the only atom the consensus evaluator takes for `q` is the one-byte atom `01` — the same
    test the optimiser uses (`len == 1 && [0] == 1`). -/
theorem smallNumber_eq_one {b : Bytes} (h : smallNumber b = some 1) : b = [1] := by
  unfold smallNumber at h
  split at h
  · rename_i hc
    simp only [Bool.and_eq_true, decide_eq_true_eq] at hc
    obtain ⟨⟨⟨_, hcan⟩, hnn⟩, _⟩ := hc
    simp only [Option.some.injEq] at h
    have h1 : Bytes.toInt b = 1 := by rw [BytesAlg.toInt_nonneg_eq hnn, h]; rfl
    have h2 : Bytes.ofIntClvm (Bytes.toInt b) = b := by simpa [Bytes.canonical] using hcan
    rw [h1] at h2
    rw [← h2]; decide
  · cases h

theorem smallNumber_ne_one {b : Bytes} (h : b ≠ [1]) : smallNumber b ≠ some 1 :=
  fun h1 => h (smallNumber_eq_one h1)

end Ops

/-- what the rewrite rules that mention `f`, `r`, `c` assume about the operator table. -/
structure CoreOps (ops : OpSem) : Prop where
  first_ok : ∀ a d, ops.apply [5] (.pair (.pair a d) Val.nil) = .ok a
  first_inv : ∀ x v, ops.apply [5] (.pair x Val.nil) = .ok v → ∃ d, x = .pair v d
  rest_ok : ∀ a d, ops.apply [6] (.pair (.pair a d) Val.nil) = .ok d
  rest_inv : ∀ x v, ops.apply [6] (.pair x Val.nil) = .ok v → ∃ a, x = .pair a v
  cons_inv : ∀ a b v, ops.apply [4] (.pair a (.pair b Val.nil)) = .ok v → v = .pair a b

namespace Ops

theorem chiaOps_apply (op : Bytes) (a : Val) : chiaOps.apply op a = chiaApply op a := rfl

theorem unsupported_4 : unsupportedOp [4] = false := by decide
theorem unsupported_5 : unsupportedOp [5] = false := by decide
theorem unsupported_6 : unsupportedOp [6] = false := by decide

/-- the driver's operator table satisfies the assumption. -/
theorem chiaOps_core : CoreOps chiaOps where
  first_ok a d := by
    rw [chiaOps_apply]; unfold chiaApply
    simp [unsupported_5, smallNumber_5, getArgs, Val.elems, Val.nil]
  first_inv x v h := by
    rw [chiaOps_apply] at h; unfold chiaApply at h
    cases x with
    | atom b => simp [unsupported_5, smallNumber_5, getArgs, Val.elems, Val.nil, failR] at h
    | pair a d =>
      simp [unsupported_5, smallNumber_5, getArgs, Val.elems, Val.nil] at h
      exact ⟨d, by rw [h]⟩
  rest_ok a d := by
    rw [chiaOps_apply]; unfold chiaApply
    simp [unsupported_6, smallNumber_6, getArgs, Val.elems, Val.nil]
  rest_inv x v h := by
    rw [chiaOps_apply] at h; unfold chiaApply at h
    cases x with
    | atom b => simp [unsupported_6, smallNumber_6, getArgs, Val.elems, Val.nil, failR] at h
    | pair a d =>
      simp [unsupported_6, smallNumber_6, getArgs, Val.elems, Val.nil] at h
      exact ⟨a, by rw [h]⟩
  cons_inv a b v h := by
    rw [chiaOps_apply] at h; unfold chiaApply at h
    simp [unsupported_4, smallNumber_4, getArgs, Val.elems, Val.nil] at h
    exact h.symm

end Ops

/-- decidable equality of evaluation results (for the `decide`d witnesses). -/
def Opt.decEqRes : DecidableEq (Except EvalErr Val)
  | .ok a, .ok b => if h : a = b then isTrue (by rw [h]) else isFalse (by intro h'; cases h'; exact h rfl)
  | .error a, .error b => if h : a = b then isTrue (by rw [h]) else isFalse (by intro h'; cases h'; exact h rfl)
  | .ok _, .error _ => isFalse (by intro h; cases h)
  | .error _, .ok _ => isFalse (by intro h; cases h)

instance : DecidableEq (Except EvalErr Val) := Opt.decEqRes
