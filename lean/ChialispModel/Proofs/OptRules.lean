/-
  Proofs/OptRules.lean — one soundness lemma per rewrite rule of the classic optimiser that
  does not recurse (cons, constant folding, cons_q_a, quote-null, apply-null, path).
-/
import ChialispModel.Proofs.OptLemmas

namespace Opt
open Clvm

-- cons_optimizer -------------------------------------------------------------------------

theorem consOptimizer_sound {ops : OpSem} (co : CoreOps ops) {r e v : Val}
    (h : Evaluates ops r e v) : Evaluates ops (consOptimizer r) e v := by
  unfold consOptimizer
  cases h1 : matchSexp patFirstCons r [] with
  | some bs =>
    obtain ⟨A, B, rfl, ha, hb⟩ := match_patFirstCons h1
    simp only [Option.bind, ha]
    obtain ⟨d, hd⟩ := (eval_first_iff co).1 h
    obtain ⟨a, b, he, hA, _⟩ := eval_cons_inv co hd
    cases he; exact hA
  | none =>
    simp only [Option.bind]
    cases h2 : matchSexp patRestCons r [] with
    | some bs =>
      obtain ⟨A, B, rfl, ha, hb⟩ := match_patRestCons h2
      simp only [hb]
      obtain ⟨d, hd⟩ := (eval_rest_iff co).1 h
      obtain ⟨a, b, he, _, hB⟩ := eval_cons_inv co hd
      cases he; exact hB
    | none => exact h

-- seems_constant / constant_optimizer -----------------------------------------------------

theorem lookup_nil (e : Val) : Path.lookup [] e = .ok Val.nil := by
  simp [Path.lookup, Bytes.toNatBE, Path.lookupNat]

theorem isEmpty_eq {b : Bytes} (h : b.isEmpty = true) : b = [] := by
  cases b <;> simp_all

/-- an expression that `seems_constant` evaluates identically in every environment
    (value, failure and fuel exhaustion alike). -/
theorem seemsConstant_env_indep_aux (ops : OpSem) : ∀ n : Nat,
    (∀ r e e', seemsConstant r = true → evalC ops n r e = evalC ops n r e') ∧
    (∀ a e e', seemsConstantTail a = true → evalArgsC ops n a e = evalArgsC ops n a e') := by
  intro n
  induction n with
  | zero => exact ⟨fun _ _ _ _ => by simp [evalC], fun _ _ _ _ => by simp [evalArgsC]⟩
  | succ n ih =>
    obtain ⟨ihE, ihL⟩ := ih
    constructor
    · intro r e e' hc
      cases r with
      | atom b =>
        simp only [seemsConstant] at hc
        rw [isEmpty_eq hc]; simp [evalC, lookup_nil]
      | pair hd args =>
        cases hd with
        | atom op =>
          rw [evalC, evalC]
          split
          · rfl
          · rename_i hq
            have hne : op ≠ [1] := by
              intro h1; subst h1; exact hq Ops.smallNumber_1
            simp only [seemsConstant] at hc
            rw [if_neg (by simpa using hne)] at hc
            split at hc
            · cases hc
            · rw [ihL args e e' hc]
        | pair x xr =>
          cases xr with
          | atom b =>
            cases x with
            | atom xb => rw [evalC, evalC]
            | pair _ _ =>
              rw [evalC.eq_4 _ _ _ _ _ _ (by intro b xb _ h2; cases h2),
                evalC.eq_4 _ _ _ _ _ _ (by intro b xb _ h2; cases h2)]
          | pair _ _ =>
            rw [evalC.eq_4 _ _ _ _ _ _ (by intro b xb h1 _; cases h1),
              evalC.eq_4 _ _ _ _ _ _ (by intro b xb h1 _; cases h1)]
    · intro a e e' hc
      cases a with
      | atom b => simp [evalArgsC]
      | pair x rest =>
        simp only [seemsConstantTail, Bool.and_eq_true] at hc
        rw [evalArgsC, evalArgsC, ihL rest e e' hc.2, ihE x e e' hc.1]

theorem seemsConstant_env_indep {ops : OpSem} {n : Nat} {r : Val} (e e' : Val)
    (h : seemsConstant r = true) : evalC ops n r e = evalC ops n r e' :=
  (seemsConstant_env_indep_aux ops n).1 r e e' h

theorem constantOptimizer_sound {ops : OpSem} {ef : Nat} {r r' e v : Val}
    (hr : constantOptimizer ops ef r = .ok r') (h : Evaluates ops r e v) : Evaluates ops r' e v := by
  unfold constantOptimizer at hr
  split at hr
  · cases hr; exact h
  · split at hr
    · rename_i hc
      simp only [Bool.and_eq_true] at hc
      cases hev : evalC ops ef r Val.nil with
      | ok w =>
        rw [hev] at hr
        cases hr
        obtain ⟨n, hn⟩ := h
        rw [seemsConstant_env_indep e Val.nil hc.1] at hn
        have : w = v := evaluates_unique ⟨ef, hev⟩ ⟨n, hn⟩
        subst this
        exact eval_quote.2 rfl
      | error er => rw [hev] at hr; cases hr
    · cases hr; exact h

/-- on a program that evaluates, constant folding never reports a genuine failure. -/
theorem constantOptimizer_no_fail {ops : OpSem} {ef : Nat} {r e v : Val} {t : String}
    (h : Evaluates ops r e v) : constantOptimizer ops ef r ≠ .error (.fail t) := by
  intro hr
  unfold constantOptimizer at hr
  split at hr
  · cases hr
  · split at hr
    · rename_i hc
      simp only [Bool.and_eq_true] at hc
      cases hev : evalC ops ef r Val.nil with
      | ok w => rw [hev] at hr; cases hr
      | error er =>
        rw [hev] at hr
        cases hr
        obtain ⟨n, hn⟩ := h
        rw [seemsConstant_env_indep e Val.nil hc.1] at hn
        exact evaluates_not_fails ⟨n, hn⟩ hev
    · cases hr

-- cons_q_a_optimizer ---------------------------------------------------------------------

theorem lookup_one (e : Val) : Path.lookup [1] e = .ok e := by
  simp [Path.lookup, Bytes.toNatBE, PathAlg.lookupNat_one]

theorem consQAOptimizer_sound {ops : OpSem} {r e v : Val}
    (h : Evaluates ops r e v) : Evaluates ops (consQAOptimizer r) e v := by
  unfold consQAOptimizer
  cases h1 : matchSexp patQA r [] with
  | none => exact h
  | some bs =>
    obtain ⟨S, ARGS, rfl, hs, ha⟩ := match_patQA h1
    simp only [ha, hs]
    split
    · rename_i hc
      cases ARGS with
      | pair _ _ => simp [isArgsCall] at hc
      | atom b =>
        simp only [isArgsCall, beq_iff_eq] at hc
        subst hc
        obtain ⟨p, e', hP, hE, hv⟩ := eval_apply_iff.1 h
        have hp : p = S := eval_quote.1 hP
        have he : e' = e := by
          have := evaluates_atom_iff.1 hE
          rw [lookup_one] at this; cases this; rfl
        subst hp he; exact hv
    · exact h

-- quote_null / apply_null ------------------------------------------------------------------

theorem eval_nil {ops : OpSem} (e : Val) : Evaluates ops Val.nil e Val.nil :=
  evaluates_atom_iff.2 (lookup_nil e)

theorem quoteNullOptimizer_sound {ops : OpSem} {r e v : Val}
    (h : Evaluates ops r e v) : Evaluates ops (quoteNullOptimizer r) e v := by
  unfold quoteNullOptimizer
  cases h1 : matchSexp patQuoteNull r [] with
  | none => exact h
  | some bs =>
    have := match_patQuoteNull h1
    subst this
    have : v = Val.nil := eval_quote.1 h
    subst this; exact eval_nil e

theorem twoArgs_first {a rs p e : Val} (h : twoArgs (.pair a rs) = some (p, e)) : p = a := by
  simp only [twoArgs, Ops.getArgs] at h
  generalize hx : Val.elems (Val.pair a rs) = l at h
  have hh : l.head? = some a := by rw [← hx]; rfl
  match l, hh with
  | [], hh => simp at hh
  | [x], _ => simp at h
  | [x, y], hh =>
    simp at h hh
    rw [← h.1, hh]
  | _ :: _ :: _ :: _, _ => simp at h

theorem applyNullOptimizer_sound {ops : OpSem} {r e v : Val}
    (h : Evaluates ops r e v) : Evaluates ops (applyNullOptimizer r) e v := by
  unfold applyNullOptimizer
  cases h1 : matchSexp patApplyNull r [] with
  | none => exact h
  | some bs =>
    obtain ⟨rest, rfl⟩ := match_patApplyNull h1
    simp only
    -- `(a 0 . rest)`: the operand list evaluates to `(nil . xs)`, `a` needs exactly two operands,
    -- and runs the program `nil`, which is the path 0
    rw [evaluates_op_iff (sn_ne Ops.smallNumber_2 (by decide))] at h
    obtain ⟨vals, hl, ha⟩ := h
    obtain ⟨p, e', ht, hv⟩ := (applies_apply_iff Ops.smallNumber_2).1 ha
    obtain ⟨a, rs, rfl, hA, _⟩ := evalArgs_pair_iff.1 hl
    have ha0 : a = Val.nil := evaluates_unique hA (eval_nil e)
    subst ha0
    have hp : p = Val.nil := twoArgs_first ht
    subst hp
    have : v = Val.nil := evaluates_unique hv (eval_nil e')
    subst this; exact eval_nil e

-- path_optimizer -------------------------------------------------------------------------

theorem eval_path_atom {ops : OpSem} {b : Bytes} {e v : Val} :
    Evaluates ops (.atom b) e v ↔ Path.lookupNat (Bytes.toNatBE b) e = .ok v := by
  rw [evaluates_atom_iff]; rfl

/-- `(f b)` / `(r b)` ⇒ the composed path, whenever the index `NodePath::new` computes for `b`
    is the path clvmr traverses for `b` (`pathAtomOk`). -/
theorem pathStep_sound {ops : OpSem} (co : CoreOps ops) {b : Bytes} {isRest : Bool} {e v : Val}
    (hok : pathAtomOk b = true)
    (h : Evaluates ops (mk1 (if isRest then [6] else [5]) (.atom b)) e v) :
    Evaluates ops (.atom (NodePath.stepPath b isRest)) e v := by
  have hidx : NodePath.new (Bytes.toInt b) = Bytes.toNatBE b := by simpa [pathAtomOk] using hok
  rw [eval_path_atom, NodePath.toNatBE_stepPath, hidx]
  cases isRest with
  | false =>
    simp only [Bool.false_eq_true, if_false] at h ⊢
    obtain ⟨d, hd⟩ := (eval_first_iff co).1 h
    rw [eval_path_atom] at hd
    by_cases hp : 1 ≤ Bytes.toNatBE b
    · rw [PathAlg.lookup_first hp, hd]
      show Path.lookupNat 2 _ = _
      rw [PathAlg.lookupNat_two]
    · have : Bytes.toNatBE b = 0 := by omega
      rw [this] at hd
      simp [Path.lookupNat, Val.nil] at hd
  | true =>
    simp only [if_true] at h ⊢
    obtain ⟨a, hd⟩ := (eval_rest_iff co).1 h
    rw [eval_path_atom] at hd
    by_cases hp : 1 ≤ Bytes.toNatBE b
    · rw [PathAlg.lookup_rest hp, hd]
      show Path.lookupNat 3 _ = _
      rw [PathAlg.lookupNat_three]
    · have : Bytes.toNatBE b = 0 := by omega
      rw [this] at hd
      simp [Path.lookupNat, Val.nil] at hd

/-- shape of a successful `path_optimizer` step. -/
theorem pathOptimizer_cases {strict : Bool} {r r' : Val} (h : pathOptimizer strict r = .ok r') :
    r' = r ∨ ∃ b isRest, r = mk1 (if isRest then [6] else [5]) (.atom b) ∧
      pathStep strict b isRest = .ok r' := by
  unfold pathOptimizer at h
  cases h1 : matchSexp patFirstAtom r [] with
  | some fm =>
    rw [h1] at h
    simp only at h
    rcases match_patFirstAtom h1 with ⟨b, rfl, hl⟩ | rfl
    · simp only [hl, Option.bind, atomBytes] at h
      exact Or.inr ⟨b, false, rfl, h⟩
    · -- the literal `(f ($ . atom))` binds nothing
      have : fm = [] := by
        have : matchSexp patFirstAtom (mk1 [5] (atomP kAtom)) [] = some [] := by decide
        rw [this] at h1; cases h1; rfl
      subst this
      simp [lookupB] at h
      exact Or.inl h.symm
  | none =>
    rw [h1] at h
    simp only at h
    cases h2 : matchSexp patRestAtom r [] with
    | some rm =>
      rw [h2] at h
      simp only at h
      rcases match_patRestAtom h2 with ⟨b, rfl, hl⟩ | rfl
      · simp only [hl, Option.bind, atomBytes] at h
        exact Or.inr ⟨b, true, rfl, h⟩
      · have : rm = [] := by
          have : matchSexp patRestAtom (mk1 [6] (atomP kAtom)) [] = some [] := by decide
          rw [this] at h2; cases h2; rfl
        subst this
        simp [lookupB] at h
        exact Or.inl h.symm
    | none =>
      rw [h2] at h
      simp only [Except.ok.injEq] at h
      exact Or.inl h.symm

/-- **path_optimizer**, strict mode (atoms whose index is wrong are flagged, not rewritten). -/
theorem pathOptimizer_sound_strict {ops : OpSem} (co : CoreOps ops) {r r' e v : Val}
    (hr : pathOptimizer true r = .ok r') (h : Evaluates ops r e v) : Evaluates ops r' e v := by
  rcases pathOptimizer_cases hr with rfl | ⟨b, isRest, rfl, hs⟩
  · exact h
  · unfold pathStep at hs
    split at hs
    · cases hs
    · rename_i hc
      have hok : pathAtomOk b = true := by simpa using hc
      cases hs
      exact pathStep_sound co hok h

end Opt
