/-
  Proofs/IntBytesLemmas.lean — unsigned value of the signed encodings (`ofInt`), the
  specification of `negWidth`, and what `Ops.smallNumber` says about the encoding of an integer.
-/
import ChialispModel.Base.Bytes
import ChialispModel.Clvm.Ops
import ChialispModel.Proofs.BytesLemmas

namespace Bytes

theorem toNatBE_nil : toNatBE [] = 0 := rfl

theorem toNatBE_append_singleton (l : Bytes) (x : UInt8) :
    toNatBE (l ++ [x]) = toNatBE l * 256 + x.toNat := by
  simp [toNatBE, List.foldl_append]

theorem toNatBE_cons_zero (b : Bytes) : toNatBE (0 :: b) = toNatBE b := by
  simp [toNatBE]

theorem toNatBE_ofNatBEAux (fuel n : Nat) (h : n ≤ fuel) : toNatBE (ofNatBEAux fuel n) = n := by
  induction fuel generalizing n with
  | zero =>
    have : n = 0 := by omega
    subst this
    rfl
  | succ f ih =>
    simp only [ofNatBEAux]
    split
    · rename_i h0; simp [h0, toNatBE_nil]
    · rename_i h0
      rw [toNatBE_append_singleton, ih (n / 256) (by omega)]
      simp
      omega

theorem toNatBE_ofNatBE (n : Nat) : toNatBE (ofNatBE n) = n :=
  toNatBE_ofNatBEAux n n (Nat.le_refl n)

theorem toNatBE_posBytes (b : Bytes) : toNatBE (posBytes b) = toNatBE b := by
  unfold posBytes
  split
  · rfl
  · split
    · exact toNatBE_cons_zero _
    · rfl

/-- a non-negative integer's signed encoding read unsigned is the integer. -/
theorem toNatBE_ofInt_ofNat (n : Nat) : toNatBE (ofInt (Int.ofNat n)) = n := by
  show toNatBE (posBytes (ofNatBE n)) = n
  rw [toNatBE_posBytes, toNatBE_ofNatBE]

theorem toNatBE_ofNatWidth (k n : Nat) : toNatBE (ofNatWidth k n) = n % 256 ^ k := by
  induction k generalizing n with
  | zero => simp [ofNatWidth, toNatBE_nil, Nat.mod_one]
  | succ k ih =>
    simp only [ofNatWidth]
    rw [toNatBE_append_singleton, ih]
    have e : (UInt8.ofNat (n % 256)).toNat = n % 256 := by
      simp only [UInt8.toNat_ofNat']; omega
    rw [e, Nat.pow_succ, Nat.mul_comm (256 ^ k) 256, Nat.mod_mul]
    omega

/-- `negWidth m` bytes are enough for `-m`. -/
theorem negWidth_go_spec (m fuel k : Nat) (h : m ≤ 2 ^ (8 * (k + fuel) - 1)) :
    m ≤ 2 ^ (8 * negWidth.go m fuel k - 1) := by
  induction fuel generalizing k with
  | zero => simpa [negWidth.go] using h
  | succ f ih =>
    simp only [negWidth.go]
    split
    · assumption
    · exact ih (k + 1) (by rw [show k + 1 + f = k + (f + 1) by omega]; exact h)

theorem negWidth_spec (m : Nat) : m ≤ 2 ^ (8 * negWidth m - 1) := by
  unfold negWidth
  apply negWidth_go_spec
  have h1 : m < 2 ^ m := Nat.lt_two_pow_self
  have h2 : 2 ^ m ≤ 2 ^ (8 * (1 + (m + 1)) - 1) := Nat.pow_le_pow_right (by decide) (by omega)
  omega

theorem pow256 (w : Nat) : 256 ^ w = 2 ^ (8 * w) := by
  rw [Nat.pow_mul]

/-- a negative integer's encoding read unsigned is at least 128 (top bit of the first byte set). -/
theorem toNatBE_ofInt_negSucc_ge (n : Nat) : 128 ≤ toNatBE (ofInt (Int.negSucc n)) := by
  show 128 ≤ toNatBE (ofNatWidth (negWidth (n + 1)) (256 ^ negWidth (n + 1) - (n + 1)))
  rw [toNatBE_ofNatWidth]
  have hw := negWidth_pos (n + 1)
  have hs := negWidth_spec (n + 1)
  generalize negWidth (n + 1) = w at *
  have hp : 256 ^ w = 2 * 2 ^ (8 * w - 1) := by
    rw [pow256]
    have : 2 ^ (8 * w - 1 + 1) = 2 ^ (8 * w - 1) * 2 := Nat.pow_succ _ _
    rw [show 8 * w - 1 + 1 = 8 * w by omega] at this
    omega
  have h7 : 2 ^ 7 ≤ 2 ^ (8 * w - 1) := Nat.pow_le_pow_right (by decide) (by omega)
  rw [Nat.mod_eq_of_lt (by omega)]
  omega

end Bytes

namespace Ops

/-- `small_number` of an atom is its unsigned value. -/
theorem smallNumber_some {b : Bytes} {k : Nat} (h : smallNumber b = some k) : Bytes.toNatBE b = k := by
  unfold smallNumber at h
  split at h
  · exact Option.some.inj h
  · exact absurd h (by simp)

end Ops
