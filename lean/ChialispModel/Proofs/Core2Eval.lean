/-
  Proofs/Core2Eval.lean — basic facts about the core2 meaning `Core2.eval`: fuel
  monotonicity, and the fuel-free judgement `Ev` with its introduction rules.
-/
import ChialispModel.Lang.Core2
import ChialispModel.Proofs.Core2Compile

namespace Core2
open Core (OpsCore paramValue)

theorem eval_mono_succ (ops : OpSem) (fns : List FnDef) : ∀ n : Nat,
    (∀ pat args e v, eval ops fns n pat args e = .ok v → eval ops fns (n+1) pat args e = .ok v) ∧
    (∀ pat args es vs, evalArgs ops fns n pat args es = .ok vs → evalArgs ops fns (n+1) pat args es = .ok vs) := by
  intro n
  induction n with
  | zero => constructor <;> intros <;> simp_all [eval, evalArgs]
  | succ n ih =>
    obtain ⟨ihA, ihB⟩ := ih
    constructor
    · intro pat args e v he
      cases e with
      | var nm => simpa [eval] using he
      | lit w => simpa [eval] using he
      | argsv => simpa [eval] using he
      | op code as =>
        rw [eval] at he ⊢
        cases ha : evalArgs ops fns n pat args as with
        | error er => rw [ha] at he; simp at he
        | ok vs => rw [ha] at he; rw [ihB pat args as vs ha]; exact he
      | ite c a b =>
        rw [eval] at he ⊢
        cases hc : eval ops fns n pat args c with
        | error er => rw [hc] at he; simp at he
        | ok cv =>
          rw [hc] at he
          rw [ihA pat args c cv hc]
          simp only at he ⊢
          by_cases hn : Val.nilp cv = true
          · rw [if_pos hn] at he ⊢; exact ihA pat args b v he
          · rw [if_neg hn] at he ⊢; exact ihA pat args a v he
      | call f as =>
        rw [eval] at he ⊢
        cases hfd : findFn f fns with
        | none => rw [hfd] at he; simp [failR] at he
        | some fd =>
          rw [hfd] at he
          simp only at he ⊢
          cases ha : evalArgs ops fns n pat args as with
          | error er => rw [ha] at he; simp at he
          | ok vs =>
            rw [ha] at he
            rw [ihB pat args as vs ha]
            simp only at he ⊢
            by_cases hbo : bindsOk fd.params vs = true
            · rw [if_pos hbo] at he ⊢; exact ihA fd.params vs fd.body v he
            · rw [if_neg hbo] at he; simp [failR] at he
      | letE names es body =>
        rw [eval] at he ⊢
        cases ha : evalArgs ops fns n pat args es with
        | error er => rw [ha] at he; simp at he
        | ok vs =>
          rw [ha] at he
          rw [ihB pat args es vs ha]
          simp only at he ⊢
          by_cases hbo : bindsOk (.cons pat (namesPat names)) (.pair args vs) = true
          · rw [if_pos hbo] at he ⊢; exact ihA _ _ body v he
          · rw [if_neg hbo] at he; simp [failR] at he
    · intro pat args es vs he
      cases es with
      | nil => simpa [evalArgs] using he
      | cons e r =>
        rw [evalArgs] at he ⊢
        cases h1 : eval ops fns n pat args e with
        | error er => rw [h1] at he; simp at he
        | ok v1 =>
          rw [h1] at he
          rw [ihA pat args e v1 h1]
          simp only at he ⊢
          cases h2 : evalArgs ops fns n pat args r with
          | error er => rw [h2] at he; simp at he
          | ok v2 => rw [h2] at he; rw [ihB pat args r v2 h2]; exact he

theorem eval_mono (ops : OpSem) (fns : List FnDef) {n m : Nat} (h : n ≤ m) {pat : Rich} {args : Val} {e : Expr} {v : Val}
    (he : eval ops fns n pat args e = .ok v) : eval ops fns m pat args e = .ok v := by
  induction h with
  | refl => exact he
  | step _ ih => exact (eval_mono_succ ops fns _).1 _ _ _ _ ih

theorem evalArgs_mono (ops : OpSem) (fns : List FnDef) {n m : Nat} (h : n ≤ m) {pat : Rich} {args : Val} {es : Exprs} {vs : Val}
    (he : evalArgs ops fns n pat args es = .ok vs) : evalArgs ops fns m pat args es = .ok vs := by
  induction h with
  | refl => exact he
  | step _ ih => exact (eval_mono_succ ops fns _).2 _ _ _ _ ih

/-- the expression has value `v` (with some fuel). -/
def Ev (ops : OpSem) (fns : List FnDef) (pat : Rich) (args : Val) (e : Expr) (v : Val) : Prop :=
  ∃ n, eval ops fns n pat args e = .ok v

/-- the expression list has the list value `vs`. -/
def EvArgs (ops : OpSem) (fns : List FnDef) (pat : Rich) (args : Val) (es : Exprs) (vs : Val) : Prop :=
  ∃ n, evalArgs ops fns n pat args es = .ok vs

section Rules
variable {ops : OpSem} {fns : List FnDef} {pat : Rich} {args : Val}

theorem EvArgs.nil : EvArgs ops fns pat args .nil Val.nil := ⟨1, by simp [evalArgs]⟩

theorem EvArgs.cons {e : Expr} {r : Exprs} {v vs : Val} (h1 : Ev ops fns pat args e v)
    (h2 : EvArgs ops fns pat args r vs) : EvArgs ops fns pat args (.cons e r) (.pair v vs) := by
  obtain ⟨n1, h1⟩ := h1
  obtain ⟨n2, h2⟩ := h2
  refine ⟨max n1 n2 + 1, ?_⟩
  rw [evalArgs, eval_mono ops fns (Nat.le_max_left n1 n2) h1, evalArgs_mono ops fns (Nat.le_max_right n1 n2) h2]

theorem Ev.var {n : Bytes} {v : Val} (h : paramValue pat args n = some v) : Ev ops fns pat args (.var n) v :=
  ⟨1, by simp [eval, h]⟩

theorem Ev.lit (v : Val) : Ev ops fns pat args (.lit v) v := ⟨1, by simp [eval]⟩

theorem Ev.argsv : Ev ops fns pat args .argsv args := ⟨1, by simp [eval]⟩

theorem Ev.op {code : Nat} {as : Exprs} {vs v : Val} (h1 : EvArgs ops fns pat args as vs)
    (h2 : ops.apply [UInt8.ofNat code] vs = .ok v) : Ev ops fns pat args (.op code as) v := by
  obtain ⟨n, h1⟩ := h1
  exact ⟨n + 1, by rw [eval, h1]; exact h2⟩

theorem Ev.ite {c a b : Expr} {cv v : Val} (h1 : Ev ops fns pat args c cv)
    (h2 : Ev ops fns pat args (if Val.nilp cv then b else a) v) : Ev ops fns pat args (.ite c a b) v := by
  obtain ⟨n1, h1⟩ := h1
  obtain ⟨n2, h2⟩ := h2
  refine ⟨max n1 n2 + 1, ?_⟩
  rw [eval, eval_mono ops fns (Nat.le_max_left n1 n2) h1]
  simp only
  by_cases hn : Val.nilp cv = true
  · rw [if_pos hn] at h2 ⊢; exact eval_mono ops fns (Nat.le_max_right n1 n2) h2
  · rw [if_neg hn] at h2 ⊢; exact eval_mono ops fns (Nat.le_max_right n1 n2) h2

theorem Ev.call {f : Bytes} {fd : FnDef} {as : Exprs} {vs v : Val} (hf : findFn f fns = some fd)
    (h1 : EvArgs ops fns pat args as vs) (hb : bindsOk fd.params vs = true)
    (h2 : Ev ops fns fd.params vs fd.body v) : Ev ops fns pat args (.call f as) v := by
  obtain ⟨n1, h1⟩ := h1
  obtain ⟨n2, h2⟩ := h2
  refine ⟨max n1 n2 + 1, ?_⟩
  rw [eval, hf]
  simp only
  rw [evalArgs_mono ops fns (Nat.le_max_left n1 n2) h1]
  simp only
  rw [if_pos hb]
  exact eval_mono ops fns (Nat.le_max_right n1 n2) h2

theorem Ev.first (hfr : OpsFR ops) {cur : Expr} {x y : Val} (h : Ev ops fns pat args cur (.pair x y)) :
    Ev ops fns pat args (.op 5 (.cons cur .nil)) x :=
  Ev.op (EvArgs.cons h EvArgs.nil) (hfr.opFirst x y)

theorem Ev.rest (hfr : OpsFR ops) {cur : Expr} {x y : Val} (h : Ev ops fns pat args cur (.pair x y)) :
    Ev ops fns pat args (.op 6 (.cons cur .nil)) y :=
  Ev.op (EvArgs.cons h EvArgs.nil) (hfr.opRest x y)

theorem Ev.cons4 (hc : OpsCore ops) {a b : Expr} {x y : Val} (h1 : Ev ops fns pat args a x)
    (h2 : Ev ops fns pat args b y) : Ev ops fns pat args (.op 4 (.cons a (.cons b .nil))) (.pair x y) :=
  Ev.op (EvArgs.cons h1 (EvArgs.cons h2 EvArgs.nil)) (hc.opCons x y)

end Rules

end Core2
