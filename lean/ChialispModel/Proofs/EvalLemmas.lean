/-
  Proofs/EvalLemmas.lean — shared facts about the consensus evaluator model `Clvm.evalC`:
  fuel monotonicity (values and genuine failures are stable under more fuel), determinism of
  `Evaluates`, and fuel-free introduction / inversion lemmas for `Evaluates`, so that proofs
  about program transformations never have to mention fuel.
-/
import ChialispModel.Clvm.Eval

namespace Clvm

/-- a result that is not "out of fuel". -/
def Final (r : Res) : Prop := r ≠ .error .fuel

theorem final_ok (v : Val) : Final (.ok v) := by simp [Final]
theorem final_fail (t : String) : Final (.error (.fail t)) := by simp [Final]

/-- one more unit of fuel does not change a final result (all three mutually recursive functions). -/
theorem mono_succ (ops : OpSem) : ∀ n : Nat,
    (∀ p e r, evalC ops n p e = r → Final r → evalC ops (n + 1) p e = r) ∧
    (∀ op a r, applyC ops n op a = r → Final r → applyC ops (n + 1) op a = r) ∧
    (∀ a e r, evalArgsC ops n a e = r → Final r → evalArgsC ops (n + 1) a e = r) := by
  intro n
  induction n with
  | zero =>
    refine ⟨?_, ?_, ?_⟩ <;> intro _ _ r h hf <;> simp [evalC, applyC, evalArgsC] at h <;>
      exact absurd h.symm hf
  | succ n ih =>
    obtain ⟨ihE, ihA, ihL⟩ := ih
    refine ⟨?_, ?_, ?_⟩
    · intro p e r h hf
      cases p with
      | atom b => simpa [evalC] using h
      | pair hd args =>
        cases hd with
        | atom op =>
          rw [evalC] at h ⊢
          split
          · rename_i hq; simpa [hq] using h
          · rename_i hq
            simp only [hq, if_false] at h
            cases hl : evalArgsC ops n args e with
            | ok vals =>
              rw [hl] at h
              rw [ihL _ _ _ hl (final_ok _)]
              exact ihA _ _ _ h hf
            | error er =>
              rw [hl] at h
              have : Final (Except.error er : Res) := by rw [← h] at hf; exact hf
              rw [ihL _ _ _ hl this]; exact h
        | pair x xr =>
          cases xr with
          | atom b =>
            cases x with
            | atom xb =>
              rw [evalC] at h ⊢
              exact ihA _ _ _ h hf
            | pair _ _ =>
              rw [evalC.eq_4 _ _ _ _ _ _ (by intro b xb _ h2; cases h2)] at h ⊢
              exact h
          | pair _ _ =>
            rw [evalC.eq_4 _ _ _ _ _ _ (by intro b xb h1 _; cases h1)] at h ⊢
            exact h
    · intro op a r h hf
      rw [applyC] at h ⊢
      split
      · rename_i h2
        simp only [h2, if_true] at h
        cases ht : twoArgs a with
        | none => simpa [ht] using h
        | some pe =>
          obtain ⟨p, e⟩ := pe
          simp only [ht] at h ⊢
          exact ihE _ _ _ h hf
      · rename_i h2
        simpa [h2] using h
    · intro a e r h hf
      cases a with
      | atom b => simpa [evalArgsC] using h
      | pair x rest =>
        rw [evalArgsC] at h ⊢
        cases hl : evalArgsC ops n rest e with
        | ok rs =>
          rw [hl] at h
          rw [ihL _ _ _ hl (final_ok _)]
          simp only at h ⊢
          cases hx : evalC ops n x e with
          | ok v =>
            rw [hx] at h
            rw [ihE _ _ _ hx (final_ok _)]; exact h
          | error er =>
            rw [hx] at h
            have : Final (Except.error er : Res) := by
              simp only at h; rw [← h] at hf; exact hf
            rw [ihE _ _ _ hx this]; exact h
        | error er =>
          rw [hl] at h
          have : Final (Except.error er : Res) := by
            simp only at h; rw [← h] at hf; exact hf
          rw [ihL _ _ _ hl this]; exact h

/-- fuel monotonicity of `evalC` for every final result. -/
theorem evalC_mono_final {ops : OpSem} {n m : Nat} {p e : Val} {r : Res}
    (h : evalC ops n p e = r) (hf : Final r) (hnm : n ≤ m) : evalC ops m p e = r := by
  induction hnm with
  | refl => exact h
  | step _ ih => exact (mono_succ ops _).1 _ _ _ ih hf

theorem applyC_mono_final {ops : OpSem} {n m : Nat} {op : Bytes} {a : Val} {r : Res}
    (h : applyC ops n op a = r) (hf : Final r) (hnm : n ≤ m) : applyC ops m op a = r := by
  induction hnm with
  | refl => exact h
  | step _ ih => exact (mono_succ ops _).2.1 _ _ _ ih hf

theorem evalArgsC_mono_final {ops : OpSem} {n m : Nat} {a e : Val} {r : Res}
    (h : evalArgsC ops n a e = r) (hf : Final r) (hnm : n ≤ m) : evalArgsC ops m a e = r := by
  induction hnm with
  | refl => exact h
  | step _ ih => exact (mono_succ ops _).2.2 _ _ _ ih hf

/-- **fuel monotonicity** (values). -/
theorem evalC_mono {ops : OpSem} {n m : Nat} {p e v : Val}
    (h : evalC ops n p e = .ok v) (hnm : n ≤ m) : evalC ops m p e = .ok v :=
  evalC_mono_final h (final_ok v) hnm

/-- **fuel monotonicity** (genuine failures). -/
theorem evalC_mono_fail {ops : OpSem} {n m : Nat} {p e : Val} {t : String}
    (h : evalC ops n p e = .error (.fail t)) (hnm : n ≤ m) : evalC ops m p e = .error (.fail t) :=
  evalC_mono_final h (final_fail t) hnm

theorem applyC_mono {ops : OpSem} {n m : Nat} {op : Bytes} {a v : Val}
    (h : applyC ops n op a = .ok v) (hnm : n ≤ m) : applyC ops m op a = .ok v :=
  applyC_mono_final h (final_ok v) hnm

theorem evalArgsC_mono {ops : OpSem} {n m : Nat} {a e v : Val}
    (h : evalArgsC ops n a e = .ok v) (hnm : n ≤ m) : evalArgsC ops m a e = .ok v :=
  evalArgsC_mono_final h (final_ok v) hnm

/-- two final results of the same evaluation (any two amounts of fuel) are equal. -/
theorem evalC_final_unique {ops : OpSem} {n m : Nat} {p e : Val} {r s : Res}
    (h1 : evalC ops n p e = r) (hr : Final r) (h2 : evalC ops m p e = s) (hs : Final s) : r = s := by
  have a := evalC_mono_final h1 hr (Nat.le_max_left n m)
  have b := evalC_mono_final h2 hs (Nat.le_max_right n m)
  rw [a] at b; exact b

/-- `Evaluates` is deterministic. -/
theorem evaluates_unique {ops : OpSem} {p e v w : Val}
    (h1 : Evaluates ops p e v) (h2 : Evaluates ops p e w) : v = w := by
  obtain ⟨n, hn⟩ := h1
  obtain ⟨m, hm⟩ := h2
  have := evalC_final_unique hn (final_ok v) hm (final_ok w)
  cases this; rfl

/-- a program cannot both return and genuinely fail. -/
theorem evaluates_not_fails {ops : OpSem} {p e v : Val} {n : Nat} {t : String}
    (h1 : Evaluates ops p e v) (h2 : evalC ops n p e = .error (.fail t)) : False := by
  obtain ⟨m, hm⟩ := h1
  have := evalC_final_unique hm (final_ok v) h2 (final_fail t)
  cases this

-- fuel-free relations for operand lists and operator application --------------------------

def EvalArgs (ops : OpSem) (args env vals : Val) : Prop := ∃ n, evalArgsC ops n args env = .ok vals
def Applies (ops : OpSem) (op : Bytes) (operands v : Val) : Prop := ∃ n, applyC ops n op operands = .ok v

theorem evaluates_atom_iff {ops : OpSem} {b : Bytes} {e v : Val} :
    Evaluates ops (.atom b) e v ↔ Path.lookup b e = .ok v := by
  constructor
  · rintro ⟨n, h⟩
    cases n with
    | zero => simp [evalC] at h
    | succ n => simpa [evalC] using h
  · intro h; exact ⟨1, by simpa [evalC] using h⟩

theorem evaluates_quote_iff {ops : OpSem} {op : Bytes} {args e v : Val}
    (hq : Ops.smallNumber op = some 1) : Evaluates ops (.pair (.atom op) args) e v ↔ v = args := by
  constructor
  · rintro ⟨n, h⟩
    cases n with
    | zero => simp [evalC] at h
    | succ n => simp [evalC, hq] at h; exact h.symm
  · intro h; exact ⟨1, by simp [evalC, hq, h]⟩

theorem evaluates_op_iff {ops : OpSem} {op : Bytes} {args e v : Val}
    (hq : Ops.smallNumber op ≠ some 1) :
    Evaluates ops (.pair (.atom op) args) e v ↔
      ∃ vals, EvalArgs ops args e vals ∧ Applies ops op vals v := by
  constructor
  · rintro ⟨n, h⟩
    cases n with
    | zero => simp [evalC] at h
    | succ n =>
      rw [evalC] at h
      simp only [hq, if_false] at h
      cases hl : evalArgsC ops n args e with
      | ok vals => rw [hl] at h; exact ⟨vals, ⟨n, hl⟩, ⟨n, h⟩⟩
      | error er => rw [hl] at h; cases h
  · rintro ⟨vals, ⟨n, hn⟩, ⟨m, hm⟩⟩
    refine ⟨max n m + 1, ?_⟩
    rw [evalC]
    simp only [hq, if_false]
    rw [evalArgsC_mono hn (Nat.le_max_left n m)]
    exact applyC_mono hm (Nat.le_max_right n m)

theorem evalArgs_atom_iff {ops : OpSem} {b : Bytes} {e vals : Val} :
    EvalArgs ops (.atom b) e vals ↔ b = [] ∧ vals = Val.nil := by
  constructor
  · rintro ⟨n, h⟩
    cases n with
    | zero => simp [evalArgsC] at h
    | succ n =>
      rw [evalArgsC] at h
      cases b with
      | nil => simp at h; exact ⟨rfl, h.symm⟩
      | cons x xs => simp [failR] at h
  · rintro ⟨rfl, rfl⟩; exact ⟨1, by simp [evalArgsC]⟩

theorem evalArgs_pair_iff {ops : OpSem} {a rest e vals : Val} :
    EvalArgs ops (.pair a rest) e vals ↔
      ∃ v rs, vals = .pair v rs ∧ Evaluates ops a e v ∧ EvalArgs ops rest e rs := by
  constructor
  · rintro ⟨n, h⟩
    cases n with
    | zero => simp [evalArgsC] at h
    | succ n =>
      rw [evalArgsC] at h
      cases hl : evalArgsC ops n rest e with
      | ok rs =>
        rw [hl] at h
        cases hx : evalC ops n a e with
        | ok v =>
          rw [hx] at h
          simp only [Except.ok.injEq] at h
          exact ⟨v, rs, h.symm, ⟨n, hx⟩, ⟨n, hl⟩⟩
        | error er => rw [hx] at h; cases h
      | error er => rw [hl] at h; cases h
  · rintro ⟨v, rs, rfl, ⟨n, hn⟩, ⟨m, hm⟩⟩
    refine ⟨max n m + 1, ?_⟩
    rw [evalArgsC, evalArgsC_mono hm (Nat.le_max_right n m), evalC_mono hn (Nat.le_max_left n m)]

theorem applies_apply_iff {ops : OpSem} {op : Bytes} {operands v : Val}
    (h2 : Ops.smallNumber op = some 2) :
    Applies ops op operands v ↔ ∃ p e, twoArgs operands = some (p, e) ∧ Evaluates ops p e v := by
  constructor
  · rintro ⟨n, h⟩
    cases n with
    | zero => simp [applyC] at h
    | succ n =>
      rw [applyC] at h
      simp only [h2, if_true] at h
      cases ht : twoArgs operands with
      | none => rw [ht] at h; cases h
      | some pe =>
        obtain ⟨p, e⟩ := pe
        rw [ht] at h
        exact ⟨p, e, rfl, ⟨n, h⟩⟩
  · rintro ⟨p, e, ht, ⟨n, hn⟩⟩
    refine ⟨n + 1, ?_⟩
    rw [applyC]; simp only [h2, if_true, ht]; exact hn

theorem applies_op_iff {ops : OpSem} {op : Bytes} {operands v : Val}
    (h2 : Ops.smallNumber op ≠ some 2) (h36 : Ops.smallNumber op ≠ some 36) :
    Applies ops op operands v ↔ ops.apply op operands = .ok v := by
  constructor
  · rintro ⟨n, h⟩
    cases n with
    | zero => simp [applyC] at h
    | succ n => simpa [applyC, h2, h36] using h
  · intro h; exact ⟨1, by simpa [applyC, h2, h36] using h⟩

end Clvm
