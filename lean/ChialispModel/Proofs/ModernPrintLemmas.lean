/-
  Proofs/ModernPrintLemmas.lean — ATOM and TOKEN level for the modern reader on the tokens the
  modern printer emits (decimal, `0x…`, `"…"` with `escape_quote`), and the instantiation of the
  generic tree theorem: `parse_sexp (to_string r)` is one form with the CLVM value of `r`.
-/
import ChialispModel.Proofs.ModernLemmas
import ChialispModel.Proofs.PrinterLemmas

namespace Rich
open MReader Lex

-- characters -------------------------------------------------------------------------------------

theorem startCh_of_toNat {c : UInt8}
    (h : c.toNat ≠ 40 ∧ c.toNat ≠ 10 ∧ c.toNat ≠ 59 ∧ c.toNat ≠ 41 ∧ c.toNat ≠ 34 ∧ c.toNat ≠ 39 ∧ c.toNat ≠ 35 ∧
         c.toNat ≠ 46 ∧ ¬ (9 ≤ c.toNat ∧ c.toNat ≤ 13) ∧ c.toNat ≠ 32 ∧ c.toNat ≠ 133 ∧ c.toNat ≠ 160) : StartCh c := by
  obtain ⟨h40, h10, h59, h41, h34, h39, h35, h46, hr, h32, h133, h160⟩ := h
  have ne : ∀ k : UInt8, c.toNat ≠ k.toNat → c ≠ k := fun k hk e => hk (by rw [e])
  have n40 := ne 40 h40; have n10 := ne 10 h10; have n59 := ne 59 h59; have n41 := ne 41 h41
  have n34 := ne 34 h34; have n39 := ne 39 h39; have n35 := ne 35 h35; have n46 := ne 46 h46
  have n32 := ne 32 h32; have n133 := ne 133 h133; have n160 := ne 160 h160
  have hw : isWhitespace c = false := by
    simp only [isWhitespace, Bool.or_eq_false_iff, Bool.and_eq_false_iff, decide_eq_false_iff_not,
      beq_eq_false_iff_ne]
    refine ⟨⟨⟨?_, n32⟩, n133⟩, n160⟩
    omega
  refine ⟨?_, n46, n41, n40⟩
  simp [stepFlat, n40, n10, n59, n41, n34, n39, n35, hw]

theorem wordCh_of_toNat {c : UInt8}
    (h : c.toNat ≠ 41 ∧ ¬ (9 ≤ c.toNat ∧ c.toNat ≤ 13) ∧ c.toNat ≠ 32 ∧ c.toNat ≠ 133 ∧ c.toNat ≠ 160) : WordCh c := by
  obtain ⟨h41, hr, h32, h133, h160⟩ := h
  have ne : ∀ k : UInt8, c.toNat ≠ k.toNat → c ≠ k := fun k hk e => hk (by rw [e])
  refine ⟨?_, ne 41 h41⟩
  simp only [isWhitespace, Bool.or_eq_false_iff, Bool.and_eq_false_iff, decide_eq_false_iff_not,
    beq_eq_false_iff_ne]
  refine ⟨⟨⟨?_, ne 32 h32⟩, ne 133 h133⟩, ne 160 h160⟩
  omega

theorem numCh_startCh {c : UInt8} (h : IsNumCh c) : StartCh c :=
  startCh_of_toNat (by have := IR.numCh_toNat h; omega)

theorem numCh_wordCh {c : UInt8} (h : IsNumCh c) : WordCh c :=
  wordCh_of_toNat (by have := IR.numCh_toNat h; omega)

theorem hexCh_wordCh {c : UInt8} (h : IsHexCh c) : WordCh c :=
  wordCh_of_toNat (by unfold IsHexCh at h; omega)

-- decimal tokens ---------------------------------------------------------------------------------

theorem dig_isDigit {c : UInt8} (h : IsDig c) : isDigit c = true := by
  simp [isDigit, h.1, h.2]

theorem isDec_intToDec (i : Int) : isDec (intToDec i) = true := by
  cases i with
  | ofNat n =>
    obtain ⟨c, r, hs, hc, hr⟩ := natToDec_cons n
    have h45 : c ≠ 45 := by intro e; subst e; unfold IsDig at hc; revert hc; decide
    simp only [intToDec, hs, isDec]
    have hall : (c :: r).all isDigit = true := by
      simp only [List.all_cons, dig_isDigit hc, Bool.true_and, List.all_eq_true]
      exact fun x hx => dig_isDigit (hr x hx)
    split
    · rename_i heq; simp only [List.cons.injEq] at heq; exact absurd heq.1 h45
    · simp [hall, h45]
  | negSucc n =>
    obtain ⟨c, r, hs, hc, hr⟩ := natToDec_cons (n + 1)
    simp only [intToDec, hs, isDec]
    have hall : (c :: r).all isDigit = true := by
      simp only [List.all_cons, dig_isDigit hc, Bool.true_and, List.all_eq_true]
      exact fun x hx => dig_isDigit (hr x hx)
    simp [hall]

theorem isHex_num (tok : Bytes) (h : ∀ c ∈ tok, IsNumCh c) : isHex tok = false := by
  unfold isHex
  split
  · have := IR.numCh_toNat (h 120 (by simp))
    simp at this
  · rfl

/-- ATOM level, modern reader, decimal -/
theorem makeAtom_intToDec (i : Int) : makeAtom (intToDec i) = (if i == 0 then Rich.nil else Rich.int i) := by
  obtain ⟨c, r, hs, hc, _⟩ := intToDec_cons i
  have h35 : c ≠ 35 := by
    intro e; subst e
    have := IR.numCh_toNat hc; simp at this
  have hm : makeAtom (intToDec i) = classify (intToDec i) := by
    rw [hs]; unfold makeAtom
    split
    · rename_i heq; simp only [List.cons.injEq] at heq; exact absurd heq.1 h35
    · rfl
  rw [hm]
  simp [classify, isHex_num _ (intToDec_chars i), isDec_intToDec, fromDec, parseBigInt_intToDec]

theorem leafM_int (i : Int) : LeafM (intToDec i) (if i == 0 then Rich.nil else Rich.int i) := by
  obtain ⟨c, r, hs, hc, hr⟩ := intToDec_cons i
  exact Or.inl ⟨⟨c, r, hs, numCh_startCh hc, fun x hx => numCh_wordCh (hr x hx)⟩, makeAtom_intToDec i⟩

-- hex tokens -------------------------------------------------------------------------------------

/-- ATOM level, modern reader, hex -/
theorem makeAtom_hex (s : Bytes) : makeAtom (48 :: 120 :: toHex s) = Rich.qstr 120 s := by
  have hl : (48 :: 120 :: toHex s).length % 2 = 0 := by
    simp only [List.length_cons, toHex_length]; omega
  have hm : makeAtom (48 :: 120 :: toHex s) = classify (48 :: 120 :: toHex s) := by
    unfold makeAtom
    split
    · rename_i heq; simp at heq
    · rfl
  rw [hm]
  simp only [classify, isHex, if_true, fromHex]
  rw [if_neg (by rw [hl]; decide)]
  simp [ofHexLossy_toHex]

theorem leafM_hex (s : Bytes) : LeafM (48 :: 120 :: toHex s) (Rich.qstr 120 s) := by
  refine Or.inl ⟨⟨48, 120 :: toHex s, rfl, startCh_of_toNat (by decide), ?_⟩, makeAtom_hex s⟩
  intro x hx
  simp only [List.mem_cons] at hx
  rcases hx with rfl | hx
  · exact wordCh_of_toNat (by decide)
  · exact hexCh_wordCh (toHex_chars s x hx)

-- quoted tokens ------------------------------------------------------------------------------------

/-- the machine undoes `escape_quote` on strings without `"` and backslash -/
theorem CR_escapeQuote (q : UInt8) (s acc : Bytes) (h : ∀ c ∈ s, c ≠ 34 ∧ c ≠ 92) :
    CR (.quoted 34 acc) (escapeQuote q s) (.quoted 34 (acc ++ s)) := by
  induction s generalizing acc with
  | nil => simpa [escapeQuote] using CR.nil _
  | cons x xs ih =>
    obtain ⟨h1, h2⟩ := h x (by simp)
    have ih' := ih (acc ++ [x]) (fun c hc => h c (by simp [hc]))
    simp only [List.append_assoc, List.singleton_append] at ih'
    simp only [escapeQuote]
    split
    · refine CR.cons (s1 := .quotedEsc 34 acc) trivial (by simp [step, stepFlat])
        (CR.cons (s1 := .quoted 34 (acc ++ [x])) trivial (by simp [step, stepFlat]) ih')
    · exact CR.cons (s1 := .quoted 34 (acc ++ [x])) trivial (by simp [step, stepFlat, h1, h2]) ih'

theorem leafM_qstr (q : UInt8) (s : Bytes) (hp : printable s true = true) :
    LeafM (34 :: (escapeQuote q s ++ [34])) (Rich.qstr 34 s) := by
  refine Or.inr ⟨s, ⟨escapeQuote q s, rfl, ?_⟩, rfl⟩
  simpa using CR_escapeQuote q s [] (fun c hc => printable_mem hp hc)

-- the printed-token tree with the values the modern reader produces ----------------------------------

/-- what the modern reader produces for the printed token of a non-cons value -/
def rereadOf : Rich → Rich
  | .int i => if i == 0 then .nil else .int i
  | .qstr _ s => if printable s true then .qstr 34 s else .qstr 120 s
  | _ => .nil

def leafOfM (x : Rich) : TT Rich :=
  match x with
  | .nil => .nil
  | .atom _ => .nil
  | x => .leaf (printAtom x) (rereadOf x)

mutual
def ofRichM : Rich → TT Rich
  | .cons a d => .cons (ofRichM a) (ofRichTailM d)
  | .nil => leafOfM .nil
  | .int v => leafOfM (.int v)
  | .qstr q s => leafOfM (.qstr q s)
  | .atom a => leafOfM (.atom a)
def ofRichTailM : Rich → TT Rich
  | .cons b c => .cons (ofRichM b) (ofRichTailM c)
  | .nil => .nil
  | .int v => if nilp (.int v) then .nil else leafOfM (.int v)
  | .qstr q s => if nilp (.qstr q s) then .nil else leafOfM (.qstr q s)
  | .atom a => if nilp (.atom a) then .nil else leafOfM (.atom a)
end

theorem ofRichM_text (r : Rich) (h : NoBareAtom r = true) :
    TT.start (ofRichM r) = print r ∧ TT.rest (ofRichTailM r) = printTail r ++ [41] := by
  induction r with
  | cons a d iha ihd =>
    simp only [NoBareAtom, Bool.and_eq_true] at h
    obtain ⟨ha, _⟩ := iha h.1
    obtain ⟨_, hd⟩ := ihd h.2
    simp [ofRichM, ofRichTailM, TT.start, TT.rest, print, printTail, ha, hd]
  | nil => simp [ofRichM, ofRichTailM, leafOfM, TT.start, TT.rest, print, printTail, printAtom]
  | int v =>
    constructor
    · simp [ofRichM, leafOfM, TT.start, print]
    · simp only [ofRichTailM, printTail]
      split <;> simp [leafOfM, TT.rest]
  | qstr q s =>
    constructor
    · simp [ofRichM, leafOfM, TT.start, print]
    · simp only [ofRichTailM, printTail]
      split <;> simp [leafOfM, TT.rest]
  | atom a =>
    simp only [NoBareAtom] at h
    have : a = [] := by cases a <;> simp_all
    subst this
    simp [ofRichM, ofRichTailM, leafOfM, TT.start, TT.rest, print, printTail, printAtom, nilp]

theorem leafOfM_ok (x : Rich) (hc : ∀ a d, x ≠ .cons a d) : TT.AllLeaves LeafM (leafOfM x) := by
  cases x with
  | cons a d => exact absurd rfl (hc a d)
  | nil => trivial
  | atom b => trivial
  | int i => exact leafM_int i
  | qstr q s =>
    show LeafM (printAtom (.qstr q s)) (rereadOf (.qstr q s))
    simp only [printAtom, rereadOf]
    split
    · rename_i hp; exact leafM_qstr q s hp
    · exact leafM_hex s

theorem ofRichM_leaves (r : Rich) : TT.AllLeaves LeafM (ofRichM r) ∧ TT.AllLeaves LeafM (ofRichTailM r) := by
  induction r with
  | cons a d iha ihd => exact ⟨⟨iha.1, ihd.2⟩, ⟨iha.1, ihd.2⟩⟩
  | nil => exact ⟨trivial, trivial⟩
  | int v =>
    refine ⟨leafOfM_ok _ (by intros; simp), ?_⟩
    simp only [ofRichTailM]; split
    · trivial
    · exact leafOfM_ok _ (by intros; simp)
  | qstr q s =>
    refine ⟨leafOfM_ok _ (by intros; simp), ?_⟩
    simp only [ofRichTailM]; split
    · trivial
    · exact leafOfM_ok _ (by intros; simp)
  | atom a =>
    refine ⟨leafOfM_ok _ (by intros; simp), ?_⟩
    simp only [ofRichTailM]; split
    · trivial
    · exact leafOfM_ok _ (by intros; simp)

theorem clvm_leafOfM (x : Rich) (hc : ∀ a d, x ≠ .cons a d) (h : NoBareAtom x = true) :
    toClvm true (val (leafOfM x)) = toClvm true x := by
  cases x with
  | cons a d => exact absurd rfl (hc a d)
  | nil => rfl
  | atom b =>
    simp only [NoBareAtom] at h
    have : b = [] := by cases b <;> simp_all
    subst this; rfl
  | int i =>
    simp only [leafOfM, val, rereadOf]
    by_cases hi : i = 0
    · subst hi; rfl
    · simp [hi]
  | qstr q s =>
    simp only [leafOfM, val, rereadOf]
    split <;> rfl

theorem clvm_ofRichM (r : Rich) (h : NoBareAtom r = true) :
    toClvm true (val (ofRichM r)) = toClvm true r ∧ toClvm true (val (ofRichTailM r)) = toClvm true r := by
  induction r with
  | cons a d iha ihd =>
    simp only [NoBareAtom, Bool.and_eq_true] at h
    have ha := (iha h.1).1
    have hd := (ihd h.2).2
    simp [ofRichM, ofRichTailM, val, toClvm, ha, hd]
  | nil => exact ⟨rfl, rfl⟩
  | int v =>
    refine ⟨clvm_leafOfM _ (by intros; simp) h, ?_⟩
    simp only [ofRichTailM]; split
    · rename_i hn; rw [nilp_toClvm _ (by intros; simp) hn]; rfl
    · exact clvm_leafOfM _ (by intros; simp) h
  | qstr q s =>
    refine ⟨clvm_leafOfM _ (by intros; simp) h, ?_⟩
    simp only [ofRichTailM]; split
    · rename_i hn; rw [nilp_toClvm _ (by intros; simp) hn]; rfl
    · exact clvm_leafOfM _ (by intros; simp) h
  | atom a =>
    refine ⟨clvm_leafOfM _ (by intros; simp) h, ?_⟩
    simp only [ofRichTailM]; split
    · rename_i hn; rw [nilp_toClvm _ (by intros; simp) hn]; rfl
    · exact clvm_leafOfM _ (by intros; simp) h

/-- what `parse_sexp (to_string r)` returns -/
def reread (r : Rich) : Rich := val (ofRichM r)

/-- the modern reader reads the modern print of `r` as exactly one form with the CLVM value of `r` -/
theorem parse_print (r : Rich) (h : NoBareAtom r = true) :
    parse (print r) = .ok [reread r] ∧ toClvm true (reread r) = toClvm true r := by
  have ht := (ofRichM_text r h).1
  have hp := parse_tree (ofRichM r) (ofRichM_leaves r).1
  rw [ht] at hp
  exact ⟨hp, (clvm_ofRichM r h).1⟩

end Rich
