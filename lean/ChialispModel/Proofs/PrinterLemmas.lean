/-
  Proofs/PrinterLemmas.lean — the modern printer as a printed-token tree; the CLASSIC assembler
  reads the modern print of every rich value without bare (unquoted) atoms back to its CLVM value;
  `convert_from_clvm_rs` in the fixed mode produces no bare atoms.
-/
import ChialispModel.Text.Printer
import ChialispModel.Proofs.IRLemmas
import ChialispModel.Proofs.PosIntLemmas
import ChialispModel.Proofs.RichLemmas

namespace Rich
open IR Lex

/-- no non-empty bare `Atom` anywhere (what `convert_from_clvm_rs` in the fixed mode produces,
    and what the reader produces for numbers, hex constants and strings) -/
def NoBareAtom : Rich → Bool
  | .atom b => b.isEmpty
  | .cons a d => NoBareAtom a && NoBareAtom d
  | _ => true

/-- the IR value the classic reader produces for the printed token of a non-cons value -/
def irOf : Rich → IR
  | .int i => .int (Bytes.ofIntClvm i) true
  | .qstr _ s => if printable s true then .quotes s else .hex s
  | _ => .null

/-- printed-token tree of a value in element position -/
def leafOf (x : Rich) : TT IR :=
  match x with
  | .nil => .nil
  | .atom _ => .nil
  | x => .leaf (printAtom x) (irOf x)

mutual
def ofRich : Rich → TT IR
  | .cons a d => .cons (ofRich a) (ofRichTail d)
  | .nil => leafOf .nil
  | .int v => leafOf (.int v)
  | .qstr q s => leafOf (.qstr q s)
  | .atom a => leafOf (.atom a)
def ofRichTail : Rich → TT IR
  | .cons b c => .cons (ofRich b) (ofRichTail c)
  | .nil => .nil
  | .int v => if nilp (.int v) then .nil else leafOf (.int v)
  | .qstr q s => if nilp (.qstr q s) then .nil else leafOf (.qstr q s)
  | .atom a => if nilp (.atom a) then .nil else leafOf (.atom a)
end

theorem ofRich_text (r : Rich) (h : NoBareAtom r = true) :
    TT.start (ofRich r) = print r ∧ TT.rest (ofRichTail r) = printTail r ++ [41] := by
  induction r with
  | cons a d iha ihd =>
    simp only [NoBareAtom, Bool.and_eq_true] at h
    obtain ⟨ha, _⟩ := iha h.1
    obtain ⟨_, hd⟩ := ihd h.2
    simp [ofRich, ofRichTail, TT.start, TT.rest, print, printTail, ha, hd]
  | nil => simp [ofRich, ofRichTail, leafOf, TT.start, TT.rest, print, printTail, printAtom]
  | int v =>
    constructor
    · simp [ofRich, leafOf, TT.start, print]
    · simp only [ofRichTail, printTail]
      split <;> simp [leafOf, TT.rest]
  | qstr q s =>
    constructor
    · simp [ofRich, leafOf, TT.start, print]
    · simp only [ofRichTail, printTail]
      split <;> simp [leafOf, TT.rest]
  | atom a =>
    simp only [NoBareAtom] at h
    have : a = [] := by cases a <;> simp_all
    subst this
    simp [ofRich, ofRichTail, leafOf, TT.start, TT.rest, print, printTail, printAtom, nilp]

-- leaves -----------------------------------------------------------------------------------------

theorem printable_mem {s : Bytes} (h : printable s true = true) {c : UInt8} (hc : c ∈ s) : c ≠ 34 ∧ c ≠ 92 := by
  simp only [printable, Bool.not_eq_true', List.any_eq_false, Bool.not_true, Bool.false_and, Bool.or_false,
    Bool.or_eq_true, not_or, beq_iff_eq, Bool.not_eq_true] at h
  have := h c hc
  exact ⟨this.1.2, this.2⟩

/-- the classic reader undoes `escape_quote` on strings without `"` and backslash -/
theorem consumeQuoted_escapeQuote (q : UInt8) (s acc K : Bytes) (h : ∀ c ∈ s, c ≠ 34 ∧ c ≠ 92) :
    consumeQuoted 34 false acc (escapeQuote q s ++ 34 :: K) = .ok (.quotes (acc ++ s), K) := by
  induction s generalizing acc with
  | nil => simp [escapeQuote, consumeQuoted]
  | cons x xs ih =>
    obtain ⟨h1, h2⟩ := h x (by simp)
    have ih' := fun acc => ih acc (fun c hc => h c (by simp [hc]))
    simp only [escapeQuote]
    split
    · simp only [List.cons_append, consumeQuoted, beq_self_eq_true, if_true]
      rw [ih']; simp
    · simp only [List.cons_append, consumeQuoted, h1, h2, beq_iff_eq, if_false]
      rw [ih']; simp

theorem leafOK_qstr (q : UInt8) (s : Bytes) : LeafOK (printAtom (.qstr q s)) (irOf (.qstr q s)) := by
  simp only [printAtom, irOf]
  split
  · rename_i hp
    refine ⟨34, escapeQuote q s ++ [34], rfl, Or.inl ⟨by decide, ?_⟩⟩
    intro K
    have := consumeQuoted_escapeQuote q s [] K (fun c hc => printable_mem hp hc)
    simpa using this
  · rename_i hp
    apply leafOK_hex
    intro e; subst e; simp [printable] at hp

theorem leafOK_int (i : Int) : LeafOK (printAtom (.int i)) (irOf (.int i)) := leafOK_dec i

theorem leafOf_ok (x : Rich) (hc : ∀ a d, x ≠ .cons a d) : TT.AllLeaves LeafOK (leafOf x) := by
  cases x with
  | cons a d => exact absurd rfl (hc a d)
  | nil => trivial
  | atom b => trivial
  | int i => exact leafOK_int i
  | qstr q s => exact leafOK_qstr q s

theorem ofRich_leaves (r : Rich) : TT.AllLeaves LeafOK (ofRich r) ∧ TT.AllLeaves LeafOK (ofRichTail r) := by
  induction r with
  | cons a d iha ihd => exact ⟨⟨iha.1, ihd.2⟩, ⟨iha.1, ihd.2⟩⟩
  | nil => exact ⟨trivial, trivial⟩
  | int v =>
    refine ⟨leafOf_ok _ (by intros; simp), ?_⟩
    simp only [ofRichTail]; split
    · trivial
    · exact leafOf_ok _ (by intros; simp)
  | qstr q s =>
    refine ⟨leafOf_ok _ (by intros; simp), ?_⟩
    simp only [ofRichTail]; split
    · trivial
    · exact leafOf_ok _ (by intros; simp)
  | atom a =>
    refine ⟨leafOf_ok _ (by intros; simp), ?_⟩
    simp only [ofRichTail]; split
    · trivial
    · exact leafOf_ok _ (by intros; simp)

-- values -----------------------------------------------------------------------------------------

theorem asm_leafOf (x : Rich) (hc : ∀ a d, x ≠ .cons a d) (h : NoBareAtom x = true) :
    assembleFromIR (TT.toIR (leafOf x)) = toClvm true x := by
  cases x with
  | cons a d => exact absurd rfl (hc a d)
  | nil => rfl
  | atom b =>
    simp only [NoBareAtom] at h
    have : b = [] := by cases b <;> simp_all
    subst this; rfl
  | int i =>
    simp only [leafOf, TT.toIR, irOf, assembleFromIR, toClvm, Bytes.ofIntClvm, Bool.true_and]
    by_cases hi : i = 0 <;> simp [hi]
  | qstr q s =>
    simp only [leafOf, TT.toIR, irOf, toClvm]
    split <;> rfl

theorem nilp_toClvm (x : Rich) (hc : ∀ a d, x ≠ .cons a d) (h : nilp x = true) : toClvm true x = .atom [] := by
  cases x with
  | cons a d => exact absurd rfl (hc a d)
  | nil => rfl
  | atom b => simp only [nilp] at h; have : b = [] := by cases b <;> simp_all
              subst this; rfl
  | int i => simp only [nilp, beq_iff_eq] at h; subst h; rfl
  | qstr q s => simp only [nilp] at h; have : s = [] := by cases s <;> simp_all
                subst this; rfl

theorem asm_ofRich (r : Rich) (h : NoBareAtom r = true) :
    assembleFromIR (TT.toIR (ofRich r)) = toClvm true r ∧
    assembleFromIR (TT.toIR (ofRichTail r)) = toClvm true r := by
  induction r with
  | cons a d iha ihd =>
    simp only [NoBareAtom, Bool.and_eq_true] at h
    have ha := (iha h.1).1
    have hd := (ihd h.2).2
    simp [ofRich, ofRichTail, TT.toIR, assembleFromIR, toClvm, ha, hd]
  | nil => exact ⟨rfl, rfl⟩
  | int v =>
    refine ⟨asm_leafOf _ (by intros; simp) h, ?_⟩
    simp only [ofRichTail]; split
    · rename_i hn; rw [nilp_toClvm _ (by intros; simp) hn]; rfl
    · exact asm_leafOf _ (by intros; simp) h
  | qstr q s =>
    refine ⟨asm_leafOf _ (by intros; simp) h, ?_⟩
    simp only [ofRichTail]; split
    · rename_i hn; rw [nilp_toClvm _ (by intros; simp) hn]; rfl
    · exact asm_leafOf _ (by intros; simp) h
  | atom a =>
    refine ⟨asm_leafOf _ (by intros; simp) h, ?_⟩
    simp only [ofRichTail]; split
    · rename_i hn; rw [nilp_toClvm _ (by intros; simp) hn]; rfl
    · exact asm_leafOf _ (by intros; simp) h

/-- the classic assembler reads the modern print of `r` as the CLVM value of `r` -/
theorem assemble_print (r : Rich) (h : NoBareAtom r = true) : assemble (print r) = .ok (toClvm true r) := by
  have ht := (ofRich_text r h).1
  have hr := readIR_tree (ofRich r) (ofRich_leaves r).1
  rw [ht] at hr
  simp [assemble, hr, (asm_ofRich r h).1]

-- the fixed-mode converter produces no bare atoms ------------------------------------------------------

theorem printable_head {x : UInt8} {r : Bytes} (h : printable (x :: r) true = true) : x ≠ 0 ∧ x.toNat < 128 := by
  simp only [printable, Bool.not_eq_true', List.any_cons, Bool.or_eq_false_iff, Bool.not_true, Bool.false_and,
    Bool.or_false] at h
  have h1 := h.1.1.1.1
  have h2 := h.1.1.1.2
  simp only [decide_eq_false_iff_not, UInt8.not_lt, UInt8.le_iff_toNat_le] at h1 h2
  constructor
  · intro e; subst e; simp at h1
  · have : (126 : UInt8).toNat = 126 := rfl
    omega

theorem fromAtom_noBare (b : Bytes) : NoBareAtom (fromAtom true b) = true := by
  unfold fromAtom
  split
  · rfl
  · rename_i hne
    simp only
    split
    · split <;> rfl
    · rename_i hcanon
      split
      · rfl
      · rename_i hp
        exfalso
        have hp' : printable b true = true := by simpa using hp
        cases b with
        | nil => simp at hne
        | cons x r =>
          obtain ⟨h0, h1⟩ := printable_head hp'
          have := Bytes.ofInt_toInt_pos x r h0 h1
          simp [this] at hcanon

theorem fromClvm_noBare (v : Val) : NoBareAtom (fromClvm true v) = true := by
  induction v with
  | atom b => exact fromAtom_noBare b
  | pair a d iha ihd => simp [fromClvm, NoBareAtom, iha, ihd]

end Rich
