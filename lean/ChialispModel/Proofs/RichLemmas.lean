/-
  Proofs/RichLemmas.lean — lemmas behind Props/C07.lean.
-/
import ChialispModel.Text.Rich
import ChialispModel.Proofs.BytesLemmas

namespace RichLemmas
open Rich

theorem to_from_atom (m : Mode) (b : Bytes) : toClvm m (fromAtom m b) = .atom b := by
  unfold fromAtom
  split
  · rename_i h
    cases b with
    | nil => rfl
    | cons x xs => simp at h
  · simp only
    split
    · rename_i hne hb
      have hb' : Bytes.ofInt (Bytes.toInt b) = b := by simpa using hb
      split
      · simp [toClvm]
      · rename_i hm
        simp only [toClvm]
        split
        · rename_i hz
          simp only [Bool.and_eq_true, beq_iff_eq] at hz
          obtain ⟨hm1, hz1⟩ := hz
          rw [hz1, Bytes.ofInt_zero] at hb'
          simp [hm1, ← hb'] at hm
        · rw [hb']
    · split <;> simp [toClvm]

theorem to_from (m : Mode) (v : Val) : toClvm m (fromClvm m v) = v := by
  induction v with
  | atom b => simp [fromClvm, to_from_atom]
  | pair a d iha ihd => simp [fromClvm, toClvm, iha, ihd]

theorem hash_rich (m : Mode) (H : Bytes → Bytes) (r : Rich) :
    treeHash m H r = Val.treeHash H (toClvm m r) := by
  induction r with
  | nil => simp [treeHash, toClvm, Val.treeHash]
  | cons a d iha ihd => simp [treeHash, toClvm, Val.treeHash, iha, ihd]
  | int i =>
    simp only [treeHash, toClvm]
    split <;> simp [Val.treeHash]
  | qstr q b => simp [treeHash, toClvm, Val.treeHash]
  | atom b => simp [treeHash, toClvm, Val.treeHash]

/-- on readable non-cons values the fixed-mode CLVM atom is `atomBytes`. -/
theorem toClvm_atomBytes (r : Rich) (h : Readable r = true) (hc : ∀ a d, r ≠ .cons a d) :
    toClvm true r = .atom (atomBytes r) := by
  cases r with
  | nil => rfl
  | cons a d => exact absurd rfl (hc a d)
  | int i =>
    simp only [Readable, bne_iff_ne, ne_eq] at h
    simp [toClvm, atomBytes, h]
  | qstr q b => rfl
  | atom b => rfl

theorem table_hash (H : Bytes → Bytes) (r : Rich) (h : Readable r = true) :
    tableHash H r = Val.treeHash H (toClvm true r) := by
  induction r with
  | cons a d iha ihd =>
    simp only [Readable, Bool.and_eq_true] at h
    simp [tableHash, toClvm, Val.treeHash, iha h.1, ihd h.2]
  | nil => simp [tableHash, toClvm, Val.treeHash, atomBytes]
  | int i =>
    rw [toClvm_atomBytes _ h (by intro a d; simp)]
    simp [tableHash, Val.treeHash]
  | qstr q b => simp [tableHash, toClvm, Val.treeHash, atomBytes]
  | atom b => simp [tableHash, toClvm, Val.treeHash, atomBytes]

theorem fromAtom_readable (b : Bytes) : Readable (fromAtom true b) = true := by
  unfold fromAtom
  split
  · rfl
  · simp only
    split
    · rename_i hb
      have hb' : Bytes.ofInt (Bytes.toInt b) = b := by simpa using hb
      split
      · rfl
      · rename_i hm
        simp only [Readable, bne_iff_ne, ne_eq]
        intro hz
        rw [hz, Bytes.ofInt_zero] at hb'
        simp [← hb'] at hm
    · split <;> rfl

theorem fromClvm_readable (v : Val) : Readable (fromClvm true v) = true := by
  induction v with
  | atom b => simp [fromClvm, fromAtom_readable]
  | pair a d iha ihd => simp [fromClvm, Readable, iha, ihd]

/-- on readable non-cons values, `nilp` says exactly that `atomBytes` is empty. -/
theorem nilp_iff (r : Rich) (h : Readable r = true) (hc : ∀ a d, r ≠ .cons a d) :
    nilp r = true ↔ atomBytes r = [] := by
  cases r with
  | nil => simp [nilp, atomBytes]
  | cons a d => exact absurd rfl (hc a d)
  | int i =>
    simp only [Readable, bne_iff_ne, ne_eq] at h
    simp [nilp, atomBytes, h, Bytes.ofInt_ne_nil]
  | qstr q b => simp [nilp, atomBytes]
  | atom b => simp [nilp, atomBytes]

theorem equalTo_atoms (a b : Rich) (ha : Readable a = true) (hb : Readable b = true)
    (hca : ∀ x y, a ≠ .cons x y) (hcb : ∀ x y, b ≠ .cons x y) :
    equalTo a b = true ↔ atomBytes a = atomBytes b := by
  have e : equalTo a b = ((nilp a && nilp b) || (!nilp a && !nilp b && atomBytes a == atomBytes b)) := by
    cases a <;> cases b <;> first | rfl | (exfalso; first | exact hca _ _ rfl | exact hcb _ _ rfl)
  rw [e]
  have na := nilp_iff a ha hca
  have nb := nilp_iff b hb hcb
  cases hna : nilp a <;> cases hnb : nilp b <;> simp_all

theorem eq_iff_atoms (a b : Rich) (ha : Readable a = true) (hb : Readable b = true)
    (hca : ∀ x y, a ≠ .cons x y) (hcb : ∀ x y, b ≠ .cons x y) :
    equalTo a b = true ↔ toClvm true a = toClvm true b := by
  have h1 := toClvm_atomBytes a ha hca
  have h2 := toClvm_atomBytes b hb hcb
  rw [equalTo_atoms a b ha hb hca hcb]
  simp only [h1, h2, Val.atom.injEq]

theorem eq_iff (a b : Rich) (ha : Readable a = true) (hb : Readable b = true) :
    equalTo a b = true ↔ toClvm true a = toClvm true b := by
  induction a generalizing b with
  | cons x y ihx ihy =>
    simp only [Readable, Bool.and_eq_true] at ha
    cases b with
    | cons t u =>
      simp only [Readable, Bool.and_eq_true] at hb
      simp [equalTo, toClvm, ihx t ha.1 hb.1, ihy u ha.2 hb.2]
    | nil => simp [equalTo, toClvm]
    | int i => simp only [equalTo, toClvm]; split <;> simp
    | qstr q s => simp [equalTo, toClvm]
    | atom s => simp [equalTo, toClvm]
  | nil =>
    cases b with
    | cons t u => simp [equalTo, toClvm]
    | _ => exact eq_iff_atoms _ _ ha hb (by intros; simp) (by intros; simp)
  | int i =>
    cases b with
    | cons t u => simp only [equalTo, toClvm]; split <;> simp
    | _ => exact eq_iff_atoms _ _ ha hb (by intros; simp) (by intros; simp)
  | qstr q s =>
    cases b with
    | cons t u => simp [equalTo, toClvm]
    | _ => exact eq_iff_atoms _ _ ha hb (by intros; simp) (by intros; simp)
  | atom s =>
    cases b with
    | cons t u => simp [equalTo, toClvm]
    | _ => exact eq_iff_atoms _ _ ha hb (by intros; simp) (by intros; simp)

theorem hashKey_atoms (r : Rich) (hc : ∀ a d, r ≠ .cons a d) : hashKey r = [atomBytes r] := by
  cases r <;> first | rfl | exact absurd rfl (hc _ _)

theorem hash_atoms (a b : Rich) (ha : Readable a = true) (hb : Readable b = true)
    (hca : ∀ x y, a ≠ .cons x y) (hcb : ∀ x y, b ≠ .cons x y)
    (h : equalTo a b = true) : hashKey a = hashKey b := by
  rw [equalTo_atoms a b ha hb hca hcb] at h
  rw [hashKey_atoms a hca, hashKey_atoms b hcb, h]

theorem hash_respects_eq (a b : Rich) (ha : Readable a = true) (hb : Readable b = true)
    (h : equalTo a b = true) : hashKey a = hashKey b := by
  induction a generalizing b with
  | cons x y ihx ihy =>
    simp only [Readable, Bool.and_eq_true] at ha
    cases b with
    | cons t u =>
      simp only [Readable, Bool.and_eq_true] at hb
      simp only [equalTo, Bool.and_eq_true] at h
      simp [hashKey, ihx t ha.1 hb.1 h.1, ihy u ha.2 hb.2 h.2]
    | nil => simp [equalTo] at h
    | int i => simp [equalTo] at h
    | qstr q s => simp [equalTo] at h
    | atom s => simp [equalTo] at h
  | nil =>
    cases b with
    | cons t u => simp [equalTo] at h
    | _ => exact hash_atoms _ _ ha hb (by intros; simp) (by intros; simp) h
  | int i =>
    cases b with
    | cons t u => simp [equalTo] at h
    | _ => exact hash_atoms _ _ ha hb (by intros; simp) (by intros; simp) h
  | qstr q s =>
    cases b with
    | cons t u => simp [equalTo] at h
    | _ => exact hash_atoms _ _ ha hb (by intros; simp) (by intros; simp) h
  | atom s =>
    cases b with
    | cons t u => simp [equalTo] at h
    | _ => exact hash_atoms _ _ ha hb (by intros; simp) (by intros; simp) h

end RichLemmas
