/-
  Proofs/MatchLemmas.lean — soundness of `match_sexp` (pattern_match.rs): a successful match
  means the expression is an instance of the pattern under the returned bindings, and known
  bindings are only ever extended.  Instantiated for the eight patterns of optimize.rs.
-/
import ChialispModel.Opt.Classic
import ChialispModel.Proofs.OptBasics

namespace Opt

/-- binding environments only grow. -/
def Sub (a b : Bindings) : Prop := ∀ k v, lookupB k a = some v → lookupB k b = some v

theorem Sub.refl (a : Bindings) : Sub a a := fun _ _ h => h
theorem Sub.trans {a b c : Bindings} (h1 : Sub a b) (h2 : Sub b c) : Sub a c :=
  fun k v h => h2 k v (h1 k v h)

theorem unify_sound {kb bs : Bindings} {k : Bytes} {v : Val}
    (h : unifyBindings kb k v = some bs) : lookupB k bs = some v ∧ Sub kb bs := by
  unfold unifyBindings at h
  cases hl : lookupB k kb with
  | some b =>
    rw [hl] at h
    simp only at h
    split at h
    · rename_i hb
      have : b = v := by simpa using hb
      subst this
      simp only [Option.some.injEq] at h
      subst h
      exact ⟨hl, Sub.refl _⟩
    · cases h
  | none =>
    rw [hl] at h
    simp only [Option.some.injEq] at h
    subst h
    constructor
    · simp [lookupB]
    · intro k' v' h'
      simp only [lookupB]
      split
      · rename_i hk
        have : k = k' := by simpa using hk
        subst this
        rw [hl] at h'; cases h'
      · exact h'

/-- patterns in which a matcher `($ . n)` / `(: . n)` never uses `$` or `:` as the name `n`
    (true of every pattern in optimize.rs). -/
def WF : Val → Prop
  | .atom _ => True
  | .pair pl pr =>
    match pl, pr with
    | .atom la, .atom ra => (la = atomMatch ∨ la = sexpMatch) → (ra ≠ atomMatch ∧ ra ≠ sexpMatch)
    | _, _ => WF pl ∧ WF pr

/-- `s` is an instance of the pattern under the bindings. -/
def Inst : Val → Bindings → Val → Prop
  | .atom p, _, s => s = .atom p
  | .pair pl pr, bs, s =>
    match pl, pr with
    | .atom la, .atom ra =>
      if la = sexpMatch then lookupB ra bs = some s
      else if la = atomMatch then
        (∃ b, s = .atom b ∧ lookupB ra bs = some s) ∨ s = .pair (.atom la) (.atom ra)
      else s = .pair (.atom la) (.atom ra)
    | _, _ => ∃ sl sr, s = .pair sl sr ∧ Inst pl bs sl ∧ Inst pr bs sr

theorem Inst.mono {p : Val} {a b : Bindings} {s : Val} (hs : Sub a b) (h : Inst p a s) : Inst p b s := by
  induction p generalizing s with
  | atom x => simpa [Inst] using h
  | pair pl pr ihl ihr =>
    cases pl with
    | atom la =>
      cases pr with
      | atom ra =>
        simp only [Inst] at h ⊢
        split
        · rename_i hla; rw [if_pos hla] at h; exact hs _ _ h
        · rename_i hla
          rw [if_neg hla] at h
          split
          · rename_i hla2
            rw [if_pos hla2] at h
            rcases h with ⟨x, hx, hl⟩ | h
            · exact Or.inl ⟨x, hx, hs _ _ hl⟩
            · exact Or.inr h
          · rename_i hla2; rw [if_neg hla2] at h; exact h
      | pair c d =>
        simp only [Inst] at h ⊢
        obtain ⟨sl, sr, he, h1, h2⟩ := h
        exact ⟨sl, sr, he, ihl h1, ihr h2⟩
    | pair c d =>
      simp only [Inst] at h ⊢
      obtain ⟨sl, sr, he, h1, h2⟩ := h
      exact ⟨sl, sr, he, ihl h1, ihr h2⟩

theorem matchSexp_sound : ∀ (p s : Val) (kb bs : Bindings), WF p →
    matchSexp p s kb = some bs → Inst p bs s ∧ Sub kb bs := by
  intro p
  induction p with
  | atom x =>
    intro s kb bs _ h
    cases s with
    | atom a =>
      simp only [matchSexp] at h
      split at h
      · rename_i hx
        have : x = a := by simpa using hx
        simp only [Option.some.injEq] at h
        subst h; subst this
        exact ⟨rfl, Sub.refl _⟩
      · cases h
    | pair _ _ => simp [matchSexp] at h
  | pair pl pr ihl ihr =>
    intro s kb bs hwf h
    -- the generic pair/pair step
    have generic : ∀ sl sr, WF pl → WF pr →
        (matchSexp pl sl kb).bind (fun nb => matchSexp pr sr nb) = some bs →
        (∃ sl' sr', Val.pair sl sr = .pair sl' sr' ∧ Inst pl bs sl' ∧ Inst pr bs sr') ∧ Sub kb bs := by
      intro sl sr w1 w2 hb
      cases h1 : matchSexp pl sl kb with
      | none => rw [h1] at hb; cases hb
      | some nb =>
        rw [h1] at hb
        simp only [Option.bind] at hb
        obtain ⟨i1, s1⟩ := ihl sl kb nb w1 h1
        obtain ⟨i2, s2⟩ := ihr sr nb bs w2 hb
        exact ⟨⟨sl, sr, rfl, Inst.mono s2 i1, i2⟩, Sub.trans s1 s2⟩
    cases pl with
    | atom la =>
      cases pr with
      | atom ra =>
        simp only [WF] at hwf
        cases s with
        | atom sa =>
          simp only [matchSexp, matchLeafAtom] at h
          simp only [Inst]
          by_cases hA : la = atomMatch
          · have hne := (hwf (Or.inl hA)).1
            have hla : la ≠ sexpMatch := by rw [hA]; decide
            rw [if_pos (by simpa using hA), if_neg (by simpa using hne)] at h
            obtain ⟨hl, hs⟩ := unify_sound h
            rw [if_neg hla, if_pos hA]
            exact ⟨Or.inl ⟨sa, rfl, hl⟩, hs⟩
          · rw [if_neg (by simpa using hA)] at h
            by_cases hS : la = sexpMatch
            · have hne := (hwf (Or.inr hS)).2
              rw [if_pos (by simpa using hS)] at h
              rw [if_neg (by simp [hne])] at h
              obtain ⟨hl, hs⟩ := unify_sound h
              rw [if_pos hS]
              exact ⟨hl, hs⟩
            · rw [if_neg (by simpa using hS)] at h; cases h
        | pair sl sr =>
          simp only [matchSexp] at h
          simp only [Inst]
          by_cases hS : la = sexpMatch
          · have hne := (hwf (Or.inr hS)).2
            rw [if_pos (by simp [hS, hne])] at h
            obtain ⟨hl, hs⟩ := unify_sound h
            rw [if_pos hS]
            exact ⟨hl, hs⟩
          · rw [if_neg (by simp [hS])] at h
            obtain ⟨⟨sl', sr', he, i1, i2⟩, hs⟩ := generic sl sr trivial trivial h
            cases he
            simp only [Inst] at i1 i2
            rw [if_neg hS]
            refine ⟨?_, hs⟩
            split
            · exact Or.inr (by rw [i1, i2])
            · rw [i1, i2]
      | pair c d =>
        simp only [WF] at hwf
        cases s with
        | atom sa => simp [matchSexp] at h
        | pair sl sr =>
          simp only [matchSexp] at h
          simp only [Inst]
          exact generic sl sr hwf.1 hwf.2 h
    | pair c d =>
      simp only [WF] at hwf
      cases s with
      | atom sa => simp [matchSexp] at h
      | pair sl sr =>
        simp only [matchSexp] at h
        simp only [Inst]
        exact generic sl sr hwf.1 hwf.2 h

end Opt
