/-
  Proofs/PosIntLemmas.lean — atoms whose first byte is in 1..127 are the minimal encoding of
  their (positive) integer value: `u8_from_number(number_from_u8(b)) = b`.  Used to show that
  `convert_from_clvm_rs` in the fixed integer mode never produces a bare `Atom`.
-/
import ChialispModel.Base.Bytes
import ChialispModel.Proofs.ShortIntLemmas

namespace Bytes

theorem snocRec {motive : Bytes → Prop} (nil : motive [])
    (append_singleton : ∀ (xs : Bytes) (y : UInt8), motive xs → motive (xs ++ [y])) (b : Bytes) : motive b := by
  have h : ∀ l : Bytes, motive l.reverse := by
    intro l
    induction l with
    | nil => exact nil
    | cons y ys ih => simpa using append_singleton ys.reverse y ih
  simpa using h b.reverse

theorem toNatBE_snoc (b : Bytes) (y : UInt8) : toNatBE (b ++ [y]) = toNatBE b * 256 + y.toNat := by
  simp [toNatBE, List.foldl_append]

/-- no leading zero byte -/
def NoLeadZero : Bytes → Prop
  | [] => True
  | x :: _ => x ≠ 0

theorem noLeadZero_of_snoc (b : Bytes) (y : UInt8) (h : NoLeadZero (b ++ [y])) : NoLeadZero b := by
  cases b with
  | nil => trivial
  | cons x xs => exact h

theorem toNatBE_pos (b : Bytes) (hb : b ≠ []) (h : NoLeadZero b) : b.length ≤ toNatBE b := by
  induction b using snocRec with
  | nil => exact absurd rfl hb
  | append_singleton xs y ih =>
    rw [toNatBE_snoc, List.length_append, List.length_singleton]
    by_cases hx : xs = []
    · subst hx
      have hy : y ≠ 0 := h
      have : y.toNat ≠ 0 := fun e => hy (UInt8.toNat_inj.mp (by simpa using e))
      simp [toNatBE]; omega
    · have := ih hx (noLeadZero_of_snoc xs y h)
      have hl : 1 ≤ xs.length := by cases xs <;> simp_all
      omega

theorem ofNatBEAux_toNatBE (b : Bytes) (h : NoLeadZero b) (fuel : Nat) (hf : b.length ≤ fuel) :
    ofNatBEAux fuel (toNatBE b) = b := by
  induction b using snocRec generalizing fuel with
  | nil => simp [toNatBE, ofNatBEAux_zero]
  | append_singleton xs y ih =>
    rw [List.length_append, List.length_singleton] at hf
    obtain ⟨g, rfl⟩ : ∃ g, fuel = g + 1 := ⟨fuel - 1, by omega⟩
    have hy := y.toNat_lt
    rw [toNatBE_snoc]
    have hne : toNatBE xs * 256 + y.toNat ≠ 0 := by
      by_cases hx : xs = []
      · subst hx
        have hy0 : y ≠ 0 := h
        have : y.toNat ≠ 0 := fun e => hy0 (UInt8.toNat_inj.mp (by simpa using e))
        simp [toNatBE]; omega
      · have := toNatBE_pos xs hx (noLeadZero_of_snoc xs y h)
        have hl : 1 ≤ xs.length := by cases xs <;> simp_all
        omega
    simp only [ofNatBEAux, if_neg hne]
    have e1 : (toNatBE xs * 256 + y.toNat) / 256 = toNatBE xs := by omega
    have e2 : (toNatBE xs * 256 + y.toNat) % 256 = y.toNat := by omega
    rw [e1, e2, ih (noLeadZero_of_snoc xs y h) g (by omega)]
    simp

theorem ofNatBE_toNatBE (b : Bytes) (hb : b ≠ []) (h : NoLeadZero b) : ofNatBE (toNatBE b) = b :=
  ofNatBEAux_toNatBE b h _ (toNatBE_pos b hb h)

/-- an atom starting with a byte in 1..127 is the minimal signed encoding of its value -/
theorem ofInt_toInt_pos (x : UInt8) (r : Bytes) (h0 : x ≠ 0) (h1 : x.toNat < 128) :
    ofInt (toInt (x :: r)) = x :: r := by
  unfold toInt
  simp only
  rw [if_neg (by omega)]
  have e : ((toNatBE (x :: r) : Nat) : Int) = Int.ofNat (toNatBE (x :: r)) := rfl
  rw [e, ofInt_ofNat, ofNatBE_toNatBE (x :: r) (by simp) h0]
  unfold posBytes
  simp only
  rw [if_neg (by omega)]

end Bytes
