/-
  Proofs/Core2Expand.lean — inline expansion and let hoisting (`Core2.expand`) preserve the
  call-by-value meaning in the one direction the property needs: whenever the source
  expression has a value, the expanded expression has the same value (the expansion is
  call-by-name: it may duplicate or drop argument evaluations, never change a result).
-/
import ChialispModel.Proofs.Core2Pat

namespace Core2
open Lang
open Core (OpsCore paramValue toVal_ofVal)

/-- a `nameLookup` path selecting a value means the variable has that value. -/
theorem path_paramValue (pat : Rich) (hok : patOk pat = true) (args : Val) (ρ : Env)
    (hb : bindPat pat (SV.ofVal args) = some ρ) (n : Bytes) (p : Nat) (w : Val)
    (hn : nameLookup n pat = some p) (hl : Path.lookupNat p args = .ok w) :
    paramValue pat args n = some w := by
  obtain ⟨w', hw1, hw2⟩ := nameLookup_correct n pat hok p hn args ρ hb
  rw [hl] at hw2
  simp at hw2; subst hw2
  unfold paramValue
  rw [hb]
  simp only
  rw [hw1]
  simp only
  exact toVal_ofVal w

/-- the context realises the source environment `(pat, args)` inside the target
    environment `(tpat, targs)`: every name of `pat` is addressed by an expression that
    evaluates, there, to the value the name has here. -/
def Real (ops : OpSem) (FT : List FnDef) (pat : Rich) (args : Val) (tpat : Rich) (targs : Val) : Ctx → Prop
  | .top => tpat = pat ∧ targs = args
  | .inl as => ∀ n v w, nameLookup n pat = some v → Path.lookupNat v args = .ok w →
      ∃ t, argLookup n pat as = some (some t) ∧ Ev ops FT tpat targs t w

theorem real_subst {ops : OpSem} {FT : List FnDef} {pat : Rich} {args : Val} {tpat : Rich} {targs : Val}
    (hok : patOk pat = true) (ρ : Env) (hb : bindPat pat (SV.ofVal args) = some ρ)
    (ctx : Ctx) (hr : Real ops FT pat args tpat targs ctx) :
    ∀ n v w, nameLookup n pat = some v → Path.lookupNat v args = .ok w →
      ∃ t, substVar pat ctx n = some t ∧ Ev ops FT tpat targs t w := by
  intro n v w hn hl
  cases ctx with
  | top =>
    obtain ⟨h1, h2⟩ := hr
    subst h1; subst h2
    exact ⟨.var n, rfl, Ev.var (path_paramValue tpat hok targs ρ hb n v w hn hl)⟩
  | inl as =>
    obtain ⟨t, ht, hev⟩ := hr n v w hn hl
    exact ⟨t, by simp [substVar, ht], hev⟩

theorem bindsOk_some {pat : Rich} {args : Val} (h : bindsOk pat args = true) :
    ∃ ρ, bindPat pat (SV.ofVal args) = some ρ := by
  unfold bindsOk at h
  cases hb : bindPat pat (SV.ofVal args) with
  | none => rw [hb] at h; simp at h
  | some ρ => exact ⟨ρ, rfl⟩

theorem patWF_parts {pat : Rich} (h : patWF pat = true) :
    patOk pat = true ∧ ipatOk pat = true ∧ spineOk pat = true ∧ (patNames pat).Nodup := by
  simp only [patWF, Bool.and_eq_true] at h
  exact ⟨h.1.1.1, h.1.1.2, h.1.2, Core.nodupB_sound _ h.2⟩

/-- what `expandFns` produces for a non-inline function. -/
theorem expandFns_find (all : List FnDef) (fuel : Nat) : ∀ (L FT : List FnDef), expandFns all fuel L = some FT →
    ∀ f fd, findFn f L = some fd → fd.inline = false →
      ∃ fd', findFn f FT = some fd' ∧ fd'.params = fd.params ∧
        expand all fuel fd.params .top fd.body = some fd'.body := by
  intro L
  induction L with
  | nil => intro FT _ f fd h; simp [findFn] at h
  | cons x xs ih =>
    intro FT hE f fd hf hinl
    simp only [expandFns] at hE
    by_cases hx : x.inline = true
    · rw [if_pos hx] at hE
      simp only [findFn] at hf
      split at hf
      · simp at hf; subst hf; rw [hx] at hinl; simp at hinl
      · exact ih FT hE f fd hf hinl
    · rw [if_neg hx] at hE
      cases hb : expand all fuel x.params .top x.body with
      | none => rw [hb] at hE; simp at hE
      | some b =>
        cases hr : expandFns all fuel xs with
        | none => rw [hb, hr] at hE; simp at hE
        | some fs =>
          rw [hb, hr] at hE
          simp at hE; subst hE
          simp only [findFn] at hf ⊢
          split at hf
          · rename_i hn
            simp at hf; subst hf
            simp only [hn, if_true]
            exact ⟨_, rfl, rfl, hb⟩
          · rename_i hn
            simp only [hn]
            exact ih fs hr f fd hf hinl

section Main
variable (ops : OpSem) (hc : OpsCore ops) (hfr : OpsFR ops) (FS FT : List FnDef)

/-- EXPANSION LEMMA (substitution lemma): source value ⇒ the expansion has the same value
    in the target environment, for expressions and expression lists, by induction on the
    source fuel. -/
theorem expand_sound (hc : OpsCore ops) (hfr : OpsFR ops)
    (hFS : ∀ f fd, findFn f FS = some fd → patWF fd.params = true ∧ exprWF fd.params fd.body = true)
    (hFT : ∀ f fd, findFn f FS = some fd → fd.inline = false →
      ∃ fd' k, findFn f FT = some fd' ∧ fd'.params = fd.params ∧ expand FS k fd.params .top fd.body = some fd'.body) :
    ∀ n : Nat,
      (∀ (k : Nat) (pat : Rich) (args : Val) (ctx : Ctx) (e t : Expr) (v : Val) (tpat : Rich) (targs : Val),
        patWF pat = true → bindsOk pat args = true → exprWF pat e = true →
        Real ops FT pat args tpat targs ctx →
        expand FS k pat ctx e = some t → eval ops FS n pat args e = .ok v →
        Ev ops FT tpat targs t v) ∧
      (∀ (k : Nat) (pat : Rich) (args : Val) (ctx : Ctx) (es ts : Exprs) (vs : Val) (tpat : Rich) (targs : Val),
        patWF pat = true → bindsOk pat args = true → exprsWF pat es = true →
        Real ops FT pat args tpat targs ctx →
        expandArgs FS k pat ctx es = some ts → evalArgs ops FS n pat args es = .ok vs →
        EvArgs ops FT tpat targs ts vs) := by
  intro n
  induction n with
  | zero => constructor <;> intros <;> simp_all [eval, evalArgs]
  | succ n ih =>
    obtain ⟨ihA, ihB⟩ := ih
    constructor
    · intro k pat args ctx e t v tpat targs hpw hbo hwf hr hx he
      obtain ⟨hpok, hipok, hspine, hnodup⟩ := patWF_parts hpw
      obtain ⟨ρ, hρ⟩ := bindsOk_some hbo
      cases k with
      | zero => simp [expand] at hx
      | succ k =>
        cases e with
        | var nm =>
          simp only [eval] at he
          simp only [expand] at hx
          cases hv : paramValue pat args nm with
          | none => rw [hv] at he; simp [failR] at he
          | some w =>
            rw [hv] at he; simp at he; subst he
            obtain ⟨p, hp1, hp2⟩ := paramValue_path pat hpok args ρ hρ nm w hv
            obtain ⟨t', ht', hev⟩ := real_subst hpok ρ hρ ctx hr nm p w hp1 hp2
            rw [hx] at ht'; simp at ht'; subst ht'
            exact hev
        | lit w =>
          simp only [eval] at he
          simp only [expand] at hx
          simp at he hx; subst he; subst hx
          exact Ev.lit _
        | argsv => simp [exprWF] at hwf
        | op code as =>
          simp only [eval] at he
          simp only [expand] at hx
          simp only [exprWF, Bool.and_eq_true] at hwf
          cases hxs : expandArgs FS k pat ctx as with
          | none => rw [hxs] at hx; simp at hx
          | some ts =>
            rw [hxs] at hx; simp at hx; subst hx
            cases ha : evalArgs ops FS n pat args as with
            | error er => rw [ha] at he; simp at he
            | ok vs =>
              rw [ha] at he
              exact Ev.op (ihB k pat args ctx as ts vs tpat targs hpw hbo hwf.2 hr hxs ha) he
        | ite c a b =>
          simp only [eval] at he
          simp only [expand] at hx
          simp only [exprWF, Bool.and_eq_true] at hwf
          cases h1 : expand FS k pat ctx c with
          | none => rw [h1] at hx; simp at hx
          | some c' =>
            cases h2 : expand FS k pat ctx a with
            | none => rw [h1, h2] at hx; simp at hx
            | some a' =>
              cases h3 : expand FS k pat ctx b with
              | none => rw [h1, h2, h3] at hx; simp at hx
              | some b' =>
                rw [h1, h2, h3] at hx; simp at hx; subst hx
                cases hcv : eval ops FS n pat args c with
                | error er => rw [hcv] at he; simp at he
                | ok cv =>
                  rw [hcv] at he
                  simp only at he
                  apply Ev.ite (ihA k pat args ctx c c' cv tpat targs hpw hbo hwf.1.1 hr h1 hcv)
                  by_cases hn : Val.nilp cv = true
                  · rw [if_pos hn] at he ⊢
                    exact ihA k pat args ctx b b' v tpat targs hpw hbo hwf.2 hr h3 he
                  · rw [if_neg hn] at he ⊢
                    exact ihA k pat args ctx a a' v tpat targs hpw hbo hwf.1.2 hr h2 he
        | call f as =>
          simp only [eval] at he
          simp only [expand] at hx
          simp only [exprWF] at hwf
          cases hfd : findFn f FS with
          | none => rw [hfd] at he; simp [failR] at he
          | some fd =>
            rw [hfd] at he hx
            simp only at he hx
            cases hxs : expandArgs FS k pat ctx as with
            | none => rw [hxs] at hx; simp at hx
            | some as' =>
              rw [hxs] at hx
              simp only at hx
              cases ha : evalArgs ops FS n pat args as with
              | error er => rw [ha] at he; simp at he
              | ok vs =>
                rw [ha] at he
                simp only at he
                have hargs := ihB k pat args ctx as as' vs tpat targs hpw hbo hwf hr hxs ha
                by_cases hbo' : bindsOk fd.params vs = true
                · rw [if_pos hbo'] at he
                  obtain ⟨hfp, hfb⟩ := hFS f fd hfd
                  obtain ⟨hfpok, hfipok, hfspine, _⟩ := patWF_parts hfp
                  by_cases hinl : fd.inline = true
                  · rw [if_pos hinl] at hx
                    refine ihA k fd.params vs (.inl as') fd.body t v tpat targs hfp hbo' hfb ?_ hx he
                    intro nm p w hp1 hp2
                    exact argLookup_eval hc hfr nm fd.params as' hfspine hfipok vs p w hargs hp1 hp2
                  · rw [if_neg hinl] at hx
                    simp at hx; subst hx
                    obtain ⟨fd', k', hf', hpar, hbody⟩ := hFT f fd hfd (by simpa using hinl)
                    refine Ev.call hf' hargs (by rw [hpar]; exact hbo') ?_
                    rw [hpar]
                    exact ihA k' fd.params vs .top fd.body fd'.body v fd.params vs hfp hbo' hfb ⟨rfl, rfl⟩ hbody he
                · rw [if_neg hbo'] at he; simp [failR] at he
        | letE names es body =>
          simp only [eval] at he
          simp only [expand] at hx
          simp only [exprWF, Bool.and_eq_true] at hwf
          obtain ⟨⟨hwes, hpw'⟩, hwb⟩ := hwf
          obtain ⟨hpok', hipok', hspine', _⟩ := patWF_parts hpw'
          have hne := spineOk_hne pat (namesPat names) hspine'
          cases hxs : expandArgs FS k pat ctx es with
          | none => rw [hxs] at hx; simp at hx
          | some es' =>
            cases hxe : envExpr pat ctx with
            | none => rw [hxs, hxe] at hx; simp at hx
            | some envE =>
              rw [hxs, hxe] at hx
              simp only at hx
              cases ha : evalArgs ops FS n pat args es with
              | error er => rw [ha] at he; simp at he
              | ok vs =>
                rw [ha] at he
                simp only at he
                have hargs := ihB k pat args ctx es es' vs tpat targs hpw hbo hwes hr hxs ha
                by_cases hbo' : bindsOk (.cons pat (namesPat names)) (.pair args vs) = true
                · rw [if_pos hbo'] at he
                  -- the environment expression evaluates to a value that agrees with `args` on every name
                  have henv : ∃ V', Ev ops FT tpat targs envE V' ∧
                      ∀ nm p w, nameLookup nm pat = some p → Path.lookupNat p args = .ok w → Path.lookupNat p V' = .ok w := by
                    cases ctx with
                    | top =>
                      obtain ⟨h1, h2⟩ := hr
                      simp only [envExpr] at hxe
                      simp at hxe; subst hxe
                      exact ⟨args, by rw [h2]; exact Ev.argsv, fun _ _ _ _ h => h⟩
                    | inl as0 =>
                      simp only [envExpr] at hxe
                      obtain ⟨t0, V', ht0, hev0, hag⟩ := letEnv_eval (ops := ops) (fns := FT) (tpat := tpat) (targs := targs)
                        hc pat (.inl as0) pat hipok hnodup args ρ hρ
                        (real_subst hpok ρ hρ (.inl as0) hr)
                      rw [hxe] at ht0; simp at ht0; subst ht0
                      exact ⟨V', hev0, hag⟩
                  obtain ⟨V', hevE, hag⟩ := henv
                  refine ihA k (.cons pat (namesPat names)) (.pair args vs) (.inl (.cons envE es')) body t v tpat targs
                    hpw' hbo' hwb ?_ hx he
                  intro nm p w hp1 hp2
                  refine argLookup_eval hc hfr nm (.cons pat (namesPat names)) (.cons envE es') hspine' hipok'
                    (.pair V' vs) p w (EvArgs.cons hevE hargs) hp1 ?_
                  rw [nameLookup_cons nm pat (namesPat names) hne] at hp1
                  cases hq : nameLookup nm pat with
                  | some q =>
                    rw [hq] at hp1; simp at hp1; subst hp1
                    rw [Path.lookupNat_left q (nameLookup_pos _ _ _ hq)] at hp2 ⊢
                    exact hag nm q w hq hp2
                  | none =>
                    rw [hq] at hp1
                    cases hq2 : nameLookup nm (namesPat names) with
                    | some q =>
                      rw [hq2] at hp1; simp at hp1; subst hp1
                      rw [Path.lookupNat_right q (nameLookup_pos _ _ _ hq2)] at hp2 ⊢
                      exact hp2
                    | none => rw [hq2] at hp1; simp at hp1
                · rw [if_neg hbo'] at he; simp [failR] at he
    · intro k pat args ctx es ts vs tpat targs hpw hbo hwf hr hx he
      cases k with
      | zero => simp [expandArgs] at hx
      | succ k =>
        cases es with
        | nil =>
          simp only [evalArgs] at he
          simp only [expandArgs] at hx
          simp at he hx; subst he; subst hx
          exact EvArgs.nil
        | cons e r =>
          simp only [evalArgs] at he
          simp only [expandArgs] at hx
          simp only [exprsWF, Bool.and_eq_true] at hwf
          cases h1 : expand FS k pat ctx e with
          | none => rw [h1] at hx; simp at hx
          | some e' =>
            cases h2 : expandArgs FS k pat ctx r with
            | none => rw [h1, h2] at hx; simp at hx
            | some r' =>
              rw [h1, h2] at hx; simp at hx; subst hx
              cases h3 : eval ops FS n pat args e with
              | error er => rw [h3] at he; simp at he
              | ok v1 =>
                rw [h3] at he
                simp only at he
                cases h4 : evalArgs ops FS n pat args r with
                | error er => rw [h4] at he; simp at he
                | ok v2 =>
                  rw [h4] at he; simp at he; subst he
                  exact EvArgs.cons (ihA k pat args ctx e e' v1 tpat targs hpw hbo hwf.1 hr h1 h3)
                    (ihB k pat args ctx r r' v2 tpat targs hpw hbo hwf.2 hr h2 h4)

end Main

end Core2
