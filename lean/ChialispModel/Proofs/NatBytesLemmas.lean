/-
  Proofs/NatBytesLemmas.lean — a path number survives its encoding as an atom:
  `toNatBE (ofIntClvm p) = p`.
-/
import ChialispModel.Base.Bytes

namespace Bytes

theorem toNatBE_append_single (l : Bytes) (x : UInt8) :
    toNatBE (l ++ [x]) = toNatBE l * 256 + x.toNat := by
  simp [toNatBE, List.foldl_append]

theorem toNatBE_zero_cons (b : Bytes) : toNatBE (0 :: b) = toNatBE b := by
  simp [toNatBE]

theorem toNatBE_ofNatBEAux (fuel n : Nat) (h : n ≤ fuel) : toNatBE (ofNatBEAux fuel n) = n := by
  induction fuel generalizing n with
  | zero =>
    have : n = 0 := by omega
    subst this; simp [ofNatBEAux, toNatBE]
  | succ f ih =>
    simp only [ofNatBEAux]
    split
    · rename_i h0; subst h0; simp [toNatBE]
    · rename_i h0
      rw [toNatBE_append_single, ih (n / 256) (by omega)]
      have hlt : n % 256 < 256 := Nat.mod_lt _ (by omega)
      have : (UInt8.ofNat (n % 256)).toNat = n % 256 := by
        simp [UInt8.toNat_ofNat, Nat.mod_eq_of_lt hlt]
      rw [this]; omega

theorem toNatBE_posBytes (b : Bytes) : toNatBE (posBytes b) = toNatBE b := by
  unfold posBytes
  split
  · simp [toNatBE]
  · split
    · exact toNatBE_zero_cons _
    · rfl

theorem toNatBE_ofIntClvm (p : Nat) : toNatBE (ofIntClvm (Int.ofNat p)) = p := by
  unfold ofIntClvm
  split
  · rename_i h
    have : p = 0 := by simpa using h
    subst this; simp [toNatBE]
  · show toNatBE (posBytes (ofNatBE p)) = p
    rw [toNatBE_posBytes]
    exact toNatBE_ofNatBEAux p p (Nat.le_refl _)

end Bytes
