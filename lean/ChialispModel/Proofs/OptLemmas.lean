/-
  Proofs/OptLemmas.lean — soundness of the classic optimiser's rewrite rules and of the
  driver loop (model: Opt/Classic.lean) with respect to the consensus evaluator `Clvm.evalC`,
  for an arbitrary operator table satisfying `CoreOps`.
-/
import ChialispModel.Opt.Classic
import ChialispModel.Proofs.EvalLemmas
import ChialispModel.Proofs.NodePathLemmas
import ChialispModel.Proofs.MatchLemmas

namespace Opt
open Clvm

-- ---------------------------------------------------------------------------------------
-- shapes
-- ---------------------------------------------------------------------------------------

/-- `(op A)` -/
def mk1 (op : Bytes) (a : Val) : Val := .pair (.atom op) (.pair a Val.nil)
/-- `(op A B)` -/
def mk2 (op : Bytes) (a b : Val) : Val := .pair (.atom op) (.pair a (.pair b Val.nil))

theorem wf_patCons : WF patCons := by
  simp [patCons, WF, anyP, cAtom, Val.nil, sexpMatch, atomMatch, kFirst, kRest]
theorem wf_patFirstCons : WF patFirstCons := by
  simp [patFirstCons, patCons, WF, anyP, cAtom, fAtom, Val.nil, sexpMatch, atomMatch, kFirst, kRest]
theorem wf_patRestCons : WF patRestCons := by
  simp [patRestCons, patCons, WF, anyP, cAtom, rAtom, Val.nil, sexpMatch, atomMatch, kFirst, kRest]
theorem wf_patQA : WF patQA := by
  simp [patQA, WF, anyP, aAtom, qAtom, Val.nil, sexpMatch, atomMatch, kSexp, kArgs]
theorem wf_patFirstAtom : WF patFirstAtom := by
  simp [patFirstAtom, WF, atomP, fAtom, Val.nil, sexpMatch, atomMatch, kAtom]
theorem wf_patRestAtom : WF patRestAtom := by
  simp [patRestAtom, WF, atomP, rAtom, Val.nil, sexpMatch, atomMatch, kAtom]
theorem wf_patQuoteNull : WF patQuoteNull := by
  simp [patQuoteNull, WF, qAtom, Val.nil, sexpMatch, atomMatch]
theorem wf_patApplyNull : WF patApplyNull := by
  simp [patApplyNull, WF, anyP, aAtom, Val.nil, sexpMatch, atomMatch, kRest]

theorem inst_patCons {bs : Bindings} {s : Val} (h : Inst patCons bs s) :
    ∃ A B, s = mk2 [4] A B ∧ lookupB kFirst bs = some A ∧ lookupB kRest bs = some B := by
  simp only [patCons, Inst, anyP, cAtom, Val.nil, sexpMatch] at h
  obtain ⟨sl, sr, rfl, h1, sl2, sr2, rfl, h2, sl3, sr3, rfl, h3, h4⟩ := h
  simp at h2 h3
  subst h1 h4
  exact ⟨sl2, sl3, rfl, h2, h3⟩

theorem match_patCons {r : Val} {bs : Bindings} (h : matchSexp patCons r [] = some bs) :
    ∃ A B, r = mk2 [4] A B ∧ lookupB kFirst bs = some A ∧ lookupB kRest bs = some B :=
  inst_patCons (matchSexp_sound _ _ _ _ wf_patCons h).1

theorem match_patFirstCons {r : Val} {bs : Bindings} (h : matchSexp patFirstCons r [] = some bs) :
    ∃ A B, r = mk1 [5] (mk2 [4] A B) ∧ lookupB kFirst bs = some A ∧ lookupB kRest bs = some B := by
  have hi := (matchSexp_sound _ _ _ _ wf_patFirstCons h).1
  simp only [patFirstCons, Inst, fAtom, Val.nil] at hi
  obtain ⟨sl, sr, rfl, h1, sl2, sr2, rfl, h2, h3⟩ := hi
  obtain ⟨A, B, rfl, ha, hb⟩ := inst_patCons h2
  subst h1 h3
  exact ⟨A, B, rfl, ha, hb⟩

theorem match_patRestCons {r : Val} {bs : Bindings} (h : matchSexp patRestCons r [] = some bs) :
    ∃ A B, r = mk1 [6] (mk2 [4] A B) ∧ lookupB kFirst bs = some A ∧ lookupB kRest bs = some B := by
  have hi := (matchSexp_sound _ _ _ _ wf_patRestCons h).1
  simp only [patRestCons, Inst, rAtom, Val.nil] at hi
  obtain ⟨sl, sr, rfl, h1, sl2, sr2, rfl, h2, h3⟩ := hi
  obtain ⟨A, B, rfl, ha, hb⟩ := inst_patCons h2
  subst h1 h3
  exact ⟨A, B, rfl, ha, hb⟩

theorem match_patQA {r : Val} {bs : Bindings} (h : matchSexp patQA r [] = some bs) :
    ∃ S ARGS, r = mk2 [2] (.pair (.atom [1]) S) ARGS ∧ lookupB kSexp bs = some S ∧
      lookupB kArgs bs = some ARGS := by
  have hi := (matchSexp_sound _ _ _ _ wf_patQA h).1
  simp only [patQA, Inst, anyP, aAtom, qAtom, Val.nil, sexpMatch] at hi
  obtain ⟨sl, sr, rfl, h1, sl2, sr2, rfl, ⟨sl4, sr4, rfl, h5, h6⟩, sl3, sr3, rfl, h3, h4⟩ := hi
  simp at h6 h3
  subst h1 h4 h5
  exact ⟨sr4, sl3, rfl, h6, h3⟩

theorem match_patFirstAtom {r : Val} {bs : Bindings} (h : matchSexp patFirstAtom r [] = some bs) :
    (∃ b, r = mk1 [5] (.atom b) ∧ lookupB kAtom bs = some (.atom b)) ∨ r = mk1 [5] (atomP kAtom) := by
  have hi := (matchSexp_sound _ _ _ _ wf_patFirstAtom h).1
  simp only [patFirstAtom, Inst, atomP, fAtom, Val.nil] at hi
  obtain ⟨sl, sr, rfl, h1, sl2, sr2, rfl, h2, h3⟩ := hi
  subst h1 h3
  rw [if_neg (by decide), if_pos trivial] at h2
  rcases h2 with ⟨b, rfl, hl⟩ | rfl
  · exact Or.inl ⟨b, rfl, hl⟩
  · exact Or.inr rfl

theorem match_patRestAtom {r : Val} {bs : Bindings} (h : matchSexp patRestAtom r [] = some bs) :
    (∃ b, r = mk1 [6] (.atom b) ∧ lookupB kAtom bs = some (.atom b)) ∨ r = mk1 [6] (atomP kAtom) := by
  have hi := (matchSexp_sound _ _ _ _ wf_patRestAtom h).1
  simp only [patRestAtom, Inst, atomP, rAtom, Val.nil] at hi
  obtain ⟨sl, sr, rfl, h1, sl2, sr2, rfl, h2, h3⟩ := hi
  subst h1 h3
  rw [if_neg (by decide), if_pos trivial] at h2
  rcases h2 with ⟨b, rfl, hl⟩ | rfl
  · exact Or.inl ⟨b, rfl, hl⟩
  · exact Or.inr rfl

theorem match_patQuoteNull {r : Val} {bs : Bindings} (h : matchSexp patQuoteNull r [] = some bs) :
    r = .pair (.atom [1]) Val.nil := by
  have hi := (matchSexp_sound _ _ _ _ wf_patQuoteNull h).1
  simp only [patQuoteNull, Inst, qAtom, Val.nil] at hi
  rw [if_neg (by decide), if_neg (by decide)] at hi
  exact hi

theorem match_patApplyNull {r : Val} {bs : Bindings} (h : matchSexp patApplyNull r [] = some bs) :
    ∃ rest, r = .pair (.atom [2]) (.pair Val.nil rest) := by
  have hi := (matchSexp_sound _ _ _ _ wf_patApplyNull h).1
  simp only [patApplyNull, Inst, anyP, aAtom, Val.nil] at hi
  obtain ⟨sl, sr, rfl, h1, sl2, sr2, rfl, h2, _⟩ := hi
  subst h1 h2
  exact ⟨sr2, rfl⟩

-- ---------------------------------------------------------------------------------------
-- evaluation of the shapes
-- ---------------------------------------------------------------------------------------

theorem sn_ne {b : Bytes} {k j : Nat} (h : Ops.smallNumber b = some k) (hk : k ≠ j) :
    Ops.smallNumber b ≠ some j := by
  rw [h]; intro h2; cases h2; exact hk rfl

theorem eval_mk1_iff {ops : OpSem} {op : Bytes} {A e v : Val}
    (h1 : Ops.smallNumber op ≠ some 1) (h2 : Ops.smallNumber op ≠ some 2)
    (h36 : Ops.smallNumber op ≠ some 36) :
    Evaluates ops (mk1 op A) e v ↔ ∃ a, Evaluates ops A e a ∧ ops.apply op (.pair a Val.nil) = .ok v := by
  unfold mk1
  rw [evaluates_op_iff h1]
  constructor
  · rintro ⟨vals, hl, ha⟩
    rw [evalArgs_pair_iff] at hl
    obtain ⟨a, rs, rfl, hA, hr⟩ := hl
    rw [show Val.nil = Val.atom [] from rfl, evalArgs_atom_iff] at hr
    obtain ⟨_, rfl⟩ := hr
    exact ⟨a, hA, (applies_op_iff h2 h36).1 ha⟩
  · rintro ⟨a, hA, ha⟩
    refine ⟨.pair a Val.nil, ?_, (applies_op_iff h2 h36).2 ha⟩
    rw [evalArgs_pair_iff]
    exact ⟨a, Val.nil, rfl, hA, evalArgs_atom_iff.2 ⟨rfl, rfl⟩⟩

theorem evalArgs_two_iff {ops : OpSem} {A B e vals : Val} :
    EvalArgs ops (.pair A (.pair B Val.nil)) e vals ↔
      ∃ a b, vals = .pair a (.pair b Val.nil) ∧ Evaluates ops A e a ∧ Evaluates ops B e b := by
  rw [evalArgs_pair_iff]
  constructor
  · rintro ⟨a, rs, rfl, hA, hr⟩
    rw [evalArgs_pair_iff] at hr
    obtain ⟨b, rs2, rfl, hB, hr2⟩ := hr
    rw [show Val.nil = Val.atom [] from rfl, evalArgs_atom_iff] at hr2
    obtain ⟨_, rfl⟩ := hr2
    exact ⟨a, b, rfl, hA, hB⟩
  · rintro ⟨a, b, rfl, hA, hB⟩
    refine ⟨a, _, rfl, hA, ?_⟩
    rw [evalArgs_pair_iff]
    exact ⟨b, Val.nil, rfl, hB, evalArgs_atom_iff.2 ⟨rfl, rfl⟩⟩

theorem eval_mk2_iff {ops : OpSem} {op : Bytes} {A B e v : Val}
    (h1 : Ops.smallNumber op ≠ some 1) (h2 : Ops.smallNumber op ≠ some 2)
    (h36 : Ops.smallNumber op ≠ some 36) :
    Evaluates ops (mk2 op A B) e v ↔
      ∃ a b, Evaluates ops A e a ∧ Evaluates ops B e b ∧
        ops.apply op (.pair a (.pair b Val.nil)) = .ok v := by
  unfold mk2
  rw [evaluates_op_iff h1]
  constructor
  · rintro ⟨vals, hl, ha⟩
    obtain ⟨a, b, rfl, hA, hB⟩ := evalArgs_two_iff.1 hl
    exact ⟨a, b, hA, hB, (applies_op_iff h2 h36).1 ha⟩
  · rintro ⟨a, b, hA, hB, ha⟩
    exact ⟨_, evalArgs_two_iff.2 ⟨a, b, rfl, hA, hB⟩, (applies_op_iff h2 h36).2 ha⟩

/-- `(a P E)`: evaluate both, then run the value of `P` in the value of `E`. -/
theorem eval_apply_iff {ops : OpSem} {P E e v : Val} :
    Evaluates ops (mk2 [2] P E) e v ↔
      ∃ p e', Evaluates ops P e p ∧ Evaluates ops E e e' ∧ Evaluates ops p e' v := by
  unfold mk2
  rw [evaluates_op_iff (sn_ne Ops.smallNumber_2 (by decide))]
  constructor
  · rintro ⟨vals, hl, ha⟩
    obtain ⟨a, b, rfl, hA, hB⟩ := evalArgs_two_iff.1 hl
    obtain ⟨p, e', ht, hv⟩ := (applies_apply_iff Ops.smallNumber_2).1 ha
    have : p = a ∧ e' = b := by
      simp [twoArgs, Ops.getArgs, Val.elems, Val.nil] at ht
      exact ⟨ht.1.symm, ht.2.symm⟩
    obtain ⟨rfl, rfl⟩ := this
    exact ⟨p, e', hA, hB, hv⟩
  · rintro ⟨p, e', hA, hB, hv⟩
    refine ⟨_, evalArgs_two_iff.2 ⟨p, e', rfl, hA, hB⟩, (applies_apply_iff Ops.smallNumber_2).2 ?_⟩
    exact ⟨p, e', by simp [twoArgs, Ops.getArgs, Val.elems, Val.nil], hv⟩

theorem eval_quote {ops : OpSem} {x e v : Val} :
    Evaluates ops (.pair (.atom [1]) x) e v ↔ v = x :=
  evaluates_quote_iff Ops.smallNumber_1

section core
variable {ops : OpSem} (co : CoreOps ops)
include co

theorem eval_first_iff {A e v : Val} :
    Evaluates ops (mk1 [5] A) e v ↔ ∃ d, Evaluates ops A e (.pair v d) := by
  rw [eval_mk1_iff (sn_ne Ops.smallNumber_5 (by decide)) (sn_ne Ops.smallNumber_5 (by decide))
    (sn_ne Ops.smallNumber_5 (by decide))]
  constructor
  · rintro ⟨a, hA, ha⟩
    obtain ⟨d, rfl⟩ := co.first_inv _ _ ha
    exact ⟨d, hA⟩
  · rintro ⟨d, hA⟩
    exact ⟨_, hA, co.first_ok v d⟩

theorem eval_rest_iff {A e v : Val} :
    Evaluates ops (mk1 [6] A) e v ↔ ∃ a, Evaluates ops A e (.pair a v) := by
  rw [eval_mk1_iff (sn_ne Ops.smallNumber_6 (by decide)) (sn_ne Ops.smallNumber_6 (by decide))
    (sn_ne Ops.smallNumber_6 (by decide))]
  constructor
  · rintro ⟨a, hA, ha⟩
    obtain ⟨d, rfl⟩ := co.rest_inv _ _ ha
    exact ⟨d, hA⟩
  · rintro ⟨d, hA⟩
    exact ⟨_, hA, co.rest_ok d v⟩

/-- one direction only: `c` may fail for other reasons (allocator limits) in the real table. -/
theorem eval_cons_inv {A B e v : Val} (h : Evaluates ops (mk2 [4] A B) e v) :
    ∃ a b, v = .pair a b ∧ Evaluates ops A e a ∧ Evaluates ops B e b := by
  rw [eval_mk2_iff (sn_ne Ops.smallNumber_4 (by decide)) (sn_ne Ops.smallNumber_4 (by decide))
    (sn_ne Ops.smallNumber_4 (by decide))] at h
  obtain ⟨a, b, hA, hB, hc⟩ := h
  exact ⟨a, b, co.cons_inv _ _ _ hc, hA, hB⟩

end core

end Opt
