/-
  Proofs/EnvLemmas.lean — `nameLookup` addresses exactly what `bindPat` binds.
-/
import ChialispModel.Lang.Env
import ChialispModel.Proofs.PathLemmas

namespace Lang

theorem lookupEnv_append (n : Bytes) (a b : Env) :
    lookupEnv n (a ++ b) = (match lookupEnv n a with | some v => some v | none => lookupEnv n b) := by
  induction a with
  | nil => simp [lookupEnv]
  | cons x xs ih =>
    obtain ⟨k, v⟩ := x
    simp only [List.cons_append, lookupEnv]
    split <;> simp_all

theorem nameLookup_pos (name : Bytes) (pat : Rich) (p : Nat) (h : nameLookup name pat = some p) : 1 ≤ p := by
  fun_induction nameLookup name pat generalizing p <;> simp_all <;> omega

theorem nameLookup_cons (name : Bytes) (a d : Rich)
    (hne : ∀ (cap : Bytes) (sub : Rich), a = Rich.atom [64] → d = (Rich.atom cap).cons (sub.cons Rich.nil) → False) :
    nameLookup name (a.cons d) =
      (match nameLookup name a with
       | some v => some (2 * v)
       | none => match nameLookup name d with
         | some v => some (2 * v + 1)
         | none => none) := by
  rw [nameLookup] <;> first | rfl | exact hne

theorem nameLookup_cap (name cap : Bytes) (sub : Rich) :
    nameLookup name ((Rich.atom [64]).cons ((Rich.atom cap).cons (sub.cons Rich.nil))) =
      if cap == name then some 1 else nameLookup name sub := by
  rw [nameLookup]

theorem bindPat_cons_pair (a d : Rich) (x y : SV)
    (hne : ∀ (cap : Bytes) (sub : Rich), a = Rich.atom [64] → d = (Rich.atom cap).cons (sub.cons Rich.nil) → False) :
    bindPat (a.cons d) (x.pair y) =
      (match bindPat a x, bindPat d y with
       | some e1, some e2 => some (e1 ++ e2)
       | _, _ => none) := by
  rw [bindPat] <;> first | rfl | exact hne

theorem nameLookup_none (name : Bytes) (pat : Rich) (hok : patOk pat = true)
    (hn : nameLookup name pat = none) (v : SV) (ρ : Env) (hb : bindPat pat v = some ρ) :
    lookupEnv name ρ = none := by
  induction pat, v using bindPat.induct generalizing ρ with
  | case1 x => simp_all [bindPat, lookupEnv]
  | case2 b v h => simp_all [bindPat, lookupEnv]
  | case3 b v h =>
    simp only [nameLookup] at hn
    simp_all [bindPat]
    subst hb
    simp [lookupEnv, hn]
  | case4 i v =>
    simp only [nameLookup] at hn
    simp_all [bindPat]
    subst hb
    simp [lookupEnv, hn]
  | case5 q b v => simp [patOk] at hok
  | case6 cap sub v e he ih =>
    rw [nameLookup_cap] at hn
    simp only [patOk, Bool.and_eq_true] at hok
    rw [bindPat, he] at hb
    simp at hb
    subst hb
    split at hn
    · simp at hn
    · rename_i hc
      simp only [lookupEnv]
      rw [if_neg hc]
      exact ih hok.2.2.1 hn e he
  | case7 cap sub v he ih => rw [bindPat, he] at hb; simp at hb
  | case8 a d x y hne e1 e2 h2 h1 ih1 ih2 =>
    rw [bindPat_cons_pair a d x y hne, h1, h2] at hb
    simp at hb
    subst hb
    simp only [patOk, Bool.and_eq_true] at hok
    rw [nameLookup_cons name a d hne] at hn
    have hn' : nameLookup name a = none ∧ nameLookup name d = none := by
      cases ha : nameLookup name a <;> cases hd : nameLookup name d <;> simp_all
    rw [lookupEnv_append, ih1 hok.1 hn'.1 e1 h1, ih2 hok.2 hn'.2 e2 h2]
  | case9 a d x y hne hnone ih1 ih2 =>
    rw [bindPat_cons_pair a d x y hne] at hb
    cases h1 : bindPat a x <;> cases h2 : bindPat d y <;> simp_all
  | case10 a d x hne hnp hnames =>
    rw [bindPat] at hb
    · simp_all
    · exact hne
    · exact hnp
  | case11 a d x hne hnp hnames =>
    rw [bindPat] at hb
    · simp_all [lookupEnv]
    · exact hne
    · exact hnp

theorem ofVal_pair_inv (v : Val) (x y : SV) (h : SV.ofVal v = x.pair y) :
    ∃ a d, v = .pair a d ∧ x = SV.ofVal a ∧ y = SV.ofVal d := by
  cases v with
  | atom b => simp [SV.ofVal] at h
  | pair a d => simp only [SV.ofVal, SV.pair.injEq] at h; exact ⟨a, d, rfl, h.1.symm, h.2.symm⟩

theorem nameLookup_correct_aux (name : Bytes) (pat : Rich) (sv : SV) (hok : patOk pat = true)
    (p : Nat) (h : nameLookup name pat = some p) (v : Val) (hv : sv = SV.ofVal v)
    (ρ : Env) (hb : bindPat pat sv = some ρ) :
    ∃ w, lookupEnv name ρ = some (SV.ofVal w) ∧ Path.lookupNat p v = .ok w := by
  induction pat, sv using bindPat.induct generalizing ρ p v with
  | case1 x => simp [nameLookup] at h
  | case2 b sv hb0 => simp [patOk, hb0] at hok
  | case3 b sv hb0 =>
    simp only [nameLookup] at h
    split at h
    · rename_i hc
      simp at h; subst h
      simp [bindPat, hb0] at hb
      subst hb
      refine ⟨v, ?_, Path.lookupNat_one v⟩
      simp only [lookupEnv]; rw [if_pos hc, hv]
    · simp at h
  | case4 i sv =>
    simp only [nameLookup] at h
    split at h
    · rename_i hc
      simp at h; subst h
      simp [bindPat] at hb
      subst hb
      refine ⟨v, ?_, Path.lookupNat_one v⟩
      simp only [lookupEnv]; rw [if_pos hc, hv]
    · simp at h
  | case5 q b sv => simp [patOk] at hok
  | case6 cap sub sv e he ih =>
    rw [nameLookup_cap] at h
    simp only [patOk, Bool.and_eq_true] at hok
    rw [bindPat, he] at hb
    simp at hb
    subst hb
    split at h
    · rename_i hc
      simp at h; subst h
      refine ⟨v, ?_, Path.lookupNat_one v⟩
      simp only [lookupEnv]; rw [if_pos hc, hv]
    · rename_i hc
      obtain ⟨w, hw1, hw2⟩ := ih hok.2.2.1 p h v hv e he
      refine ⟨w, ?_, hw2⟩
      simp only [lookupEnv]; rw [if_neg hc]; exact hw1
  | case7 cap sub sv he ih => rw [bindPat, he] at hb; simp at hb
  | case8 a d x y hne e1 e2 h2 h1 ih1 ih2 =>
    rw [bindPat_cons_pair a d x y hne, h1, h2] at hb
    simp at hb
    subst hb
    simp only [patOk, Bool.and_eq_true] at hok
    rw [nameLookup_cons name a d hne] at h
    obtain ⟨va, vd, hvp, hxa, hyd⟩ := ofVal_pair_inv v x y hv.symm
    subst hvp
    cases ha : nameLookup name a with
    | some q =>
      rw [ha] at h; simp at h; subst h
      obtain ⟨w, hw1, hw2⟩ := ih1 hok.1 q ha va hxa e1 h1
      refine ⟨w, ?_, ?_⟩
      · rw [lookupEnv_append, hw1]
      · rw [Path.lookupNat_left q (nameLookup_pos name a q ha)]; exact hw2
    | none =>
      rw [ha] at h
      cases hd : nameLookup name d with
      | some q =>
        rw [hd] at h; simp at h; subst h
        obtain ⟨w, hw1, hw2⟩ := ih2 hok.2 q hd vd hyd e2 h2
        refine ⟨w, ?_, ?_⟩
        · rw [lookupEnv_append, nameLookup_none name a hok.1 ha x e1 h1]; exact hw1
        · rw [Path.lookupNat_right q (nameLookup_pos name d q hd)]; exact hw2
      | none => rw [hd] at h; simp at h
  | case9 a d x y hne hnone ih1 ih2 =>
    rw [bindPat_cons_pair a d x y hne] at hb
    cases h1 : bindPat a x <;> cases h2 : bindPat d y <;> simp_all
  | case10 a d x hne hnp hnames =>
    rw [bindPat] at hb
    · simp_all
    · exact hne
    · exact hnp
  | case11 a d x hne hnp hnames =>
    -- no names in the pattern, yet a name was found: impossible
    exfalso
    rw [nameLookup_cons name a d hne] at h
    have key : ∀ (r : Rich) (q : Nat), nameLookup name r = some q → patOk r = true → patHasNames r = true := by
      intro r
      induction r with
      | nil => intro q hq; simp [nameLookup] at hq
      | cons a d iha ihd => intro q hq hok'; simp only [patOk, Bool.and_eq_true] at hok'; 
                            simp only [patHasNames, Bool.or_eq_true]
                            by_cases hcap : ∃ (cap : Bytes) (sub : Rich), a = Rich.atom [64] ∧ d = (Rich.atom cap).cons (sub.cons Rich.nil)
                            · obtain ⟨cap, sub, e1, e2⟩ := hcap; subst e1; left; rfl
                            · rw [nameLookup_cons name a d (by intro cap sub e1 e2; exact hcap ⟨cap, sub, e1, e2⟩)] at hq
                              cases ha : nameLookup name a with
                              | some q' => left; exact iha q' ha hok'.1
                              | none =>
                                rw [ha] at hq
                                cases hd : nameLookup name d with
                                | some q' => right; exact ihd q' hd hok'.2
                                | none => rw [hd] at hq; simp at hq
      | int i => intros; rfl
      | qstr q b => intros; rfl
      | atom b => intros; rfl
    simp only [patOk, Bool.and_eq_true] at hok
    simp only [Bool.or_eq_true, not_or] at hnames
    cases ha : nameLookup name a with
    | some q' => exact hnames.1 (key a q' ha hok.1)
    | none =>
      rw [ha] at h
      cases hd : nameLookup name d with
      | some q' => exact hnames.2 (key d q' hd hok.2)
      | none => rw [hd] at h; simp at h

/-- the path `create_name_lookup_` computes for a name selects, in any argument value, exactly
    the value the source-level destructuring binds to that name. -/
theorem nameLookup_correct (name : Bytes) (pat : Rich) (hok : patOk pat = true) (p : Nat)
    (h : nameLookup name pat = some p) (v : Val) (ρ : Env)
    (hb : bindPat pat (SV.ofVal v) = some ρ) :
    ∃ w, lookupEnv name ρ = some (SV.ofVal w) ∧ Path.lookupNat p v = .ok w :=
  nameLookup_correct_aux name pat (SV.ofVal v) hok p h v rfl ρ hb

end Lang
