/-
  Proofs/Core2Lemmas.lean — LAYER B2: correctness of the core2 compiler model
  (`Core2.compileCore2` = inline expansion + let hoisting + core code generation):
  expansion lemma (Proofs/Core2Expand.lean) ∘ dead-function pruning ∘ code generator
  soundness (Proofs/Core2Compile.lean).
-/
import ChialispModel.Proofs.Core2Expand
import ChialispModel.Proofs.Core2Rename

namespace Core2
open Clvm
open Core (OpsCore ev_quote ev_apply ev_env ev_cons qv)

theorem targetWF_sound (FT : List FnDef) (h : targetWF FT = true) : WF FT := by
  simp only [targetWF, Bool.and_eq_true, List.all_eq_true, bne_iff_ne, ne_eq, Option.isNone_iff_eq_none] at h
  obtain ⟨hnd, hall⟩ := h
  constructor
  · exact Core.nodupB_sound _ hnd
  · intro f hf; exact (hall f hf).1.1.1
  · intro f hf; exact (hall f hf).1.1.2
  · intro f hf g hg; exact (hall f hf).2 g hg
  · intro f hf; exact (hall f hf).1.2

theorem compileWith_correct (ops : OpSem) (hops : OpsCore ops) (hfr : OpsFR ops) (FS : List FnDef) (hwf : WF FS)
    (params : Rich) (hpat : Lang.patOk params = true)
    (hdis : ∀ g ∈ FS, Lang.nameLookup g.name params = none)
    (body : Expr) (hok : exprOk body = true) (code : Val)
    (hc : compileWith FS params body = some code) (n : Nat) (args v : Val)
    (he : eval ops FS n params args body = .ok v) :
    Evaluates ops code args v := by
  unfold compileWith at hc
  cases hm : compileE (Lang.envShape (FS.map (·.name)) params) body with
  | none => rw [hm] at hc; simp at hc
  | some main =>
    cases hent : compileFns (FS.map (·.name)) FS with
    | none => rw [hm, hent] at hc; simp at hc
    | some entries =>
      rw [hm, hent] at hc; simp at hc; subst hc
      have hmain := (compile_sound ops FS entries hops hfr hwf hent n).1 params args body v main hpat hdis hok he hm
      refine ev_apply ops (qv main) _ args main (.pair (funcs entries) args) v (ev_quote ops main args) ?_ hmain
      exact ev_cons ops hops (qv (funcs entries)) (.atom [1]) args (funcs entries) args
        (ev_quote ops _ args) (ev_env ops args)

/-- LAYER B2: the core2 compiler model is correct — for every operator table implementing
    `i`, `c`, `f`, `r`, every well-formed core2 program (functions, INLINE functions with
    destructuring parameters, `let`), every argument value: if the call-by-value source
    meaning is `v`, the emitted CLVM evaluates to `v` under the consensus evaluator. -/
theorem compileNS_correct (ops : OpSem) (hops : OpsCore ops) (hfr : OpsFR ops) (P : Prog)
    (hwf : progWFNS P = true) (code : Val) (hcode : compileNS P = some code) (n : Nat) (args v : Val)
    (he : evalProgNS ops P n args = .ok v) : Evaluates ops code args v := by
  unfold progWFNS at hwf
  unfold compileNS at hcode
  cases hxp : expandProg P with
  | none => rw [hxp] at hwf; simp at hwf
  | some r =>
    obtain ⟨FT, main⟩ := r
    rw [hxp] at hwf hcode
    simp only [Bool.and_eq_true, List.all_eq_true, Option.isNone_iff_eq_none] at hwf
    obtain ⟨⟨⟨hfns, hpw⟩, hbw⟩, ⟨⟨⟨⟨htw, hmok⟩, hdis⟩, hcl⟩, hcalls⟩⟩ := hwf
    simp only at hcode
    -- the two halves of the expanded program
    unfold expandProg at hxp
    cases hE : expandFns P.fns (expandFuel P) P.fns with
    | none => rw [hE] at hxp; simp at hxp
    | some FT' =>
      cases hM : expand P.fns (expandFuel P) P.params .top P.body with
      | none => rw [hE, hM] at hxp; simp at hxp
      | some main' =>
        rw [hE, hM] at hxp
        simp at hxp
        obtain ⟨h1, h2⟩ := hxp
        subst h1; subst h2
        -- source evaluation
        unfold evalProgNS at he
        by_cases hbo : bindsOk P.params args = true
        · rw [if_pos hbo] at he
          simp only [fnsWF, Bool.and_eq_true, List.all_eq_true, bne_iff_ne, ne_eq] at hfns
          have hFS : ∀ f fd, findFn f P.fns = some fd → patWF fd.params = true ∧ exprWF fd.params fd.body = true := by
            intro f fd hf
            obtain ⟨hmem, _⟩ := findFn_mem f P.fns fd hf
            exact ⟨(hfns.2 fd hmem).1.2, (hfns.2 fd hmem).2⟩
          have hFT : ∀ f fd, findFn f P.fns = some fd → fd.inline = false →
              ∃ fd' k, findFn f FT' = some fd' ∧ fd'.params = fd.params ∧
                expand P.fns k fd.params .top fd.body = some fd'.body := by
            intro f fd hf hinl
            obtain ⟨fd', h1, h2, h3⟩ := expandFns_find P.fns (expandFuel P) P.fns FT' hE f fd hf hinl
            exact ⟨fd', expandFuel P, h1, h2, h3⟩
          obtain ⟨m, hm⟩ := (expand_sound ops P.fns FT' hops hfr hFS hFT n).1 (expandFuel P) P.params args .top
            P.body main' v P.params args hpw hbo hbw ⟨rfl, rfl⟩ hM he
          -- pruning
          have hcalls' : (callsOf main').all (liveSet P).contains = true := by
            rw [List.all_eq_true]; exact hcalls
          have hcl' : liveClosed FT' (liveSet P) = true := hcl
          have hk := (eval_keep ops FT' (liveSet P) hcl' m).1 P.params args main' v hcalls' hm
          have hwfK := wf_keep FT' (liveSet P) (targetWF_sound FT' htw)
          have hpok : Lang.patOk P.params = true := (patWF_parts hpw).1
          refine compileWith_correct ops hops hfr (keep FT' (liveSet P)) hwfK P.params hpok ?_ main' hmok code hcode m args v hk
          intro g hg
          unfold keep at hg
          exact hdis g (List.mem_filter.mp hg).1
        · rw [if_neg hbo] at he; simp [failR] at he

/-- the expansion half on its own: source value ⇒ the expanded program has the same value. -/
theorem expandProg_sound (ops : OpSem) (hops : OpsCore ops) (hfr : OpsFR ops) (P : Prog)
    (hwf : progWFNS P = true) (FT : List FnDef) (main : Expr) (hx : expandProg P = some (FT, main))
    (n : Nat) (args v : Val) (he : evalProgNS ops P n args = .ok v) :
    ∃ m, eval ops FT m P.params args main = .ok v := by
  unfold progWFNS at hwf
  rw [hx] at hwf
  simp only [Bool.and_eq_true] at hwf
  obtain ⟨⟨⟨hfns, hpw⟩, hbw⟩, _⟩ := hwf
  unfold expandProg at hx
  cases hE : expandFns P.fns (expandFuel P) P.fns with
  | none => rw [hE] at hx; simp at hx
  | some FT' =>
    cases hM : expand P.fns (expandFuel P) P.params .top P.body with
    | none => rw [hE, hM] at hx; simp at hx
    | some main' =>
      rw [hE, hM] at hx
      simp at hx
      obtain ⟨h1, h2⟩ := hx
      subst h1; subst h2
      unfold evalProgNS at he
      by_cases hbo : bindsOk P.params args = true
      · rw [if_pos hbo] at he
        simp only [fnsWF, Bool.and_eq_true, List.all_eq_true, bne_iff_ne, ne_eq] at hfns
        have hFS : ∀ f fd, findFn f P.fns = some fd → patWF fd.params = true ∧ exprWF fd.params fd.body = true := by
          intro f fd hf
          obtain ⟨hmem, _⟩ := findFn_mem f P.fns fd hf
          exact ⟨(hfns.2 fd hmem).1.2, (hfns.2 fd hmem).2⟩
        have hFT : ∀ f fd, findFn f P.fns = some fd → fd.inline = false →
            ∃ fd' k, findFn f FT' = some fd' ∧ fd'.params = fd.params ∧
              expand P.fns k fd.params .top fd.body = some fd'.body := by
          intro f fd hf hinl
          obtain ⟨fd', h1, h2, h3⟩ := expandFns_find P.fns (expandFuel P) P.fns FT' hE f fd hf hinl
          exact ⟨fd', expandFuel P, h1, h2, h3⟩
        exact (expand_sound ops P.fns FT' hops hfr hFS hFT n).1 (expandFuel P) P.params args .top
          P.body main' v P.params args hpw hbo hbw ⟨rfl, rfl⟩ hM he
      · rw [if_neg hbo] at he; simp [failR] at he

/-- the renaming half on its own: lexically scoped meaning ⇒ meaning of the renamed program. -/
theorem renameProg_sound (ops : OpSem) (P : Prog) (hwf : progWF P = true) (n : Nat) (args v : Val)
    (he : evalProg ops P n args = .ok v) : evalProgNS ops (renameProg P) n args = .ok v := by
  simp only [progWF, Bool.and_eq_true, List.all_eq_true] at hwf
  obtain ⟨⟨hlf, hlb⟩, hns⟩ := hwf
  unfold progWFNS at hns
  cases hxp : expandProg (renameProg P) with
  | none => rw [hxp] at hns; simp at hns
  | some r0 =>
    rw [hxp] at hns
    simp only [Bool.and_eq_true] at hns
    obtain ⟨⟨⟨hfns, hpw⟩, hbw⟩, _⟩ := hns
    simp only [fnsWF, Bool.and_eq_true, List.all_eq_true, bne_iff_ne, ne_eq] at hfns
    unfold evalProg at he
    unfold evalProgNS
    have hparams : (renameProg P).params = P.params := rfl
    have hfnsE : (renameProg P).fns = P.fns.map renameFn := rfl
    have hbodyE : (renameProg P).body = renameE [] 0 P.body := rfl
    rw [hparams, hfnsE, hbodyE]
    rw [hparams] at hpw hbw
    rw [hbodyE] at hbw
    by_cases hbo : bindsOk P.params args = true
    · rw [if_pos hbo] at he ⊢
      have hFS : ∀ f fd, findFn f P.fns = some fd →
          lexWF fd.body = true ∧ patWF fd.params = true ∧ exprWF fd.params (renameE [] 0 fd.body) = true := by
        intro f fd hf
        obtain ⟨hmem, _⟩ := findFn_mem f P.fns fd hf
        have hm : renameFn fd ∈ (renameProg P).fns := by
          rw [hfnsE]; exact List.mem_map_of_mem hmem
        have := hfns.2 (renameFn fd) hm
        exact ⟨hlf fd hmem, this.1.2, this.2⟩
      exact (rename_sound ops P.fns hFS n).1 P.params args P.params args [] 0 P.body v
        (patWF_parts hpw).1 hbo hpw hbo hlb hbw (rel_nil _ _) he
    · rw [if_neg hbo] at he; simp [failR] at he

/-- LAYER B2: the core2 compiler model is correct — for every operator table implementing
    `i`, `c`, `f`, `r`, every well-formed core2 program (functions, INLINE functions with
    destructuring parameters, `let` with lexical scoping), every argument value: if the
    call-by-value source meaning is `v`, the emitted CLVM evaluates to `v` under the
    consensus evaluator.  rename ∘ expand ∘ prune ∘ generate. -/
theorem compileCore2_correct (ops : OpSem) (hops : OpsCore ops) (hfr : OpsFR ops) (P : Prog)
    (hwf : progWF P = true) (code : Val) (hcode : compileCore2 P = some code) (n : Nat) (args v : Val)
    (he : evalProg ops P n args = .ok v) : Evaluates ops code args v := by
  have hns : progWFNS (renameProg P) = true := by
    simp only [progWF, Bool.and_eq_true] at hwf
    exact hwf.2
  exact compileNS_correct ops hops hfr (renameProg P) hns code hcode n args v
    (renameProg_sound ops P hwf n args v he)

end Core2
