/-
  Proofs/NonInterference.lean — non-interference for COMPILED core code (property C17).

  Two runs of the code `Core.compileE env e` in environments `(F . A1)` and `(F . A2)` that
  share the function table `F` and agree at the path of every name the expression mentions
  produce the SAME outcome at EVERY amount of fuel (same value, same failure, same fuel
  exhaustion).  The proof is a structural induction on the expression in which both runs
  unfold in lock step, so no fuel arithmetic beyond "the first k units are spent on the
  fixed wrapper" is needed.  The intermediate values of the two runs are NOT equal (the lazy
  `if` and the function-body wrapper evaluate `1`, the whole environment), which is why the
  statement is about outcomes of the specific code shapes the generator emits.
-/
import ChialispModel.Lang.UseCheck
import ChialispModel.Proofs.CoreLemmas

namespace Core
open Clvm

-- the fixed shapes, fuel-exactly -----------------------------------------------------------------

theorem evalC_atom_succ (ops : OpSem) (n : Nat) (b : Bytes) (E : Val) :
    evalC ops (n + 1) (.atom b) E = Path.lookup b E := by
  simp [evalC]

theorem evalC_quote_succ (ops : OpSem) (n : Nat) (v E : Val) :
    evalC ops (n + 1) (qv v) E = .ok v := by
  simp [evalC, qv, sn1]

theorem evalC_one_succ (ops : OpSem) (n : Nat) (E : Val) :
    evalC ops (n + 1) (.atom [1]) E = .ok E := by
  simp [evalC, Path.lookup, Bytes.toNatBE, Path.lookupNat_one]

theorem evalC_op_succ (ops : OpSem) (n : Nat) (op : Bytes) (args E : Val) :
    evalC ops (n + 1) (.pair (.atom op) args) E =
      (if Ops.smallNumber op = some 1 then .ok args
       else match evalArgsC ops n args E with
         | .ok vals => applyC ops n op vals
         | .error e => .error e) := by
  rw [evalC]; rfl

theorem evalArgsC_pair_succ (ops : OpSem) (n : Nat) (a rest E : Val) :
    evalArgsC ops (n + 1) (.pair a rest) E =
      (match evalArgsC ops n rest E with
       | .ok rs =>
         match evalC ops n a E with
         | .ok v => .ok (.pair v rs)
         | .error e => .error e
       | .error e => .error e) := by
  rw [evalArgsC]; rfl

theorem evalArgsC_nil_succ (ops : OpSem) (n : Nat) (E : Val) :
    evalArgsC ops (n + 1) Val.nil E = .ok Val.nil := by
  simp [evalArgsC, Val.nil]

theorem applyC_apply_succ (ops : OpSem) (n : Nat) (c e : Val) :
    applyC ops (n + 1) [2] (.pair c (.pair e Val.nil)) = evalC ops n c e := by
  simp [applyC, sn2, twoArgs, Ops.getArgs, Val.elems, Val.nil]

theorem applyC_op_succ (ops : OpSem) (n : Nat) (op : Bytes) (vals : Val)
    (h2 : Ops.smallNumber op ≠ some 2) (h36 : Ops.smallNumber op ≠ some 36) :
    applyC ops (n + 1) op vals = ops.apply op vals := by
  simp [applyC, h2, h36]

/-- `(a X Y)`: the generic apply form. -/
def applyForm (X Y : Val) : Val := .pair (.atom [2]) (.pair X (.pair Y Val.nil))

theorem applyForm_low (ops : OpSem) (X Y E : Val) (n : Nat) (h : n ≤ 3) :
    evalC ops n (applyForm X Y) E = .error .fuel := by
  match n, h with
  | 0, _ => simp [evalC]
  | 1, _ => simp [applyForm, evalC_op_succ, evalArgsC, sn2]
  | 2, _ => simp [applyForm, evalC_op_succ, evalArgsC, sn2]
  | 3, _ => simp [applyForm, evalC_op_succ, evalArgsC, sn2]

/-- with `j + 4` units of fuel `(a X Y)` evaluates `Y` (fuel `j+1`), then `X` (fuel `j+2`),
    then runs the code value in the environment value (fuel `j+2`). -/
theorem applyForm_high (ops : OpSem) (X Y E : Val) (j : Nat) :
    evalC ops (j + 4) (applyForm X Y) E =
      (match evalC ops (j + 1) Y E with
       | .ok vy =>
         match evalC ops (j + 2) X E with
         | .ok vx => evalC ops (j + 2) vx vy
         | .error e => .error e
       | .error e => .error e) := by
  unfold applyForm
  rw [evalC_op_succ, evalArgsC_pair_succ, evalArgsC_pair_succ, evalArgsC_nil_succ]
  simp only [sn2, show (some 2 : Option Nat) = some 1 ↔ False by decide, if_false]
  cases hy : evalC ops (j + 1) Y E with
  | error e => rfl
  | ok vy =>
    cases hx : evalC ops (j + 2) X E with
    | error e => rfl
    | ok vx => exact applyC_apply_succ ops (j + 2) vx vy

-- lock-step lemmas -------------------------------------------------------------------------------

/-- two outcomes are related: the same error, or values related by `R`. -/
def ResRel (R : Val → Val → Prop) : Res → Res → Prop
  | .ok a, .ok b => R a b
  | .error e, .error e' => e = e'
  | _, _ => False

theorem resRel_of_eq {r1 r2 : Res} (h : r1 = r2) : ResRel Eq r1 r2 := by
  subst h
  cases r1 <;> simp [ResRel]

/-- `(a X Y)` in two environments: if `X` has the same outcome in both at every fuel, `Y`
    has related outcomes at every fuel, and every code value `X` can produce runs to the same
    outcome in related environments, then the whole form has the same outcome at every fuel. -/
theorem sync_applyForm (ops : OpSem) (X Y E1 E2 : Val) (R : Val → Val → Prop)
    (hY : ∀ n, ResRel R (evalC ops n Y E1) (evalC ops n Y E2))
    (hX : ∀ n, evalC ops n X E1 = evalC ops n X E2)
    (hRun : ∀ m c v1 v2, evalC ops m X E1 = .ok c → R v1 v2 →
      ∀ k, evalC ops k c v1 = evalC ops k c v2) :
    ∀ n, evalC ops n (applyForm X Y) E1 = evalC ops n (applyForm X Y) E2 := by
  intro n
  by_cases h : n ≤ 3
  · rw [applyForm_low _ _ _ _ _ h, applyForm_low _ _ _ _ _ h]
  · obtain ⟨j, rfl⟩ : ∃ j, n = j + 4 := ⟨n - 4, by omega⟩
    rw [applyForm_high, applyForm_high]
    have hy := hY (j + 1)
    cases h1 : evalC ops (j + 1) Y E1 with
    | error e =>
      cases h2 : evalC ops (j + 1) Y E2 with
      | error e' => rw [h1, h2] at hy; simp only [ResRel] at hy; subst hy; rfl
      | ok v => rw [h1, h2] at hy; simp [ResRel] at hy
    | ok v1 =>
      cases h2 : evalC ops (j + 1) Y E2 with
      | error e' => rw [h1, h2] at hy; simp [ResRel] at hy
      | ok v2 =>
        rw [h1, h2] at hy
        simp only [ResRel] at hy
        rw [← hX (j + 2)]
        cases hx : evalC ops (j + 2) X E1 with
        | error e => rfl
        | ok c => exact hRun (j + 2) c v1 v2 hx hy (j + 2)

theorem sync_quote (ops : OpSem) (v E1 E2 : Val) :
    ∀ n, evalC ops n (qv v) E1 = evalC ops n (qv v) E2 := by
  intro n
  cases n with
  | zero => simp [evalC]
  | succ n => rw [evalC_quote_succ, evalC_quote_succ]

theorem sync_args_nil (ops : OpSem) (E1 E2 : Val) :
    ∀ n, evalArgsC ops n Val.nil E1 = evalArgsC ops n Val.nil E2 := by
  intro n
  cases n with
  | zero => simp [evalArgsC]
  | succ n => rw [evalArgsC_nil_succ, evalArgsC_nil_succ]

theorem sync_args_cons (ops : OpSem) (a r E1 E2 : Val)
    (ha : ∀ n, evalC ops n a E1 = evalC ops n a E2)
    (hr : ∀ n, evalArgsC ops n r E1 = evalArgsC ops n r E2) :
    ∀ n, evalArgsC ops n (.pair a r) E1 = evalArgsC ops n (.pair a r) E2 := by
  intro n
  cases n with
  | zero => simp [evalArgsC]
  | succ n => rw [evalArgsC_pair_succ, evalArgsC_pair_succ, ha n, hr n]

/-- an operator form whose operand list has the same outcome in both environments. -/
theorem sync_op (ops : OpSem) (op : Bytes) (l E1 E2 : Val)
    (hl : ∀ n, evalArgsC ops n l E1 = evalArgsC ops n l E2) :
    ∀ n, evalC ops n (.pair (.atom op) l) E1 = evalC ops n (.pair (.atom op) l) E2 := by
  intro n
  cases n with
  | zero => simp [evalC]
  | succ n => rw [evalC_op_succ, evalC_op_succ, hl n]

/-- `1` evaluates to the environment itself: related by "is the respective environment". -/
theorem sync_one (ops : OpSem) (E1 E2 : Val) :
    ∀ n, ResRel (fun v1 v2 => v1 = E1 ∧ v2 = E2) (evalC ops n (.atom [1]) E1) (evalC ops n (.atom [1]) E2) := by
  intro n
  cases n with
  | zero => simp [evalC, ResRel]
  | succ n => rw [evalC_one_succ, evalC_one_succ]; simp [ResRel]

theorem quote_inv (ops : OpSem) (m : Nat) (x E c : Val) (h : evalC ops m (qv x) E = .ok c) : c = x := by
  cases m with
  | zero => simp [evalC] at h
  | succ m => rw [evalC_quote_succ] at h; cases h; rfl

/-- `(a (q . x) 1)`: the wrapper of function bodies and `if` branches. -/
theorem sync_wrap (ops : OpSem) (x E1 E2 : Val)
    (h : ∀ n, evalC ops n x E1 = evalC ops n x E2) :
    ∀ n, evalC ops n (wrap x) E1 = evalC ops n (wrap x) E2 := by
  show ∀ n, evalC ops n (applyForm (qv x) (.atom [1])) E1 = evalC ops n (applyForm (qv x) (.atom [1])) E2
  apply sync_applyForm ops (qv x) (.atom [1]) E1 E2 (fun v1 v2 => v1 = E1 ∧ v2 = E2)
    (sync_one ops E1 E2) (sync_quote ops x E1 E2)
  intro m c v1 v2 hc hv
  rw [quote_inv ops m x E1 c hc, hv.1, hv.2]
  exact h

/-- the value of `(i C (q . A) (q . B))` is `A` or `B`. -/
theorem if_inv (ops : OpSem) (hops : OpsCore ops) (m : Nat) (cE a b E w : Val)
    (h : evalC ops m (.pair (.atom [3]) (.pair cE (.pair (qv a) (.pair (qv b) Val.nil)))) E = .ok w) :
    w = a ∨ w = b := by
  have hev : Evaluates ops (.pair (.atom [3]) (.pair cE (.pair (qv a) (.pair (qv b) Val.nil)))) E w := ⟨m, h⟩
  obtain ⟨vals, hargs, happ⟩ := (evaluates_op_iff (by rw [sn3]; decide)).mp hev
  obtain ⟨cv, r1, rfl, _, h1⟩ := evalArgs_pair_iff.mp hargs
  obtain ⟨av, r2, rfl, ha, h2⟩ := evalArgs_pair_iff.mp h1
  obtain ⟨bv, r3, rfl, hb, h3⟩ := evalArgs_pair_iff.mp h2
  obtain ⟨_, rfl⟩ := evalArgs_atom_iff.mp h3
  have ha' : av = a := (evaluates_quote_iff sn1).mp ha
  have hb' : bv = b := (evaluates_quote_iff sn1).mp hb
  subst ha'; subst hb'
  have := (applies_op_iff (by rw [sn3]; decide) (by rw [sn3]; decide)).mp happ
  rw [hops.opIf] at this
  simp only [Except.ok.injEq] at this
  by_cases hn : Val.nilp cv = true
  · rw [if_pos hn] at this; exact Or.inr this.symm
  · rw [if_neg hn] at this; exact Or.inl this.symm

/-- the lazy `if`: `(a (i C (q . (a (q . A) 1)) (q . (a (q . B) 1))) 1)`. -/
theorem sync_if (ops : OpSem) (hops : OpsCore ops) (cE aE bE E1 E2 : Val)
    (hc : ∀ n, evalC ops n cE E1 = evalC ops n cE E2)
    (ha : ∀ n, evalC ops n aE E1 = evalC ops n aE E2)
    (hb : ∀ n, evalC ops n bE E1 = evalC ops n bE E2) :
    ∀ n, evalC ops n (.pair (.atom [2]) (.pair
        (.pair (.atom [3]) (.pair cE (.pair (qv (wrap aE)) (.pair (qv (wrap bE)) Val.nil))))
        (.pair (.atom [1]) Val.nil))) E1 =
      evalC ops n (.pair (.atom [2]) (.pair
        (.pair (.atom [3]) (.pair cE (.pair (qv (wrap aE)) (.pair (qv (wrap bE)) Val.nil))))
        (.pair (.atom [1]) Val.nil))) E2 := by
  apply sync_applyForm ops _ (.atom [1]) E1 E2 (fun v1 v2 => v1 = E1 ∧ v2 = E2) (sync_one ops E1 E2)
  · apply sync_op
    apply sync_args_cons ops _ _ _ _ hc
    apply sync_args_cons ops _ _ _ _ (sync_quote ops _ E1 E2)
    apply sync_args_cons ops _ _ _ _ (sync_quote ops _ E1 E2)
    exact sync_args_nil ops E1 E2
  · intro m c v1 v2 hcv hv
    rw [hv.1, hv.2]
    rcases if_inv ops hops m cE (wrap aE) (wrap bE) E1 c hcv with rfl | rfl
    · exact sync_wrap ops aE E1 E2 ha
    · exact sync_wrap ops bE E1 E2 hb

theorem lookup_two (F A : Val) : Path.lookup [2] (.pair F A) = .ok F := by
  have : Bytes.toNatBE [2] = 2 * 1 := by decide
  unfold Path.lookup
  rw [this, Path.lookupNat_left 1 (Nat.le_refl 1), Path.lookupNat_one]

theorem sync_two (ops : OpSem) (F A1 A2 : Val) :
    ∀ n, evalC ops n (.atom [2]) (.pair F A1) = evalC ops n (.atom [2]) (.pair F A2) := by
  intro n
  cases n with
  | zero => simp [evalC]
  | succ n => rw [evalC_atom_succ, evalC_atom_succ, lookup_two, lookup_two]

theorem sync_path (ops : OpSem) (p : Nat) (E1 E2 : Val)
    (h : Path.lookupNat p E1 = Path.lookupNat p E2) :
    ∀ n, evalC ops n (pathAtom p) E1 = evalC ops n (pathAtom p) E2 := by
  intro n
  cases n with
  | zero => simp [evalC]
  | succ n =>
    unfold pathAtom
    rw [evalC_atom_succ, evalC_atom_succ]
    unfold Path.lookup
    rw [Bytes.toNatBE_ofIntClvm]; exact h

/-- a function call `(a PATH (c 2 ARGS))`: the callee's code and the rebuilt callee
    environment `(F . args)` are the same VALUES in both runs, so the callee's run is the same
    run — nothing about the callee's body is needed. -/
theorem sync_call (ops : OpSem) (pf : Nat) (l F A1 A2 : Val)
    (hp : Path.lookupNat pf (.pair F A1) = Path.lookupNat pf (.pair F A2))
    (hl : ∀ n, evalC ops n l (.pair F A1) = evalC ops n l (.pair F A2)) :
    ∀ n, evalC ops n (.pair (.atom [2]) (.pair (pathAtom pf)
        (.pair (.pair (.atom [4]) (.pair (.atom [2]) (.pair l Val.nil))) Val.nil))) (.pair F A1) =
      evalC ops n (.pair (.atom [2]) (.pair (pathAtom pf)
        (.pair (.pair (.atom [4]) (.pair (.atom [2]) (.pair l Val.nil))) Val.nil))) (.pair F A2) := by
  apply sync_applyForm ops (pathAtom pf) _ (.pair F A1) (.pair F A2) Eq
  · intro n
    apply resRel_of_eq
    apply sync_op
    apply sync_args_cons ops _ _ _ _ (sync_two ops F A1 A2)
    apply sync_args_cons ops _ _ _ _ hl
    exact sync_args_nil ops _ _
  · exact sync_path ops pf _ _ hp
  · intro m c v1 v2 _ hv k
    rw [hv]

-- the expression-level theorem ------------------------------------------------------------------

/-- the two environments give the same outcome for the path of every listed name that the
    environment shape `env` resolves. -/
def AgreeOn (env : Rich) (E1 E2 : Val) (names : List Bytes) : Prop :=
  ∀ x ∈ names, ∀ p, Lang.nameLookup x env = some p → Path.lookupNat p E1 = Path.lookupNat p E2

theorem AgreeOn.mono {env : Rich} {E1 E2 : Val} {l l' : List Bytes}
    (h : AgreeOn env E1 E2 l) (hs : ∀ x ∈ l', x ∈ l) : AgreeOn env E1 E2 l' :=
  fun x hx p hp => h x (hs x hx) p hp

mutual
/-- NON-INTERFERENCE, expressions: compiled code run in `(F . A1)` and `(F . A2)` has the same
    outcome at every fuel when the environments agree on the names the expression mentions. -/
theorem ni_expr (ops : OpSem) (hops : OpsCore ops) (env : Rich) (F A1 A2 : Val) :
    (e : Expr) → (c : Val) → compileE env e = some c →
    AgreeOn env (.pair F A1) (.pair F A2) (freeVars e) →
    AgreeOn env (.pair F A1) (.pair F A2) (callsOf e) →
    ∀ n, evalC ops n c (.pair F A1) = evalC ops n c (.pair F A2)
  | .var x, c, hc, hv, _ => by
    simp only [compileE] at hc
    cases hp : Lang.nameLookup x env with
    | none => rw [hp] at hc; simp at hc
    | some p =>
      rw [hp] at hc; simp at hc; subst hc
      exact sync_path ops p _ _ (hv x (by simp [freeVars]) p hp)
  | .lit v, c, hc, _, _ => by
    simp only [compileE, Option.some.injEq] at hc; subst hc
    exact sync_quote ops v _ _
  | .op code as, c, hc, hv, hf => by
    simp only [compileE] at hc
    cases hl : compileArgs env as with
    | none => rw [hl] at hc; simp at hc
    | some l =>
      rw [hl] at hc; simp at hc; subst hc
      exact sync_op ops _ l _ _ (ni_args ops hops env F A1 A2 as l hl
        (hv.mono (by intro x hx; simpa [freeVars] using hx))
        (hf.mono (by intro x hx; simpa [callsOf] using hx)))
  | .ite cnd a b, c, hc, hv, hf => by
    simp only [compileE] at hc
    cases h1 : compileE env cnd with
    | none => rw [h1] at hc; simp at hc
    | some c' =>
      cases h2 : compileE env a with
      | none => rw [h1, h2] at hc; simp at hc
      | some a' =>
        cases h3 : compileE env b with
        | none => rw [h1, h2, h3] at hc; simp at hc
        | some b' =>
          rw [h1, h2, h3] at hc; simp at hc; subst hc
          exact sync_if ops hops c' a' b' _ _
            (ni_expr ops hops env F A1 A2 cnd c' h1
              (hv.mono (by intro x hx; simp [freeVars, hx]))
              (hf.mono (by intro x hx; simp [callsOf, hx])))
            (ni_expr ops hops env F A1 A2 a a' h2
              (hv.mono (by intro x hx; simp [freeVars, hx]))
              (hf.mono (by intro x hx; simp [callsOf, hx])))
            (ni_expr ops hops env F A1 A2 b b' h3
              (hv.mono (by intro x hx; simp [freeVars, hx]))
              (hf.mono (by intro x hx; simp [callsOf, hx])))
  | .call f as, c, hc, hv, hf => by
    simp only [compileE] at hc
    cases hpf : Lang.nameLookup f env with
    | none => rw [hpf] at hc; simp at hc
    | some pf =>
      cases hl : compileCallArgs env as with
      | none => rw [hpf, hl] at hc; simp at hc
      | some l =>
        rw [hpf, hl] at hc; simp at hc; subst hc
        exact sync_call ops pf l F A1 A2 (hf f (by simp [callsOf]) pf hpf)
          (ni_callArgs ops hops env F A1 A2 as l hl
            (hv.mono (by intro x hx; simpa [freeVars] using hx))
            (hf.mono (by intro x hx; simp [callsOf, hx])))
/-- operator argument lists `(e1' e2' …)` (evaluated by `evalArgsC`). -/
theorem ni_args (ops : OpSem) (hops : OpsCore ops) (env : Rich) (F A1 A2 : Val) :
    (es : Exprs) → (l : Val) → compileArgs env es = some l →
    AgreeOn env (.pair F A1) (.pair F A2) (freeVarss es) →
    AgreeOn env (.pair F A1) (.pair F A2) (callsOfs es) →
    ∀ n, evalArgsC ops n l (.pair F A1) = evalArgsC ops n l (.pair F A2)
  | .nil, l, hc, _, _ => by
    simp only [compileArgs, Option.some.injEq] at hc; subst hc
    exact sync_args_nil ops _ _
  | .cons e r, l, hc, hv, hf => by
    simp only [compileArgs] at hc
    cases h1 : compileE env e with
    | none => rw [h1] at hc; simp at hc
    | some e' =>
      cases h2 : compileArgs env r with
      | none => rw [h1, h2] at hc; simp at hc
      | some r' =>
        rw [h1, h2] at hc; simp at hc; subst hc
        exact sync_args_cons ops e' r' _ _
          (ni_expr ops hops env F A1 A2 e e' h1
            (hv.mono (by intro x hx; simp [freeVarss, hx]))
            (hf.mono (by intro x hx; simp [callsOfs, hx])))
          (ni_args ops hops env F A1 A2 r r' h2
            (hv.mono (by intro x hx; simp [freeVarss, hx]))
            (hf.mono (by intro x hx; simp [callsOfs, hx])))
/-- function-call argument lists `(c e1' (c e2' … ()))` (evaluated as code). -/
theorem ni_callArgs (ops : OpSem) (hops : OpsCore ops) (env : Rich) (F A1 A2 : Val) :
    (es : Exprs) → (l : Val) → compileCallArgs env es = some l →
    AgreeOn env (.pair F A1) (.pair F A2) (freeVarss es) →
    AgreeOn env (.pair F A1) (.pair F A2) (callsOfs es) →
    ∀ n, evalC ops n l (.pair F A1) = evalC ops n l (.pair F A2)
  | .nil, l, hc, _, _ => by
    simp only [compileCallArgs, Option.some.injEq] at hc; subst hc
    intro n
    cases n with
    | zero => simp [evalC]
    | succ n => simp [Val.nil, evalC_atom_succ, Path.lookup, Bytes.toNatBE, Path.lookupNat]
  | .cons e r, l, hc, hv, hf => by
    simp only [compileCallArgs] at hc
    cases h1 : compileE env e with
    | none => rw [h1] at hc; simp at hc
    | some e' =>
      cases h2 : compileCallArgs env r with
      | none => rw [h1, h2] at hc; simp at hc
      | some r' =>
        rw [h1, h2] at hc; simp at hc; subst hc
        apply sync_op
        apply sync_args_cons ops _ _ _ _
          (ni_expr ops hops env F A1 A2 e e' h1
            (hv.mono (by intro x hx; simp [freeVarss, hx]))
            (hf.mono (by intro x hx; simp [callsOfs, hx])))
        apply sync_args_cons ops _ _ _ _
          (ni_callArgs ops hops env F A1 A2 r r' h2
            (hv.mono (by intro x hx; simp [freeVarss, hx]))
            (hf.mono (by intro x hx; simp [callsOfs, hx])))
        exact sync_args_nil ops _ _
end

-- programs ----------------------------------------------------------------------------------------

/-- `(c (q . FUNCS) 1)`, fuel-exactly: the run-time environment `(FUNCS . args)`. -/
theorem consEnv_low (ops : OpSem) (Fv a : Val) (n : Nat) (h : n ≤ 3) :
    evalC ops n (.pair (.atom [4]) (.pair (qv Fv) (.pair (.atom [1]) Val.nil))) a = .error .fuel := by
  match n, h with
  | 0, _ => simp [evalC]
  | 1, _ => simp [evalC_op_succ, evalArgsC, sn4]
  | 2, _ => simp [evalC_op_succ, evalArgsC, sn4]
  | 3, _ => simp [evalC_op_succ, evalArgsC, sn4]

theorem consEnv_high (ops : OpSem) (hops : OpsCore ops) (Fv a : Val) (j : Nat) :
    evalC ops (j + 4) (.pair (.atom [4]) (.pair (qv Fv) (.pair (.atom [1]) Val.nil))) a = .ok (.pair Fv a) := by
  rw [evalC_op_succ, evalArgsC_pair_succ, evalArgsC_pair_succ, evalArgsC_nil_succ, evalC_one_succ,
    evalC_quote_succ]
  simp only [sn4, show (some 4 : Option Nat) = some 1 ↔ False by decide, if_false]
  rw [applyC_op_succ ops (j + 2) [4] _ (by rw [sn4]; decide) (by rw [sn4]; decide)]
  exact hops.opCons Fv a

/-- argument values whose destructurings bind the same value to `y` give run-time
    environments with the same lookup outcome at `y`'s path (function names resolve in the
    shared function table). -/
theorem agree_of_params (names : List Bytes) (params : Rich)
    (hat : Lang.buildTree names (names.length + 1) ≠ Rich.atom [64])
    (hpat : Lang.patOk params = true) (Fv a1 a2 : Val) (ρ1 ρ2 : Lang.Env)
    (hb1 : Lang.bindPat params (Lang.SV.ofVal a1) = some ρ1)
    (hb2 : Lang.bindPat params (Lang.SV.ofVal a2) = some ρ2)
    (y : Bytes) (h : paramValue params a1 y = paramValue params a2 y)
    (p : Nat) (hp : Lang.nameLookup y (Lang.envShape names params) = some p) :
    Path.lookupNat p (.pair Fv a1) = Path.lookupNat p (.pair Fv a2) := by
  unfold Lang.envShape at hp
  rw [Lang.nameLookup_cons y _ _ (by intro cap sub h1 _; exact hat h1)] at hp
  cases ht : Lang.nameLookup y (Lang.buildTree names (names.length + 1)) with
  | some v =>
    rw [ht] at hp; simp at hp; subst hp
    have hv := Lang.nameLookup_pos _ _ _ ht
    rw [Path.lookupNat_left v hv, Path.lookupNat_left v hv]
  | none =>
    rw [ht] at hp
    cases hq : Lang.nameLookup y params with
    | none => rw [hq] at hp; simp at hp
    | some v =>
      rw [hq] at hp; simp at hp; subst hp
      have hv := Lang.nameLookup_pos _ _ _ hq
      rw [Path.lookupNat_right v hv, Path.lookupNat_right v hv]
      obtain ⟨w1, hw1, hl1⟩ := Lang.nameLookup_correct y params hpat v hq a1 ρ1 hb1
      obtain ⟨w2, hw2, hl2⟩ := Lang.nameLookup_correct y params hpat v hq a2 ρ2 hb2
      unfold paramValue at h
      rw [hb1, hb2] at h
      simp only [hw1, hw2, toVal_ofVal, Option.some.injEq] at h
      rw [hl1, hl2, h]

/-- NON-INTERFERENCE for a whole compiled program (function list taken as given). -/
theorem ni_compileWith (ops : OpSem) (hops : OpsCore ops) (FS : List FnDef) (hwf : WF FS)
    (params : Rich) (hpat : Lang.patOk params = true) (body : Expr) (code : Val)
    (hc : compileWith FS params body = some code)
    (a1 a2 : Val) (ρ1 ρ2 : Lang.Env)
    (hb1 : Lang.bindPat params (Lang.SV.ofVal a1) = some ρ1)
    (hb2 : Lang.bindPat params (Lang.SV.ofVal a2) = some ρ2)
    (hag : ∀ y ∈ usedNames body, paramValue params a1 y = paramValue params a2 y) :
    ∀ n, evalC ops n code a1 = evalC ops n code a2 := by
  unfold compileWith at hc
  cases hm : compileE (Lang.envShape (FS.map (·.name)) params) body with
  | none => rw [hm] at hc; simp at hc
  | some main =>
    cases hent : compileFns (FS.map (·.name)) FS with
    | none => rw [hm, hent] at hc; simp at hc
    | some entries =>
      rw [hm, hent] at hc; simp at hc; subst hc
      have hat : Lang.buildTree (FS.map (·.name)) ((FS.map (·.name)).length + 1) ≠ Rich.atom [64] := by
        apply buildTree_ne_at
        intro m hm'
        simp only [List.mem_map] at hm'
        obtain ⟨f, hf, rfl⟩ := hm'
        exact hwf.noAt f hf
      apply sync_applyForm ops (qv main) _ a1 a2
        (fun v1 v2 => v1 = .pair (funcs entries) a1 ∧ v2 = .pair (funcs entries) a2)
      · intro n
        by_cases h : n ≤ 3
        · rw [consEnv_low ops _ _ n h, consEnv_low ops _ _ n h]; simp [ResRel]
        · obtain ⟨j, rfl⟩ : ∃ j, n = j + 4 := ⟨n - 4, by omega⟩
          rw [consEnv_high ops hops, consEnv_high ops hops]
          exact ⟨rfl, rfl⟩
      · exact sync_quote ops main a1 a2
      · intro m c v1 v2 hcv hv
        rw [quote_inv ops m main a1 c hcv, hv.1, hv.2]
        apply ni_expr ops hops _ (funcs entries) a1 a2 body main hm
        · intro y hy p hp
          exact agree_of_params _ params hat hpat _ a1 a2 ρ1 ρ2 hb1 hb2 y
            (hag y (by simp [usedNames, hy])) p hp
        · intro y hy p hp
          exact agree_of_params _ params hat hpat _ a1 a2 ρ1 ρ2 hb1 hb2 y
            (hag y (by simp [usedNames, hy])) p hp

/-- NON-INTERFERENCE for `compileCore`: only the names the main expression of a well-formed
    core program mentions (reads or calls) can influence the compiled program — two argument
    values that destructure against the parameter pattern to bindings agreeing on every
    mentioned name give the same outcome at every amount of fuel. -/
theorem ni_compileCore (ops : OpSem) (hops : OpsCore ops) (P : Prog) (hwf : progWF P = true)
    (code : Val) (hc : compileCore P = some code)
    (a1 a2 : Val) (ρ1 ρ2 : Lang.Env)
    (hb1 : Lang.bindPat P.params (Lang.SV.ofVal a1) = some ρ1)
    (hb2 : Lang.bindPat P.params (Lang.SV.ofVal a2) = some ρ2)
    (hag : ∀ y ∈ usedNames P.body, paramValue P.params a1 y = paramValue P.params a2 y) :
    ∀ n, evalC ops n code a1 = evalC ops n code a2 := by
  simp only [progWF, Bool.and_eq_true, List.all_eq_true, Option.isNone_iff_eq_none] at hwf
  obtain ⟨⟨⟨⟨⟨hf, hp⟩, _⟩, _⟩, _⟩, _⟩ := hwf
  rw [compileCore_eq] at hc
  have hwfK := wf_keep P.fns (liveSet P) (fnsWF_sound P.fns hf)
  exact ni_compileWith ops hops (keep P.fns (liveSet P)) hwfK P.params hp P.body code hc
    a1 a2 ρ1 ρ2 hb1 hb2 hag

/-- the model of the use check only reports names the main expression never mentions. -/
theorem isReportedUnused_sound (P : Prog) (x : Bytes) (h : isReportedUnused P x = true) :
    x ∉ usedNames P.body := by
  simp only [isReportedUnused, Bool.and_eq_true, Bool.not_eq_true', List.contains_eq_mem,
    decide_eq_false_iff_not] at h
  exact h.2

theorem mem_reportedUnused_iff (P : Prog) (x : Bytes) :
    x ∈ reportedUnused P ↔ isReportedUnused P x = true := by
  simp only [reportedUnused, isReportedUnused, List.mem_filter, Bool.and_eq_true, List.contains_eq_mem,
    decide_eq_true_eq, and_assoc]

end Core
