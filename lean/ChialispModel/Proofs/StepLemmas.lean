/-
  Proofs/StepLemmas.lean — lemmas behind Props/C06.lean: the step machine of Clvm/Step.lean
  simulates, and is simulated by, the consensus evaluator `Clvm.evalC` on every run that takes
  no flagged branch.
-/
import ChialispModel.Clvm.Step
import ChialispModel.Proofs.IntBytesLemmas
import ChialispModel.Proofs.RichLemmas
import ChialispModel.Proofs.StepEvalLemmas

namespace StepLemmas
open Step Rich

-- ---------------------------------------------------------------------------------------
-- integers as operator / path atoms
-- ---------------------------------------------------------------------------------------

theorem toClvm_int (m : Mode) (j : Int) : toClvm m (.int j) = .atom (bytesOfInt m j) := by
  simp only [toClvm, bytesOfInt]
  split <;> rfl

theorem toClvm_cons (m : Mode) (a d : Rich) : toClvm m (.cons a d) = .pair (toClvm m a) (toClvm m d) := rfl
theorem toClvm_nil (m : Mode) : toClvm m .nil = .atom [] := rfl

theorem flatten_zero : flattenSignedInt 0 = 0 := by
  simp [flattenSignedInt, Bytes.ofInt_zero, Bytes.toNatBE]

/-- the bytes of an integer whose flattened value is not 0 are `ofInt`, and their unsigned
    value is the flattened value. -/
theorem bytesOfInt_of_flatten_ne {m : Mode} {v : Int} (h : flattenSignedInt v ≠ 0) :
    bytesOfInt m v = Bytes.ofInt v := by
  unfold bytesOfInt
  split
  · rename_i hc
    simp only [Bool.and_eq_true, beq_iff_eq] at hc
    rw [hc.2] at h
    exact absurd flatten_zero h
  · rfl

theorem flatten_ofNat (n : Nat) : flattenSignedInt (Int.ofNat n) = n := Bytes.toNatBE_ofInt_ofNat n

/-- the atom of an integer whose flattened value is 0 has the unsigned value 0. -/
theorem toNatBE_bytesOfInt_zero {m : Mode} {v : Int} (h : flattenSignedInt v = 0) :
    Bytes.toNatBE (bytesOfInt m v) = 0 := by
  unfold bytesOfInt
  split
  · rfl
  · exact h

/-- what `small_number` of an integer's encoding can be (small positive opcodes). -/
theorem smallNumber_bytesOfInt {m : Mode} {j : Int} {k : Nat}
    (h : Ops.smallNumber (bytesOfInt m j) = some k) (h1 : 1 ≤ k) (h2 : k < 128) : j = (k : Int) := by
  have hk := Ops.smallNumber_some h
  unfold bytesOfInt at hk
  split at hk
  · simp [Bytes.toNatBE] at hk; omega
  · cases j with
    | ofNat n =>
      rw [Bytes.toNatBE_ofInt_ofNat] at hk
      subst hk; rfl
    | negSucc n =>
      have := Bytes.toNatBE_ofInt_negSucc_ge n
      omega

theorem smallNumber_one (m : Mode) : Ops.smallNumber (bytesOfInt m 1) = some 1 := by
  cases m <;> decide
theorem smallNumber_two (m : Mode) : Ops.smallNumber (bytesOfInt m 2) = some 2 := by
  cases m <;> decide

theorem smallNumber_ne_one {m : Mode} {j : Int} (h : j ≠ 1) : Ops.smallNumber (bytesOfInt m j) ≠ some 1 := by
  intro hc
  exact h (smallNumber_bytesOfInt hc (by decide) (by decide))

theorem smallNumber_ne_two {m : Mode} {j : Int} (h : j ≠ 2) : Ops.smallNumber (bytesOfInt m j) ≠ some 2 := by
  intro hc
  exact h (smallNumber_bytesOfInt hc (by decide) (by decide))

-- ---------------------------------------------------------------------------------------
-- paths
-- ---------------------------------------------------------------------------------------

theorem bitsOfAux_fuel (f1 f2 p : Nat) (h1 : p ≤ f1) (h2 : p ≤ f2) :
    Path.bitsOfAux f1 p = Path.bitsOfAux f2 p := by
  induction f1 generalizing f2 p with
  | zero =>
    have : p = 0 := by omega
    subst this
    cases f2 <;> simp [Path.bitsOfAux]
  | succ f1 ih =>
    cases f2 with
    | zero =>
      have : p = 0 := by omega
      subst this
      simp [Path.bitsOfAux]
    | succ f2 =>
      simp only [Path.bitsOfAux]
      split
      · rfl
      · rw [ih f2 (p / 2) (by omega) (by omega)]

theorem bitsOf_le_one {p : Nat} (h : p ≤ 1) : Path.bitsOf p = [] := by
  unfold Path.bitsOf
  cases p with
  | zero => rfl
  | succ n => simp [Path.bitsOfAux, h]

theorem bitsOf_step {p : Nat} (h : 1 < p) :
    Path.bitsOf p = (p % 2 == 1) :: Path.bitsOf (p / 2) := by
  unfold Path.bitsOf
  cases p with
  | zero => omega
  | succ n =>
    simp only [Path.bitsOfAux]
    rw [if_neg (by omega)]
    rw [bitsOfAux_fuel n ((n + 1) / 2) ((n + 1) / 2) (by omega) (Nat.le_refl _)]

/-- `choose_path` on the rich context is clvmr's path walk on the converted context. -/
theorem choosePath_walk (m : Mode) (ctx : Rich) (p : Nat) (hp : 1 ≤ p) :
    match choosePath p ctx with
    | some r => Path.walk (Path.bitsOf p) (toClvm m ctx) = .ok (toClvm m r)
    | none => ∃ t, Path.walk (Path.bitsOf p) (toClvm m ctx) = .error (.fail t) := by
  induction ctx generalizing p with
  | cons a b iha ihb =>
    simp only [choosePath]
    by_cases h1 : p = 1
    · subst h1
      simp [bitsOf_le_one, Path.walk]
    · rw [if_neg h1]
      have hp2 : 1 < p := by omega
      rw [bitsOf_step hp2]
      simp only [toClvm, Path.walk]
      by_cases hev : p % 2 = 0
      · rw [if_pos hev]
        have : (p % 2 == 1) = false := by simp; omega
        rw [this]
        exact iha (p / 2) (by omega)
      · rw [if_neg hev]
        have : (p % 2 == 1) = true := by simp; omega
        rw [this]
        exact ihb (p / 2) (by omega)
  | nil =>
    simp only [choosePath]
    by_cases h1 : p = 1
    · subst h1; simp [bitsOf_le_one, Path.walk]
    · rw [if_neg h1, bitsOf_step (by omega)]; exact ⟨_, rfl⟩
  | int i =>
    simp only [choosePath]
    by_cases h1 : p = 1
    · subst h1; simp [bitsOf_le_one, Path.walk]
    · rw [if_neg h1, bitsOf_step (by omega), toClvm_int]; exact ⟨_, rfl⟩
  | qstr q s =>
    simp only [choosePath]
    by_cases h1 : p = 1
    · subst h1; simp [bitsOf_le_one, Path.walk]
    · rw [if_neg h1, bitsOf_step (by omega)]; exact ⟨_, rfl⟩
  | atom s =>
    simp only [choosePath]
    by_cases h1 : p = 1
    · subst h1; simp [bitsOf_le_one, Path.walk]
    · rw [if_neg h1, bitsOf_step (by omega)]; exact ⟨_, rfl⟩

/-- consensus lookup of an atom whose unsigned value is `p ≥ 1`. -/
theorem lookup_eq_walk {b : Bytes} {p : Nat} (hb : Bytes.toNatBE b = p) (hp : 1 ≤ p) (env : Val) :
    Path.lookup b env = Path.walk (Path.bitsOf p) env := by
  unfold Path.lookup Path.lookupNat
  rw [hb, if_neg (by omega)]

/-- consensus lookup of an atom whose unsigned value is 0: nil. -/
theorem lookup_zero {b : Bytes} (hb : Bytes.toNatBE b = 0) (env : Val) : Path.lookup b env = .ok Val.nil := by
  unfold Path.lookup Path.lookupNat
  rw [if_pos hb]

-- ---------------------------------------------------------------------------------------
-- argument lists
-- ---------------------------------------------------------------------------------------

/-- a list of rich values consed onto a terminator. -/
def mkArgs (l : List Rich) (t : Rich) : Rich := l.foldr Rich.cons t

def spine : Rich → List Rich
  | .cons a d => a :: spine d
  | _ => []

theorem mkArgs_spine (b : Rich) : mkArgs (spine b) (terminator b) = b := by
  induction b with
  | cons a d _ ihd => simp [spine, terminator, mkArgs] at *; exact ihd
  | _ => rfl

theorem terminator_not_cons (b : Rich) : ∀ x y, terminator b ≠ .cons x y := by
  induction b with
  | cons a d _ ihd => simpa [terminator] using ihd
  | _ => intro x y h; cases h

theorem evalArgsGo_eq (m : Mode) (b : Rich) (acc : List Rich) :
    evalArgsGo m b acc =
      if !truthy m (terminator b) then some (terminator b, (spine b).reverse ++ acc) else none := by
  induction b generalizing acc with
  | cons a d _ ihd => simp [evalArgsGo, terminator, spine, ihd]
  | _ => simp [evalArgsGo, terminator, spine]

/-- a non-pair rich value converts to the empty atom exactly when `nilp`. -/
theorem toClvm_nil_nilp {m : Mode} {t : Rich} (h : toClvm m t = .atom []) : Rich.nilp t = true := by
  cases t with
  | nil => rfl
  | cons a d => simp [toClvm] at h
  | int i =>
    simp only [toClvm] at h
    split at h
    · rename_i hc; simp only [Bool.and_eq_true, beq_iff_eq] at hc; simp [Rich.nilp, hc.2]
    · exact absurd (Val.atom.inj h) (Bytes.ofInt_ne_nil i)
  | qstr q b => simp only [toClvm, Val.atom.injEq] at h; simp [Rich.nilp, h]
  | atom b => simp only [toClvm, Val.atom.injEq] at h; simp [Rich.nilp, h]

theorem toClvm_nil_not_cons {m : Mode} {t : Rich} (h : toClvm m t = .atom []) :
    ∀ x y, t ≠ .cons x y := by
  intro x y hc; subst hc; simp [toClvm] at h

theorem properList_mkArgs {m : Mode} (vs : List Rich) {t : Rich} (ht : toClvm m t = .atom []) :
    properList (mkArgs vs t) = some vs := by
  induction vs with
  | nil =>
    have hn := toClvm_nil_nilp ht
    cases t with
    | cons a d => exact absurd rfl (toClvm_nil_not_cons ht a d)
    | _ => simp [mkArgs, properList, hn]
  | cons v vs ih =>
    simp only [mkArgs, List.foldr] at ih ⊢
    simp [properList, ih]

theorem spineLen_mkArgs {m : Mode} (vs : List Rich) {t : Rich} (ht : toClvm m t = .atom []) :
    spineLen (mkArgs vs t) = vs.length := by
  induction vs with
  | nil =>
    cases t with
    | cons a d => exact absurd rfl (toClvm_nil_not_cons ht a d)
    | _ => rfl
  | cons v vs ih =>
    simp only [mkArgs, List.foldr] at ih ⊢
    simp [spineLen, ih]

theorem elems_mkArgs {m : Mode} (vs : List Rich) {t : Rich} (ht : toClvm m t = .atom []) :
    Val.elems (toClvm m (mkArgs vs t)) = vs.map (toClvm m) := by
  induction vs with
  | nil => simp [mkArgs, ht, Val.elems]
  | cons v vs ih =>
    simp only [mkArgs, List.foldr] at ih ⊢
    simp [toClvm, Val.elems, ih]

theorem getArgs_mkArgs {m : Mode} (n : Nat) (vs : List Rich) {t : Rich} (ht : toClvm m t = .atom []) :
    Ops.getArgs n (toClvm m (mkArgs vs t)) = if vs.length = n then some (vs.map (toClvm m)) else none := by
  simp [Ops.getArgs, elems_mkArgs vs ht]

/-- an operand list whose terminator is not the empty atom never evaluates. -/
theorem evalArgsC_bad_terminator (ops : OpSem) (args env : Val) (f : Nat)
    (h : Val.nilp (Val.terminator args) = false) : ∀ vs, Clvm.evalArgsC ops f args env ≠ .ok vs := by
  induction args generalizing f with
  | atom b =>
    intro vs
    cases f with
    | zero => simp [Clvm.evalArgsC]
    | succ f =>
      simp only [Val.terminator, Val.nilp] at h
      simp [Clvm.evalArgsC, h, failR]
  | pair a d _ ihd =>
    intro vs
    cases f with
    | zero => simp [Clvm.evalArgsC]
    | succ f =>
      simp only [Val.terminator] at h
      simp only [Clvm.evalArgsC]
      cases hr : Clvm.evalArgsC ops f d env with
      | ok rs => exact absurd hr (ihd f h rs)
      | error e => simp

theorem terminator_toClvm (m : Mode) (b : Rich) :
    Val.terminator (toClvm m b) = toClvm m (terminator b) := by
  induction b with
  | cons a d _ ihd => simpa [toClvm, Val.terminator, terminator] using ihd
  | nil => rfl
  | int i => simp only [terminator]; rw [toClvm_int]; rfl
  | qstr q s => rfl
  | atom s => rfl

/-- a non-pair value whose conversion is `nilp` converts to the empty atom. -/
theorem toClvm_of_nilp {m : Mode} {t : Rich} (hc : ∀ x y, t ≠ .cons x y)
    (h : Val.nilp (toClvm m t) = true) : toClvm m t = .atom [] := by
  cases t with
  | cons a d => exact absurd rfl (hc a d)
  | nil => rfl
  | int i =>
    rw [toClvm_int] at h ⊢
    simp only [Val.nilp, List.isEmpty_iff] at h
    rw [h]
  | qstr q s => simp only [toClvm, Val.nilp, List.isEmpty_iff] at h ⊢; rw [h]
  | atom s => simp only [toClvm, Val.nilp, List.isEmpty_iff] at h ⊢; rw [h]

-- ---------------------------------------------------------------------------------------
-- `apply_op`: `(head 5 11 23 …)` on `(() . args)` applies the operator to the arguments
-- ---------------------------------------------------------------------------------------

theorem bitsOf_double_succ {s : Nat} (h : 1 ≤ s) : Path.bitsOf (1 + 2 * s) = true :: Path.bitsOf s := by
  rw [bitsOf_step (by omega)]
  have h1 : ((1 + 2 * s) % 2 == 1) = true := by simp
  have h2 : (1 + 2 * s) / 2 = s := by omega
  rw [h1, h2]

theorem walk_append (l1 l2 : List Bool) (v : Val) :
    Path.walk (l1 ++ l2) v =
      match Path.walk l1 v with
      | .ok x => Path.walk l2 x
      | .error e => .error e := by
  induction l1 generalizing v with
  | nil => simp [Path.walk]
  | cons b r ih =>
    cases v with
    | atom a => simp [Path.walk, failR]
    | pair a d => simp only [List.cons_append, Path.walk]; exact ih _

theorem lookup_nat_atom (m : Mode) {s : Nat} (hs : 1 ≤ s) (env : Val) :
    Path.lookup (bytesOfInt m (s : Int)) env = Path.walk (Path.bitsOf s) env := by
  have hb : bytesOfInt m (s : Int) = Bytes.ofInt (Int.ofNat s) := by
    unfold bytesOfInt
    rw [if_neg]
    · rfl
    · simp; omega
  rw [hb]
  exact lookup_eq_walk (Bytes.toNatBE_ofInt_ofNat s) hs env

theorem evalArgsC_refs (m : Mode) (ops : OpSem) {t : Rich} (ht : toClvm m t = .atom [])
    (vs : List Rich) (n s : Nat) (ENV : Val) (fuel : Nat) (hs : 1 ≤ s)
    (hb : Path.bitsOf s = List.replicate n true ++ [false])
    (hw : Path.walk (List.replicate n true) ENV = .ok (toClvm m (mkArgs vs t)))
    (hf : vs.length + 1 ≤ fuel) :
    Clvm.evalArgsC ops fuel (toClvm m (argRefs (s : Int) (mkArgs vs t))) ENV
      = .ok (toClvm m (mkArgs vs t)) := by
  induction vs generalizing n s fuel with
  | nil =>
    obtain ⟨f, rfl⟩ : ∃ f, fuel = f + 1 := ⟨fuel - 1, by simp at hf; omega⟩
    cases t with
    | cons a d => exact absurd rfl (toClvm_nil_not_cons ht a d)
    | _ => simp [mkArgs, argRefs, ht, Clvm.evalArgsC, Val.nil]
  | cons v vs ih =>
    obtain ⟨f, rfl⟩ : ∃ f, fuel = f + 1 := ⟨fuel - 1, by simp at hf; omega⟩
    have hf' : vs.length + 1 ≤ f := by simp at hf; omega
    obtain ⟨f2, hf2⟩ : ∃ f2, f = f2 + 1 := ⟨f - 1, by omega⟩
    simp only [mkArgs, List.foldr] at ih hw ⊢
    simp only [argRefs, toClvm_cons] at hw ⊢
    rw [toClvm_int]
    simp only [Clvm.evalArgsC]
    have e1 : (1 + 2 * (s : Int)) = ((1 + 2 * s : Nat) : Int) := by omega
    have hb' : Path.bitsOf (1 + 2 * s) = List.replicate (n + 1) true ++ [false] := by
      rw [bitsOf_double_succ hs, hb]; rfl
    have hw' : Path.walk (List.replicate (n + 1) true) ENV = .ok (toClvm m (List.foldr Rich.cons t vs)) := by
      rw [List.replicate_succ', walk_append, hw]; rfl
    rw [e1, ih (n + 1) (1 + 2 * s) f (by omega) hb' hw' hf']
    simp only
    rw [hf2]
    simp only [Clvm.evalC]
    rw [lookup_nat_atom m hs, hb, walk_append, hw]
    rfl

/-- `apply_op` hands the operator and the already evaluated arguments to clvmr's `apply_op`. -/
theorem applyOp_eval (m : Mode) (ops : OpSem) (j : Int) (vs : List Rich) {t : Rich}
    (ht : toClvm m t = .atom []) (h1 : j ≠ 1) :
    Clvm.evalC ops (spineLen (mkArgs vs t) + 3)
        (toClvm m (.cons (.int j) (argRefs 5 (mkArgs vs t)))) (toClvm m (.cons .nil (mkArgs vs t)))
      = Clvm.applyC ops (vs.length + 2) (bytesOfInt m j) (toClvm m (mkArgs vs t)) := by
  rw [spineLen_mkArgs vs ht]
  simp only [toClvm_cons, toClvm_nil]
  rw [toClvm_int]
  simp only [Clvm.evalC]
  rw [if_neg (smallNumber_ne_one h1)]
  have hb : Path.bitsOf 5 = List.replicate 1 true ++ [false] := by decide
  have := evalArgsC_refs m ops ht vs 1 5 (.pair (.atom []) (toClvm m (mkArgs vs t))) (vs.length + 2)
    (by decide) hb (by simp [Path.walk]) (by omega)
  have e5 : ((5 : Nat) : Int) = 5 := rfl
  rw [e5] at this
  rw [this]

/-- for operators other than `a`, clvmr's `apply_op` does not depend on the fuel (≥ 1). -/
theorem applyC_nonapply (ops : OpSem) (n n' : Nat) (op : Bytes) (v : Val)
    (h : Ops.smallNumber op ≠ some 2) : Clvm.applyC ops (n + 1) op v = Clvm.applyC ops (n' + 1) op v := by
  simp [Clvm.applyC, h]

-- ---------------------------------------------------------------------------------------
-- the four core operators as clvmr defines them
-- ---------------------------------------------------------------------------------------

theorem chiaApply_i (args : Val) : Ops.chiaApply [3] args =
    match Ops.getArgs 3 args with
    | some [c, a, b] => .ok (if Val.nilp c then b else a)
    | _ => failR "i args" := by
  have h1 : Ops.unsupportedOp [3] = false := by decide
  have h2 : Ops.smallNumber [3] = some 3 := by decide
  unfold Ops.chiaApply
  simp only [h1, h2]
  rfl

theorem chiaApply_c (args : Val) : Ops.chiaApply [4] args =
    match Ops.getArgs 2 args with
    | some [a, b] => .ok (.pair a b)
    | _ => failR "c args" := by
  have h1 : Ops.unsupportedOp [4] = false := by decide
  have h2 : Ops.smallNumber [4] = some 4 := by decide
  unfold Ops.chiaApply
  simp only [h1, h2]
  rfl

theorem chiaApply_f (args : Val) : Ops.chiaApply [5] args =
    match Ops.getArgs 1 args with
    | some [.pair a _] => .ok a
    | _ => failR "f args" := by
  have h1 : Ops.unsupportedOp [5] = false := by decide
  have h2 : Ops.smallNumber [5] = some 5 := by decide
  unfold Ops.chiaApply
  simp only [h1, h2]
  rfl

theorem chiaApply_r (args : Val) : Ops.chiaApply [6] args =
    match Ops.getArgs 1 args with
    | some [.pair _ d] => .ok d
    | _ => failR "r args" := by
  have h1 : Ops.unsupportedOp [6] = false := by decide
  have h2 : Ops.smallNumber [6] = some 6 := by decide
  unfold Ops.chiaApply
  simp only [h1, h2]
  rfl

theorem coreOps_chia : CoreOps Ops.chiaOps := fun _ => ⟨rfl, rfl, rfl, rfl⟩

-- ---------------------------------------------------------------------------------------
-- executions of the machine
-- ---------------------------------------------------------------------------------------

section Exec
variable (hr : Rich → Rich → Except RunErr Rich) (m : Mode) (pm : PrimMap) (ops : OpSem)

/-- `n` successful steps none of which is flagged. -/
def exec : Nat → Config → Option Config
  | 0, c => some c
  | n+1, c =>
    if stepFlags m pm c = [] then
      match runStep hr m pm ops c with
      | .ok c' => exec n c'
      | .error _ => none
    else none

theorem exec_add (a b : Nat) (c : Config) :
    exec hr m pm ops (a + b) c = (exec hr m pm ops a c).bind (exec hr m pm ops b) := by
  induction a generalizing c with
  | zero => simp [exec]
  | succ a ih =>
    rw [show a + 1 + b = (a + b) + 1 by omega]
    simp only [exec]
    split
    · split
      · exact ih _
      · rfl
    · rfl

def Steps (c c' : Config) : Prop := ∃ n, exec hr m pm ops n c = some c'

theorem Steps.refl (c : Config) : Steps hr m pm ops c c := ⟨0, rfl⟩

theorem Steps.trans {c c' c'' : Config} (h1 : Steps hr m pm ops c c') (h2 : Steps hr m pm ops c' c'') :
    Steps hr m pm ops c c'' := by
  obtain ⟨a, ha⟩ := h1
  obtain ⟨b, hb⟩ := h2
  exact ⟨a + b, by rw [exec_add, ha]; exact hb⟩

theorem Steps.one {c c' : Config} (hf : stepFlags m pm c = []) (hs : runStep hr m pm ops c = .ok c') :
    Steps hr m pm ops c c' := ⟨1, by simp [exec, hf, hs]⟩

theorem Steps.step {c c' c'' : Config} (hf : stepFlags m pm c = []) (hs : runStep hr m pm ops c = .ok c')
    (h : Steps hr m pm ops c' c'') : Steps hr m pm ops c c'' :=
  (Steps.one hr m pm ops hf hs).trans hr m pm ops h

/-- the run reaches a configuration whose step is flagged. -/
def ToFlag (c : Config) : Prop := ∃ c', Steps hr m pm ops c c' ∧ stepFlags m pm c' ≠ []

/-- the run reaches (unflagged) a configuration whose step fails. -/
def ToErr (c : Config) : Prop :=
  ∃ c', Steps hr m pm ops c c' ∧ stepFlags m pm c' = [] ∧ ∃ e, runStep hr m pm ops c' = .error e

def SimRes (c k : Config) : Res → Prop
  | .ok w => ∃ v, toClvm m v = w ∧ Steps hr m pm ops c (combineDone v k)
  | .error (.fail _) => ToErr hr m pm ops c
  | .error .fuel => True

/-- the machine started at `c` does what the consensus result `r` says, returning to `k`. -/
def Sim (c k : Config) (r : Res) : Prop := ToFlag hr m pm ops c ∨ SimRes hr m pm ops c k r

theorem ToFlag.here {c : Config} (h : stepFlags m pm c ≠ []) : ToFlag hr m pm ops c :=
  ⟨c, Steps.refl hr m pm ops c, h⟩

theorem ToErr.here {c : Config} (hf : stepFlags m pm c = []) {e : RunErr}
    (h : runStep hr m pm ops c = .error e) : ToErr hr m pm ops c :=
  ⟨c, Steps.refl hr m pm ops c, hf, e, h⟩

theorem ToFlag.of_steps {c c' : Config} (h : Steps hr m pm ops c c') (h2 : ToFlag hr m pm ops c') :
    ToFlag hr m pm ops c := by
  obtain ⟨d, hd, hfl⟩ := h2
  exact ⟨d, h.trans hr m pm ops hd, hfl⟩

theorem ToErr.of_steps {c c' : Config} (h : Steps hr m pm ops c c') (h2 : ToErr hr m pm ops c') :
    ToErr hr m pm ops c := by
  obtain ⟨d, hd, hfl⟩ := h2
  exact ⟨d, h.trans hr m pm ops hd, hfl⟩

theorem SimRes.of_steps {c c' k : Config} {r : Res} (h : Steps hr m pm ops c c')
    (h2 : SimRes hr m pm ops c' k r) : SimRes hr m pm ops c k r := by
  cases r with
  | ok w =>
    obtain ⟨v, hv, hs⟩ := h2
    exact ⟨v, hv, h.trans hr m pm ops hs⟩
  | error e =>
    cases e with
    | fuel => trivial
    | fail t => exact ToErr.of_steps hr m pm ops h h2

theorem Sim.of_steps {c c' k : Config} {r : Res} (h : Steps hr m pm ops c c')
    (h2 : Sim hr m pm ops c' k r) : Sim hr m pm ops c k r := by
  cases h2 with
  | inl hf => exact .inl (ToFlag.of_steps hr m pm ops h hf)
  | inr hr' => exact .inr (SimRes.of_steps hr m pm ops h hr')

/-- a failing step makes any failing / out-of-fuel consensus result simulated. -/
theorem SimRes.error_here {c k : Config} (hf : stepFlags m pm c = []) {e : RunErr}
    (h : runStep hr m pm ops c = .error e) (ce : EvalErr) : SimRes hr m pm ops c k (.error ce) := by
  cases ce with
  | fuel => trivial
  | fail t => exact ToErr.here hr m pm ops hf h

-- paths ---------------------------------------------------------------------------------

/-- an integer path whose flattened value is `n ≥ 1`: two steps return the chosen value, or the
    first step fails. -/
theorem int_path_run (v : Int) (ctx : Rich) (k : Config) (hn : flattenSignedInt v ≠ 0) :
    match choosePath (flattenSignedInt v) ctx with
    | some r => Steps hr m pm ops (.step (.int v) ctx k) (combineDone r k)
    | none => ToErr hr m pm ops (.step (.int v) ctx k) := by
  have hfl : stepFlags m pm (.step (.int v) ctx k) = [] := by simp [stepFlags]
  cases hcp : choosePath (flattenSignedInt v) ctx with
  | none => exact ToErr.here hr m pm ops hfl (e := .path) (by simp [runStep, hn, hcp])
  | some r =>
    refine Steps.step hr m pm ops hfl (c' := .opResult r (.step (.int v) ctx k)) (by simp [runStep, hn, hcp]) ?_
    exact Steps.one hr m pm ops (by simp [stepFlags]) (by simp [runStep, combineDone])

/-- an integer path whose flattened value is 0: two steps return nil. -/
theorem int_zero_run (v : Int) (ctx : Rich) (k : Config) (hz : flattenSignedInt v = 0) :
    Steps hr m pm ops (.step (.int v) ctx k) (combineDone .nil k) := by
  refine Steps.step hr m pm ops (by simp [stepFlags]) (c' := .opResult .nil (.step (.int v) ctx k))
    (by simp [runStep, hz]) ?_
  exact Steps.one hr m pm ops (by simp [stepFlags]) (by simp [runStep, combineDone])

theorem sim_walk (c k : Config) (ctx : Rich) (n : Nat) (hn : 1 ≤ n)
    (h : match choosePath n ctx with
         | some r => Steps hr m pm ops c (combineDone r k)
         | none => ToErr hr m pm ops c) :
    SimRes hr m pm ops c k (Path.walk (Path.bitsOf n) (toClvm m ctx)) := by
  have hw := choosePath_walk m ctx n hn
  cases hcp : choosePath n ctx with
  | none =>
    rw [hcp] at hw h
    obtain ⟨t, ht⟩ := hw
    rw [ht]; exact h
  | some r =>
    rw [hcp] at hw h
    rw [hw]; exact ⟨r, rfl, h⟩

theorem sim_int_path (v : Int) (ctx : Rich) (k : Config) :
    Sim hr m pm ops (.step (.int v) ctx k) k (Path.lookup (bytesOfInt m v) (toClvm m ctx)) := by
  right
  by_cases hz : flattenSignedInt v = 0
  · rw [lookup_zero (toNatBE_bytesOfInt_zero hz)]
    exact ⟨.nil, rfl, int_zero_run hr m pm ops v ctx k hz⟩
  · rw [bytesOfInt_of_flatten_ne hz, lookup_eq_walk (p := flattenSignedInt v) rfl (by omega)]
    exact sim_walk hr m pm ops _ k ctx _ (by omega) (int_path_run hr m pm ops v ctx k hz)

/-- a path spelled as an atom / string is read unsigned, as clvmr reads it. -/
theorem sim_bytes_path (p : Rich) (b : Bytes) (hp : p = .atom b ∨ ∃ q, p = .qstr q b) (ctx : Rich) (k : Config) :
    Sim hr m pm ops (.step p ctx k) k (Path.lookup b (toClvm m ctx)) := by
  have hfl : stepFlags m pm (.step p ctx k) = [] := by
    rcases hp with rfl | ⟨q, rfl⟩ <;> rfl
  have hst : runStep hr m pm ops (.step p ctx k) = .ok (.step (.int (Int.ofNat (Bytes.toNatBE b))) ctx k) := by
    rcases hp with rfl | ⟨q, rfl⟩ <;> rfl
  have h1 := Steps.one hr m pm ops hfl hst
  right
  by_cases hz : Bytes.toNatBE b = 0
  · rw [lookup_zero hz]
    exact ⟨.nil, rfl, h1.trans hr m pm ops
      (int_zero_run hr m pm ops _ ctx k (by rw [flatten_ofNat]; exact hz))⟩
  · rw [lookup_eq_walk (p := Bytes.toNatBE b) rfl (by omega)]
    apply sim_walk hr m pm ops _ k ctx _ (by omega)
    have := int_path_run hr m pm ops (Int.ofNat (Bytes.toNatBE b)) ctx k (by rw [flatten_ofNat]; exact hz)
    rw [flatten_ofNat] at this
    cases hcp : choosePath (Bytes.toNatBE b) ctx with
    | none =>
      rw [hcp] at this
      exact ToErr.of_steps hr m pm ops h1 this
    | some r =>
      rw [hcp] at this
      exact h1.trans hr m pm ops this

theorem sim_nil_path (ctx : Rich) (k : Config) :
    Sim hr m pm ops (.step .nil ctx k) k (Path.lookup [] (toClvm m ctx)) := by
  right
  refine ⟨.nil, rfl, ?_⟩
  refine Steps.step hr m pm ops (c' := .opResult .nil (.step .nil ctx k)) (by simp [stepFlags]) (by simp [runStep]) ?_
  exact Steps.one hr m pm ops (by simp [stepFlags]) (by simp [runStep, combineDone])

-- heads ---------------------------------------------------------------------------------

/-- an unflagged head is an atom that `translate_head` turns into the integer `j` whose
    encoding is the head's own CLVM atom. -/
theorem translateInt_unflagged {i : Int} (h : intHeadFlags pm i = []) : translateInt pm i = .int i := by
  unfold intHeadFlags at h
  unfold translateInt
  cases hl : pm.lookup (Bytes.ofInt i) with
  | none => rfl
  | some x =>
    cases ho : isOpcode pm i with
    | true => simp
    | false => simp [hl, ho] at h

/-- a canonical atom is the atom of its own integer value, except the empty atom in legacy mode. -/
theorem bytesOfInt_canonical {v : Bytes} (hc : Bytes.canonical v = true) :
    bytesOfInt m (Bytes.toInt v) = v ∨ (m = false ∧ v = []) := by
  unfold Bytes.canonical Bytes.ofIntClvm at hc
  have hc' := of_decide_eq_true (by simpa using hc) 
  by_cases hz : Bytes.toInt v = 0
  · rw [if_pos hz] at hc'
    cases m with
    | true => left; rw [← hc']; rfl
    | false => right; exact ⟨rfl, hc'.symm⟩
  · rw [if_neg hz] at hc'
    left
    unfold bytesOfInt
    rw [if_neg (by simp [hz])]
    exact hc'

/-- the `legacyZero` head flag is the empty operator atom in legacy mode, nothing else. -/
theorem legacyZero_head {v : Bytes} (h : bytesHeadFlags m pm v = [.legacyZero]) : m = false ∧ v = [] := by
  unfold bytesHeadFlags at h
  split at h
  · simp at h
  · split at h
    · simp at h
    · rename_i hcan
      split at h
      · rename_i hi
        unfold intHeadFlags at h
        split at h <;> simp at h
      · split at h
        · rename_i hne
          rcases bytesOfInt_canonical m (by simpa using hcan) with h1 | h1
          · exact absurd h1 hne
          · exact h1
        · simp at h

theorem head_unflagged (a ctx : Rich) (h : headFlags m pm a = []) :
    ∃ j, translateHead hr pm a ctx = .ok (.int j) ∧ translateAtomHead pm a = .int j ∧
         toClvm m a = .atom (bytesOfInt m j) := by
  have bytesCase : ∀ v, bytesHeadFlags m pm v = [] →
      translateBytes pm v = .ok (.int (Bytes.toInt v)) ∧ translateInt pm (Bytes.toInt v) = .int (Bytes.toInt v) ∧
        bytesOfInt m (Bytes.toInt v) = v := by
    intro v hv
    unfold bytesHeadFlags at hv
    split at hv
    · simp at hv
    · rename_i h1
      split at hv
      · simp at hv
      · rename_i h2
        split at hv
        · rename_i h3; exact absurd hv h3
        · rename_i h3
          split at hv
          · simp at hv
          · rename_i h4
            simp only [Option.isSome_iff_ne_none, ne_eq, Decidable.not_not] at h1 h3 h4
            have hcan : Bytes.canonical v = true := by simpa using h2
            have hti := translateInt_unflagged pm h3
            exact ⟨by simp [translateBytes, h1, hcan, hti], hti, h4⟩
  cases a with
  | nil => simp [headFlags] at h
  | cons x y => simp [headFlags] at h
  | int i =>
    simp only [headFlags] at h
    have hti := translateInt_unflagged pm h
    exact ⟨i, by simp [translateHead, hti], by simp [translateAtomHead, hti], toClvm_int m i⟩
  | atom v =>
    obtain ⟨h1, h2, h3⟩ := bytesCase v h
    exact ⟨Bytes.toInt v, by simp [translateHead, h1], by simp [translateAtomHead, h2], by rw [h3]; rfl⟩
  | qstr q v =>
    obtain ⟨h1, h2, h3⟩ := bytesCase v h
    exact ⟨Bytes.toInt v, by simp [translateHead, h1], by simp [translateAtomHead, h2], by rw [h3]; rfl⟩

-- the operators the stepper implements itself ----------------------------------------------

theorem truthy_of_unflagged {c : Rich} (h : truthFlags m c = []) : truthy m c = !Val.nilp (toClvm m c) := by
  unfold truthFlags at h
  split at h
  · simp at h
  · rename_i hne
    cases h1 : truthy m c <;> cases h2 : Val.nilp (toClvm m c) <;> simp_all

theorem sim_op_i (hc : CoreOps ops) (vs : List Rich) (t ctx : Rich) (k : Config) (ht : toClvm m t = .atom []) :
    Sim hr m pm ops (.op (.int 3) ctx (mkArgs vs t) none k) k (ops.apply [3] (toClvm m (mkArgs vs t))) := by
  rw [(hc _).1, chiaApply_i, getArgs_mkArgs 3 vs ht]
  have hpl := properList_mkArgs vs ht
  rcases vs with _ | ⟨c, _ | ⟨a, _ | ⟨b, _ | ⟨d, rest⟩⟩⟩⟩
  · exact .inr (ToErr.here hr m pm ops (by simp [stepFlags, atomValue, hpl]) (e := .argc)
      (by simp [runStep, opNone, atomValue, hpl]))
  · exact .inr (ToErr.here hr m pm ops (by simp [stepFlags, atomValue, hpl]) (e := .argc)
      (by simp [runStep, opNone, atomValue, hpl]))
  · exact .inr (ToErr.here hr m pm ops (by simp [stepFlags, atomValue, hpl]) (e := .argc)
      (by simp [runStep, opNone, atomValue, hpl]))
  · by_cases hf : truthFlags m c = []
    · right
      have htr := truthy_of_unflagged m hf
      simp only [List.length_cons, List.length_nil, if_true, List.map]
      refine ⟨if truthy m c then a else b, ?_, ?_⟩
      · rw [htr]; cases Val.nilp (toClvm m c) <;> simp
      · exact Steps.one hr m pm ops (by simp [stepFlags, atomValue, hpl, hf])
          (by simp [runStep, opNone, atomValue, hpl, combineDone])
    · exact .inl (ToFlag.here hr m pm ops (by simp [stepFlags, atomValue, hpl, hf]))
  · exact .inr (ToErr.here hr m pm ops (by simp [stepFlags, atomValue, hpl]) (e := .argc)
      (by simp [runStep, opNone, atomValue, hpl]))

theorem flags_op_none (j : Int) (h3 : j ≠ 3) (ctx tail : Rich) (k : Config) :
    stepFlags m pm (.op (.int j) ctx tail none k) = [] := by
  simp [stepFlags, atomValue, h3]

theorem sim_op_c (hc : CoreOps ops) (vs : List Rich) (t ctx : Rich) (k : Config) (ht : toClvm m t = .atom []) :
    Sim hr m pm ops (.op (.int 4) ctx (mkArgs vs t) none k) k (ops.apply [4] (toClvm m (mkArgs vs t))) := by
  rw [(hc _).2.1, chiaApply_c, getArgs_mkArgs 2 vs ht]
  have hpl := properList_mkArgs vs ht
  have hfl := flags_op_none m pm 4 (by decide) ctx (mkArgs vs t) k
  rcases vs with _ | ⟨a, _ | ⟨b, _ | ⟨d, rest⟩⟩⟩
  · exact .inr (ToErr.here hr m pm ops hfl (e := .argc) (by simp [runStep, opNone, atomValue, hpl]))
  · exact .inr (ToErr.here hr m pm ops hfl (e := .argc) (by simp [runStep, opNone, atomValue, hpl]))
  · right
    simp only [List.length_cons, List.length_nil, if_true, List.map]
    refine ⟨.cons a b, rfl, ?_⟩
    refine Steps.step hr m pm ops hfl (c' := .opResult (.cons a b) (.op (.int 4) ctx (mkArgs [a, b] t) none k))
      (by simp [runStep, opNone, atomValue, hpl]) ?_
    exact Steps.one hr m pm ops (by simp [stepFlags]) (by simp [runStep, combineDone])
  · exact .inr (ToErr.here hr m pm ops hfl (e := .argc) (by simp [runStep, opNone, atomValue, hpl]))

theorem sim_op_f (hc : CoreOps ops) (vs : List Rich) (t ctx : Rich) (k : Config) (ht : toClvm m t = .atom []) :
    Sim hr m pm ops (.op (.int 5) ctx (mkArgs vs t) none k) k (ops.apply [5] (toClvm m (mkArgs vs t))) := by
  rw [(hc _).2.2.1, chiaApply_f, getArgs_mkArgs 1 vs ht]
  have hpl := properList_mkArgs vs ht
  have hfl := flags_op_none m pm 5 (by decide) ctx (mkArgs vs t) k
  rcases vs with _ | ⟨a, _ | ⟨d, rest⟩⟩
  · exact .inr (ToErr.here hr m pm ops hfl (e := .argc) (by simp [runStep, opNone, atomValue, hpl]))
  · simp only [List.length_cons, List.length_nil, if_true, List.map]
    cases a with
    | cons x y =>
      right
      refine ⟨x, rfl, ?_⟩
      refine Steps.step hr m pm ops hfl (c' := .opResult x (.op (.int 5) ctx (mkArgs [.cons x y] t) none k))
        (by simp [runStep, opNone, atomValue, hpl]) ?_
      exact Steps.one hr m pm ops (by simp [stepFlags]) (by simp [runStep, combineDone])
    | nil => exact .inr (ToErr.here hr m pm ops hfl (e := .notcons) (by simp [runStep, opNone, atomValue, hpl]))
    | int i =>
      rw [toClvm_int]
      exact .inr (ToErr.here hr m pm ops hfl (e := .notcons) (by simp [runStep, opNone, atomValue, hpl]))
    | qstr q s => exact .inr (ToErr.here hr m pm ops hfl (e := .notcons) (by simp [runStep, opNone, atomValue, hpl]))
    | atom s => exact .inr (ToErr.here hr m pm ops hfl (e := .notcons) (by simp [runStep, opNone, atomValue, hpl]))
  · exact .inr (ToErr.here hr m pm ops hfl (e := .argc) (by simp [runStep, opNone, atomValue, hpl]))

theorem sim_op_r (hc : CoreOps ops) (vs : List Rich) (t ctx : Rich) (k : Config) (ht : toClvm m t = .atom []) :
    Sim hr m pm ops (.op (.int 6) ctx (mkArgs vs t) none k) k (ops.apply [6] (toClvm m (mkArgs vs t))) := by
  rw [(hc _).2.2.2, chiaApply_r, getArgs_mkArgs 1 vs ht]
  have hpl := properList_mkArgs vs ht
  have hfl := flags_op_none m pm 6 (by decide) ctx (mkArgs vs t) k
  rcases vs with _ | ⟨a, _ | ⟨d, rest⟩⟩
  · exact .inr (ToErr.here hr m pm ops hfl (e := .argc) (by simp [runStep, opNone, atomValue, hpl]))
  · simp only [List.length_cons, List.length_nil, if_true, List.map]
    cases a with
    | cons x y =>
      right
      refine ⟨y, rfl, ?_⟩
      refine Steps.step hr m pm ops hfl (c' := .opResult y (.op (.int 6) ctx (mkArgs [.cons x y] t) none k))
        (by simp [runStep, opNone, atomValue, hpl]) ?_
      exact Steps.one hr m pm ops (by simp [stepFlags]) (by simp [runStep, combineDone])
    | nil => exact .inr (ToErr.here hr m pm ops hfl (e := .notcons) (by simp [runStep, opNone, atomValue, hpl]))
    | int i =>
      rw [toClvm_int]
      exact .inr (ToErr.here hr m pm ops hfl (e := .notcons) (by simp [runStep, opNone, atomValue, hpl]))
    | qstr q s => exact .inr (ToErr.here hr m pm ops hfl (e := .notcons) (by simp [runStep, opNone, atomValue, hpl]))
    | atom s => exact .inr (ToErr.here hr m pm ops hfl (e := .notcons) (by simp [runStep, opNone, atomValue, hpl]))
  · exact .inr (ToErr.here hr m pm ops hfl (e := .argc) (by simp [runStep, opNone, atomValue, hpl]))

-- delegated operators ---------------------------------------------------------------------

theorem applyOp_eq (j : Int) (vs : List Rich) {t : Rich} (ht : toClvm m t = .atom [])
    (h1 : j ≠ 1) (h2 : j ≠ 2) (n : Nat) :
    applyOp m ops (.int j) (mkArgs vs t) =
      match Clvm.applyC ops (n + 1) (bytesOfInt m j) (toClvm m (mkArgs vs t)) with
      | .ok v => .ok (fromClvm m v)
      | .error (.fail t) => .error (.op t)
      | .error .fuel => .error (.op "fuel") := by
  unfold applyOp
  rw [applyOp_eval m ops j vs ht h1,
      applyC_nonapply ops (vs.length + 1) n _ _ (smallNumber_ne_two h2)]
  rfl

theorem sim_op_deleg (j : Int) (h1 : j ≠ 1) (h2 : j ≠ 2) (h3 : j ≠ 3) (h4 : j ≠ 4) (h5 : j ≠ 5) (h6 : j ≠ 6)
    (vs : List Rich) (t ctx : Rich) (k : Config) (ht : toClvm m t = .atom []) (n : Nat) :
    Sim hr m pm ops (.op (.int j) ctx (mkArgs vs t) none k) k
      (Clvm.applyC ops (n + 1) (bytesOfInt m j) (toClvm m (mkArgs vs t))) := by
  have hpl := properList_mkArgs vs ht
  have hfl := flags_op_none m pm j h3 ctx (mkArgs vs t) k
  have hap := applyOp_eq m ops j vs ht h1 h2 n
  right
  cases hres : Clvm.applyC ops (n + 1) (bytesOfInt m j) (toClvm m (mkArgs vs t)) with
  | ok w =>
    rw [hres] at hap
    refine ⟨fromClvm m w, RichLemmas.to_from m w, ?_⟩
    refine Steps.step hr m pm ops hfl
      (c' := .opResult (fromClvm m w) (.op (.int j) ctx (mkArgs vs t) none k))
      (by simp [runStep, opNone, atomValue, hpl, h2, h3, h4, h5, h6, hap]) ?_
    exact Steps.one hr m pm ops (by simp [stepFlags]) (by simp [runStep, combineDone])
  | error e =>
    rw [hres] at hap
    cases e with
    | fuel => trivial
    | fail tg =>
      exact ToErr.here hr m pm ops hfl (e := .op tg)
        (by simp [runStep, opNone, atomValue, hpl, h2, h3, h4, h5, h6, hap])

-- the simulation ------------------------------------------------------------------------

/-- what the machine does on an operand list: `l` still to evaluate (on top of `pre`), nothing
    evaluated yet (`t` is the terminator). -/
def SimArgs (h ctx t : Rich) (l pre : List Rich) (k : Config) (r : Res) : Prop :=
  ToFlag hr m pm ops (.op h ctx t (some (l.reverse ++ pre)) k) ∨
  match r with
  | .ok ws => ∃ vs, toClvm m (mkArgs vs t) = ws ∧
      Steps hr m pm ops (.op h ctx t (some (l.reverse ++ pre)) k) (.op h ctx (mkArgs vs t) (some pre) k)
  | .error (.fail _) => ToErr hr m pm ops (.op h ctx t (some (l.reverse ++ pre)) k)
  | .error .fuel => True

theorem flags_op_some (h ctx tail : Rich) (s : List Rich) (k : Config) :
    stepFlags m pm (.op h ctx tail (some s) k) = [] := rfl

/-- forward simulation: whatever the consensus evaluator returns with fuel `f`, the machine
    reproduces it (or runs into a flagged step), under every continuation `k`. -/
theorem sim (hc : CoreOps ops) : ∀ f : Nat,
    (∀ p e k, Sim hr m pm ops (.step p e k) k (Clvm.evalC ops f (toClvm m p) (toClvm m e))) ∧
    (∀ l t pre h ctx k, toClvm m t = .atom [] →
        SimArgs hr m pm ops h ctx t l pre k (Clvm.evalArgsC ops f (toClvm m (mkArgs l t)) (toClvm m ctx))) ∧
    (∀ j vs t ctx k, j ≠ 1 → toClvm m t = .atom [] →
        Sim hr m pm ops (.op (.int j) ctx (mkArgs vs t) none k) k
          (Clvm.applyC ops f (bytesOfInt m j) (toClvm m (mkArgs vs t)))) := by
  intro f
  induction f with
  | zero =>
    refine ⟨fun p e k => .inr ?_, fun l t pre h ctx k ht => .inr ?_, fun j vs t ctx k hj ht => .inr ?_⟩
    · simp [Clvm.evalC, SimRes]
    · simp [Clvm.evalArgsC]
    · simp [Clvm.applyC, SimRes]
  | succ f ih =>
    obtain ⟨ihE, ihA, ihP⟩ := ih
    refine ⟨?_, ?_, ?_⟩
    · -- evalC
      intro p e k
      cases p with
      | nil => simpa [toClvm, Clvm.evalC] using sim_nil_path hr m pm ops e k
      | int v => rw [toClvm_int]; simpa [Clvm.evalC] using sim_int_path hr m pm ops v e k
      | atom b => simpa [toClvm, Clvm.evalC] using sim_bytes_path hr m pm ops (.atom b) b (.inl rfl) e k
      | qstr q b => simpa [toClvm, Clvm.evalC] using sim_bytes_path hr m pm ops (.qstr q b) b (.inr ⟨q, rfl⟩) e k
      | cons a b =>
        by_cases hh : headFlags m pm a = []
        · obtain ⟨j, hth, hta, hca⟩ := head_unflagged hr m pm a e hh
          rw [toClvm_cons, hca]
          simp only [Clvm.evalC]
          by_cases hj : j = 1
          · subst hj
            rw [if_pos (smallNumber_one m)]
            right
            refine ⟨b, rfl, Steps.one hr m pm ops ?_ ?_⟩
            · simp [stepFlags, hh, hta, atomValue]
            · simp [runStep, stepCons, hth, atomValue, combineDone]
          · rw [if_neg (smallNumber_ne_one hj)]
            by_cases htf : truthFlags m (terminator b) = []
            · have hfl : stepFlags m pm (.step (.cons a b) e k) = [] := by
                simp [stepFlags, hh, hta, atomValue, hj, htf]
              have htr := truthy_of_unflagged m htf
              by_cases htt : truthy m (terminator b) = true
              · -- the stepper refuses the terminator; so does clvmr
                have hnil : Val.nilp (Val.terminator (toClvm m b)) = false := by
                  rw [terminator_toClvm]; rw [htt] at htr; simpa using htr
                have hst : runStep hr m pm ops (.step (.cons a b) e k) = .error .arglist := by
                  simp [runStep, stepCons, hth, atomValue, hj, evalArgs, evalArgsGo_eq, htt]
                right
                cases hres : Clvm.evalArgsC ops f (toClvm m b) (toClvm m e) with
                | ok vals => exact absurd hres (evalArgsC_bad_terminator ops _ _ f hnil vals)
                | error ce => exact SimRes.error_here hr m pm ops hfl hst ce
              · -- accepted terminator: it converts to the empty atom
                have htf' : truthy m (terminator b) = false := by simpa using htt
                have ht : toClvm m (terminator b) = .atom [] := by
                  apply toClvm_of_nilp (terminator_not_cons b)
                  rw [htf'] at htr; simpa using htr
                have hst : runStep hr m pm ops (.step (.cons a b) e k) =
                    .ok (.op (.int j) e (terminator b) (some ((spine b).reverse ++ [])) k) := by
                  simp [runStep, stepCons, hth, atomValue, hj, evalArgs, evalArgsGo_eq, htf']
                have h1 := Steps.one hr m pm ops hfl hst
                have hA := ihA (spine b) (terminator b) [] (.int j) e k ht
                rw [mkArgs_spine] at hA
                cases hres : Clvm.evalArgsC ops f (toClvm m b) (toClvm m e) with
                | error ce =>
                  rw [hres] at hA
                  cases hA with
                  | inl hf => exact .inl (ToFlag.of_steps hr m pm ops h1 hf)
                  | inr hr' =>
                    cases ce with
                    | fuel => exact .inr trivial
                    | fail tg => exact .inr (ToErr.of_steps hr m pm ops h1 hr')
                | ok ws =>
                  rw [hres] at hA
                  cases hA with
                  | inl hf => exact .inl (ToFlag.of_steps hr m pm ops h1 hf)
                  | inr hr' =>
                    obtain ⟨vs, hvs, hsteps⟩ := hr'
                    have h2 : Steps hr m pm ops (.op (.int j) e (mkArgs vs (terminator b)) (some []) k)
                        (.op (.int j) e (mkArgs vs (terminator b)) none k) :=
                      Steps.one hr m pm ops rfl rfl
                    have hP := ihP j vs (terminator b) e k hj ht
                    rw [hvs] at hP
                    exact Sim.of_steps hr m pm ops ((h1.trans hr m pm ops hsteps).trans hr m pm ops h2) hP
            · exact .inl (ToFlag.here hr m pm ops (by simp [stepFlags, hh, hta, atomValue, hj, htf]))
        · exact .inl (ToFlag.here hr m pm ops (by simp [stepFlags, hh]))
    · -- evalArgsC
      intro l t pre h ctx k ht
      cases l with
      | nil =>
        right
        simp only [mkArgs, List.foldr, ht, Clvm.evalArgsC, List.isEmpty_nil, if_true]
        exact ⟨[], by simp [ht, Val.nil], Steps.refl hr m pm ops _⟩
      | cons a l =>
        have hA := ihA l t (a :: pre) h ctx k ht
        have hstack : (a :: l).reverse ++ pre = l.reverse ++ (a :: pre) := by simp
        unfold SimArgs
        rw [hstack]
        simp only [mkArgs, List.foldr, toClvm_cons, Clvm.evalArgsC]
        unfold SimArgs at hA
        simp only [mkArgs] at hA
        cases hres : Clvm.evalArgsC ops f (toClvm m (List.foldr Rich.cons t l)) (toClvm m ctx) with
        | error ce =>
          rw [hres] at hA
          cases hA with
          | inl hf => exact .inl hf
          | inr hr' =>
            cases ce with
            | fuel => exact .inr trivial
            | fail tg => exact .inr hr'
        | ok rs =>
          rw [hres] at hA
          cases hA with
          | inl hf => exact .inl hf
          | inr hr' =>
            obtain ⟨vs, hvs, hsteps⟩ := hr'
            have h1 : Steps hr m pm ops (.op h ctx (mkArgs vs t) (some (a :: pre)) k)
                (.step a ctx (.op h ctx (mkArgs vs t) (some pre) k)) := Steps.one hr m pm ops rfl rfl
            have hE := ihE a ctx (.op h ctx (mkArgs vs t) (some pre) k)
            have h01 := hsteps.trans hr m pm ops h1
            cases hres2 : Clvm.evalC ops f (toClvm m a) (toClvm m ctx) with
            | error ce =>
              rw [hres2] at hE
              cases hE with
              | inl hf => exact .inl (ToFlag.of_steps hr m pm ops h01 hf)
              | inr hr2 =>
                cases ce with
                | fuel => exact .inr trivial
                | fail tg => exact .inr (ToErr.of_steps hr m pm ops h01 hr2)
            | ok w =>
              rw [hres2] at hE
              cases hE with
              | inl hf => exact .inl (ToFlag.of_steps hr m pm ops h01 hf)
              | inr hr2 =>
                obtain ⟨v, hv, hs2⟩ := hr2
                right
                refine ⟨v :: vs, ?_, ?_⟩
                · have hvs' : toClvm m (List.foldr Rich.cons t vs) = rs := hvs
                  show toClvm m (Rich.cons v (List.foldr Rich.cons t vs)) = _
                  rw [toClvm_cons, hv, hvs']
                · exact h01.trans hr m pm ops hs2
    · -- applyC
      intro j vs t ctx k hj ht
      by_cases h2 : j = 2
      · subst h2
        have hpl := properList_mkArgs vs ht
        have hfl := flags_op_none m pm 2 (by decide) ctx (mkArgs vs t) k
        simp only [Clvm.applyC]
        rw [if_pos (smallNumber_two m)]
        simp only [Clvm.twoArgs, getArgs_mkArgs 2 vs ht]
        rcases vs with _ | ⟨p', _ | ⟨e', _ | ⟨d, rest⟩⟩⟩
        · exact .inr (ToErr.here hr m pm ops hfl (e := .argc) (by simp [runStep, opNone, atomValue, hpl]))
        · exact .inr (ToErr.here hr m pm ops hfl (e := .argc) (by simp [runStep, opNone, atomValue, hpl]))
        · simp only [List.length_cons, List.length_nil, if_true, List.map]
          exact Sim.of_steps hr m pm ops
            (Steps.one hr m pm ops hfl (by simp [runStep, opNone, atomValue, hpl])) (ihE p' e' k)
        · exact .inr (ToErr.here hr m pm ops hfl (e := .argc) (by simp [runStep, opNone, atomValue, hpl]))
      · have hn2 := smallNumber_ne_two (m := m) h2
        by_cases h3 : j = 3
        · subst h3
          have : bytesOfInt m 3 = [3] := by cases m <;> rfl
          rw [this]
          have e : Clvm.applyC ops (f + 1) [3] (toClvm m (mkArgs vs t)) = ops.apply [3] (toClvm m (mkArgs vs t)) := by
            have a1 : Ops.smallNumber [3] = some 3 := by decide
            simp [Clvm.applyC, a1]
          rw [e]
          exact sim_op_i hr m pm ops hc vs t ctx k ht
        · by_cases h4 : j = 4
          · subst h4
            have : bytesOfInt m 4 = [4] := by cases m <;> rfl
            rw [this]
            have e : Clvm.applyC ops (f + 1) [4] (toClvm m (mkArgs vs t)) = ops.apply [4] (toClvm m (mkArgs vs t)) := by
              have a1 : Ops.smallNumber [4] = some 4 := by decide
              simp [Clvm.applyC, a1]
            rw [e]
            exact sim_op_c hr m pm ops hc vs t ctx k ht
          · by_cases h5 : j = 5
            · subst h5
              have : bytesOfInt m 5 = [5] := by cases m <;> rfl
              rw [this]
              have e : Clvm.applyC ops (f + 1) [5] (toClvm m (mkArgs vs t)) = ops.apply [5] (toClvm m (mkArgs vs t)) := by
                have a1 : Ops.smallNumber [5] = some 5 := by decide
                simp [Clvm.applyC, a1]
              rw [e]
              exact sim_op_f hr m pm ops hc vs t ctx k ht
            · by_cases h6 : j = 6
              · subst h6
                have : bytesOfInt m 6 = [6] := by cases m <;> rfl
                rw [this]
                have e : Clvm.applyC ops (f + 1) [6] (toClvm m (mkArgs vs t)) = ops.apply [6] (toClvm m (mkArgs vs t)) := by
                  have a1 : Ops.smallNumber [6] = some 6 := by decide
                  simp [Clvm.applyC, a1]
                rw [e]
                exact sim_op_r hr m pm ops hc vs t ctx k ht
              · exact sim_op_deleg hr m pm ops j hj h2 h3 h4 h5 h6 vs t ctx k ht f

-- ---------------------------------------------------------------------------------------
-- determinism: halting runs
-- ---------------------------------------------------------------------------------------

/-- a configuration at which the run ends: finished, or its (unflagged) step fails. -/
def Term (c : Config) : Prop :=
  (∃ v, c = .done v) ∨ (stepFlags m pm c = [] ∧ ∃ e, runStep hr m pm ops c = .error e)

/-- the unflagged run from `c` ends within `n` steps. -/
def HaltsIn (n : Nat) (c : Config) : Prop :=
  ∃ j, j ≤ n ∧ ∃ c', exec hr m pm ops j c = some c' ∧ Term hr m pm ops c'

theorem exec_done (n : Nat) (v : Rich) : exec hr m pm ops n (.done v) = some (.done v) := by
  induction n with
  | zero => rfl
  | succ n ih => simpa [exec, stepFlags, runStep] using ih

theorem exec_succ_of_error {c : Config} {e : RunErr} (h : runStep hr m pm ops c = .error e) (n : Nat) :
    exec hr m pm ops (n + 1) c = none := by
  simp only [exec]
  split
  · rw [h]
  · rfl

theorem exec_succ_of_flag {c : Config} (h : stepFlags m pm c ≠ []) (n : Nat) :
    exec hr m pm ops (n + 1) c = none := by
  simp [exec, h]

/-- where two runs from the same configuration end is unique. -/
theorem exec_term_of_le {c c1 c2 : Config} {i j : Nat} (hij : i ≤ j)
    (h1 : exec hr m pm ops i c = some c1) (t1 : Term hr m pm ops c1)
    (h2 : exec hr m pm ops j c = some c2) : c2 = c1 := by
  obtain ⟨d, rfl⟩ : ∃ d, j = i + d := ⟨j - i, by omega⟩
  rw [exec_add, h1] at h2
  simp only [Option.bind_some] at h2
  rcases t1 with ⟨v, rfl⟩ | ⟨_, e, he⟩
  · rw [exec_done] at h2; exact (Option.some.inj h2).symm
  · cases d with
    | zero => exact (Option.some.inj h2).symm
    | succ d => rw [exec_succ_of_error hr m pm ops he] at h2; cases h2

theorem HaltsIn.after {n i : Nat} {c c1 : Config} (hi : exec hr m pm ops i c = some c1)
    (h : HaltsIn hr m pm ops n c) : HaltsIn hr m pm ops (n - i) c1 := by
  obtain ⟨j, hj, c', hc', ht⟩ := h
  by_cases hle : i ≤ j
  · obtain ⟨d, rfl⟩ : ∃ d, j = i + d := ⟨j - i, by omega⟩
    rw [exec_add, hi] at hc'
    exact ⟨d, by omega, c', hc', ht⟩
  · have := exec_term_of_le hr m pm ops (by omega : j ≤ i) hc' ht hi
    subst this
    exact ⟨0, by omega, c1, rfl, ht⟩

theorem HaltsIn.not_flag {n : Nat} {c : Config} (h : HaltsIn hr m pm ops n c) : ¬ ToFlag hr m pm ops c := by
  rintro ⟨c1, ⟨i, hi⟩, hfl⟩
  obtain ⟨j, _, c', hc', ht⟩ := h.after hr m pm ops hi
  cases j with
  | zero =>
    have : c' = c1 := (Option.some.inj hc').symm
    subst this
    rcases ht with ⟨v, rfl⟩ | ⟨h0, _⟩
    · exact hfl rfl
    · exact hfl h0
  | succ j => rw [exec_succ_of_flag hr m pm ops hfl] at hc'; cases hc'

theorem HaltsIn.unflagged {n : Nat} {c : Config} (h : HaltsIn hr m pm ops n c) : stepFlags m pm c = [] := by
  by_cases hf : stepFlags m pm c = []
  · exact hf
  · exact absurd (ToFlag.here hr m pm ops hf) (h.not_flag hr m pm ops)

/-- a halting run takes the (successful) step in front of it. -/
theorem HaltsIn.step {n : Nat} {c c1 : Config} (h : HaltsIn hr m pm ops n c)
    (hnd : ∀ v, c ≠ .done v) (hs : runStep hr m pm ops c = .ok c1) :
    1 ≤ n ∧ HaltsIn hr m pm ops (n - 1) c1 := by
  have hfl := h.unflagged hr m pm ops
  have h1 : exec hr m pm ops 1 c = some c1 := by simp [exec, hfl, hs]
  refine ⟨?_, h.after hr m pm ops h1⟩
  obtain ⟨j, hj, c', hc', ht⟩ := h
  cases j with
  | zero =>
    have : c' = c := (Option.some.inj hc').symm
    subst this
    rcases ht with ⟨v, rfl⟩ | ⟨_, e, he⟩
    · exact absurd rfl (hnd v)
    · rw [hs] at he; cases he
  | succ j => omega

theorem HaltsIn.mono {n n' : Nat} {c : Config} (h : HaltsIn hr m pm ops n c) (hn : n ≤ n') :
    HaltsIn hr m pm ops n' c := by
  obtain ⟨j, hj, rest⟩ := h
  exact ⟨j, by omega, rest⟩

theorem HaltsIn.steps {n : Nat} {c c1 : Config} (h : HaltsIn hr m pm ops n c) (hs : Steps hr m pm ops c c1) :
    HaltsIn hr m pm ops n c1 := by
  obtain ⟨i, hi⟩ := hs
  exact (h.after hr m pm ops hi).mono hr m pm ops (by omega)

end Exec

end StepLemmas
