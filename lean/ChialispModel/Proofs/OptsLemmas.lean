/-
  Proofs/OptsLemmas.lean — lemmas behind Props/C11.lean:
  * `detect_modern`'s result is the no-sigil dialect or an entry of the dialect table
    (so quantifying over the finite table covers every program);
  * on values without an `Integer 0` the rich→CLVM conversion does not depend on the ambient
    integer-conversion mode.
-/
import ChialispModel.Sys.Opts
import ChialispModel.Text.Rich

namespace OptsLemmas
open Opts

/-- the dialects `detect_modern` can return for a table. -/
def Reachable (tbl : List (Bytes × Dialect)) (d : Dialect) : Prop :=
  d = Dialect.classic ∨ d ∈ tbl.map (fun p => p.2)

theorem lookup_mem (tbl : List (Bytes × Dialect)) (name : Bytes) (d : Dialect)
    (h : lookupDialect tbl name = some d) : d ∈ tbl.map (fun p => p.2) := by
  unfold lookupDialect at h
  cases hf : tbl.find? (fun p => p.1 == name) with
  | none => rw [hf] at h; cases h
  | some p =>
    rw [hf] at h
    simp only [Option.map_some, Option.some.injEq] at h
    subst h
    exact List.mem_map_of_mem (List.mem_of_find?_eq_some hf)

theorem includeOf_mem (tbl : List (Bytes × Dialect)) (e : Val) (d : Dialect)
    (h : includeOf tbl e = some d) : d ∈ tbl.map (fun p => p.2) := by
  unfold includeOf at h
  split at h
  · split at h
    · exact lookup_mem tbl _ d h
    · cases h
  · cases h

theorem detectStep_reachable (tbl : List (Bytes × Dialect)) (r later : Dialect) (e : Val)
    (hr : Reachable tbl r) (hl : Reachable tbl later) : Reachable tbl (detectStep tbl r e later) := by
  unfold detectStep
  split
  · exact hr
  · split
    · rename_i d hd
      exact Or.inr (includeOf_mem tbl e d hd)
    · exact hl

theorem detectAux_reachable (tbl : List (Bytes × Dialect)) (v : Val) :
    ∀ b, Reachable tbl (detectAux tbl b v) := by
  induction v with
  | atom x => intro b; cases b <;> exact Or.inl rfl
  | pair e rest ihe ihr =>
    intro b
    cases b with
    | false =>
      simp only [detectAux]
      exact detectStep_reachable tbl _ _ e (ihe true) (ihr false)
    | true =>
      simp only [detectAux]
      split
      · exact detectStep_reachable tbl _ _ e (ihe true) (ihr false)
      · exact Or.inl rfl

theorem detect_reachable (tbl : List (Bytes × Dialect)) (v : Val) : Reachable tbl (detect tbl v) :=
  detectAux_reachable tbl v true

/-- without an `Integer 0` inside, `convert_to_clvm_rs` gives the same bytes in both modes. -/
theorem toClvm_mode_irrelevant (m : Mode) (r : Rich) (h : Rich.Readable r = true) :
    Rich.toClvm m r = Rich.toClvm true r := by
  induction r with
  | nil => rfl
  | atom x => rfl
  | qstr q x => rfl
  | int i =>
    simp only [Rich.Readable, bne_iff_ne, ne_eq] at h
    simp [Rich.toClvm, h]
  | cons a d iha ihd =>
    simp only [Rich.Readable, Bool.and_eq_true] at h
    simp only [Rich.toClvm, iha h.1, ihd h.2]

end OptsLemmas
