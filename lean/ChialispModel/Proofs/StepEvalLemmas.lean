/-
  Proofs/EvalLemmas.lean — fuel monotonicity of the consensus evaluator `Clvm.evalC`:
  a result other than "out of fuel" is the same with any larger amount of fuel.
-/
import ChialispModel.Clvm.Eval

namespace EvalLemmas
open Clvm

theorem mono_succ (ops : OpSem) : ∀ f : Nat,
    (∀ p e r, evalC ops f p e = r → r ≠ .error .fuel → evalC ops (f + 1) p e = r) ∧
    (∀ op v r, applyC ops f op v = r → r ≠ .error .fuel → applyC ops (f + 1) op v = r) ∧
    (∀ a e r, evalArgsC ops f a e = r → r ≠ .error .fuel → evalArgsC ops (f + 1) a e = r) := by
  intro f
  induction f with
  | zero =>
    refine ⟨fun p e r h hr => ?_, fun op v r h hr => ?_, fun a e r h hr => ?_⟩
    · simp [evalC] at h; exact absurd h.symm hr
    · simp [applyC] at h; exact absurd h.symm hr
    · simp [evalArgsC] at h; exact absurd h.symm hr
  | succ f ih =>
    obtain ⟨ihE, ihP, ihA⟩ := ih
    refine ⟨?_, ?_, ?_⟩
    · intro p e r h hr
      cases p with
      | atom b => simpa [evalC] using h
      | pair hd args =>
        cases hd with
        | pair x xr =>
          cases xr with
          | pair _ _ => simpa [evalC] using h
          | atom xt =>
            cases x with
            | pair _ _ => simpa [evalC] using h
            | atom xb =>
              simp only [evalC] at h ⊢
              exact ihP xb args r h hr
        | atom op =>
          simp only [evalC] at h ⊢
          split
          · rename_i hq; simpa [hq] using h
          · rename_i hq
            rw [if_neg hq] at h
            cases hres : evalArgsC ops f args e with
            | ok vals =>
              rw [hres] at h
              rw [ihA args e _ hres (by simp)]
              exact ihP op vals r h hr
            | error ce =>
              rw [hres] at h
              simp only at h
              subst h
              rw [ihA args e _ hres hr]
    · intro op v r h hr
      simp only [applyC] at h ⊢
      split
      · rename_i h2
        rw [if_pos h2] at h
        cases hta : twoArgs v with
        | none => simpa [hta] using h
        | some pe =>
          obtain ⟨p, e⟩ := pe
          rw [hta] at h
          exact ihE p e r h hr
      · rename_i h2
        rw [if_neg h2] at h
        exact h
    · intro a e r h hr
      cases a with
      | atom b => simpa [evalArgsC] using h
      | pair x rest =>
        simp only [evalArgsC] at h ⊢
        cases hres : evalArgsC ops f rest e with
        | ok rs =>
          rw [hres] at h
          rw [ihA rest e _ hres (by simp)]
          simp only at h ⊢
          cases hres2 : evalC ops f x e with
          | ok v =>
            rw [hres2] at h
            rw [ihE x e _ hres2 (by simp)]
            exact h
          | error ce =>
            rw [hres2] at h
            simp only at h
            subst h
            rw [ihE x e _ hres2 hr]
        | error ce =>
          rw [hres] at h
          simp only at h
          subst h
          rw [ihA rest e _ hres hr]

theorem evalC_mono (ops : OpSem) {f f' : Nat} (h : f ≤ f') {p e : Val} {r : Res}
    (hr : evalC ops f p e = r) (hne : r ≠ .error .fuel) : evalC ops f' p e = r := by
  induction h with
  | refl => exact hr
  | step _ ih => exact (mono_succ ops _).1 p e r ih hne

theorem applyC_mono (ops : OpSem) {f f' : Nat} (h : f ≤ f') {op : Bytes} {v : Val} {r : Res}
    (hr : applyC ops f op v = r) (hne : r ≠ .error .fuel) : applyC ops f' op v = r := by
  induction h with
  | refl => exact hr
  | step _ ih => exact (mono_succ ops _).2.1 op v r ih hne

theorem evalArgsC_mono (ops : OpSem) {f f' : Nat} (h : f ≤ f') {a e : Val} {r : Res}
    (hr : evalArgsC ops f a e = r) (hne : r ≠ .error .fuel) : evalArgsC ops f' a e = r := by
  induction h with
  | refl => exact hr
  | step _ ih => exact (mono_succ ops _).2.2 a e r ih hne

/-- results other than "out of fuel" do not depend on the fuel. -/
theorem evalC_det (ops : OpSem) {f f' : Nat} {p e : Val} {r r' : Res}
    (h : evalC ops f p e = r) (hne : r ≠ .error .fuel)
    (h' : evalC ops f' p e = r') (hne' : r' ≠ .error .fuel) : r = r' := by
  have a := evalC_mono ops (Nat.le_max_left f f') h hne
  have b := evalC_mono ops (Nat.le_max_right f f') h' hne'
  rw [a] at b; exact b

end EvalLemmas
