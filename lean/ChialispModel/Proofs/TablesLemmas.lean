/-
  Proofs/TablesLemmas.lean — generic facts about the table lookups of Clvm/OpTables.lean,
  used to lift the exhaustive (`decide`d) checks of Props/C20.lean to statements over all
  names / atoms / versions.
-/
import ChialispModel.Clvm.OpTables

namespace TablesLemmas
open Tables OpTables

theorem lookupLast_some {rows : List KwRow} {key val : KwRow → List Nat} {k x : List Nat}
    (h : lookupLast rows key val k = some x) : ∃ r ∈ rows, key r = k ∧ val r = x := by
  unfold lookupLast at h
  cases hf : rows.reverse.find? (fun r => key r == k) with
  | none => simp [hf] at h
  | some r =>
    simp only [hf, Option.map_some, Option.some.injEq] at h
    have hp := List.find?_some hf
    have hm := List.mem_of_find?_eq_some hf
    exact ⟨r, List.mem_reverse.mp hm, by simpa using hp, h⟩

theorem find_pair_some {α β : Type} [BEq α] [LawfulBEq α] {l : List (α × β)} {k : α} {x : β}
    (h : (l.find? (fun p => p.1 == k)).map (·.2) = some x) : ∃ p ∈ l, p.1 = k ∧ p.2 = x := by
  cases hf : l.find? (fun p => p.1 == k) with
  | none => simp [hf] at h
  | some p =>
    simp only [hf, Option.map_some, Option.some.injEq] at h
    exact ⟨p, List.mem_of_find?_eq_some hf, by simpa using List.find?_some hf, h⟩

/-- versions at or beyond `versionArms` all behave like `versionArms`. -/
def clamp (v : Nat) : Nat := min v versionArms

theorem clamp_le (v : Nat) : clamp v ≤ versionArms := Nat.min_le_right _ _

theorem clamp_mono {v w : Nat} (h : v ≤ w) : clamp v ≤ clamp w := by
  unfold clamp; omega

theorem fromTableOf_clamp (v : Nat) : fromTableOf v = fromTableOf (clamp v) := by
  unfold clamp
  by_cases h : v ≤ versionArms
  · rw [Nat.min_eq_left h]
  · rw [Nat.min_eq_right (by omega), fromTableOf_beyond v (by omega)]

theorem toTableOf_clamp (v : Nat) : toTableOf v = toTableOf (clamp v) := by
  unfold clamp
  by_cases h : v ≤ versionArms
  · rw [Nat.min_eq_left h]
  · rw [Nat.min_eq_right (by omega), toTableOf_beyond v (by omega)]

theorem dialectOf_clamp (v : Nat) : dialectOf v = dialectOf (clamp v) := by
  unfold clamp
  by_cases h : v ≤ versionArms
  · rw [Nat.min_eq_left h]
  · rw [Nat.min_eq_right (by omega), dialectOf_beyond v (by omega)]

theorem fromAtom_clamp (v : Nat) (a : List Nat) : fromAtom v a = fromAtom (clamp v) a := by
  unfold fromAtom; rw [fromTableOf_clamp]

theorem toAtom_clamp (v : Nat) (n : List Nat) : toAtom v n = toAtom (clamp v) n := by
  unfold toAtom; rw [toTableOf_clamp]

theorem implemented_clamp (v : Nat) (a : List Nat) : implemented v a = implemented (clamp v) a := by
  unfold implemented dispatched special; rw [dialectOf_clamp]

theorem named_clamp (v : Nat) (a : List Nat) : named v a = named (clamp v) a := by
  unfold named; rw [fromAtom_clamp]

end TablesLemmas

namespace TablesLemmas
open Tables OpTables

/-! Boolean sweeps over the WHOLE generated tables (the finite domain of C20); each is
    evaluated by `decide` in Props/C20.lean and lifted there by the lemmas above. -/

def rowsTo (v : Nat) : List KwRow := rowsOf toTableFilters (toTableOf v)
def rowsFrom (v : Nat) : List KwRow := rowsOf fromTableFilters (fromTableOf v)

/-- every row of either table of version `v` is found back through the other table. -/
def checkInverse (v : Nat) : Bool :=
  (rowsTo v).all (fun r => fromAtom v r.opcode == some r.name) &&
  (rowsFrom v).all (fun r => toAtom v r.name == some r.opcode)

/-- every row visible in version `v` is visible, unchanged, in version `w`. -/
def checkMonotone (v w : Nat) : Bool :=
  (rowsTo v).all (fun r => toAtom w r.name == some r.opcode) &&
  (rowsFrom v).all (fun r => fromAtom w r.opcode == some r.name)

/-- modern prims and the latest classic table: same names, same operator atoms. -/
def checkPrims : Bool :=
  prims.all (fun p => toAtom latestVersion p.1 == some (atomOfInt p.2)) &&
  (rowsTo latestVersion).all (fun r => primAtom r.name == some r.opcode) &&
  prims.all (fun p => primFirst p.1 == some p.2 && primMap p.1 == some p.2)

/-- every operator named in version `v` is run by the dialect chosen for `v` (or is quote/apply/softfork). -/
def checkImplemented (v : Nat) : Bool :=
  (rowsTo v).all (fun r => implemented v r.opcode) && (rowsFrom v).all (fun r => implemented v r.opcode)

/-- every primitive of the modern compiler is run by the dialect the stepping evaluator / the default runner use. -/
def checkPrimsImplemented : Bool :=
  prims.all (fun p => implemented stepperVersion (atomOfInt p.2) && implemented defaultVersion (atomOfInt p.2))

/-- all one-byte operator atoms and all longer ones mentioned anywhere: named ⇔ implemented. -/
def checkScan (v : Nat) : Bool :=
  (List.range 256).all (fun o => named v [o] == implemented v [o]) &&
  longOpcodes.all (fun a => named v a == implemented v a)

theorem all_le_of_decide {p : Nat → Bool} {k : Nat} (h : (List.range (k + 1)).all p = true) :
    ∀ v, v ≤ k → p v = true := by
  intro v hv
  exact List.all_eq_true.mp h v (List.mem_range.mpr (by omega))

end TablesLemmas
