/-
  Proofs/PathLemmas.lean — arithmetic of environment paths.
-/
import ChialispModel.Base.Path

namespace Path

theorem bitsOfAux_fuel (f g p : Nat) (hf : p ≤ f) (hg : p ≤ g) : bitsOfAux f p = bitsOfAux g p := by
  induction f generalizing g p with
  | zero =>
    have : p = 0 := by omega
    subst this
    cases g <;> simp [bitsOfAux]
  | succ f ih =>
    by_cases hp : p ≤ 1
    · cases g with
      | zero => simp [bitsOfAux, hp]
      | succ g => simp [bitsOfAux, hp]
    · cases g with
      | zero => omega
      | succ g =>
        simp only [bitsOfAux, hp, if_false]
        rw [ih g (p / 2) (by omega) (by omega)]

theorem bitsOf_double (q : Nat) (hq : 1 ≤ q) : bitsOf (2 * q) = false :: bitsOf q := by
  unfold bitsOf
  have h2 : 2 * q = (2 * q - 1) + 1 := by omega
  rw [h2]
  simp only [bitsOfAux]
  have : ¬ (2 * q - 1 + 1 ≤ 1) := by omega
  simp only [this, if_false]
  have e1 : (2 * q - 1 + 1) % 2 = 0 := by omega
  have e2 : (2 * q - 1 + 1) / 2 = q := by omega
  rw [e1, e2, bitsOfAux_fuel (2 * q - 1) q q (by omega) (Nat.le_refl _)]
  rfl

theorem bitsOf_double_succ (q : Nat) (hq : 1 ≤ q) : bitsOf (2 * q + 1) = true :: bitsOf q := by
  unfold bitsOf
  simp only [bitsOfAux]
  have : ¬ (2 * q + 1 ≤ 1) := by omega
  simp only [this, if_false]
  have e1 : (2 * q + 1) % 2 = 1 := by omega
  have e2 : (2 * q + 1) / 2 = q := by omega
  rw [e1, e2, bitsOfAux_fuel (2 * q) q q (by omega) (Nat.le_refl _)]
  rfl

theorem lookupNat_one (v : Val) : lookupNat 1 v = .ok v := by
  simp [lookupNat, bitsOf, bitsOfAux, walk]

theorem lookupNat_left (q : Nat) (hq : 1 ≤ q) (a d : Val) :
    lookupNat (2 * q) (.pair a d) = lookupNat q a := by
  have h1 : 2 * q ≠ 0 := by omega
  have h2 : q ≠ 0 := by omega
  simp [lookupNat, h1, h2, bitsOf_double q hq, walk]

theorem lookupNat_right (q : Nat) (hq : 1 ≤ q) (a d : Val) :
    lookupNat (2 * q + 1) (.pair a d) = lookupNat q d := by
  have h2 : q ≠ 0 := by omega
  simp [lookupNat, h2, bitsOf_double_succ q hq, walk]

end Path
