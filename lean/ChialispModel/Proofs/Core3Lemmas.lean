/-
  Proofs/Core3Lemmas.lean — LAYER B3: correctness of the core3 compiler model
  (`Core3.compileCore3` = compile-time evaluation of constants + core2 pipeline).

  * `lower_sound` — THE LOWERING LEMMA: putting the compile-time values in for the constants
    preserves the source meaning.  Its heart is the soundness of the constant environment:
    a constant's source meaning `v` (its body in the empty environment) is, by the lemma itself
    at smaller fuel, the meaning of the lowered body; by Layer B2 (`compileCore2_correct`) the
    CLVM compiled from it evaluates to `v`; the consensus evaluator is deterministic, so the
    value the compile-time run produced IS `v`.
  * `compileLive_correct` — Layer B2 with the live-helper set as a parameter (the proofs of
    Proofs/Core2Lemmas.lean use nothing about `Core2.liveSet` but its closure properties).
-/
import ChialispModel.Lang.Core3
import ChialispModel.Proofs.Core2Lemmas

namespace Core3
open Clvm Lang
open Core (OpsCore paramValue)
open Core2 (Expr Exprs FnDef namesPat bindsOk OpsFR)

-- Layer B2 with a given live set -------------------------------------------------------------

theorem compileNSLive_correct (ops : OpSem) (hops : OpsCore ops) (hfr : OpsFR ops) (live : List Bytes)
    (P : Core2.Prog) (hwf : progWFNSLive live P = true) (code : Val)
    (hcode : compileNSLive live P = some code) (n : Nat) (args v : Val)
    (he : Core2.evalProgNS ops P n args = .ok v) : Evaluates ops code args v := by
  unfold progWFNSLive at hwf
  unfold compileNSLive at hcode
  cases hxp : Core2.expandProg P with
  | none => rw [hxp] at hwf; simp at hwf
  | some r =>
    obtain ⟨FT, main⟩ := r
    rw [hxp] at hwf hcode
    simp only [Bool.and_eq_true, List.all_eq_true, Option.isNone_iff_eq_none] at hwf
    obtain ⟨⟨⟨hfns, hpw⟩, hbw⟩, ⟨⟨⟨⟨htw, hmok⟩, hdis⟩, hcl⟩, hcalls⟩⟩ := hwf
    simp only at hcode
    unfold Core2.expandProg at hxp
    cases hE : Core2.expandFns P.fns (Core2.expandFuel P) P.fns with
    | none => rw [hE] at hxp; simp at hxp
    | some FT' =>
      cases hM : Core2.expand P.fns (Core2.expandFuel P) P.params .top P.body with
      | none => rw [hE, hM] at hxp; simp at hxp
      | some main' =>
        rw [hE, hM] at hxp
        simp at hxp
        obtain ⟨h1, h2⟩ := hxp
        subst h1; subst h2
        unfold Core2.evalProgNS at he
        by_cases hbo : bindsOk P.params args = true
        · rw [if_pos hbo] at he
          simp only [Core2.fnsWF, Bool.and_eq_true, List.all_eq_true, bne_iff_ne, ne_eq] at hfns
          have hFS : ∀ f fd, Core2.findFn f P.fns = some fd →
              Core2.patWF fd.params = true ∧ Core2.exprWF fd.params fd.body = true := by
            intro f fd hf
            obtain ⟨hmem, _⟩ := Core2.findFn_mem f P.fns fd hf
            exact ⟨(hfns.2 fd hmem).1.2, (hfns.2 fd hmem).2⟩
          have hFT : ∀ f fd, Core2.findFn f P.fns = some fd → fd.inline = false →
              ∃ fd' k, Core2.findFn f FT' = some fd' ∧ fd'.params = fd.params ∧
                Core2.expand P.fns k fd.params .top fd.body = some fd'.body := by
            intro f fd hf hinl
            obtain ⟨fd', h1, h2, h3⟩ := Core2.expandFns_find P.fns (Core2.expandFuel P) P.fns FT' hE f fd hf hinl
            exact ⟨fd', Core2.expandFuel P, h1, h2, h3⟩
          obtain ⟨m, hm⟩ := (Core2.expand_sound ops P.fns FT' hops hfr hFS hFT n).1 (Core2.expandFuel P) P.params args .top
            P.body main' v P.params args hpw hbo hbw ⟨rfl, rfl⟩ hM he
          have hcalls' : (Core2.callsOf main').all live.contains = true := by
            rw [List.all_eq_true]; exact hcalls
          have hcl' : Core2.liveClosed FT' live = true := hcl
          have hk := (Core2.eval_keep ops FT' live hcl' m).1 P.params args main' v hcalls' hm
          have hwfK := Core2.wf_keep FT' live (Core2.targetWF_sound FT' htw)
          have hpok : Lang.patOk P.params = true := (Core2.patWF_parts hpw).1
          refine Core2.compileWith_correct ops hops hfr (Core2.keep FT' live) hwfK P.params hpok ?_ main' hmok code hcode m args v hk
          intro g hg
          unfold Core2.keep at hg
          exact hdis g (List.mem_filter.mp hg).1
        · rw [if_neg hbo] at he; simp [failR] at he

theorem renameProg_sound_live (ops : OpSem) (live : List Bytes) (P : Core2.Prog)
    (hwf : progWFLive live P = true) (n : Nat) (args v : Val)
    (he : Core2.evalProg ops P n args = .ok v) : Core2.evalProgNS ops (Core2.renameProg P) n args = .ok v := by
  simp only [progWFLive, Bool.and_eq_true, List.all_eq_true] at hwf
  obtain ⟨⟨hlf, hlb⟩, hns⟩ := hwf
  unfold progWFNSLive at hns
  cases hxp : Core2.expandProg (Core2.renameProg P) with
  | none => rw [hxp] at hns; simp at hns
  | some r0 =>
    rw [hxp] at hns
    simp only [Bool.and_eq_true] at hns
    obtain ⟨⟨⟨hfns, hpw⟩, hbw⟩, _⟩ := hns
    simp only [Core2.fnsWF, Bool.and_eq_true, List.all_eq_true, bne_iff_ne, ne_eq] at hfns
    unfold Core2.evalProg at he
    unfold Core2.evalProgNS
    have hparams : (Core2.renameProg P).params = P.params := rfl
    have hfnsE : (Core2.renameProg P).fns = P.fns.map Core2.renameFn := rfl
    have hbodyE : (Core2.renameProg P).body = Core2.renameE [] 0 P.body := rfl
    rw [hparams, hfnsE, hbodyE]
    rw [hparams] at hpw hbw
    rw [hbodyE] at hbw
    by_cases hbo : bindsOk P.params args = true
    · rw [if_pos hbo] at he ⊢
      have hFS : ∀ f fd, Core2.findFn f P.fns = some fd →
          Core2.lexWF fd.body = true ∧ Core2.patWF fd.params = true ∧
            Core2.exprWF fd.params (Core2.renameE [] 0 fd.body) = true := by
        intro f fd hf
        obtain ⟨hmem, _⟩ := Core2.findFn_mem f P.fns fd hf
        have hm : Core2.renameFn fd ∈ (Core2.renameProg P).fns := by
          rw [hfnsE]; exact List.mem_map_of_mem hmem
        have := hfns.2 (Core2.renameFn fd) hm
        exact ⟨hlf fd hmem, this.1.2, this.2⟩
      exact (Core2.rename_sound ops P.fns hFS n).1 P.params args P.params args [] 0 P.body v
        (Core2.patWF_parts hpw).1 hbo hpw hbo hlb hbw (Core2.rel_nil _ _) he
    · rw [if_neg hbo] at he; simp [failR] at he

/-- Layer B2 for any live set that passes the closure checks. -/
theorem compileLive_correct (ops : OpSem) (hops : OpsCore ops) (hfr : OpsFR ops) (live : List Bytes)
    (P : Core2.Prog) (hwf : progWFLive live P = true) (code : Val) (hcode : compileLive live P = some code)
    (n : Nat) (args v : Val) (he : Core2.evalProg ops P n args = .ok v) : Evaluates ops code args v := by
  have hns : progWFNSLive live (Core2.renameProg P) = true := by
    simp only [progWFLive, Bool.and_eq_true] at hwf
    exact hwf.2
  exact compileNSLive_correct ops hops hfr live (Core2.renameProg P) hns code hcode n args v
    (renameProg_sound_live ops live P hwf n args v he)

-- small facts ----------------------------------------------------------------------------------

theorem findFn_lowerFns (CE : List (Bytes × Val)) (f : Bytes) :
    ∀ FS : List FnDef, Core2.findFn f (lowerFns CE FS) = (Core2.findFn f FS).map (lowerFn CE) := by
  intro FS
  induction FS with
  | nil => simp [lowerFns, Core2.findFn]
  | cons x xs ih =>
    have hn : (lowerFn CE x).name = x.name := rfl
    simp only [lowerFns, List.map_cons, Core2.findFn, hn] at ih ⊢
    by_cases hx : (x.name == f) = true
    · rw [if_pos hx, if_pos hx]; rfl
    · rw [if_neg hx, if_neg hx]; exact ih

theorem lookupCE_mem (k : Bytes) : ∀ (CE : List (Bytes × Val)) (w : Val), lookupCE k CE = some w → k ∈ CE.map (·.1) := by
  intro CE
  induction CE with
  | nil => intro w h; simp [lookupCE] at h
  | cons x xs ih =>
    intro w h
    obtain ⟨k', v'⟩ := x
    simp only [lookupCE] at h
    by_cases hk : (k' == k) = true
    · have : k' = k := by simpa using hk
      simp [this]
    · rw [if_neg hk] at h
      simp only [List.map_cons, List.mem_cons]
      exact Or.inr (ih w h)

theorem findConst_mem (k : Bytes) : ∀ (cs : List (Bytes × Expr)) (b : Expr), findConst k cs = some b → (k, b) ∈ cs := by
  intro cs
  induction cs with
  | nil => intro b h; simp [findConst] at h
  | cons x xs ih =>
    intro b h
    obtain ⟨k', b'⟩ := x
    simp only [findConst] at h
    by_cases hk : (k' == k) = true
    · rw [if_pos hk] at h
      have h1 : k' = k := by simpa using hk
      have h2 : b' = b := by simpa using h
      simp [h1, h2]
    · rw [if_neg hk] at h
      simp only [List.mem_cons]
      exact Or.inr (ih b h)

/-- a name the lexical pattern keeps free is not bound by it. -/
theorem paramValue_constFree (ks : List Bytes) (lp : Rich) (h : constFree ks lp = true) (k : Bytes)
    (hk : k ∈ ks) (la : Val) : paramValue lp la k = none := by
  simp only [constFree, Bool.and_eq_true, List.all_eq_true, Option.isNone_iff_eq_none] at h
  unfold Core.paramValue
  cases hb : bindPat lp (SV.ofVal la) with
  | none => rfl
  | some ρ =>
    have := nameLookup_none k lp h.1 (h.2 k hk) (SV.ofVal la) ρ hb
    simp [this]

theorem constFree_nil (ks : List Bytes) : constFree ks .nil = true := by
  simp [constFree, patOk, nameLookup]

-- the lowering lemma ---------------------------------------------------------------------------

section Main
variable (ops : OpSem) (hops : OpsCore ops) (hfr : OpsFR ops)
variable (consts : List (Bytes × Expr)) (fns : List FnDef) (CE : List (Bytes × Val))

/-- soundness of the constant environment at fuel `n`, from the lowering lemma at fuel `n`. -/
theorem const_sound (hops : OpsCore ops) (hfr : OpsFR ops)
    (hC : constsOk ops CE fns consts = true) (n : Nat)
    (hL : ∀ (lp : Rich) (la : Val) (e : Expr) (v : Val), constFree (CE.map (·.1)) lp = true →
      scopeOk (CE.map (·.1)) lp e = true → evalL ops consts fns n lp la e = .ok v →
      Core2.evalL ops (lowerFns CE fns) n lp la (lowerE CE e) = .ok v) :
    ∀ k body v, findConst k consts = some body → evalL ops consts fns n .nil Val.nil body = .ok v →
      lookupCE k CE = some v := by
  intro k body v hf he
  have hmem := findConst_mem k consts body hf
  simp only [constsOk, List.all_eq_true] at hC
  have hck := hC (k, body) hmem
  simp only at hck
  cases hl : lookupCE k CE with
  | none => rw [hl] at hck; simp at hck
  | some w =>
    rw [hl] at hck
    simp only [constCheck, Bool.and_eq_true] at hck
    obtain ⟨⟨hwf, hsc⟩, hrun⟩ := hck
    cases hcomp : Core2.compileCore2 (constProg CE fns body) with
    | none => rw [hcomp] at hrun; simp at hrun
    | some code =>
      rw [hcomp] at hrun
      simp only at hrun
      cases hev : Clvm.evalC ops constFuel code Val.nil with
      | error er => rw [hev] at hrun; simp at hrun
      | ok v' =>
        rw [hev] at hrun
        have hvw : v' = w := by simpa using hrun
        have h2 := hL .nil Val.nil body v (constFree_nil _) hsc he
        have hprog : Core2.evalProg ops (constProg CE fns body) n Val.nil = .ok v := by
          unfold Core2.evalProg
          have hb0 : bindsOk Rich.nil Val.nil = true := by decide
          have hb : bindsOk (constProg CE fns body).params Val.nil = true := hb0
          rw [if_pos hb]
          exact h2
        have hE := Core2.compileCore2_correct ops hops hfr (constProg CE fns body) hwf code hcomp n Val.nil v hprog
        have hE' : Evaluates ops code Val.nil v' := ⟨constFuel, hev⟩
        have := evaluates_unique hE hE'
        rw [this, hvw]

/-- THE LOWERING LEMMA. -/
theorem lower_sound (hops : OpsCore ops) (hfr : OpsFR ops)
    (hC : constsOk ops CE fns consts = true)
    (hF : ∀ fd ∈ fns, constFree (CE.map (·.1)) fd.params = true ∧ scopeOk (CE.map (·.1)) fd.params fd.body = true) :
    ∀ n : Nat,
      (∀ (lp : Rich) (la : Val) (e : Expr) (v : Val), constFree (CE.map (·.1)) lp = true →
        scopeOk (CE.map (·.1)) lp e = true → evalL ops consts fns n lp la e = .ok v →
        Core2.evalL ops (lowerFns CE fns) n lp la (lowerE CE e) = .ok v) ∧
      (∀ (lp : Rich) (la : Val) (es : Exprs) (vs : Val), constFree (CE.map (·.1)) lp = true →
        scopesOk (CE.map (·.1)) lp es = true → evalArgsL ops consts fns n lp la es = .ok vs →
        Core2.evalArgsL ops (lowerFns CE fns) n lp la (lowerEs CE es) = .ok vs) := by
  intro n
  induction n with
  | zero => constructor <;> intros <;> simp_all [evalL, evalArgsL]
  | succ n ih =>
    obtain ⟨ihA, ihB⟩ := ih
    have hS := const_sound ops consts fns CE hops hfr hC n ihA
    constructor
    · intro lp la e v hcf hsc he
      cases e with
      | var x =>
        simp only [evalL] at he
        simp only [lowerE]
        cases hl : lookupCE x CE with
        | some w =>
          have hx : x ∈ CE.map (·.1) := lookupCE_mem x CE w hl
          rw [paramValue_constFree _ lp hcf x hx la] at he
          simp only at he
          cases hfc : findConst x consts with
          | none => rw [hfc] at he; simp [failR] at he
          | some body =>
            rw [hfc] at he
            simp only at he
            have := hS x body v hfc he
            rw [hl] at this
            have hwv : w = v := by simpa using this
            simp [Core2.evalL, hwv]
        | none =>
          simp only [Core2.evalL]
          cases hpv : paramValue lp la x with
          | some u => rw [hpv] at he; simpa using he
          | none =>
            rw [hpv] at he
            simp only at he
            cases hfc : findConst x consts with
            | none => rw [hfc] at he; simp [failR] at he
            | some body =>
              rw [hfc] at he
              simp only at he
              have := hS x body v hfc he
              rw [hl] at this
              simp at this
      | lit w => simpa [evalL, lowerE, Core2.evalL] using he
      | argsv => simpa [evalL, lowerE, Core2.evalL] using he
      | op code as =>
        simp only [evalL] at he
        simp only [lowerE, Core2.evalL]
        simp only [scopeOk] at hsc
        cases ha : evalArgsL ops consts fns n lp la as with
        | error er => rw [ha] at he; simp at he
        | ok vs =>
          rw [ha] at he
          rw [ihB lp la as vs hcf hsc ha]
          exact he
      | ite c a b =>
        simp only [evalL] at he
        simp only [lowerE, Core2.evalL]
        simp only [scopeOk, Bool.and_eq_true] at hsc
        cases hc : evalL ops consts fns n lp la c with
        | error er => rw [hc] at he; simp at he
        | ok cv =>
          rw [hc] at he
          rw [ihA lp la c cv hcf hsc.1.1 hc]
          simp only at he ⊢
          by_cases hn : Val.nilp cv = true
          · rw [if_pos hn] at he ⊢
            exact ihA lp la b v hcf hsc.2 he
          · rw [if_neg hn] at he ⊢
            exact ihA lp la a v hcf hsc.1.2 he
      | call f as =>
        simp only [evalL] at he
        simp only [lowerE, Core2.evalL]
        simp only [scopeOk] at hsc
        rw [findFn_lowerFns]
        cases hfd : Core2.findFn f fns with
        | none => rw [hfd] at he; simp [failR] at he
        | some fd =>
          rw [hfd] at he
          simp only [Option.map_some] at he ⊢
          cases ha : evalArgsL ops consts fns n lp la as with
          | error er => rw [ha] at he; simp at he
          | ok vs =>
            rw [ha] at he
            rw [ihB lp la as vs hcf hsc ha]
            simp only at he ⊢
            have hp : (lowerFn CE fd).params = fd.params := rfl
            have hb : (lowerFn CE fd).body = lowerE CE fd.body := rfl
            rw [hp, hb]
            by_cases hbo : bindsOk fd.params vs = true
            · rw [if_pos hbo] at he ⊢
              obtain ⟨hmem, _⟩ := Core2.findFn_mem f fns fd hfd
              obtain ⟨h1, h2⟩ := hF fd hmem
              exact ihA fd.params vs fd.body v h1 h2 he
            · rw [if_neg hbo] at he; simp [failR] at he
      | letE names es body =>
        simp only [evalL] at he
        simp only [lowerE, Core2.evalL]
        simp only [scopeOk, Bool.and_eq_true] at hsc
        obtain ⟨⟨hses, hcf'⟩, hsb⟩ := hsc
        cases ha : evalArgsL ops consts fns n lp la es with
        | error er => rw [ha] at he; simp at he
        | ok vs =>
          rw [ha] at he
          rw [ihB lp la es vs hcf hses ha]
          simp only at he ⊢
          by_cases hbo : bindsOk (.cons (namesPat names) lp) (.pair vs la) = true
          · rw [if_pos hbo] at he ⊢
            exact ihA _ _ body v hcf' hsb he
          · rw [if_neg hbo] at he; simp [failR] at he
    · intro lp la es vs hcf hsc he
      cases es with
      | nil => simpa [evalArgsL, lowerEs, Core2.evalArgsL] using he
      | cons e rest =>
        simp only [evalArgsL] at he
        simp only [lowerEs, Core2.evalArgsL]
        simp only [scopesOk, Bool.and_eq_true] at hsc
        cases h1 : evalL ops consts fns n lp la e with
        | error er => rw [h1] at he; simp at he
        | ok v1 =>
          rw [h1] at he
          rw [ihA lp la e v1 hcf hsc.1 h1]
          simp only at he ⊢
          cases h2 : evalArgsL ops consts fns n lp la rest with
          | error er => rw [h2] at he; simp at he
          | ok v2 =>
            rw [h2] at he
            rw [ihB lp la rest v2 hcf hsc.2 h2]
            exact he

end Main

/-- LAYER B3 for a given constant environment that passes the checks. -/
theorem compileWith_correct3 (ops : OpSem) (hops : OpsCore ops) (hfr : OpsFR ops) (CE : List (Bytes × Val))
    (P : Prog) (hwf : progWFWith ops CE P = true) (code : Val)
    (hcode : compileLive (liveSet P) (lowerProg CE P) = some code) (n : Nat) (args v : Val)
    (he : evalProg ops P n args = .ok v) : Evaluates ops code args v := by
  simp only [progWFWith, Bool.and_eq_true, List.all_eq_true] at hwf
  obtain ⟨⟨⟨⟨hC, hFns⟩, hcfP⟩, hscP⟩, hlive⟩ := hwf
  have hF : ∀ fd ∈ P.fns, constFree (CE.map (·.1)) fd.params = true ∧ scopeOk (CE.map (·.1)) fd.params fd.body = true := by
    intro fd hfd
    have := hFns fd hfd
    simpa [Bool.and_eq_true] using this
  refine compileLive_correct ops hops hfr (liveSet P) (lowerProg CE P) hlive code hcode n args v ?_
  unfold evalProg at he
  unfold Core2.evalProg
  have hp : (lowerProg CE P).params = P.params := rfl
  have hf : (lowerProg CE P).fns = lowerFns CE P.fns := rfl
  have hb : (lowerProg CE P).body = lowerE CE P.body := rfl
  rw [hp, hf, hb]
  by_cases hbo : bindsOk P.params args = true
  · rw [if_pos hbo] at he ⊢
    exact (lower_sound ops P.consts P.fns CE hops hfr hC hF n).1 P.params args P.body v hcfP hscP he
  · rw [if_neg hbo] at he; simp [failR] at he

/-- LAYER B3: the core3 compiler model is correct — for every operator table implementing
    `i`, `c`, `f`, `r` (the same table runs the constants at compile time), every well-formed
    core3 program (functions, inline functions with destructuring parameters, `let`, constants
    evaluated at compile time), every argument value: if the call-by-value source meaning is
    `v`, the emitted CLVM evaluates to `v` under the consensus evaluator. -/
theorem compileCore3_correct (ops : OpSem) (hops : OpsCore ops) (hfr : OpsFR ops) (P : Prog)
    (hwf : progWF ops P = true) (code : Val) (hcode : compileCore3 ops P = some code) (n : Nat) (args v : Val)
    (he : evalProg ops P n args = .ok v) : Evaluates ops code args v :=
  compileWith_correct3 ops hops hfr (constEnv ops P) P hwf code hcode n args v he

end Core3
