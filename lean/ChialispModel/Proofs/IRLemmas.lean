/-
  Proofs/IRLemmas.lean — classic pair: ATOM level (each kind of token the disassembler prints is
  read back by `consume_quoted` / `consume_atom` + `interpret_atom_value`), the keyword-table
  inverse, IR-level inverse of `assemble_from_ir`, and the instantiation of the generic tree theorem.
-/
import ChialispModel.Text.IR
import ChialispModel.Proofs.LexLemmas
import ChialispModel.Proofs.ShortIntLemmas
import ChialispModel.Proofs.TextTree

namespace IR
open Lex

-- characters -----------------------------------------------------------------------------------

theorem nonDelim_of_toNat {c : UInt8} (h : c.toNat ≠ 40 ∧ c.toNat ≠ 41 ∧ c.toNat ≠ 32 ∧ c.toNat ≠ 9 ∧ c.toNat ≠ 13 ∧ c.toNat ≠ 10) :
    NonDelim c := by
  obtain ⟨h1, h2, h3, h4, h5, h6⟩ := h
  refine ⟨?_, ?_, ?_⟩
  · intro e; subst e; exact h1 rfl
  · intro e; subst e; exact h2 rfl
  · simp only [isSpace, isEol, Bool.or_eq_false_iff, beq_eq_false_iff_ne]
    refine ⟨⟨?_, ?_⟩, ?_, ?_⟩ <;> (intro e; subst e; simp_all)

theorem atomStart_of_toNat {c : UInt8}
    (h : c.toNat ≠ 40 ∧ c.toNat ≠ 41 ∧ c.toNat ≠ 32 ∧ c.toNat ≠ 9 ∧ c.toNat ≠ 13 ∧ c.toNat ≠ 10 ∧
         c.toNat ≠ 59 ∧ c.toNat ≠ 46 ∧ c.toNat ≠ 34 ∧ c.toNat ≠ 39) : AtomStart c := by
  obtain ⟨h1, h2, h3, h4, h5, h6, h7, h8, h9, h10⟩ := h
  have nd := nonDelim_of_toNat ⟨h1, h2, h3, h4, h5, h6⟩
  refine ⟨nd.2.2, ?_, nd.1, nd.2.1, ?_, ?_⟩
  · intro e; subst e; exact h7 rfl
  · intro e; subst e; exact h8 rfl
  · simp only [isQuoteChar, Bool.or_eq_false_iff, beq_eq_false_iff_ne]
    constructor <;> (intro e; subst e; simp_all)

theorem numCh_toNat {c : UInt8} (h : IsNumCh c) : (48 ≤ c.toNat ∧ c.toNat ≤ 57) ∨ c.toNat = 45 := by
  rcases h with h | h
  · exact Or.inl h
  · subst h; exact Or.inr rfl

theorem numCh_nonDelim {c : UInt8} (h : IsNumCh c) : NonDelim c :=
  nonDelim_of_toNat (by have := numCh_toNat h; omega)

theorem numCh_atomStart {c : UInt8} (h : IsNumCh c) : AtomStart c :=
  atomStart_of_toNat (by have := numCh_toNat h; omega)

theorem hexCh_nonDelim {c : UInt8} (h : IsHexCh c) : NonDelim c :=
  nonDelim_of_toNat (by unfold IsHexCh at h; omega)

-- decimal tokens ---------------------------------------------------------------------------------

theorem isHexTok_num (tok : Bytes) (h : ∀ c ∈ tok, IsNumCh c) : isHexTok tok = false := by
  unfold isHexTok
  split
  · rename_i x _ _
    have hx := numCh_toNat (h x (by simp))
    simp only [Bool.or_eq_false_iff, beq_eq_false_iff_ne]
    constructor <;> (intro e; subst e; simp at hx)
  · rfl

/-- ATOM level, decimal: `interpret_atom_value` inverts `BigInt::to_string` up to `bigint_to_bytes_clvm`. -/
theorem interpret_intToDec (i : Int) :
    interpretAtomValue (intToDec i) = .ok (.int (Bytes.ofIntClvm i) true) := by
  obtain ⟨c, r, hs, _, _⟩ := intToDec_cons i
  unfold interpretAtomValue
  rw [isHexTok_num _ (intToDec_chars i), parseBigInt_intToDec]
  simp [hs]

/-- TOKEN-STREAM level, decimal -/
theorem leafOK_dec (i : Int) : LeafOK (intToDec i) (.int (Bytes.ofIntClvm i) true) := by
  obtain ⟨c, r, hs, hc, hr⟩ := intToDec_cons i
  refine ⟨c, r, hs, Or.inr ⟨numCh_atomStart hc, ?_⟩⟩
  intro K hK
  rw [consumeAtom_token r [c] K (fun b hb => numCh_nonDelim (hr b hb)) hK (by simp)]
  simp only [List.singleton_append, ← hs, atomResult, interpret_intToDec]

-- hex tokens -------------------------------------------------------------------------------------

theorem interpret_hex (h : Bytes) (hne : h ≠ []) :
    interpretAtomValue (48 :: 120 :: toHex h) = .ok (.hex h) := by
  cases h with
  | nil => exact absurd rfl hne
  | cons x xs =>
    have hl : (48 :: 120 :: toHex (x :: xs)).length % 2 = 0 := by
      simp only [List.length_cons, toHex_length]; omega
    unfold interpretAtomValue
    have h1 : isHexTok (48 :: 120 :: toHex (x :: xs)) = true := by simp [isHexTok, toHex]
    have h2 : hexDigitsOf (48 :: 120 :: toHex (x :: xs)) = toHex (x :: xs) := by
      unfold hexDigitsOf
      rw [if_neg (by rw [hl]; decide)]
      rfl
    rw [h1, h2, ofHexStrict_toHex]
    simp

/-- TOKEN-STREAM level, hex -/
theorem leafOK_hex (h : Bytes) (hne : h ≠ []) : LeafOK (48 :: 120 :: toHex h) (.hex h) := by
  refine ⟨48, 120 :: toHex h, rfl, Or.inr ⟨atomStart_of_toNat (by decide), ?_⟩⟩
  intro K hK
  rw [consumeAtom_token (120 :: toHex h) [48] K ?_ hK (by simp)]
  · simp only [List.singleton_append, atomResult, interpret_hex h hne]
  · intro c hc
    simp only [List.mem_cons] at hc
    rcases hc with rfl | hc
    · exact nonDelim_of_toNat (by decide)
    · exact hexCh_nonDelim (toHex_chars h c hc)

-- quoted strings -----------------------------------------------------------------------------------

/-- `consume_quoted` copies characters that are neither the quote nor a backslash -/
theorem consumeQuoted_plain (q : UInt8) (b acc K : Bytes) (h : ∀ c ∈ b, c ≠ 92 ∧ c ≠ q) (hq : q ≠ 92) :
    consumeQuoted q false acc (b ++ q :: K) = .ok (.quotes (acc ++ b), K) := by
  induction b generalizing acc with
  | nil => simp [consumeQuoted, hq]
  | cons x xs ih =>
    obtain ⟨h1, h2⟩ := h x (by simp)
    simp only [List.cons_append, consumeQuoted, h1, h2, beq_iff_eq, if_false]
    rw [ih (acc ++ [x]) (fun c hc => h c (by simp [hc]))]
    simp

/-- a byte of a string the disassembler quotes (printable, not the double quote); when the writer
    does not escape backslashes (`fr = false`, the code as it is) it must not be a backslash -/
def PlainQ (fr : Bool) (c : UInt8) : Prop := c ≠ 34 ∧ 32 ≤ c.toNat ∧ c.toNat ≤ 126 ∧ (fr = false → c ≠ 92)

theorem reprByte_plain {fr : Bool} {c : UInt8} (h : PlainQ fr c) (h92 : c ≠ 92) : reprByte 34 fr c = [c] := by
  obtain ⟨h1, h3, h4, _⟩ := h
  have n9 : c ≠ 9 := by intro e; subst e; simp at h3
  have n10 : c ≠ 10 := by intro e; subst e; simp at h3
  have n13 : c ≠ 13 := by intro e; subst e; simp at h3
  have hr : (decide (c.toNat < 32) || decide (127 ≤ c.toNat)) = false := by
    rw [Bool.or_eq_false_iff]; constructor <;> simp <;> omega
  simp [reprByte, h1, h92, n9, n10, n13, hr]

/-- ATOM level, quoted strings: the reader undoes the formal-string writer's escaping -/
theorem consumeQuoted_repr (fr : Bool) (b acc K : Bytes) (h : ∀ c ∈ b, PlainQ fr c) :
    consumeQuoted 34 false acc (b.flatMap (reprByte 34 fr) ++ 34 :: K) = .ok (.quotes (acc ++ b), K) := by
  induction b generalizing acc with
  | nil => simp [consumeQuoted]
  | cons x xs ih =>
    have hx := h x (by simp)
    have ih' := ih (acc ++ [x]) (fun c hc => h c (by simp [hc]))
    simp only [List.append_assoc, List.singleton_append] at ih'
    simp only [List.flatMap_cons, List.append_assoc]
    by_cases h92 : x = 92
    · subst h92
      cases fr with
      | false => exact absurd rfl (hx.2.2.2 rfl)
      | true =>
        have : reprByte 34 true 92 = [92, 92] := by decide
        rw [this]
        simp only [List.cons_append, List.nil_append, consumeQuoted, beq_self_eq_true, if_true]
        exact ih'
    · rw [reprByte_plain hx h92]
      simp only [List.cons_append, List.nil_append, consumeQuoted, h92, hx.1, beq_iff_eq, if_false]
      exact ih'

theorem toFormalStringWith_eq (fr : Bool) (b : Bytes) :
    toFormalStringWith fr b = 34 :: (b.flatMap (reprByte 34 fr) ++ [34]) := by
  have hq : reprQuote b true = 34 := by simp [reprQuote]
  simp [toFormalStringWith, pybytesRepr, hq]

/-- ATOM + TOKEN-STREAM level, quoted strings -/
theorem leafOK_quotes (fr : Bool) (b : Bytes) (h : ∀ c ∈ b, PlainQ fr c) : LeafOK (toFormalStringWith fr b) (.quotes b) := by
  rw [toFormalStringWith_eq]
  refine ⟨34, b.flatMap (reprByte 34 fr) ++ [34], rfl, Or.inl ⟨by decide, ?_⟩⟩
  intro K
  have := consumeQuoted_repr fr b [] K h
  simpa using this

-- symbols ----------------------------------------------------------------------------------------

/-- a bare symbol that `consume_atom` + `interpret_atom_value` read back as that symbol -/
def goodSymbol (s : Bytes) : Bool :=
  match s with
  | [] => false
  | c :: r =>
    (c != 40 && c != 41 && !isSpace c && c != 59 && c != 46 && !isQuoteChar c) &&
    r.all (fun x => x != 40 && x != 41 && !isSpace x) &&
    !isHexTok s && (parseBigInt s).isNone

theorem leafOK_symbol (s : Bytes) (h : goodSymbol s = true) : LeafOK s (.symbol s) := by
  cases s with
  | nil => simp [goodSymbol] at h
  | cons c r =>
    simp only [goodSymbol, Bool.and_eq_true, bne_iff_ne, ne_eq, Bool.not_eq_true', List.all_eq_true,
      Option.isNone_iff_eq_none] at h
    obtain ⟨⟨⟨⟨⟨⟨⟨⟨h40, h41⟩, hs⟩, h59⟩, h46⟩, hq⟩, hr⟩, hhex⟩, hnum⟩ := h
    refine ⟨c, r, rfl, Or.inr ⟨⟨hs, h59, h40, h41, h46, hq⟩, ?_⟩⟩
    intro K hK
    rw [consumeAtom_token r [c] K ?_ hK (by simp)]
    · simp [atomResult, interpretAtomValue, hhex, hnum]
    · intro x hx
      have := hr x hx
      exact ⟨this.1.1, this.1.2, this.2⟩

-- keyword table ------------------------------------------------------------------------------------

theorem lookupLast_mem {α} (key : Bytes) (l : List (Bytes × α)) (v : α) (h : KwTables.lookupLast key l = some v) :
    (key, v) ∈ l := by
  induction l with
  | nil => simp [KwTables.lookupLast] at h
  | cons p r ih =>
    obtain ⟨k, w⟩ := p
    simp only [KwTables.lookupLast] at h
    split at h
    · rename_i x hx
      cases h
      exact List.mem_cons_of_mem _ (ih hx)
    · split at h
      · rename_i hk
        cases h
        have : k = key := by simpa using hk
        subst this; simp
      · cases h

/-- every keyword name is a good symbol and the LATEST to-atom table maps it back to its atom -/
theorem kw_table_inverse :
    KwTables.kwPairs.all (fun p => goodSymbol p.2.1 && symbolAtom p.2.1 == p.1) = true := by
  decide

theorem kw_inverse (ver : Nat) (atom kw : Bytes) (h : KwTables.keywordFromAtom ver atom = some kw) :
    goodSymbol kw = true ∧ symbolAtom kw = atom := by
  have hm := lookupLast_mem atom _ kw h
  simp only [KwTables.fromAtomTable, List.mem_map, List.mem_filter] at hm
  obtain ⟨p, ⟨hp, _⟩, he⟩ := hm
  have := List.all_eq_true.mp kw_table_inverse p hp
  simp only [Bool.and_eq_true, beq_iff_eq] at this
  cases he
  exact this

-- IR level -------------------------------------------------------------------------------------

/-- leaves the reader reads back exactly -/
def GoodLeaf (fr : Bool) : IR → Prop
  | .quotes b => ∀ c ∈ b, PlainQ fr c
  | .int b s => s = true ∧ Bytes.shortCanonical b = true
  | .hex h => h ≠ []
  | .symbol s => goodSymbol s = true
  | .null => True
  | .cons _ _ => True

def GoodIR (fr : Bool) : IR → Prop
  | .cons a d => GoodIR fr a ∧ GoodIR fr d
  | x => GoodLeaf fr x

/-- the printed-token tree of an IR value -/
def ofIR (fr : Bool) : IR → TT IR
  | .cons a d => .cons (ofIR fr a) (ofIR fr d)
  | .null => .nil
  | .quotes q => .leaf (writeAtomWith fr (.quotes q)) (.quotes q)
  | .int i s => .leaf (writeAtomWith fr (.int i s)) (.int i s)
  | .hex h => .leaf (writeAtomWith fr (.hex h)) (.hex h)
  | .symbol s => .leaf (writeAtomWith fr (.symbol s)) (.symbol s)

theorem ofIR_text (fr : Bool) (ir : IR) :
    TT.start (ofIR fr ir) = writeStartWith fr ir ∧ TT.rest (ofIR fr ir) = writeRestWith fr ir := by
  induction ir with
  | cons a d iha ihd => simp [ofIR, TT.start, TT.rest, writeStartWith, writeRestWith, iha.1, ihd.2]
  | null => simp [ofIR, TT.start, TT.rest, writeStartWith, writeRestWith, writeAtomWith]
  | quotes q => simp [ofIR, TT.start, TT.rest, writeStartWith, writeRestWith]
  | int i s => simp [ofIR, TT.start, TT.rest, writeStartWith, writeRestWith]
  | hex h => simp [ofIR, TT.start, TT.rest, writeStartWith, writeRestWith]
  | symbol s => simp [ofIR, TT.start, TT.rest, writeStartWith, writeRestWith]

theorem ofIR_toIR (fr : Bool) (ir : IR) : TT.toIR (ofIR fr ir) = ir := by
  induction ir with
  | cons a d iha ihd => simp [ofIR, TT.toIR, iha, ihd]
  | _ => simp [ofIR, TT.toIR]

theorem goodLeaf_leafOK (fr : Bool) (x : IR) (h : GoodLeaf fr x) (hc : ∀ a d, x ≠ .cons a d) (hn : x ≠ .null) :
    LeafOK (writeAtomWith fr x) x := by
  cases x with
  | cons a d => exact absurd rfl (hc a d)
  | null => exact absurd rfl hn
  | quotes b => exact leafOK_quotes fr b h
  | int b s =>
    obtain ⟨rfl, hb⟩ := h
    have := leafOK_dec (Bytes.toInt b)
    rw [Bytes.ofIntClvm_toInt_short b hb] at this
    simpa [writeAtomWith, intOfBytes] using this
  | hex b => exact leafOK_hex b h
  | symbol s => exact leafOK_symbol s h

theorem goodIR_allLeaves (fr : Bool) (ir : IR) (h : GoodIR fr ir) : TT.AllLeaves LeafOK (ofIR fr ir) := by
  induction ir with
  | cons a d iha ihd => exact ⟨iha h.1, ihd h.2⟩
  | null => trivial
  | quotes q => exact goodLeaf_leafOK fr _ h (by intros; simp) (by simp)
  | int i s => exact goodLeaf_leafOK fr _ h (by intros; simp) (by simp)
  | hex b => exact goodLeaf_leafOK fr _ h (by intros; simp) (by simp)
  | symbol s => exact goodLeaf_leafOK fr _ h (by intros; simp) (by simp)

/-- TREE level for the classic writer/reader pair on IR values -/
theorem readIR_writeIR (fr : Bool) (ir : IR) (h : GoodIR fr ir) : readIR (writeIRWith fr ir) = .ok ir := by
  have := readIR_tree (ofIR fr ir) (goodIR_allLeaves fr ir h)
  rwa [(ofIR_text fr ir).1, ofIR_toIR] at this

-- disassembly -----------------------------------------------------------------------------------

theorem printable_plain {fr : Bool} {c : UInt8} (h : isPrintableByte c = true) (h92 : fr = false → c ≠ 92) :
    PlainQ fr c := by
  simp only [isPrintableByte, Bool.and_eq_true, decide_eq_true_eq, bne_iff_ne, ne_eq] at h
  exact ⟨h.2, h.1.1, h.1.2, h92⟩

theorem shortCanonical_of_test (b : Bytes) (hl : b.length ≠ 0) (hl2 : ¬ b.length > 2)
    (h : (b != [0] && !hasOversizedSignExtension b) = true) : Bytes.shortCanonical b = true := by
  match b, hl, hl2, h with
  | [x], _, _, h =>
    simp only [hasOversizedSignExtension, Bool.and_eq_true, bne_iff_ne, ne_eq, List.cons.injEq, and_true,
      Bool.not_eq_true', beq_eq_false_iff_ne] at h
    simp [Bytes.shortCanonical, h.2]
  | [x, y], _, _, h =>
    simp only [hasOversizedSignExtension, Bool.and_eq_true, Bool.not_eq_true'] at h
    have h2 := h.2
    simp only [Bytes.shortCanonical]
    split at h2
    · rename_i hx; simp only [hx, if_true]; simpa using h2
    · rename_i hx
      simp only [hx]
      split at h2
      · rename_i hy; simp only [hy, if_true]; simpa using h2
      · rename_i hy; simp [hy]
  | _ :: _ :: _ :: _, _, hl2, _ => simp at hl2

theorem irForAtom_good (fr : Bool) (ver : Nat) (b : Bytes) (allow : Bool) (h : fr = false → backslashQuoted b = false) :
    GoodIR fr (irForAtom ver b allow) ∧ assembleFromIR (irForAtom ver b allow) = .atom b := by
  unfold irForAtom
  split
  · rename_i h0
    have : b = [] := by cases b <;> simp_all
    subst this; exact ⟨trivial, rfl⟩
  · rename_i h0
    split
    · rename_i h2
      split
      · rename_i hp
        refine ⟨?_, rfl⟩
        intro c hc
        have hpc : isPrintableByte c = true := by
          simp only [isPrintableString, List.all_eq_true] at hp; exact hp c hc
        apply printable_plain hpc
        intro hfr e; subst e
        have h := h hfr
        simp only [backslashQuoted, Bool.and_eq_false_iff, decide_eq_false_iff_not] at h
        rcases h with (h | h) | h
        · exact h h2
        · rw [hp] at h; cases h
        · have : b.contains 92 = true := by simpa using hc
          rw [this] at h; cases h
      · refine ⟨?_, rfl⟩
        show b ≠ []
        intro e; subst e; simp at h2
    · rename_i h2
      split
      · rename_i kw hk
        have hk' : KwTables.keywordFromAtom ver b = some kw := by
          unfold kwFor at hk
          split at hk
          · exact hk
          · cases hk
        obtain ⟨g, e⟩ := kw_inverse ver b kw hk'
        exact ⟨g, by simp [assembleFromIR, e]⟩
      · split
        · rename_i ht
          have h0' : b.length ≠ 0 := by simpa using h0
          exact ⟨⟨rfl, shortCanonical_of_test b h0' h2 ht⟩, rfl⟩
        · refine ⟨?_, rfl⟩
          show b ≠ []
          intro e; subst e; simp at h0

theorem disToIR_good (fr : Bool) (ver : Nat) (v : Val) (allow : Bool) (h : fr = false → noBackslashQuoted v = true) :
    GoodIR fr (disToIR ver v allow) ∧ assembleFromIR (disToIR ver v allow) = v := by
  induction v generalizing allow with
  | atom b =>
    refine irForAtom_good fr ver b allow (fun hfr => ?_)
    have := h hfr
    simpa [noBackslashQuoted] using this
  | pair a d iha ihd =>
    have h1 : fr = false → noBackslashQuoted a = true := fun hfr => by
      have := h hfr; simp only [noBackslashQuoted, Bool.and_eq_true] at this; exact this.1
    have h2 : fr = false → noBackslashQuoted d = true := fun hfr => by
      have := h hfr; simp only [noBackslashQuoted, Bool.and_eq_true] at this; exact this.2
    obtain ⟨ga, ea⟩ := iha (allow || a.isPair) h1
    obtain ⟨gd, ed⟩ := ihd false h2
    exact ⟨⟨ga, gd⟩, by simp [disToIR, assembleFromIR, ea, ed]⟩

/-- classic round trip, for either setting of the writer's `full_repr`: with `false` (code as it is)
    for every value without a defect-class atom, with `true` (the repair) for every value -/
theorem assemble_disassembleWith (fr : Bool) (ver : Nat) (v : Val) (h : fr = false → noBackslashQuoted v = true) :
    assemble (disassembleWith fr ver v) = .ok v := by
  obtain ⟨g, e⟩ := disToIR_good fr ver v v.isPair h
  simp [assemble, disassembleWith, readIR_writeIR fr _ g, e]

/-- classic round trip of the code as it is, for every value without a defect-class atom -/
theorem assemble_disassemble (ver : Nat) (v : Val) (h : noBackslashQuoted v = true) :
    assemble (disassemble ver v) = .ok v :=
  assemble_disassembleWith codeFullRepr ver v (fun _ => h)

end IR
