/-
  Proofs/NodePathSigned.lean — what `NodePath::new(number_from_u8(b))` is for an atom `b` with
  the top bit set, in closed form, and exactly when it is the path clvmr traverses
  (sharp characterisation of the remaining finding C04-signed-noncanonical-path; the paths
  `2^k` of `first` chains of every depth are on the good side).
  Self-contained on purpose (imports only NodePathLemmas): it is loaded by Props/C03 and
  Props/C04, whose import closures contain different byte-lemma files.
-/
import ChialispModel.Proofs.NodePathLemmas

namespace NodePath
open Bytes

-- `negWidth` -------------------------------------------------------------------------------

theorem nw_go_succ (m fuel k : Nat) :
    negWidth.go m (fuel + 1) k = if m ≤ 2 ^ (8 * k - 1) then k else negWidth.go m fuel (k + 1) := rfl

theorem nw_go_zero (m k : Nat) : negWidth.go m 0 k = k := rfl

theorem nw_go_ge (m : Nat) : ∀ fuel k, k ≤ negWidth.go m fuel k := by
  intro fuel
  induction fuel with
  | zero => intro k; rw [nw_go_zero]; exact Nat.le_refl _
  | succ f ih =>
    intro k
    rw [nw_go_succ]
    split
    · exact Nat.le_refl _
    · exact Nat.le_trans (Nat.le_succ k) (ih (k + 1))

/-- the search stops at the latest at any width that is enough. -/
theorem nw_go_le (m K : Nat) (hK : m ≤ 2 ^ (8 * K - 1)) : ∀ fuel k, k ≤ K → negWidth.go m fuel k ≤ K := by
  intro fuel
  induction fuel with
  | zero => intro k hk; rw [nw_go_zero]; exact hk
  | succ f ih =>
    intro k hk
    rw [nw_go_succ]
    split
    · exact hk
    · rename_i hn
      have : k ≠ K := by intro e; subst e; exact hn hK
      exact ih (k + 1) (by omega)

/-- the search does not stop before a width that is enough. -/
theorem nw_go_eq (m L : Nat) (hle : m ≤ 2 ^ (8 * L - 1)) : ∀ fuel k, k ≤ L → L ≤ k + fuel →
    (∀ j, k ≤ j → j < L → ¬ m ≤ 2 ^ (8 * j - 1)) → negWidth.go m fuel k = L := by
  intro fuel
  induction fuel with
  | zero => intro k hk hf _; rw [nw_go_zero]; omega
  | succ f ih =>
    intro k hk hf hgt
    rw [nw_go_succ]
    by_cases e : k = L
    · subst e; rw [if_pos hle]
    · rw [if_neg (hgt k (Nat.le_refl _) (by omega))]
      exact ih (k + 1) (by omega) (by omega) (fun j hj hjl => hgt j (by omega) hjl)

theorem negWidth_pos' (m : Nat) : 1 ≤ negWidth m := nw_go_ge m (m + 1) 1

theorem negWidth_le {m K : Nat} (hK1 : 1 ≤ K) (hK : m ≤ 2 ^ (8 * K - 1)) : negWidth m ≤ K :=
  nw_go_le m K hK (m + 1) 1 hK1

/-- `negWidth m = L` as soon as `L` bytes are enough and `L - 1` are not. -/
theorem negWidth_eq {m L : Nat} (hL : 1 ≤ L) (hle : m ≤ 2 ^ (8 * L - 1))
    (hgt : L = 1 ∨ 2 ^ (8 * (L - 1) - 1) < m) : negWidth m = L := by
  unfold negWidth
  apply nw_go_eq m L hle (m + 1) 1 hL
  · by_cases hL1 : L = 1
    · omega
    · rcases hgt with h | h
      · omega
      · have h1 : L - 1 < 2 ^ (L - 1) := Nat.lt_two_pow_self
        have h2 : 2 ^ (L - 1) ≤ 2 ^ (8 * (L - 1) - 1) :=
          Nat.pow_le_pow_right (by decide) (by omega)
        omega
  · intro j hj hjl hm
    rcases hgt with h | h
    · omega
    · have : 2 ^ (8 * j - 1) ≤ 2 ^ (8 * (L - 1) - 1) := Nat.pow_le_pow_right (by decide) (by omega)
      omega

theorem negWidth_spec' (m : Nat) : m ≤ 2 ^ (8 * negWidth m - 1) := by
  have h1 : m < 2 ^ m := Nat.lt_two_pow_self
  have h2 : 2 ^ m ≤ 2 ^ (8 * (m + 1) - 1) := Nat.pow_le_pow_right (by decide) (by omega)
  have hK : m ≤ 2 ^ (8 * (m + 1) - 1) := by omega
  -- the least width that is enough
  have hex : ∃ K, 1 ≤ K ∧ m ≤ 2 ^ (8 * K - 1) := ⟨m + 1, by omega, hK⟩
  -- take the value the search returns and show it is enough, by strong descent on a bound
  have key : ∀ fuel k, (∃ K, k ≤ K ∧ K ≤ k + fuel ∧ m ≤ 2 ^ (8 * K - 1)) →
      m ≤ 2 ^ (8 * negWidth.go m fuel k - 1) := by
    intro fuel
    induction fuel with
    | zero =>
      intro k ⟨K, h1, h2, h3⟩
      rw [nw_go_zero]
      have : K = k := by omega
      subst this; exact h3
    | succ f ih =>
      intro k ⟨K, h1, h2, h3⟩
      rw [nw_go_succ]
      split
      · assumption
      · rename_i hn
        have : k ≠ K := by intro e; subst e; exact hn h3
        exact ih (k + 1) ⟨K, by omega, by omega, h3⟩
  exact key (m + 1) 1 ⟨m + 1, by omega, by omega, hK⟩

-- `ofNatWidth` ------------------------------------------------------------------------------

theorem toNatBE_ofNatWidth' (k n : Nat) : toNatBE (ofNatWidth k n) = n % 256 ^ k := by
  induction k generalizing n with
  | zero => simp [ofNatWidth, toNatBE, Nat.mod_one]
  | succ k ih =>
    simp only [ofNatWidth]
    rw [BytesAlg.toNatBE_append_one, ih]
    have e : (UInt8.ofNat (n % 256)).toNat = n % 256 := by
      simp only [UInt8.toNat_ofNat']; omega
    rw [e, Nat.pow_succ, Nat.mul_comm (256 ^ k) 256, Nat.mod_mul]
    omega

theorem pow256_eq (w : Nat) : 256 ^ w = 2 ^ (8 * w) := by
  rw [show (256 : Nat) = 2 ^ 8 by rfl, ← Nat.pow_mul]

theorem pow256_half {w : Nat} (hw : 1 ≤ w) : 256 ^ w = 2 * 2 ^ (8 * w - 1) := by
  rw [pow256_eq]
  have : 2 ^ (8 * w - 1 + 1) = 2 ^ (8 * w - 1) * 2 := Nat.pow_succ _ _
  rw [show 8 * w - 1 + 1 = 8 * w by omega] at this
  omega

-- `NodePath::new` of a negative index, closed form ------------------------------------------

/-- `NodePath::new(-m)` for `m ≥ 1` is `256^w − m`, `w` the minimal two's-complement width of `−m`. -/
theorem new_negSucc (j : Nat) : new (Int.negSucc j) = 256 ^ negWidth (j + 1) - (j + 1) := by
  rw [new_neg (Int.negSucc_lt_zero j)]
  have h0 : Bytes.ofIntClvm (Int.negSucc j) = Bytes.ofInt (Int.negSucc j) := by
    unfold Bytes.ofIntClvm
    rw [if_neg (by exact Int.negSucc_ne_zero j)]
  rw [h0]
  show toNatBE (ofNatWidth (negWidth (j + 1)) (256 ^ negWidth (j + 1) - (j + 1))) = _
  rw [toNatBE_ofNatWidth']
  have hs := negWidth_spec' (j + 1)
  have hp := pow256_half (negWidth_pos' (j + 1))
  exact Nat.mod_eq_of_lt (by omega)

/-- signed reading of an atom whose first byte has the top bit set. -/
theorem toInt_topbit (x : UInt8) (r : Bytes) (hx : 128 ≤ x.toNat) :
    Bytes.toInt (x :: r) = Int.negSucc (256 ^ (r.length + 1) - toNatBE (x :: r) - 1) := by
  have hlt := BytesAlg.toNatBE_lt (x :: r)
  simp only [List.length_cons] at hlt
  simp only [Bytes.toInt, List.length_cons]
  rw [if_pos hx, Int.negSucc_eq]
  omega

theorem topbit_ge (x : UInt8) (r : Bytes) (hx : 128 ≤ x.toNat) :
    128 * 256 ^ r.length ≤ toNatBE (x :: r) := by
  rw [toNatBE_cons]
  have := Nat.mul_le_mul_right (256 ^ r.length) hx
  omega

/-- **closed form**: for an atom `b = x :: r` with the top bit set, of unsigned value `n` and
    length `L`, `NodePath::new(number_from_u8(b)) = 256^w − (256^L − n)` with `w` the minimal
    width of `n − 256^L`. -/
theorem new_toInt_topbit (x : UInt8) (r : Bytes) (hx : 128 ≤ x.toNat) :
    new (Bytes.toInt (x :: r))
      = 256 ^ negWidth (256 ^ (r.length + 1) - toNatBE (x :: r)) - (256 ^ (r.length + 1) - toNatBE (x :: r)) := by
  have hlt := BytesAlg.toNatBE_lt (x :: r)
  simp only [List.length_cons] at hlt
  rw [toInt_topbit x r hx, new_negSucc]
  have : 256 ^ (r.length + 1) - toNatBE (x :: r) - 1 + 1 = 256 ^ (r.length + 1) - toNatBE (x :: r) := by omega
  rw [this]

/-- **exactly when a top-bit atom keeps its path**: a single byte always does; a longer atom
    does iff its first NINE bits are not all ones (`n < 256^L − 2^(8L−9)`), i.e. iff it is not a
    sign-extended encoding. -/
theorem new_toInt_topbit_eq_iff (x : UInt8) (r : Bytes) (hx : 128 ≤ x.toNat) :
    new (Bytes.toInt (x :: r)) = toNatBE (x :: r)
      ↔ (r = [] ∨ toNatBE (x :: r) + 2 ^ (8 * r.length - 1) < 256 ^ (r.length + 1)) := by
  have hlt := BytesAlg.toNatBE_lt (x :: r)
  simp only [List.length_cons] at hlt
  have hge := topbit_ge x r hx
  have hhalf := pow256_half (w := r.length + 1) (by omega)
  have h8 : 8 * (r.length + 1) - 1 = 8 * r.length + 7 := by omega
  have h27 : 2 ^ (8 * r.length + 7) = 128 * 256 ^ r.length := by
    rw [pow256_eq, Nat.pow_add]; omega
  rw [h8] at hhalf
  rw [new_toInt_topbit x r hx]
  generalize hn : toNatBE (x :: r) = n at *
  generalize hP : 256 ^ (r.length + 1) = P at *
  have hmle : P - n ≤ 2 ^ (8 * (r.length + 1) - 1) := by rw [h8]; omega
  constructor
  · intro heq
    cases r with
    | nil => exact Or.inl rfl
    | cons y t =>
      right
      apply Classical.byContradiction
      intro hnot
      -- then one byte less is enough, so w ≤ L − 1 and 256^w − m < n
      have hsmall : P - n ≤ 2 ^ (8 * (y :: t).length - 1) := by omega
      have hw : negWidth (P - n) ≤ (y :: t).length :=
        negWidth_le (by simp) hsmall
      have hpw : 256 ^ negWidth (P - n) ≤ 256 ^ (y :: t).length := Nat.pow_le_pow_right (by decide) hw
      have hPP : P = 256 * 256 ^ (y :: t).length := by rw [← hP, Nat.pow_succ]; omega
      omega
  · intro hok
    have hw : negWidth (P - n) = r.length + 1 := by
      apply negWidth_eq (by omega) hmle
      rcases hok with h | h
      · left; subst h; rfl
      · right
        have : 8 * (r.length + 1 - 1) - 1 = 8 * r.length - 1 := by omega
        rw [this]; omega
    rw [hw, hP]; omega

/-- the `⇐` direction in the form the users need. -/
theorem new_toInt_topbit_ok (x : UInt8) (r : Bytes) (hx : 128 ≤ x.toNat)
    (h : r = [] ∨ toNatBE (x :: r) + 2 ^ (8 * r.length - 1) < 256 ^ (r.length + 1)) :
    new (Bytes.toInt (x :: r)) = toNatBE (x :: r) :=
  (new_toInt_topbit_eq_iff x r hx).mpr h

/-- an atom whose first byte is below 0x80 reads non-negative. -/
theorem toInt_nonneg_of_small (x : UInt8) (r : Bytes) (hx : x.toNat < 128) : 0 ≤ Bytes.toInt (x :: r) := by
  simp only [Bytes.toInt]
  rw [if_neg (by omega)]
  omega

/-- **the path `2^k` (a `first` chain of depth `k`) survives `as_path` → `number_from_u8` →
    `NodePath::new`, for every `k`** — also when `as_path` writes `0x80 00 … 00`
    (`k ≡ 7 mod 8`), which reads as `−2^k`. -/
theorem new_asPath_two_pow (k : Nat) : new (Bytes.toInt (asPath (2 ^ k))) = 2 ^ k := by
  have hv : toNatBE (asPath (2 ^ k)) = 2 ^ k := BytesAlg.toNatBE_ofNatBE _
  generalize asPath (2 ^ k) = b at hv
  cases b with
  | nil => exact absurd hv (by simp [toNatBE]; exact Nat.ne_of_lt (Nat.two_pow_pos k))
  | cons x r =>
    by_cases hx : x.toNat < 128
    · rw [new_toInt_nonneg (toInt_nonneg_of_small x r hx), hv]
    · have hx' : 128 ≤ x.toNat := by omega
      rw [new_toInt_topbit_ok x r hx', hv]
      cases r with
      | nil => exact Or.inl rfl
      | cons y t =>
        right
        have hlt := BytesAlg.toNatBE_lt (x :: y :: t)
        have hge := topbit_ge x (y :: t) hx'
        rw [hv] at hlt hge ⊢
        have hl : (x :: y :: t).length = (y :: t).length + 1 := rfl
        have hl1 : 1 ≤ (y :: t).length := by simp
        rw [hl] at hlt
        generalize (y :: t).length = l at *
        have e1 : 256 ^ (l + 1) = 2 ^ (8 * l + 8) := by rw [pow256_eq]; congr 1
        have e2 : 128 * 256 ^ l = 2 ^ (8 * l + 7) := by rw [pow256_eq, Nat.pow_add]; omega
        rw [e1] at hlt ⊢
        rw [e2] at hge
        have k1 : k < 8 * l + 8 := (Nat.pow_lt_pow_iff_right (by decide)).mp hlt
        have k2 : 8 * l + 7 ≤ k := (Nat.pow_le_pow_iff_right (by decide)).mp hge
        have hk : k = 8 * l + 7 := by omega
        subst hk
        have a1 : 2 ^ (8 * l + 7) = 2 ^ (8 * l - 1) * 2 ^ 8 := by rw [← Nat.pow_add]; congr 1; omega
        have a2 : 2 ^ (8 * l + 8) = 2 ^ (8 * l - 1) * 2 ^ 9 := by rw [← Nat.pow_add]; congr 1; omega
        have hpos : 0 < 2 ^ (8 * l - 1) := Nat.two_pow_pos _
        omega
end NodePath
