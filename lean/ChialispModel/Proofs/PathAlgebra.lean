/-
  Proofs/PathAlgebra.lean — algebra of environment paths (`Base/Path.lean`): paths as bit lists,
  composition = concatenation, `lookup (compose p q) = lookup p >=> lookup q`, a closed numeric
  form of `compose`, and the byte round trip of unsigned path values.
-/
import ChialispModel.Base.Path
import ChialispModel.Proofs.BytesLemmas

namespace PathAlg
open Path

theorem bitsOfAux_fuel2 : ∀ (f1 f2 p : Nat), p ≤ f1 → p ≤ f2 → bitsOfAux f1 p = bitsOfAux f2 p := by
  intro f1
  induction f1 with
  | zero =>
    intro f2 p h _
    have : p = 0 := by omega
    subst this
    cases f2 <;> simp [bitsOfAux]
  | succ f ih =>
    intro f2 p h h2
    cases f2 with
    | zero =>
      have : p = 0 := by omega
      subst this; simp [bitsOfAux]
    | succ g =>
      simp only [bitsOfAux]
      split
      · rfl
      · rw [ih g (p / 2) (by omega) (by omega)]

theorem bitsOfAux_fuel (fuel p : Nat) (h : p ≤ fuel) : bitsOfAux fuel p = bitsOfAux p p :=
  bitsOfAux_fuel2 fuel p p h (Nat.le_refl _)

theorem bitsOf_zero : bitsOf 0 = [] := rfl
theorem bitsOf_one : bitsOf 1 = [] := by simp [bitsOf, bitsOfAux]

theorem bitsOf_step {p : Nat} (hp : 2 ≤ p) : bitsOf p = (p % 2 == 1) :: bitsOf (p / 2) := by
  unfold bitsOf
  cases p with
  | zero => omega
  | succ p =>
    simp only [bitsOfAux]
    rw [if_neg (by omega), bitsOfAux_fuel p ((p + 1) / 2) (by omega)]

theorem ofBits_pos (l : List Bool) : 1 ≤ ofBits l := by
  induction l with
  | nil => simp [ofBits]
  | cons b r ih => simp only [ofBits]; omega

theorem bitsOf_ofBits (l : List Bool) : bitsOf (ofBits l) = l := by
  induction l with
  | nil => simp [ofBits, bitsOf_one]
  | cons b r ih =>
    have hp := ofBits_pos r
    rw [bitsOf_step (by simp only [ofBits]; omega)]
    simp only [ofBits]
    cases b
    · have h1 : (2 * ofBits r + 0) % 2 = 0 := by omega
      have h2 : (2 * ofBits r + 0) / 2 = ofBits r := by omega
      simp [h1, h2, ih]
    · have h1 : (2 * ofBits r + 1) % 2 = 1 := by omega
      have h2 : (2 * ofBits r + 1) / 2 = ofBits r := by omega
      simp [h1, h2, ih]

theorem ofBits_bitsOf : ∀ (fuel p : Nat), p ≤ fuel → 1 ≤ p → ofBits (bitsOf p) = p := by
  intro fuel
  induction fuel with
  | zero => intro p h h1; omega
  | succ f ih =>
    intro p h h1
    by_cases hp : p = 1
    · subst hp; simp [bitsOf_one, ofBits]
    · rw [bitsOf_step (by omega)]
      simp only [ofBits]
      rw [ih (p / 2) (by omega) (by omega)]
      by_cases hb : p % 2 = 1
      · simp [hb]; omega
      · have : p % 2 = 0 := by omega
        simp [this]; omega

theorem ofBits_bitsOf' {p : Nat} (hp : 1 ≤ p) : ofBits (bitsOf p) = p :=
  ofBits_bitsOf p p (Nat.le_refl _) hp

theorem walk_append (p q : List Bool) (v : Val) : walk (p ++ q) v = walk p v >>= walk q := by
  induction p generalizing v with
  | nil => simp [walk]; rfl
  | cons b r ih =>
    cases v with
    | atom a => simp [walk, failR]; rfl
    | pair a d => simp only [List.cons_append, walk]; exact ih _

theorem compose_pos (p q : Nat) : 1 ≤ compose p q := ofBits_pos _

/-- composition of paths is concatenation of their walks. -/
theorem bitsOf_compose (p q : Nat) : bitsOf (compose p q) = bitsOf p ++ bitsOf q :=
  bitsOf_ofBits _

/-- **path composition**: first follow `p`, then `q`. -/
theorem lookup_compose {p q : Nat} (hp : 1 ≤ p) (hq : 1 ≤ q) (v : Val) :
    lookupNat (compose p q) v = lookupNat p v >>= lookupNat q := by
  have hc := compose_pos p q
  unfold lookupNat
  rw [if_neg (by omega), if_neg (by omega), bitsOf_compose, walk_append]
  congr 1
  funext w
  rw [if_neg (by omega)]

-- numeric form ---------------------------------------------------------------------------

/-- value of the bits below the top one. -/
def valBits : List Bool → Nat
  | [] => 0
  | b :: r => 2 * valBits r + (if b then 1 else 0)

theorem valBits_lt (l : List Bool) : valBits l < 2 ^ l.length := by
  induction l with
  | nil => simp [valBits]
  | cons b r ih =>
    simp only [valBits, List.length_cons, Nat.pow_succ]
    cases b <;> simp <;> omega

theorem ofBits_eq (l : List Bool) : ofBits l = 2 ^ l.length + valBits l := by
  induction l with
  | nil => simp [ofBits, valBits]
  | cons b r ih =>
    simp only [ofBits, valBits, List.length_cons, Nat.pow_succ, ih]
    omega

theorem ofBits_append (l m : List Bool) : ofBits (l ++ m) = ofBits m * 2 ^ l.length + valBits l := by
  induction l with
  | nil => simp [valBits]
  | cons b r ih =>
    simp only [List.cons_append, ofBits, valBits, List.length_cons, Nat.pow_succ, ih]
    have : ofBits m * (2 ^ r.length * 2) = 2 * (ofBits m * 2 ^ r.length) := by
      rw [Nat.mul_comm (2 ^ r.length) 2, ← Nat.mul_assoc, Nat.mul_comm (ofBits m) 2, Nat.mul_assoc]
    omega

/-- number of steps of a path. -/
def depth (p : Nat) : Nat := (bitsOf p).length

theorem mod_pow_depth {p : Nat} (hp : 1 ≤ p) : p % 2 ^ depth p = valBits (bitsOf p) := by
  have h := ofBits_eq (bitsOf p)
  rw [ofBits_bitsOf' hp] at h
  have hl := valBits_lt (bitsOf p)
  unfold depth
  generalize 2 ^ (bitsOf p).length = m at h hl
  generalize valBits (bitsOf p) = w at h hl
  subst h
  rw [Nat.add_mod_left, Nat.mod_eq_of_lt hl]

/-- closed form of composition: shift `q` left by the depth of `p`, fill in `p`'s bits. -/
theorem compose_eq {p q : Nat} (hp : 1 ≤ p) (hq : 1 ≤ q) :
    compose p q = q * 2 ^ depth p + p % 2 ^ depth p := by
  unfold compose
  rw [ofBits_append, ofBits_bitsOf' hq, mod_pow_depth hp]; rfl

theorem compose_zero_left {q : Nat} (hq : 1 ≤ q) : compose 0 q = q := by
  unfold compose; rw [bitsOf_zero, List.nil_append, ofBits_bitsOf' hq]

theorem depth_step {p : Nat} (hp : 2 ≤ p) : depth p = depth (p / 2) + 1 := by
  unfold depth; rw [bitsOf_step hp]; simp

theorem depth_le_one {p : Nat} (hp : p ≤ 1) : depth p = 0 := by
  unfold depth
  have : p = 0 ∨ p = 1 := by omega
  rcases this with rfl | rfl
  · rfl
  · rw [bitsOf_one]; rfl

/-- `(f p)` and `(r p)` as paths. -/
theorem lookup_first {p : Nat} (hp : 1 ≤ p) (v : Val) :
    lookupNat (compose p 2) v = lookupNat p v >>= lookupNat 2 := lookup_compose hp (by omega) v
theorem lookup_rest {p : Nat} (hp : 1 ≤ p) (v : Val) :
    lookupNat (compose p 3) v = lookupNat p v >>= lookupNat 3 := lookup_compose hp (by omega) v

theorem lookupNat_one (v : Val) : lookupNat 1 v = .ok v := by
  simp [lookupNat, bitsOf_one, walk]

theorem lookupNat_two (v : Val) :
    lookupNat 2 v = match v with | .pair a _ => .ok a | .atom _ => failR "path into atom" := by
  have : bitsOf 2 = [false] := by rw [bitsOf_step (by omega)]; simp [bitsOf_one]
  cases v <;> simp [lookupNat, this, walk]

theorem lookupNat_three (v : Val) :
    lookupNat 3 v = match v with | .pair _ d => .ok d | .atom _ => failR "path into atom" := by
  have : bitsOf 3 = [true] := by rw [bitsOf_step (by omega)]; simp [bitsOf_one]
  cases v <;> simp [lookupNat, this, walk]

theorem lookupNat_step {p : Nat} (hp : 2 ≤ p) (a d : Val) :
    lookupNat p (.pair a d) = lookupNat (p / 2) (if p % 2 = 1 then d else a) := by
  unfold lookupNat
  rw [if_neg (by omega), if_neg (by omega), bitsOf_step hp]
  simp only [walk]
  by_cases h : p % 2 = 1 <;> simp [h]

theorem lookupNat_atom {p : Nat} (hp : 2 ≤ p) (b : Bytes) (v : Val) :
    lookupNat p (.atom b) ≠ .ok v := by
  unfold lookupNat
  rw [if_neg (by omega), bitsOf_step hp]
  simp [walk, failR]

end PathAlg

namespace BytesAlg
open Bytes

theorem toNatBE_append_one (l : Bytes) (x : UInt8) : toNatBE (l ++ [x]) = toNatBE l * 256 + x.toNat := by
  simp [toNatBE, List.foldl_append]

theorem toNatBE_ofNatBEAux : ∀ (fuel n : Nat), n ≤ fuel → toNatBE (ofNatBEAux fuel n) = n := by
  intro fuel
  induction fuel with
  | zero => intro n h; have : n = 0 := by omega
            subst this; rfl
  | succ f ih =>
    intro n h
    simp only [ofNatBEAux]
    split
    · rename_i h0; subst h0; rfl
    · rename_i h0
      rw [toNatBE_append_one, ih (n / 256) (by omega)]
      have : (UInt8.ofNat (n % 256)).toNat = n % 256 := by
        simp [UInt8.toNat_ofNat']
      rw [this]; omega

/-- unsigned big-endian round trip (what `as_path` writes is read back by clvmr as the same path). -/
theorem toNatBE_ofNatBE (n : Nat) : toNatBE (ofNatBE n) = n :=
  toNatBE_ofNatBEAux n n (Nat.le_refl _)

theorem toNatBE_foldl_lt (l : Bytes) (acc : Nat) :
    l.foldl (fun a x => a * 256 + x.toNat) acc < (acc + 1) * 256 ^ l.length := by
  induction l generalizing acc with
  | nil => simp
  | cons x r ih =>
    simp only [List.foldl_cons, List.length_cons]
    have hx := UInt8.toNat_lt x
    have := ih (acc * 256 + x.toNat)
    have h2 : (acc * 256 + x.toNat + 1) * 256 ^ r.length ≤ (acc + 1) * 256 ^ (r.length + 1) := by
      rw [Nat.pow_succ, Nat.mul_comm (256 ^ r.length) 256, ← Nat.mul_assoc]
      apply Nat.mul_le_mul_right
      omega
    omega

theorem toNatBE_lt (l : Bytes) : toNatBE l < 256 ^ l.length := by
  have := toNatBE_foldl_lt l 0
  simpa [toNatBE] using this

/-- a non-negative signed reading is the unsigned reading. -/
theorem toInt_nonneg_eq {b : Bytes} (h : 0 ≤ toInt b) : toInt b = (toNatBE b : Int) := by
  cases b with
  | nil => simp [toInt, toNatBE]
  | cons x r =>
    simp only [toInt] at h ⊢
    split
    · rename_i hx
      rw [if_pos hx] at h
      have := toNatBE_lt (x :: r)
      omega
    · rfl

end BytesAlg
