/-
  Proofs/Core2Pat.lean — parameter patterns as the inline machinery reads them:
  `pick` (`pick_value_from_arg_element`), `argLookup` (`arg_lookup`) and `letEnv`
  (`create_let_env_expression`) select / rebuild exactly what source-level destructuring
  (`Lang.bindPat`, addressed by `Lang.nameLookup` paths) binds.
-/
import ChialispModel.Lang.Core2
import ChialispModel.Proofs.Core2Eval
namespace Core2
open Lang
open Core (OpsCore paramValue toVal_ofVal)

theorem lookupNat_atom_le (p : Nat) (b : Bytes) (w : Val) (h : Path.lookupNat p (.atom b) = .ok w) : p ≤ 1 := by
  by_cases hp : p ≤ 1
  · exact hp
  · exfalso
    have h2 : p = 2 * (p / 2) ∨ p = 2 * (p / 2) + 1 := by omega
    have hq : 1 ≤ p / 2 := by omega
    rcases h2 with h2 | h2
    · rw [h2] at h
      have h1 : 2 * (p / 2) ≠ 0 := by omega
      simp [Path.lookupNat, h1, Path.bitsOf_double _ hq, Path.walk, failR] at h
    · rw [h2] at h
      simp [Path.lookupNat, Path.bitsOf_double_succ _ hq, Path.walk, failR] at h

theorem lookupNat_double_inv (q : Nat) (hq : 1 ≤ q) (V w : Val) (h : Path.lookupNat (2 * q) V = .ok w) :
    ∃ x y, V = .pair x y ∧ Path.lookupNat q x = .ok w := by
  cases V with
  | atom b => have := lookupNat_atom_le _ _ _ h; omega
  | pair x y => exact ⟨x, y, rfl, by rw [Path.lookupNat_left q hq] at h; exact h⟩

theorem lookupNat_double_succ_inv (q : Nat) (hq : 1 ≤ q) (V w : Val) (h : Path.lookupNat (2 * q + 1) V = .ok w) :
    ∃ x y, V = .pair x y ∧ Path.lookupNat q y = .ok w := by
  cases V with
  | atom b => have := lookupNat_atom_le _ _ _ h; omega
  | pair x y => exact ⟨x, y, rfl, by rw [Path.lookupNat_right q hq] at h; exact h⟩

theorem ipatOk_cons (a d : Rich)
    (hne : ∀ (cap : Bytes) (sub : Rich), a = Rich.atom [64] → d = (Rich.atom cap).cons (sub.cons Rich.nil) → False) :
    ipatOk (a.cons d) = (ipatOk a && ipatOk d && (patHasNames a || patHasNames d)) := by
  rw [ipatOk] <;> first | rfl | exact hne

theorem pick_cons (name : Bytes) (a d : Rich) (cur : Expr)
    (hne : ∀ (cap : Bytes) (sub : Rich), a = Rich.atom [64] → d = (Rich.atom cap).cons (sub.cons Rich.nil) → False) :
    pick name (a.cons d) cur =
      (match pick name a (.op 5 (.cons cur .nil)) with
       | some x => some x
       | none => pick name d (.op 6 (.cons cur .nil))) := by
  rw [pick] <;> first | rfl | exact hne

theorem patNames_cons (a d : Rich)
    (hne : ∀ (cap : Bytes) (sub : Rich), a = Rich.atom [64] → d = (Rich.atom cap).cons (sub.cons Rich.nil) → False) :
    patNames (a.cons d) = patNames a ++ patNames d := by
  rw [patNames] <;> first | rfl | exact hne

theorem nameLookup_mem (name : Bytes) : ∀ pat : Rich, ipatOk pat = true → ∀ p, nameLookup name pat = some p →
    name ∈ patNames pat := by
  intro pat
  induction pat using ipatOk.induct with
  | case1 => intro _ p h; simp [nameLookup] at h
  | case2 b =>
    intro hok p h
    simp only [nameLookup] at h
    simp only [ipatOk, Bool.and_eq_true, Bool.not_eq_true'] at hok
    split at h
    · rename_i hb
      have : b = name := by simpa using hb
      subst this
      simp [patNames, hok.1]
    · simp at h
  | case3 cap sub ih =>
    intro hok p h
    rw [nameLookup_cap] at h
    simp only [ipatOk, Bool.and_eq_true] at hok
    simp only [patNames]
    split at h
    · rename_i hc
      have : cap = name := by simpa using hc
      simp [this]
    · exact List.mem_cons_of_mem _ (ih hok.2 p h)
  | case4 a d hne iha ihd =>
    intro hok p h
    rw [ipatOk_cons a d hne] at hok
    simp only [Bool.and_eq_true] at hok
    rw [nameLookup_cons name a d hne] at h
    rw [patNames_cons a d hne]
    cases ha : nameLookup name a with
    | some v => exact List.mem_append_left _ (iha hok.1.1 v ha)
    | none =>
      rw [ha] at h
      cases hd : nameLookup name d with
      | some v => exact List.mem_append_right _ (ihd hok.1.2 v hd)
      | none => rw [hd] at h; simp at h
  | case5 t h1 h2 h3 h4 =>
    intro hok
    cases t with
    | nil => exact absurd rfl h1
    | atom b => exact absurd rfl (h2 b)
    | cons a d => exact absurd rfl (h4 a d)
    | int i => simp [ipatOk] at hok
    | qstr q b => simp [ipatOk] at hok

theorem pick_none (name : Bytes) : ∀ pat : Rich, ipatOk pat = true → nameLookup name pat = none →
    ∀ cur, pick name pat cur = none := by
  intro pat
  induction pat using ipatOk.induct with
  | case1 => intro _ _ cur; simp [pick]
  | case2 b =>
    intro _ h cur
    simp only [nameLookup] at h
    simp only [pick]
    split at h
    · simp at h
    · rename_i hb; simp [hb]
  | case3 cap sub ih =>
    intro hok h cur
    rw [nameLookup_cap] at h
    simp only [ipatOk, Bool.and_eq_true] at hok
    rw [pick]
    split at h
    · simp at h
    · rename_i hc
      rw [if_neg hc]
      exact ih hok.2 h cur
  | case4 a d hne iha ihd =>
    intro hok h cur
    rw [ipatOk_cons a d hne] at hok
    simp only [Bool.and_eq_true] at hok
    rw [nameLookup_cons name a d hne] at h
    rw [pick_cons name a d cur hne]
    cases ha : nameLookup name a with
    | some v => rw [ha] at h; simp at h
    | none =>
      rw [ha] at h
      cases hd : nameLookup name d with
      | some v => rw [hd] at h; simp at h
      | none => rw [iha hok.1.1 ha, ihd hok.1.2 hd]
  | case5 t h1 h2 h3 h4 =>
    intro hok
    cases t with
    | nil => exact absurd rfl h1
    | atom b => exact absurd rfl (h2 b)
    | cons a d => exact absurd rfl (h4 a d)
    | int i => simp [ipatOk] at hok
    | qstr q b => simp [ipatOk] at hok

theorem pick_eval {ops : OpSem} (hfr : OpsFR ops) {fns : List FnDef} {tpat : Rich} {targs : Val} (name : Bytes) :
    ∀ pat : Rich, ipatOk pat = true → ∀ (cur : Expr) (V : Val) (p : Nat) (w : Val),
      Ev ops fns tpat targs cur V → nameLookup name pat = some p → Path.lookupNat p V = .ok w →
      ∃ t, pick name pat cur = some t ∧ Ev ops fns tpat targs t w := by
  intro pat
  induction pat using ipatOk.induct with
  | case1 => intro _ cur V p w _ h; simp [nameLookup] at h
  | case2 b =>
    intro _ cur V p w hev h hl
    simp only [nameLookup] at h
    split at h
    · rename_i hb
      simp at h; subst h
      rw [Path.lookupNat_one] at hl
      simp at hl; subst hl
      exact ⟨cur, by simp [pick, hb], hev⟩
    · simp at h
  | case3 cap sub ih =>
    intro hok cur V p w hev h hl
    rw [nameLookup_cap] at h
    simp only [ipatOk, Bool.and_eq_true] at hok
    rw [pick]
    split at h
    · rename_i hc
      simp at h; subst h
      rw [Path.lookupNat_one] at hl
      simp at hl; subst hl
      exact ⟨cur, by rw [if_pos hc], hev⟩
    · rename_i hc
      rw [if_neg hc]
      exact ih hok.2 cur V p w hev h hl
  | case4 a d hne iha ihd =>
    intro hok cur V p w hev h hl
    rw [ipatOk_cons a d hne] at hok
    simp only [Bool.and_eq_true] at hok
    rw [nameLookup_cons name a d hne] at h
    rw [pick_cons name a d cur hne]
    cases ha : nameLookup name a with
    | some v =>
      rw [ha] at h; simp at h; subst h
      obtain ⟨x, y, hV, hx⟩ := lookupNat_double_inv v (nameLookup_pos _ _ _ ha) V w hl
      subst hV
      obtain ⟨t, ht, hevt⟩ := iha hok.1.1 _ x v w (Ev.first hfr hev) ha hx
      exact ⟨t, by rw [ht], hevt⟩
    | none =>
      rw [ha] at h
      cases hd : nameLookup name d with
      | some v =>
        rw [hd] at h; simp at h; subst h
        obtain ⟨x, y, hV, hy⟩ := lookupNat_double_succ_inv v (nameLookup_pos _ _ _ hd) V w hl
        subst hV
        obtain ⟨t, ht, hevt⟩ := ihd hok.1.2 _ y v w (Ev.rest hfr hev) hd hy
        exact ⟨t, by rw [pick_none name a hok.1.1 ha]; exact ht, hevt⟩
      | none => rw [hd] at h; simp at h
  | case5 t h1 h2 h3 h4 =>
    intro hok
    cases t with
    | nil => exact absurd rfl h1
    | atom b => exact absurd rfl (h2 b)
    | cons a d => exact absurd rfl (h4 a d)
    | int i => simp [ipatOk] at hok
    | qstr q b => simp [ipatOk] at hok

/-- a variable that has a value is addressed by a `nameLookup` path selecting that value. -/
theorem paramValue_path (pat : Rich) (hok : patOk pat = true) (args : Val) (ρ : Env)
    (hb : bindPat pat (SV.ofVal args) = some ρ) (n : Bytes) (w : Val)
    (h : paramValue pat args n = some w) :
    ∃ p, nameLookup n pat = some p ∧ Path.lookupNat p args = .ok w := by
  unfold paramValue at h
  rw [hb] at h
  simp only at h
  cases hl : lookupEnv n ρ with
  | none => rw [hl] at h; simp at h
  | some sv =>
    rw [hl] at h
    simp only at h
    cases hq : nameLookup n pat with
    | none =>
      have := nameLookup_none n pat hok hq _ ρ hb
      rw [this] at hl; simp at hl
    | some q =>
      obtain ⟨w', hw1, hw2⟩ := nameLookup_correct n pat hok q hq args ρ hb
      rw [hl] at hw1
      simp only [Option.some.injEq] at hw1
      subst hw1
      rw [toVal_ofVal] at h
      simp only [Option.some.injEq] at h
      subst h
      exact ⟨q, rfl, hw2⟩

section
variable {ops : OpSem} {fns : List FnDef} {tpat : Rich} {targs : Val}

theorem EvArgs.nil_inv {vs : Val} (h : EvArgs ops fns tpat targs .nil vs) : vs = Val.nil := by
  obtain ⟨n, h⟩ := h
  cases n with
  | zero => simp [evalArgs] at h
  | succ n => simp [evalArgs] at h; exact h.symm

theorem EvArgs.cons_inv {e : Expr} {r : Exprs} {vs : Val} (h : EvArgs ops fns tpat targs (.cons e r) vs) :
    ∃ v vr, vs = .pair v vr ∧ Ev ops fns tpat targs e v ∧ EvArgs ops fns tpat targs r vr := by
  obtain ⟨n, h⟩ := h
  cases n with
  | zero => simp [evalArgs] at h
  | succ n =>
    rw [evalArgs] at h
    cases h1 : eval ops fns n tpat targs e with
    | error er => rw [h1] at h; simp at h
    | ok v1 =>
      rw [h1] at h
      simp only at h
      cases h2 : evalArgs ops fns n tpat targs r with
      | error er => rw [h2] at h; simp at h
      | ok v2 =>
        rw [h2] at h; simp at h
        exact ⟨v1, v2, h.symm, ⟨n, h1⟩, ⟨n, h2⟩⟩

theorem enlist_eval (hc : OpsCore ops) : ∀ (as : Exprs) (vs : Val), EvArgs ops fns tpat targs as vs →
    Ev ops fns tpat targs (enlist as) vs
  | .nil, vs, h => by rw [EvArgs.nil_inv h]; exact Ev.lit _
  | .cons a r, vs, h => by
    obtain ⟨v, vr, hvs, h1, h2⟩ := EvArgs.cons_inv h
    subst hvs
    exact Ev.cons4 hc h1 (enlist_eval hc r vr h2)
end

theorem spineOk_hne (a d : Rich) (h : spineOk (a.cons d) = true) :
    ∀ (cap : Bytes) (sub : Rich), a = Rich.atom [64] → d = (Rich.atom cap).cons (sub.cons Rich.nil) → False := by
  intro cap sub ha hd
  subst ha; subst hd
  simp [spineOk] at h

theorem spineOk_tail (a d : Rich) (h : spineOk (a.cons d) = true) : spineOk d = true := by
  have hne := spineOk_hne a d h
  rw [spineOk] at h
  · exact h
  · exact hne

section
variable {ops : OpSem} {fns : List FnDef} {tpat : Rich} {targs : Val}

theorem argLookup_eval (hc : OpsCore ops) (hfr : OpsFR ops) (name : Bytes) :
    ∀ (pat : Rich) (as : Exprs), spineOk pat = true → ipatOk pat = true →
      ∀ (vs : Val) (p : Nat) (w : Val), EvArgs ops fns tpat targs as vs → nameLookup name pat = some p →
        Path.lookupNat p vs = .ok w →
        ∃ t, argLookup name pat as = some (some t) ∧ Ev ops fns tpat targs t w := by
  intro pat as
  induction pat, as using argLookup.induct name with
  | case1 f r a rest x hx =>
    intro hsp hok vs p w hev h hl
    have hne := spineOk_hne f r hsp
    rw [ipatOk_cons f r hne] at hok
    simp only [Bool.and_eq_true] at hok
    rw [nameLookup_cons name f r hne] at h
    obtain ⟨v, vr, hvs, h1, h2⟩ := EvArgs.cons_inv hev
    subst hvs
    rw [argLookup, hx]
    cases hf : nameLookup name f with
    | some q =>
      rw [hf] at h; simp at h; subst h
      rw [Path.lookupNat_left q (nameLookup_pos _ _ _ hf)] at hl
      obtain ⟨t, ht, hevt⟩ := pick_eval hfr name f hok.1.1 a v q w h1 hf hl
      rw [hx] at ht
      simp at ht; subst ht
      exact ⟨x, rfl, hevt⟩
    | none =>
      rw [pick_none name f hok.1.1 hf a] at hx
      simp at hx
  | case2 f r a rest hx ih =>
    intro hsp hok vs p w hev h hl
    have hne := spineOk_hne f r hsp
    rw [ipatOk_cons f r hne] at hok
    simp only [Bool.and_eq_true] at hok
    rw [nameLookup_cons name f r hne] at h
    obtain ⟨v, vr, hvs, h1, h2⟩ := EvArgs.cons_inv hev
    subst hvs
    rw [argLookup, hx]
    cases hf : nameLookup name f with
    | some q =>
      rw [hf] at h; simp at h; subst h
      rw [Path.lookupNat_left q (nameLookup_pos _ _ _ hf)] at hl
      obtain ⟨t, ht, _⟩ := pick_eval hfr name f hok.1.1 a v q w h1 hf hl
      rw [hx] at ht
      simp at ht
    | none =>
      rw [hf] at h
      cases hr : nameLookup name r with
      | some q =>
        rw [hr] at h; simp at h; subst h
        rw [Path.lookupNat_right q (nameLookup_pos _ _ _ hr)] at hl
        exact ih (spineOk_tail f r hsp) hok.1.2 vr q w h2 hr hl
      | none => rw [hr] at h; simp at h
  | case3 a d =>
    intro hsp hok vs p w hev h hl
    have hne := spineOk_hne a d hsp
    rw [nameLookup_cons name a d hne] at h
    rw [EvArgs.nil_inv hev] at hl
    exfalso
    have hle := lookupNat_atom_le p [] w hl
    cases ha : nameLookup name a with
    | some q =>
      rw [ha] at h; simp at h
      have := nameLookup_pos _ _ _ ha
      omega
    | none =>
      rw [ha] at h
      cases hd : nameLookup name d with
      | some q =>
        rw [hd] at h; simp at h
        have := nameLookup_pos _ _ _ hd
        omega
      | none => rw [hd] at h; simp at h
  | case4 tailpat as h1 h2 =>
    intro hsp hok vs p w hev h hl
    cases tailpat with
    | nil => simp [nameLookup] at h
    | int i => simp [ipatOk] at hok
    | qstr q b => simp [ipatOk] at hok
    | cons a d =>
      exfalso
      cases as with
      | nil => exact h2 a d rfl rfl
      | cons e r => exact h1 a d e r rfl rfl
    | atom b =>
      simp only [nameLookup] at h
      split at h
      · rename_i hb
        simp at h; subst h
        rw [Path.lookupNat_one] at hl
        simp at hl; subst hl
        refine ⟨enlist as, ?_, enlist_eval hc as vs hev⟩
        rw [argLookup]
        · simp [pick, hb]
        · intro f r a rest hh; cases hh
        · intro a d hh; cases hh
      · simp at h
end

theorem letEnv_cons (pat0 : Rich) (ctx : Ctx) (a d : Rich)
    (hne : ∀ (cap : Bytes) (sub : Rich), a = Rich.atom [64] → d = (Rich.atom cap).cons (sub.cons Rich.nil) → False) :
    letEnv pat0 ctx (a.cons d) =
      (match letEnv pat0 ctx a, letEnv pat0 ctx d with
       | some x, some y => some (.op 4 (.cons x (.cons y .nil)))
       | _, _ => none) := by
  rw [letEnv] <;> first | rfl | exact hne

theorem bindPat_cons_ofVal (a d : Rich) (A : Val) (ρ : Env)
    (hne : ∀ (cap : Bytes) (sub : Rich), a = Rich.atom [64] → d = (Rich.atom cap).cons (sub.cons Rich.nil) → False)
    (hn : (patHasNames a || patHasNames d) = true)
    (hb : bindPat (a.cons d) (SV.ofVal A) = some ρ) :
    ∃ x y ρ1 ρ2, A = .pair x y ∧ bindPat a (SV.ofVal x) = some ρ1 ∧ bindPat d (SV.ofVal y) = some ρ2 := by
  cases A with
  | atom b =>
    simp only [SV.ofVal] at hb
    rw [bindPat] at hb
    · simp [hn] at hb
    · exact hne
    · intro x y hh; cases hh
  | pair x y =>
    simp only [SV.ofVal] at hb
    rw [bindPat_cons_pair a d _ _ hne] at hb
    cases h1 : bindPat a (SV.ofVal x) with
    | none => rw [h1] at hb; simp at hb
    | some ρ1 =>
      cases h2 : bindPat d (SV.ofVal y) with
      | none => rw [h1, h2] at hb; simp at hb
      | some ρ2 => exact ⟨x, y, ρ1, ρ2, rfl, h1, h2⟩

section
variable {ops : OpSem} {fns : List FnDef} {tpat : Rich} {targs : Val}

theorem letEnv_eval (hc : OpsCore ops) (pat0 : Rich) (ctx : Ctx) :
    ∀ q : Rich, ipatOk q = true → (patNames q).Nodup → ∀ (A : Val) (ρ : Env), bindPat q (SV.ofVal A) = some ρ →
      (∀ n v w, nameLookup n q = some v → Path.lookupNat v A = .ok w →
        ∃ t, substVar pat0 ctx n = some t ∧ Ev ops fns tpat targs t w) →
      ∃ t V', letEnv pat0 ctx q = some t ∧ Ev ops fns tpat targs t V' ∧
        ∀ n v w, nameLookup n q = some v → Path.lookupNat v A = .ok w → Path.lookupNat v V' = .ok w := by
  intro q
  induction q using ipatOk.induct with
  | case1 =>
    intro _ _ A ρ _ _
    exact ⟨.lit Val.nil, Val.nil, by simp [letEnv], Ev.lit _, by intro n v w h; simp [nameLookup] at h⟩
  | case2 b =>
    intro hok _ A ρ _ hσ
    simp only [ipatOk, Bool.and_eq_true, Bool.not_eq_true'] at hok
    obtain ⟨t, ht, hev⟩ := hσ b 1 A (by simp [nameLookup]) (Path.lookupNat_one A)
    refine ⟨t, A, by simp [letEnv, hok.1, ht], hev, ?_⟩
    intro n v w _ h; exact h
  | case3 cap sub _ =>
    intro hok _ A ρ _ hσ
    obtain ⟨t, ht, hev⟩ := hσ cap 1 A (by rw [nameLookup_cap]; simp) (Path.lookupNat_one A)
    refine ⟨t, A, by rw [letEnv]; exact ht, hev, ?_⟩
    intro n v w _ h; exact h
  | case4 a d hne iha ihd =>
    intro hok hnd A ρ hb hσ
    rw [ipatOk_cons a d hne] at hok
    simp only [Bool.and_eq_true] at hok
    rw [patNames_cons a d hne] at hnd
    obtain ⟨x, y, ρ1, ρ2, hA, hb1, hb2⟩ := bindPat_cons_ofVal a d A ρ hne hok.2 hb
    subst hA
    have hnd' := List.nodup_append.mp hnd
    obtain ⟨ta, Va, hta, heva, haga⟩ := iha hok.1.1 hnd'.1 x ρ1 hb1 (by
      intro n v w hn hl
      apply hσ n (2 * v) w
      · rw [nameLookup_cons n a d hne, hn]
      · rw [Path.lookupNat_left v (nameLookup_pos _ _ _ hn)]; exact hl)
    have hdis : ∀ n v, nameLookup n d = some v → nameLookup n a = none := by
      intro n v hn
      cases hna : nameLookup n a with
      | none => rfl
      | some v' =>
        exfalso
        exact hnd'.2.2 n (nameLookup_mem n a hok.1.1 v' hna) n (nameLookup_mem n d hok.1.2 v hn) rfl
    obtain ⟨td, Vd, htd, hevd, hagd⟩ := ihd hok.1.2 hnd'.2.1 y ρ2 hb2 (by
      intro n v w hn hl
      apply hσ n (2 * v + 1) w
      · rw [nameLookup_cons n a d hne, hdis n v hn, hn]
      · rw [Path.lookupNat_right v (nameLookup_pos _ _ _ hn)]; exact hl)
    refine ⟨.op 4 (.cons ta (.cons td .nil)), .pair Va Vd, by rw [letEnv_cons pat0 ctx a d hne, hta, htd],
      Ev.cons4 hc heva hevd, ?_⟩
    intro n v w hn hl
    rw [nameLookup_cons n a d hne] at hn
    cases hna : nameLookup n a with
    | some q =>
      rw [hna] at hn; simp at hn; subst hn
      rw [Path.lookupNat_left q (nameLookup_pos _ _ _ hna)] at hl ⊢
      exact haga n q w hna hl
    | none =>
      rw [hna] at hn
      cases hnd2 : nameLookup n d with
      | some q =>
        rw [hnd2] at hn; simp at hn; subst hn
        rw [Path.lookupNat_right q (nameLookup_pos _ _ _ hnd2)] at hl ⊢
        exact hagd n q w hnd2 hl
      | none => rw [hnd2] at hn; simp at hn
  | case5 t h1 h2 h3 h4 =>
    intro hok
    cases t with
    | nil => exact absurd rfl h1
    | atom b => exact absurd rfl (h2 b)
    | cons a d => exact absurd rfl (h4 a d)
    | int i => simp [ipatOk] at hok
    | qstr q b => simp [ipatOk] at hok
end

end Core2
