/-
  Proofs/Core2Rename.lean — `Core2.renameProg` (every let-bound name replaced by a name that
  is unique along its scope chain, as `rename.rs` does before any desugaring) preserves the
  lexically scoped meaning: `evalL P = v → eval (renameProg P) = v`, where `eval` is the
  meaning used by the expansion lemma (a `let` appends its names behind the names in scope,
  which is only right when nothing is shadowed — guaranteed after renaming by `progWFNS`).
-/
import ChialispModel.Proofs.Core2Expand

namespace Core2
open Lang
open Core (paramValue toVal_ofVal)

/-- every name visible in the lexical environment `(lp, la)` is visible, under its current
    renaming, with the same value in the renamed environment `(np, na)`. -/
def Rel (r : List (Bytes × Bytes)) (lp : Rich) (la : Val) (np : Rich) (na : Val) : Prop :=
  ∀ x p w, nameLookup x lp = some p → Path.lookupNat p la = .ok w →
    ∃ q, nameLookup (ren r x) np = some q ∧ Path.lookupNat q na = .ok w

theorem namesPat_hne (n : Bytes) (t : List Bytes) (hn : n ≠ [64]) :
    ∀ (cap : Bytes) (sub : Rich), Rich.atom n = Rich.atom [64] → namesPat t = (Rich.atom cap).cons (sub.cons Rich.nil) → False := by
  intro cap sub h _
  simp only [Rich.atom.injEq] at h
  exact hn h

theorem nameLookup_namesPat_cons (x n : Bytes) (t : List Bytes) (hn : n ≠ [64]) :
    nameLookup x (namesPat (n :: t)) =
      if n == x then some 2 else (match nameLookup x (namesPat t) with | some v => some (2 * v + 1) | none => none) := by
  simp only [namesPat]
  rw [nameLookup_cons x _ _ (namesPat_hne n t hn)]
  simp only [nameLookup]
  by_cases hx : (n == x) = true
  · simp [hx]
  · simp only [hx]
    cases nameLookup x (namesPat t) <;> simp

theorem freshNames_length (d k : Nat) : (freshNames d k).length = k := by
  induction k generalizing d with
  | zero => rfl
  | succ k ih => simp [freshNames, ih]

theorem freshNames_ne_at (d k : Nat) : ∀ n ∈ freshNames d k, n ≠ [64] := by
  induction k generalizing d with
  | zero => intro n h; simp [freshNames] at h
  | succ k ih =>
    intro n h
    simp only [freshNames, List.mem_cons] at h
    rcases h with rfl | h
    · simp [lvlName]
    · exact ih (d + 1) n h

theorem freshNames_ne_nil (d k : Nat) : ∀ n ∈ freshNames d k, n ≠ [] := by
  induction k generalizing d with
  | zero => intro n h; simp [freshNames] at h
  | succ k ih =>
    intro n h
    simp only [freshNames, List.mem_cons] at h
    rcases h with rfl | h
    · simp [lvlName]
    · exact ih (d + 1) n h

theorem freshNames_len_ge (d k : Nat) : ∀ n ∈ freshNames d k, d + 1 ≤ n.length := by
  induction k generalizing d with
  | zero => intro n h; simp [freshNames] at h
  | succ k ih =>
    intro n h
    simp only [freshNames, List.mem_cons] at h
    rcases h with rfl | h
    · simp [lvlName]
    · have := ih (d + 1) n h; omega

theorem freshNames_nodup (d k : Nat) : (freshNames d k).Nodup := by
  induction k generalizing d with
  | zero => simp [freshNames]
  | succ k ih =>
    simp only [freshNames, List.nodup_cons]
    refine ⟨?_, ih (d + 1)⟩
    intro hmem
    have h1 := freshNames_len_ge (d + 1) k _ hmem
    have h2 : (lvlName d).length = d + 1 := by simp [lvlName]
    omega

/-- a name bound by the let is renamed to the fresh name at the same position. -/
theorem ren_hit (r : List (Bytes × Bytes)) (x : Bytes) : ∀ (ns ns' : List Bytes), ns.length = ns'.length →
    (∀ n ∈ ns, n ≠ [64]) → (∀ n ∈ ns', n ≠ [64]) → ns'.Nodup → ∀ p, nameLookup x (namesPat ns) = some p →
    ren (ns.zip ns' ++ r) x ∈ ns' ∧ nameLookup (ren (ns.zip ns' ++ r) x) (namesPat ns') = some p := by
  intro ns
  induction ns with
  | nil => intro ns' _ _ _ _ p h; simp [namesPat, nameLookup] at h
  | cons n t ih =>
    intro ns' hlen h1 h2 hnd p h
    cases ns' with
    | nil => simp at hlen
    | cons n' t' =>
      rw [nameLookup_namesPat_cons x n t (h1 n (by simp))] at h
      have hn' := h2 n' (by simp)
      by_cases hx : (n == x) = true
      · rw [if_pos hx] at h
        simp at h; subst h
        have hren : ren ((n :: t).zip (n' :: t') ++ r) x = n' := by
          simp [ren, renLookup, hx]
        rw [hren, nameLookup_namesPat_cons n' n' t' hn']
        simp
      · rw [if_neg hx] at h
        have hren : ren ((n :: t).zip (n' :: t') ++ r) x = ren (t.zip t' ++ r) x := by
          simp [ren, renLookup, hx]
        rw [hren]
        cases ht : nameLookup x (namesPat t) with
        | none => rw [ht] at h; simp at h
        | some p0 =>
          rw [ht] at h; simp at h; subst h
          have hnd' := List.nodup_cons.mp hnd
          obtain ⟨hm, hl⟩ := ih t' (by simpa using hlen) (fun m hm => h1 m (by simp [hm]))
            (fun m hm => h2 m (by simp [hm])) hnd'.2 p0 ht
          refine ⟨by simp [hm], ?_⟩
          rw [nameLookup_namesPat_cons _ n' t' hn']
          have hne : ¬ ((n' == ren (t.zip t' ++ r) x) = true) := by
            intro he
            have : n' = ren (t.zip t' ++ r) x := by simpa using he
            rw [← this] at hm
            exact hnd'.1 hm
          rw [if_neg hne, hl]

/-- a name not bound by the let keeps its renaming. -/
theorem ren_miss (r : List (Bytes × Bytes)) (x : Bytes) : ∀ (ns ns' : List Bytes), ns.length = ns'.length →
    (∀ n ∈ ns, n ≠ [64]) → nameLookup x (namesPat ns) = none → ren (ns.zip ns' ++ r) x = ren r x := by
  intro ns
  induction ns with
  | nil => intro ns' _ _ _; simp
  | cons n t ih =>
    intro ns' hlen h1 h
    cases ns' with
    | nil => simp at hlen
    | cons n' t' =>
      rw [nameLookup_namesPat_cons x n t (h1 n (by simp))] at h
      by_cases hx : (n == x) = true
      · rw [if_pos hx] at h; simp at h
      · rw [if_neg hx] at h
        have hren : ren ((n :: t).zip (n' :: t') ++ r) x = ren (t.zip t' ++ r) x := by
          simp [ren, renLookup, hx]
        rw [hren]
        apply ih t' (by simpa using hlen) (fun m hm => h1 m (by simp [hm]))
        cases ht : nameLookup x (namesPat t) with
        | none => rfl
        | some p0 => rw [ht] at h; simp at h

/-- does the value have at least `k` list positions? -/
def fits : Nat → Val → Bool
  | 0, _ => true
  | _+1, .atom _ => false
  | k+1, .pair _ y => fits k y

theorem bindsOk_cons (a d : Rich) (x y : Val)
    (hne : ∀ (cap : Bytes) (sub : Rich), a = Rich.atom [64] → d = (Rich.atom cap).cons (sub.cons Rich.nil) → False) :
    bindsOk (.cons a d) (.pair x y) = (bindsOk a x && bindsOk d y) := by
  unfold bindsOk
  simp only [SV.ofVal]
  rw [bindPat_cons_pair a d _ _ hne]
  cases bindPat a (SV.ofVal x) <;> cases bindPat d (SV.ofVal y) <;> simp

theorem bindsOk_namesPat : ∀ (ns : List Bytes), (∀ n ∈ ns, n ≠ [64]) → ∀ v, bindsOk (namesPat ns) v = fits ns.length v := by
  intro ns
  induction ns with
  | nil => intro _ v; simp [namesPat, bindsOk, bindPat, fits]
  | cons n t ih =>
    intro h v
    cases v with
    | atom b =>
      simp only [namesPat, List.length_cons, fits]
      unfold bindsOk
      simp only [SV.ofVal]
      rw [bindPat]
      · simp [patHasNames]
      · exact namesPat_hne n t (h n (by simp))
      · intro x y hh; cases hh
    | pair x y =>
      simp only [namesPat, List.length_cons, fits]
      rw [bindsOk_cons _ _ x y (namesPat_hne n t (h n (by simp)))]
      rw [ih (fun m hm => h m (by simp [hm])) y]
      have : bindsOk (Rich.atom n) x = true := by
        unfold bindsOk
        simp only [bindPat]
        split <;> simp
      rw [this]; simp

theorem patOk_namesPat : ∀ (ns : List Bytes), (∀ n ∈ ns, n ≠ []) → patOk (namesPat ns) = true := by
  intro ns
  induction ns with
  | nil => intro _; simp [namesPat, patOk]
  | cons n t ih =>
    intro h
    simp only [namesPat, patOk, Bool.and_eq_true, Bool.not_eq_true']
    refine ⟨?_, ih (fun m hm => h m (by simp [hm]))⟩
    have := h n (by simp)
    cases n with
    | nil => exact absurd rfl this
    | cons a b => rfl

theorem patNames_namesPat : ∀ (ns : List Bytes), (∀ n ∈ ns, n ≠ [64]) → ∀ y ∈ ns, y ≠ [] → y ∈ patNames (namesPat ns) := by
  intro ns
  induction ns with
  | nil => intro _ y hy; simp at hy
  | cons n t ih =>
    intro h y hy hne
    simp only [namesPat]
    rw [patNames_cons _ _ (namesPat_hne n t (h n (by simp)))]
    simp only [List.mem_cons] at hy
    rcases hy with rfl | hy
    · apply List.mem_append_left
      simp only [patNames]
      cases y with
      | nil => exact absurd rfl hne
      | cons a b => simp
    · exact List.mem_append_right _ (ih (fun m hm => h m (by simp [hm])) y hy hne)

theorem findFn_map_rename (f : Bytes) : ∀ (FS : List FnDef), findFn f (FS.map renameFn) = (findFn f FS).map renameFn := by
  intro FS
  induction FS with
  | nil => rfl
  | cons x xs ih =>
    simp only [List.map_cons, findFn]
    have : (renameFn x).name = x.name := rfl
    rw [this]
    split
    · rfl
    · exact ih

theorem rel_nil (p : Rich) (a : Val) : Rel [] p a p a := by
  intro x q w h1 h2
  exact ⟨q, by simpa [ren, renLookup] using h1, h2⟩

/-- entering a `let`: the lexical environment puts the names in front, the renamed one
    appends the fresh names behind. -/
theorem rel_extend (r : List (Bytes × Bytes)) (lp : Rich) (la : Val) (np : Rich) (na : Val)
    (ns ns' : List Bytes) (vs : Val) (hlen : ns.length = ns'.length)
    (h1 : ∀ n ∈ ns, n ≠ [64]) (h2 : ∀ n ∈ ns', n ≠ [64]) (hnd : ns'.Nodup)
    (hne : ∀ (cap : Bytes) (sub : Rich), np = Rich.atom [64] → namesPat ns' = (Rich.atom cap).cons (sub.cons Rich.nil) → False)
    (hdis : ∀ y ∈ ns', nameLookup y np = none)
    (hr : Rel r lp la np na) :
    Rel (ns.zip ns' ++ r) (.cons (namesPat ns) lp) (.pair vs la) (.cons np (namesPat ns')) (.pair na vs) := by
  intro x p w hp hl
  have hne1 : ∀ (cap : Bytes) (sub : Rich), namesPat ns = Rich.atom [64] → lp = (Rich.atom cap).cons (sub.cons Rich.nil) → False := by
    intro cap sub h _
    cases ns <;> simp [namesPat] at h
  rw [nameLookup_cons x _ _ hne1] at hp
  cases hn : nameLookup x (namesPat ns) with
  | some p0 =>
    rw [hn] at hp; simp at hp; subst hp
    rw [Path.lookupNat_left p0 (nameLookup_pos _ _ _ hn)] at hl
    obtain ⟨hm, hl'⟩ := ren_hit r x ns ns' hlen h1 h2 hnd p0 hn
    refine ⟨2 * p0 + 1, ?_, ?_⟩
    · rw [nameLookup_cons _ _ _ hne, hdis _ hm, hl']
    · rw [Path.lookupNat_right p0 (nameLookup_pos _ _ _ hn)]; exact hl
  | none =>
    rw [hn] at hp
    cases hn2 : nameLookup x lp with
    | none => rw [hn2] at hp; simp at hp
    | some p0 =>
      rw [hn2] at hp; simp at hp; subst hp
      rw [Path.lookupNat_right p0 (nameLookup_pos _ _ _ hn2)] at hl
      obtain ⟨q, hq1, hq2⟩ := hr x p0 w hn2 hl
      rw [ren_miss r x ns ns' hlen h1 hn]
      refine ⟨2 * q, ?_, ?_⟩
      · rw [nameLookup_cons _ _ _ hne, hq1]
      · rw [Path.lookupNat_left q (nameLookup_pos _ _ _ hq1)]; exact hq2

section Main
variable (ops : OpSem) (FS : List FnDef)

/-- RENAMING LEMMA: the lexically scoped meaning of an expression is the meaning of the
    renamed expression in the renamed environment. -/
theorem rename_sound
    (hFS : ∀ f fd, findFn f FS = some fd →
      lexWF fd.body = true ∧ patWF fd.params = true ∧ exprWF fd.params (renameE [] 0 fd.body) = true) :
    ∀ n : Nat,
      (∀ (lp : Rich) (la : Val) (np : Rich) (na : Val) (r : List (Bytes × Bytes)) (d : Nat) (e : Expr) (v : Val),
        patOk lp = true → bindsOk lp la = true → patWF np = true → bindsOk np na = true →
        lexWF e = true → exprWF np (renameE r d e) = true → Rel r lp la np na →
        evalL ops FS n lp la e = .ok v →
        eval ops (FS.map renameFn) n np na (renameE r d e) = .ok v) ∧
      (∀ (lp : Rich) (la : Val) (np : Rich) (na : Val) (r : List (Bytes × Bytes)) (d : Nat) (es : Exprs) (vs : Val),
        patOk lp = true → bindsOk lp la = true → patWF np = true → bindsOk np na = true →
        lexsWF es = true → exprsWF np (renameEs r d es) = true → Rel r lp la np na →
        evalArgsL ops FS n lp la es = .ok vs →
        evalArgs ops (FS.map renameFn) n np na (renameEs r d es) = .ok vs) := by
  intro n
  induction n with
  | zero => constructor <;> intros <;> simp_all [evalL, evalArgsL]
  | succ n ih =>
    obtain ⟨ihA, ihB⟩ := ih
    constructor
    · intro lp la np na r d e v hlpok hlb hnpw hnb hlex hwf hrel he
      obtain ⟨hnpok, hnipok, hnspine, hnnodup⟩ := patWF_parts hnpw
      obtain ⟨ρl, hρl⟩ := bindsOk_some hlb
      obtain ⟨ρn, hρn⟩ := bindsOk_some hnb
      cases e with
      | var x =>
        simp only [evalL] at he
        simp only [renameE, eval]
        cases hv : paramValue lp la x with
        | none => rw [hv] at he; simp [failR] at he
        | some w =>
          rw [hv] at he; simp at he; subst he
          obtain ⟨p, hp1, hp2⟩ := paramValue_path lp hlpok la ρl hρl x w hv
          obtain ⟨q, hq1, hq2⟩ := hrel x p w hp1 hp2
          rw [path_paramValue np hnpok na ρn hρn (ren r x) q w hq1 hq2]
      | lit w => simpa [evalL, renameE, eval] using he
      | argsv => simp [lexWF] at hlex
      | op code as =>
        simp only [evalL] at he
        simp only [renameE, eval]
        simp only [lexWF] at hlex
        simp only [renameE, exprWF, Bool.and_eq_true] at hwf
        cases ha : evalArgsL ops FS n lp la as with
        | error er => rw [ha] at he; simp at he
        | ok vs =>
          rw [ha] at he
          rw [ihB lp la np na r d as vs hlpok hlb hnpw hnb hlex hwf.2 hrel ha]
          exact he
      | ite c a b =>
        simp only [evalL] at he
        simp only [renameE, eval]
        simp only [lexWF, Bool.and_eq_true] at hlex
        simp only [renameE, exprWF, Bool.and_eq_true] at hwf
        cases hc : evalL ops FS n lp la c with
        | error er => rw [hc] at he; simp at he
        | ok cv =>
          rw [hc] at he
          rw [ihA lp la np na r d c cv hlpok hlb hnpw hnb hlex.1.1 hwf.1.1 hrel hc]
          simp only at he ⊢
          by_cases hn : Val.nilp cv = true
          · rw [if_pos hn] at he ⊢
            exact ihA lp la np na r d b v hlpok hlb hnpw hnb hlex.2 hwf.2 hrel he
          · rw [if_neg hn] at he ⊢
            exact ihA lp la np na r d a v hlpok hlb hnpw hnb hlex.1.2 hwf.1.2 hrel he
      | call f as =>
        simp only [evalL] at he
        simp only [renameE, eval]
        simp only [lexWF] at hlex
        simp only [renameE, exprWF] at hwf
        rw [findFn_map_rename]
        cases hfd : findFn f FS with
        | none => rw [hfd] at he; simp [failR] at he
        | some fd =>
          rw [hfd] at he
          simp only [Option.map_some] at he ⊢
          cases ha : evalArgsL ops FS n lp la as with
          | error er => rw [ha] at he; simp at he
          | ok vs =>
            rw [ha] at he
            rw [ihB lp la np na r d as vs hlpok hlb hnpw hnb hlex hwf hrel ha]
            simp only at he ⊢
            have hp : (renameFn fd).params = fd.params := rfl
            have hb : (renameFn fd).body = renameE [] 0 fd.body := rfl
            rw [hp, hb]
            by_cases hbo : bindsOk fd.params vs = true
            · rw [if_pos hbo] at he ⊢
              obtain ⟨hfl, hfp, hfw⟩ := hFS f fd hfd
              exact ihA fd.params vs fd.params vs [] 0 fd.body v (patWF_parts hfp).1 hbo hfp hbo hfl hfw
                (rel_nil _ _) he
            · rw [if_neg hbo] at he; simp [failR] at he
      | letE names es body =>
        simp only [evalL] at he
        simp only [renameE, eval]
        simp only [lexWF, Bool.and_eq_true, List.all_eq_true, Bool.not_eq_true', bne_iff_ne, ne_eq] at hlex
        obtain ⟨⟨⟨hnames, _⟩, hles⟩, hlbody⟩ := hlex
        simp only [renameE, exprWF, Bool.and_eq_true] at hwf
        obtain ⟨⟨hwes, hpw'⟩, hwb⟩ := hwf
        have hn1 : ∀ m ∈ names, m ≠ [64] := fun m hm => (hnames m hm).2
        have hn0 : ∀ m ∈ names, m ≠ [] := by
          intro m hm h0
          have := (hnames m hm).1
          rw [h0] at this
          simp at this
        have hlen : names.length = (freshNames d names.length).length := (freshNames_length d names.length).symm
        have hf1 := freshNames_ne_at d names.length
        obtain ⟨hnpok', hnipok', hnspine', hnnodup'⟩ := patWF_parts hpw'
        have hne := spineOk_hne np (namesPat (freshNames d names.length)) hnspine'
        cases ha : evalArgsL ops FS n lp la es with
        | error er => rw [ha] at he; simp at he
        | ok vs =>
          rw [ha] at he
          rw [ihB lp la np na r d es vs hlpok hlb hnpw hnb hles hwes hrel ha]
          simp only at he ⊢
          have hne1 : ∀ (cap : Bytes) (sub : Rich), namesPat names = Rich.atom [64] → lp = (Rich.atom cap).cons (sub.cons Rich.nil) → False := by
            intro cap sub h _
            cases names <;> simp [namesPat] at h
          by_cases hbo : bindsOk (.cons (namesPat names) lp) (.pair vs la) = true
          · rw [if_pos hbo] at he
            have hbo2 := hbo
            rw [bindsOk_cons _ _ _ _ hne1, Bool.and_eq_true] at hbo2
            have hfit : bindsOk (namesPat (freshNames d names.length)) vs = true := by
              rw [bindsOk_namesPat _ hf1, freshNames_length, ← bindsOk_namesPat names hn1]
              exact hbo2.1
            have hbo' : bindsOk (.cons np (namesPat (freshNames d names.length))) (.pair na vs) = true := by
              rw [bindsOk_cons _ _ _ _ hne, hnb, hfit]; rfl
            rw [if_pos hbo']
            -- the fresh names are distinct and not names of the enclosing pattern
            rw [patNames_cons _ _ hne] at hnnodup'
            have hnd' := List.nodup_append.mp hnnodup'
            have hf0 : ∀ y ∈ freshNames d names.length, y ≠ [] := freshNames_ne_nil d names.length
            have hmemF : ∀ y ∈ freshNames d names.length, y ∈ patNames (namesPat (freshNames d names.length)) :=
              fun y hy => patNames_namesPat _ hf1 y hy (hf0 y hy)
            have hdis : ∀ y ∈ freshNames d names.length, nameLookup y np = none := by
              intro y hy
              cases hq : nameLookup y np with
              | none => rfl
              | some q =>
                exfalso
                exact hnd'.2.2 y (nameLookup_mem y np hnipok q hq) y (hmemF y hy) rfl
            have hndF : (freshNames d names.length).Nodup := freshNames_nodup d names.length
            refine ihA (.cons (namesPat names) lp) (.pair vs la) (.cons np (namesPat (freshNames d names.length)))
              (.pair na vs) (names.zip (freshNames d names.length) ++ r) (d + names.length) body v
              ?_ hbo hpw' hbo' hlbody hwb ?_ he
            · simp only [patOk, Bool.and_eq_true]
              exact ⟨patOk_namesPat names hn0, hlpok⟩
            · exact rel_extend r lp la np na names (freshNames d names.length) vs hlen hn1 hf1 hndF hne hdis hrel
          · rw [if_neg hbo] at he; simp [failR] at he
    · intro lp la np na r d es vs hlpok hlb hnpw hnb hlex hwf hrel he
      cases es with
      | nil => simpa [evalArgsL, renameEs, evalArgs] using he
      | cons e rest =>
        simp only [evalArgsL] at he
        simp only [renameEs, evalArgs]
        simp only [lexsWF, Bool.and_eq_true] at hlex
        simp only [renameEs, exprsWF, Bool.and_eq_true] at hwf
        cases h1 : evalL ops FS n lp la e with
        | error er => rw [h1] at he; simp at he
        | ok v1 =>
          rw [h1] at he
          rw [ihA lp la np na r d e v1 hlpok hlb hnpw hnb hlex.1 hwf.1 hrel h1]
          simp only at he ⊢
          cases h2 : evalArgsL ops FS n lp la rest with
          | error er => rw [h2] at he; simp at he
          | ok v2 =>
            rw [h2] at he
            rw [ihB lp la np na r d rest v2 hlpok hlb hnpw hnb hlex.2 hwf.2 hrel h2]
            exact he

end Main

end Core2
