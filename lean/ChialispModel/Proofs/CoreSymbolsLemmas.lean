/-
  Proofs/CoreSymbolsLemmas.lean — the symbol table of a core program (Lang/CoreSymbols.lean):
  what `add_defun`'s inserts leave in the table (the LAST function with a given code hash owns
  the three entries of that hash), that every recorded code occurs in the emitted program at
  the path the environment layout gives, and that `extract_program_and_env` +
  `path_to_function` + `rewrite_in_program` build a program that runs the function's code on
  `(ENV . args)`.
-/
import ChialispModel.Lang.CoreSymbols
import ChialispModel.Proofs.CoreLemmas
import ChialispModel.Proofs.SymbolsLemmas

namespace Core
open Clvm

-- the table as a map ------------------------------------------------------------------------------

theorem symGet_insert_self (k : SymKey) (v : SymVal) (t : SymTab) :
    symGet k (symInsert k v t) = some v := by
  induction t with
  | nil => simp [symInsert, symGet]
  | cons x r ih =>
    obtain ⟨k', v'⟩ := x
    simp only [symInsert]
    by_cases h : k' = k
    · simp [h, symGet]
    · simp [h, symGet, ih]

theorem symGet_insert_ne (k k2 : SymKey) (v : SymVal) (t : SymTab) (hne : k ≠ k2) :
    symGet k2 (symInsert k v t) = symGet k2 t := by
  induction t with
  | nil => simp [symInsert, symGet, hne]
  | cons x r ih =>
    obtain ⟨k', v'⟩ := x
    simp only [symInsert]
    by_cases h : k' = k
    · subst h; simp [symGet, hne]
    · simp only [h, if_false, symGet]
      split
      · rfl
      · exact ih

-- the `add_defun` loop as a fold over (function, code) pairs ----------------------------------

/-- the functions paired with their compiled codes. -/
def pairs : List FnDef → List (Bytes × Val) → List (FnDef × Val)
  | f :: fs, e :: es => (f, e.2) :: pairs fs es
  | _, _ => []

def addAll (H : Bytes → Bytes) : List (FnDef × Val) → SymTab → SymTab
  | [], t => t
  | x :: r, t => addAll H r (addDefun H x.1.name x.1.params x.2 t)

theorem addDefuns_eq (H : Bytes → Bytes) (FS : List FnDef) (es : List (Bytes × Val)) (t : SymTab) :
    addDefuns H FS es t = addAll H (pairs FS es) t := by
  induction FS generalizing es t with
  | nil => simp [addDefuns, pairs, addAll]
  | cons f fs ih =>
    cases es with
    | nil => simp [addDefuns, pairs, addAll]
    | cons e es => simp [addDefuns, pairs, addAll, ih]

/-- the LAST pair whose code has tree hash `h` (the one whose inserts survive). -/
def lastWith (H : Bytes → Bytes) (h : Bytes) : List (FnDef × Val) → Option (FnDef × Val)
  | [] => none
  | x :: r =>
    match lastWith H h r with
    | some y => some y
    | none => if Val.treeHash H x.2 = h then some x else none

theorem lastWith_mem (H : Bytes → Bytes) (h : Bytes) (S : List (FnDef × Val)) (y : FnDef × Val)
    (hy : lastWith H h S = some y) : y ∈ S ∧ Val.treeHash H y.2 = h := by
  induction S with
  | nil => simp [lastWith] at hy
  | cons x r ih =>
    simp only [lastWith] at hy
    cases hr : lastWith H h r with
    | some z =>
      rw [hr] at hy; simp at hy; subst hy
      obtain ⟨h1, h2⟩ := ih hr
      exact ⟨by simp [h1], h2⟩
    | none =>
      rw [hr] at hy
      simp only at hy
      split at hy
      · rename_i hx
        simp at hy; subst hy
        exact ⟨by simp, hx⟩
      · simp at hy

theorem lastWith_some (H : Bytes → Bytes) (S : List (FnDef × Val)) (x : FnDef × Val)
    (hx : x ∈ S) : (lastWith H (Val.treeHash H x.2) S).isSome = true := by
  induction S with
  | nil => simp at hx
  | cons z r ih =>
    simp only [lastWith]
    cases hr : lastWith H (Val.treeHash H x.2) r with
    | some y => simp
    | none =>
      simp only [List.mem_cons] at hx
      rcases hx with rfl | hx
      · simp
      · have := ih hx
        rw [hr] at this; simp at this

/-- the last pair with a hash is the given one when no LATER pair has that hash. -/
theorem lastWith_unique (H : Bytes → Bytes) (S : List (FnDef × Val)) (x : FnDef × Val)
    (hx : x ∈ S) (huniq : ∀ y ∈ S, Val.treeHash H y.2 = Val.treeHash H x.2 → y = x) :
    lastWith H (Val.treeHash H x.2) S = some x := by
  have hs := lastWith_some H S x hx
  cases hl : lastWith H (Val.treeHash H x.2) S with
  | none => rw [hl] at hs; simp at hs
  | some y =>
    obtain ⟨h1, h2⟩ := lastWith_mem H _ S y hl
    rw [huniq y h1 h2]

theorem get_fn_addDefun (H : Bytes → Bytes) (n : Bytes) (a : Rich) (c : Val) (t : SymTab) (h : Bytes) :
    symGet (.fn h) (addDefun H n a c t) =
      if Val.treeHash H c = h then some (.name n) else symGet (.fn h) t := by
  unfold addDefun
  rw [symGet_insert_ne _ _ _ _ (by simp), symGet_insert_ne _ _ _ _ (by simp)]
  split
  · rename_i he; rw [he]; exact symGet_insert_self _ _ _
  · rename_i he; exact symGet_insert_ne _ _ _ _ (by simpa using he)

theorem get_leftEnv_addDefun (H : Bytes → Bytes) (n : Bytes) (a : Rich) (c : Val) (t : SymTab) (h : Bytes) :
    symGet (.leftEnv h) (addDefun H n a c t) =
      if Val.treeHash H c = h then some .one else symGet (.leftEnv h) t := by
  unfold addDefun
  rw [symGet_insert_ne _ _ _ _ (by simp)]
  split
  · rename_i he; rw [he]; exact symGet_insert_self _ _ _
  · rename_i he
    rw [symGet_insert_ne _ _ _ _ (by simpa using he), symGet_insert_ne _ _ _ _ (by simp)]

theorem get_arguments_addDefun (H : Bytes → Bytes) (n : Bytes) (a : Rich) (c : Val) (t : SymTab) (h : Bytes) :
    symGet (.arguments h) (addDefun H n a c t) =
      if Val.treeHash H c = h then some (.pattern a) else symGet (.arguments h) t := by
  unfold addDefun
  split
  · rename_i he; rw [he]; exact symGet_insert_self _ _ _
  · rename_i he
    rw [symGet_insert_ne _ _ _ _ (by simpa using he), symGet_insert_ne _ _ _ _ (by simp),
      symGet_insert_ne _ _ _ _ (by simp)]

theorem get_main_addDefun (H : Bytes → Bytes) (n : Bytes) (a : Rich) (c : Val) (t : SymTab) :
    symGet .mainArguments (addDefun H n a c t) = symGet .mainArguments t := by
  unfold addDefun
  rw [symGet_insert_ne _ _ _ _ (by simp), symGet_insert_ne _ _ _ _ (by simp),
    symGet_insert_ne _ _ _ _ (by simp)]

/-- EXACT content of the function entries: the three entries of a hash belong to the last
    function recorded with that hash. -/
theorem get_fn_addAll (H : Bytes → Bytes) (S : List (FnDef × Val)) (t : SymTab) (h : Bytes) :
    symGet (.fn h) (addAll H S t) =
      match lastWith H h S with
      | some y => some (.name y.1.name)
      | none => symGet (.fn h) t := by
  induction S generalizing t with
  | nil => simp [addAll, lastWith]
  | cons x r ih =>
    simp only [addAll, lastWith]
    rw [ih]
    cases lastWith H h r with
    | some y => rfl
    | none =>
      simp only
      rw [get_fn_addDefun]
      split <;> rfl

theorem get_arguments_addAll (H : Bytes → Bytes) (S : List (FnDef × Val)) (t : SymTab) (h : Bytes) :
    symGet (.arguments h) (addAll H S t) =
      match lastWith H h S with
      | some y => some (.pattern y.1.params)
      | none => symGet (.arguments h) t := by
  induction S generalizing t with
  | nil => simp [addAll, lastWith]
  | cons x r ih =>
    simp only [addAll, lastWith]
    rw [ih]
    cases lastWith H h r with
    | some y => rfl
    | none =>
      simp only
      rw [get_arguments_addDefun]
      split <;> rfl

theorem get_leftEnv_addAll (H : Bytes → Bytes) (S : List (FnDef × Val)) (t : SymTab) (h : Bytes) :
    symGet (.leftEnv h) (addAll H S t) =
      match lastWith H h S with
      | some _ => some .one
      | none => symGet (.leftEnv h) t := by
  induction S generalizing t with
  | nil => simp [addAll, lastWith]
  | cons x r ih =>
    simp only [addAll, lastWith]
    rw [ih]
    cases lastWith H h r with
    | some y => rfl
    | none =>
      simp only
      rw [get_leftEnv_addDefun]
      split <;> rfl

theorem get_main_addAll (H : Bytes → Bytes) (S : List (FnDef × Val)) (t : SymTab) :
    symGet .mainArguments (addAll H S t) = symGet .mainArguments t := by
  induction S generalizing t with
  | nil => rfl
  | cons x r ih => simp only [addAll]; rw [ih, get_main_addDefun]

-- functions and their codes ---------------------------------------------------------------------

theorem compileFns_pairs (names : List Bytes) (FS : List FnDef) (es : List (Bytes × Val))
    (h : compileFns names FS = some es) :
    (∀ x ∈ pairs FS es, x.1 ∈ FS ∧ fnCode names x.1 = some x.2) ∧
    (∀ f ∈ FS, ∃ c, fnCode names f = some c ∧ (f, c) ∈ pairs FS es) := by
  induction FS generalizing es with
  | nil => simp [pairs]
  | cons f r ih =>
    simp only [compileFns] at h
    cases hc : compileE (Lang.envShape names f.params) f.body with
    | none => rw [hc] at h; simp at h
    | some c =>
      rw [hc] at h
      cases hr : compileFns names r with
      | none => rw [hr] at h; simp at h
      | some cs =>
        rw [hr] at h; simp at h; subst h
        obtain ⟨ih1, ih2⟩ := ih cs hr
        have hfc : fnCode names f = some (wrap c) := by simp [fnCode, hc]
        constructor
        · intro x hx
          simp only [pairs, List.mem_cons] at hx
          rcases hx with rfl | hx
          · exact ⟨by simp, hfc⟩
          · obtain ⟨h1, h2⟩ := ih1 x hx
            exact ⟨by simp [h1], h2⟩
        · intro g hg
          simp only [List.mem_cons] at hg
          rcases hg with rfl | hg
          · exact ⟨wrap c, hfc, by simp [pairs]⟩
          · obtain ⟨c', h1, h2⟩ := ih2 g hg
            exact ⟨c', h1, by simp [pairs, h2]⟩

/-- every name of the list is addressed in the balanced name tree. -/
theorem buildTree_complete (fuel : Nat) (names : List Bytes) (hf : names.length ≤ fuel)
    (hat : ∀ m ∈ names, m ≠ [64]) (n : Bytes) (hn : n ∈ names) :
    ∃ q, Lang.nameLookup n (Lang.buildTree names fuel) = some q := by
  induction fuel generalizing names with
  | zero =>
    have : names = [] := List.eq_nil_of_length_eq_zero (by omega)
    subst this; simp at hn
  | succ f ih =>
    match names, hf, hat, hn with
    | [], _, _, hn => simp at hn
    | [m], _, _, hn =>
      have : n = m := by simpa using hn
      subst this
      exact ⟨1, by simp [Lang.buildTree, Lang.nameLookup]⟩
    | m1 :: m2 :: rest, hf, hat, hn =>
      unfold Lang.buildTree
      simp only
      have hL := ih ((m1 :: m2 :: rest).take ((m1 :: m2 :: rest).length / 2))
        (by rw [List.length_take]; simp at hf; simp; omega)
        (fun e he => hat e (List.mem_of_mem_take he))
      have hR := ih ((m1 :: m2 :: rest).drop ((m1 :: m2 :: rest).length / 2))
        (by rw [List.length_drop]; simp at hf; simp; omega)
        (fun e he => hat e (List.mem_of_mem_drop he))
      have hmem : n ∈ (m1 :: m2 :: rest).take ((m1 :: m2 :: rest).length / 2) ∨
          n ∈ (m1 :: m2 :: rest).drop ((m1 :: m2 :: rest).length / 2) := by
        rw [← List.mem_append, List.take_append_drop]; exact hn
      rw [Lang.nameLookup_cons]
      · cases hl : Lang.nameLookup n (Lang.buildTree (List.take ((m1 :: m2 :: rest).length / 2) (m1 :: m2 :: rest)) f) with
        | some v => exact ⟨2 * v, rfl⟩
        | none =>
          rcases hmem with h1 | h2
          · obtain ⟨q, hq⟩ := hL h1
            rw [hl] at hq; simp at hq
          · obtain ⟨q, hq⟩ := hR h2
            refine ⟨2 * q + 1, ?_⟩
            simp only [List.length_cons] at hq ⊢
            rw [hq]
      · intro cap sub h1 _
        exact buildTree_ne_at _ f (fun m hm => hat m (List.mem_of_mem_take hm)) h1

theorem walk_subtree (bs : List Bool) (v s : Val) (h : Path.walk bs v = .ok s) : Lang.Subtree s v := by
  induction bs generalizing v with
  | nil => simp [Path.walk] at h; subst h; exact .refl _
  | cons b r ih =>
    cases v with
    | atom x => simp [Path.walk, failR] at h
    | pair a d =>
      simp only [Path.walk] at h
      cases b with
      | false => exact .left d (ih a (by simpa using h))
      | true => exact .right a (ih d (by simpa using h))

theorem lookupNat_subtree (q : Nat) (hq : 1 ≤ q) (v s : Val) (h : Path.lookupNat q v = .ok s) :
    Lang.Subtree s v := by
  have h0 : q ≠ 0 := by omega
  simp only [Path.lookupNat, h0, if_false] at h
  exact walk_subtree _ v s h

theorem subtree_trans {a b c : Val} (h1 : Lang.Subtree a b) (h2 : Lang.Subtree b c) : Lang.Subtree a c := by
  induction h2 with
  | refl => exact h1
  | left d _ ih => exact .left d ih
  | right x _ ih => exact .right x ih

section Live
variable (FS : List FnDef) (entries : List (Bytes × Val))

/-- the code of a function of the table sits in the function environment at the path its name
    has in the balanced name tree (`compute_env_shape` / `finalize_env` agree). -/
theorem fn_code_at (hwf : WF FS) (hent : compileFns (FS.map (·.name)) FS = some entries)
    (f : FnDef) (hf : f ∈ FS) :
    ∃ c q, fnCode (FS.map (·.name)) f = some c ∧
      Lang.nameLookup f.name (Lang.buildTree (FS.map (·.name)) ((FS.map (·.name)).length + 1)) = some q ∧
      Path.lookupNat q (funcs entries) = .ok c := by
  obtain ⟨hs1, hs2⟩ := compileFns_spec _ FS entries hent
  have hatN : ∀ m ∈ FS.map (·.name), m ≠ [64] := by
    intro m hm
    simp only [List.mem_map] at hm
    obtain ⟨g, hg, rfl⟩ := hm
    exact hwf.noAt g hg
  obtain ⟨q, hq⟩ := buildTree_complete ((FS.map (·.name)).length + 1) (FS.map (·.name)) (by omega) hatN
    f.name (List.mem_map.mpr ⟨f, hf, rfl⟩)
  have hlenE : entries.length = (FS.map (·.name)).length := by
    have := congrArg List.length hs1
    simpa using this
  have hq' : Lang.nameLookup f.name (Lang.buildTree (entries.map (·.1)) (entries.length + 1)) = some q := by
    rw [hs1, hlenE]; exact hq
  obtain ⟨c, hc1, hc2⟩ := codeTree_lookup (entries.length + 1) entries (by omega) (by
    intro e he
    obtain ⟨g, hg, hn, _⟩ := hs2 e he
    rw [← hn]; exact hwf.noAt g hg) f.name q hq'
  obtain ⟨g, hg, hn, cb, hcb, he2⟩ := hs2 (f.name, c) hc1
  have hgf : g = f := name_unique FS hwf.nodup g f hg hf hn
  subst hgf
  refine ⟨c, q, ?_, hq, hc2⟩
  simp only at he2
  simp [fnCode, hcb, he2]

end Live

-- locating and calling a function through its hash -------------------------------------------------

/-- the shape `codegen` gives a program with a function environment: `(a (q . MAIN) (c (q . ENV) 1))`. -/
def withEnv (main env : Val) : Val :=
  .pair (.atom [2]) (.pair (qv main) (.pair (.pair (.atom [4]) (.pair (qv env) (.pair (.atom [1]) Val.nil))) Val.nil))

theorem extract_withEnv (main env : Val) :
    extractProgramAndEnv (withEnv main env) = some (qv main, qv env) := by
  have h2 : (Bytes.toInt [2] == 2) = true := by decide
  have h4 : (Bytes.toInt [4] == 4) = true := by decide
  have h1 : (Bytes.toInt [1] == 1) = true := by decide
  simp [withEnv, extractProgramAndEnv, properList, extractEnv, isOperator, Val.nil, qv, h1, h2, h4]

theorem subtree_withEnv (main env s : Val) (h : Lang.Subtree s env) : Lang.Subtree s (withEnv main env) := by
  unfold withEnv
  exact .right _ (.right _ (.left _ (.right _ (.left _ (.right _ h)))))

/-- a path `path_to_function` returns for the hash of a code `(a …)` inside the QUOTED
    environment `(q . ENV)` goes right first, and its half is the code's path inside `ENV`. -/
theorem path_in_quoted (H : Bytes → Bytes) (hH : Function.Injective (Val.treeHash H))
    (env y : Val) (p : Nat)
    (hp : Lang.pathToFunction H (qv env) (Val.treeHash H (.pair (.atom [2]) y)) = some p) :
    Path.lookupNat (p / 2) env = .ok (.pair (.atom [2]) y) := by
  obtain ⟨bs, sub, hw, hh, he⟩ := Lang.inner_correct H _ (qv env) 1 0 p hp
  have hsub : sub = .pair (.atom [2]) y := hH hh
  subst hsub
  have hpe : p = Path.ofBits bs := by simpa using he
  cases bs with
  | nil =>
    simp [Path.walk, qv] at hw
  | cons b r =>
    cases b with
    | false =>
      cases r with
      | nil => simp [Path.walk, qv] at hw
      | cons b2 r2 => simp [Path.walk, qv, failR] at hw
    | true =>
      have hw' : Path.walk r env = .ok (.pair (.atom [2]) y) := by simpa [Path.walk, qv] using hw
      have : p / 2 = Path.ofBits r := by
        rw [hpe]; simp only [Path.ofBits]; simp; omega
      rw [this, Path.lookupNat_ofBits]; exact hw'

theorem toNatBE_ofInt_nat (n : Nat) : Bytes.toNatBE (Bytes.ofInt (Int.ofNat n)) = n := by
  show Bytes.toNatBE (Bytes.posBytes (Bytes.ofNatBE n)) = n
  rw [Bytes.toNatBE_posBytes]
  exact Bytes.toNatBE_ofNatBEAux n n (Nat.le_refl _)

/-- `rewrite_in_program path (q . ENV)` run on `args` fetches the code at `path/2` in `ENV` and
    runs it on `(ENV . args)`. -/
theorem ev_rewrite (ops : OpSem) (hops : OpsCore ops) (p : Nat) (env code args v : Val)
    (hl : Path.lookupNat (p / 2) env = .ok code)
    (hrun : Evaluates ops code (.pair env args) v) :
    Evaluates ops (rewriteInProgram p (qv env)) args v := by
  unfold rewriteInProgram op2
  refine ev_apply ops _ _ args code (.pair env args) v ?_ ?_ hrun
  · refine ev_apply ops _ _ args (.atom (Bytes.ofInt (Int.ofNat (p / 2)))) env code
      (ev_quote ops _ args) (ev_quote ops env args) ?_
    apply evaluates_atom_iff.mpr
    unfold Path.lookup
    rw [toNatBE_ofInt_nat]; exact hl
  · exact ev_cons ops hops (qv env) (.atom [1]) args env args (ev_quote ops _ args) (ev_env ops args)

section Call
variable (ops : OpSem) (H : Bytes → Bytes)
  (FS : List FnDef) (entries : List (Bytes × Val))

/-- the code of a function of the table occurs in the emitted program and is found by
    `path_to_function` in the quoted environment. -/
theorem fn_code_found (hwf : WF FS) (hent : compileFns (FS.map (·.name)) FS = some entries)
    (f : FnDef) (hf : f ∈ FS) (c : Val) (hc : fnCode (FS.map (·.name)) f = some c) (main : Val) :
    Lang.Subtree c (funcs entries) ∧ Lang.Subtree c (withEnv main (funcs entries)) ∧
    (Lang.pathToFunction H (qv (funcs entries)) (Val.treeHash H c)).isSome = true ∧
    (Lang.pathToFunction H (withEnv main (funcs entries)) (Val.treeHash H c)).isSome = true := by
  obtain ⟨c', q, hc', hq, hl⟩ := fn_code_at FS entries hwf hent f hf
  rw [hc] at hc'; simp at hc'; subst hc'
  have hs : Lang.Subtree c (funcs entries) :=
    lookupNat_subtree q (Lang.nameLookup_pos _ _ _ hq) _ _ hl
  refine ⟨hs, subtree_withEnv main _ c hs, ?_, ?_⟩
  · exact Lang.pathToFunction_complete H _ c _ (.right _ hs) rfl
  · exact Lang.pathToFunction_complete H _ c _ (subtree_withEnv main _ c hs) rfl

/-- calling through the symbol table: the program `compose_run_function` builds for the hash
    of a function's code computes the source-level call of that function. -/
theorem call_through_hash (hops : OpsCore ops) (hH : Function.Injective (Val.treeHash H)) (hwf : WF FS)
    (hent : compileFns (FS.map (·.name)) FS = some entries)
    (f : FnDef) (hf : f ∈ FS) (c : Val) (hc : fnCode (FS.map (·.name)) f = some c)
    (p : Nat) (hp : Lang.pathToFunction H (qv (funcs entries)) (Val.treeHash H c) = some p)
    (n : Nat) (args v : Val) (he : evalCore ops FS n f.params args f.body = .ok v) :
    Evaluates ops (rewriteInProgram p (qv (funcs entries))) args v := by
  unfold fnCode at hc
  cases hcb : compileE (Lang.envShape (FS.map (·.name)) f.params) f.body with
  | none => rw [hcb] at hc; simp at hc
  | some cb =>
    rw [hcb] at hc; simp at hc; subst hc
    have hl := path_in_quoted H hH (funcs entries) _ p hp
    have hrun := (compile_sound ops FS entries hops hwf hent n).1 f.params args f.body v cb
      (hwf.patOk f hf) (hwf.disjoint f hf) (hwf.bodyOk f hf) he hcb
    exact ev_rewrite ops hops p (funcs entries) (wrap cb) args v hl (ev_wrap ops cb _ v hrun)

end Call

-- an injective tree hash exists (non-vacuity of the injectivity hypothesis) ------------------------

/-- a self-delimiting "hash": the length in unary, a 0, the bytes. -/
def selfDelim (b : Bytes) : Bytes := List.replicate b.length 1 ++ 0 :: b

theorem unary_prefix_inj (n m : Nat) (t u : Bytes)
    (h : List.replicate n (1 : UInt8) ++ 0 :: t = List.replicate m 1 ++ 0 :: u) : n = m ∧ t = u := by
  induction n generalizing m with
  | zero =>
    cases m with
    | zero => simpa using h
    | succ m =>
      simp [List.replicate_succ] at h
  | succ n ih =>
    cases m with
    | zero =>
      simp [List.replicate_succ] at h
    | succ m =>
      simp only [List.replicate_succ, List.cons_append, List.cons.injEq, true_and] at h
      obtain ⟨h1, h2⟩ := ih m h
      exact ⟨by omega, h2⟩

theorem selfDelim_append_inj (x y r s : Bytes) (h : selfDelim x ++ r = selfDelim y ++ s) :
    x = y ∧ r = s := by
  unfold selfDelim at h
  simp only [List.append_assoc, List.cons_append] at h
  obtain ⟨hlen, ht⟩ := unary_prefix_inj _ _ _ _ h
  exact List.append_inj ht hlen

theorem treeHash_selfDelim_append_inj (v w : Val) (r s : Bytes)
    (h : Val.treeHash selfDelim v ++ r = Val.treeHash selfDelim w ++ s) : v = w ∧ r = s := by
  induction v generalizing w r s with
  | atom x =>
    cases w with
    | atom y =>
      simp only [Val.treeHash] at h
      obtain ⟨h1, h2⟩ := selfDelim_append_inj _ _ _ _ h
      simp at h1
      exact ⟨by rw [h1], h2⟩
    | pair a d =>
      simp only [Val.treeHash] at h
      obtain ⟨h1, _⟩ := selfDelim_append_inj _ _ _ _ h
      simp at h1
  | pair a d iha ihd =>
    cases w with
    | atom y =>
      simp only [Val.treeHash] at h
      obtain ⟨h1, _⟩ := selfDelim_append_inj _ _ _ _ h
      simp at h1
    | pair a' d' =>
      simp only [Val.treeHash] at h
      obtain ⟨h1, h2⟩ := selfDelim_append_inj _ _ _ _ h
      simp only [List.cons.injEq, true_and] at h1
      obtain ⟨ha, hd⟩ := iha a' _ _ h1
      obtain ⟨hd', _⟩ := ihd d' [] [] (by simpa using hd)
      exact ⟨by rw [ha, hd'], h2⟩

/-- there is a hash function whose tree hash is injective. -/
theorem treeHash_selfDelim_injective : Function.Injective (Val.treeHash selfDelim) := by
  intro v w h
  exact (treeHash_selfDelim_append_inj v w [] [] (by simpa using h)).1

-- the whole compilation ---------------------------------------------------------------------------

theorem compileCoreSyms_spec (H : Bytes → Bytes) (P : Prog) (prog : Val) (tab : SymTab)
    (h : compileCoreSyms H P = some (prog, tab)) :
    ∃ main entries,
      compileE (Lang.envShape ((live P).map (·.name)) P.params) P.body = some main ∧
      compileFns ((live P).map (·.name)) (live P) = some entries ∧
      prog = withEnv main (funcs entries) ∧
      tab = symbolsWith H (live P) entries P.params ∧
      compileCore P = some prog := by
  unfold compileCoreSyms at h
  cases hc : compileCore P with
  | none => rw [hc] at h; simp at h
  | some code =>
    cases hent : compileFns ((live P).map (·.name)) (live P) with
    | none => rw [hc, hent] at h; simp at h
    | some entries =>
      rw [hc, hent] at h
      simp only [Option.some.injEq, Prod.mk.injEq] at h
      obtain ⟨h1, h2⟩ := h
      subst h1
      have hc' := hc
      rw [compileCore_eq] at hc'
      unfold compileWith at hc'
      change (match compileE (Lang.envShape ((live P).map (·.name)) P.params) P.body,
          compileFns ((live P).map (·.name)) (live P) with
        | some main, some entries => some (withEnv main (funcs entries))
        | _, _ => none) = some code at hc'
      cases hm : compileE (Lang.envShape ((live P).map (·.name)) P.params) P.body with
      | none => rw [hm] at hc'; simp at hc'
      | some main =>
        rw [hm, hent] at hc'
        simp only [Option.some.injEq] at hc'
        exact ⟨main, entries, rfl, rfl, hc'.symm, h2.symm, rfl⟩

theorem live_wf (P : Prog) (hwf : progWF P = true) : WF (live P) := by
  simp only [progWF, Bool.and_eq_true] at hwf
  exact wf_keep P.fns (liveSet P) (fnsWF_sound P.fns hwf.1.1.1.1.1)

theorem live_mem (P : Prog) (f : FnDef) : f ∈ live P ↔ f ∈ P.fns ∧ (liveSet P).contains f.name = true := by
  unfold live keep
  exact List.mem_filter

/-- source-level calls of a live function only reach live functions. -/
theorem eval_live (ops : OpSem) (P : Prog) (hwf : progWF P = true) (f : FnDef) (hf : f ∈ live P)
    (n : Nat) (args v : Val) (he : evalCore ops P.fns n f.params args f.body = .ok v) :
    evalCore ops (live P) n f.params args f.body = .ok v := by
  simp only [progWF, Bool.and_eq_true] at hwf
  have hcl := hwf.1.2
  obtain ⟨hm, hl⟩ := (live_mem P f).mp hf
  have hbody : (callsOf f.body).all (liveSet P).contains = true := by
    have h := hcl
    unfold liveClosed at h
    rw [List.all_eq_true] at h
    have := h f hm
    simp only [hl, Bool.not_true, Bool.false_or] at this
    exact this
  exact (eval_keep ops P.fns (liveSet P) hcl n).1 f.params args f.body v hbody he

-- the symbol-table theorems on the core ------------------------------------------------------------

section Program
variable (H : Bytes → Bytes) (P : Prog) (prog : Val) (tab : SymTab)

theorem get_fn_symbolsWith (FS : List FnDef) (es : List (Bytes × Val)) (params : Rich) (h : Bytes) :
    symGet (.fn h) (symbolsWith H FS es params) =
      match lastWith H h (pairs FS es) with
      | some y => some (.name y.1.name)
      | none => none := by
  unfold symbolsWith
  rw [symGet_insert_ne _ _ _ _ (by simp), addDefuns_eq, get_fn_addAll]
  cases lastWith H h (pairs FS es) <;> rfl

theorem get_arguments_symbolsWith (FS : List FnDef) (es : List (Bytes × Val)) (params : Rich) (h : Bytes) :
    symGet (.arguments h) (symbolsWith H FS es params) =
      match lastWith H h (pairs FS es) with
      | some y => some (.pattern y.1.params)
      | none => none := by
  unfold symbolsWith
  rw [symGet_insert_ne _ _ _ _ (by simp), addDefuns_eq, get_arguments_addAll]
  cases lastWith H h (pairs FS es) <;> rfl

theorem get_leftEnv_symbolsWith (FS : List FnDef) (es : List (Bytes × Val)) (params : Rich) (h : Bytes) :
    symGet (.leftEnv h) (symbolsWith H FS es params) =
      match lastWith H h (pairs FS es) with
      | some _ => some .one
      | none => none := by
  unfold symbolsWith
  rw [symGet_insert_ne _ _ _ _ (by simp), addDefuns_eq, get_leftEnv_addAll]
  cases lastWith H h (pairs FS es) <;> rfl

theorem get_main_symbolsWith (FS : List FnDef) (es : List (Bytes × Val)) (params : Rich) :
    symGet .mainArguments (symbolsWith H FS es params) = some (.pattern params) := by
  unfold symbolsWith
  exact symGet_insert_self _ _ _

/-- an entry `<hash> ↦ value`: the value is the name of a live function whose code has that
    hash and occurs in the program; `<hash>_arguments` is that function's parameter list and
    `<hash>_left_env` is `1`.  (No injectivity needed.) -/
theorem entry_sound (hwf : progWF P = true) (hc : compileCoreSyms H P = some (prog, tab))
    (h : Bytes) (val : SymVal) (hg : symGet (.fn h) tab = some val) :
    ∃ f ∈ live P, ∃ c, val = .name f.name ∧ codeOf P f = some c ∧ Val.treeHash H c = h ∧
      symGet (.arguments h) tab = some (.pattern f.params) ∧
      symGet (.leftEnv h) tab = some .one ∧ Lang.Subtree c prog := by
  obtain ⟨main, entries, _, hent, hprog, htab, _⟩ := compileCoreSyms_spec H P prog tab hc
  subst htab hprog
  rw [get_fn_symbolsWith] at hg
  rw [get_arguments_symbolsWith, get_leftEnv_symbolsWith]
  cases hl : lastWith H h (pairs (live P) entries) with
  | none => rw [hl] at hg; simp at hg
  | some y =>
    rw [hl] at hg
    simp only [Option.some.injEq] at hg
    obtain ⟨hy1, hy2⟩ := lastWith_mem H h _ y hl
    obtain ⟨hy3, hy4⟩ := (compileFns_pairs _ _ _ hent).1 y hy1
    refine ⟨y.1, hy3, y.2, hg.symm, hy4, hy2, rfl, rfl, ?_⟩
    exact (fn_code_found H (live P) entries (live_wf P hwf) hent y.1 hy3 y.2 hy4 main).2.1

/-- a value that is a function name sits under a plain `<hash>` key. -/
theorem name_value_key (hc : compileCoreSyms H P = some (prog, tab)) (k : SymKey) (n : Bytes)
    (hg : symGet k tab = some (.name n)) : ∃ h, k = .fn h := by
  obtain ⟨main, entries, _, hent, hprog, htab, _⟩ := compileCoreSyms_spec H P prog tab hc
  subst htab
  cases k with
  | fn h => exact ⟨h, rfl⟩
  | arguments h =>
    rw [get_arguments_symbolsWith] at hg
    cases hl : lastWith H h (pairs (live P) entries) <;> rw [hl] at hg <;> simp at hg
  | leftEnv h =>
    rw [get_leftEnv_symbolsWith] at hg
    cases hl : lastWith H h (pairs (live P) entries) <;> rw [hl] at hg <;> simp at hg
  | mainArguments =>
    rw [get_main_symbolsWith] at hg
    simp at hg

/-- presence: every live function's code occurs in the program at the path its name has in
    the environment layout, `path_to_function` finds a subtree with its hash, and the three
    entries of that hash exist and describe a live function with the same code hash. -/
theorem present (hwf : progWF P = true) (hc : compileCoreSyms H P = some (prog, tab))
    (f : FnDef) (hf : f ∈ live P) :
    ∃ code, codeOf P f = some code ∧ Lang.Subtree code prog ∧
      (Lang.pathToFunction H prog (Val.treeHash H code)).isSome = true ∧
      (∃ main env q, extractProgramAndEnv prog = some (qv main, qv env) ∧
        Lang.nameLookup f.name (Lang.buildTree ((live P).map (·.name)) (((live P).map (·.name)).length + 1)) = some q ∧
        Path.lookupNat q env = .ok code) ∧
      ∃ g ∈ live P, ∃ cg, codeOf P g = some cg ∧ Val.treeHash H cg = Val.treeHash H code ∧
        symGet (.fn (Val.treeHash H code)) tab = some (.name g.name) ∧
        symGet (.arguments (Val.treeHash H code)) tab = some (.pattern g.params) ∧
        symGet (.leftEnv (Val.treeHash H code)) tab = some .one := by
  obtain ⟨main, entries, _, hent, hprog, htab, _⟩ := compileCoreSyms_spec H P prog tab hc
  subst htab hprog
  have hW := live_wf P hwf
  obtain ⟨c, hc1, hc2⟩ := (compileFns_pairs _ _ _ hent).2 f hf
  obtain ⟨c', q, hc', hq, hl⟩ := fn_code_at (live P) entries hW hent f hf
  rw [hc1] at hc'; simp at hc'; subst hc'
  obtain ⟨_, hs2, _, hs4⟩ := fn_code_found H (live P) entries hW hent f hf c hc1 main
  refine ⟨c, hc1, hs2, hs4, ⟨main, funcs entries, q, extract_withEnv _ _, hq, hl⟩, ?_⟩
  have hsome := lastWith_some H _ (f, c) hc2
  cases hlw : lastWith H (Val.treeHash H c) (pairs (live P) entries) with
  | none => rw [hlw] at hsome; simp at hsome
  | some y =>
    obtain ⟨hy1, hy2⟩ := lastWith_mem H _ _ y hlw
    obtain ⟨hy3, hy4⟩ := (compileFns_pairs _ _ _ hent).1 y hy1
    refine ⟨y.1, hy3, y.2, hy4, hy2, ?_, ?_, ?_⟩
    · rw [get_fn_symbolsWith, hlw]
    · rw [get_arguments_symbolsWith, hlw]
    · rw [get_leftEnv_symbolsWith, hlw]

/-- truth: under hash injectivity a tree whose hash is a key IS the code of the named function,
    and the program `compose_run_function` builds for that key computes the source-level call. -/
theorem truth (ops : OpSem) (hops : OpsCore ops) (hH : Function.Injective (Val.treeHash H))
    (hwf : progWF P = true) (hc : compileCoreSyms H P = some (prog, tab))
    (h : Bytes) (val : SymVal) (hg : symGet (.fn h) tab = some val)
    (sub : Val) (hsub : Val.treeHash H sub = h) :
    ∃ f ∈ live P, val = .name f.name ∧ codeOf P f = some sub ∧ Lang.Subtree sub prog ∧
      symGet (.arguments h) tab = some (.pattern f.params) ∧
      symGet (.leftEnv h) tab = some .one ∧
      ∃ qmain qenv p, extractProgramAndEnv prog = some (qmain, qenv) ∧
        Lang.pathToFunction H qenv h = some p ∧
        composeRunFunction H prog h = some (rewriteInProgram p qenv) ∧
        ∀ n args v, evalCore ops P.fns n f.params args f.body = .ok v →
          Evaluates ops (rewriteInProgram p qenv) args v := by
  obtain ⟨f, hf, c, hv, hcode, hch, ha, hl, hs⟩ := entry_sound H P prog tab hwf hc h val hg
  have hcs : c = sub := hH (by rw [hch, hsub])
  subst hcs
  obtain ⟨main, entries, _, hent, hprog, htab, _⟩ := compileCoreSyms_spec H P prog tab hc
  subst hprog
  have hW := live_wf P hwf
  obtain ⟨_, _, hs3, _⟩ := fn_code_found H (live P) entries hW hent f hf c hcode main
  cases hp : Lang.pathToFunction H (qv (funcs entries)) (Val.treeHash H c) with
  | none => rw [hp] at hs3; simp at hs3
  | some p =>
    subst hch
    refine ⟨f, hf, hv, hcode, hs, ha, hl, qv main, qv (funcs entries), p, extract_withEnv _ _, hp, ?_, ?_⟩
    · simp [composeRunFunction, extract_withEnv, hp]
    · intro n args v he
      exact call_through_hash ops H (live P) entries hops hH hW hent f hf c hcode p hp n args v
        (eval_live ops P hwf f hf n args v he)

/-- values that are function names name live functions only. -/
theorem name_value_live (hwf : progWF P = true) (hc : compileCoreSyms H P = some (prog, tab))
    (k : SymKey) (n : Bytes) (hg : symGet k tab = some (.name n)) :
    ∃ f ∈ live P, f.name = n ∧ ∃ c, codeOf P f = some c ∧ k = .fn (Val.treeHash H c) := by
  obtain ⟨h, rfl⟩ := name_value_key H P prog tab hc k n hg
  obtain ⟨f, hf, c, hv, hcode, hch, _⟩ := entry_sound H P prog tab hwf hc h _ hg
  simp only [SymVal.name.injEq] at hv
  exact ⟨f, hf, hv.symm, c, hcode, by rw [hch]⟩

/-- no entry names a dead (tree-shaken) function. -/
theorem dead_absent (hwf : progWF P = true) (hc : compileCoreSyms H P = some (prog, tab))
    (d : FnDef) (hdead : (liveSet P).contains d.name = false) (k : SymKey) :
    symGet k tab ≠ some (.name d.name) := by
  intro hg
  obtain ⟨f, hf, hn, _⟩ := name_value_live H P prog tab hwf hc k d.name hg
  have := ((live_mem P f).mp hf).2
  rw [hn, hdead] at this
  simp at this

/-- two live functions with the same code hash cannot both be named in the table. -/
theorem same_code_one_entry (hwf : progWF P = true) (hc : compileCoreSyms H P = some (prog, tab))
    (f g : FnDef) (hf : f ∈ live P) (hg : g ∈ live P) (hne : f.name ≠ g.name)
    (cf cg : Val) (hcf : codeOf P f = some cf) (hcg : codeOf P g = some cg)
    (hsame : Val.treeHash H cf = Val.treeHash H cg) :
    ¬ ((∃ k, symGet k tab = some (.name f.name)) ∧ (∃ k, symGet k tab = some (.name g.name))) := by
  rintro ⟨⟨k1, h1⟩, ⟨k2, h2⟩⟩
  have hW := live_wf P hwf
  obtain ⟨f', hf', hn1, c1, hc1, hk1⟩ := name_value_live H P prog tab hwf hc k1 _ h1
  obtain ⟨g', hg', hn2, c2, hc2, hk2⟩ := name_value_live H P prog tab hwf hc k2 _ h2
  have e1 : f' = f := name_unique (live P) hW.nodup f' f hf' hf hn1
  have e2 : g' = g := name_unique (live P) hW.nodup g' g hg' hg hn2
  subst e1 e2
  rw [hcf] at hc1; rw [hcg] at hc2
  simp only [Option.some.injEq] at hc1 hc2
  subst hc1 hc2
  rw [hk1] at h1; rw [hk2, ← hsame] at h2
  rw [h1] at h2
  simp only [Option.some.injEq, SymVal.name.injEq] at h2
  exact hne h2

end Program

end Core
